(** C32 — proofs, part 2: rewriting of logical expressions ([simp_cond]) is exact. *)
From Coq Require Import ZArith List Bool String Lia.
From LV Require Import Base.Expr Base.MiniF Base.MiniFFacts models.M_C32 proofs.P_C32.
Import ListNotations.
Open Scope Z_scope.

Definition andf (l : list (option bool)) : option bool :=
  fold_right (fun o acc => obind o (fun v => obind acc (fun a => Some (v && a)))) (Some true) l.
Definition orf (l : list (option bool)) : option bool :=
  fold_right (fun o acc => obind o (fun v => obind acc (fun a => Some (v || a)))) (Some false) l.

Lemma andf_cons o l : andf (o :: l) = obind o (fun v => obind (andf l) (fun a => Some (v && a))).
Proof. reflexivity. Qed.
Lemma orf_cons o l : orf (o :: l) = obind o (fun v => obind (orf l) (fun a => Some (v || a))).
Proof. reflexivity. Qed.

Lemma evalB_and rho cs : evalB rho (EAnd cs) = andf (map (evalB rho) cs).
Proof. induction cs as [|c r IH]; [reflexivity|]. cbn [map]. rewrite andf_cons, <- IH. reflexivity. Qed.

Lemma evalB_or rho cs : evalB rho (EOr cs) = orf (map (evalB rho) cs).
Proof. induction cs as [|c r IH]; [reflexivity|]. cbn [map]. rewrite orf_cons, <- IH. reflexivity. Qed.

Definition all_some (l : list (option bool)) : Prop := forall o, In o l -> exists b, o = Some b.

Lemma all_some_cons o l : all_some (o :: l) -> (exists b, o = Some b) /\ all_some l.
Proof. intros H. split; [apply H; now left|intros x I; apply H; now right]. Qed.

Lemma andf_some l : all_some l -> exists b, andf l = Some b.
Proof.
  induction l as [|o r IH]; intros H; [eexists; reflexivity|].
  apply all_some_cons in H. destruct H as [[b E] H]. destruct (IH H) as [c Ec].
  subst. rewrite andf_cons, Ec. cbn. eexists; reflexivity.
Qed.

Lemma orf_some l : all_some l -> exists b, orf l = Some b.
Proof.
  induction l as [|o r IH]; intros H; [eexists; reflexivity|].
  apply all_some_cons in H. destruct H as [[b E] H]. destruct (IH H) as [c Ec].
  subst. rewrite orf_cons, Ec. cbn. eexists; reflexivity.
Qed.

Lemma andf_false l : all_some l -> In (Some false) l -> andf l = Some false.
Proof.
  induction l as [|o r IH]; intros H I; [destruct I|].
  apply all_some_cons in H. destruct H as [[b E] H]. subst o.
  destruct (andf_some r H) as [c Ec]. rewrite andf_cons, Ec. cbn [obind].
  destruct I as [I|I].
  - inversion I. reflexivity.
  - rewrite (IH H I) in Ec. inversion Ec. subst. now rewrite andb_false_r.
Qed.

Lemma orf_true l : all_some l -> In (Some true) l -> orf l = Some true.
Proof.
  induction l as [|o r IH]; intros H I; [destruct I|].
  apply all_some_cons in H. destruct H as [[b E] H]. subst o.
  destruct (orf_some r H) as [c Ec]. rewrite orf_cons, Ec. cbn [obind].
  destruct I as [I|I].
  - inversion I. reflexivity.
  - rewrite (IH H I) in Ec. inversion Ec. subst. now rewrite orb_true_r.
Qed.

Lemma andf_drop_true rho cs :
  andf (map (evalB rho) (filter (fun x => negb (is_true x)) cs)) = andf (map (evalB rho) cs).
Proof.
  induction cs as [|c r IH]; [reflexivity|]. cbn [filter].
  destruct (is_true c) eqn:T; cbn [negb map].
  - destruct c; try discriminate. destruct b; try discriminate.
    rewrite andf_cons, IH. cbn [evalB obind]. destruct (andf (map (evalB rho) r)); reflexivity.
  - rewrite !andf_cons. now rewrite IH.
Qed.

Lemma orf_drop_false rho cs :
  orf (map (evalB rho) (filter (fun x => negb (is_false x)) cs)) = orf (map (evalB rho) cs).
Proof.
  induction cs as [|c r IH]; [reflexivity|]. cbn [filter].
  destruct (is_false c) eqn:T; cbn [negb map].
  - destruct c; try discriminate. destruct b; try discriminate.
    rewrite orf_cons, IH. cbn [evalB obind]. destruct (orf (map (evalB rho) r)); reflexivity.
  - rewrite !orf_cons. now rewrite IH.
Qed.

(** totality of the logical expressions that a short-circuit may drop *)
Lemma total_c_ev s : forall c, total_c c = true -> exists b, evalB (env_st s) c = Some b.
Proof.
  induction c using expr_ind'; cbn [total_c]; try discriminate; intros T.
  - eexists; reflexivity.
  - apply andb_true_iff in T. destruct T as [T1 T2].
    destruct (total_e_ev s _ T1) as [a Ea]. destruct (total_e_ev s _ T2) as [b Eb].
    cbn. rewrite Ea, Eb. cbn. eexists; reflexivity.
  - rewrite evalB_and. apply andf_some. intros o I. apply in_map_iff in I. destruct I as [x [E I]]. subst o.
    rewrite Forall_forall in H. rewrite forallb_forall in T. now apply H; [|apply T].
  - rewrite evalB_or. apply orf_some. intros o I. apply in_map_iff in I. destruct I as [x [E I]]. subst o.
    rewrite Forall_forall in H. rewrite forallb_forall in T. now apply H; [|apply T].
  - destruct (IHc T) as [b E]. cbn. rewrite E. cbn. eexists; reflexivity.
Qed.

(** the list traversal inside [simp_cond] *)
Definition simp_cond_list (force : bool) (m : cmap) : list expr -> option (list expr) :=
  fix go (l : list expr) : option (list expr) :=
    match l with
    | [] => Some []
    | x :: r => match simp_cond force m x, go r with Some x', Some r' => Some (x' :: r') | _, _ => None end
    end.

Lemma simp_cond_list_cons force m x r :
  simp_cond_list force m (x :: r) =
  match simp_cond force m x, simp_cond_list force m r with Some x', Some r' => Some (x' :: r') | _, _ => None end.
Proof. reflexivity. Qed.

Lemma simp_cond_list_sound force m rho cs :
  Forall (fun c => forall c', simp_cond force m c = Some c' -> evalB rho c' = evalB rho c) cs ->
  forall cs', simp_cond_list force m cs = Some cs' -> map (evalB rho) cs' = map (evalB rho) cs.
Proof.
  induction 1 as [|c r Hc Hr IH]; intros cs'.
  - cbn. intros E; inversion E; reflexivity.
  - rewrite simp_cond_list_cons. destruct (simp_cond force m c) as [c'|] eqn:Ec; [|discriminate].
    destruct (simp_cond_list force m r) as [r'|] eqn:Er; [|discriminate].
    intros E; inversion E; subst. cbn [map]. now rewrite (Hc _ eq_refl), (IH _ eq_refl).
Qed.

Lemma existsb_is_false cs : existsb is_false cs = true -> In (ELog false) cs.
Proof.
  intros H. apply existsb_exists in H. destruct H as [x [I T]].
  destruct x; try discriminate. destruct b; try discriminate. exact I.
Qed.

Lemma existsb_is_true cs : existsb is_true cs = true -> In (ELog true) cs.
Proof.
  intros H. apply existsb_exists in H. destruct H as [x [I T]].
  destruct x; try discriminate. destruct b; try discriminate. exact I.
Qed.

Lemma all_total s cs : forallb total_c cs = true -> all_some (map (evalB (env_st s)) cs).
Proof.
  intros T o I. apply in_map_iff in I. destruct I as [x [E I]]. subst o.
  rewrite forallb_forall in T. apply total_c_ev. now apply T.
Qed.

Theorem simp_cond_sound force m s : agrees m s ->
  forall c c', simp_cond force m c = Some c' -> evalB (env_st s) c' = evalB (env_st s) c.
Proof.
  intros A. induction c using expr_ind'; intros c'; try (cbn; discriminate).
  - cbn. intros E; inversion E; reflexivity.
  - cbn [simp_cond].
    destruct (simp force m c1) as [x|] eqn:E1; [|discriminate].
    destruct (simp force m c2) as [y|] eqn:E2; [|destruct x; discriminate].
    pose proof (simp_sound force m s A _ _ E1) as S1. pose proof (simp_sound force m s A _ _ E2) as S2.
    assert (G : evalB (env_st s) (ECmp op (expr_of x) (expr_of y)) = evalB (env_st s) (ECmp op c1 c2)).
    { cbn [evalB]. now rewrite S1, S2. }
    destruct x as [a|a|a|a], y as [b|b|b|b]; intros E; inversion E; subst; try exact G.
    rewrite <- G. cbn [evalB expr_of]. rewrite !ev_lit. reflexivity.
  - change (simp_cond force m (EAnd cs)) with
      (match simp_cond_list force m cs with
       | Some cs' =>
           if existsb is_false cs' then (if forallb total_c cs' then Some (ELog false) else None)
           else match filter (fun x => negb (is_true x)) cs' with
                | [] => Some (ELog true)
                | rest => Some (EAnd rest)
                end
       | None => None
       end).
    destruct (simp_cond_list force m cs) as [cs'|] eqn:L; [|discriminate].
    pose proof (simp_cond_list_sound force m (env_st s) cs H cs' L) as M.
    rewrite evalB_and, <- M.
    destruct (existsb is_false cs') eqn:X.
    + destruct (forallb total_c cs') eqn:T; [|discriminate]. intros E; inversion E; subst.
      cbn [evalB]. symmetry. apply andf_false; [now apply all_total|].
      apply existsb_is_false in X. change (Some false) with (evalB (env_st s) (ELog false)). now apply in_map.
    + rewrite <- andf_drop_true.
      destruct (filter (fun x => negb (is_true x)) cs') as [|q rest]; intros E; inversion E; subst.
      * reflexivity.
      * now rewrite evalB_and.
  - change (simp_cond force m (EOr cs)) with
      (match simp_cond_list force m cs with
       | Some cs' =>
           if existsb is_true cs' then (if forallb total_c cs' then Some (ELog true) else None)
           else match filter (fun x => negb (is_false x)) cs' with
                | [] => Some (ELog false)
                | rest => Some (EOr rest)
                end
       | None => None
       end).
    destruct (simp_cond_list force m cs) as [cs'|] eqn:L; [|discriminate].
    pose proof (simp_cond_list_sound force m (env_st s) cs H cs' L) as M.
    rewrite evalB_or, <- M.
    destruct (existsb is_true cs') eqn:X.
    + destruct (forallb total_c cs') eqn:T; [|discriminate]. intros E; inversion E; subst.
      cbn [evalB]. symmetry. apply orf_true; [now apply all_total|].
      apply existsb_is_true in X. change (Some true) with (evalB (env_st s) (ELog true)). now apply in_map.
    + rewrite <- orf_drop_false.
      destruct (filter (fun x => negb (is_false x)) cs') as [|q rest]; intros E; inversion E; subst.
      * reflexivity.
      * now rewrite evalB_or.
  - cbn [simp_cond]. destruct (simp_cond force m c) as [x|] eqn:E1; [|discriminate].
    pose proof (IHc _ eq_refl) as S1.
    assert (G : evalB (env_st s) (ENot x) = evalB (env_st s) (ENot c)).
    { cbn [evalB]. now rewrite S1. }
    destruct x; intros E; inversion E; subst; try exact G.
Qed.
