(** C28 — frame lemma (what a program does not write stays unchanged) and the copy-in / copy-out lemmas. *)
From Coq Require Import ZArith List Bool String Lia.
From LV Require Import Base.Expr Base.MiniF Base.MiniFFacts models.M_C28 proofs.P_C28_norm proofs.P_C28_subst.
Import ListNotations.
Open Scope Z_scope.

Definition unchanged (Ws Wa : list string) (s s' : store) : Prop :=
  (forall z, ~ In z Ws -> sv s' z = sv s z) /\ (forall a, ~ In a Wa -> forall i, av s' a i = av s a i).

Lemma unchanged_refl Ws Wa s : unchanged Ws Wa s s.
Proof. split; intros; reflexivity. Qed.

Lemma unchanged_trans Ws Wa s1 s2 s3 : unchanged Ws Wa s1 s2 -> unchanged Ws Wa s2 s3 -> unchanged Ws Wa s1 s3.
Proof.
  intros [A1 A2] [B1 B2]. split.
  - intros z Hz. rewrite (B1 z Hz). apply A1; exact Hz.
  - intros a Ha i. rewrite (B2 a Ha i). apply A2; exact Ha.
Qed.

Lemma unchanged_weaken Ws Wa Ws' Wa' s s' :
  (forall z, In z Ws -> In z Ws') -> (forall a, In a Wa -> In a Wa') -> unchanged Ws Wa s s' -> unchanged Ws' Wa' s s'.
Proof. intros H1 H2 [A1 A2]. split; intros; [apply A1|apply A2]; auto. Qed.

Definition arg_vars (args : list expr) : list string :=
  flat_map (fun a => match a with EVar x => [x] | _ => [] end) args.

Lemma copy_out_unchanged callee params : forall args caller,
  unchanged (arg_vars args) (arg_vars args) caller (copy_out callee params args caller).
Proof.
  induction params as [|[d b] ps IH]; intros args caller; destruct args as [|e r]; cbn [copy_out]; try apply unchanged_refl.
  - destruct b; apply unchanged_refl.
  - assert (Hr : forall c, unchanged (arg_vars (e :: r)) (arg_vars (e :: r)) c (copy_out callee ps r c)).
    { intros c. eapply unchanged_weaken; [| |apply IH]; intros z Hz; unfold arg_vars; cbn [flat_map]; apply in_or_app; now right. }
    destruct e; try (destruct b; apply Hr).
    destruct b.
    + eapply unchanged_trans; [|apply Hr]. split; [intros; reflexivity|].
      intros a Ha i. cbn. destruct (String.eqb a x) eqn:E; [|reflexivity].
      apply String.eqb_eq in E. subst. exfalso. apply Ha. cbn. now left.
    + eapply unchanged_trans; [|apply Hr]. split; [|intros; reflexivity].
      intros z Hz. cbn. destruct (String.eqb z x) eqn:E; [|reflexivity].
      apply String.eqb_eq in E. subst. exfalso. apply Hz. cbn. now left.
Qed.

Lemma do_loop_unchanged Ws Wa (run : store -> option store) v d :
  In v Ws -> (forall s s', run s = Some s' -> unchanged Ws Wa s s') ->
  forall n i s s', do_loop run v d n i s = Some s' -> unchanged Ws Wa s s'.
Proof.
  intros Hv Hrun. assert (Hset : forall i s, unchanged Ws Wa s (set_sv v i s)).
  { intros i s. split; [|intros; reflexivity]. intros z Hz. cbn.
    destruct (String.eqb z v) eqn:E; [|reflexivity]. apply String.eqb_eq in E. subst. contradiction. }
  induction n as [|n IH]; intros i s s' H; cbn [do_loop] in H.
  - inversion H. apply Hset.
  - apply obind_some in H. destruct H as [s2 [H1 H2]].
    eapply unchanged_trans; [apply Hset|]. eapply unchanged_trans; [apply Hrun; exact H1|]. eapply IH; exact H2.
Qed.

Lemma exec_frame ps : forall f ss s s', exec ps f ss s = Some s' -> unchanged (wrs ss) (wra ss) s s'.
Proof.
  induction f as [|f IH]; intros ss s s' H; [discriminate|].
  destruct ss as [|st rest]; [inversion H; apply unchanged_refl|].
  rewrite exec_unfold in H. apply obind_some in H. destruct H as [s1 [H1 H2]].
  assert (Hst : unchanged (wr_s st) (wr_a st) s s1).
  { destruct st as [x e|a idx e|v lo hi stp b|c b|c tb eb|g args|l]; cbn [exec1] in H1.
    - apply obind_some in H1. destruct H1 as [v [_ E]]. inversion E. split; [|intros; reflexivity].
      intros z Hz. cbn. destruct (String.eqb z x) eqn:Ez; [|reflexivity]. apply String.eqb_eq in Ez. subst.
      exfalso. apply Hz. cbn. now left.
    - apply obind_some in H1. destruct H1 as [i [_ E]]. apply obind_some in E. destruct E as [v [_ E]]. inversion E.
      split; [intros; reflexivity|]. intros b Hb j. cbn. destruct (String.eqb b a) eqn:Eb; [|reflexivity].
      apply String.eqb_eq in Eb. subst. exfalso. apply Hb. cbn. now left.
    - apply obind_some in H1. destruct H1 as [a0 [_ E]]. apply obind_some in E. destruct E as [b0 [_ E]].
      apply obind_some in E. destruct E as [d [_ E]]. destruct (d =? 0); [discriminate|].
      eapply (do_loop_unchanged (wr_s (SDo v lo hi stp b)) (wr_a (SDo v lo hi stp b))); [cbn; now left| |exact E].
      intros t t' Ht. eapply unchanged_weaken; [| |apply (IH b t t' Ht)]; intros z Hz; cbn; [right|]; exact Hz.
    - apply obind_some in H1. destruct H1 as [bb [_ E]]. destruct bb; [|inversion E; apply unchanged_refl].
      apply obind_some in E. destruct E as [t [E1 E2]].
      eapply unchanged_trans; [apply (IH b s t E1)|].
      pose proof (IH [SWhile c b] t s1 E2) as K. unfold wrs, wra in K. cbn [flat_map] in K. rewrite !app_nil_r in K. exact K.
    - apply obind_some in H1. destruct H1 as [bb [_ E]]. destruct bb.
      + eapply unchanged_weaken; [| |apply (IH tb s s1 E)]; intros z Hz; cbn; apply in_or_app; now left.
      + eapply unchanged_weaken; [| |apply (IH eb s s1 E)]; intros z Hz; cbn; apply in_or_app; now right.
    - apply obind_some in H1. destruct H1 as [p [_ E]]. apply obind_some in E. destruct E as [s0 [_ E]].
      apply obind_some in E. destruct E as [s2 [_ E]]. inversion E. apply copy_out_unchanged.
    - inversion H1. apply unchanged_refl. }
  eapply unchanged_trans.
  - eapply unchanged_weaken; [| |exact Hst]; intros z Hz; unfold wrs, wra; cbn [flat_map]; apply in_or_app; now left.
  - eapply unchanged_weaken; [| |apply (IH rest s1 s' H2)]; intros z Hz; unfold wrs, wra; cbn [flat_map]; apply in_or_app; now right.
Qed.

(** * copy-in with offsets *)
Lemma copy_in_o_spec s offs : forall params args callee sc0,
  copy_in_o s params args offs callee = Some sc0 -> NoDup (map fst params) ->
  (forall z, ~ In z (map fst params) -> sv sc0 z = sv callee z /\ forall i, av sc0 z i = av callee z i) /\
  (forall d e, In ((d, false), e) (combine params args) -> evalZ (env_st s) e = Some (sv sc0 d)) /\
  (forall d a, In ((d, true), EVar a) (combine params args) -> forall i, av sc0 d i = av s a (shiftz (offs d) i)).
Proof.
  induction params as [|[d b] ps IH]; intros args callee sc0 H Hnd.
  - destruct args; [|discriminate]. inversion H. subst. repeat split; intros; try reflexivity; contradiction.
  - destruct args as [|e r]; [destruct b; discriminate|].
    cbn [map fst] in Hnd. inversion Hnd as [|? ? Hnotin Hnd']. subst.
    destruct b.
    + destruct e; try discriminate. cbn [copy_in_o] in H.
      destruct (IH r _ sc0 H Hnd') as [P1 [P2 P3]]. split; [|split].
      * intros z Hz. cbn [map fst] in Hz. destruct (P1 z) as [Q1 Q2]; [intro; apply Hz; now right|].
        split; [rewrite Q1; reflexivity|]. intros i. rewrite Q2. cbn.
        destruct (String.eqb z d) eqn:E; [|reflexivity]. apply String.eqb_eq in E. subst. exfalso. apply Hz. now left.
      * intros d0 e0 Hin. cbn [combine] in Hin. destruct Hin as [Hin|Hin]; [inversion Hin|]. apply P2; exact Hin.
      * intros d0 a0 Hin. cbn [combine] in Hin. destruct Hin as [Hin|Hin].
        -- inversion Hin. subst. intros i. destruct (P1 d0 Hnotin) as [_ Q2]. rewrite Q2. cbn. rewrite String.eqb_refl. reflexivity.
        -- apply P3; exact Hin.
    + cbn [copy_in_o] in H. destruct (evalZ (env_st s) e) as [v|] eqn:Ev; [|discriminate].
      destruct (IH r _ sc0 H Hnd') as [P1 [P2 P3]]. split; [|split].
      * intros z Hz. cbn [map fst] in Hz. destruct (P1 z) as [Q1 Q2]; [intro; apply Hz; now right|].
        split; [|intros i; rewrite Q2; reflexivity]. rewrite Q1. cbn.
        destruct (String.eqb z d) eqn:E; [|reflexivity]. apply String.eqb_eq in E. subst. exfalso. apply Hz. now left.
      * intros d0 e0 Hin. cbn [combine] in Hin. destruct Hin as [Hin|Hin].
        -- inversion Hin. subst. destruct (P1 d0 Hnotin) as [Q1 _]. rewrite Q1. cbn. rewrite String.eqb_refl. exact Ev.
        -- apply P2; exact Hin.
      * intros d0 a0 Hin. cbn [combine] in Hin. destruct Hin as [Hin|Hin]; [inversion Hin|]. apply P3; exact Hin.
Qed.

Lemma argmap_s_assoc params : forall (args : list expr) d e,
  NoDup (map fst params) -> In ((d, false), e) (combine params args) -> assoc (argmap_s params args) d = Some e.
Proof.
  induction params as [|[d0 b] ps IH]; intros args d e Hnd Hin; [contradiction|].
  destruct args as [|e0 r]; [contradiction|]. cbn [map fst] in Hnd. inversion Hnd as [|? ? Hnotin Hnd']. subst.
  cbn [combine] in Hin. destruct Hin as [Hin|Hin].
  - inversion Hin. subst. cbn. rewrite String.eqb_refl. reflexivity.
  - assert (Hne : d0 <> d).
    { intro. subst. apply Hnotin. apply in_combine_l in Hin. apply (in_map (@fst string bool)) in Hin. exact Hin. }
    destruct b; cbn [argmap_s]; [apply IH; assumption|].
    cbn [assoc]. apply String.eqb_neq in Hne. rewrite Hne. apply IH; assumption.
Qed.

Lemma sdummies_in_combine params : forall (args : list expr) d,
  List.length args = List.length params -> In d (flat_map (fun p : string * bool => if snd p then [] else [fst p]) params) ->
  exists e, In ((d, false), e) (combine params args).
Proof.
  induction params as [|[d0 b] ps IH]; intros args d Hlen Hin; [contradiction|].
  destruct args as [|e0 r]; [discriminate|]. cbn in Hlen. injection Hlen as Hlen.
  cbn [flat_map snd fst] in Hin. destruct b.
  - cbn in Hin. destruct (IH r d Hlen Hin) as [e He]. exists e. cbn. now right.
  - cbn in Hin. destruct Hin as [Hin|Hin].
    + subst. exists e0. cbn. now left.
    + destruct (IH r d Hlen Hin) as [e He]. exists e. cbn. now right.
Qed.

Lemma adummies_in_combine params : forall args d,
  arr_args_ok params args = true -> In d (flat_map (fun p : string * bool => if snd p then [fst p] else []) params) ->
  exists a, In ((d, true), EVar a) (combine params args).
Proof.
  induction params as [|[d0 b] ps IH]; intros args d Hok Hin; [contradiction|].
  destruct args as [|e0 r]; [destruct b; discriminate|].
  cbn [flat_map snd fst] in Hin. destruct b.
  - destruct e0; try discriminate. cbn [arr_args_ok] in Hok. cbn in Hin. destruct Hin as [Hin|Hin].
    + subst. exists x. cbn. now left.
    + destruct (IH r d Hok Hin) as [a Ha]. exists a. cbn. now right.
  - cbn [arr_args_ok] in Hok. cbn in Hin. destruct (IH r d Hok Hin) as [a Ha]. exists a. cbn. now right.
Qed.

Lemma amap_ok_in amap params : forall args d a,
  amap_ok amap params args = true -> In ((d, true), EVar a) (combine params args) ->
  exists t, assoc amap d = Some (a, t).
Proof.
  induction params as [|[d0 b] ps IH]; intros args d a Hok Hin; [contradiction|].
  destruct args as [|e0 r]; [contradiction|]. cbn [combine] in Hin. destruct Hin as [Hin|Hin].
  - inversion Hin. subst. cbn [amap_ok] in Hok. apply andb_prop in Hok. destruct Hok as [H1 _].
    destruct (assoc amap d) as [[a' t]|]; [|discriminate]. cbn in H1. apply String.eqb_eq in H1. subst. eauto.
  - apply (IH r d a); [|exact Hin]. destruct b; [|exact Hok]. destruct e0; try exact Hok.
    cbn [amap_ok] in Hok. apply andb_prop in Hok. apply Hok.
Qed.

(** * copy-out *)
Definition agree_except (Hs Ha : list string) (s1 s2 : store) : Prop :=
  (forall x, ~ In x Hs -> sv s1 x = sv s2 x) /\ (forall a, ~ In a Ha -> forall i, av s1 a i = av s2 a i).

Lemma copy_out_agree Hs sc1 s2 offs : forall params args cur,
  (forall d x, In ((d, false), EVar x) (combine params args) -> sv sc1 d = sv s2 x) ->
  (forall d a, In ((d, true), EVar a) (combine params args) -> forall j, av sc1 d (shiftz (map Z.opp (offs d)) j) = av s2 a j) ->
  (forall z, ~ In z Hs -> ~ In z (actual_vars params args) -> sv cur z = sv s2 z) ->
  (forall a, ~ In a (actual_arrs params args) -> forall j, av cur a j = av s2 a j) ->
  agree_except Hs [] (copy_out_o sc1 params args offs cur) s2.
Proof.
  induction params as [|[d b] ps IH]; intros args cur P1 P2 P3 P4.
  - cbn. split; [intros z Hz; apply P3; [exact Hz|] | intros a _ j; apply P4]; destruct args; intros K; exact K.
  - destruct args as [|e r].
    + assert (E0 : copy_out_o sc1 ((d, b) :: ps) [] offs cur = cur) by (destruct b; reflexivity).
      assert (E1 : actual_vars ((d, b) :: ps) [] = []) by (destruct b; reflexivity).
      assert (E2 : actual_arrs ((d, b) :: ps) [] = []) by (destruct b; reflexivity).
      rewrite E0. rewrite E1 in P3. rewrite E2 in P4.
      split; [intros z Hz; apply P3; [exact Hz|intros K; exact K] | intros a _ j; apply P4; intros K; exact K].
    + assert (T1 : forall d0 x, In ((d0, false), EVar x) (combine ps r) -> sv sc1 d0 = sv s2 x).
      { intros d0 x Hin. apply P1. cbn. now right. }
      assert (T2 : forall d0 a, In ((d0, true), EVar a) (combine ps r) -> forall j, av sc1 d0 (shiftz (map Z.opp (offs d0)) j) = av s2 a j).
      { intros d0 a Hin. apply P2. cbn. now right. }
      assert (Skip : actual_vars ((d, b) :: ps) (e :: r) = actual_vars ps r -> actual_arrs ((d, b) :: ps) (e :: r) = actual_arrs ps r ->
                     copy_out_o sc1 ((d, b) :: ps) (e :: r) offs cur = copy_out_o sc1 ps r offs cur ->
                     agree_except Hs [] (copy_out_o sc1 ((d, b) :: ps) (e :: r) offs cur) s2).
      { intros E1 E2 E3. rewrite E3. apply IH; [exact T1|exact T2| |].
        - intros z Hz Hz2. apply P3; [exact Hz|]. rewrite E1. exact Hz2.
        - intros a Ha. apply P4. rewrite E2. exact Ha. }
      destruct e; try (apply Skip; destruct b; reflexivity).
      destruct b.
      * cbn [copy_out_o]. apply IH; [exact T1|exact T2| |].
        -- intros z Hz Hz2. cbn. apply P3; assumption.
        -- intros a Ha j. cbn. destruct (String.eqb a x) eqn:E.
           ++ apply String.eqb_eq in E. subst. apply (P2 d x). cbn. now left.
           ++ apply P4. cbn. intros [K|K]; [subst; rewrite String.eqb_refl in E; discriminate|contradiction].
      * cbn [copy_out_o]. apply IH; [exact T1|exact T2| |].
        -- intros z Hz Hz2. cbn. destruct (String.eqb z x) eqn:E.
           ++ apply String.eqb_eq in E. subst. apply (P1 d x). cbn. now left.
           ++ apply P3; [exact Hz|]. cbn. intros [K|K]; [subst; rewrite String.eqb_refl in E; discriminate|contradiction].
        -- intros a Ha j. cbn. apply P4. exact Ha.
Qed.

(** * MiniF's own call semantics is the offset semantics with empty offsets *)
Lemma copy_in_o_plain caller offs : (forall d, offs d = []) ->
  forall params args callee, copy_in_o caller params args offs callee = copy_in caller params args callee.
Proof.
  intros Ho. induction params as [|[d b] ps IH]; intros args callee; destruct args as [|e r]; cbn [copy_in_o copy_in]; try reflexivity.
  destruct b.
  - destruct e; try reflexivity. rewrite (Ho d). cbn [shiftz]. apply IH.
  - destruct (evalZ (env_st caller) e); [apply IH|reflexivity].
Qed.

Lemma copy_out_o_plain callee offs : (forall d, offs d = []) ->
  forall params args caller, copy_out_o callee params args offs caller = copy_out callee params args caller.
Proof.
  intros Ho. induction params as [|[d b] ps IH]; intros args caller; destruct args as [|e r]; cbn [copy_out_o copy_out]; try reflexivity.
  destruct b; destruct e; try apply IH. rewrite (Ho d). cbn [map shiftz]. apply IH.
Qed.
