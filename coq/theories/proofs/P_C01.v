(** C01 — line level: the reference reader inverts the statement printer (unbounded nesting). *)
From Coq Require Import ZArith List Bool String Lia.
From LV Require Import Base.Expr Base.MiniF models.M_C06 models.M_C01.
Import ListNotations.
Open Scope Z_scope.

(** induction principle through the nested lists *)
Section fstmt_ind'.
  Variable P : fstmt -> Prop.
  Hypothesis HS : forall m, P (FSimple m).
  Hypothesis HD : forall v lo hi st b, Forall P b -> P (FDo v lo hi st b).
  Hypothesis HW : forall c b, Forall P b -> P (FWhile c b).
  Hypothesis HI : forall c t e fl, Forall P t -> Forall P e -> P (FIf c t e fl).
  Hypothesis HL : forall c m, P (FIfInline c m).
  Hypothesis HC : forall s, P (FComment s).
  Fixpoint fstmt_ind' (s : fstmt) : P s :=
    let fix go (l : list fstmt) : Forall P l :=
      match l with [] => Forall_nil P | x :: r => Forall_cons x (fstmt_ind' x) (go r) end in
    match s with
    | FSimple m => HS m
    | FDo v lo hi st b => HD v lo hi st b (go b)
    | FWhile c b => HW c b (go b)
    | FIf c t e fl => HI c t e fl (go t) (go e)
    | FIfInline c m => HL c m
    | FComment s => HC s
    end.
End fstmt_ind'.

Lemma Forall_list_ind (P : fstmt -> Prop) : (forall s, P s) -> forall l, Forall P l.
Proof. intros H l. induction l; constructor; auto. Qed.

Definition is_term (l : line) : bool :=
  match l with LEndDo | LElse | LElseIf _ | LEndIf => true | _ => false end.
Definition stops (rest : list line) : Prop :=
  match rest with [] => True | l :: _ => is_term l = true end.

Lemma ssize_pos s : (1 <= ssize s)%nat.
Proof. destruct s; cbn; lia. Qed.

Lemma lsize_cons s r : lsize (s :: r) = (ssize s + lsize r)%nat.
Proof. reflexivity. Qed.

Lemma lines_of_cons s r : lines_of (s :: r) = lines1 false s ++ lines_of r.
Proof. reflexivity. Qed.

(** reading one statement, then continuing with the same fuel *)
Definition A (s : fstmt) : Prop := forall f tail, (ssize s <= f)%nat ->
  read_block (S f) (lines1 false s ++ tail) =
  match read_block f tail with Some (ss, r') => Some (s :: ss, r') | None => None end.

(** reading a conditional printed as an ELSE IF continuation *)
Definition B (s : fstmt) : Prop :=
  match s with
  | FIf _ _ _ _ => forall f tail, (ssize s <= f)%nat -> read_else (S f) (lines1 true s ++ tail) = Some ([s], true, tail)
  | _ => True
  end.

Lemma read_block_stop f rest : stops rest -> read_block (S f) rest = Some ([], rest).
Proof.
  destruct rest as [|l r]; [reflexivity|]. cbn [stops]. intros H.
  destruct l; cbn in H; try discriminate; reflexivity.
Qed.

Lemma read_list p : Forall A p -> forall f rest, stops rest -> (lsize p < f)%nat ->
  read_block f (lines_of p ++ rest) = Some (p, rest).
Proof.
  induction 1 as [|s r Hs Hr IH]; intros f rest Hst Hf.
  - destruct f as [|f]; [cbn in Hf; lia|]. cbn [lines_of flat_map app]. now apply read_block_stop.
  - rewrite lsize_cons in Hf. destruct f as [|f]; [lia|].
    rewrite lines_of_cons, <- app_assoc. rewrite (Hs f); [|lia].
    pose proof (ssize_pos s). rewrite IH; [reflexivity|exact Hst|lia].
Qed.

Definition else_part (e : list fstmt) (fl : bool) : list line :=
  if fl then
    match e with
    | [s2] => match s2 with FIf _ _ _ _ => lines1 true s2 | _ => [LErr] end
    | _ => [LErr]
    end
  else (match e with [] => [] | _ => LElse :: flat_map (lines1 false) e end) ++ [LEndIf].

Lemma lines1_if ei c t e fl :
  lines1 ei (FIf c t e fl) = (if ei then LElseIf c else LIf c) :: lines_of t ++ else_part e fl.
Proof. reflexivity. Qed.

Definition shape_ok (e : list fstmt) (fl : bool) : bool :=
  if fl then match e with [FIf _ _ _ _] => true | _ => false end else true.

Lemma read_else_part e fl : Forall A e -> Forall B e -> shape_ok e fl = true ->
  forall f tail, (lsize e + 2 <= f)%nat -> read_else f (else_part e fl ++ tail) = Some (e, fl, tail).
Proof.
  intros HA HB Hsh f tail Hf. unfold else_part. destruct fl.
  - cbn in Hsh. destruct e as [|s2 r]; try discriminate. destruct s2; try discriminate. destruct r; try discriminate.
    inversion HB as [|? ? Hb _]; subst. cbn [B] in Hb.
    destruct f as [|f]; [lia|]. apply Hb. unfold lsize in Hf. cbn [fold_right] in Hf. lia.
  - destruct e as [|s r].
    + destruct f as [|f]; [lia|]. reflexivity.
    + destruct f as [|f]; [lia|].
      change ((LElse :: flat_map (lines1 false) (s :: r)) ++ [LEndIf]) with (LElse :: lines_of (s :: r) ++ [LEndIf]).
      cbn [app read_else]. rewrite <- app_assoc. cbn [app].
      rewrite (read_list (s :: r) HA f (LEndIf :: tail)); [reflexivity|reflexivity|lia].
Qed.

Lemma ssize_if c t e fl : ssize (FIf c t e fl) = S (S (lsize t + lsize e)).
Proof. reflexivity. Qed.

Lemma stops_else_part e fl tail : stops (else_part e fl ++ tail) \/ else_part e fl = [LErr].
Proof.
  unfold else_part. destruct fl.
  - destruct e as [|s2 r]; auto. destruct r; auto. destruct s2; auto. left. reflexivity.
  - left. destruct e; reflexivity.
Qed.

Lemma forallb_Forall_wf (P : fstmt -> Prop) l :
  Forall (fun s => wf s = true -> P s) l -> forallb wf l = true -> Forall P l.
Proof.
  induction 1 as [|s r H _ IH]; intros E; [constructor|].
  cbn in E. apply andb_true_iff in E. destruct E as [E1 E2]. constructor; auto.
Qed.

Lemma roundtrip_stmt : forall s, wf s = true -> A s /\ B s.
Proof.
  induction s as [m|v lo hi st b IHb|c b IHb|c t e fl IHt IHe|c m|x] using fstmt_ind'; intros W.
  - split; [|exact I]. intros f tail _. reflexivity.
  - split; [|exact I]. cbn [wf] in W.
    assert (Hb : Forall A b).
    { apply (forallb_Forall_wf A b); [|exact W]. eapply Forall_impl; [|exact IHb]. intros a Ha Hw. apply Ha, Hw. }
    intros f tail Hf. cbn [ssize] in Hf. fold (lsize b) in Hf.
    cbn [lines1]. fold (lines_of b). cbn [app read_block]. rewrite <- app_assoc. cbn [app].
    rewrite (read_list b Hb f (LEndDo :: tail)); [reflexivity|reflexivity|lia].
  - split; [|exact I]. cbn [wf] in W.
    assert (Hb : Forall A b).
    { apply (forallb_Forall_wf A b); [|exact W]. eapply Forall_impl; [|exact IHb]. intros a Ha Hw. apply Ha, Hw. }
    intros f tail Hf. cbn [ssize] in Hf. fold (lsize b) in Hf.
    cbn [lines1]. fold (lines_of b). cbn [app read_block]. rewrite <- app_assoc. cbn [app].
    rewrite (read_list b Hb f (LEndDo :: tail)); [reflexivity|reflexivity|lia].
  - cbn [wf] in W. apply andb_true_iff in W. destruct W as [W Wsh]. apply andb_true_iff in W. destruct W as [Wt We].
    assert (Ht : Forall A t).
    { apply (forallb_Forall_wf A t); [|exact Wt]. eapply Forall_impl; [|exact IHt]. intros a Ha Hw. apply Ha, Hw. }
    assert (HeA : Forall A e).
    { apply (forallb_Forall_wf A e); [|exact We]. eapply Forall_impl; [|exact IHe]. intros a Ha Hw. apply Ha, Hw. }
    assert (HeB : Forall B e).
    { apply (forallb_Forall_wf B e); [|exact We]. eapply Forall_impl; [|exact IHe]. intros a Ha Hw. apply Ha, Hw. }
    assert (Hsh : shape_ok e fl = true) by exact Wsh.
    assert (Hstop : forall tail, stops (else_part e fl ++ tail)).
    { intros tail. unfold else_part. destruct fl.
      - cbn in Hsh. destruct e as [|s2 r]; try discriminate. destruct s2; try discriminate. destruct r; try discriminate. reflexivity.
      - destruct e; reflexivity. }
    split.
    + intros f tail Hf. rewrite ssize_if in Hf. rewrite lines1_if.
      cbn [app read_block]. rewrite <- app_assoc.
      rewrite (read_list t Ht f (else_part e fl ++ tail)); [|apply Hstop|lia].
      rewrite (read_else_part e fl HeA HeB Hsh f tail); [reflexivity|lia].
    + cbn [B]. intros f tail Hf. rewrite ssize_if in Hf. rewrite lines1_if.
      cbn [app read_else]. rewrite <- app_assoc.
      rewrite (read_list t Ht f (else_part e fl ++ tail)); [|apply Hstop|lia].
      rewrite (read_else_part e fl HeA HeB Hsh f tail); [reflexivity|lia].
  - split; [|exact I]. intros f tail _. reflexivity.
  - split; [|exact I]. intros f tail _. reflexivity.
Qed.

Lemma wf_list_Forall_A p : wf_list p = true -> Forall A p.
Proof.
  intros W. apply (forallb_Forall_wf A p); [|exact W].
  apply Forall_list_ind. intros s Hs. now apply roundtrip_stmt.
Qed.

(** the reader inverts the structural printer *)
Theorem roundtrip_lines : forall p, wf_list p = true ->
  forall fuel, (lsize p < fuel)%nat -> read_lines fuel (lines_of p) = Some p.
Proof.
  intros p W fuel Hf. unfold read_lines.
  rewrite <- (app_nil_r (lines_of p)).
  rewrite (read_list p (wf_list_Forall_A p W) fuel []); [reflexivity|exact I|exact Hf].
Qed.

(** [norm] keeps well-formedness and sizes *)
Lemma norm_is_if s : match norm s with FIf _ _ _ _ => match s with FIf _ _ _ _ => True | _ => False end | _ => True end.
Proof. destruct s; cbn; exact I. Qed.

Lemma wf_norm : forall s, wf s = true -> wf (norm s) = true.
Proof.
  induction s as [m|v lo hi st b IHb|c b IHb|c t e fl IHt IHe|c m|x] using fstmt_ind'; intros W; try exact W.
  - cbn [norm wf] in *. rewrite forallb_forall in *. intros y Hy. apply in_map_iff in Hy. destruct Hy as [z [<- Hz]].
    rewrite Forall_forall in IHb. apply IHb; auto.
  - cbn [norm wf] in *. rewrite forallb_forall in *. intros y Hy. apply in_map_iff in Hy. destruct Hy as [z [<- Hz]].
    rewrite Forall_forall in IHb. apply IHb; auto.
  - cbn [norm wf] in *. apply andb_true_iff in W. destruct W as [W Wsh]. apply andb_true_iff in W. destruct W as [Wt We].
    apply andb_true_iff. split; [apply andb_true_iff; split|].
    + rewrite forallb_forall in *. intros y Hy. apply in_map_iff in Hy. destruct Hy as [z [<- Hz]].
      rewrite Forall_forall in IHt. apply IHt; auto.
    + rewrite forallb_forall in *. intros y Hy. apply in_map_iff in Hy. destruct Hy as [z [<- Hz]].
      rewrite Forall_forall in IHe. apply IHe; auto.
    + destruct fl; [|reflexivity]. destruct e as [|s2 r]; try discriminate. destruct s2; try discriminate. destruct r; try discriminate. reflexivity.
Qed.

Lemma wf_norm_list p : wf_list p = true -> wf_list (norm_list p) = true.
Proof.
  unfold wf_list, norm_list. rewrite !forallb_forall. intros H y Hy.
  apply in_map_iff in Hy. destruct Hy as [z [<- Hz]]. apply wf_norm, H, Hz.
Qed.

Lemma ssize_norm : forall s, ssize (norm s) = ssize s.
Proof.
  induction s as [m|v lo hi st b IHb|c b IHb|c t e fl IHt IHe|c m|x] using fstmt_ind'; try reflexivity.
  - cbn [norm ssize]. f_equal. induction IHb as [|a r Ha _ IH]; [reflexivity|]. cbn [map fold_right]. now rewrite Ha, IH.
  - cbn [norm ssize]. f_equal. induction IHb as [|a r Ha _ IH]; [reflexivity|]. cbn [map fold_right]. now rewrite Ha, IH.
  - cbn [norm ssize]. do 2 f_equal. f_equal.
    + induction IHt as [|a r Ha _ IH]; [reflexivity|]. cbn [map fold_right]. now rewrite Ha, IH.
    + induction IHe as [|a r Ha _ IH]; [reflexivity|]. cbn [map fold_right]. now rewrite Ha, IH.
Qed.

Lemma lsize_norm p : lsize (norm_list p) = lsize p.
Proof.
  unfold lsize, norm_list. induction p as [|a r IH]; [reflexivity|]. cbn [map fold_right]. now rewrite ssize_norm, IH.
Qed.

(** [norm] is the identity on normal forms, and idempotent *)
Lemma norm_step_nf st : nf_step st = true -> norm_step st = st.
Proof. destruct st as [e|]; cbn; [|reflexivity]. destruct (unit_step e); [discriminate|reflexivity]. Qed.

Lemma map_id_on (f : fstmt -> fstmt) l : Forall (fun s => f s = s) l -> map f l = l.
Proof. induction 1 as [|a r Ha _ IH]; [reflexivity|]. cbn. now rewrite Ha, IH. Qed.

Lemma Forall_nf (P : fstmt -> Prop) l :
  Forall (fun s => nf s = true -> P s) l -> forallb nf l = true -> Forall P l.
Proof.
  induction 1 as [|s r H _ IH]; intros E; [constructor|].
  cbn in E. apply andb_true_iff in E. destruct E as [E1 E2]. constructor; auto.
Qed.

Lemma norm_nf : forall s, nf s = true -> norm s = s.
Proof.
  induction s as [m|v lo hi st b IHb|c b IHb|c t e fl IHt IHe|c m|x] using fstmt_ind'; intros N; try reflexivity.
  - cbn [nf] in N. apply andb_true_iff in N. destruct N as [N1 N2]. cbn [norm].
    rewrite (norm_step_nf st N1). f_equal. apply map_id_on. now apply Forall_nf.
  - cbn [nf] in N. cbn [norm]. f_equal. apply map_id_on. now apply Forall_nf.
  - cbn [nf] in N. apply andb_true_iff in N. destruct N as [N1 N2]. cbn [norm]. f_equal; apply map_id_on; now apply Forall_nf.
Qed.

Lemma norm_step_is_nf st : nf_step (norm_step st) = true.
Proof. destruct st as [e|]; cbn; [|reflexivity]. destruct (unit_step e) eqn:E; cbn; [reflexivity|now rewrite E]. Qed.

Lemma nf_norm : forall s, nf (norm s) = true.
Proof.
  induction s as [m|v lo hi st b IHb|c b IHb|c t e fl IHt IHe|c m|x] using fstmt_ind'; try reflexivity.
  - cbn [norm nf]. rewrite norm_step_is_nf. cbn. rewrite forallb_forall. intros y Hy.
    apply in_map_iff in Hy. destruct Hy as [z [<- Hz]]. rewrite Forall_forall in IHb. now apply IHb.
  - cbn [norm nf]. rewrite forallb_forall. intros y Hy.
    apply in_map_iff in Hy. destruct Hy as [z [<- Hz]]. rewrite Forall_forall in IHb. now apply IHb.
  - cbn [norm nf]. apply andb_true_iff. split; rewrite forallb_forall; intros y Hy;
      apply in_map_iff in Hy; destruct Hy as [z [<- Hz]].
    + rewrite Forall_forall in IHt. now apply IHt.
    + rewrite Forall_forall in IHe. now apply IHe.
Qed.

Lemma nf_norm_list p : nf_list (norm_list p) = true.
Proof.
  unfold nf_list, norm_list. rewrite forallb_forall. intros y Hy.
  apply in_map_iff in Hy. destruct Hy as [z [<- Hz]]. apply nf_norm.
Qed.

Lemma norm_list_nf p : nf_list p = true -> norm_list p = p.
Proof.
  unfold nf_list, norm_list. intros N. apply map_id_on. rewrite forallb_forall in N.
  apply Forall_forall. intros s Hs. apply norm_nf, N, Hs.
Qed.

Lemma norm_idem_list p : norm_list (norm_list p) = norm_list p.
Proof. apply norm_list_nf, nf_norm_list. Qed.

(** main statements *)
Theorem roundtrip_stmts_norm : forall p, wf_list p = true ->
  read_lines (fuel_for p) (print_stmts p) = Some (norm_list p).
Proof.
  intros p W. unfold print_stmts, fuel_for.
  apply roundtrip_lines; [now apply wf_norm_list|]. rewrite lsize_norm. lia.
Qed.

Theorem roundtrip_stmts : forall p, wf_list p = true -> nf_list p = true ->
  read_lines (fuel_for p) (print_stmts p) = Some p.
Proof. intros p W N. rewrite roundtrip_stmts_norm by exact W. now rewrite norm_list_nf. Qed.

Theorem print_injective : forall p q, wf_list p = true -> wf_list q = true -> nf_list p = true -> nf_list q = true ->
  print_stmts p = print_stmts q -> p = q.
Proof.
  intros p q Wp Wq Np Nq E. unfold print_stmts in E. rewrite (norm_list_nf p Np), (norm_list_nf q Nq) in E.
  pose proof (roundtrip_lines p Wp (S (lsize p + lsize q))) as Hp.
  pose proof (roundtrip_lines q Wq (S (lsize p + lsize q))) as Hq.
  rewrite E in Hp. rewrite Hq in Hp by lia. specialize (Hp ltac:(lia)). congruence.
Qed.

(** different programs of the class print differently, also up to unit steps *)
Corollary print_injective_norm : forall p q, wf_list p = true -> wf_list q = true ->
  print_stmts p = print_stmts q -> norm_list p = norm_list q.
Proof.
  intros p q Wp Wq E.
  pose proof (roundtrip_stmts_norm p Wp) as Hp. pose proof (roundtrip_stmts_norm q Wq) as Hq.
  unfold fuel_for in *. unfold print_stmts in *.
  pose proof (roundtrip_lines (norm_list p) (wf_norm_list p Wp) (S (lsize p + lsize q))) as Ap.
  pose proof (roundtrip_lines (norm_list q) (wf_norm_list q Wq) (S (lsize p + lsize q))) as Aq.
  rewrite lsize_norm in Ap, Aq. rewrite E in Ap. rewrite Aq in Ap by lia. specialize (Ap ltac:(lia)). congruence.
Qed.

(** the model prints no [LErr] on well-formed programs, and the reader rejects [LErr] *)
Example ex_chain :
  let p := [FIf (ECmp Clt (EVar "a") (EInt 1)) [FSimple (MAssign "b" (EInt 1))]
              [FIf (ECmp Clt (EVar "a") (EInt 2)) [FComment "! c"]
                 [FDo "i" (EInt 1) (EVar "n") (Some (EInt 1)) [FIfInline (ELog true) (MCall "f" [EVar "b"])]] false] true] in
  wf_list p = true /\ nf_list p = false /\
  print_stmts p = [LIf (ECmp Clt (EVar "a") (EInt 1)); LSimple (MAssign "b" (EInt 1));
                   LElseIf (ECmp Clt (EVar "a") (EInt 2)); LComment "! c"; LElse;
                   LDo "i" (EInt 1) (EVar "n") None; LIfInline (ELog true) (MCall "f" [EVar "b"]); LEndDo; LEndIf] /\
  read_lines (fuel_for p) (print_stmts p) = Some (norm_list p).
Proof. vm_compute. repeat split. Qed.
