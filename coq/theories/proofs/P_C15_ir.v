(** C15 -- with_ir_node, FindScopes, scope mode. *)
From Coq Require Import ZArith List Bool String Ascii Lia Permutation Relations.
From LV Require Import Base.Strings models.M_C15 proofs.P_C15 proofs.P_C15_uniq.
Import ListNotations.
Open Scope Z_scope.
Open Scope list_scope.

(* ---------------------------------------------------------------------------------- *)
(** * with_ir_node = True *)

Lemma is_leaf_mkpair g : is_leaf (mkpair g) = true.
Proof. reflexivity. Qed.

Lemma flat1_mkpair g : flat1 true (mkpair g) = [mkpair g].
Proof. reflexivity. Qed.

Lemma flatten_pairs gs : flatten_py true (map mkpair gs) = map mkpair gs.
Proof. unfold flatten_py. induction gs as [|g gs IH]; [reflexivity|]. cbn [map flat_map]. rewrite IH. reflexivity. Qed.

Lemma flat1_tuple_of_atoms es : flat1 true (PT (map PE es)) = map PE es.
Proof.
  assert (E : is_leaf (PT (map PE es)) = false) by (destruct es as [|a [|b r]]; reflexivity).
  cbn [flat1]. rewrite E. cbn [andb]. apply (flatten_atoms true).
Qed.

Lemma flat1_tuple_of_pairs gs : flat1 true (PT (map mkpair gs)) = map mkpair gs.
Proof.
  assert (E : is_leaf (PT (map mkpair gs)) = false) by (destruct gs as [|a [|b r]]; reflexivity).
  cbn [flat1]. rewrite E. cbn [andb]. apply flatten_pairs.
Qed.

Lemma filter_leaf_pairs gs : filter is_leaf (map mkpair gs) = map mkpair gs.
Proof. induction gs as [|g gs IH]; [reflexivity|]. cbn [map filter]. rewrite is_leaf_mkpair, IH. reflexivity. Qed.
Lemma filter_nleaf_pairs gs : filter (fun v => negb (is_leaf v)) (map mkpair gs) = [].
Proof. induction gs as [|g gs IH]; [reflexivity|]. cbn [map filter]. rewrite is_leaf_mkpair. exact IH. Qed.
Lemma filter_leaf_atoms es : filter is_leaf (map PE es) = [].
Proof. induction es as [|e es IH]; [reflexivity|]. cbn. exact IH. Qed.
Lemma filter_nleaf_atoms es : filter (fun v => negb (is_leaf v)) (map PE es) = map PE es.
Proof. induction es as [|e es IH]; [reflexivity|]. cbn. now rewrite IH. Qed.

Lemma sequence_map_Some {A} (l : list A) : sequence (map Some l) = Some l.
Proof. induction l as [|a l IH]; cbn; [reflexivity|]. now rewrite IH. Qed.

Lemma flatten_py_app b x y : flatten_py b (x ++ y) = flatten_py b x ++ flatten_py b y.
Proof. unfold flatten_py. apply flat_map_app. Qed.

Lemma ret_ir u owner rs gs ds :
  filter is_leaf (flatten_py true (map PT rs)) = map mkpair gs ->
  filter (fun v => negb (is_leaf v)) (flatten_py true (map PT rs)) = map PE ds ->
  ret u true owner (map PT rs) =
    Some (map mkpair gs ++ match ds with [] => [] | _ => [PT [owner; PT (map PE (uniq_if u ds))]] end).
Proof.
  intros H1 H2. destruct rs as [|r rs].
  - cbn in H1, H2. destruct gs; [|discriminate]. destruct ds; [|discriminate]. reflexivity.
  - unfold ret. destruct (map PT (r :: rs)) eqn:E; [discriminate|]. cbv beta iota zeta.
    rewrite H1, H2. destruct ds as [|d ds]; [cbn; now rewrite app_nil_r|].
    cbn [map]. change (PE d :: map PE ds) with (map PE (d :: ds)). rewrite find_uniques_atoms. reflexivity.
Qed.

Definition part1 u q (c : item) : Prop :=
  efg u true q false c = [Some (map mkpair (fst (grp u q c)))] /\ snd (grp u q c) = [].
Definition part2 u q (c : item) : Prop :=
  exists rs, efg u true q true c = map Some rs /\
    filter is_leaf (flatten_py true (map PT rs)) = map mkpair (fst (grp u q c)) /\
    filter (fun v => negb (is_leaf v)) (flatten_py true (map PT rs)) = map PE (snd (grp u q c)).

Lemma children_ir u q ch :
  Forall (part2 u q) ch ->
  exists rs, flat_map (efg u true q true) ch = map Some rs /\
    filter is_leaf (flatten_py true (map PT rs)) = map mkpair (flat_map (fun c => fst (grp u q c)) ch) /\
    filter (fun v => negb (is_leaf v)) (flatten_py true (map PT rs)) = map PE (flat_map (fun c => snd (grp u q c)) ch).
Proof.
  induction 1 as [|c ch (rs1 & E1 & F1 & G1) _ (rs2 & E2 & F2 & G2)].
  - exists []. repeat split; reflexivity.
  - exists (rs1 ++ rs2). cbn [flat_map]. rewrite E1, E2, !map_app, flatten_py_app, !filter_app, F1, F2, G1, G2.
    repeat split; reflexivity.
Qed.

Lemma toplevel_ir u q els :
  Forall (part1 u q) els ->
  flat_map (efg u true q false) els = map Some (map (fun c => map mkpair (fst (grp u q c))) els) /\
  flat_map (fun c => snd (grp u q c)) els = [].
Proof.
  induction 1 as [|c els [E1 E2] _ [IH1 IH2]]; [split; reflexivity|].
  cbn [flat_map map]. rewrite E1, E2, IH1, IH2. split; reflexivity.
Qed.

Lemma flatten_tuples_of_pairs {A} (f : A -> list (Z * list expr)) (l : list A) :
  flatten_py true (map PT (map (fun c => map mkpair (f c)) l)) = map mkpair (flat_map f l).
Proof.
  unfold flatten_py. induction l as [|a l IH]; [reflexivity|].
  cbn [map flat_map]. rewrite IH, flat1_tuple_of_pairs, map_app. reflexivity.
Qed.

Lemma node_grp u q l k qq ch ex :
  (k =? K_TYPEDEF) = false ->
  grp u q (INode l k qq ch ex) =
    (flat_map (fun c => fst (grp u q c)) ch ++
       match flat_map (fun c => snd (grp u q c)) ch with [] => [] | _ => [(l, uniq_if u (flat_map (fun c => snd (grp u q c)) ch))] end, []).
Proof. intros E. cbn [grp]. now rewrite E. Qed.

Lemma efg_ir u q it :
  (wi_ok true it = true -> part1 u q it) /\ (wi_ok false it = true -> part2 u q it).
Proof.
  induction it as [l k qq ch ex IH|els IH|e|] using item_ind'.
  - (* a node: its own handling does not depend on how it is reached *)
    assert (Core : (k =? K_TYPEDEF) || (negb (k =? K_VARDECL) && forallb (wi_ok false) ch) = true ->
              efg u true q false (INode l k qq ch ex) = [Some (map mkpair (fst (grp u q (INode l k qq ch ex))))]
              /\ snd (grp u q (INode l k qq ch ex)) = []).
    { intros Hok. destruct (k =? K_TYPEDEF) eqn:Et.
      - cbn [efg grp]. rewrite Et. split; reflexivity.
      - cbn [orb] in Hok. apply andb_true_iff in Hok as [Hv Hch]. apply negb_true_iff in Hv.
        rewrite node_grp by exact Et. cbn [fst snd]. split; [|reflexivity].
        cbn [efg]. rewrite Et, Hv.
        assert (Hp : Forall (part2 u q) ch).
        { rewrite forallb_forall in Hch. rewrite Forall_forall in *. intros c Hc. now apply (IH c Hc), Hch. }
        destruct (children_ir u q ch Hp) as (rs & E & F & G).
        rewrite E, sequence_map_Some, (ret_ir u (PN l) rs _ _ F G).
        f_equal. f_equal. rewrite map_app. f_equal.
        destruct (flat_map (fun c => snd (grp u q c)) ch); reflexivity. }
    split; intros Hok; cbn [wi_ok] in Hok; destruct (Core Hok) as [C1 C2].
    + split; assumption.
    + exists [map mkpair (fst (grp u q (INode l k qq ch ex)))]. split; [exact C1|].
      unfold flatten_py. cbn [map flat_map]. rewrite flat1_tuple_of_pairs, app_nil_r, C2.
      split; [apply filter_leaf_pairs|apply filter_nleaf_pairs].
  - split; intros Hok; cbn [wi_ok] in Hok; rewrite forallb_forall in Hok.
    + assert (Hp : Forall (part1 u q) els).
      { rewrite Forall_forall in *. intros c Hc. now apply (IH c Hc), Hok. }
      destruct (toplevel_ir u q els Hp) as [E1 E2].
      split; [|cbn [grp snd]; exact E2].
      cbn [efg grp fst]. rewrite E1, sequence_map_Some.
      rewrite (ret_ir u _ _ (flat_map (fun c => fst (grp u q c)) els) []).
      * now rewrite app_nil_r.
      * rewrite flatten_tuples_of_pairs. apply filter_leaf_pairs.
      * rewrite flatten_tuples_of_pairs. apply filter_nleaf_pairs.
    + assert (Hp : Forall (part2 u q) els).
      { rewrite Forall_forall in *. intros c Hc. now apply (IH c Hc), Hok. }
      destruct (children_ir u q els Hp) as (rs & E & F & G).
      exists rs. cbn [efg grp fst snd]. repeat split; assumption.
  - split; intros Hok; [discriminate|].
    exists [map PE (retrieve q rtrue e)]. cbn [efg grp fst snd map]. split; [reflexivity|].
    unfold flatten_py. cbn [flat_map]. rewrite flat1_tuple_of_atoms, app_nil_r.
    split; [apply filter_leaf_atoms|apply filter_nleaf_atoms].
  - split; intros _.
    + split; reflexivity.
    + exists [[]]. repeat split; reflexivity.
Qed.

Lemma with_ir_node_correct u q it :
  wi_ok true it = true -> ef u true q it = Some (map mkpair (groups u q it)).
Proof.
  intros H. destruct (proj1 (efg_ir u q it) H) as [E _]. unfold ef, groups. now rewrite E.
Qed.

(** ** the groups partition the flat result *)

Lemma perm_flat_map_split {A B} (f g h : A -> list B) l :
  Forall (fun c => Permutation (f c ++ g c) (h c)) l ->
  Permutation (flat_map f l ++ flat_map g l) (flat_map h l).
Proof.
  induction 1 as [|c l Hc _ IH]; cbn; [constructor|].
  rewrite <- app_assoc.
  apply Permutation_trans with ((f c ++ g c) ++ (flat_map f l ++ flat_map g l)).
  - rewrite <- !app_assoc. apply Permutation_app_head.
    rewrite !app_assoc. apply Permutation_app_tail. apply Permutation_app_comm.
  - now apply Permutation_app.
Qed.

Lemma all_matches_children q (l : list item) :
  filter q (flat_map postorder (flat_map slots l)) = flat_map (all_matches q) l.
Proof.
  unfold all_matches. rewrite flat_map_flat_map, filter_flat_map. reflexivity.
Qed.

Lemma grp_partition q it : forall tv, wi_ok tv it = true ->
  Permutation (flat_map snd (fst (grp false q it)) ++ snd (grp false q it)) (all_matches q it).
Proof.
  induction it as [l k qq ch ex IH|els IH|e|] using item_ind'; intros tv Hok.
  - cbn [wi_ok] in Hok. destruct (k =? K_TYPEDEF) eqn:Et.
    + unfold all_matches. cbn [grp slots]. rewrite Et. constructor.
    + cbn [orb] in Hok. apply andb_true_iff in Hok as [Hv Hch]. apply negb_true_iff in Hv.
      rewrite node_grp by exact Et. cbn [fst snd uniq_if]. rewrite app_nil_r.
      assert (Ea : all_matches q (INode l k qq ch ex) = flat_map (all_matches q) ch).
      { unfold all_matches at 1. cbn [slots]. rewrite Et, Hv, app_nil_r. apply all_matches_children. }
      rewrite Ea, flat_map_app.
      assert (Ed : flat_map snd (match flat_map (fun c => snd (grp false q c)) ch with
                                 | [] => []
                                 | _ :: _ => [(l, flat_map (fun c => snd (grp false q c)) ch)]
                                 end) = flat_map (fun c => snd (grp false q c)) ch).
      { destruct (flat_map (fun c => snd (grp false q c)) ch); [reflexivity|]. cbn. now rewrite app_nil_r. }
      rewrite Ed, flat_map_flat_map.
      apply (perm_flat_map_split (fun c => flat_map snd (fst (grp false q c))) (fun c => snd (grp false q c))).
      rewrite forallb_forall in Hch. rewrite Forall_forall in *. intros c Hc. apply (IH c Hc false). now apply Hch.
  - cbn [wi_ok] in Hok. rewrite forallb_forall in Hok.
    assert (Ea : all_matches q (ITuple els) = flat_map (all_matches q) els).
    { unfold all_matches at 1. cbn [slots]. apply all_matches_children. }
    rewrite Ea. cbn [grp fst snd]. rewrite flat_map_flat_map.
    apply (perm_flat_map_split (fun c => flat_map snd (fst (grp false q c))) (fun c => snd (grp false q c))).
    rewrite Forall_forall in *. intros c Hc. apply (IH c Hc tv). now apply Hok.
  - unfold all_matches. cbn [grp fst snd slots flat_map]. rewrite !app_nil_r. cbn [app].
    rewrite retrieve_is_filter_postorder. apply Permutation_refl.
  - constructor.
Qed.

Lemma with_ir_node_partition q it :
  wi_ok true it = true ->
  Permutation (flat_map snd (groups false q it)) (ef_flat false q it).
Proof.
  intros H. rewrite ef_flat_nonunique. unfold groups.
  destruct (proj1 (efg_ir false q it) H) as [_ E].
  generalize (grp_partition q it true H). now rewrite E, app_nil_r.
Qed.

(** no empty groups *)
Lemma groups_nonempty q it : forall g, In g (fst (grp false q it)) -> snd g <> [].
Proof.
  induction it as [l k qq ch ex IH|els IH|e|] using item_ind'; intros g Hg; cbn [grp] in Hg.
  - destruct (k =? K_TYPEDEF); [destruct Hg|]. cbn [fst] in Hg. apply in_app_or in Hg as [Hg|Hg].
    + apply in_flat_map in Hg as (c & Hc & Hg). rewrite Forall_forall in IH. now apply (IH c Hc).
    + destruct (flat_map (fun c => snd (grp false q c)) ch) eqn:E; [destruct Hg|].
      destruct Hg as [<-|[]]. cbn. discriminate.
  - cbn [fst] in Hg. apply in_flat_map in Hg as (c & Hc & Hg). rewrite Forall_forall in IH. now apply (IH c Hc).
  - destruct Hg.
  - destruct Hg.
Qed.

(* ---------------------------------------------------------------------------------- *)
(** * FindScopes *)

Definition sres_of (p : list item * item) : sres :=
  if is_typedef (snd p) then SNode (snd p) else SAnc (fst p ++ [snd p]).

Lemma fold_left_acc2 {A B} (f : B -> list A -> list A) (g : B -> list A) l :
  Forall (fun c => forall acc, f c acc = acc ++ g c) l ->
  forall acc, fold_left (fun a c => f c a) l acc = acc ++ flat_map g l.
Proof. apply fold_left_acc. Qed.

Lemma fs_visit_spec m it :
  forall anc ret,
    fs_visit m false it anc ret =
    ret ++ map sres_of (filter (fun p => ilbl (snd p) =? m) (preorder_anc anc it)).
Proof.
  induction it as [l k q ch ex IH|els IH|e|] using item_ind'; intros anc ret.
  - cbn [fs_visit preorder_anc filter snd ilbl]. destruct (k =? K_TYPEDEF) eqn:Et.
    + destruct (l =? m); [|now rewrite app_nil_r].
      cbn [map]. unfold sres_of. cbn [snd fst is_typedef]. now rewrite Et.
    + rewrite andb_false_r.
      rewrite (fold_left_acc (fun c acc => fs_visit m false c (anc ++ [INode l k q ch ex]) acc)
                 (fun c => map sres_of (filter (fun p => ilbl (snd p) =? m) (preorder_anc (anc ++ [INode l k q ch ex]) c)))).
      * assert (Es : sres_of (anc, INode l k q ch ex) = SAnc (anc ++ [INode l k q ch ex])).
        { unfold sres_of. cbn [snd fst is_typedef]. now rewrite Et. }
        destruct (l =? m); cbn [map]; rewrite filter_flat_map, map_flat_map; [|reflexivity].
        rewrite Es, <- app_assoc. reflexivity.
      * eapply Forall_impl; [|exact IH]. intros c Hc acc. apply Hc.
  - cbn [fs_visit preorder_anc].
    rewrite (fold_left_acc (fun c acc => fs_visit m false c anc acc)
               (fun c => map sres_of (filter (fun p => ilbl (snd p) =? m) (preorder_anc anc c)))).
    + now rewrite filter_flat_map, map_flat_map.
    + eapply Forall_impl; [|exact IH]. intros c Hc acc. apply Hc.
  - cbn. now rewrite app_nil_r.
  - cbn. now rewrite app_nil_r.
Qed.

Lemma findscopes_spec m it :
  find_scopes m false it = map sres_of (filter (fun p => ilbl (snd p) =? m) (preorder_anc [] it)).
Proof. unfold find_scopes. now rewrite fs_visit_spec. Qed.

(* ---------------------------------------------------------------------------------- *)
(** * mode = 'scope' *)

Definition ieqk (it : item) : Z := match it with INode _ _ q _ _ => q | _ => -1 end.
Definition ichildren (it : item) : list item := match it with INode _ _ _ ch _ => ch | _ => [] end.

(** the nodes that hold the object with label [m] among their (flattened) children *)
Definition holds (m : Z) (it : item) : bool :=
  existsb (fun c => is_node c && (ilbl c =? m)) (flatten_items (ichildren it)).

Lemma fn_visit_ext r1 r2 g it :
  (forall n, In n (all_nodes it) -> r1 n = r2 n) ->
  forall ret, fn_visit r1 g it ret = fn_visit r2 g it ret.
Proof.
  induction it as [l k q ch ex IH|els IH|e|] using item_ind'; intros Hr ret; cbn [fn_visit]; try reflexivity.
  - rewrite (Hr (INode l k q ch ex)) by (cbn; now left).
    destruct (r2 (INode l k q ch ex) && g); [reflexivity|]. destruct (k =? K_TYPEDEF); [reflexivity|].
    generalize (if r2 (INode l k q ch ex) then ret ++ [INode l k q ch ex] else ret) as acc.
    assert (Hr' : forall c, In c ch -> forall n, In n (all_nodes c) -> r1 n = r2 n).
    { intros c Hc n Hn. apply Hr. cbn. right. apply in_flat_map. eauto. }
    clear Hr. induction IH as [|c r Hc _ IHr]; intros acc; cbn [fold_left]; [reflexivity|].
    rewrite Hc by (apply Hr'; now left). apply IHr. intros c' Hc'. apply Hr'. now right.
  - assert (Hr' : forall c, In c els -> forall n, In n (all_nodes c) -> r1 n = r2 n).
    { intros c Hc n Hn. apply Hr. cbn. apply in_flat_map. eauto. }
    clear Hr. revert ret. induction IH as [|c r Hc _ IHr]; intros acc; cbn [fold_left]; [reflexivity|].
    rewrite Hc by (apply Hr'; now left). apply IHr. intros c' Hc'. apply Hr'. now right.
Qed.

Lemma flat_item_nodes c x : In x (flat_item c) -> is_node x = true -> In x (all_nodes c).
Proof.
  induction c as [l k q ch ex IH|els IH|e|] using item_ind'; cbn [flat_item all_nodes].
  - intros [<-|[]] _. now left.
  - intros Hx Hn. apply in_flat_map in Hx as (c & Hc & Hx). apply in_flat_map. exists c. split; [exact Hc|].
    rewrite Forall_forall in IH. now apply (IH c Hc).
  - intros [<-|[]]. discriminate.
  - intros [<-|[]]. discriminate.
Qed.

Lemma all_nodes_trans n it : In n (all_nodes it) -> forall x, In x (all_nodes n) -> In x (all_nodes it).
Proof.
  induction it as [l k q ch ex IH|els IH|e|] using item_ind'; cbn [all_nodes].
  - intros [<-|Hn] x Hx; [exact Hx|]. right. apply in_flat_map in Hn as (c & Hc & Hn). apply in_flat_map.
    exists c. split; [exact Hc|]. rewrite Forall_forall in IH. now apply (IH c Hc Hn).
  - intros Hn x Hx. apply in_flat_map in Hn as (c & Hc & Hn). apply in_flat_map.
    exists c. split; [exact Hc|]. rewrite Forall_forall in IH. now apply (IH c Hc Hn).
  - intros [].
  - intros [].
Qed.

(** class: nodes that are equal under Python == are the same object *)
Definition eq_is_identity (it : item) : Prop :=
  forall a b, In a (all_nodes it) -> In b (all_nodes it) -> (ieqk a = ieqk b <-> ilbl a = ilbl b).

Lemma scope_rule_holds it m :
  eq_is_identity it -> In m (all_nodes it) ->
  forall n, In n (all_nodes it) -> scope_rule (ieqk m) n = holds (ilbl m) n.
Proof.
  intros Hid Hm n Hn. destruct n as [l k q ch ex| | |]; try reflexivity.
  unfold scope_rule, holds. cbn [ichildren].
  assert (Hsub : forall c, In c (flatten_items ch) -> is_node c = true -> In c (all_nodes it)).
  { intros c Hc Hnode. apply (all_nodes_trans _ _ Hn). cbn [all_nodes]. right.
    unfold flatten_items in Hc. apply in_flat_map in Hc as (c0 & Hc0 & Hc). apply in_flat_map.
    exists c0. split; [exact Hc0|]. now apply flat_item_nodes. }
  revert Hsub. generalize (flatten_items ch) as L. induction L as [|c L IHL]; intros Hsub; [reflexivity|].
  cbn [existsb]. rewrite IHL by (intros c' Hc'; apply Hsub; now right). f_equal.
  destruct c as [l' k' q' ch' ex'| | |]; try reflexivity. cbn [is_node ilbl andb].
  assert (Hc : In (INode l' k' q' ch' ex') (all_nodes it)) by (apply Hsub; [now left|reflexivity]).
  destruct (q' =? ieqk m) eqn:E1, (l' =? ilbl m) eqn:E2; try reflexivity.
  - apply Z.eqb_eq in E1. apply Z.eqb_neq in E2. exfalso. apply E2. now apply (Hid _ _ Hc Hm).
  - apply Z.eqb_neq in E1. apply Z.eqb_eq in E2. exfalso. apply E1. now apply (Hid _ _ Hc Hm).
Qed.

Lemma scope_mode_on_class it m g :
  eq_is_identity it -> In m (all_nodes it) ->
  find_nodes (scope_rule (ieqk m)) g it = find_nodes (holds (ilbl m)) g it.
Proof.
  intros Hid Hm. unfold find_nodes. apply fn_visit_ext. intros n Hn. now apply (scope_rule_holds it m).
Qed.
