(** C15 -- finders: induction principles, FindNodes, the expression walk, flat mode. *)
From Coq Require Import ZArith List Bool String Ascii Lia Permutation Relations.
From LV Require Import Base.Strings models.M_C15.
Import ListNotations.
Open Scope Z_scope.
Open Scope list_scope.

(* ---------------------------------------------------------------------------------- *)
(** * Induction principles for the nested trees *)

Section ExprInd.
  Variable P : expr -> Prop.
  Hypothesis H : forall l c n s kids, Forall P kids -> P (EN l c n s kids).
  Fixpoint expr_ind' (e : expr) : P e :=
    match e with
    | EN l c n s kids =>
        H l c n s kids
          ((fix go (ks : list expr) : Forall P ks :=
              match ks with
              | [] => Forall_nil P
              | k :: r => Forall_cons k (expr_ind' k) (go r)
              end) kids)
    end.
End ExprInd.

Section ItemInd.
  Variable P : item -> Prop.
  Hypothesis Hn : forall l k q ch ex, Forall P ch -> P (INode l k q ch ex).
  Hypothesis Ht : forall els, Forall P els -> P (ITuple els).
  Hypothesis He : forall e, P (IExpr e).
  Hypothesis Ho : P IOther.
  Fixpoint item_ind' (it : item) : P it :=
    match it with
    | INode l k q ch ex =>
        Hn l k q ch ex
          ((fix go (cs : list item) : Forall P cs :=
              match cs with [] => Forall_nil P | c :: r => Forall_cons c (item_ind' c) (go r) end) ch)
    | ITuple els =>
        Ht els
          ((fix go (cs : list item) : Forall P cs :=
              match cs with [] => Forall_nil P | c :: r => Forall_cons c (item_ind' c) (go r) end) els)
    | IExpr e => He e
    | IOther => Ho
    end.
End ItemInd.

(* ---------------------------------------------------------------------------------- *)
(** * List lemmas *)

Lemma filter_flat_map {A B} (p : B -> bool) (f : A -> list B) l :
  filter p (flat_map f l) = flat_map (fun x => filter p (f x)) l.
Proof. induction l as [|a l IH]; cbn; [reflexivity|]. now rewrite filter_app, IH. Qed.

Lemma map_flat_map {A B C} (g : B -> C) (f : A -> list B) l :
  map g (flat_map f l) = flat_map (fun x => map g (f x)) l.
Proof. induction l as [|a l IH]; cbn; [reflexivity|]. now rewrite map_app, IH. Qed.

Lemma flat_map_flat_map {A B C} (g : B -> list C) (f : A -> list B) l :
  flat_map g (flat_map f l) = flat_map (fun x => flat_map g (f x)) l.
Proof. induction l as [|a l IH]; cbn; [reflexivity|]. now rewrite flat_map_app, IH. Qed.

Lemma flat_map_ext_Forall {A B} (f g : A -> list B) l :
  Forall (fun x => f x = g x) l -> flat_map f l = flat_map g l.
Proof. induction 1; cbn; congruence. Qed.

Lemma concat_flat_map {A B} (f : A -> list (list B)) l :
  List.concat (flat_map f l) = flat_map (fun x => List.concat (f x)) l.
Proof. induction l as [|a l IH]; cbn; [reflexivity|]. now rewrite concat_app, IH. Qed.

Lemma flat_map_nil {A B} (f : A -> list B) l : Forall (fun x => f x = []) l -> flat_map f l = [].
Proof. induction 1 as [|a l Ha _ IH]; cbn; [reflexivity|]. now rewrite Ha, IH. Qed.

Lemma fold_left_acc {A B} (f : B -> list A -> list A) (g : B -> list A) l :
  Forall (fun c => forall acc, f c acc = acc ++ g c) l ->
  forall acc, fold_left (fun a c => f c a) l acc = acc ++ flat_map g l.
Proof.
  induction 1 as [|c l Hc _ IH]; intros acc; cbn; [now rewrite app_nil_r|].
  now rewrite Hc, IH, app_assoc.
Qed.

(* ---------------------------------------------------------------------------------- *)
(** * FindNodes *)

Lemma fn_visit_filter rule it :
  forall ret, fn_visit rule false it ret = ret ++ filter rule (preorder it).
Proof.
  induction it as [l k q ch ex IH|els IH|e|] using item_ind'; intros ret.
  - cbn [fn_visit preorder]. rewrite andb_false_r.
    set (me := INode l k q ch ex).
    assert (E1 : (if rule me then ret ++ [me] else ret) = ret ++ (if rule me then [me] else [])).
    { destruct (rule me); [reflexivity|now rewrite app_nil_r]. }
    rewrite E1. cbn [filter]. fold me.
    destruct (k =? K_TYPEDEF).
    + cbn. destruct (rule me); reflexivity.
    + rewrite (fold_left_acc (fun c acc => fn_visit rule false c acc) (fun c => filter rule (preorder c))) by exact IH.
      rewrite filter_flat_map, <- app_assoc. destruct (rule me); reflexivity.
  - cbn [fn_visit preorder].
    rewrite (fold_left_acc (fun c acc => fn_visit rule false c acc) (fun c => filter rule (preorder c))) by exact IH.
    now rewrite filter_flat_map.
  - cbn. now rewrite app_nil_r.
  - cbn. now rewrite app_nil_r.
Qed.

Lemma findnodes_is_filter_preorder rule it :
  find_nodes rule false it = filter rule (preorder it).
Proof. unfold find_nodes. now rewrite fn_visit_filter. Qed.

(** labels: no duplicates beyond shared objects *)
Lemma findnodes_nodup rule it :
  NoDup (map ilbl (preorder it)) -> NoDup (map ilbl (find_nodes rule false it)).
Proof.
  rewrite findnodes_is_filter_preorder. generalize (preorder it) as l.
  induction l as [|a l IH]; cbn; intros Hn; [constructor|].
  inversion Hn as [|? ? Hnin Hn']; subst.
  destruct (rule a); cbn; [constructor|]; auto.
  intros Hin. apply Hnin. apply in_map_iff in Hin as (x & Hx & Hin). apply filter_In in Hin as [Hin _].
  apply in_map_iff. eauto.
Qed.

(** the traversal order is the pre-order; TypeDef bodies are not entered *)
Lemma preorder_anc_snd anc it : map snd (preorder_anc anc it) = preorder it.
Proof.
  revert anc. induction it as [l k q ch ex IH|els IH|e|] using item_ind'; intros anc; cbn; try reflexivity.
  - f_equal. destruct (k =? K_TYPEDEF); [reflexivity|].
    rewrite map_flat_map. apply flat_map_ext_Forall. eapply Forall_impl; [|exact IH]. intros c Hc. apply Hc.
  - rewrite map_flat_map. apply flat_map_ext_Forall. eapply Forall_impl; [|exact IH]. intros c Hc. apply Hc.
Qed.

Definition outer (rule : item -> bool) (p : list item * item) : bool :=
  rule (snd p) && forallb (fun a => negb (rule a)) (fst p).

Lemma forallb_app_false {A} (f : A -> bool) a b : forallb f a = false -> forallb f (a ++ b) = false.
Proof. intros H. rewrite forallb_app, H. reflexivity. Qed.

Lemma blocked_below rule it :
  forall anc, forallb (fun a => negb (rule a)) anc = false -> filter (outer rule) (preorder_anc anc it) = [].
Proof.
  induction it as [l k q ch ex IH|els IH|e|] using item_ind'; intros anc Hb; cbn; try reflexivity.
  - unfold outer at 1. cbn [fst snd]. rewrite Hb, andb_false_r.
    destruct (k =? K_TYPEDEF); [reflexivity|].
    rewrite filter_flat_map. apply flat_map_nil.
    eapply Forall_impl; [|exact IH]. intros c Hc. apply Hc. now apply forallb_app_false.
  - rewrite filter_flat_map. apply flat_map_nil.
    eapply Forall_impl; [|exact IH]. intros c Hc. now apply Hc.
Qed.

Lemma fn_visit_greedy rule it :
  forall anc ret, forallb (fun a => negb (rule a)) anc = true ->
    fn_visit rule true it ret = ret ++ map snd (filter (outer rule) (preorder_anc anc it)).
Proof.
  induction it as [l k q ch ex IH|els IH|e|] using item_ind'; intros anc ret Ha.
  - cbn [fn_visit preorder_anc]. rewrite andb_true_r.
    set (me := INode l k q ch ex). cbn [filter]. unfold outer at 1. cbn [fst snd]. fold me. rewrite Ha, andb_true_r.
    destruct (rule me) eqn:Er.
    + cbn [map snd]. 
      assert (Hb : forallb (fun a => negb (rule a)) (anc ++ [me]) = false).
      { rewrite forallb_app. cbn. rewrite Er. cbn. now rewrite andb_false_r. }
      destruct (k =? K_TYPEDEF); [reflexivity|].
      rewrite filter_flat_map.
      assert (E : flat_map (fun x => filter (outer rule) (preorder_anc (anc ++ [me]) x)) ch = []).
      { apply flat_map_nil. apply Forall_forall. intros c _. now apply blocked_below. }
      now rewrite E.
    + destruct (k =? K_TYPEDEF); [cbn; now rewrite app_nil_r|].
      assert (Hb : forallb (fun a => negb (rule a)) (anc ++ [me]) = true).
      { rewrite forallb_app, Ha. cbn. now rewrite Er. }
      rewrite (fold_left_acc (fun c acc => fn_visit rule true c acc)
                 (fun c => map snd (filter (outer rule) (preorder_anc (anc ++ [me]) c)))).
      * now rewrite filter_flat_map, map_flat_map.
      * eapply Forall_impl; [|exact IH]. intros c Hc acc. now apply Hc.
  - cbn [fn_visit preorder_anc].
    rewrite (fold_left_acc (fun c acc => fn_visit rule true c acc)
               (fun c => map snd (filter (outer rule) (preorder_anc anc c)))).
    + now rewrite filter_flat_map, map_flat_map.
    + eapply Forall_impl; [|exact IH]. intros c Hc acc. now apply Hc.
  - cbn. now rewrite app_nil_r.
  - cbn. now rewrite app_nil_r.
Qed.

Lemma greedy_is_outermost rule it :
  find_nodes rule true it = map snd (filter (outer rule) (preorder_anc [] it)).
Proof. unfold find_nodes. now rewrite (fn_visit_greedy rule it [] []). Qed.

(* ---------------------------------------------------------------------------------- *)
(** * The expression walk *)

Lemma retrieve_is_filter_postorder q e : retrieve q rtrue e = filter q (postorder e).
Proof.
  induction e as [l c n s kids IH] using expr_ind'.
  cbn [retrieve postorder]. unfold rtrue at 1.
  rewrite filter_app, filter_flat_map. cbn [filter].
  f_equal. apply flat_map_ext_Forall. exact IH.
Qed.

(** sub-expression relation, declaratively *)
Inductive subexpr : expr -> expr -> Prop :=
  | sub_refl e : subexpr e e
  | sub_kid x k e : In k (ekids e) -> subexpr x k -> subexpr x e.

Lemma in_postorder_iff x e : In x (postorder e) <-> subexpr x e.
Proof.
  induction e as [l c n s kids IH] using expr_ind'. cbn [postorder]. rewrite in_app_iff, in_flat_map. split.
  - intros [(k & Hk & Hx)|[<-|[]]]; [|constructor].
    rewrite Forall_forall in IH. apply (sub_kid x k); [exact Hk|]. now apply IH.
  - intros Hs. inversion Hs as [|? k ? Hk Hx]; subst; [right; now left|].
    left. exists k. split; [exact Hk|]. rewrite Forall_forall in IH. now apply IH.
Qed.

(** with a recurse_query: nothing new is found, and a pruned node hides its whole subtree
    (unless its handler is one of the constant-like ones) *)
Lemma retrieve_rq_sound q rq e : incl (retrieve q rq e) (filter q (postorder e)).
Proof.
  induction e as [l c n s kids IH] using expr_ind'. cbn [retrieve postorder].
  set (me := EN l c n s kids). rewrite filter_app. cbn [filter].
  destruct (rq me).
  - apply incl_app; [|apply incl_appr, incl_refl].
    apply incl_appl. rewrite filter_flat_map. intros x Hx. apply in_flat_map in Hx as (k & Hk & Hx).
    apply in_flat_map. exists k. split; [exact Hk|]. rewrite Forall_forall in IH. now apply (IH k Hk).
  - destruct (const_like c); [apply incl_appr, incl_refl|]. intros x [].
Qed.

Lemma retrieve_pruned q rq e :
  rq e = false -> const_like (ecl e) = false -> retrieve q rq e = [].
Proof. destruct e as [l c n s kids]. cbn. intros -> ->. reflexivity. Qed.

(* ---------------------------------------------------------------------------------- *)
(** * ExpressionFinder, flat mode *)

Lemma flatg_nonunique q it : forall lv, List.concat (flatg false q lv it) = all_matches q it.
Proof.
  unfold all_matches.
  induction it as [l k qq ch ex IH|els IH|e|] using item_ind'; intros lv.
  - cbn [flatg slots uniq_if]. cbn [List.concat]. rewrite app_nil_r.
    destruct (k =? K_TYPEDEF); [reflexivity|].
    assert (E : forall b, List.concat (flat_map (flatg false q b) ch) = filter q (flat_map postorder (flat_map slots ch))).
    { intros b. rewrite concat_flat_map, flat_map_flat_map, filter_flat_map.
      apply flat_map_ext_Forall. eapply Forall_impl; [|exact IH]. intros c Hc. apply Hc. }
    destruct (k =? K_VARDECL).
    + rewrite E, flat_map_app, filter_app. f_equal. rewrite filter_flat_map.
      apply flat_map_ext_Forall. apply Forall_forall. intros x _. apply retrieve_is_filter_postorder.
    + rewrite E, app_nil_r. reflexivity.
  - cbn [flatg slots uniq_if].
    assert (E : forall b, List.concat (flat_map (flatg false q b) els) = filter q (flat_map postorder (flat_map slots els))).
    { intros b. rewrite concat_flat_map, flat_map_flat_map, filter_flat_map.
      apply flat_map_ext_Forall. eapply Forall_impl; [|exact IH]. intros c Hc. apply Hc. }
    destruct lv; [apply E|]. cbn [List.concat]. rewrite app_nil_r. apply E.
  - cbn. rewrite !app_nil_r. apply retrieve_is_filter_postorder.
  - reflexivity.
Qed.

Lemma ef_flat_nonunique q it : ef_flat false q it = all_matches q it.
Proof. apply flatg_nonunique. Qed.

(** the traversed expression slots, declaratively *)
Inductive in_slot (r : expr) : item -> Prop :=
  | slot_expr : in_slot r (IExpr r)
  | slot_tuple els c : In c els -> in_slot r c -> in_slot r (ITuple els)
  | slot_child l k q ch ex c : k <> K_TYPEDEF -> In c ch -> in_slot r c -> in_slot r (INode l k q ch ex)
  | slot_init l q ch ex : In r ex -> in_slot r (INode l K_VARDECL q ch ex).

Lemma in_slots_iff r it : In r (slots it) <-> in_slot r it.
Proof.
  induction it as [l k q ch ex IH|els IH|e|] using item_ind'; cbn [slots].
  - rewrite Forall_forall in IH. destruct (k =? K_TYPEDEF) eqn:Ek.
    + split; [intros []|]. intros Hs. apply Z.eqb_eq in Ek. inversion Hs; subst; [contradiction|discriminate].
    + apply Z.eqb_neq in Ek. rewrite in_app_iff, in_flat_map. split.
      * intros [(c & Hc & Hr)|Hr].
        -- eapply slot_child; eauto. now apply IH.
        -- destruct (k =? K_VARDECL) eqn:Ev; [|destruct Hr]. apply Z.eqb_eq in Ev. subst k. now apply slot_init.
      * intros Hs. inversion Hs; subst.
        -- left. eexists. split; [eassumption|]. now apply IH.
        -- right. exact H0.
  - rewrite Forall_forall in IH. rewrite in_flat_map. split.
    + intros (c & Hc & Hr). eapply slot_tuple; eauto. now apply IH.
    + intros Hs. inversion Hs; subst. eexists. split; [eassumption|]. now apply IH.
  - split; [intros [<-|[]]; constructor|]. intros Hs. inversion Hs; subst. now left.
  - split; [intros []|]. intros Hs. inversion Hs.
Qed.

Lemma findvars_complete q it v :
  In v (ef_flat false q it) <-> q v = true /\ exists r, in_slot r it /\ subexpr v r.
Proof.
  rewrite ef_flat_nonunique. unfold all_matches. rewrite filter_In, in_flat_map. split.
  - intros [(r & Hr & Hv) Hq]. split; [exact Hq|]. exists r. split; [now apply in_slots_iff|now apply in_postorder_iff].
  - intros [Hq (r & Hr & Hv)]. split; [|exact Hq]. exists r. split; [now apply in_slots_iff|now apply in_postorder_iff].
Qed.

(** ** the transliteration agrees with [ef_flat] *)

Lemma sequence_map_some {A B} (g : A -> B) (l : list A) :
  sequence (map (fun x => Some (g x)) l) = Some (map g l).
Proof. induction l as [|a l IH]; cbn; [reflexivity|]. now rewrite IH. Qed.

Lemma flatten_atoms b (l : list expr) : flatten_py b (map PE l) = map PE l.
Proof. unfold flatten_py. induction l as [|a l IH]; cbn; [reflexivity|]. now rewrite IH. Qed.

Lemma flat1_tuple_atoms (l : list expr) : flat1 false (PT (map PE l)) = map PE l.
Proof. cbn. apply flatten_atoms. Qed.

Lemma flatten_tuples (ll : list (list expr)) :
  flatten_py false (map PT (map (map PE) ll)) = map PE (List.concat ll).
Proof.
  unfold flatten_py. induction ll as [|l ll IH]; [reflexivity|].
  cbn [map flat_map List.concat]. rewrite IH, map_app. f_equal. apply flat1_tuple_atoms.
Qed.

Lemma find_uniques_atoms u (l : list expr) : find_uniques u (map PE l) = Some (map PE (uniq_if u l)).
Proof.
  unfold find_uniques, uniq_if. destruct u; [|reflexivity].
  rewrite map_map. cbn [pe_of]. rewrite (sequence_map_some (fun x => x)), map_id. reflexivity.
Qed.

Lemma uniq_nil : uniq [] = [].
Proof. reflexivity. Qed.

Lemma ret_flat_atoms u o (l : list expr) : ret u false o (map PE l) = Some (map PE (uniq_if u l)).
Proof.
  destruct l as [|a l]; [destruct u; reflexivity|].
  unfold ret. cbn [map]. change (PE a :: map PE l) with (map PE (a :: l)).
  rewrite flatten_atoms. apply find_uniques_atoms.
Qed.

Lemma ret_flat_tuples u o (ll : list (list expr)) :
  ret u false o (map PT (map (map PE) ll)) = Some (map PE (uniq_if u (List.concat ll))).
Proof.
  destruct ll as [|l ll]; [destruct u; reflexivity|].
  unfold ret. cbn [map]. change (PT (map PE l) :: map PT (map (map PE) ll)) with (map PT (map (map PE) (l :: ll))).
  rewrite flatten_tuples. apply find_uniques_atoms.
Qed.

Definition somes (ll : list (list expr)) : list (option (list pyv)) := map (fun l => Some (map PE l)) ll.

Lemma somes_flat_map {A} (f : A -> list (list expr)) l :
  flat_map (fun c => somes (f c)) l = somes (flat_map f l).
Proof. unfold somes. now rewrite map_flat_map. Qed.

Lemma sequence_somes ll : sequence (somes ll) = Some (map (map PE) ll).
Proof. unfold somes. apply (sequence_map_some (map PE)). Qed.

Lemma efg_flat u q it : forall lv, efg u false q lv it = somes (flatg u q lv it).
Proof.
  induction it as [l k qq ch ex IH|els IH|e|] using item_ind'; intros lv.
  - cbn [efg flatg somes map].
    assert (E : forall b, flat_map (efg u false q b) ch = somes (flat_map (flatg u q b) ch)).
    { intros b. rewrite <- somes_flat_map. apply flat_map_ext_Forall. eapply Forall_impl; [|exact IH]. intros c Hc. apply Hc. }
    destruct (k =? K_TYPEDEF); [reflexivity|].
    destruct (k =? K_VARDECL).
    + rewrite E, sequence_somes, ret_flat_tuples. rewrite <- map_app, ret_flat_atoms. reflexivity.
    + rewrite E, sequence_somes, ret_flat_tuples. reflexivity.
  - cbn [efg flatg].
    assert (E : forall b, flat_map (efg u false q b) els = somes (flat_map (flatg u q b) els)).
    { intros b. rewrite <- somes_flat_map. apply flat_map_ext_Forall. eapply Forall_impl; [|exact IH]. intros c Hc. apply Hc. }
    destruct lv; [apply E|].
    rewrite E, sequence_somes, ret_flat_tuples. reflexivity.
  - reflexivity.
  - reflexivity.
Qed.

Lemma flatg_singleton u q it : exists l, flatg u q false it = [l].
Proof. destruct it; cbn; eauto. Qed.

Lemma ef_flat_correct u q it : ef u false q it = Some (map PE (ef_flat u q it)).
Proof.
  unfold ef, ef_flat. rewrite efg_flat. destruct (flatg_singleton u q it) as [l ->].
  cbn. now rewrite app_nil_r.
Qed.
