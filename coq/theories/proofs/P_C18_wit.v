(** C18 — witnesses. *)
From Coq Require Import ZArith List Bool String Lia.
From LV Require Import models.M_C17 models.M_C18 proofs.P_C17 proofs.P_C17_wit proofs.P_C18.
Import ListNotations.
Open Scope Z_scope.
Open Scope string_scope.

Definition pent (tag : Z) (j : Z) : entry := {| e_tag := tag; e_link := LProc j; e_trefs := [] |}.

(** subroutine s(n, a); real :: a(n); call mem(a); contains; subroutine mem(x); real :: x(n); x(1) = n; end; end *)
Definition w_member : unit :=
  Unit 0 KSub "s" None
       [("a", ent 2 [tr "n" 0 true]); ("mem", pent 3 1); ("n", ent 1 [])]
       [oc "n" 0; oc "a" 0; oc "n" 0; oc "mem" 0; oc "a" 0]
       [Unit 1 KSub "mem" (Some 0) [("x", ent 2 [tr "n" 0 true])] [oc "x" 1; oc "n" 0; oc "x" 1; oc "n" 0] []].

(** the member procedure comes back without its parent: the host-associated symbols are attached to nothing and have no type *)
Lemma unpickle_member_refuted :
  bounded 10 [] w_member = true /\ self_contained w_member = true /\ cleanp w_member = true /\
  skeleton (unpickle 10 w_member) <> skeleton (rename (ren 10 (ids w_member)) w_member) /\
  occ_types [] (unpickle 10 w_member) <> occ_types [] w_member /\
  (exists c, In c (u_children (unpickle 10 w_member)) /\ u_par c = None).
Proof.
  repeat split; try (vm_compute; reflexivity).
  - vm_compute. intro H. discriminate H.
  - vm_compute. intro H. discriminate H.
  - eexists. split; [vm_compute; left; reflexivity | reflexivity].
Qed.

(** a module procedure pickled on its own: the module is not pickled, the module variable [v] has no type afterwards *)
Definition wc_ctx : chain := [(5, [("v", ent 7 []); ("r", pent 8 0)])].
Definition w_contained : unit :=
  Unit 0 KSub "r" (Some 5) [("k", ent 1 [])] [oc "k" 0; oc "k" 0; oc "v" 5] [].

Lemma unpickle_contained_refuted :
  bounded 10 wc_ctx w_contained = true /\ wf wc_ctx w_contained = true /\ clean w_contained = true /\
  occ_types wc_ctx (unpickle 10 w_contained) <> occ_types wc_ctx w_contained.
Proof. repeat split; try (vm_compute; reflexivity). vm_compute. intro H. discriminate H. Qed.

(** ASSOCIATE over an array: the symbols inside the derived type of the associate name come back attached to nothing
    (the occurrences in the IR are fine: the skeleton statement holds) *)
Lemma unpickle_iso_refuted_assoc :
  self_contained w_assoc = true /\ no_sub_members w_assoc = true /\
  unpickle 10 w_assoc <> rename (ren 10 (ids w_assoc)) w_assoc.
Proof. repeat split; try (vm_compute; reflexivity). vm_compute. intro H. discriminate H. Qed.

(** a non-trivial member of the class: module with a derived type, a variable of that type, two module procedures
    (one calls the other), an ASSOCIATE over a scalar *)
Definition ex18 : unit :=
  Unit 0 KMod "m" None
       [("tt", {| e_tag := 1; e_link := LType 1; e_trefs := [] |}); ("x", {| e_tag := 2; e_link := LType 1; e_trefs := [] |});
        ("jp", ent 3 []); ("p", pent 4 2); ("q", pent 5 4)]
       [oc "jp" 0; oc "x" 0]
       [Unit 1 KTypedef "tt" (Some 0) [("r", ent 6 [tr "jp" 0 true])] [oc "r" 1; oc "jp" 0] [];
        Unit 2 KSub "p" (Some 0) [("a", ent 6 [tr "jp" 0 true]); ("x%r", ent 6 [])] [oc "a" 2; oc "jp" 0; oc "x" 0; oc "x%r" 2; oc "q" 0]
             [Unit 3 KAssoc "" (Some 2) [("z", ent 7 [])] [oc "a" 2; oc "z" 3; oc "z" 3; oc "jp" 0] []];
        Unit 4 KFun "q" (Some 0) [("w", ent 7 [])] [oc "w" 4; oc "w" 4; oc "jp" 0] []].

Example c18_nonvacuous :
  bounded 10 [] ex18 = true /\ self_contained ex18 = true /\ no_sub_members ex18 = true /\ cleanp ex18 = true /\
  unpickle 10 ex18 <> ex18.
Proof. repeat split; try (vm_compute; reflexivity). vm_compute. intro H. discriminate H. Qed.
