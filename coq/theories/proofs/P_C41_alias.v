(** C41 — inlining one callee with [allowed_aliases] leaves a well-scoped unit.

    The substitution is C28's [inline_body] run with the caller's declared names MINUS the aliases
    ([cvars_al]), so a callee local whose name is an alias is never renamed.  Such a local is SHARED with the
    caller's declaration when the caller declares that name (nothing is hoisted; [inline_class_al] says the
    caller declares it with the kind the callee gives it) and is HOISTED under its own name otherwise.

    The call-site argument of [P_C41_inline] is redone over an ABSTRACT renaming set [cv] and an abstract new
    environment [env'] (what it needs: old declarations are kept, the image of a callee local resolves in
    [env'] with the callee's kind); the alias-free theorem and this one are both instances.  The only new
    case is a local that stays itself and is not hoisted: it resolves in the caller's own declarations. *)
From Coq Require Import ZArith List Bool String Ascii Lia.
From LV Require Import Base.Expr Base.MiniF models.M_C41 proofs.P_C41_base proofs.P_C41_inline.
From LV Require models.M_C28.
Import ListNotations.
(* [P_C41_inline] leaves [string_scope] open; [++] is list concatenation here *)
Open Scope list_scope.

(* ------------------------------------------------------------------------------------------ *)
(** * generic facts *)

Lemma filter_all {A} (f : A -> bool) l : (forall x, f x = true) -> filter f l = l.
Proof.
  intros H. induction l as [|x r IH]; [reflexivity|]. cbn [filter]. rewrite H, IH. reflexivity.
Qed.

Lemma mem_cons x y l : mem x (y :: l) = String.eqb x y || mem x l.
Proof. reflexivity. Qed.

Lemma mem_cvars_al al cvars v : mem v (cvars_al al cvars) = mem v cvars && negb (mem v al).
Proof.
  unfold cvars_al. induction cvars as [|c r IH]; [reflexivity|].
  cbn [filter]. rewrite mem_cons. destruct (String.eqb v c) eqn:E.
  - apply String.eqb_eq in E. subst c. cbn [orb]. destruct (mem v al) eqn:Ea; cbn [negb].
    + rewrite IH. cbn [negb andb]. apply andb_false_r.
    + rewrite mem_cons, String.eqb_refl. reflexivity.
  - cbn [orb]. destruct (negb (mem c al)); [|exact IH].
    rewrite mem_cons, E. exact IH.
Qed.

(* ------------------------------------------------------------------------------------------ *)
(** * one call site, for an abstract renaming set and an abstract new environment *)

Section SiteG.
  Variables (lbc : list (string * list Z)) (lr : lranks) (ce : M_C28.callee).
  Variables (cv : list string) (env env' : denv).
  Let D := callee_decls lr ce.
  Let hn (v : string) := if M_C28.mem v cv then M_C28.ren (M_C28.ce_name ce) v else v.

  Hypothesis env_keep : forall x k, klookup env x = Some k -> klookup env' x = Some k.
  Hypothesis HndD : NoDup (map fst D).
  Hypothesis hoisted_scal : forall v, In v (M_C28.ce_locals ce) -> klookup env' (hn v) = Some KScalar.
  Hypothesis hoisted_arr :
    forall a, In a (M_C28.ce_larrs ce) -> klookup env' (hn a) = Some (KArray (rank_of lr a)).

  Lemma R_keep_g g : resolves env g -> resolves env' g.
  Proof. intros [k [A B]]. exists k. split; [apply env_keep; exact A | exact B]. Qed.

  Lemma keep_all_g us : Forall (resolves env) us -> Forall (resolves env') us.
  Proof. apply Forall_impl. exact R_keep_g. Qed.

  Section Call.
    Variables (args : list expr) (amap : list (string * (string * list M_C28.dspec))).
    Hypothesis Hok : args_ok env ce (M_C28.ce_params ce) args = true.
    Hypothesis Hamap : M_C28.argmap_a lbc ce (M_C28.ce_params ce) (map M_C28.AExp args) = Some amap.
    Hypothesis Hargs : Forall (resolves env) (uses_es args).
    Let m := M_C28.call_smap cv ce amap args.
    Let C := cuse (D ++ env) ce.
    Let R := resolves env'.

    (** the image of a name that is not a scalar dummy *)
    Let sn (x : string) := if mem x (M_C28.ce_locals ce) && mem x cv then M_C28.ren (M_C28.ce_name ce) x else x.

    Lemma lk_s_cases_g x :
      (exists e, M_C28.lk_s m x = e /\ In e args /\ M_C28.assoc (M_C28.argmap_s (M_C28.ce_params ce) args) x = Some e)
      \/ (M_C28.lk_s m x = EVar (sn x) /\ ~ In (x, false) (M_C28.ce_params ce)).
    Proof.
      unfold M_C28.lk_s, m, M_C28.call_smap. cbn [M_C28.sm_s]. rewrite assoc_app.
      destruct (M_C28.assoc (M_C28.argmap_s (M_C28.ce_params ce) args) x) as [e|] eqn:E1.
      - left. exists e. split; [reflexivity|]. split; [exact (argmap_s_in _ _ _ _ E1) | reflexivity].
      - right. split; [|exact (argmap_s_none _ _ _ _ _ Hok E1)].
        unfold M_C28.rename_s. rewrite (assoc_rename (fun v => EVar (M_C28.ren (M_C28.ce_name ce) v))).
        unfold sn. destruct (mem x (M_C28.ce_locals ce) && mem x cv); reflexivity.
    Qed.

    Lemma scal_default_g x g : (g = UAny \/ g = UScal) -> C (x, g) ->
      ~ In (x, false) (M_C28.ce_params ce) -> R (sn x, g).
    Proof.
      intros Hg [[k [Hk Hc]] Hna] Hns. cbn [fst snd] in *.
      assert (Hna' : ~ In x (carrs ce)) by (destruct Hg; subst g; exact Hna).
      unfold sn. destruct (mem x (M_C28.ce_locals ce)) eqn:El.
      - apply mem_In in El. exists KScalar. split.
        + cbn [fst andb]. pose proof (hoisted_scal x El) as Hh. unfold hn in Hh. rewrite mem28 in Hh. exact Hh.
        + destruct Hg; subst g; reflexivity.
      - cbn [andb]. apply mem_false in El. apply R_keep_g. exists k. split; [|exact Hc]. cbn [fst].
        rewrite klookup_app in Hk. destruct (klookup D x) as [k'|] eqn:ED; [|exact Hk]. exfalso.
        apply klookup_some_in in ED. apply callee_decls_in in ED.
        destruct ED as [[A _]|[[A _]|[[A _]|[A _]]]].
        + exact (Hns A).
        + apply Hna'. unfold carrs. apply in_or_app. left.
          apply in_map_iff. exists (x, true). split; [reflexivity|]. apply filter_In. split; [exact A | reflexivity].
        + exact (El A).
        + apply Hna'. unfold carrs. apply in_or_app. right. exact A.
    Qed.

    Lemma site_any_g x : C (x, UAny) -> Forall R (uses_e (M_C28.lk_s m x)).
    Proof.
      intros Hc. destruct (lk_s_cases_g x) as [[e [E [Hi _]]]|[E Hns]]; rewrite E.
      - unfold uses_es in Hargs. rewrite Forall_flat_map' in Hargs. rewrite Forall_forall in Hargs.
        apply (Forall_impl _ R_keep_g). apply Hargs. exact Hi.
      - cbn [uses_e]. constructor; [|constructor]. apply scal_default_g; auto.
    Qed.

    Lemma site_scal_g x y : C (x, UScal) -> M_C28.lk_s m x = EVar y -> R (y, UScal).
    Proof.
      intros Hc Ey. destruct (lk_s_cases_g x) as [[e [E [_ Ha]]]|[E Hns]].
      - rewrite Ey in E. subst e. apply R_keep_g. exists KScalar. split; [|reflexivity].
        exact (argmap_s_scal _ _ _ _ _ _ Hok Ha).
      - rewrite Ey in E. inversion E; subst. apply scal_default_g; auto.
    Qed.

    Lemma site_arr_g x n : C (x, UArr n) ->
      R (fst (M_C28.lk_a m x), UArr n)
      /\ forall idx, List.length idx = n ->
           List.length (M_C28.fill (snd (M_C28.lk_a m x)) idx) = n
           /\ (Forall R (uses_es idx) -> Forall R (uses_es (M_C28.fill (snd (M_C28.lk_a m x)) idx))).
    Proof.
      intros [[k [Hk Hc]] _]. cbn [fst snd] in *. apply compat_arr in Hc. subst k.
      rewrite klookup_app in Hk.
      unfold M_C28.lk_a, m, M_C28.call_smap. cbn [M_C28.sm_a]. rewrite assoc_app.
      destruct (M_C28.assoc amap x) as [[a t]|] eqn:E1.
      - destruct (argmap_a_some _ _ _ _ _ _ _ _ _ Hok Hamap E1) as [Hp [Ha Ht]].
        pose proof (klookup_nodup_in _ _ _ HndD (callee_decls_param lr ce x true Hp)) as HD.
        fold D in HD. rewrite HD in Hk. inversion Hk as [Hn]. cbn [fst snd]. split.
        + apply R_keep_g. exists (KArray (List.length (M_C28.lbs_of (M_C28.ce_lbs ce) x))).
          split; [exact Ha | cbn; apply Nat.eqb_refl].
        + intros idx Hl. destruct Ht as [Ht|[Ht1 Ht2]].
          * subst t. cbn [M_C28.fill]. split; [exact Hl | auto].
          * rewrite <- Hl. apply fill_off; [exact Ht1 | rewrite Ht2, Hl; reflexivity].
      - pose proof (argmap_a_none _ _ _ _ _ _ Hamap E1) as Hnp.
        unfold M_C28.rename_a.
        rewrite (assoc_rename (fun v => (M_C28.ren (M_C28.ce_name ce) v, @nil M_C28.dspec))).
        destruct (mem x (M_C28.ce_larrs ce)) eqn:El.
        + apply mem_In in El.
          pose proof (klookup_nodup_in _ _ _ HndD (callee_decls_larr lr ce x El)) as HD.
          fold D in HD. rewrite HD in Hk. inversion Hk as [Hn].
          pose proof (hoisted_arr x El) as Hh. unfold hn in Hh. rewrite mem28 in Hh. cbn [andb].
          destruct (mem x cv); cbn [fst snd M_C28.fill].
          * split; [exists (KArray (rank_of lr x)); split; [exact Hh | cbn; apply Nat.eqb_refl]|].
            intros idx Hl. split; [exact Hl | auto].
          * split; [exists (KArray (rank_of lr x)); split; [exact Hh | cbn; apply Nat.eqb_refl]|].
            intros idx Hl. split; [exact Hl | auto].
        + cbn [andb fst snd M_C28.fill]. apply mem_false in El. split.
          * apply R_keep_g. exists (KArray n). split; [|cbn; apply Nat.eqb_refl]. cbn [fst].
            destruct (klookup D x) as [k'|] eqn:ED; [|exact Hk]. exfalso.
            inversion Hk; subst k'.
            apply klookup_some_in in ED. apply callee_decls_in in ED.
            destruct ED as [[_ A]|[[A _]|[[_ A]|[A _]]]]; try discriminate.
            -- exact (Hnp A).
            -- exact (El A).
          * intros idx Hl. split; [exact Hl | auto].
    Qed.

    Lemma site_ok_g q :
      Forall C (uses_stmts (M_C28.ce_body ce)) ->
      M_C28.subst_stmts m (M_C28.ce_body ce) = Some q -> Forall R (uses_stmts q).
    Proof.
      apply (subst_stmts_ok m C R site_any_g site_scal_g site_arr_g).
    Qed.
  End Call.

  Hypothesis Hbody : Forall (cuse (D ++ env) ce) (uses_stmts (M_C28.ce_body ce)).

  Lemma inline_call_ok_g args q :
    args_ok env ce (M_C28.ce_params ce) args = true -> Forall (resolves env) (uses_es args) ->
    M_C28.inline_call cv lbc ce args = Some q -> Forall (resolves env') (uses_stmts q).
  Proof.
    intros Hok Hargs. unfold M_C28.inline_call, M_C28.inline_call_src.
    destruct (M_C28.argmap_a lbc ce (M_C28.ce_params ce) (map M_C28.AExp args)) as [amap|] eqn:Ea; [|discriminate].
    unfold M_C28.inline_call_m. rewrite scalar_args_AExp.
    destruct (Nat.eqb _ _); [|discriminate].
    apply (site_ok_g args amap Hok Ea Hargs q Hbody).
  Qed.

  (** the local [go] of [inline_stmt] is [inline_body] *)
  Definition igo_g : list stmt -> option (list stmt) :=
    fix go (l : list stmt) : option (list stmt) :=
      match l with
      | [] => Some []
      | x :: r => match M_C28.inline_stmt cv lbc ce x, go r with Some a, Some b => Some (a ++ b) | _, _ => None end
      end.

  Lemma igo_g_eq l : igo_g l = M_C28.inline_body cv lbc ce l.
  Proof.
    induction l as [|x r IHr]; [reflexivity|].
    cbn [igo_g M_C28.inline_body]. fold igo_g. rewrite IHr. reflexivity.
  Qed.

  Lemma inline_stmt_do_g v lo hi st b : M_C28.inline_stmt cv lbc ce (SDo v lo hi st b) =
    match M_C28.inline_body cv lbc ce b with Some b' => Some [SDo v lo hi st b'] | None => None end.
  Proof. rewrite <- igo_g_eq. reflexivity. Qed.
  Lemma inline_stmt_while_g c b : M_C28.inline_stmt cv lbc ce (SWhile c b) =
    match M_C28.inline_body cv lbc ce b with Some b' => Some [SWhile c b'] | None => None end.
  Proof. rewrite <- igo_g_eq. reflexivity. Qed.
  Lemma inline_stmt_if_g c t e : M_C28.inline_stmt cv lbc ce (SIf c t e) =
    match M_C28.inline_body cv lbc ce t, M_C28.inline_body cv lbc ce e with
    | Some t', Some e' => Some [SIf c t' e'] | _, _ => None end.
  Proof. rewrite <- !igo_g_eq. reflexivity. Qed.

  Definition istmt_goal_g (s : stmt) : Prop :=
    forall q, Forall (resolves env) (uses_stmt s) -> sites_ok env ce s = true ->
              M_C28.inline_stmt cv lbc ce s = Some q -> Forall (resolves env') (uses_stmts q).

  Lemma inline_body_ok_aux_g l : Forall istmt_goal_g l ->
    forall q, Forall (resolves env) (uses_stmts l) -> forallb (sites_ok env ce) l = true ->
              M_C28.inline_body cv lbc ce l = Some q -> Forall (resolves env') (uses_stmts q).
  Proof.
    induction 1 as [|x l Hx _ IH]; cbn [M_C28.inline_body forallb]; intros q Hr Hs E.
    - inversion E. constructor.
    - destruct (M_C28.inline_stmt cv lbc ce x) as [a|] eqn:E1; [|discriminate].
      destruct (M_C28.inline_body cv lbc ce l) as [b|] eqn:E2; [|discriminate].
      inversion E; subst. apply andb_true_iff in Hs. destruct Hs as [S1 S2].
      unfold uses_stmts in *. cbn [flat_map] in Hr. apply Forall_app in Hr. destruct Hr as [R1 R2].
      rewrite flat_map_app. apply Forall_app. split.
      + exact (Hx a R1 S1 E1).
      + apply IH; [exact R2 | exact S2 | reflexivity].
  Qed.

  Lemma inline_stmt_ok_g s : istmt_goal_g s.
  Proof.
    induction s as [x e|a idx e|v lo hi st b IH|c b IH|c t e IHt IHe|f args|l] using stmt_ind';
      unfold istmt_goal_g; intros q Hr Hs E.
    - cbn in E. inversion E; subst. unfold uses_stmts. cbn [flat_map]. rewrite app_nil_r. apply keep_all_g. exact Hr.
    - cbn in E. inversion E; subst. unfold uses_stmts. cbn [flat_map]. rewrite app_nil_r. apply keep_all_g. exact Hr.
    - rewrite inline_stmt_do_g in E.
      destruct (M_C28.inline_body cv lbc ce b) as [b'|] eqn:Eb; [|discriminate].
      inversion E; subst. unfold uses_stmts. cbn [flat_map]. rewrite app_nil_r.
      cbn [uses_stmt sites_ok] in *.
      inversion Hr as [|g gs Hv Hr']; subst.
      apply Forall_app in Hr'. destruct Hr' as [Hlo Hr'].
      apply Forall_app in Hr'. destruct Hr' as [Hhi Hr'].
      apply Forall_app in Hr'. destruct Hr' as [Hst Hb].
      constructor; [apply R_keep_g; exact Hv|].
      apply Forall_app. split; [apply keep_all_g; exact Hlo|].
      apply Forall_app. split; [apply keep_all_g; exact Hhi|].
      apply Forall_app. split; [apply keep_all_g; exact Hst|].
      exact (inline_body_ok_aux_g b IH b' Hb Hs Eb).
    - rewrite inline_stmt_while_g in E.
      destruct (M_C28.inline_body cv lbc ce b) as [b'|] eqn:Eb; [|discriminate].
      inversion E; subst. unfold uses_stmts. cbn [flat_map]. rewrite app_nil_r.
      cbn [uses_stmt sites_ok] in *.
      apply Forall_app in Hr. destruct Hr as [Hc Hb].
      apply Forall_app. split; [apply keep_all_g; exact Hc|].
      exact (inline_body_ok_aux_g b IH b' Hb Hs Eb).
    - rewrite inline_stmt_if_g in E.
      destruct (M_C28.inline_body cv lbc ce t) as [t'|] eqn:Et; [|discriminate].
      destruct (M_C28.inline_body cv lbc ce e) as [e'|] eqn:Ee; [|discriminate].
      inversion E; subst. unfold uses_stmts. cbn [flat_map]. rewrite app_nil_r.
      cbn [uses_stmt sites_ok] in *. apply andb_true_iff in Hs. destruct Hs as [S1 S2].
      apply Forall_app in Hr. destruct Hr as [Hc Hr].
      apply Forall_app in Hr. destruct Hr as [Ht He].
      apply Forall_app. split; [apply keep_all_g; exact Hc|].
      apply Forall_app. split.
      + exact (inline_body_ok_aux_g t IHt t' Ht S1 Et).
      + exact (inline_body_ok_aux_g e IHe e' He S2 Ee).
    - cbn [M_C28.inline_stmt sites_ok uses_stmt] in *.
      destruct (String.eqb f (M_C28.ce_name ce)).
      + exact (inline_call_ok_g args q Hs Hr E).
      + inversion E; subst. unfold uses_stmts. cbn [flat_map uses_stmt]. rewrite app_nil_r. apply keep_all_g. exact Hr.
    - cbn in E. inversion E; subst. constructor.
  Qed.

  Lemma inline_body_ok_g l q :
    Forall (resolves env) (uses_stmts l) -> forallb (sites_ok env ce) l = true ->
    M_C28.inline_body cv lbc ce l = Some q -> Forall (resolves env') (uses_stmts q).
  Proof.
    apply inline_body_ok_aux_g. apply Forall_forall. intros s _. apply inline_stmt_ok_g.
  Qed.
End SiteG.

(* ------------------------------------------------------------------------------------------ *)
(** * the environment after inlining with aliases *)

Section EnvAl.
  Variables (al : list string) (lr : lranks) (ce : M_C28.callee) (u : unit (list stmt)).
  Let cvars := map fst (u_decls u).
  Let cv := cvars_al al cvars.
  Let Hd := hoisted_decls_al al cvars lr ce.
  Let env := u_env u.
  Let env' := (u_decls u ++ Hd) ++ u_ext u.

  Hypothesis Hnd : NoDup (cvars ++ map fst Hd).
  Hypothesis Hext : forall x, In x (map fst Hd) -> ~ In x (map fst (u_ext u)).
  (** a shared alias is declared in the caller with the callee's kind *)
  Hypothesis Hshs : forall v, In v (M_C28.ce_locals ce) -> shared_alias al cvars v = true ->
                              klookup (u_decls u) v = Some KScalar.
  Hypothesis Hsha : forall a, In a (M_C28.ce_larrs ce) -> shared_alias al cvars a = true ->
                              klookup (u_decls u) a = Some (KArray (rank_of lr a)).

  Lemma env_keep_al x k : klookup env x = Some k -> klookup env' x = Some k.
  Proof.
    unfold env, env', u_env. rewrite !klookup_app.
    destruct (klookup (u_decls u) x); [auto|]. intros E.
    destruct (klookup Hd x) as [k'|] eqn:EH; [|exact E]. exfalso.
    apply klookup_in_names in EH. apply klookup_in_names in E. exact (Hext x EH E).
  Qed.

  Lemma hoisted_in_al x k : In (x, k) Hd -> klookup env' x = Some k.
  Proof.
    intros Hi. unfold env'. rewrite !klookup_app.
    destruct (NoDup_app_inv _ _ Hnd) as [_ [N2 N3]].
    assert (Hx : In x (map fst Hd)) by (apply (in_map fst) in Hi; exact Hi).
    assert (E1 : klookup (u_decls u) x = None).
    { apply klookup_none. intros Q. exact (N3 x Q Hx). }
    rewrite E1, (klookup_nodup_in _ _ _ N2 Hi). reflexivity.
  Qed.

  (** a shared alias is not renamed and resolves in the caller's own declarations *)
  Lemma shared_lookup v k : shared_alias al cvars v = true -> klookup (u_decls u) v = Some k ->
    klookup env' (if M_C28.mem v cv then M_C28.ren (M_C28.ce_name ce) v else v) = Some k.
  Proof.
    intros Es Hk. unfold shared_alias in Es. apply andb_true_iff in Es. destruct Es as [Ea Ec].
    rewrite mem28. unfold cv. rewrite mem_cvars_al, Ea. cbn [negb]. rewrite andb_false_r.
    unfold env'. rewrite !klookup_app, Hk. reflexivity.
  Qed.

  Lemma hoisted_scal_al v : In v (M_C28.ce_locals ce) ->
    klookup env' (if M_C28.mem v cv then M_C28.ren (M_C28.ce_name ce) v else v) = Some KScalar.
  Proof.
    intros Hi. destruct (shared_alias al cvars v) eqn:Es.
    - apply shared_lookup; [exact Es | exact (Hshs v Hi Es)].
    - apply hoisted_in_al. unfold Hd, hoisted_decls_al. cbn zeta. apply in_or_app. left.
      apply in_map_iff. exists v. split; [reflexivity|].
      apply filter_In. split; [exact Hi | rewrite Es; reflexivity].
  Qed.

  Lemma hoisted_arr_al a : In a (M_C28.ce_larrs ce) ->
    klookup env' (if M_C28.mem a cv then M_C28.ren (M_C28.ce_name ce) a else a) = Some (KArray (rank_of lr a)).
  Proof.
    intros Hi. destruct (shared_alias al cvars a) eqn:Es.
    - apply shared_lookup; [exact Es | exact (Hsha a Hi Es)].
    - apply hoisted_in_al. unfold Hd, hoisted_decls_al. cbn zeta. apply in_or_app. right.
      apply in_map_iff. exists a. split; [reflexivity|].
      apply filter_In. split; [exact Hi | rewrite Es; reflexivity].
  Qed.
End EnvAl.

(* ------------------------------------------------------------------------------------------ *)
(** * the theorem *)

Theorem T_inline_al_preserves_well_scoped al lbc lr ce (u u' : unit (list stmt)) :
  well_scoped uses_stmts u ->
  well_scoped uses_stmts (callee_unit lr (u_env u) ce) ->
  inline_class_al al lr ce u = true ->
  T_inline_al al lbc lr ce u = Some u' ->
  well_scoped uses_stmts u'.
Proof.
  intros [W1 [W2 [W3 [W4 [W5 W6]]]]] [_ [_ [Wc _]]] Hcls HT.
  unfold inline_class_al in Hcls. cbn zeta in Hcls.
  apply andb_true_iff in Hcls. destruct Hcls as [Hcls Hsha].
  apply andb_true_iff in Hcls. destruct Hcls as [Hcls Hshs].
  apply andb_true_iff in Hcls. destruct Hcls as [Hcls Hsites].
  apply andb_true_iff in Hcls. destruct Hcls as [Hcls HndD].
  apply andb_true_iff in Hcls. destruct Hcls as [Hcls Hext].
  apply andb_true_iff in Hcls. destruct Hcls as [Hsub Hnd].
  apply nodupb_NoDup in Hnd. apply nodupb_NoDup in HndD.
  assert (Hext' : forall x, In x (map fst (hoisted_decls_al al (map fst (u_decls u)) lr ce)) ->
                            ~ In x (map fst (u_ext u))).
  { intros x Hx. rewrite forallb_forall in Hext. specialize (Hext x Hx).
    apply negb_true_iff in Hext. apply mem_false in Hext. exact Hext. }
  assert (Hshs' : forall v, In v (M_C28.ce_locals ce) -> shared_alias al (map fst (u_decls u)) v = true ->
                            klookup (u_decls u) v = Some KScalar).
  { intros v Hv Es. rewrite forallb_forall in Hshs. specialize (Hshs v Hv). rewrite Es in Hshs.
    cbn [negb orb] in Hshs. destruct (klookup (u_decls u) v) as [[|n]|]; try discriminate. reflexivity. }
  assert (Hsha' : forall a, In a (M_C28.ce_larrs ce) -> shared_alias al (map fst (u_decls u)) a = true ->
                            klookup (u_decls u) a = Some (KArray (rank_of lr a))).
  { intros a Ha Es. rewrite forallb_forall in Hsha. specialize (Hsha a Ha). rewrite Es in Hsha.
    cbn [negb orb] in Hsha. destruct (klookup (u_decls u) a) as [k|]; [|discriminate].
    apply kind_eqb_eq in Hsha. subst k. reflexivity. }
  cbn [callee_unit u_body] in Wc. unfold u_env at 1 in Wc. cbn [u_decls u_ext callee_unit] in Wc.
  pose proof (callee_uses_ok lr ce (u_env u) Hsub Wc) as Hbody.
  unfold T_inline_al in HT. cbn zeta in HT.
  destruct (M_C28.inline_body (cvars_al al (map fst (u_decls u))) lbc ce (u_body u)) as [b'|] eqn:Eb; [|discriminate].
  inversion HT; subst u'. clear HT.
  pose proof (env_keep_al al lr ce u Hext') as Hkeep.
  pose proof (inline_body_ok_g lbc lr ce (cvars_al al (map fst (u_decls u))) (u_env u)
                ((u_decls u ++ hoisted_decls_al al (map fst (u_decls u)) lr ce) ++ u_ext u)
                Hkeep HndD
                (hoisted_scal_al al lr ce u Hnd Hshs')
                (hoisted_arr_al al lr ce u Hnd Hsha')
                Hbody (u_body u) b' W3 Hsites Eb) as Hb'.
  unfold well_scoped, u_env. cbn [u_args u_decls u_shapes u_ext u_inner u_body].
  split; [|split; [|split; [|split; [|split]]]].
  - rewrite map_app. exact Hnd.
  - rewrite map_app. apply incl_appl. exact W2.
  - exact Hb'.
  - apply (Forall_impl _ (R_keep_g _ _ Hkeep)). exact W4.
  - apply (Forall_impl _ (R_keep_g _ _ Hkeep)). exact W5.
  - apply Forall_forall. intros p Hp. rewrite Forall_forall in W6.
    apply (shape_ok_keep (u_env u)); [apply W6; exact Hp|].
    intros k Hk. apply Hkeep. exact Hk.
Qed.

(* ------------------------------------------------------------------------------------------ *)
(** * no aliases: the alias-free transformation *)

Lemma cvars_al_nil cvars : cvars_al [] cvars = cvars.
Proof. unfold cvars_al. apply filter_all. intros x. reflexivity. Qed.

Lemma hoisted_decls_al_nil cvars lr ce : hoisted_decls_al [] cvars lr ce = hoisted_decls cvars lr ce.
Proof.
  unfold hoisted_decls_al, hoisted_decls. cbn zeta. rewrite cvars_al_nil.
  rewrite !filter_all by (intros x; reflexivity). reflexivity.
Qed.

Lemma T_inline_al_nil lbc lr ce u : T_inline_al [] lbc lr ce u = T_inline lbc lr ce u.
Proof.
  unfold T_inline_al, T_inline. cbn zeta. rewrite cvars_al_nil, hoisted_decls_al_nil. reflexivity.
Qed.

Lemma inline_class_al_nil lr ce u : inline_class_al [] lr ce u = inline_class lr ce u.
Proof.
  unfold inline_class_al, inline_class. cbn zeta. rewrite hoisted_decls_al_nil.
  assert (E1 : forall (f : string -> bool) l, forallb (fun v => negb (shared_alias [] (map fst (u_decls u)) v) || f v) l = true).
  { intros f l. apply forallb_forall. intros x _. reflexivity. }
  rewrite !E1, !andb_true_r. reflexivity.
Qed.

(* ------------------------------------------------------------------------------------------ *)
(** * several callees: the hypotheses are threaded through the intermediate units *)

Fixpoint all_steps_ok_al (al : list string) (lbc : list (string * list Z)) (lrs : list lranks)
         (ces : list M_C28.callee) (u : unit (list stmt)) : Prop :=
  match ces with
  | [] => True
  | ce :: r =>
      let lr := match lrs with lr :: _ => lr | [] => [] end in
      let q := match lrs with _ :: q => q | [] => [] end in
      well_scoped uses_stmts (callee_unit lr (u_env u) ce)
      /\ inline_class_al al lr ce u = true
      /\ forall u', T_inline_al al lbc lr ce u = Some u' -> all_steps_ok_al al lbc q r u'
  end.

Theorem T_inline_all_al_preserves_well_scoped_partial al lbc : forall ces lrs (u u' : unit (list stmt)),
  well_scoped uses_stmts u ->
  all_steps_ok_al al lbc lrs ces u ->
  T_inline_all_al al lbc lrs ces u = Some u' ->
  well_scoped uses_stmts u'.
Proof.
  induction ces as [|ce r IH]; intros lrs u u' Hw Hs HT.
  - cbn in HT. inversion HT; subst. exact Hw.
  - destruct lrs as [|lr q]; cbn [T_inline_all_al] in HT; cbn [all_steps_ok_al] in Hs; cbn zeta in Hs;
      destruct Hs as [Hc [Hcls Hnext]].
    + destruct (T_inline_al al lbc [] ce u) as [u1|] eqn:E1; [|discriminate].
      apply (IH [] u1 u'); [|apply Hnext; reflexivity | exact HT].
      exact (T_inline_al_preserves_well_scoped al lbc [] ce u u1 Hw Hc Hcls E1).
    + destruct (T_inline_al al lbc lr ce u) as [u1|] eqn:E1; [|discriminate].
      apply (IH q u1 u'); [|apply Hnext; reflexivity | exact HT].
      exact (T_inline_al_preserves_well_scoped al lbc lr ce u u1 Hw Hc Hcls E1).
Qed.

(* ------------------------------------------------------------------------------------------ *)
(** * the class is inhabited; hoisting the unshared aliases matters *)

Open Scope string_scope.

(** callee [f(s)]: scalar dummy [s] (written), locals [jl], [jk] (DO variables, both allowed aliases) and [t]
    (not an alias; clashes with the caller's [t]), host scalar [n] *)
Definition al_ce : M_C28.callee :=
  {| M_C28.ce_name := "f"; M_C28.ce_params := [("s", false)];
     M_C28.ce_locals := ["jl"; "jk"; "t"]; M_C28.ce_larrs := []; M_C28.ce_lbs := [];
     M_C28.ce_body :=
       [SDo "jl" (EInt 1) (EInt 2) None [SAssign "t" (EVar "jl")];
        SDo "jk" (EInt 1) (EVar "n") None [SAssign "s" (ESum false [EVar "t"; EVar "jk"])]] |}.

(** the caller declares [jl] (shared with the callee) and [t], but not [jk] *)
Definition al_u : unit (list stmt) :=
  mkUnit ["x"] [("x", KScalar); ("jl", KScalar); ("t", KScalar)] [] [("n", KScalar)] []
    [SDo "jl" (EInt 1) (EInt 3) None [SAssign "t" (EVar "jl"); SCall "f" [EVar "x"]];
     SCall "g" [EVar "t"]].

Definition al_al : list string := ["jl"; "jk"].

Example T_inline_al_inhabited :
  inline_class_al al_al [] al_ce al_u = true
  /\ well_scopedb uses_stmts al_u = true
  /\ well_scopedb uses_stmts (callee_unit [] (u_env al_u) al_ce) = true
  /\ exists u', T_inline_al al_al [] [] al_ce al_u = Some u'
       /\ u_decls u' = (u_decls al_u ++ [("jk", KScalar); ("f_t", KScalar)])%list
       /\ u_body u' =
            [SDo "jl" (EInt 1) (EInt 3) None
               [SAssign "t" (EVar "jl");
                SDo "jl" (EInt 1) (EInt 2) None [SAssign "f_t" (EVar "jl")];
                SDo "jk" (EInt 1) (EVar "n") None [SAssign "x" (ESum false [EVar "f_t"; EVar "jk"])]];
             SCall "g" [EVar "t"]]
       /\ well_scopedb uses_stmts u' = true.
Proof.
  split; [vm_compute; reflexivity|]. split; [vm_compute; reflexivity|]. split; [vm_compute; reflexivity|].
  eexists. split; [vm_compute; reflexivity|].
  split; [reflexivity|]. split; [reflexivity | vm_compute; reflexivity].
Qed.

(** the seeded defect as an alternative declaration change: if NO alias is hoisted (also not the ones the
    caller does not declare), the result is not well-scoped — [jk] is used as a DO variable but declared nowhere *)
Theorem T_inline_al_unhoisted_refuted :
  exists al lbc lr ce (u : unit (list stmt)) b',
    well_scoped uses_stmts u
    /\ inline_class_al al lr ce u = true
    /\ M_C28.inline_body (cvars_al al (map fst (u_decls u))) lbc ce (u_body u) = Some b'
    /\ ~ well_scoped uses_stmts
         (mkUnit (u_args u)
                 (u_decls u ++ filter (fun d => negb (mem (fst d) al))
                                      (hoisted_decls_al al (map fst (u_decls u)) lr ce))%list
                 (u_shapes u) (u_ext u) (u_inner u) b').
Proof.
  exists al_al, [], [], al_ce, al_u. eexists.
  split; [apply well_scopedb_spec; vm_compute; reflexivity|].
  split; [vm_compute; reflexivity|].
  split; [vm_compute; reflexivity|].
  intros H. apply well_scopedb_spec in H. vm_compute in H. discriminate.
Qed.

(** the same with the callee's own well-scopedness: every hypothesis of the theorem holds *)
Theorem T_inline_al_unhoisted_refuted_full :
  exists al lbc lr ce (u : unit (list stmt)) b',
    well_scoped uses_stmts u
    /\ well_scoped uses_stmts (callee_unit lr (u_env u) ce)
    /\ inline_class_al al lr ce u = true
    /\ M_C28.inline_body (cvars_al al (map fst (u_decls u))) lbc ce (u_body u) = Some b'
    /\ ~ well_scoped uses_stmts
         (mkUnit (u_args u)
                 (u_decls u ++ filter (fun d => negb (mem (fst d) al))
                                      (hoisted_decls_al al (map fst (u_decls u)) lr ce))%list
                 (u_shapes u) (u_ext u) (u_inner u) b').
Proof.
  exists al_al, [], [], al_ce, al_u. eexists.
  split; [apply well_scopedb_spec; vm_compute; reflexivity|].
  split; [apply well_scopedb_spec; vm_compute; reflexivity|].
  split; [vm_compute; reflexivity|].
  split; [vm_compute; reflexivity|].
  intros H. apply well_scopedb_spec in H. vm_compute in H. discriminate.
Qed.

(** the same instance, the missing name made explicit *)
Example T_inline_al_unhoisted_missing :
  forall b', M_C28.inline_body (cvars_al al_al (map fst (u_decls al_u))) [] al_ce (u_body al_u) = Some b' ->
    In ("jk", UScal) (uses_stmts b')
    /\ klookup ((u_decls al_u ++ filter (fun d => negb (mem (fst d) al_al))
                                        (hoisted_decls_al al_al (map fst (u_decls al_u)) [] al_ce)) ++ u_ext al_u)%list
               "jk" = None.
Proof.
  intros b' H. vm_compute in H. inversion H; subst b'. split; [|vm_compute; reflexivity].
  vm_compute. repeat ((left; reflexivity) || right).
Qed.

(** a shared ARRAY alias: the callee's local array [w] (rank 2) is an alias that the caller declares with the
    same rank; nothing is hoisted for it and [w(..)] in the inlined code is the caller's [w] *)
Definition ar_ce : M_C28.callee :=
  {| M_C28.ce_name := "f"; M_C28.ce_params := []; M_C28.ce_locals := ["jl"]; M_C28.ce_larrs := ["w"; "z"];
     M_C28.ce_lbs := [];
     M_C28.ce_body := [SDo "jl" (EInt 1) (EInt 2) None
                         [SStore "w" [EVar "jl"; EInt 1] (EInt 0); SStore "z" [EVar "jl"] (ECall "w" [EInt 1; EVar "jl"])]] |}.
Definition ar_u : unit (list stmt) :=
  mkUnit [] [("w", KArray 2); ("z", KArray 1)] [] [] [] [SCall "f" []].

Example T_inline_al_shared_array :
  inline_class_al ["jl"; "w"] [("w", 2%nat)] ar_ce ar_u = true
  /\ well_scopedb uses_stmts ar_u = true
  /\ well_scopedb uses_stmts (callee_unit [("w", 2%nat)] (u_env ar_u) ar_ce) = true
  /\ exists u', T_inline_al ["jl"; "w"] [] [("w", 2%nat)] ar_ce ar_u = Some u'
       /\ u_decls u' = [("w", KArray 2); ("z", KArray 1); ("jl", KScalar); ("f_z", KArray 1)]
       /\ well_scopedb uses_stmts u' = true.
Proof.
  split; [vm_compute; reflexivity|]. split; [vm_compute; reflexivity|]. split; [vm_compute; reflexivity|].
  eexists. split; [vm_compute; reflexivity|]. split; [reflexivity | vm_compute; reflexivity].
Qed.

(** ... and the class excludes a shared alias that the caller declares with another kind *)
Example T_inline_al_class_kind :
  inline_class_al ["jl"; "w"] [("w", 2%nat)] ar_ce (set_decls ar_u [("w", KArray 1); ("z", KArray 1)]) = false.
Proof. vm_compute; reflexivity. Qed.


Print Assumptions T_inline_al_preserves_well_scoped.
Print Assumptions T_inline_all_al_preserves_well_scoped_partial.
Print Assumptions T_inline_al_unhoisted_refuted.
