(** C26 — proofs, part 3: frame property.  A location that is not in the written set of a run keeps
    its value; hence a variable that is neither in [defines] nor a DO variable keeps its value (the
    form in which consumers such as region outlining use [defines_symbols]). *)
From Coq Require Import ZArith List Bool String Lia.
From LV Require Import Base.Expr Base.MiniF Base.MiniFFacts models.M_C26 proofs.P_C26 proofs.P_C26_def.
Import ListNotations.
Open Scope Z_scope.

Definition val (s : store) (l : loc) : Z := match l with LS x => sv s x | LA a i => av s a i end.

Lemma val_set_sv x v s l : l <> LS x -> val (set_sv x v s) l = val s l.
Proof.
  destruct l as [y|a i]; cbn; [|reflexivity]. intros H.
  destruct (String.eqb y x) eqn:E; [|reflexivity]. apply String.eqb_eq in E. congruence.
Qed.

Lemma val_set_av a i v s l : l <> LA a i -> val (set_av a i v s) l = val s l.
Proof.
  destruct l as [y|b j]; cbn; [reflexivity|]. intros H.
  destruct (String.eqb b a && list_z_eqb j i) eqn:E; [|reflexivity].
  apply andb_true_iff in E. destruct E as [E1 E2]. apply String.eqb_eq in E1. apply list_z_eqb_eq in E2. congruence.
Qed.

(** * copy-in *)
Lemma copy_in_other : forall params args caller c s0 d,
  copy_in caller params args c = Some s0 -> ~ In d (map fst params) ->
  sv s0 d = sv c d /\ (forall i, av s0 d i = av c d i).
Proof.
  induction params as [|[d0 b] ps IH]; intros args caller c s0 d E Hn.
  - destruct args; [|discriminate]. cbn in E. inversion E; subst. auto.
  - cbn [map fst In] in Hn.
    assert (String.eqb d d0 = false) as Hne by (apply String.eqb_neq; intros ->; apply Hn; now left).
    destruct b, args as [|a r]; cbn [copy_in] in E; try discriminate.
    + destruct a; try discriminate.
      destruct (IH _ _ _ _ d E) as [A B]; [tauto|]. split.
      * rewrite A. reflexivity.
      * intros i. rewrite B. cbn. now rewrite Hne.
    + destruct (evalZ (env_st caller) a) as [v|]; [|discriminate].
      destruct (IH _ _ _ _ d E) as [A B]; [tauto|]. split.
      * rewrite A. cbn. now rewrite Hne.
      * intros i. rewrite B. reflexivity.
Qed.

Lemma copy_in_sv : forall params args caller c s0 k d e,
  NoDup (map fst params) -> copy_in caller params args c = Some s0 ->
  nth_error params k = Some (d, false) -> nth_error args k = Some e ->
  evalZ (env_st caller) e = Some (sv s0 d).
Proof.
  induction params as [|[d0 b] ps IH]; intros args caller c s0 k d e Hnd E E1 E2.
  - destruct k; discriminate.
  - cbn [map fst] in Hnd. inversion Hnd as [|? ? Hn0 Hnd']; subst.
    destruct k as [|k].
    + cbn in E1. inversion E1; subst. destruct args as [|a r]; [discriminate|]. cbn in E2. inversion E2; subst.
      cbn [copy_in] in E. destruct (evalZ (env_st caller) e) as [v|]; [|discriminate].
      destruct (copy_in_other _ _ _ _ _ d E Hn0) as [A _]. rewrite A. cbn. now rewrite String.eqb_refl.
    + destruct args as [|a r]; [discriminate|]. cbn in E1, E2.
      destruct b; cbn [copy_in] in E.
      * destruct a; try discriminate. eapply IH; eauto.
      * destruct (evalZ (env_st caller) a); [|discriminate]. eapply IH; eauto.
Qed.

Lemma copy_in_av : forall params args caller c s0 k d a,
  NoDup (map fst params) -> copy_in caller params args c = Some s0 ->
  nth_error params k = Some (d, true) -> nth_error args k = Some (EVar a) ->
  forall i, av s0 d i = av caller a i.
Proof.
  induction params as [|[d0 b] ps IH]; intros args caller c s0 k d a Hnd E E1 E2 i.
  - destruct k; discriminate.
  - cbn [map fst] in Hnd. inversion Hnd as [|? ? Hn0 Hnd']; subst.
    destruct k as [|k].
    + cbn in E1. inversion E1; subst. destruct args as [|a0 r]; [discriminate|]. cbn in E2. inversion E2; subst.
      cbn [copy_in] in E.
      destruct (copy_in_other _ _ _ _ _ d E Hn0) as [_ B]. rewrite B. cbn. now rewrite String.eqb_refl.
    + destruct args as [|a0 r]; [discriminate|]. cbn in E1, E2.
      destruct b; cbn [copy_in] in E.
      * destruct a0; try discriminate. eapply IH; eauto.
      * destruct (evalZ (env_st caller) a0); [|discriminate]. eapply IH; eauto.
Qed.

(** * copy-out *)
Lemma copy_out_sv : forall params args s1 c x V,
  sv c x = V ->
  (forall k d, nth_error params k = Some (d, false) -> nth_error args k = Some (EVar x) -> sv s1 d = V) ->
  sv (copy_out s1 params args c) x = V.
Proof.
  induction params as [|[d b] ps IH]; intros args s1 c x V Hc H.
  - destruct args; exact Hc.
  - destruct args as [|a r]; [destruct b; exact Hc|].
    assert (forall k d', nth_error ps k = Some (d', false) -> nth_error r k = Some (EVar x) -> sv s1 d' = V) as H'
      by (intros k d' A B; exact (H (S k) d' A B)).
    destruct b, a; cbn [copy_out]; try (apply IH; assumption).
    apply IH; [|exact H']. cbn. destruct (String.eqb x x0) eqn:E; [|exact Hc].
      apply String.eqb_eq in E. subst. exact (H 0%nat d eq_refl eq_refl).
Qed.

Lemma copy_out_av : forall params args s1 c a i V,
  av c a i = V ->
  (forall k d, nth_error params k = Some (d, true) -> nth_error args k = Some (EVar a) -> av s1 d i = V) ->
  av (copy_out s1 params args c) a i = V.
Proof.
  induction params as [|[d b] ps IH]; intros args s1 c a i V Hc H.
  - destruct args; exact Hc.
  - destruct args as [|a0 r]; [destruct b; exact Hc|].
    assert (forall k d', nth_error ps k = Some (d', true) -> nth_error r k = Some (EVar a) -> av s1 d' i = V) as H'
      by (intros k d' A B; exact (H (S k) d' A B)).
    destruct b, a0; cbn [copy_out]; try (apply IH; assumption).
    apply IH; [|exact H']. cbn. destruct (String.eqb a x) eqn:E; [|exact Hc].
    apply String.eqb_eq in E. subst. exact (H 0%nat d eq_refl eq_refl).
Qed.

(** * frame *)
Lemma do_loop_tr_frame run v d :
  (forall s s' t, run s = Some (s', t) -> forall l, ~ In l (fst t) -> val s' l = val s l) ->
  forall n i s s' t, do_loop_tr run v d n i s = Some (s', t) -> forall l, ~ In l (fst t) -> val s' l = val s l.
Proof.
  intros H. induction n as [|n IH]; intros i s s' t E l Hl; cbn [do_loop_tr] in E.
  - inversion E; subst. apply val_set_sv. intros ->. apply Hl. now apply wrT_w.
  - inv_obind E. destruct r as [s1 t1], r0 as [s2 t2]. cbn [fst snd] in *. inversion E; subst.
    rewrite (IH _ _ _ _ E1 l), (H _ _ _ E0 l).
    + apply val_set_sv. intros ->. apply Hl. apply seqT_w. left. apply seqT_w. left. now apply wrT_w.
    + intros A. apply Hl. apply seqT_w. left. apply seqT_w. now right.
    + intros A. apply Hl. apply seqT_w. now right.
Qed.

Section Frame.
  Variables (mw : musts) (ps : procs) (sg : sigs).
  Hypothesis Hok : sigs_ok mw ps sg = true.

  Lemma step_frame f :
    (forall ss s s' t, exec_tr ps f ss s = Some (s', t) -> forall l, ~ In l (fst t) -> val s' l = val s l) ->
    forall st s s' t, step_tr ps (exec_tr ps f) st s = Some (s', t) ->
    forall l, ~ In l (fst t) -> val s' l = val s l.
  Proof.
    intros IH st s s' t E l Hl.
    destruct st as [x e|a idx e|v lo hi stp body|c body|c tb eb|g args|lab]; unfold step_tr in E.
    - inv_obind E. inversion E; subst. apply val_set_sv. intros ->. apply Hl. apply seqT_w. right. now apply wrT_w.
    - inv_obind E. inversion E; subst. apply val_set_av. intros ->. apply Hl. apply seqT_w. right. now apply wrT_w.
    - inv_obind E. destruct (r1 =? 0); [discriminate|]. inv_obind E. destruct r2 as [s2 t2]. inversion E; subst.
      eapply do_loop_tr_frame; [|exact E3|].
      + intros s0 s1 t1 R l0 Hl0. eapply IH; eauto.
      + intros A. apply Hl. apply seqT_w. now right.
    - inv_obind E. destruct r; [|inversion E; subst; reflexivity].
      inv_obind E. destruct r as [s1 t1], r0 as [s2 t2]. cbn [fst snd] in *. inversion E; subst.
      rewrite (IH _ _ _ _ E2 l), (IH _ _ _ _ E1 l); [reflexivity| |].
      + intros A. apply Hl. apply seqT_w. right. apply seqT_w. now left.
      + intros A. apply Hl. apply seqT_w. right. apply seqT_w. now right.
    - inv_obind E. destruct r0 as [s1 t1]. cbn [fst snd] in *. inversion E; subst.
      eapply IH; [exact E1|]. intros A. apply Hl. apply seqT_w. now right.
    - inv_obind E. destruct r1 as [s1 tc]. cbn [fst snd] in *. inversion E; subst.
      pose proof (proc_ok_nodup _ _ _ _ _ (find_proc_ok _ _ _ _ _ Hok E0)) as Hnd.
      assert (forall l', In l (back (p_params r) args l') -> ~ In l' (fst tc)) as Hb.
      { intros l' A B. apply Hl. apply seqT_w. right. unfold back_tr. cbn [fst].
        apply in_flat_map. exists l'. auto. }
      destruct l as [x|a i]; cbn [val].
      + apply copy_out_sv; [reflexivity|]. intros k d Ep Ea.
        pose proof (IH _ _ _ _ E2 (LS d) (Hb _ (back_intro_s _ _ _ _ _ Ep Ea))) as A. cbn [val] in A.
        pose proof (copy_in_sv _ _ _ _ _ _ _ _ Hnd E1 Ep Ea) as B. cbn in B. congruence.
      + apply copy_out_av; [reflexivity|]. intros k d Ep Ea.
        pose proof (IH _ _ _ _ E2 (LA d i) (Hb _ (back_intro_a _ _ _ _ _ i Ep Ea))) as A. cbn [val] in A.
        rewrite A. eapply copy_in_av; eauto.
    - inversion E; subst. reflexivity.
  Qed.

  Theorem frame_locs : forall f ss s s' t,
    exec_tr ps f ss s = Some (s', t) -> forall l, ~ In l (fst t) -> val s' l = val s l.
  Proof.
    induction f as [|f IH]; intros ss s s' t E l Hl; [discriminate|].
    destruct ss as [|st rest].
    - cbn in E. inversion E; subst. reflexivity.
    - apply exec_tr_cons in E. destruct E as [g [s1 [t1 [t2 [Eg [E1 [E2 ->]]]]]]]. inversion Eg; subst g.
      rewrite (IH _ _ _ _ E2 l), (step_frame f IH _ _ _ _ E1 l); [reflexivity| |].
      + intros A. apply Hl. apply seqT_w. now left.
      + intros A. apply Hl. apply seqT_w. now right.
  Qed.

  (** the consumers' form: whatever is not in [defines] (and is not a DO variable) is unchanged *)
  Theorem frame_vars f ss s s' x :
    exec ps f ss s = Some s' -> dsafe sg ss = true ->
    ~ In x (defines_of sg ss) -> ~ In x (dovars ss) ->
    sv s' x = sv s x /\ (forall i, av s' x i = av s x i).
  Proof.
    intros E Hs Hd Hv. apply exec_exec_tr in E. destruct E as [t E].
    assert (forall l, lname l = x -> ~ In l (fst t)) as Hn.
    { intros l Hx A. destruct (defines_sound mw ps sg Hok _ _ _ _ _ E Hs _ A) as [B|B]; rewrite Hx in B; tauto. }
    split.
    - exact (frame_locs _ _ _ _ _ E (LS x) (Hn (LS x) eq_refl)).
    - intros i. exact (frame_locs _ _ _ _ _ E (LA x i) (Hn (LA x i) eq_refl)).
  Qed.
End Frame.
