(** C12 — proofs: the association-list model refines the function specification
    (forward simulation, generic in the table representation), and the corollaries. *)
From Coq Require Import ZArith String Ascii List Bool Arith Lia.
From LV Require Import Base.Strings models.M_C12.
Import ListNotations.
Open Scope string_scope.
Open Scope list_scope.

(* ------------------------------------------------------------------------- *)
(** * Association lists implement finite maps *)
Section AListFacts.
  Context {K V : Type}.
  Variable eqb : K -> K -> bool.
  Hypothesis eqb_ok : forall a b, eqb a b = true <-> a = b.

  Lemma eqb_refl' a : eqb a a = true.
  Proof. now apply eqb_ok. Qed.

  Lemma eqb_sym' a b : eqb a b = eqb b a.
  Proof.
    destruct (eqb a b) eqn:E1, (eqb b a) eqn:E2; try reflexivity.
    - apply eqb_ok in E1; subst. now rewrite eqb_refl' in E2.
    - apply eqb_ok in E2; subst. now rewrite eqb_refl' in E1.
  Qed.

  Lemma al_get_set k k' (v : V) l :
    al_get eqb k' (al_set eqb k v l) = if eqb k' k then Some v else al_get eqb k' l.
  Proof.
    induction l as [|[k0 v0] r IH]; cbn.
    - reflexivity.
    - destruct (eqb k k0) eqn:E; cbn.
      + apply eqb_ok in E; subst k0. now destruct (eqb k' k).
      + rewrite IH. destruct (eqb k' k0) eqn:E0; [|reflexivity].
        apply eqb_ok in E0; subst k0. rewrite eqb_sym' in E. now rewrite E.
  Qed.

  Lemma al_get_del k k' (l : list (K * V)) :
    al_get eqb k' (al_del eqb k l) = if eqb k' k then None else al_get eqb k' l.
  Proof.
    unfold al_del. induction l as [|[k0 v0] r IH]; cbn.
    - now destruct (eqb k' k).
    - destruct (eqb k k0) eqn:E; cbn.
      + rewrite IH. apply eqb_ok in E; subst k0. now destruct (eqb k' k).
      + rewrite IH. destruct (eqb k' k0) eqn:E0; [|reflexivity].
        apply eqb_ok in E0; subst k0. rewrite eqb_sym' in E. now rewrite E.
  Qed.
End AListFacts.

(** simulation between two table representations *)
Record tsim {K V T1 T2} (O1 : tops K V T1) (O2 : tops K V T2) (RT : T1 -> T2 -> Prop) : Prop := mkTsim {
  sim_get : forall k a b, RT a b -> tget O1 k a = tget O2 k b;
  sim_set : forall k v a b, RT a b -> RT (tset O1 k v a) (tset O2 k v b);
  sim_del : forall k a b, RT a b -> RT (tdel O1 k a) (tdel O2 k b);
  sim_new : RT (tnew O1) (tnew O2)
}.

(** abstraction: an association list denotes the function "first binding of the key" *)
Definition al_abs {K V} (eqb : K -> K -> bool) (l : list (K * V)) (f : K -> option V) : Prop :=
  forall k, al_get eqb k l = f k.

Lemma al_fn_sim {K V} (eqb : K -> K -> bool) :
  (forall a b, eqb a b = true <-> a = b) ->
  tsim (al_ops (V := V) eqb) (fn_ops eqb) (al_abs eqb).
Proof.
  intros Hok. constructor; cbn.
  - intros k a b H. apply H.
  - intros k v a b H k'. rewrite (al_get_set eqb Hok). now rewrite H.
  - intros k a b H k'. rewrite (al_get_del eqb Hok). now rewrite H.
  - intros k. reflexivity.
Qed.

Lemma string_eqb_ok a b : String.eqb a b = true <-> a = b.
Proof. apply String.eqb_eq. Qed.

Lemma dkey_eqb_ok a b : dkey_eqb a b = true <-> a = b.
Proof.
  destruct a, b; cbn; split; intros H; try discriminate; try congruence.
  - apply String.eqb_eq in H. now subst.
  - inversion H. apply String.eqb_refl.
  - apply Z.eqb_eq in H. now subst.
  - inversion H. apply Z.eqb_refl.
  - apply String.eqb_eq in H. now subst.
  - inversion H. apply String.eqb_refl.
Qed.

(* ------------------------------------------------------------------------- *)
(** * List helpers *)
Lemma nth_rel {A B} (R : A -> B -> Prop) l1 l2 i :
  Forall2 R l1 l2 ->
  match nth_error l1 i, nth_error l2 i with
  | Some x, Some y => R x y
  | None, None => True
  | _, _ => False
  end.
Proof.
  intros H. revert i. induction H; intros [|i]; cbn; auto. apply IHForall2.
Qed.

Lemma Forall2_upd_nth {A B} (R : A -> B -> Prop) l1 l2 i f g :
  Forall2 R l1 l2 -> (forall x y, R x y -> R (f x) (g y)) ->
  Forall2 R (upd_nth l1 i f) (upd_nth l2 i g).
Proof.
  intros H Hf. revert i. induction H; intros [|i]; cbn; constructor; auto.
Qed.

Lemma Forall2_len {A B} (R : A -> B -> Prop) l1 l2 : Forall2 R l1 l2 -> length l1 = length l2.
Proof. induction 1; cbn; congruence. Qed.

Lemma Forall2_snoc {A B} (R : A -> B -> Prop) l1 l2 x y :
  Forall2 R l1 l2 -> R x y -> Forall2 R (l1 ++ [x]) (l2 ++ [y]).
Proof. intros H Hxy. apply Forall2_app; auto. Qed.

Lemma nth_error_upd_nth_same {A} (l : list A) i f x :
  nth_error l i = Some x -> nth_error (upd_nth l i f) i = Some (f x).
Proof.
  revert i. induction l as [|a r IH]; intros [|i]; cbn; try discriminate.
  - now intros [= ->].
  - apply IH.
Qed.

Lemma upd_nth_length {A} (l : list A) i f : length (upd_nth l i f) = length l.
Proof. revert i. induction l as [|a r IH]; intros [|i]; cbn; auto. Qed.

(* ------------------------------------------------------------------------- *)
(** * Symbol tables: forward simulation, generic in the representation *)
Section SymSim.
  Context {T1 T2 : Type}.
  Variable O1 : tops string val T1.
  Variable O2 : tops string val T2.
  Variable RT : T1 -> T2 -> Prop.
  Hypothesis HS : tsim O1 O2 RT.
  Variables q1 q2 : bool.

  Definition tabR (tb : @gtab T1) (ub : @gtab T2) : Prop :=
    RT (t_ents tb) (t_ents ub) /\ t_parent tb = t_parent ub /\ t_scoped tb = t_scoped ub.
  Definition stR (s : @gstate T1) (a : @gstate T2) : Prop :=
    st_objs s = st_objs a /\ Forall2 tabR (st_tabs s) (st_tabs a).
  Definition pairR (x : @gstate T1 * out) (y : @gstate T2 * out) : Prop :=
    stR (fst x) (fst y) /\ snd x = snd y.

  (** the only place where the quirk flag is read *)
  Definition clone_agree (s : @gstate T1) (a : @gstate T2) (o : op) : Prop :=
    match o with
    | OClone t PKeep =>
        match nth_error (st_tabs s) t with
        | Some tb => match t_parent tb with
                     | Some q => q1 && parent_empty O1 s q = q2 && parent_empty O2 a q
                     | None => True
                     end
        | None => True
        end
    | _ => True
    end.

  Lemma pairR_same s a o : stR s a -> pairR (s, o) (a, o).
  Proof. intros H. split; auto. Qed.

  Lemma pairR_give s a v : stR s a -> pairR (give s v) (give a v).
  Proof.
    intros [Ho Ht]. unfold give, alloc; split; cbn.
    - split; cbn; [now rewrite Ho|exact Ht].
    - now rewrite Ho.
  Qed.

  Lemma stR_with_ents s a t f g :
    stR s a -> (forall x y, RT x y -> RT (f x) (g y)) -> stR (with_ents s t f) (with_ents a t g).
  Proof.
    intros [Ho Ht] Hf. split; cbn; [exact Ho|].
    apply Forall2_upd_nth; [exact Ht|].
    intros x y (H1 & H2 & H3). repeat split; cbn; auto.
  Qed.

  Lemma chain_find_sim fuel ts us t k :
    Forall2 tabR ts us -> chain_find O1 fuel ts t k = chain_find O2 fuel us t k.
  Proof.
    intros H. revert t. induction fuel as [|f IH]; intros t; cbn; [reflexivity|].
    pose proof (nth_rel tabR ts us t H) as Hn.
    destruct (nth_error ts t) as [tb|], (nth_error us t) as [ub|]; try contradiction; [|reflexivity].
    destruct Hn as (H1 & H2 & H3).
    rewrite (sim_get _ _ _ HS k _ _ H1), H2.
    destruct (tget O2 k (t_ents ub)); [reflexivity|].
    destruct (t_parent ub); [apply IH|reflexivity].
  Qed.

  Lemma find_in_sim s a t k rec : stR s a -> find_in O1 s t k rec = find_in O2 a t k rec.
  Proof.
    intros [Ho Ht]. unfold find_in. destruct rec.
    - rewrite (Forall2_len _ _ _ Ht). now apply chain_find_sim.
    - pose proof (nth_rel tabR _ _ t Ht) as Hn.
      destruct (nth_error (st_tabs s) t) as [tb|], (nth_error (st_tabs a) t) as [ub|]; try contradiction; [|reflexivity].
      destruct Hn as (H1 & _). now rewrite (sim_get _ _ _ HS k _ _ H1).
  Qed.

  Lemma is_scoped_sim s a t : stR s a -> is_scoped s t = is_scoped a t.
  Proof.
    intros [Ho Ht]. unfold is_scoped.
    pose proof (nth_rel tabR _ _ t Ht) as Hn.
    destruct (nth_error (st_tabs s) t) as [tb|], (nth_error (st_tabs a) t) as [ub|]; try contradiction; [|reflexivity].
    now destruct Hn as (_ & _ & H3).
  Qed.

  Lemma fold_set_sim (l : list (string * nat)) (objs : list val) x y :
    RT x y ->
    RT (fold_left (fun e p => tset O1 (fmt (fst p)) (nth (snd p) objs deferred) e) l x)
       (fold_left (fun e p => tset O2 (fmt (fst p)) (nth (snd p) objs deferred) e) l y).
  Proof.
    revert x y. induction l as [|p r IH]; intros x y H; cbn; [exact H|].
    apply IH. now apply (sim_set _ _ _ HS).
  Qed.

  Ltac tab_at s a t Ht :=
    let Hn := fresh "Hn" in
    pose proof (nth_rel tabR _ _ t Ht) as Hn;
    destruct (nth_error (st_tabs s) t) as [?tb|] eqn:?Es, (nth_error (st_tabs a) t) as [?ub|] eqn:?Ea;
    try contradiction; [destruct Hn as (?HR & ?HP & ?HSc)|clear Hn].

  Theorem step_sim s a o :
    stR s a -> clone_agree s a o -> pairR (step O1 q1 s o) (step O2 q2 a o).
  Proof.
    intros HR HC. pose proof HR as [Ho Ht].
    destruct o; cbn [step].
    - (* ONew *) now apply pairR_give.
    - (* OMutate *)
      rewrite Ho. destruct (r <? length (st_objs a))%nat; [|now apply pairR_same].
      split; [|reflexivity]. split; cbn; [reflexivity|exact Ht].
    - (* ONewScope *)
      assert (E : match p with None => true | Some q => is_scoped s q end
                  = match p with None => true | Some q => is_scoped a q end).
      { destruct p; [now apply is_scoped_sim|reflexivity]. }
      rewrite E. destruct (match p with None => true | Some q => is_scoped a q end); [|now apply pairR_same].
      split; cbn; [|now rewrite (Forall2_len _ _ _ Ht)].
      split; cbn; [exact Ho|]. apply Forall2_snoc; [exact Ht|].
      repeat split; cbn. apply (sim_new _ _ _ HS).
    - (* OSet *)
      rewrite Ho. tab_at s a t Ht; [|now apply pairR_same].
      destruct (nth_error (st_objs a) r); [|now apply pairR_same].
      split; [|reflexivity]. cbn [fst]. apply stR_with_ents; [exact HR|].
      intros x y Hxy. now apply (sim_set _ _ _ HS).
    - (* OSetDefault *)
      rewrite Ho. tab_at s a t Ht; [|now apply pairR_same].
      destruct (match r with None => Some deferred | Some r0 => nth_error (st_objs a) r0 end); [|now apply pairR_same].
      rewrite (sim_get _ _ _ HS _ _ _ HR0).
      destruct (tget O2 (fmt n) (t_ents ub)); [now apply pairR_same|].
      split; [|reflexivity]. cbn [fst]. apply stR_with_ents; [exact HR|].
      intros x y Hxy. now apply (sim_set _ _ _ HS).
    - (* OUpdate *)
      rewrite Ho. tab_at s a t Ht; [|now apply pairR_same].
      destruct (forallb _ l); [|now apply pairR_same].
      split; [|reflexivity]. cbn [fst]. apply stR_with_ents; [exact HR|].
      intros x y Hxy. now apply fold_set_sim.
    - (* OGetItem *)
      tab_at s a t Ht; [|now apply pairR_same].
      rewrite (sim_get _ _ _ HS _ _ _ HR0).
      destruct (tget O2 (fmt n) (t_ents ub)); [now apply pairR_give|now apply pairR_same].
    - (* OGet *)
      tab_at s a t Ht; [|now apply pairR_same].
      rewrite (sim_get _ _ _ HS _ _ _ HR0).
      destruct (tget O2 (fmt n) (t_ents ub)); [now apply pairR_give|now apply pairR_same].
    - (* OLookup *)
      tab_at s a t Ht; [|now apply pairR_same].
      rewrite (find_in_sim s a t (fmt n) rec HR).
      destruct (find_in O2 a t (fmt n) rec); [now apply pairR_give|now apply pairR_same|now apply pairR_same].
    - (* OContains *)
      tab_at s a t Ht; [|now apply pairR_same].
      rewrite (sim_get _ _ _ HS _ _ _ HR0). now apply pairR_same.
    - (* ODel *)
      tab_at s a t Ht; [|now apply pairR_same].
      rewrite (sim_get _ _ _ HS _ _ _ HR0).
      destruct (tget O2 (fmt n) (t_ents ub)); [|now apply pairR_same].
      split; [|reflexivity]. cbn [fst]. apply stR_with_ents; [exact HR|].
      intros x y Hxy. now apply (sim_del _ _ _ HS).
    - (* OPop *)
      tab_at s a t Ht; [|now apply pairR_same].
      rewrite (sim_get _ _ _ HS _ _ _ HR0).
      destruct (tget O2 (fmt n) (t_ents ub)); [|now apply pairR_same].
      apply pairR_give. apply stR_with_ents; [exact HR|].
      intros x y Hxy. now apply (sim_del _ _ _ HS).
    - (* OClone *)
      cbn [clone_agree] in HC.
      tab_at s a t Ht; [|now apply pairR_same].
      assert (Hmk : forall p, pairR
                (mkSt (st_objs s) (st_tabs s ++ [mkTab (t_ents tb) p false]), OutTab (length (st_tabs s)))
                (mkSt (st_objs a) (st_tabs a ++ [mkTab (t_ents ub) p false]), OutTab (length (st_tabs a)))).
      { intros p0. split; cbn; [|now rewrite (Forall2_len _ _ _ Ht)].
        split; cbn; [exact Ho|]. apply Forall2_snoc; [exact Ht|]. repeat split; cbn; auto. }
      destruct p as [|[p|]].
      + rewrite <- HP. destruct (t_parent tb) as [q|]; [|apply Hmk].
        rewrite HC. apply Hmk.
      + pose proof (Forall2_len _ _ _ Ht) as HL. rewrite HL in Hmk |- *.
        destruct (p <? length (st_tabs a))%nat; [apply Hmk|now apply pairR_same].
      + apply Hmk.
    - (* OReparent *)
      rewrite (is_scoped_sim s a t HR), (is_scoped_sim s a p HR).
      destruct (is_scoped a t && is_scoped a p); [|now apply pairR_same].
      split; [|reflexivity]. split; cbn; [exact Ho|].
      apply Forall2_upd_nth; [exact Ht|]. intros x y (H1 & H2 & H3). repeat split; cbn; auto.
    - (* ODeclare *)
      tab_at s a t Ht; [|now apply pairR_same].
      rewrite HSc. destruct (t_scoped ub); [|now apply pairR_same].
      rewrite (sim_get _ _ _ HS _ _ _ HR0).
      destruct (fail && _); [now apply pairR_same|].
      split; [|reflexivity]. cbn [fst]. apply stR_with_ents; [exact HR|].
      intros x y Hxy. now apply (sim_set _ _ _ HS).
    - (* OSUpdate *)
      tab_at s a t Ht; [|now apply pairR_same].
      rewrite HSc. destruct (t_scoped ub); [|now apply pairR_same].
      rewrite (sim_get _ _ _ HS _ _ _ HR0).
      destruct (tget O2 (fmt n) (t_ents ub)).
      + split; [|reflexivity]. cbn [fst]. apply stR_with_ents; [exact HR|].
        intros x y Hxy. now apply (sim_set _ _ _ HS).
      + destruct fail; [now apply pairR_same|].
        destruct dt; [|now apply pairR_same].
        split; [|reflexivity]. cbn [fst]. apply stR_with_ents; [exact HR|].
        intros x y Hxy. now apply (sim_set _ _ _ HS).
    - (* OGetType *)
      rewrite (is_scoped_sim s a t HR). destruct (is_scoped a t); [|now apply pairR_same].
      rewrite (find_in_sim s a t (fmt n) rec HR).
      destruct (find_in O2 a t (fmt n) rec); [now apply pairR_give|now apply pairR_same|now apply pairR_same].
    - (* OSymScope *)
      rewrite (is_scoped_sim s a t HR). destruct (is_scoped a t); [|now apply pairR_same].
      rewrite (find_in_sim s a t (fmt n) true HR).
      destruct (find_in O2 a t (fmt n) true); now apply pairR_same.
  Qed.
End SymSim.

(* ------------------------------------------------------------------------- *)
(** * The model refines the specification *)
Definition absR : mstate -> sstate -> Prop := stR (al_abs String.eqb).

Lemma absR_init : absR minit sinit.
Proof. split; cbn; [reflexivity|constructor]. Qed.

Lemma abs_tabs_rel (l : list (@gtab atab)) : Forall2 (tabR (al_abs String.eqb)) l (map abs_tab l).
Proof.
  induction l as [|tb r IH]; cbn; constructor; [|exact IH].
  split; [intros k; reflexivity|split; reflexivity].
Qed.

Lemma absR_abs_state s : absR s (abs_state s).
Proof. split; [reflexivity|]. apply abs_tabs_rel. Qed.

Lemma mstep_refines s a o :
  absR s a ->
  absR (fst (mstep s o)) (fst (sstep a o)) /\ snd (mstep s o) = snd (sstep a o).
Proof.
  intros HR.
  apply (step_sim m_ops s_ops (al_abs String.eqb) (al_fn_sim String.eqb string_eqb_ok) false false s a o HR).
  destruct o; cbn; auto. destruct p; auto.
  destruct (nth_error (st_tabs s) t) as [tb|]; auto.
  destruct (t_parent tb) as [q|]; auto.
Qed.

Lemma history_refines ops : forall s a,
  absR s a ->
  mouts s ops = souts a ops /\ absR (mexec s ops) (sexec a ops).
Proof.
  induction ops as [|o r IH]; intros s a HR.
  - split; [reflexivity|exact HR].
  - destruct (mstep_refines s a o HR) as [HR' Hout].
    destruct (IH _ _ HR') as [Houts Hfin].
    split.
    + unfold mouts, souts, mstep, sstep in *. cbn [outs].
      f_equal; [exact Hout|exact Houts].
    + unfold mexec, sexec, exec, mstep, sstep in *. cbn [fold_left]. exact Hfin.
Qed.

Lemma history_refines_from_init ops :
  mouts minit ops = souts sinit ops /\ absR (mexec minit ops) (sexec sinit ops).
Proof. apply history_refines, absR_init. Qed.

Lemma history_refines_abs ops s :
  mouts s ops = souts (abs_state s) ops /\ absR (mexec s ops) (sexec (abs_state s) ops).
Proof. apply history_refines, absR_abs_state. Qed.

(** F7c, repaired by 0d55598: with the old clone() (parent dropped below an EMPTY parent table) the refinement failed;
    on the same history the present model agrees with the specification *)
Definition clone_witness : list op :=
  [ONewScope None; ONewScope (Some 0%nat); OClone 1%nat PKeep; ONew (2%Z, Some 7%Z);
   OSet 0%nat "N" 0%nat; OLookup 2%nat "n" true].

Lemma clone_old_refuted :
  exists ops, mouts_old minit ops <> souts sinit ops /\ mouts minit ops = souts sinit ops.
Proof. exists clone_witness. split; [vm_compute; discriminate|vm_compute; reflexivity]. Qed.

(** a non-trivial history: scopes, clone below an empty and below a non-empty parent, caller mutation, re-spelled look-ups *)
Example history_example :
  let ops := [ONewScope None; ONewScope (Some 0%nat); OClone 1%nat PKeep; ONew (2%Z, Some 1%Z); OSet 0%nat "N" 0%nat;
              OClone 1%nat PKeep; OMutate 0%nat (3%Z, None); OLookup 2%nat "n(1)" true; OLookup 3%nat "N" true] in
  mouts minit ops = [OutTab 0; OutTab 1; OutTab 2; OutObj 0 (2%Z, Some 1%Z); OutNone; OutTab 3; OutNone;
                     OutObj 1 (2%Z, Some 1%Z); OutObj 2 (2%Z, Some 1%Z)]
  /\ mouts minit ops = souts sinit ops.
Proof. vm_compute. split; reflexivity. Qed.

(* ------------------------------------------------------------------------- *)
(** * Look-ups find the innermost declaration *)
Section SymFacts.
  Context {T : Type}.
  Variable P : tops string val T.
  Variable q : bool.

  Lemma chain_find_innermost fuel ts t k :
    match chain_find P fuel ts t k with
    | LFound i v => exists pre post, chain fuel ts t = pre ++ i :: post
                                     /\ (forall j, In j pre -> tab_has P ts j k = None)
                                     /\ tab_has P ts i k = Some v
    | LMissing => forall j, In j (chain fuel ts t) -> tab_has P ts j k = None
    | LDiverge => True
    end.
  Proof.
    revert t. induction fuel as [|f IH]; intros t; cbn [chain_find chain]; [exact I|].
    destruct (nth_error ts t) as [tb|] eqn:Et; [|intros j []].
    destruct (tget P k (t_ents tb)) as [v|] eqn:Eg.
    - exists [], (match t_parent tb with Some p => @chain T f ts p | None => [] end).
      split; [reflexivity|]. split; [intros j []|]. unfold tab_has. now rewrite Et.
    - assert (Ht : tab_has P ts t k = None) by (unfold tab_has; now rewrite Et).
      destruct (t_parent tb) as [p|].
      + specialize (IH p). destruct (chain_find P f ts p k) as [i v| |].
        * destruct IH as (pre & post & E & Hpre & Hi).
          exists (t :: pre), post. split; [cbn; now rewrite E|]. split; [|exact Hi].
          intros j [<-|Hj]; auto.
        * intros j [<-|Hj]; auto.
        * exact I.
      + intros j [<-|[]]. exact Ht.
  Qed.

  (** the chain starts at the table asked and follows the parent links *)
  Lemma chain_head fuel (ts : list (@gtab T)) t tb :
    nth_error ts t = Some tb ->
    chain (S fuel) ts t = t :: match t_parent tb with Some p => chain fuel ts p | None => [] end.
  Proof. intros E. cbn. now rewrite E. Qed.

  Lemma lookup_innermost s t n r v :
    snd (step P q s (OLookup t n true)) = OutObj r v ->
    exists pre i post,
      chain (S (length (st_tabs s))) (st_tabs s) t = pre ++ i :: post
      /\ (forall j, In j pre -> tab_has P (st_tabs s) j (fmt n) = None)
      /\ tab_has P (st_tabs s) i (fmt n) = Some v.
  Proof.
    cbn [step]. destruct (nth_error (st_tabs s) t); [|discriminate].
    unfold find_in.
    pose proof (chain_find_innermost (S (length (st_tabs s))) (st_tabs s) t (fmt n)) as H.
    destruct (chain_find P (S (length (st_tabs s))) (st_tabs s) t (fmt n)) as [i w| |]; cbn; try discriminate.
    intros [= _ ->]. destruct H as (pre & post & H). now exists pre, i, post.
  Qed.

  Lemma lookup_none_everywhere s t n :
    nth_error (st_tabs s) t <> None ->
    snd (step P q s (OLookup t n true)) = OutNone ->
    forall j, In j (chain (S (length (st_tabs s))) (st_tabs s) t) -> tab_has P (st_tabs s) j (fmt n) = None.
  Proof.
    cbn [step]. destruct (nth_error (st_tabs s) t); [intros _|congruence].
    unfold find_in.
    pose proof (chain_find_innermost (S (length (st_tabs s))) (st_tabs s) t (fmt n)) as H.
    destruct (chain_find P (S (length (st_tabs s))) (st_tabs s) t (fmt n)) as [i w| |]; cbn; try discriminate.
    intros _. exact H.
  Qed.

  (* ----------------------------------------------------------------------- *)
  (** * Spelling invariance *)
  Lemma update_same (l l' : list (string * nat)) :
    Forall2 (fun p q => same_key (fst p) (fst q) /\ snd p = snd q) l l' ->
    forall objs,
      forallb (fun p => (snd p <? length objs)%nat) l = forallb (fun p => (snd p <? length objs)%nat) l'
      /\ forall e : T,
          fold_left (fun e p => tset P (fmt (fst p)) (nth (snd p) objs deferred) e) l e
          = fold_left (fun e p => tset P (fmt (fst p)) (nth (snd p) objs deferred) e) l' e.
  Proof.
    induction 1 as [|p p' l l' [Hk Hr] _ IH]; intros objs; [split; reflexivity|].
    destruct (IH objs) as [IH1 IH2]. split.
    - cbn [forallb]. now rewrite Hr, IH1.
    - intros e. cbn [fold_left]. unfold same_key in Hk. rewrite Hk, Hr. apply IH2.
  Qed.

  Lemma with_ents_ext (s : @gstate T) t f g : (forall e, f e = g e) -> with_ents s t f = with_ents s t g.
  Proof.
    intros H. unfold with_ents. f_equal.
    generalize (st_tabs s) t. induction l as [|x r IH]; intros [|i]; cbn; auto.
    - now rewrite H.
    - now rewrite IH.
  Qed.

  Lemma step_same s o o' : op_same o o' -> step P q s o = step P q s o'.
  Proof.
    destruct 1; try reflexivity; cbn [step];
      try (match goal with H : same_key _ _ |- _ => unfold same_key in H; rewrite H end; reflexivity).
    destruct (update_same l l' H (st_objs s)) as [H1 H2].
    rewrite H1. destruct (nth_error (st_tabs s) t); [|reflexivity].
    destruct (forallb _ l'); [|reflexivity].
    f_equal. apply with_ents_ext. exact H2.
  Qed.

  Lemma history_same ops ops' :
    Forall2 op_same ops ops' ->
    forall s, outs P q s ops = outs P q s ops' /\ exec P q s ops = exec P q s ops'.
  Proof.
    induction 1 as [|o o' r r' Ho _ IH]; intros s; [split; reflexivity|].
    unfold exec in *. cbn [outs fold_left]. rewrite (step_same s o o' Ho).
    destruct (IH (fst (step P q s o'))) as [H1 H2]. now rewrite H1, H2.
  Qed.
End SymFacts.

Lemma same_fold_same_key a b : same_fold a b -> same_key a b.
Proof. unfold same_fold, same_key, fmt. now intros ->. Qed.

Lemma cut_paren_app_paren a d : cut_paren (a ++ String "("%char d) = cut_paren a.
Proof.
  induction a as [|c r IH]; cbn; [reflexivity|].
  destruct (Ascii.eqb c "("%char); [reflexivity|now rewrite IH].
Qed.

(** [name(dims)] is looked up as [name] *)
Lemma fmt_dims a d : same_key (a ++ "(" ++ d) a.
Proof.
  unfold same_key, fmt. cbn [append]. rewrite lower_app. cbn [lower].
  change (lower_ascii "("%char) with "("%char. apply cut_paren_app_paren.
Qed.

Lemma fmt_upper a : same_key (upper a) a.
Proof. apply same_fold_same_key, same_fold_upper. Qed.

(* ------------------------------------------------------------------------- *)
(** * Deletion agrees with membership; returned objects are fresh *)
Lemma m_get_del k (e : atab) : tget m_ops k (tdel m_ops k e) = None.
Proof. cbn. rewrite (al_get_del String.eqb string_eqb_ok). now rewrite String.eqb_refl. Qed.

Lemma m_get_set k v (e : atab) : tget m_ops k (tset m_ops k v e) = Some v.
Proof. cbn. rewrite (al_get_set String.eqb string_eqb_ok). now rewrite String.eqb_refl. Qed.

Lemma deletion_agrees_with_membership s t n n' :
  same_key n n' ->
  let present := snd (mstep s (OContains t n)) in
  (present = OutBool true <-> snd (mstep s (ODel t n')) = OutNone)
  /\ (present = OutBool false <-> snd (mstep s (ODel t n')) = OutErr EKey)
  /\ (present = OutBool true <-> exists r v, snd (mstep s (OPop t n' false)) = OutObj r v)
  /\ (present = OutBool false <-> snd (mstep s (OPop t n' false)) = OutErr EKey)
  /\ (present = OutBool true -> snd (mstep (fst (mstep s (ODel t n'))) (OContains t n)) = OutBool false)
  /\ (present = OutBool true -> snd (mstep (fst (mstep s (OPop t n' false))) (OContains t n)) = OutBool false).
Proof.
  intros H. unfold same_key in H. unfold mstep. cbn [step]. rewrite <- H.
  destruct (nth_error (st_tabs s) t) as [tb|] eqn:Et.
  - destruct (tget m_ops (fmt n) (t_ents tb)) as [v|] eqn:Eg; cbn [fst snd].
    + repeat split; try discriminate; try reflexivity; intros _.
      * now exists (length (st_objs s)), v.
      * cbn [step]. unfold with_ents; cbn [st_tabs].
        rewrite (nth_error_upd_nth_same _ _ _ _ Et). cbn [t_ents]. now rewrite m_get_del.
      * cbn [step]. unfold give, alloc, with_ents; cbn [st_tabs fst].
        rewrite (nth_error_upd_nth_same _ _ _ _ Et). cbn [t_ents]. now rewrite m_get_del.
    + repeat split; try discriminate; try reflexivity. intros (r & v & E). discriminate.
  - cbn [fst snd]. repeat split; try discriminate. intros (r & v & E). discriminate.
Qed.

Lemma give_fresh {T} (s : @gstate T) v r w :
  snd (give s v) = OutObj r w -> r = length (st_objs s) /\ st_objs (fst (give s v)) = st_objs s ++ [w].
Proof. cbn. intros [= <- <-]. split; reflexivity. Qed.

Lemma returned_fresh s o r v :
  snd (mstep s o) = OutObj r v ->
  r = length (st_objs s) /\ st_objs (fst (mstep s o)) = st_objs s ++ [v].
Proof.
  unfold mstep.
  destruct o; cbn [step];
    repeat match goal with
           | |- context [match ?x with _ => _ end] => destruct x
           end;
    try (cbn; discriminate); try apply give_fresh.
  (* pop: the object is removed from the table first *)
  all: cbn; intros [= <- <-]; split; reflexivity.
Qed.

(** nothing the caller does to the objects it holds reaches a table *)
Lemma caller_ops_leave_tables s :
  (forall r v, st_tabs (fst (mstep s (OMutate r v))) = st_tabs s)
  /\ (forall v, st_tabs (fst (mstep s (ONew v))) = st_tabs s).
Proof.
  split; intros; unfold mstep; cbn [step].
  - destruct (r <? length (st_objs s))%nat; reflexivity.
  - reflexivity.
Qed.

Lemma nth_error_lt {A} (l : list A) i x : nth_error l i = Some x -> (i <? length l)%nat = true.
Proof. intros H. apply Nat.ltb_lt. apply nth_error_Some. congruence. Qed.

Lemma mouts_cons s o r : mouts s (o :: r) = snd (mstep s o) :: mouts (fst (mstep s o)) r.
Proof. reflexivity. Qed.

Lemma step_set_ok (s : mstate) t n r tb v :
  nth_error (st_tabs s) t = Some tb -> nth_error (st_objs s) r = Some v ->
  mstep s (OSet t n r) = (with_ents s t (tset m_ops (fmt n) v), OutNone).
Proof. intros Et Er. unfold mstep; cbn [step]. now rewrite Et, Er. Qed.

Lemma step_mutate_ok (s : mstate) r w :
  (r < length (st_objs s))%nat ->
  mstep s (OMutate r w) = (mkSt (upd_nth (st_objs s) r (fun _ => w)) (st_tabs s), OutNone).
Proof. intros H. unfold mstep; cbn [step]. apply Nat.ltb_lt in H. now rewrite H. Qed.

Lemma step_getitem_ok (s : mstate) t n tb v :
  nth_error (st_tabs s) t = Some tb -> tget m_ops (fmt n) (t_ents tb) = Some v ->
  mstep s (OGetItem t n) = give s v.
Proof. intros Et Eg. unfold mstep; cbn [step]. now rewrite Et, Eg. Qed.

(** the table keeps its own copy of an inserted object ... *)
Lemma set_stores_copy s t n n' r tb v w :
  nth_error (st_tabs s) t = Some tb -> nth_error (st_objs s) r = Some v -> same_key n n' ->
  mouts s [OSet t n r; OMutate r w; OGetItem t n'] = [OutNone; OutNone; OutObj (length (st_objs s)) v].
Proof.
  intros Et Er H. unfold same_key in H.
  assert (Hlt : (r < length (st_objs s))%nat) by (apply nth_error_Some; congruence).
  rewrite mouts_cons, (step_set_ok s t n r tb v Et Er). cbn [fst snd].
  rewrite mouts_cons, step_mutate_ok by exact Hlt. cbn [fst snd].
  rewrite mouts_cons.
  erewrite step_getitem_ok.
  - cbn [fst snd give alloc st_objs]. now rewrite upd_nth_length.
  - cbn [st_tabs with_ents]. apply nth_error_upd_nth_same. exact Et.
  - cbn [t_ents]. rewrite <- H. apply m_get_set.
Qed.

(** ... and hands out copies: changing a returned object does not change what the next look-up returns *)
Lemma get_returns_copy (s : mstate) t n n' tb v w :
  nth_error (st_tabs s) t = Some tb -> tget m_ops (fmt n) (t_ents tb) = Some v -> same_key n n' ->
  mouts s [OGetItem t n; OMutate (length (st_objs s)) w; OGetItem t n']
  = [OutObj (length (st_objs s)) v; OutNone; OutObj (S (length (st_objs s))) v].
Proof.
  intros Et Eg H. unfold same_key in H.
  rewrite mouts_cons, (step_getitem_ok s t n tb v Et Eg). unfold give, alloc. cbn [fst snd].
  rewrite mouts_cons, step_mutate_ok by (cbn [st_objs]; rewrite app_length; cbn; lia). cbn [fst snd st_objs st_tabs].
  rewrite mouts_cons.
  erewrite step_getitem_ok.
  - cbn [fst snd give alloc st_objs]. rewrite upd_nth_length, app_length. cbn [length mouts outs].
    repeat f_equal. lia.
  - cbn [st_tabs]. exact Et.
  - rewrite <- H. exact Eg.
Qed.

(** after a declaration in table t, a look-up from t finds it under any spelling, whatever the outer scopes hold *)
Lemma lookup_after_set s t n n' r rec tb v :
  nth_error (st_tabs s) t = Some tb -> nth_error (st_objs s) r = Some v -> same_key n n' ->
  mouts s [OSet t n r; OLookup t n' rec] = [OutNone; OutObj (length (st_objs s)) v].
Proof.
  intros Et Er H. unfold same_key in H.
  rewrite mouts_cons, (step_set_ok s t n r tb v Et Er). cbn [fst snd].
  rewrite mouts_cons. unfold mstep. cbn [step mouts outs].
  assert (E : nth_error (st_tabs (with_ents s t (tset m_ops (fmt n) v))) t
              = Some (mkTab (tset m_ops (fmt n) v (t_ents tb)) (t_parent tb) (t_scoped tb))).
  { cbn [st_tabs with_ents].
    exact (nth_error_upd_nth_same (st_tabs s) t
             (fun tb => mkTab (tset m_ops (fmt n) v (t_ents tb)) (t_parent tb) (t_scoped tb)) tb Et). }
  rewrite E. unfold find_in. destruct rec.
  - cbn [chain_find]. rewrite E. cbn [t_ents]. rewrite <- H, m_get_set. reflexivity.
  - rewrite E. cbn [t_ents]. rewrite <- H, m_get_set. reflexivity.
Qed.

(** F7, repaired: with the inherited (unfolded) __delitem__ membership and deletion disagreed *)
Lemma del_unfolded_refuted :
  exists (tb : atab) n, al_get String.eqb (fmt n) tb <> None /\ del_unfolded tb n = None.
Proof. exists [("abc", (2%Z, None))], "ABC". split; [vm_compute; discriminate|vm_compute; reflexivity]. Qed.

(* ------------------------------------------------------------------------- *)
(** * The case-insensitive dictionaries *)
Section DictSim.
  Context {T1 T2 : Type}.
  Variable O1 : tops dkey Z T1.
  Variable O2 : tops dkey Z T2.
  Variable RT : T1 -> T2 -> Prop.
  Hypothesis HS : tsim O1 O2 RT.
  Variables fl1 fl2 : flavour.
  Hypothesis Hfac : fl_factory fl1 = fl_factory fl2.

  Definition bulk_agree (o : dop) : Prop :=
    match o with
    | DSetDefault k _ => bulk_key fl1 k = bulk_key fl2 k
    | DUpdate l => Forall (fun p => bulk_key fl1 (fst p) = bulk_key fl2 (fst p)) l
    | _ => True
    end.

  Lemma dstep_sim t u o :
    RT t u -> bulk_agree o ->
    RT (fst (dstep O1 fl1 t o)) (fst (dstep O2 fl2 u o)) /\ snd (dstep O1 fl1 t o) = snd (dstep O2 fl2 u o).
  Proof.
    intros HR HB. destruct o; cbn [dstep].
    - split; [|reflexivity]. now apply (sim_set _ _ _ HS).
    - rewrite (sim_get _ _ _ HS _ _ _ HR), Hfac.
      destruct (tget O2 (dfold k) u); [now split|].
      destruct (fl_factory fl2); [|now split].
      split; [|reflexivity]. now apply (sim_set _ _ _ HS).
    - rewrite (sim_get _ _ _ HS _ _ _ HR). now split.
    - rewrite (sim_get _ _ _ HS _ _ _ HR). now split.
    - rewrite (sim_get _ _ _ HS _ _ _ HR).
      destruct (tget O2 (dfold k) u); [|now split].
      split; [|reflexivity]. now apply (sim_del _ _ _ HS).
    - rewrite (sim_get _ _ _ HS _ _ _ HR).
      destruct (tget O2 (dfold k) u); [|now split].
      split; [|reflexivity]. now apply (sim_del _ _ _ HS).
    - cbn in HB. rewrite HB, (sim_get _ _ _ HS _ _ _ HR).
      destruct (tget O2 (bulk_key fl2 k) u); [now split|].
      split; [|reflexivity]. now apply (sim_set _ _ _ HS).
    - split; [|reflexivity]. cbn [fst]. cbn in HB.
      revert t u HR. induction HB as [|p r Hp _ IH]; intros t u HR; cbn; [exact HR|].
      apply IH. rewrite Hp. now apply (sim_set _ _ _ HS).
  Qed.
End DictSim.

Lemma key_folded_fold k : key_folded k = true -> dfold k = k.
Proof. unfold key_folded. intros H. now apply dkey_eqb_ok in H. Qed.

Lemma dop_ok_agree fl o : dop_ok fl o = true -> bulk_agree fl (spec_fl fl) o.
Proof.
  unfold dop_ok. destruct (fl_bulk_folds fl) eqn:E; cbn [orb]; intros H.
  - destruct o; cbn; auto.
    + unfold bulk_key. now rewrite E.
    + induction l; constructor; auto. unfold bulk_key. now rewrite E.
  - destruct o; cbn; auto.
    + unfold bulk_key. rewrite E. cbn. symmetry. now apply key_folded_fold.
    + induction l as [|p r IH]; constructor.
      * cbn in H. apply andb_prop in H as [H1 _]. unfold bulk_key. rewrite E. cbn. symmetry. now apply key_folded_fold.
      * apply IH. cbn in H. now apply andb_prop in H as [_ H2].
Qed.

Definition dabsR : dtab -> (dkey -> option Z) -> Prop := al_abs dkey_eqb.

Lemma dict_history_refines fl ops : forall t f,
  dabsR t f -> forallb (dop_ok fl) ops = true ->
  douts dm_ops fl t ops = douts ds_ops (spec_fl fl) f ops
  /\ dabsR (dexec dm_ops fl t ops) (dexec ds_ops (spec_fl fl) f ops).
Proof.
  induction ops as [|o r IH]; intros t f HR Hok; [split; [reflexivity|exact HR]|].
  cbn in Hok. apply andb_prop in Hok as [Ho Hr].
  destruct (dstep_sim dm_ops ds_ops (al_abs dkey_eqb) (al_fn_sim dkey_eqb dkey_eqb_ok) fl (spec_fl fl) eq_refl t f o HR
              (dop_ok_agree fl o Ho)) as [HR' Hout].
  destruct (IH _ _ HR' Hr) as [H1 H2].
  split.
  - cbn [douts]. rewrite Hout. f_equal. exact H1.
  - unfold dexec in *. cbn [fold_left]. exact H2.
Qed.

Lemma dop_ok_ordered ops : forallb (dop_ok fl_ordered) ops = true.
Proof. induction ops; cbn; auto. Qed.

Lemma dict_ordered_refines ops :
  douts dm_ops fl_ordered [] ops = douts ds_ops fl_ordered (fun _ => None) ops
  /\ dabsR (dexec dm_ops fl_ordered [] ops) (dexec ds_ops fl_ordered (fun _ => None) ops).
Proof.
  apply (dict_history_refines fl_ordered ops [] (fun _ => None)); [intros k; reflexivity|apply dop_ok_ordered].
Qed.

Lemma defaultdict_update_refuted :
  exists ops, douts dm_ops (fl_default None) [] ops <> douts ds_ops (spec_fl (fl_default None)) (fun _ => None) ops.
Proof. exists [DUpdate [(KStr "ABC", 1%Z)]; DContains (KStr "abc")]. vm_compute. discriminate. Qed.

Lemma dkey_same_fold a b : dkey_same a b -> dfold a = dfold b.
Proof. destruct 1; [reflexivity|]. cbn. unfold same_fold in H. now rewrite H. Qed.

Lemma dstep_same {T} (P : tops dkey Z T) fl t o o' : dop_same o o' -> dstep P fl t o = dstep P fl t o'.
Proof. destruct 1; try reflexivity; cbn [dstep]; now rewrite (dkey_same_fold _ _ H). Qed.

Lemma dict_deletion_agrees_with_membership fl (t : dtab) k k' :
  dkey_same k k' ->
  let present := snd (dstep dm_ops fl t (DContains k)) in
  (present = RBool true <-> snd (dstep dm_ops fl t (DDel k')) = RNone)
  /\ (present = RBool false <-> snd (dstep dm_ops fl t (DDel k')) = RKeyError)
  /\ (present = RBool true <-> exists v, snd (dstep dm_ops fl t (DPop k' false)) = RVal v)
  /\ (present = RBool true -> snd (dstep dm_ops fl (fst (dstep dm_ops fl t (DDel k'))) (DContains k)) = RBool false)
  /\ (present = RBool true -> snd (dstep dm_ops fl (fst (dstep dm_ops fl t (DPop k' false))) (DContains k)) = RBool false).
Proof.
  intros H. apply dkey_same_fold in H. cbn [dstep]. rewrite <- H.
  assert (Hd : forall e : dtab, tget dm_ops (dfold k) (tdel dm_ops (dfold k) e) = None).
  { intros e. cbn. rewrite (al_get_del dkey_eqb dkey_eqb_ok).
    now rewrite (proj2 (dkey_eqb_ok _ _) eq_refl). }
  destruct (tget dm_ops (dfold k) t) as [v|] eqn:Eg; cbn [fst snd].
  - repeat split; try discriminate; try reflexivity; intros _.
    + now exists v.
    + now rewrite Hd.
    + now rewrite Hd.
  - repeat split; try discriminate. intros (v & E). discriminate.
Qed.
