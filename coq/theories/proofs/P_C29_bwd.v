(** C29 — proofs, part 3: fuel monotonicity of the source interpreter and the converse simulation
    (a run of the resolved program => a run of the source), for selectors whose evaluation cannot fail. *)
From Coq Require Import ZArith List Bool String Lia.
From LV Require Import Base.Expr Base.MiniF Base.MiniFFacts models.M_C29 proofs.P_C29 proofs.P_C29_fwd.
Import ListNotations.
Open Scope Z_scope.

(** * Fuel monotonicity *)

Lemma aexec1_with_mono (run1 run2 : aenv -> list astmt -> store -> option store) :
  (forall rho ss s s', run1 rho ss s = Some s' -> run2 rho ss s = Some s') ->
  forall rho st s s', aexec1_with run1 rho st s = Some s' -> aexec1_with run2 rho st s = Some s'.
Proof.
  intros H rho st s s' E.
  destruct st as [x e|a idx e|v lo hi stp body|c tb eb|l|assocs body]; cbn [aexec1_with] in *; try exact E.
  - apply obind_some in E. destruct E as [v' [E0 E]]. rewrite E0. cbn [obind].
    apply obind_some in E. destruct E as [a [Ea E]]. rewrite Ea. cbn [obind].
    apply obind_some in E. destruct E as [b [Eb E]]. rewrite Eb. cbn [obind].
    apply obind_some in E. destruct E as [d [Ed E]]. rewrite Ed. cbn [obind].
    destruct (d =? 0); [discriminate|].
    eapply do_loop_mono; [|exact E]. intros; now apply H.
  - apply obind_some in E. destruct E as [b [Eb E]]. rewrite Eb. cbn [obind]. now apply H.
  - apply obind_some in E. destruct E as [beta [Eb E]]. rewrite Eb. cbn [obind]. now apply H.
Qed.

Lemma aexec_fuel_S f : forall rho ss s s', aexec f rho ss s = Some s' -> aexec (S f) rho ss s = Some s'.
Proof.
  induction f as [|f IH]; intros rho ss s s' E; [discriminate|].
  destruct ss as [|st rest]; [exact E|].
  cbn [aexec] in E. apply obind_some in E. destruct E as [s1 [E1 E2]].
  change (aexec (S (S f)) rho (st :: rest) s) with
    (obind (aexec1_with (aexec (S f)) rho st s) (fun s' => aexec (S f) rho rest s')).
  rewrite (aexec1_with_mono (aexec f) (aexec (S f)) IH _ _ _ _ E1). cbn [obind]. now apply IH.
Qed.

Lemma aexec_fuel_mono f f' rho ss s s' : aexec f rho ss s = Some s' -> (f <= f')%nat -> aexec f' rho ss s = Some s'.
Proof. intros E Hle. induction Hle as [|m Hle IH]; [exact E|]. now apply aexec_fuel_S. Qed.

Lemma aexec1_fuel_mono f f' rho st s s' : aexec1 f rho st s = Some s' -> (f <= f')%nat -> aexec1 f' rho st s = Some s'.
Proof.
  intros E Hle. unfold aexec1 in *. eapply aexec1_with_mono; [|exact E].
  intros. eapply aexec_fuel_mono; eassumption.
Qed.

Lemma aruns_cons rho st rest s s1 s' f1 f2 :
  aexec1 f1 rho st s = Some s1 -> aexec f2 rho rest s1 = Some s' ->
  aexec (S (Nat.max f1 f2)) rho (st :: rest) s = Some s'.
Proof.
  intros E1 E2. cbn [aexec]. fold (aexec1 (Nat.max f1 f2) rho st s).
  rewrite (aexec1_fuel_mono f1 _ _ _ _ _ E1 (Nat.le_max_l _ _)). cbn [obind].
  eapply aexec_fuel_mono; [exact E2|apply Nat.le_max_r].
Qed.

Lemma aruns_det rho ss s s1 s2 : aruns rho ss s s1 -> aruns rho ss s s2 -> s1 = s2.
Proof.
  intros [f1 E1] [f2 E2].
  pose proof (aexec_fuel_mono f1 (Nat.max f1 f2) _ _ _ _ E1 (Nat.le_max_l _ _)) as A.
  pose proof (aexec_fuel_mono f2 (Nat.max f1 f2) _ _ _ _ E2 (Nat.le_max_r _ _)) as B.
  congruence.
Qed.

(** * Selectors that cannot fail *)

Lemma totalE_eval s : forall e, totalE e = true -> exists v, evalZ (env_st s) e = Some v.
Proof.
  induction e using expr_ind'; intros Ht; try discriminate; try (cbn; eauto; fail).
  - cbn [totalE] in Ht. cbn [evalZ].
    induction H as [|c cs Hc _ IHcs]; cbn [fold_right]; [eauto|].
    cbn [forallb] in Ht. apply andb_prop in Ht. destruct Ht as [H1 H2].
    destruct (Hc H1) as [v Ev]. destruct (IHcs H2) as [w Ew]. rewrite Ev, Ew. cbn. eauto.
  - cbn [totalE] in Ht. cbn [evalZ].
    induction H as [|c cs Hc _ IHcs]; cbn [fold_right]; [eauto|].
    cbn [forallb] in Ht. apply andb_prop in Ht. destruct Ht as [H1 H2].
    destruct (Hc H1) as [v Ev]. destruct (IHcs H2) as [w Ew]. rewrite Ev, Ew. cbn. eauto.
  - cbn [totalE] in Ht. apply andb_prop in Ht. destruct Ht as [Hi Ha]. apply negb_true_iff in Hi.
    rewrite evalZ_call.
    assert (exists vs, omap_list (evalZ (env_st s)) args = Some vs) as [vs Evs].
    { clear Hi. induction H as [|c cs Hc _ IHcs]; cbn [omap_list]; [eauto|].
      cbn [forallb] in Ha. apply andb_prop in Ha. destruct Ha as [H1 H2].
      destruct (Hc H1) as [v Ev]. destruct (IHcs H2) as [w Ew]. rewrite Ev, Ew. cbn. eauto. }
    rewrite Evs. cbn [obind]. rewrite (intrinsic_not_intr f vs Hi). cbn. eauto.
Qed.

Lemma total_bind s sl : total_sel sl = true -> exists b, bind_of [] s sl = Some b.
Proof.
  destruct sl as [y|a ds|e]; cbn [total_sel bind_of lookup]; intros Ht.
  - eauto.
  - assert (exists bds, omap_list (eval_dim [] s) ds = Some bds) as [bds E].
    { induction ds as [|d r IH]; cbn [omap_list]; [eauto|].
      cbn [forallb] in Ht. apply andb_prop in Ht. destruct Ht as [H1 H2]. destruct (IH H2) as [br Er].
      destruct d as [e|off]; cbn [eval_dim total_dim] in *.
      - rewrite env_a_nil. destruct (totalE_eval s e H1) as [v Ev]. rewrite Ev, Er. cbn. eauto.
      - rewrite Er. cbn. eauto. }
    rewrite E. cbn. eauto.
  - rewrite env_a_nil. destruct (totalE_eval s e Ht) as [v Ev]. rewrite Ev. cbn. eauto.
Qed.

Lemma total_bind_all s : forall l, forallb (fun p => total_sel (snd p)) l = true -> exists beta, bind_all [] s l = Some beta.
Proof.
  induction l as [|[x sl] r IH]; cbn [forallb bind_all snd]; intros Ht; [eauto|].
  apply andb_prop in Ht. destruct Ht as [H1 H2].
  destruct (total_bind s sl H1) as [b Eb]. destruct (IH H2) as [bs Ebs]. rewrite Eb, Ebs. cbn. eauto.
Qed.

(** * Converse simulation *)

Lemma safe_stmt_do sg v lo hi stp body : safe_stmt sg (ADo v lo hi stp body) = forallb (safe_stmt sg) body.
Proof. reflexivity. Qed.
Lemma safe_stmt_if sg c tb eb : safe_stmt sg (AIf c tb eb) = forallb (safe_stmt sg) tb && forallb (safe_stmt sg) eb.
Proof. reflexivity. Qed.
Lemma safe_stmt_assoc sg assocs body :
  safe_stmt sg (AAssoc assocs body) =
  forallb (fun p => total_sel (snd p)) (subst_assocs sg assocs) && forallb (safe_stmt (subst_assocs sg assocs ++ sg)) body.
Proof. reflexivity. Qed.

Definition Pst (st : astmt) : Prop := forall rho sg s s1,
  runs [] (resolve_stmt sg st) s s1 -> agree s rho sg -> sg_ok sg -> cls_stmt sg st = true ->
  safe_stmt sg st = true -> stableP sg (writes (resolve_stmt sg st)) -> exists f, aexec1 f rho st s = Some s1.

Definition Pls (ss : list astmt) : Prop := forall rho sg s s',
  runs [] (resolve_list sg ss) s s' -> agree s rho sg -> sg_ok sg -> cls sg ss = true ->
  forallb (safe_stmt sg) ss = true -> stableP sg (writes (resolve_list sg ss)) -> exists f, aexec f rho ss s = Some s'.

Lemma bwd_list ss : Forall Pst ss -> Pls ss.
Proof.
  induction 1 as [|st rest Hst _ IH]; intros rho sg s s' R Hag Hok Hc Hsf Hsb.
  - apply runs_nil_inv in R. subst. now exists 1%nat.
  - rewrite resolve_list_cons in *. rewrite writes_app in Hsb.
    apply runs_app_inv in R. destruct R as [s1 [R1 R2]].
    unfold cls in Hc. cbn [forallb] in Hc, Hsf.
    apply andb_prop in Hc. destruct Hc as [Hc1 Hc2]. apply andb_prop in Hsf. destruct Hsf as [Hs1 Hs2].
    assert (Hsb1 : stableP sg (writes (resolve_stmt sg st))) by (eapply stableP_incl; [exact Hsb|apply incl_appl, incl_refl]).
    assert (Hsb2 : stableP sg (writes (resolve_list sg rest))) by (eapply stableP_incl; [exact Hsb|apply incl_appr, incl_refl]).
    destruct (Hst rho sg s s1 R1 Hag Hok Hc1 Hs1 Hsb1) as [f1 E1].
    assert (Hag1 : agree s1 rho sg) by (eapply agree_runs; eassumption).
    destruct (IH rho sg s1 s' R2 Hag1 Hok Hc2 Hs2 Hsb2) as [f2 E2].
    eexists. eapply aruns_cons; eassumption.
Qed.

Lemma runs1_store_inv a idx e s s' :
  runs1 [] (SStore a idx e) s s' ->
  exists i v, omap_list (evalZ (env_st s)) idx = Some i /\ evalZ (env_st s) e = Some v /\ s' = set_av a i v s.
Proof.
  intros [f E]. cbn [exec1] in E. unfold eval_idx in E.
  apply obind_some in E. destruct E as [i [Ei E]]. apply obind_some in E. destruct E as [v [Ev E]].
  exists i, v. repeat split; try assumption. congruence.
Qed.

Lemma dovar_of_subst s rho sg v : agree s rho sg -> okV sg v = true -> dovar rho v = Some (subst_name sg v).
Proof.
  intros Hag Hk. pose proof (agree_lookup _ _ _ Hag v) as L. unfold okV, dovar, subst_name in *.
  destruct (lookup rho v) as [b|]; destruct (lookup sg v) as [sl|]; try contradiction; [|reflexivity].
  destruct sl as [y| |]; try discriminate. cbn in L. now inversion L.
Qed.

Lemma loop_bwd rho sg body v' d :
  Pls body -> sg_ok sg -> cls sg body = true -> forallb (safe_stmt sg) body = true ->
  stableP sg (v' :: writes (resolve_list sg body)) ->
  forall n i s s1, loop_runs [] (resolve_list sg body) v' d n i s s1 -> agree s rho sg ->
  exists f, do_loop (aexec f rho body) v' d n i s = Some s1.
Proof.
  intros HP Hok Hc Hsf Hsb.
  assert (Hstb : stableP sg (writes (resolve_list sg body))).
  { eapply stableP_incl; [exact Hsb|]. intros n Hn. now right. }
  intros n i s s1 R. induction R as [i s|n i s s2 s' R1 R2 IHR]; intros Hag.
  - exists 0%nat. reflexivity.
  - assert (Hag1 : agree (set_sv v' i s) rho sg) by (eapply agree_set_sv; [exact Hag|exact Hsb|now left]).
    destruct (HP rho sg _ _ R1 Hag1 Hok Hc Hsf Hstb) as [f1 E1].
    assert (Hag2 : agree s2 rho sg) by (eapply agree_runs; eassumption).
    destruct (IHR Hag2) as [f2 E2].
    exists (Nat.max f1 f2). cbn [do_loop].
    rewrite (aexec_fuel_mono f1 _ _ _ _ _ E1 (Nat.le_max_l _ _)). cbn [obind].
    eapply do_loop_mono; [|exact E2]. intros; eapply aexec_fuel_mono; [eassumption|apply Nat.le_max_r].
Qed.

Lemma bwd_stmt : forall st, Pst st.
Proof.
  induction st using astmt_ind'; intros rho sg s s1 R Hag Hok Hc Hsf Hsb.
  - (* assignment *)
    cbn [cls_stmt] in Hc. apply andb_prop in Hc. destruct Hc as [He Hw].
    cbn [resolve_stmt] in R. apply runs_single in R.
    pose proof (agree_lookup _ _ _ Hag x) as L.
    exists 0%nat. unfold aexec1. cbn [aexec1_with]. rewrite (subst_evalZ s rho sg Hag Hok e He).
    unfold resolve_assign, write_scalar, okW in *.
    destruct (lookup rho x) as [b|] eqn:Lr; destruct (lookup sg x) as [sl|] eqn:Ls; try contradiction.
    + pose proof (sg_ok_lookup _ _ _ Hok Ls) as Hs.
      destruct sl as [y|a ds|e']; [| |discriminate].
      * cbn in L. inversion L; subst. apply runs1_assign_inv in R. destruct R as [v [Ev ->]]. rewrite Ev. reflexivity.
      * cbn [bind_of lookup] in L. apply obind_some in L. destruct L as [bds [Hb L]]. inversion L; subst; clear L.
        apply is_some_true in Hw. destruct Hw as [ix Hf]. rewrite Hf in R.
        cbn [sel_ok] in Hs. apply andb_prop in Hs. destruct Hs as [_ Hu].
        apply runs1_store_inv in R. destruct R as [i [v [Ei [Ev ->]]]].
        rewrite (fill_eval s ds bds [] ix Hb Hu Hf) in Ei. cbn [omap_list obind] in Ei.
        rewrite Ev. cbn [obind]. rewrite Ei. reflexivity.
    + apply runs1_assign_inv in R. destruct R as [v [Ev ->]]. rewrite Ev. reflexivity.
  - (* store *)
    cbn [cls_stmt] in Hc. apply andb_prop in Hc. destruct Hc as [Hc Hw]. apply andb_prop in Hc. destruct Hc as [Hi He].
    cbn [resolve_stmt] in R. apply runs_single in R.
    pose proof (agree_lookup _ _ _ Hag a) as L.
    exists 0%nat. unfold aexec1. cbn [aexec1_with].
    rewrite (subst_evalZ s rho sg Hag Hok e He), (subst_idx s rho sg Hag Hok i Hi).
    unfold resolve_store, write_elem, okWa in *.
    destruct (lookup rho a) as [b|] eqn:Lr; destruct (lookup sg a) as [sl|] eqn:Ls; try contradiction.
    + pose proof (sg_ok_lookup _ _ _ Hok Ls) as Hs.
      destruct sl as [y|a0 ds|e']; [| |discriminate].
      * cbn in L. inversion L; subst. apply runs1_store_inv in R. destruct R as [j [v [Ei [Ev ->]]]].
        rewrite Ei, Ev. reflexivity.
      * cbn [bind_of lookup] in L. apply obind_some in L. destruct L as [bds [Hb L]]. inversion L; subst; clear L.
        apply is_some_true in Hw. destruct Hw as [ix Hf]. rewrite Hf in R.
        cbn [sel_ok] in Hs. apply andb_prop in Hs. destruct Hs as [_ Hu].
        apply runs1_store_inv in R. destruct R as [j [v [Ei [Ev ->]]]].
        rewrite (fill_eval s ds bds _ ix Hb Hu Hf) in Ei.
        destruct (omap_list (evalZ (env_st s)) (map (subst sg) i)) as [vi|]; [|discriminate].
        cbn [obind] in *. rewrite Ev. cbn [obind]. rewrite Ei. reflexivity.
    + apply runs1_store_inv in R. destruct R as [j [v [Ei [Ev ->]]]]. rewrite Ei, Ev. reflexivity.
  - (* DO *)
    rewrite cls_stmt_do in Hc. repeat (apply andb_prop in Hc; destruct Hc as [Hc ?]).
    rewrite safe_stmt_do in Hsf.
    rewrite resolve_do in *. apply runs_single in R. apply runs1_do in R.
    destruct R as [a [b0 [d [Ea [Eb [Ed [Hd R]]]]]]].
    unfold writes in Hsb. cbn [flat_map writes_stmt] in Hsb. rewrite app_nil_r in Hsb.
    fold (writes (resolve_list sg b)) in Hsb.
    destruct (loop_bwd rho sg b (subst_name sg v) d (bwd_list b H) Hok H0 Hsf Hsb _ _ _ _ R Hag) as [f L].
    exists f. unfold aexec1. cbn [aexec1_with].
    rewrite (dovar_of_subst s rho sg v Hag Hc). cbn [obind].
    rewrite (subst_evalZ s rho sg Hag Hok lo) by assumption. rewrite Ea. cbn [obind].
    rewrite (subst_evalZ s rho sg Hag Hok hi) by assumption. rewrite Eb. cbn [obind].
    assert (Ed' : match st with Some e => evalZ (env_a rho s) e | None => Some 1 end = Some d).
    { destruct st as [e|]; [|exact Ed]. cbn [option_map] in Ed. now rewrite (subst_evalZ s rho sg Hag Hok e). }
    rewrite Ed'. cbn [obind]. apply Z.eqb_neq in Hd. rewrite Hd. exact L.
  - (* IF *)
    rewrite cls_stmt_if in Hc. apply andb_prop in Hc. destruct Hc as [Hc Hce]. apply andb_prop in Hc. destruct Hc as [Hcc Hct].
    rewrite safe_stmt_if in Hsf. apply andb_prop in Hsf. destruct Hsf as [Hst Hse].
    rewrite resolve_if in *. apply runs_single in R.
    unfold writes in Hsb. cbn [flat_map writes_stmt] in Hsb. rewrite app_nil_r in Hsb.
    destruct R as [f R]. cbn [exec1] in R. apply obind_some in R. destruct R as [b [Eb R]].
    assert (R' : runs [] (if b then resolve_list sg t else resolve_list sg e) s s1) by (now exists f).
    assert (L : exists f', aexec f' rho (if b then t else e) s = Some s1).
    { destruct b.
      - eapply (bwd_list t H); try eassumption. eapply stableP_incl; [exact Hsb|]. intros n Hn. apply in_or_app. now left.
      - eapply (bwd_list e H0); try eassumption. eapply stableP_incl; [exact Hsb|]. intros n Hn. apply in_or_app. now right. }
    destruct L as [f' L]. exists f'. unfold aexec1. cbn [aexec1_with].
    rewrite (subst_evalB s rho sg Hag Hok c Hcc), Eb. cbn [obind]. exact L.
  - (* skip *)
    cbn [resolve_stmt] in R. apply runs_single in R. destruct R as [f R]. cbn in R. exists 0%nat. exact R.
  - (* ASSOCIATE *)
    rewrite cls_stmt_assoc in Hc. repeat (apply andb_prop in Hc; destruct Hc as [Hc ?]).
    rewrite safe_stmt_assoc in Hsf. apply andb_prop in Hsf. destruct Hsf as [Ht Hsf].
    rewrite resolve_assoc in *.
    destruct (total_bind_all s _ Ht) as [beta Eb].
    assert (L : exists f, aexec f (beta ++ rho) b s = Some s1).
    { eapply (bwd_list b H); try eassumption.
      - apply agree_app; [now apply bind_all_agree|exact Hag].
      - apply sg_ok_app; [now apply sg_ok_of_forallb|exact Hok].
      - apply stableP_app; [now apply stable_sels_spec|exact Hsb]. }
    destruct L as [f L]. exists f. unfold aexec1. cbn [aexec1_with].
    rewrite (bind_all_subst s rho sg Hag Hok a Hc), Eb. cbn [obind]. exact L.
Qed.

Theorem resolve_preserves_bwd ss : selectors_stable ss = true -> selectors_safe ss = true ->
  forall s s', runs [] (resolve ss) s s' -> aruns [] ss s s'.
Proof.
  intros Hc Hs s s' R.
  assert (HP : Pls ss) by (apply bwd_list; apply Forall_forall; intros st _; apply bwd_stmt).
  eapply HP; [exact R|constructor|constructor|exact Hc|exact Hs|]. intros p Hp. inversion Hp.
Qed.

(** C29, do_resolve_associates, start_depth = 0 *)
Theorem resolve_preserves_on_class ss : selectors_stable ss = true ->
  forall s s', aruns [] ss s s' -> runs [] (resolve ss) s s'.
Proof. exact (resolve_preserves_fwd ss). Qed.

Theorem resolve_preserves_iff_on_class ss : selectors_stable ss = true -> selectors_safe ss = true ->
  forall s s', aruns [] ss s s' <-> runs [] (resolve ss) s s'.
Proof.
  intros Hc Hs s s'. split; [now apply resolve_preserves_fwd|now apply resolve_preserves_bwd].
Qed.

(** without the safety side condition the converse still holds for stores on which the source does not go wrong *)
Theorem resolve_preserves_no_error ss : selectors_stable ss = true ->
  forall s s', (exists t, aruns [] ss s t) -> (aruns [] ss s s' <-> runs [] (resolve ss) s s').
Proof.
  intros Hc s s' [t Ht]. split; [now apply resolve_preserves_fwd|].
  intros R. pose proof (resolve_preserves_fwd ss Hc s t Ht) as R'.
  now rewrite (runs_det [] _ _ _ _ R R').
Qed.
