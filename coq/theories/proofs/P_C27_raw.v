(** C27 — proofs, part 2: completeness of read_after_write_vars on the class; counterexamples. *)
From Coq Require Import ZArith List Bool String Lia.
From LV Require Import Base.Expr Base.MiniF Base.MiniFFacts models.M_C26 models.M_C27
     proofs.P_C26 proofs.P_C26_def proofs.P_C26_use proofs.P_C26_live proofs.P_C27.
Import ListNotations.
Open Scope Z_scope.

Lemma fr_facts_all sg ss : fr_facts sg (dovars ss) (nomark ss) (fr_body sg ss).
Proof. apply fr_facts_body. apply Forall_forall. intros st _. apply fr_facts_stmt. Qed.

Lemma fr_cands_eq sg C Rd ss : fc (fr_body sg ss (true, C, Rd)) = fr_cands sg C ss.
Proof. unfold fr_cands. destruct (fr_facts_all sg ss) as [_ B _ _ _]. destruct (B true C [] Rd) as [_ H]. exact H. Qed.

Lemma fr_active sg C Rd ss : exists C' Rd', fr_body sg ss (true, C, Rd) = (true, C', Rd').
Proof.
  destruct (fr_facts_all sg ss) as [A _ _ _ _]. specialize (A C Rd).
  destruct (fr_body sg ss (true, C, Rd)) as [[a c] r]. unfold fa in A. cbn in A. subst. eauto.
Qed.

(** * FindWrites *)
Lemma fw_body_cons sg x r a : fw_body sg (x :: r) a = fw_body sg r (fw_stmt sg a x).
Proof. reflexivity. Qed.

Lemma fw_body_app sg a1 a2 a : fw_body sg (a1 ++ a2) a = fw_body sg a2 (fw_body sg a1 a).
Proof. unfold fw_body. apply fold_left_app. Qed.

Record fw_facts (dv : names) (nm : bool) (D : names) (run : bool * names -> bool * names) : Prop := {
  fwf_idle : forall W, run (false, W) = (false, W);
  fwf_act : nm = true -> forall W, fst (run (true, W)) = true /\
            forall x, In x W \/ In x D -> ~ In x dv -> In x (snd (run (true, W)))
}.

Lemma fw_facts_body sg : forall ss,
  Forall (fun st => fw_facts (dovars_stmt st) (nomark_stmt st) (fst (du_stmt sg st)) (fun a => fw_stmt sg a st)) ss ->
  fw_facts (dovars ss) (nomark ss) (Db sg ss) (fw_body sg ss).
Proof.
  induction ss as [|st r IH]; intros HF.
  - constructor; [reflexivity|]. intros _ W. split; [reflexivity|]. cbn. tauto.
  - inversion HF as [|? ? Hst Hr]; subst. specialize (IH Hr). destruct Hst as [A1 B1]. destruct IH as [A2 B2].
    constructor.
    + intros W. rewrite fw_body_cons, A1. apply A2.
    + intros Hnm W. cbn [nomark forallb] in Hnm. apply andb_true_iff in Hnm. destruct Hnm as [N1 N2].
      rewrite fw_body_cons. destruct (B1 N1 W) as [Ha Hx].
      destruct (fw_stmt sg (true, W) st) as [a1 W1]. cbn [fst snd] in *. subst a1.
      destruct (B2 N2 W1) as [Ha2 Hx2]. split; [exact Ha2|].
      intros x Hin Hd. unfold dovars in Hd. cbn [flat_map] in Hd. rewrite in_app_iff in Hd.
      unfold Db in Hin. cbn [flat_map] in Hin. rewrite in_app_iff in Hin.
      apply Hx2; [|tauto]. destruct Hin as [Hin|[Hin|Hin]]; [left; apply Hx; tauto|left; apply Hx; tauto|right; exact Hin].
Qed.

Lemma fw_stmt_do sg act W v lo hi stp b :
  fw_stmt sg (act, W) (SDo v lo hi stp b) = fw_body sg b (act && true, if act && true then rem1 v W else W).
Proof. reflexivity. Qed.
Lemma fw_stmt_while sg act W c b : fw_stmt sg (act, W) (SWhile c b) = fw_body sg b (act && true, W).
Proof. reflexivity. Qed.
Lemma fw_stmt_if sg act W c tb eb :
  fw_stmt sg (act, W) (SIf c tb eb) = fw_body sg eb (fw_body sg tb (act && true, W)).
Proof. reflexivity. Qed.

Lemma fw_facts_stmt sg : forall st,
  fw_facts (dovars_stmt st) (nomark_stmt st) (fst (du_stmt sg st)) (fun a => fw_stmt sg a st).
Proof.
  induction st using stmt_ind'.
  1, 2, 6, 7:
    (constructor;
     [ intros W; reflexivity
     | intros Hnm W; cbn [nomark_stmt] in Hnm; apply andb_true_iff in Hnm; destruct Hnm as [Hnm _];
       cbn [fw_stmt fst snd]; rewrite Hnm; cbn [andb fst snd]; split; [reflexivity|];
       intros y0 Hin _; apply in_app_iff; exact Hin ]).
  - pose proof (fw_facts_body sg b H) as [A B].
    constructor.
    + intros W. rewrite fw_stmt_do. cbn [andb]. apply A.
    + intros Hnm W. cbn [nomark_stmt is_mark negb andb] in Hnm. fold (nomark b) in Hnm.
      rewrite fw_stmt_do. cbn [andb].
      destruct (B Hnm (rem1 v W)) as [Ha Hx]. split; [exact Ha|].
      intros x Hin Hd. cbn [dovars_stmt] in Hd. fold (dovars b) in Hd. cbn [In] in Hd.
      apply Hx; [|tauto]. destruct Hin as [Hin|Hin].
      * left. apply In_rem1. split; [exact Hin|]. intros ->. tauto.
      * right. apply D_do in Hin. tauto.
  - pose proof (fw_facts_body sg b H) as [A B].
    constructor.
    + intros W. rewrite fw_stmt_while. cbn [andb]. apply A.
    + intros Hnm W. cbn [nomark_stmt is_mark negb andb] in Hnm. fold (nomark b) in Hnm.
      rewrite fw_stmt_while. cbn [andb].
      destruct (B Hnm W) as [Ha Hx]. split; [exact Ha|].
      intros x Hin Hd. cbn [dovars_stmt] in Hd. fold (dovars b) in Hd.
      apply Hx; [|exact Hd]. destruct Hin as [Hin|Hin]; [now left|right; now apply D_while in Hin].
  - pose proof (fw_facts_body sg t H) as [A1 B1]. pose proof (fw_facts_body sg e H0) as [A2 B2].
    constructor.
    + intros W. rewrite fw_stmt_if. cbn [andb]. rewrite A1. apply A2.
    + intros Hnm W. cbn [nomark_stmt is_mark negb andb] in Hnm. fold (nomark t) in Hnm. fold (nomark e) in Hnm.
      apply andb_true_iff in Hnm. destruct Hnm as [N1 N2].
      rewrite fw_stmt_if. cbn [andb].
      destruct (B1 N1 W) as [Ha Hx]. destruct (fw_body sg t (true, W)) as [a1 W1]. cbn [fst snd] in *. subst a1.
      destruct (B2 N2 W1) as [Ha2 Hx2]. split; [exact Ha2|].
      intros x Hin Hd. cbn [dovars_stmt] in Hd. fold (dovars t) in Hd. fold (dovars e) in Hd. rewrite in_app_iff in Hd.
      apply Hx2; [|tauto]. destruct Hin as [Hin|Hin]; [left; apply Hx; tauto|].
      apply D_if in Hin. destruct Hin as [Hin|Hin]; [left; apply Hx; tauto|right; exact Hin].
Qed.

Lemma fw_facts_all sg ss : fw_facts (dovars ss) (nomark ss) (Db sg ss) (fw_body sg ss).
Proof. apply fw_facts_body. apply Forall_forall. intros st _. apply fw_facts_stmt. Qed.

Lemma diff_nil C : diff C [] = C.
Proof. unfold diff. induction C as [|x r IH]; [reflexivity|]. cbn [filter]. change (negb (mem x [])) with true. cbn iota. now rewrite IH. Qed.

(** with a top-level marker the query is: FindWrites over [pre], then an active FindReads over [post] *)
Lemma raw_split sg pre post :
  nomark pre = true ->
  raw sg (pre ++ SSkip MARK :: post) = fd (fr_body sg post (true, snd (fw_body sg pre (true, [])), [])).
Proof.
  intros Hnm. unfold raw.
  destruct (fw_facts_all sg pre) as [_ Bp]. destruct (Bp Hnm []) as [Ha _].
  rewrite fw_body_app, fw_body_cons. revert Ha. unfold names in *.
  destruct (fw_body sg pre (true, [])) as [a W]. cbn [fst snd]. intros ->.
  cbn [fw_stmt is_mark fst snd]. rewrite String.eqb_refl. cbn [negb andb].
  destruct (fw_facts_all sg post) as [Ap _]. rewrite Ap. cbn [snd].
  rewrite fr_body_app, fr_body_cons.
  destruct (fr_facts_all sg pre) as [_ _ _ _ E]. rewrite (E Hnm).
  cbn [fr_stmt is_mark]. rewrite String.eqb_refl. cbn [orb du_stmt fst snd inter filter]. rewrite diff_nil.
  reflexivity.
Qed.

Lemma do_loop_tr_writes_v run v d : forall n i s s' t, do_loop_tr run v d n i s = Some (s', t) -> In (LS v) (fst t).
Proof.
  induction n as [|n IH]; intros i s s' t E; cbn [do_loop_tr] in E.
  - inversion E; subst. now left.
  - inv_obind E. inversion E; subst. apply seqT_w. left. apply seqT_w. left. now left.
Qed.

Lemma disjointb_spec a b : disjointb a b = true -> forall x, In x a -> ~ In x b.
Proof. unfold disjointb. rewrite forallb_forall. intros H x Hx. apply mem_false, negb_true_iff. now apply H. Qed.

Lemma rawok_cons mw ps sg C x r :
  rawok mw ps sg C (x :: r) =
  rawok_stmt mw ps sg C x && disjointb (diff C (fr_cands sg C [x])) (anames ps r) && rawok mw ps sg (fr_cands sg C [x]) r.
Proof. reflexivity. Qed.

Section Raw.
  Variables (mw : musts) (ps : procs) (sg : sigs).
  Hypothesis Hok : sigs_ok mw ps sg = true.

  (** invariant of an active FindReads pass along an execution *)
  Definition RI (dv : names) (t : summary) (C : names) (r : frs) : Prop :=
    (forall l, In l (snd t) -> In (lname l) C -> ~ In (lname l) dv -> In (lname l) (fd r)) /\
    (forall n, In n C -> ~ In n (fc r) -> In (LS n) (fst t)).

  Lemma step_raw f :
    (forall ss s s' t C Rd, exec_tr ps f ss s = Some (s', t) -> rawok mw ps sg C ss = true ->
                            RI (dovars ss) t C (fr_body sg ss (true, C, Rd))) ->
    forall st s s' t C Rd, step_tr ps (exec_tr ps f) st s = Some (s', t) -> rawok_stmt mw ps sg C st = true ->
                           RI (dovars_stmt st) t C (fr_stmt sg (true, C, Rd) st).
  Proof.
    intros IH st s s' t C Rd E Hr.
    assert (is_leaf st = true ->
            RI (dovars_stmt st) t C (fr_stmt sg (true, C, Rd) st)) as Hleaf.
    { intros Hlf. rewrite (fr_stmt_leaf _ _ _ _ _ Hlf). cbn [orb].
      assert (definite_stmt mw ps sg st = true /\ subset (inter (fst (du_stmt sg st)) C) (mdef_stmt mw st) = true) as [Hd Hs].
      { destruct st; cbn [is_leaf] in Hlf; try discriminate; cbn [rawok_stmt] in Hr; now apply andb_true_iff in Hr. }
      split.
      - intros l Hl HC _. cbn [fd snd]. apply in_app_iff. right. apply In_inter. split; [|exact HC].
        eapply (step_use mw ps sg Hok f (uses_sound_aux mw ps sg Hok f)); eauto.
      - intros n HC Hn. cbn [fc fst snd] in Hn. rewrite In_diff in Hn.
        assert (In n (fst (du_stmt sg st))) as Hd' by (destruct (mem n (fst (du_stmt sg st))) eqn:Em; [now apply mem_In|apply mem_false in Em; tauto]).
        rewrite subset_In in Hs. assert (In n (mdef_stmt mw st)) as Hm by (apply Hs; apply In_inter; auto).
        eapply (step_mdef mw ps sg Hok f (mdef_sound mw ps sg Hok f)); eauto. }
    destruct st as [x e|a idx e|v lo hi stp body|c body|c tb eb|g args|lab]; try (apply Hleaf; reflexivity); clear Hleaf.
    - (* DO *)
      change (rawok_stmt mw ps sg C (SDo v lo hi stp body))
        with (rawok mw ps sg (rem1 v C) body && subset (rem1 v C) (fr_cands sg (rem1 v C) body)) in Hr.
      apply andb_true_iff in Hr. destruct Hr as [Hrb Hsub]. rewrite subset_In in Hsub.
      rewrite fr_stmt_do. cbn [orb]. cbn zeta.
      set (Rd1 := Rd ++ inter (bound_vars lo hi stp) C).
      unfold step_tr in E. inv_obind E. destruct (r1 =? 0); [discriminate|]. inv_obind E. destruct r2 as [s2 t2]. inversion E; subst.
      cbn [fst snd].
      destruct (fr_facts_all sg body) as [_ _ Frd _ _].
      split.
      + intros l Hl HC Hdv. cbn [fd snd]. cbn [dovars_stmt] in Hdv. fold (dovars body) in Hdv. cbn [In] in Hdv.
        apply In_rem1. split; [|intros Ev; apply Hdv; left; now rewrite Ev].
        apply seqT_r_weak in Hl. destruct Hl as [Hl|Hl].
        * apply (proj1 (rdT_r _ _)) in Hl.
          assert (In (lname l) (bound_vars lo hi stp)) as Hb.
          { unfold bound_vars. rewrite !in_app_iff in Hl. rewrite !in_app_iff. destruct Hl as [Hl|[Hl|Hl]].
            - left. now apply ereads_evars in Hl.
            - right. left. now apply ereads_evars in Hl.
            - right. right. destruct stp as [e|]; [|contradiction]. now apply ereads_evars in Hl. }
          apply Frd; [|tauto]. unfold Rd1. apply in_app_iff. right. apply In_inter. auto.
        * destruct (do_loop_tr_r (fun l => In (lname l) (rem1 v C) -> ~ In (lname l) (dovars body) ->
                                            In (lname l) (fd (fr_body sg body (true, rem1 v C, Rd1)))) _ v r1
                      (fun s0 s1 t1 R => proj1 (IH _ _ _ _ _ Rd1 R Hrb)) _ _ _ _ _ E3 l Hl) as [HP _].
          apply HP; [|tauto]. apply In_rem1. split; [exact HC|]. intros Ev. apply Hdv. left. now rewrite Ev.
      + intros n HC Hn. cbn [fc fst snd] in Hn. rewrite fr_cands_eq in Hn.
        apply seqT_w. right.
        assert (n = v) as ->.
        { destruct (String.eqb n v) eqn:Ev; [now apply String.eqb_eq|]. apply String.eqb_neq in Ev.
          exfalso. apply Hn. apply Hsub. apply In_rem1. auto. }
        eapply do_loop_tr_writes_v; eauto.
    - (* WHILE *)
      change (rawok_stmt mw ps sg C (SWhile c body))
        with (rawok mw ps sg C body && subset C (fr_cands sg C body)) in Hr.
      pose proof Hr as Hr0. apply andb_true_iff in Hr. destruct Hr as [Hrb Hsub]. rewrite subset_In in Hsub.
      rewrite fr_stmt_while. cbn [orb]. cbn zeta.
      set (Rd1 := Rd ++ inter (evars c) C).
      destruct (fr_facts_all sg body) as [_ _ Frd _ _].
      assert (forall n, In n C -> ~ In n (fc (fr_body sg body (true, C, Rd1))) -> False) as Hno.
      { intros n HC Hn. rewrite fr_cands_eq in Hn. auto. }
      unfold step_tr in E. inv_obind E. destruct r.
      + inv_obind E. destruct r as [s1 t1], r0 as [s2 t2]. cbn [fst snd] in *. inversion E; subst.
        split; [|intros n HC Hn; exfalso; eauto].
        intros l Hl HC Hdv. cbn [dovars_stmt] in Hdv. fold (dovars body) in Hdv.
        apply seqT_r_weak in Hl. destruct Hl as [Hl|Hl].
        * apply (proj1 (rdT_r _ _)) in Hl. apply ereads_evars in Hl.
          apply Frd; [|exact Hdv]. unfold Rd1. apply in_app_iff. right. apply In_inter. auto.
        * apply seqT_r_weak in Hl. destruct Hl as [Hl|Hl].
          -- exact (proj1 (IH _ _ _ _ _ Rd1 E1 Hrb) l Hl HC Hdv).
          -- assert (rawok mw ps sg C [SWhile c body] = true) as Hr1.
             { rewrite rawok_cons. change (rawok_stmt mw ps sg C (SWhile c body))
                 with (rawok mw ps sg C body && subset C (fr_cands sg C body)). rewrite Hr0.
               unfold anames. cbn [flat_map]. unfold disjointb.
               assert (forall l0, forallb (fun x => negb (mem x [])) l0 = true) as Hd0 by (induction l0; cbn; auto).
               rewrite Hd0. reflexivity. }
             pose proof (proj1 (IH _ _ _ _ C Rd E2 Hr1) l Hl HC) as H1.
             unfold fr_body in H1. cbn [fold_left] in H1. rewrite fr_stmt_while in H1. cbn [orb] in H1. cbn zeta in H1.
             apply H1. unfold dovars. cbn [flat_map dovars_stmt]. now rewrite app_nil_r.
      + inversion E; subst. split; [|intros n HC Hn; exfalso; eauto].
        intros l Hl HC Hdv. cbn [dovars_stmt] in Hdv. fold (dovars body) in Hdv.
        apply (proj1 (rdT_r _ _)) in Hl. apply ereads_evars in Hl.
        apply Frd; [|exact Hdv]. unfold Rd1. apply in_app_iff. right. apply In_inter. auto.
    - (* IF *)
      change (rawok_stmt mw ps sg C (SIf c tb eb)) with (rawok mw ps sg C tb && rawok mw ps sg C eb) in Hr.
      apply andb_true_iff in Hr. destruct Hr as [Hrt Hre].
      rewrite fr_stmt_if. cbn [orb]. cbn zeta. cbv iota.
      set (Rd1 := Rd ++ inter (evars c) C).
      destruct (fr_facts_all sg tb) as [_ _ Frt _ _]. destruct (fr_facts_all sg eb) as [_ _ Fre _ _].
      destruct (fr_active sg C Rd1 tb) as [C1 [Rd2 Et]]. unfold frs, names in *. rewrite Et. cbn [fa fc fd fst snd].
      destruct (fr_active sg C Rd2 eb) as [C2 [Rd3 Ee]]. unfold frs, names in *. rewrite Ee. cbn [fa fc fd fst snd].
      unfold step_tr in E. inv_obind E. destruct r0 as [s1 t1]. cbn [fst snd] in *. inversion E; subst.
      split.
      + intros l Hl HC Hdv. cbn [dovars_stmt] in Hdv. fold (dovars tb) in Hdv. fold (dovars eb) in Hdv. rewrite in_app_iff in Hdv.
        apply seqT_r_weak in Hl. destruct Hl as [Hl|Hl].
        * apply (proj1 (rdT_r _ _)) in Hl. apply ereads_evars in Hl.
          specialize (Fre true C Rd2 (lname l)). rewrite Ee in Fre. apply Fre; [|tauto].
          specialize (Frt true C Rd1 (lname l)). rewrite Et in Frt. apply Frt; [|tauto].
          unfold Rd1. apply in_app_iff. right. apply In_inter. auto.
        * destruct r.
          -- pose proof (proj1 (IH _ _ _ _ C Rd1 E1 Hrt) l Hl HC) as H1. rewrite Et in H1.
             specialize (Fre true C Rd2 (lname l)). rewrite Ee in Fre. apply Fre; [|tauto]. apply H1. tauto.
          -- pose proof (proj1 (IH _ _ _ _ C Rd2 E1 Hre) l Hl HC) as H1. rewrite Ee in H1. apply H1. tauto.
      + intros n HC Hn. cbn [fc fst snd] in Hn. cbv iota in Hn. rewrite in_app_iff in Hn. apply seqT_w. right. destruct r.
        * pose proof (proj2 (IH _ _ _ _ C Rd1 E1 Hrt) n HC) as H1. rewrite Et in H1. apply H1. cbn [fc fst snd]. tauto.
        * pose proof (proj2 (IH _ _ _ _ C Rd2 E1 Hre) n HC) as H1. rewrite Ee in H1. apply H1. cbn [fc fst snd]. tauto.
  Qed.

  Lemma raw_invariant : forall f ss s s' t C Rd,
    exec_tr ps f ss s = Some (s', t) -> rawok mw ps sg C ss = true ->
    RI (dovars ss) t C (fr_body sg ss (true, C, Rd)).
  Proof.
    induction f as [|f IH]; intros ss s s' t C Rd E Hr; [discriminate|].
    destruct ss as [|st rest].
    - cbn in E. inversion E; subst. split; [intros l []|]. intros n HC Hn. cbn in Hn. contradiction.
    - apply exec_tr_cons in E. destruct E as [g [s1 [t1 [t2 [Eg [E1 [E2 ->]]]]]]]. inversion Eg; subst g.
      rewrite rawok_cons, !andb_true_iff in Hr. destruct Hr as [[Hr1 Hdj] Hr2].
      pose proof (step_raw f IH _ _ _ _ C Rd E1 Hr1) as [I1 I2].
      rewrite fr_body_cons.
      assert (fc (fr_stmt sg (true, C, Rd) st) = fr_cands sg C [st]) as Hc1 by (apply (fr_cands_eq sg C Rd [st])).
      destruct (fr_active sg C Rd [st]) as [C1 [Rd1 Es]]. unfold fr_body in Es. cbn [fold_left] in Es.
      rewrite Es in *. cbn [fc fd fst snd] in *. subst C1.
      pose proof (IH _ _ _ _ (fr_cands sg C [st]) Rd1 E2 Hr2) as [J1 J2].
      destruct (fr_facts_all sg rest) as [_ _ Frd Fcd _].
      unfold dovars. cbn [flat_map]. split.
      + intros l Hl HC Hdv. rewrite in_app_iff in Hdv. apply seqT_r in Hl. destruct Hl as [Hl|[Hl Hnw]].
        * apply Frd; [|tauto]. apply I1; tauto.
        * destruct (mem (lname l) (fr_cands sg C [st])) eqn:Em.
          -- apply mem_In in Em. apply J1; tauto.
          -- apply mem_false in Em. exfalso.
             pose proof (I2 _ HC Em) as Hw.
             destruct l as [x|a i]; cbn [lname] in *; [now apply Hnw|].
             pose proof (anames_sound ps _ _ _ _ _ E2 (LA a i) (or_intror Hl)) as HA. cbn in HA.
             apply (disjointb_spec _ _ Hdj a); [|exact HA]. apply In_diff. auto.
      + intros n HC Hn. apply seqT_w.
        destruct (mem n (fr_cands sg C [st])) eqn:Em.
        * apply mem_In in Em. right. apply J2; auto.
        * apply mem_false in Em. left. apply I2; auto.
  Qed.

  (** read_after_write_vars(pre ++ marker :: post, marker) contains every variable with a location
      that [pre] writes and [post] reads before overwriting it (class: [raw_class]; DO variables excepted) *)
  Theorem raw_complete_on_class pre post f1 f2 s s1 t1 s2 t2 l :
    raw_class mw ps sg pre post = true ->
    exec_tr ps f1 pre s = Some (s1, t1) -> exec_tr ps f2 post s1 = Some (s2, t2) ->
    In l (fst t1) -> In l (snd t2) ->
    ~ In (lname l) (dovars pre) -> ~ In (lname l) (dovars post) ->
    In (lname l) (raw sg (pre ++ SSkip MARK :: post)).
  Proof.
    unfold raw_class. rewrite !andb_true_iff. intros [[Hnm Hds] Hr] E1 E2 Hw Hrd Hd1 Hd2.
    rewrite (raw_split sg pre post Hnm).
    apply (proj1 (raw_invariant _ _ _ _ _ _ [] E2 Hr) l Hrd); [|exact Hd2].
    destruct (fw_facts_all sg pre) as [_ B]. destruct (B Hnm []) as [_ Hx]. apply Hx; [|exact Hd1].
    right. destruct (defines_sound_aux mw ps sg Hok _ _ _ _ _ E1 Hds _ Hw) as [H|H]; [exact H|contradiction].
  Qed.

  Corollary raw_dep_reported pre post s x :
    raw_class mw ps sg pre post = true -> raw_dep ps x pre post s ->
    ~ In x (dovars pre) -> ~ In x (dovars post) ->
    In x (raw sg (pre ++ SSkip MARK :: post)).
  Proof.
    intros Hc [f [s1 [t1 [s2 [t2 [l [E1 [E2 [Hw [Hr <-]]]]]]]]]] H1 H2.
    eapply raw_complete_on_class; eauto.
  Qed.
End Raw.

(** * Counterexamples *)

(** F9 inherited by loop_carried_dependencies *)
Definition wit_lcd_body : list stmt :=
  [SIf (ECmp Ceq (EVar "i") (EInt 1)) [SAssign "x" (EInt 5)] []; SAssign "y" (EVar "x")].

Lemma lcd_refuted :
  exists its, loop_iters [] 5 "i" (EInt 1) (EInt 2) None wit_lcd_body (st0 [] []) = Some its /\
              carried "x" its /\ ~ In "x"%string (lcd [] (SDo "i" (EInt 1) (EInt 2) None wit_lcd_body)).
Proof.
  exists [([LS "i"; LS "x"; LS "y"], []); ([LS "i"; LS "y"], [LS "x"])].
  split; [vm_compute; reflexivity|]. split.
  - exists 0%nat, 1%nat, ([LS "i"; LS "x"; LS "y"], []), ([LS "i"; LS "y"], [LS "x"]), (LS "x").
    repeat split; cbn; auto.
  - vm_compute. intros [].
Qed.

(** the final value of an inner DO variable is carried to the next outer iteration *)
Definition wit_lcd_inner : list stmt :=
  [SAssign "y" (EVar "c"); SDo "c" (EInt 1) (EInt 2) None [SAssign "x" (EVar "c")]].

Lemma lcd_refuted_do_variable :
  exists its, loop_iters [] 6 "i" (EInt 1) (EInt 2) None wit_lcd_inner (st0 [] []) = Some its /\
              carried "c" its /\ ~ In "c"%string (lcd [] (SDo "i" (EInt 1) (EInt 2) None wit_lcd_inner)).
Proof.
  set (t := ([LS "i"; LS "y"; LS "c"; LS "x"; LS "c"; LS "x"; LS "c"], [LS "c"])).
  exists [t; t].
  split; [vm_compute; reflexivity|]. split.
  - exists 0%nat, 1%nat, t, t, (LS "c"). repeat split; cbn; auto.
  - vm_compute. intros [].
Qed.

(** F9, second half: an element store after the inspection point clears the whole array *)
Definition wit_raw_pre : list stmt := [SStore "a" [EInt 1] (EInt 1); SStore "a" [EInt 2] (EInt 2)].
Definition wit_raw_post : list stmt := [SStore "a" [EInt 1] (EInt 5); SAssign "y" (ECall "a" [EInt 2])].

Definition run2 (ps : procs) (f : nat) (pre post : list stmt) (s : store) : option (summary * summary) :=
  match exec_tr ps f pre s with
  | Some (s1, t1) => match exec_tr ps f post s1 with Some (_, t2) => Some (t1, t2) | None => None end
  | None => None
  end.

Lemma run2_summary ps f pre post s t1 t2 :
  run2 ps f pre post s = Some (t1, t2) ->
  exists s1 s2, exec_tr ps f pre s = Some (s1, t1) /\ exec_tr ps f post s1 = Some (s2, t2).
Proof.
  unfold run2. destruct (exec_tr ps f pre s) as [[s1 u1]|]; [|discriminate].
  destruct (exec_tr ps f post s1) as [[s2 u2]|] eqn:E2; [|discriminate].
  intros H. inversion H; subst. eauto.
Qed.

Lemma raw_partial_write_refuted :
  raw_dep [] "a" wit_raw_pre wit_raw_post (st0 [] []) /\
  ~ In "a"%string (raw [] (wit_raw_pre ++ SSkip MARK :: wit_raw_post)).
Proof.
  split.
  - destruct (run2_summary [] 5 wit_raw_pre wit_raw_post (st0 [] [])
                ([LA "a" [1]; LA "a" [2]], []) ([LA "a" [1]; LS "y"], [LA "a" [2]])) as [s1 [s2 [E1 E2]]];
      [vm_compute; reflexivity|].
    exists 5%nat, s1, ([LA "a" [1]; LA "a" [2]], []), s2, ([LA "a" [1]; LS "y"], [LA "a" [2]]), (LA "a" [2]).
    repeat split; auto; cbn; auto.
  - vm_compute. intros [].
Qed.

(** an assignment in a loop that makes no trip clears the candidate *)
Definition wit_raw0_pre : list stmt := [SAssign "x" (EInt 3)].
Definition wit_raw0_post : list stmt := [SDo "i" (EInt 1) (EVar "n") None [SAssign "x" (EInt 2)]; SAssign "y" (EVar "x")].

Lemma raw_zero_trip_refuted :
  raw_dep [] "x" wit_raw0_pre wit_raw0_post (st0 [] []) /\
  ~ In "x"%string (raw [] (wit_raw0_pre ++ SSkip MARK :: wit_raw0_post)).
Proof.
  split.
  - destruct (run2_summary [] 5 wit_raw0_pre wit_raw0_post (st0 [] [])
                ([LS "x"], []) ([LS "i"; LS "y"], [LS "n"; LS "x"])) as [s1 [s2 [E1 E2]]];
      [vm_compute; reflexivity|].
    exists 5%nat, s1, ([LS "x"], []), s2, ([LS "i"; LS "y"], [LS "n"; LS "x"]), (LS "x").
    repeat split; auto; cbn; auto.
  - vm_compute. intros [].
Qed.

(** a later loop over i removes i from the reads already found *)
Definition wit_rawv_pre : list stmt := [SAssign "i" (EInt 7)].
Definition wit_rawv_post : list stmt := [SAssign "y" (EVar "i"); SDo "i" (EInt 1) (EInt 2) None [SAssign "x" (EVar "i")]].

Lemma raw_do_variable_refuted :
  raw_dep [] "i" wit_rawv_pre wit_rawv_post (st0 [] []) /\
  ~ In "i"%string (raw [] (wit_rawv_pre ++ SSkip MARK :: wit_rawv_post)).
Proof.
  split.
  - destruct (run2_summary [] 5 wit_rawv_pre wit_rawv_post (st0 [] [])
                ([LS "i"], []) ([LS "y"; LS "i"; LS "x"; LS "i"; LS "x"; LS "i"], [LS "i"])) as [s1 [s2 [E1 E2]]];
      [vm_compute; reflexivity|].
    exists 5%nat, s1, ([LS "i"], []), s2, ([LS "y"; LS "i"; LS "x"; LS "i"; LS "x"; LS "i"], [LS "i"]), (LS "i").
    repeat split; auto; cbn; auto.
  - vm_compute. intros [].
Qed.

(** the classes are inhabited *)
Definition ex_pre : list stmt := [SAssign "x" (EInt 1); SStore "a" [EInt 1] (EVar "x"); SAssign "z" (EInt 0)].
Definition ex_post : list stmt :=
  [SAssign "z" (EInt 2);
   SIf (ECmp Cgt (EVar "x") (EInt 0)) [SAssign "x" (EInt 5)] [SAssign "x" (EInt 6)];
   SDo "i" (EInt 1) (EInt 2) None [SAssign "y" (ESum false [ECall "a" [EVar "i"]; EVar "z"])]].

Example raw_class_nonempty :
  raw_class [] [] [] ex_pre ex_post = true /\ sigs_ok [] [] [] = true /\
  set_eqb (raw [] (ex_pre ++ SSkip MARK :: ex_post)) ["x"%string; "a"%string] = true.
Proof. repeat split; vm_compute; reflexivity. Qed.
