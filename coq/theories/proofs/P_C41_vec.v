(** C41 — resolve_vector_notation at unit level: on the class [vec_class] (no synthesized or reused loop
    variable is the name of a declared array; every bare array reference has a declared shape) the unit
    produced by [T_vec] is well-scoped.  Outside of the class: a unit that declares an ARRAY named [i_a_0]
    ends up with a DO variable that is an array ([T_vec_array_clash_refuted]). *)
From Coq Require Import ZArith List Bool String Ascii Lia.
From LV Require Import Base.Expr Base.MiniF Base.MiniFFacts models.M_C41 proofs.P_C41_base.
From LV Require Import models.M_C30.
Import ListNotations.

(* ------------------------------------------------------------------------------------------ *)
(** * small helpers *)

Lemma omap_some {A B} (f : A -> B) o y : option_map f o = Some y -> exists x, o = Some x /\ y = f x.
Proof. destruct o; cbn; [intros H; inversion H; eauto | discriminate]. Qed.

(** occurrences in a range *)
Definition uses_range (r : range3) : list use :=
  match r with (lo, hi, st) => uses_oe lo ++ uses_oe hi ++ uses_oe st end.

(** occurrences in a QUALIFIED section expression: every reference counts with its number of subscripts *)
Fixpoint uses_qvexpr (e : vexpr) : list use :=
  match e with
  | VScal e => uses_e e
  | VRef a idx => (a, UArr (List.length idx)) :: flat_map uses_vindex idx
  | VSum _ cs | VProd _ cs => flat_map uses_qvexpr cs
  | VQuot _ n d => uses_qvexpr n ++ uses_qvexpr d
  | VCall f cs => (if is_intr f then [] else [(f, UArr (List.length cs))]) ++ flat_map uses_qvexpr cs
  end.

Lemma qualify_zip_length idx sh : List.length (qualify_zip idx sh) = Nat.min (List.length idx) (List.length sh).
Proof.
  revert sh. induction idx as [|d r IH]; intros [|s q]; cbn; try reflexivity. rewrite IH. reflexivity.
Qed.

(** induction over section statements (WHERE bodies are flat lists of assignments: nothing is needed there) *)
Section vstmt_ind'.
  Variable P : vstmt -> Prop.
  Hypothesis HP : forall s, P (VPlain s).
  Hypothesis HA : forall a i r, P (VAssign a i r).
  Hypothesis HD : forall v lo hi st b, Forall P b -> P (VDo v lo hi st b).
  Hypothesis HI : forall c t e, Forall P t -> Forall P e -> P (VIf c t e).
  Hypothesis HW : forall c b e, P (VWhere c b e).
  Fixpoint vstmt_ind' (s : vstmt) : P s :=
    let fix go (l : list vstmt) : Forall P l :=
      match l with [] => Forall_nil P | x :: r => Forall_cons x (vstmt_ind' x) (go r) end in
    match s with
    | VPlain s => HP s
    | VAssign a i r => HA a i r
    | VDo v lo hi st b => HD v lo hi st b (go b)
    | VIf c t e => HI c t e (go t) (go e)
    | VWhere c b e => HW c b e
    end.
End vstmt_ind'.

Lemma resolve_go_body lm ds l :
  (fix go (l : list vstmt) : option (list stmt) :=
     match l with
     | [] => Some []
     | x :: r => obind (resolve_stmt lm ds x) (fun a => obind (go r) (fun b => Some (a ++ b)))
     end) l = resolve_body lm ds l.
Proof. induction l as [|x r IH]; [reflexivity|]. cbn [resolve_body]. rewrite <- IH. reflexivity. Qed.

Lemma resolve_stmt_do lm ds v lo hi st b :
  resolve_stmt lm ds (VDo v lo hi st b) = option_map (fun b' => [SDo v lo hi st b']) (resolve_body lm ds b).
Proof. rewrite <- resolve_go_body. reflexivity. Qed.

Lemma resolve_stmt_if lm ds c t e :
  resolve_stmt lm ds (VIf c t e)
  = obind (resolve_body lm ds t) (fun t' => obind (resolve_body lm ds e) (fun e' => Some [SIf c t' e'])).
Proof. rewrite <- !resolve_go_body. reflexivity. Qed.

Lemma lookup_decl_in ds a sh : lookup_decl ds a = Some sh -> In (a, sh) ds.
Proof.
  induction ds as [|[b s] r IH]; cbn; [discriminate|].
  destruct (String.eqb b a) eqn:E.
  - apply String.eqb_eq in E. subst. intros H. inversion H. left. reflexivity.
  - intros H. right. apply IH. exact H.
Qed.

(* ------------------------------------------------------------------------------------------ *)
(** * the generic argument: [R0] = "resolves before", [R] = "resolves after" *)

Section Gen.
  Variables (ds : decls) (lm : loop_map) (R0 R : use -> Prop) (ivs : list string).
  Hypothesis H01 : forall g, R0 g -> R g.
  Hypothesis Hiv : forall x, In x ivs -> R (x, UScal) /\ R (x, UAny).
  Hypothesis Hsh : forall a sh, lookup_decl ds a = Some sh ->
                                Forall (fun s => Forall R (uses_es (dshape_exprs s))) sh.
  Hypothesis Hlen : forall a sh n, lookup_decl ds a = Some sh -> sh <> [] -> R0 (a, UArr n) -> n = List.length sh.
  Hypothesis Hbare : forall a sh, lookup_decl ds a = Some sh -> sh <> [] -> R (a, UArr (List.length sh)).

  Definition GI (d : vindex) : Prop := Forall R (uses_vindex d).
  Definition GR (r : range3) : Prop := Forall R (uses_range r).
  Definition GP (p : string * range3) : Prop := R (fst p, UScal) /\ R (fst p, UAny) /\ GR (snd p).

  Lemma Forall_R01 l : Forall R0 l -> Forall R l.
  Proof. apply Forall_impl. exact H01. Qed.

  Lemma ranges_good idx : Forall GI idx -> Forall GR (ranges_of idx).
  Proof.
    induction idx as [|[e|lo hi st] r IH]; cbn; intros H; [constructor| |]; inversion H; subst; auto.
  Qed.

  Lemma shape_range_good s : Forall R (uses_es (dshape_exprs s)) -> GI (shape_range s).
  Proof. destruct s; unfold GI; cbn; intros H; exact H. Qed.

  Lemma qualify_zip_good idx : forall sh,
    Forall GI idx -> Forall (fun s => Forall R (uses_es (dshape_exprs s))) sh -> Forall GI (qualify_zip idx sh).
  Proof.
    induction idx as [|d r IH]; intros [|s q] Hi Hs; cbn; try constructor.
    - inversion Hi; subst. inversion Hs; subst. destruct (is_colon d); [apply shape_range_good; assumption | assumption].
    - inversion Hi; subst. inversion Hs; subst. apply IH; assumption.
  Qed.

  Lemma colons_good {A} (l : list A) : Forall GI (map (fun _ => IRange None None None) l).
  Proof. induction l; cbn; constructor; [constructor | assumption]. Qed.

  Lemma qualify_idx_good a idx : Forall GI idx -> Forall GI (qualify_idx ds a idx).
  Proof.
    intros H. unfold qualify_idx. destruct (lookup_decl ds a) as [[|s sh]|] eqn:E; try exact H.
    apply qualify_zip_good; [|apply (Hsh a); exact E].
    destruct idx; [apply colons_good | exact H].
  Qed.

  Lemma qualify_idx_len a idx :
    shaped ds a idx = true -> R0 (a, ref_usage idx) -> R (a, UArr (List.length (qualify_idx ds a idx))).
  Proof.
    unfold qualify_idx, shaped. destruct (lookup_decl ds a) as [[|s sh]|] eqn:E.
    - destruct idx; [discriminate|]. intros _ H. apply H01. exact H.
    - intros _ H.
      assert (L : List.length (qualify_zip match idx with [] => map (fun _ => IRange None None None) (s :: sh) | _ :: _ => idx end (s :: sh))
                  = List.length (s :: sh)).
      { rewrite qualify_zip_length. destruct idx as [|d r].
        - rewrite map_length. apply Nat.min_id.
        - cbn [ref_usage] in H. apply (Hlen a (s :: sh)) in H; [|exact E|discriminate]. rewrite H. apply Nat.min_id. }
      rewrite L. apply Hbare; [exact E | discriminate].
    - destruct idx; [discriminate|]. intros _ H. apply H01. exact H.
  Qed.

  Lemma idx_good_of_R0 idx : Forall R0 (flat_map uses_vindex idx) -> Forall GI idx.
  Proof. intros H. apply Forall_R01 in H. apply Forall_flat_map in H. exact H. Qed.

  Lemma lhs_subst_good : forall idx ivs0 li,
    lhs_subst idx ivs0 = Some li -> Forall GI idx -> (forall x, In x ivs0 -> R (x, UAny)) ->
    List.length li = List.length idx /\ Forall R (uses_es li).
  Proof.
    induction idx as [|[e|lo hi st] r IH]; intros ivs0 li; cbn.
    - destruct ivs0; [|discriminate]. intros H _ _. inversion H. split; [reflexivity | constructor].
    - intros H Hi Hv. apply omap_some in H. destruct H as [l [E ->]]. inversion Hi; subst.
      destruct (IH _ _ E H2 Hv) as [A B]. split; [cbn; rewrite A; reflexivity|].
      unfold uses_es in *. cbn. apply Forall_app. split; assumption.
    - destruct ivs0 as [|iv ivs']; [discriminate|]. intros H Hi Hv. apply omap_some in H. destruct H as [l [E ->]].
      inversion Hi; subst. destruct (IH _ _ E H2 (fun x Hx => Hv x (or_intror Hx))) as [A B].
      split; [cbn; rewrite A; reflexivity|].
      unfold uses_es in *. cbn. constructor; [apply Hv; left; reflexivity | assumption].
  Qed.

  Lemma scalars_of_good : forall idx es,
    scalars_of idx = Some es -> Forall GI idx -> List.length es = List.length idx /\ Forall R (uses_es es).
  Proof.
    induction idx as [|[e|lo hi st] r IH]; intros es; cbn.
    - intros H _. inversion H. split; [reflexivity | constructor].
    - intros H Hi. apply omap_some in H. destruct H as [l [E ->]]. inversion Hi; subst.
      destruct (IH _ E H2) as [A B]. split; [cbn; rewrite A; reflexivity|].
      unfold uses_es in *. cbn. apply Forall_app. split; assumption.
    - discriminate.
  Qed.

  Lemma rhs_index_good iv lr rr e :
    rhs_index iv lr rr = Some e -> R (iv, UAny) -> GR lr -> GR rr -> Forall R (uses_e e).
  Proof.
    destruct lr as [[lo_l hi_l] st_l]. destruct rr as [[lo_r hi_r] st_r]. unfold rhs_index.
    intros H Hv Hl Hr.
    destruct (range3_eqb (lo_l, hi_l, st_l) (lo_r, hi_r, st_r) || oexpr_eqb lo_l lo_r).
    - inversion H. cbn. constructor; [exact Hv | constructor].
    - destruct lo_l as [l|]; [|discriminate]. destruct lo_r as [r|]; [|discriminate]. inversion H.
      unfold GR in *. cbn in Hl, Hr. rewrite !Forall_app in Hl, Hr.
      cbn. constructor; [exact Hv|]. rewrite !Forall_app. repeat split; try constructor; tauto.
  Qed.

  Lemma rhs_subst_good : forall idx lrs es,
    rhs_subst idx lrs = Some es -> Forall GI idx -> Forall GP lrs ->
    List.length es = List.length idx /\ Forall R (uses_es es).
  Proof.
    induction idx as [|[e|lo hi st] r IH]; intros lrs es; cbn.
    - destruct lrs; [|discriminate]. intros H _ _. inversion H. split; [reflexivity | constructor].
    - intros H Hi Hv. apply omap_some in H. destruct H as [l [E ->]]. inversion Hi; subst.
      destruct (IH _ _ E H2 Hv) as [A B]. split; [cbn; rewrite A; reflexivity|].
      unfold uses_es in *. cbn. apply Forall_app. split; assumption.
    - destruct lrs as [|[iv lr] lrs']; [discriminate|]. intros H Hi Hv.
      apply obind_some in H. destruct H as [x [Ex H]]. apply omap_some in H. destruct H as [l [E ->]].
      inversion Hi; subst. inversion Hv; subst. destruct H3 as [_ [Hany Hlr]]. cbn in Hany, Hlr.
      destruct (IH _ _ E H2 H4) as [A B]. split; [cbn; rewrite A; reflexivity|].
      unfold uses_es in *. cbn. apply Forall_app. split; [|assumption].
      apply (rhs_index_good _ _ _ _ Ex Hany Hlr). exact H1.
  Qed.

  (** the [go] of [tr_vexpr] *)
  Lemma tr_go_good lrs cs : forall rs,
    Forall (fun e => forall r, tr_vexpr lrs e = Some r -> Forall R (uses_qvexpr e) -> Forall R (uses_e r)) cs ->
    (fix go (l : list vexpr) : option (list expr) :=
       match l with
       | [] => Some []
       | x :: r => obind (tr_vexpr lrs x) (fun y => obind (go r) (fun ys => Some (y :: ys)))
       end) cs = Some rs ->
    Forall R (flat_map uses_qvexpr cs) ->
    List.length rs = List.length cs /\ Forall R (flat_map uses_e rs).
  Proof.
    induction cs as [|c cs IH]; intros rs HF E Hg.
    - inversion E. split; [reflexivity | constructor].
    - apply obind_some in E. destruct E as [y [E1 E]]. apply obind_some in E. destruct E as [ys [E2 E]].
      inversion E; subst. inversion HF; subst. cbn in Hg. apply Forall_app in Hg. destruct Hg as [Hg1 Hg2].
      destruct (IH _ H2 E2 Hg2) as [A B]. split; [cbn; rewrite A; reflexivity|].
      cbn. apply Forall_app. split; [apply H1; assumption | assumption].
  Qed.

  Lemma tr_vexpr_good lrs : Forall GP lrs ->
    forall e r, tr_vexpr lrs e = Some r -> Forall R (uses_qvexpr e) -> Forall R (uses_e r).
  Proof.
    intros HL. induction e as [e|a idx|p cs IH|p cs IH|p n d IHn IHd|f cs IH] using vexpr_ind'; intros r E Hg.
    - cbn in E. inversion E; subst. exact Hg.
    - cbn in E, Hg. inversion Hg; subst. apply Forall_flat_map in H2.
      destruct (ranges_of idx).
      + apply omap_some in E. destruct E as [es [E ->]]. destruct (scalars_of_good _ _ E H2) as [A B].
        cbn. apply Forall_app. split; [|exact B]. destruct (is_intr a); [constructor|]. rewrite A. constructor; [exact H1 | constructor].
      + apply omap_some in E. destruct E as [es [E ->]]. destruct (rhs_subst_good _ _ _ E H2 HL) as [A B].
        cbn. apply Forall_app. split; [|exact B]. destruct (is_intr a); [constructor|]. rewrite A. constructor; [exact H1 | constructor].
    - cbn in E. apply omap_some in E. destruct E as [rs [E ->]]. cbn in Hg.
      destruct (tr_go_good lrs cs rs IH E Hg) as [_ B]. exact B.
    - cbn in E. apply omap_some in E. destruct E as [rs [E ->]]. cbn in Hg.
      destruct (tr_go_good lrs cs rs IH E Hg) as [_ B]. exact B.
    - cbn in E. apply obind_some in E. destruct E as [x [E1 E]]. apply obind_some in E. destruct E as [y [E2 E]].
      inversion E; subst. cbn in Hg. apply Forall_app in Hg. destruct Hg as [Hg1 Hg2].
      cbn. apply Forall_app. split; [apply IHn | apply IHd]; assumption.
    - cbn in E. apply omap_some in E. destruct E as [rs [E ->]]. cbn in Hg. apply Forall_app in Hg. destruct Hg as [Hg1 Hg2].
      destruct (tr_go_good lrs cs rs IH E Hg2) as [A B].
      cbn. apply Forall_app. split; [|exact B]. rewrite A. exact Hg1.
  Qed.


  (** ** qualification *)

  Lemma qualify_list_good cs :
    Forall (fun e => all_refs_vexpr (shaped ds) e = true -> Forall R0 (uses_vexpr e) ->
                     Forall R (uses_qvexpr (qualify_vexpr ds e))) cs ->
    forallb (all_refs_vexpr (shaped ds)) cs = true -> Forall R0 (flat_map uses_vexpr cs) ->
    Forall R (flat_map uses_qvexpr (map (qualify_vexpr ds) cs)).
  Proof.
    induction cs as [|c cs IH]; intros HF Hb Hg; cbn; [constructor|].
    inversion HF; subst. cbn in Hb, Hg. apply andb_true_iff in Hb. destruct Hb as [Hb1 Hb2].
    apply Forall_app in Hg. destruct Hg as [Hg1 Hg2].
    apply Forall_app. split; [apply H1; assumption | apply IH; assumption].
  Qed.

  Lemma qualify_vexpr_good e :
    all_refs_vexpr (shaped ds) e = true -> Forall R0 (uses_vexpr e) -> Forall R (uses_qvexpr (qualify_vexpr ds e)).
  Proof.
    induction e as [e|a idx|p cs IH|p cs IH|p n d IHn IHd|f cs IH] using vexpr_ind'; cbn; intros Hb Hg.
    - apply Forall_R01; exact Hg.
    - inversion Hg; subst. constructor; [apply qualify_idx_len; assumption|].
      apply Forall_flat_map. apply qualify_idx_good. apply idx_good_of_R0. assumption.
    - apply qualify_list_good; assumption.
    - apply qualify_list_good; assumption.
    - apply andb_true_iff in Hb. destruct Hb as [Hb1 Hb2]. apply Forall_app in Hg. destruct Hg as [Hg1 Hg2].
      apply Forall_app. split; [apply IHn | apply IHd]; assumption.
    - apply Forall_app in Hg. destruct Hg as [G1 G2]. apply Forall_app.
      split; [rewrite map_length; apply Forall_R01; exact G1 | apply qualify_list_good; assumption].
  Qed.

  (** ** one assignment *)

  Lemma combine_good (ivs0 : list string) (rs : list range3) :
    incl ivs0 ivs -> Forall GR rs -> Forall GP (combine ivs0 rs).
  Proof.
    intros Hv Hr. apply Forall_forall. intros [iv r] Hp. unfold GP. cbn.
    pose proof (in_combine_l _ _ _ _ Hp) as A. pose proof (in_combine_r _ _ _ _ Hp) as B.
    destruct (Hiv iv (Hv iv A)) as [S1 S2]. rewrite Forall_forall in Hr. repeat split; auto.
  Qed.

  Lemma wrap_loops_good : forall lrs body l,
    wrap_loops lrs body = Some l -> Forall GP lrs -> Forall R (uses_stmts body) -> Forall R (uses_stmts l).
  Proof.
    induction lrs as [|[iv [[lo hi] st]] rest IH]; intros body l; cbn.
    - intros H _ Hb. inversion H; subst. exact Hb.
    - destruct lo as [lo|]; [|discriminate]. destruct hi as [hi|]; [|discriminate].
      intros E HG Hb. inversion HG; subst. apply (IH _ _ E); [assumption|].
      destruct H1 as [Hs [_ Hr]]. cbn in Hs, Hr. unfold GR in Hr. cbn in Hr.
      unfold uses_stmts in *. cbn. rewrite app_nil_r. constructor; [exact Hs|].
      rewrite !Forall_app in *. tauto.
  Qed.

  Lemma resolve_core_good a idx rhs st lrs :
    resolve_core lm ds a idx rhs = Some (st, lrs) ->
    shaped ds a idx = true -> all_refs_vexpr (shaped ds) rhs = true ->
    R0 (a, ref_usage idx) -> Forall R0 (flat_map uses_vindex idx) -> Forall R0 (uses_vexpr rhs) ->
    incl (core_ivars lm ds a idx) ivs ->
    Forall R (uses_stmt st) /\ Forall GP lrs.
  Proof.
    unfold resolve_core, core_ivars. intros E Hs Hr Ha Hi Hrhs Hinc.
    apply obind_some in E. destruct E as [li [E1 E]]. apply obind_some in E. destruct E as [r [E2 E]].
    inversion E; subst. clear E.
    assert (Gq : Forall GI (qualify_idx ds a idx)) by (apply qualify_idx_good, idx_good_of_R0; exact Hi).
    assert (GL : Forall GP (combine (name_ranges lm ("i_" ++ a) 0 (ranges_of (qualify_idx ds a idx)) [])
                                    (ranges_of (qualify_idx ds a idx)))).
    { apply combine_good; [exact Hinc | apply ranges_good; exact Gq]. }
    destruct (lhs_subst_good _ _ _ E1 Gq) as [A B].
    { intros x Hx. apply Hiv. apply Hinc. exact Hx. }
    split; [|exact GL].
    cbn. constructor.
    - rewrite A. apply qualify_idx_len; assumption.
    - apply Forall_app. split; [exact B|]. apply (tr_vexpr_good _ GL _ _ E2). apply qualify_vexpr_good; assumption.
  Qed.

  (** ** WHERE *)

  Definition GM (m : list (string * range3)) : Prop := Forall (fun p => GR (snd p)) m.

  Lemma dict_set_keys m k r x : In x (map fst (dict_set m k r)) <-> In x (map fst m) \/ x = k.
  Proof.
    induction m as [|[k' r'] rest IH]; cbn.
    - split; [intros [A|[]]; right; symmetry; exact A | intros [[]|A]; left; symmetry; exact A].
    - destruct (String.eqb k' k) eqn:E; cbn.
      + apply String.eqb_eq in E. subst. split; [tauto | intros [A|A]; [exact A | left; symmetry; exact A]].
      + rewrite IH. tauto.
  Qed.

  Lemma dict_set_GM m k r : GM m -> GR r -> GM (dict_set m k r).
  Proof.
    unfold GM. induction m as [|[k' r'] rest IH]; cbn; intros Hm Hr.
    - constructor; [exact Hr | constructor].
    - inversion Hm; subst. destruct (String.eqb k' k); constructor; auto.
  Qed.

  Lemma dict_update_keys upd : forall m x,
    In x (map fst (dict_update m upd)) <-> In x (map fst m) \/ In x (map fst upd).
  Proof.
    unfold dict_update. induction upd as [|[k r] rest IH]; intros m x; cbn; [tauto|].
    rewrite IH, dict_set_keys. split; intros H.
    - destruct H as [[A|A]|A]; [tauto | subst; tauto | tauto].
    - destruct H as [A|[A|A]]; [tauto | subst; tauto | tauto].
  Qed.

  Lemma dict_update_GM upd : forall m, GM m -> GM upd -> GM (dict_update m upd).
  Proof.
    unfold dict_update. induction upd as [|[k r] rest IH]; intros m Hm Hu; cbn; [exact Hm|].
    inversion Hu; subst. apply IH; [apply dict_set_GM; assumption | assumption].
  Qed.

  Lemma where_map_good : forall idx i used es m,
    where_map lm i idx used = (es, m) -> Forall GI idx ->
    List.length es = List.length idx /\ GM m /\ (incl (map fst m) ivs -> Forall R (uses_es es)).
  Proof.
    induction idx as [|[e|lo hi st] r IH]; intros i used es m; cbn.
    - intros H _. inversion H. split; [reflexivity|]. split; [constructor | intros _; constructor].
    - destruct (where_map lm (S i) r used) as [es' m'] eqn:W. intros H Hi. inversion H; subst. inversion Hi; subst.
      destruct (IH _ _ _ _ W H3) as [A [B C]]. split; [cbn; rewrite A; reflexivity|]. split; [exact B|].
      intros Hinc. unfold uses_es in *. cbn. apply Forall_app. split; [exact H2 | apply C; exact Hinc].
    - match goal with |- context [where_map lm (S i) r (?n :: used)] => set (nm := n) end.
      destruct (where_map lm (S i) r (nm :: used)) as [es' m'] eqn:W. intros H Hi. inversion H; subst. inversion Hi; subst.
      destruct (IH _ _ _ _ W H3) as [A [B C]]. split; [cbn; rewrite A; reflexivity|].
      split; [constructor; [exact H2 | exact B]|].
      intros Hinc. cbn in Hinc. unfold uses_es in *. cbn. constructor.
      + apply Hiv. apply Hinc. left. reflexivity.
      + apply C. intros x Hx. apply Hinc. right. exact Hx.
  Qed.

  Definition where_goal (e : vexpr) : Prop := forall m x m',
    where_vexpr lm e m = Some (x, m') -> Forall R (uses_qvexpr e) -> GM m ->
    incl (map fst m) (map fst m') /\ GM m' /\ (incl (map fst m') ivs -> Forall R (uses_e x)).

  Lemma where_go_good cs : Forall where_goal cs -> forall m xs m',
    (fix go (l : list vexpr) (m : list (string * range3)) : option (list expr * list (string * range3)) :=
       match l with
       | [] => Some ([], m)
       | x :: r => obind (where_vexpr lm x m) (fun q => obind (go r (snd q)) (fun qs => Some (fst q :: fst qs, snd qs)))
       end) cs m = Some (xs, m') ->
    Forall R (flat_map uses_qvexpr cs) -> GM m ->
    incl (map fst m) (map fst m') /\ GM m' /\ List.length xs = List.length cs
    /\ (incl (map fst m') ivs -> Forall R (flat_map uses_e xs)).
  Proof.
    induction cs as [|c cs IH]; intros HF m xs m' E Hg Hm.
    - inversion E; subst. split; [apply incl_refl|]. split; [exact Hm|]. split; [reflexivity | intros _; constructor].
    - apply obind_some in E. destruct E as [[y m1] [E1 E]]. apply obind_some in E. destruct E as [[ys m2] [E2 E]].
      cbn in E, E2. inversion E; subst. inversion HF; subst. cbn in Hg. apply Forall_app in Hg. destruct Hg as [Hg1 Hg2].
      destruct (H1 _ _ _ E1 Hg1 Hm) as [A1 [B1 C1]].
      destruct (IH H2 _ _ _ E2 Hg2 B1) as [A2 [B2 [L2 C2]]].
      split; [eapply incl_tran; eassumption|]. split; [exact B2|]. split; [cbn; rewrite L2; reflexivity|].
      intros Hinc. cbn. apply Forall_app. split; [apply C1; eapply incl_tran; eassumption | apply C2; exact Hinc].
  Qed.

  Lemma where_vexpr_good e : where_goal e.
  Proof.
    induction e as [e|a idx|p cs IH|p cs IH|p n d IHn IHd|f cs IH] using vexpr_ind'; intros m x m' E Hg Hm.
    - cbn in E. inversion E; subst. split; [apply incl_refl|]. split; [exact Hm | intros _; exact Hg].
    - cbn in E, Hg. inversion Hg; subst. apply Forall_flat_map in H2.
      destruct (ranges_of idx).
      + apply omap_some in E. destruct E as [es [E Ex]]. inversion Ex; subst.
        destruct (scalars_of_good _ _ E H2) as [A B].
        split; [apply incl_refl|]. split; [exact Hm|]. intros _.
        cbn. apply Forall_app. split; [|exact B]. destruct (is_intr a); [constructor|]. rewrite A. constructor; [exact H1 | constructor].
      + destruct (where_map lm 0 idx []) as [es mm] eqn:W. inversion E; subst.
        destruct (where_map_good _ _ _ _ _ W H2) as [A [B C]].
        split; [intros k Hk; apply dict_update_keys; left; exact Hk|].
        split; [apply dict_update_GM; assumption|]. intros Hinc.
        cbn. apply Forall_app. split.
        * destruct (is_intr a); [constructor|]. rewrite A. constructor; [exact H1 | constructor].
        * apply C. intros k Hk. apply Hinc. apply dict_update_keys. right. exact Hk.
    - cbn in E. apply omap_some in E. destruct E as [[xs m2] [E Ex]]. inversion Ex; subst. cbn in Hg.
      destruct (where_go_good cs IH _ _ _ E Hg Hm) as [A [B [_ C]]]. cbn. auto.
    - cbn in E. apply omap_some in E. destruct E as [[xs m2] [E Ex]]. inversion Ex; subst. cbn in Hg.
      destruct (where_go_good cs IH _ _ _ E Hg Hm) as [A [B [_ C]]]. cbn. auto.
    - cbn in E. apply obind_some in E. destruct E as [[y m1] [E1 E]]. apply obind_some in E. destruct E as [[z m2] [E2 E]].
      cbn in E, E2. inversion E; subst. cbn in Hg. apply Forall_app in Hg. destruct Hg as [Hg1 Hg2].
      destruct (IHn _ _ _ E1 Hg1 Hm) as [A1 [B1 C1]]. destruct (IHd _ _ _ E2 Hg2 B1) as [A2 [B2 C2]].
      split; [eapply incl_tran; eassumption|]. split; [exact B2|]. intros Hinc.
      cbn. apply Forall_app. split; [apply C1; eapply incl_tran; eassumption | apply C2; exact Hinc].
    - cbn in E. apply omap_some in E. destruct E as [[xs m2] [E Ex]]. inversion Ex; subst. cbn in Hg.
      apply Forall_app in Hg. destruct Hg as [Hg1 Hg2].
      destruct (where_go_good cs IH _ _ _ E Hg2 Hm) as [A [B [L C]]]. cbn.
      split; [exact A|]. split; [exact B|]. intros Hinc. apply Forall_app. split; [rewrite L; exact Hg1 | apply C; exact Hinc].
  Qed.

  Lemma GM_GP m : GM m -> incl (map fst m) ivs -> Forall GP m.
  Proof.
    unfold GM. intros Hm Hinc. apply Forall_forall. intros p Hp. rewrite Forall_forall in Hm.
    destruct (Hiv (fst p)) as [A B]; [apply Hinc; apply in_map; exact Hp|]. unfold GP. auto.
  Qed.

  Lemma where_body_good : forall b l,
    resolve_where_body lm ds b = Some l ->
    forallb (all_refs_stmt (shaped ds)) b = true -> Forall R0 (flat_map uses_vstmt b) ->
    incl (where_body_ivars lm ds b) ivs -> Forall R (uses_stmts l).
  Proof.
    induction b as [|s r IH]; intros l; cbn [resolve_where_body].
    - intros H _ _ _. inversion H. constructor.
    - destruct s as [s|a idx rhs|v lo hi st bb|c t e|c bb e]; try discriminate.
      intros E Hb Hg Hinc. apply obind_some in E. destruct E as [[st lrs] [E1 E]]. apply omap_some in E. destruct E as [l' [E2 ->]].
      cbn in Hb. apply andb_true_iff in Hb. destruct Hb as [Hb1 Hb2]. apply andb_true_iff in Hb1. destruct Hb1 as [Hs Hr].
      cbn in Hg. inversion Hg; subst. rewrite <- app_assoc in H2. rewrite !Forall_app in H2. destruct H2 as [Gi [Gr Gb]].
      unfold where_body_ivars in Hinc. cbn [flat_map] in Hinc. fold (where_body_ivars lm ds r) in Hinc.
      destruct (resolve_core_good _ _ _ _ _ E1 Hs Hr H1 Gi Gr) as [A _].
      { intros x Hx. apply Hinc. apply in_or_app. left. exact Hx. }
      unfold uses_stmts. cbn. apply Forall_app. split; [exact A|].
      apply IH; try assumption. intros x Hx. apply Hinc. apply in_or_app. right. exact Hx.
  Qed.

  Lemma resolve_where_good c b e l :
    resolve_where lm ds c b e = Some l ->
    all_refs_vexpr (shaped ds) (vc_l c) = true -> all_refs_vexpr (shaped ds) (vc_r c) = true ->
    forallb (all_refs_stmt (shaped ds)) b = true -> forallb (all_refs_stmt (shaped ds)) e = true ->
    Forall R0 (uses_vexpr (vc_l c)) -> Forall R0 (uses_vexpr (vc_r c)) ->
    Forall R0 (flat_map uses_vstmt b) -> Forall R0 (flat_map uses_vstmt e) ->
    incl (where_body_ivars lm ds b) ivs -> incl (where_body_ivars lm ds e) ivs -> incl (where_ivars lm ds c) ivs ->
    Forall R (uses_stmts l).
  Proof.
    unfold resolve_where, where_ivars, where_side. intros E Al Ar Ab Ae Gl Gr Gb Ge Ib Ie Ic.
    apply obind_some in E. destruct E as [[xl ml] [E1 E]]. apply obind_some in E. destruct E as [[xr mr] [E2 E]].
    apply obind_some in E. destruct E as [b' [E3 E]]. apply obind_some in E. destruct E as [e' [E4 E]].
    rewrite E1 in Ic. cbn [snd fst] in *. rewrite E2 in Ic. cbn [snd fst] in Ic.
    destruct (where_vexpr_good _ _ _ _ E1 (qualify_vexpr_good _ Al Gl) (Forall_nil _)) as [A1 [B1 C1]].
    destruct (where_vexpr_good _ _ _ _ E2 (qualify_vexpr_good _ Ar Gr) B1) as [A2 [B2 C2]].
    destruct mr as [|p mr]; [discriminate|].
    apply (wrap_loops_good _ _ _ E); [apply GM_GP; assumption|].
    unfold uses_stmts. cbn. rewrite app_nil_r. rewrite !Forall_app. repeat split.
    - apply C1. eapply incl_tran; eassumption.
    - apply C2. exact Ic.
    - apply (where_body_good _ _ E3); assumption.
    - apply (where_body_good _ _ E4); assumption.
  Qed.

  (** ** statements and bodies *)

  Definition stmt_goal (s : vstmt) : Prop := forall l,
    resolve_stmt lm ds s = Some l -> all_refs_stmt (shaped ds) s = true -> Forall R0 (uses_vstmt s) ->
    incl (stmt_ivars lm ds s) ivs -> Forall R (uses_stmts l).

  Lemma resolve_body_good b : Forall stmt_goal b -> forall l,
    resolve_body lm ds b = Some l -> forallb (all_refs_stmt (shaped ds)) b = true ->
    Forall R0 (flat_map uses_vstmt b) -> incl (flat_map (stmt_ivars lm ds) b) ivs -> Forall R (uses_stmts l).
  Proof.
    induction b as [|s r IH]; intros HF l E Hb Hg Hinc.
    - inversion E. constructor.
    - cbn [resolve_body] in E. apply obind_some in E. destruct E as [x [E1 E]]. apply obind_some in E. destruct E as [y [E2 E]].
      inversion E; subst. inversion HF; subst. cbn in Hb, Hg, Hinc.
      apply andb_true_iff in Hb. destruct Hb as [Hb1 Hb2]. apply Forall_app in Hg. destruct Hg as [Hg1 Hg2].
      unfold uses_stmts. rewrite flat_map_app. apply Forall_app. split.
      + apply (H1 _ E1 Hb1 Hg1). intros z Hz. apply Hinc. apply in_or_app. left. exact Hz.
      + apply (IH H2 _ E2 Hb2 Hg2). intros z Hz. apply Hinc. apply in_or_app. right. exact Hz.
  Qed.

  Lemma resolve_stmt_good s : stmt_goal s.
  Proof.
    induction s as [s|a idx rhs|v lo hi st b IH|c t e IHt IHe|c b e] using vstmt_ind'; intros l E Hb Hg Hinc.
    - cbn in E. inversion E; subst. unfold uses_stmts. cbn. rewrite app_nil_r. apply Forall_R01. exact Hg.
    - change (resolve_vec lm ds a idx rhs = Some l) in E. unfold resolve_vec in E.
      apply obind_some in E. destruct E as [[st lrs] [E1 E]]. cbn [fst snd] in E.
      cbn in Hb. apply andb_true_iff in Hb. destruct Hb as [Hs Hr].
      cbn in Hg. inversion Hg; subst. rewrite !Forall_app in H2. destruct H2 as [Gi Gr].
      cbn in Hinc.
      destruct (resolve_core_good _ _ _ _ _ E1 Hs Hr H1 Gi Gr Hinc) as [A B].
      apply (wrap_loops_good _ _ _ E B). unfold uses_stmts. cbn. rewrite app_nil_r. exact A.
    - rewrite resolve_stmt_do in E. apply omap_some in E. destruct E as [b' [E ->]].
      cbn in Hb, Hg, Hinc. inversion Hg; subst. rewrite !Forall_app in H2. destruct H2 as [Glo [Ghi [Gst Gb]]].
      unfold uses_stmts. cbn. rewrite app_nil_r. constructor; [apply H01; exact H1|].
      rewrite !Forall_app. repeat split; try (apply Forall_R01; assumption).
      apply (resolve_body_good b IH _ E Hb Gb Hinc).
    - rewrite resolve_stmt_if in E. apply obind_some in E. destruct E as [t' [E1 E]]. apply obind_some in E. destruct E as [e' [E2 E]].
      inversion E; subst. cbn in Hb, Hg, Hinc. apply andb_true_iff in Hb. destruct Hb as [Hb1 Hb2].
      rewrite !Forall_app in Hg. destruct Hg as [Gc [Gt Ge]].
      unfold uses_stmts. cbn. rewrite app_nil_r. rewrite !Forall_app. repeat split.
      + apply Forall_R01; assumption.
      + apply (resolve_body_good t IHt _ E1 Hb1 Gt). intros z Hz. apply Hinc. apply in_or_app. left. exact Hz.
      + apply (resolve_body_good e IHe _ E2 Hb2 Ge). intros z Hz. apply Hinc. apply in_or_app. right. exact Hz.
    - change (resolve_where lm ds c b e = Some l) in E.
      cbn in Hb, Hg, Hinc. rewrite !andb_true_iff in Hb. destruct Hb as [[[Al Ar] Ab] Ae].
      rewrite !Forall_app in Hg. destruct Hg as [Gl [Gr [Gb Ge]]].
      apply (resolve_where_good _ _ _ _ E Al Ar Ab Ae Gl Gr Gb Ge).
      + intros z Hz. apply Hinc. apply in_or_app. left. exact Hz.
      + intros z Hz. apply Hinc. apply in_or_app. right. apply in_or_app. left. exact Hz.
      + intros z Hz. apply Hinc. apply in_or_app. right. apply in_or_app. right. exact Hz.
  Qed.

  Lemma resolve_body_good' b l :
    resolve_body lm ds b = Some l -> forallb (all_refs_stmt (shaped ds)) b = true ->
    Forall R0 (flat_map uses_vstmt b) -> incl (flat_map (stmt_ivars lm ds) b) ivs -> Forall R (uses_stmts l).
  Proof. apply resolve_body_good. apply Forall_forall. intros s _. apply resolve_stmt_good. Qed.

End Gen.

(* ------------------------------------------------------------------------------------------ *)
(** * the theorem *)

Lemma uses_shapes_in (ss : shapes) a sh s g :
  In (a, sh) ss -> In s sh -> In g (uses_es (dshape_exprs s)) -> In g (uses_shapes ss).
Proof.
  intros H1 H2 H3. unfold uses_shapes. apply in_flat_map. exists (a, sh). split; [exact H1|]. cbn.
  unfold uses_es, shape_exprs in *. apply in_flat_map in H3. destruct H3 as [e [He Hg]].
  apply in_flat_map. exists e. split; [|exact Hg]. apply in_flat_map. exists s. split; assumption.
Qed.

Theorem T_vec_preserves_well_scoped (u : unit (list M_C30.vstmt)) (u' : unit (list stmt)) :
  well_scoped uses_vstmts u ->
  vec_class u = true ->
  T_vec u = Some u' ->
  well_scoped uses_stmts u'.
Proof.
  intros [Hn [Ha [Hb [Hs [Hi Hk]]]]] Hc HT.
  unfold vec_class in Hc. apply andb_true_iff in Hc. destruct Hc as [Hc1 Hc2].
  unfold ivars_scalar in Hc1. rewrite forallb_forall in Hc1.
  unfold T_vec in HT. destruct (resolve_prog (u_shapes u) (u_body u)) as [b'|] eqn:E; [|discriminate].
  (* on the class the symbol-based declaration test of the real setter is the name-based one *)
  rewrite add_scalars_raw_eq in HT.
  2:{ intros x k Hx Hin. specialize (Hc1 x Hx). unfold u_env in Hc1. rewrite klookup_app in Hc1.
      rewrite (klookup_nodup_in _ _ _ Hn Hin) in Hc1. destruct k; [reflexivity | discriminate]. }
  inversion HT; subst u'; clear HT.
  set (ivs := body_ivars (u_shapes u) (u_body u)) in *.
  set (env := u_env u) in *. set (env' := add_scalars (u_decls u) ivs ++ u_ext u).
  assert (K : forall x k, klookup env x = Some k -> klookup env' x = Some k).
  { intros x k H. unfold env'. rewrite add_scalars_env. pose proof H as H'. unfold env, u_env in H. rewrite klookup_app in H.
    destruct (klookup (u_decls u) x) as [k0|] eqn:D; [exact H|].
    destruct (mem x ivs) eqn:M; [|exact H].
    apply mem_In in M. specialize (Hc1 x M). rewrite H' in Hc1. destruct k; [reflexivity | discriminate]. }
  assert (KI : forall x, In x ivs -> klookup env' x = Some KScalar).
  { intros x M. unfold env'. rewrite add_scalars_env.
    pose proof M as M'. apply mem_In in M'. specialize (Hc1 x M). unfold env, u_env in Hc1. rewrite klookup_app in Hc1.
    destruct (klookup (u_decls u) x) as [k0|] eqn:D; [destruct k0; [reflexivity|discriminate] | rewrite M'; reflexivity]. }
  assert (K01 : forall g, resolves env g -> resolves env' g).
  { intros g [k [A B]]. exists k. split; [apply K; exact A | exact B]. }
  assert (KS : forall a sh, lookup_decl (u_shapes u) a = Some sh -> sh <> [] ->
                            klookup env a = Some (KArray (List.length sh))).
  { intros a sh L Hne. apply lookup_decl_in in L. rewrite Forall_forall in Hk. specialize (Hk _ L).
    unfold shape_ok in Hk. cbn [fst snd] in Hk. destruct sh as [|s q]; [contradiction|].
    destruct (klookup env a) as [k|] eqn:D; [|discriminate].
    destruct k as [|m]; cbn in Hk; [discriminate|]. apply Nat.eqb_eq in Hk. rewrite Hk. reflexivity. }
  unfold well_scoped, u_env. cbn [u_args u_decls u_shapes u_ext u_inner u_body]. fold env'.
  split; [apply add_scalars_nodup; exact Hn|].
  split; [intros a Ha'; apply add_scalars_names; left; apply Ha; exact Ha'|].
  split.
  { unfold resolve_prog in E.
    apply (resolve_body_good' (u_shapes u) (loops_of_body (u_body u)) (resolves env) (resolves env') ivs K01) with (b := u_body u).
    - intros x Hx. pose proof (KI x Hx) as Q. split; exists KScalar; (split; [exact Q | reflexivity]).
    - intros a sh L. apply Forall_forall. intros s Hs'. apply Forall_forall. intros g Hg. apply K01.
      rewrite Forall_forall in Hs. apply Hs. apply (uses_shapes_in _ a sh s); [apply lookup_decl_in; exact L | exact Hs' | exact Hg].
    - intros a sh n L Hne [k [A B]]. cbn [fst snd] in A, B. rewrite (KS a sh L Hne) in A. inversion A; subst k.
      cbn in B. apply Nat.eqb_eq in B. exact B.
    - intros a sh L Hne. exists (KArray (List.length sh)). split; [apply K; apply KS; assumption | cbn; apply Nat.eqb_refl].
    - exact E.
    - exact Hc2.
    - exact Hb.
    - apply incl_refl. }
  split; [eapply Forall_impl; [exact K01 | exact Hs]|].
  split; [eapply Forall_impl; [exact K01 | exact Hi]|].
  eapply Forall_impl; [|exact Hk]. intros p Hp. apply (shape_ok_keep env); [exact Hp | intros k; apply K].
Qed.

(* ------------------------------------------------------------------------------------------ *)
(** * the class is inhabited; outside of it the statement is false *)

Local Open Scope string_scope.

(** [a(1:n) = 0] with [a(n)] declared: the loop variable [i_a_0] is added *)
Definition vec_ex : unit (list vstmt) :=
  mkUnit ["a"; "n"] [("a", KArray 1); ("n", KScalar)] [("a", [DSize (EVar "n")])] [] []
         [VAssign "a" [IRange (Some (EInt 1)) (Some (EVar "n")) None] (VScal (EInt 0))].

Example T_vec_class_inhabited :
  exists u u', well_scoped uses_vstmts u /\ vec_class u = true /\ T_vec u = Some u' /\ u_decls u' <> u_decls u.
Proof.
  exists vec_ex. destruct (T_vec vec_ex) as [u'|] eqn:E; [|vm_compute in E; discriminate]. exists u'.
  split; [apply well_scopedb_spec; vm_compute; reflexivity|].
  split; [vm_compute; reflexivity|].
  split; [reflexivity|].
  vm_compute in E. inversion E; subst u'. cbn. discriminate.
Qed.

(** the same statement in a unit that declares an ARRAY named [i_a_0]: no declaration is added, the
    generated DO variable is an array *)
Definition vec_clash : unit (list vstmt) :=
  mkUnit ["a"; "n"] [("a", KArray 1); ("n", KScalar); ("i_a_0", KArray 1)] [("a", [DSize (EVar "n")])] [] []
         [VAssign "a" [IRange (Some (EInt 1)) (Some (EVar "n")) None] (VScal (EInt 0))].

Theorem T_vec_array_clash_refuted :
  exists u u', well_scoped uses_vstmts u /\ T_vec u = Some u' /\ ~ well_scoped uses_stmts u'.
Proof.
  exists vec_clash. destruct (T_vec vec_clash) as [u'|] eqn:E; [|vm_compute in E; discriminate]. exists u'.
  split; [apply well_scopedb_spec; vm_compute; reflexivity|].
  split; [reflexivity|].
  vm_compute in E. inversion E; subst u'. intros H. apply well_scopedb_spec in H. vm_compute in H. discriminate.
Qed.

Print Assumptions T_vec_preserves_well_scoped.
