(** C02 — the round trip as a fixpoint: statement level from C01's reader, expression slots through any reader [r]
    whose per-slot behaviour is known (text preserved / tree preserved). *)
From Coq Require Import ZArith List Bool String Lia.
From LV Require Import Base.Expr Base.MiniF models.M_C06 models.M_C01 models.M_C02 proofs.P_C01.
Import ListNotations.
Open Scope Z_scope.

(** * boolean equalities decide equality *)
Lemma list_expr_eqb_eq cs :
  Forall (fun x => forall y, expr_eqb x y = true -> x = y) cs ->
  forall ds, list_expr_eqb cs ds = true -> cs = ds.
Proof.
  induction 1 as [|x r Hx Hr IH]; intros [|y q]; cbn; try discriminate; [reflexivity|].
  intros H. apply andb_true_iff in H. destruct H as [A B]. f_equal; [now apply Hx|now apply IH].
Qed.

Lemma bool_eqb_eq a b : Bool.eqb a b = true -> a = b.
Proof. destruct a, b; cbn; congruence. Qed.

Lemma expr_eqb_eq : forall a b, expr_eqb a b = true -> a = b.
Proof.
  induction a using expr_ind'; intros y; destruct y; try (cbn; discriminate).
  - cbn. intros E. apply Z.eqb_eq in E. now subst.
  - cbn. intros E. apply Z.eqb_eq in E. now subst.
  - cbn. intros E. apply String.eqb_eq in E. now subst.
  - cbn. intros E. apply bool_eqb_eq in E. now subst.
  - intros E. change (Bool.eqb p paren && list_expr_eqb cs cs0 = true) in E.
    apply andb_true_iff in E. destruct E as [A B]. apply bool_eqb_eq in A.
    apply (list_expr_eqb_eq cs H) in B. now subst.
  - intros E. change (Bool.eqb p paren && list_expr_eqb cs cs0 = true) in E.
    apply andb_true_iff in E. destruct E as [A B]. apply bool_eqb_eq in A.
    apply (list_expr_eqb_eq cs H) in B. now subst.
  - cbn. intros E. apply andb_true_iff in E. destruct E as [E C]. apply andb_true_iff in E. destruct E as [A B].
    apply bool_eqb_eq in A. apply IHa1 in B. apply IHa2 in C. now subst.
  - cbn. intros E. apply andb_true_iff in E. destruct E as [E C]. apply andb_true_iff in E. destruct E as [A B].
    apply bool_eqb_eq in A. apply IHa1 in B. apply IHa2 in C. now subst.
  - cbn. intros E. apply andb_true_iff in E. destruct E as [E C]. apply andb_true_iff in E. destruct E as [A B].
    apply IHa1 in B. apply IHa2 in C. subst. destruct op, op0; try discriminate; reflexivity.
  - intros E. change (list_expr_eqb cs cs0 = true) in E. apply (list_expr_eqb_eq cs H) in E. now subst.
  - intros E. change (list_expr_eqb cs cs0 = true) in E. apply (list_expr_eqb_eq cs H) in E. now subst.
  - cbn. intros E. apply IHa in E. now subst.
  - intros E. change (String.eqb f f0 && list_expr_eqb args args0 = true) in E.
    apply andb_true_iff in E. destruct E as [A B]. apply String.eqb_eq in A.
    apply (list_expr_eqb_eq args H) in B. now subst.
Qed.

Lemma token_eqb_eq a b : token_eqb a b = true -> a = b.
Proof.
  destruct a, b; cbn; try discriminate; try reflexivity.
  - intros E. apply Z.eqb_eq in E. now subst.
  - intros E. apply String.eqb_eq in E. now subst.
  - destruct op, op0; cbn; try discriminate; reflexivity.
Qed.

Lemma token_eqb_refl a : token_eqb a a = true.
Proof. destruct a; cbn; try reflexivity; [apply Z.eqb_refl|apply String.eqb_refl|destruct op; reflexivity]. Qed.

Lemma toks_eqb_eq : forall a b, toks_eqb a b = true -> a = b.
Proof.
  induction a as [|x r IH]; intros [|y q]; cbn; try discriminate; [reflexivity|].
  intros E. apply andb_true_iff in E. destruct E as [A B]. apply token_eqb_eq in A. apply IH in B. now subst.
Qed.

Lemma toks_eqb_refl a : toks_eqb a a = true.
Proof. induction a as [|x r IH]; [reflexivity|]. cbn. now rewrite token_eqb_refl, IH. Qed.

(** * what the per-slot verdicts mean *)
Lemma fix_with_spec r e : fix_with r e = true ->
  r e = Some (total r e) /\ print_f (total r e) PREC_NONE = print_f e PREC_NONE.
Proof.
  unfold fix_with, total. destruct (r e) as [e'|]; [|discriminate]. intros E. split; [reflexivity|now apply toks_eqb_eq].
Qed.

Lemma id_with_spec r e : id_with r e = true -> r e = Some e /\ total r e = e.
Proof.
  unfold id_with, total. destruct (r e) as [e'|]; [|discriminate]. intros E. apply expr_eqb_eq in E. now subst.
Qed.

Lemma id_with_fix r e : id_with r e = true -> fix_with r e = true.
Proof.
  intros H. destruct (id_with_spec r e H) as [E _]. unfold fix_with. rewrite E. apply toks_eqb_refl.
Qed.

(** * all slots of a line *)
Definition line_all (ok : expr -> bool) (l : line) : bool :=
  match l with
  | LSimple m => simple_all ok m
  | LDo _ lo hi st => ok lo && ok hi && ostep_all ok st
  | LWhile c | LIf c | LElseIf c => ok c
  | LIfInline c m => ok c && simple_all ok m
  | _ => true
  end.

Lemma lines_all (ok : expr -> bool) : forall s, slots_all ok s = true -> forall ei, forallb (line_all ok) (lines1 ei s) = true.
Proof.
  assert (L : forall l, Forall (fun s => slots_all ok s = true -> forall ei, forallb (line_all ok) (lines1 ei s) = true) l ->
              forallb (slots_all ok) l = true -> forallb (line_all ok) (lines_of l) = true).
  { induction 1 as [|a r Ha _ IH]; intros E; [reflexivity|]. cbn in E. apply andb_true_iff in E. destruct E.
    rewrite lines_of_cons, forallb_app. apply andb_true_iff. split; auto. }
  induction s as [m|v lo hi st b IHb|c b IHb|c t e fl IHt IHe|c m|x] using fstmt_ind'; cbn [slots_all]; intros H ei.
  - cbn. now rewrite H.
  - apply andb_true_iff in H. destruct H as [H Hb]. cbn [lines1]. fold (lines_of b).
    cbn [forallb line_all]. rewrite H. cbn [andb]. rewrite forallb_app, (L b IHb Hb). reflexivity.
  - apply andb_true_iff in H. destruct H as [H Hb]. cbn [lines1]. fold (lines_of b).
    cbn [forallb line_all]. rewrite H. cbn [andb]. rewrite forallb_app, (L b IHb Hb). reflexivity.
  - apply andb_true_iff in H. destruct H as [H He]. apply andb_true_iff in H. destruct H as [Hc Ht].
    rewrite lines1_if. cbn [forallb]. apply andb_true_iff. split; [destruct ei; exact Hc|].
    rewrite forallb_app, (L t IHt Ht). cbn [andb]. unfold else_part. destruct fl.
    + destruct e as [|s2 r]; [reflexivity|]. destruct r; [|reflexivity]. destruct s2; try reflexivity.
      inversion IHe; subst. cbn [forallb] in He. apply andb_true_iff in He. destruct He as [He _]. auto.
    + rewrite forallb_app. cbn [forallb andb]. rewrite andb_true_r. destruct e as [|a r]; [reflexivity|].
      cbn [forallb line_all]. change (forallb (line_all ok) (lines_of (a :: r)) = true). now apply L.
  - apply andb_true_iff in H. destruct H as [Hc Hm]. cbn. now rewrite Hc, Hm.
  - reflexivity.
Qed.

Lemma lines_all_list ok p : slots_all_list ok p = true -> forallb (line_all ok) (lines_of p) = true.
Proof.
  unfold slots_all_list. induction p as [|a r IH]; intros E; [reflexivity|]. cbn in E. apply andb_true_iff in E. destruct E.
  rewrite lines_of_cons, forallb_app. apply andb_true_iff. split; [now apply lines_all|auto].
Qed.

(** * re-reading a line whose slots are all read *)
Lemma omap_total (r : expr -> option expr) l :
  forallb (fun e => match r e with Some _ => true | None => false end) l = true -> omap r l = Some (map (total r) l).
Proof.
  induction l as [|x q IH]; intros E; [reflexivity|]. cbn in E. apply andb_true_iff in E. destruct E as [E1 E2].
  cbn [omap map]. rewrite (IH E2). destruct (r x) as [y|] eqn:Ex; [|discriminate].
  assert (T : total r x = y) by (unfold total; now rewrite Ex). now rewrite T.
Qed.

Definition reads (r : expr -> option expr) (e : expr) : bool := match r e with Some _ => true | None => false end.

Lemma reads_total r e : reads r e = true -> r e = Some (total r e).
Proof. unfold reads, total. destruct (r e); [reflexivity|discriminate]. Qed.

Lemma rr_simple_total r m : simple_all (reads r) m = true -> rr_simple r m = Some (map_simple (total r) m).
Proof.
  destruct m as [x e|a i e|f a]; cbn [simple_all rr_simple map_simple]; intros H.
  - now rewrite (reads_total r e H).
  - apply andb_true_iff in H. destruct H as [Hi He]. now rewrite (omap_total r i Hi), (reads_total r e He).
  - now rewrite (omap_total r a H).
Qed.

Lemma rr_line_total r l : line_all (reads r) l = true -> rr_line r l = Some (map_line (total r) l).
Proof.
  destruct l; cbn [line_all rr_line map_line]; intros H; try reflexivity.
  - now rewrite (rr_simple_total r m H).
  - apply andb_true_iff in H. destruct H as [H Hst]. apply andb_true_iff in H. destruct H as [Hlo Hhi].
    rewrite (reads_total r lo Hlo), (reads_total r hi Hhi). destruct st as [e|]; cbn in *; [|reflexivity].
    now rewrite (reads_total r e Hst).
  - now rewrite (reads_total r c H).
  - now rewrite (reads_total r c H).
  - now rewrite (reads_total r c H).
  - apply andb_true_iff in H. destruct H as [Hc Hm]. now rewrite (reads_total r c Hc), (rr_simple_total r m Hm).
Qed.

Lemma omap_lines r ls : forallb (line_all (reads r)) ls = true -> omap (rr_line r) ls = Some (map (map_line (total r)) ls).
Proof.
  induction ls as [|l q IH]; intros E; [reflexivity|]. cbn in E. apply andb_true_iff in E. destruct E as [E1 E2].
  cbn [omap map]. now rewrite (rr_line_total r l E1), (IH E2).
Qed.

Lemma slots_all_impl (ok ok' : expr -> bool) : (forall e, ok e = true -> ok' e = true) ->
  forall s, slots_all ok s = true -> slots_all ok' s = true.
Proof.
  intros Himp.
  assert (Lf : forall l, forallb ok l = true -> forallb ok' l = true).
  { induction l as [|x q IH]; cbn; [reflexivity|]. intros E. apply andb_true_iff in E. destruct E. apply andb_true_iff. auto. }
  assert (Ls : forall m, simple_all ok m = true -> simple_all ok' m = true).
  { destruct m; cbn; auto. intros E. apply andb_true_iff in E. destruct E. apply andb_true_iff. auto. }
  assert (L : forall l, Forall (fun s => slots_all ok s = true -> slots_all ok' s = true) l ->
              forallb (slots_all ok) l = true -> forallb (slots_all ok') l = true).
  { induction 1 as [|a r Ha _ IH]; intros E; [reflexivity|]. cbn in E. apply andb_true_iff in E. destruct E.
    cbn. apply andb_true_iff. auto. }
  induction s as [m|v lo hi st b IHb|c b IHb|c t e fl IHt IHe|c m|x] using fstmt_ind'; cbn [slots_all]; intros H; auto.
  - apply andb_true_iff in H. destruct H as [H Hb]. apply andb_true_iff in H. destruct H as [H Hst].
    apply andb_true_iff in H. destruct H as [Hlo Hhi].
    rewrite (Himp _ Hlo), (Himp _ Hhi), (L b IHb Hb). cbn [andb]. rewrite andb_true_r. destruct st; cbn in *; auto.
  - apply andb_true_iff in H. destruct H as [Hc Hb]. now rewrite (Himp _ Hc), (L b IHb Hb).
  - apply andb_true_iff in H. destruct H as [H He]. apply andb_true_iff in H. destruct H as [Hc Ht].
    now rewrite (Himp _ Hc), (L t IHt Ht), (L e IHe He).
  - apply andb_true_iff in H. destruct H as [Hc Hm]. now rewrite (Himp _ Hc), (Ls m Hm).
Qed.

Lemma slots_all_list_impl (ok ok' : expr -> bool) p : (forall e, ok e = true -> ok' e = true) ->
  slots_all_list ok p = true -> slots_all_list ok' p = true.
Proof.
  intros Himp. unfold slots_all_list. rewrite !forallb_forall. intros H s Hs. eapply slots_all_impl; eauto.
Qed.

(** * the printer is natural in the expression slots *)
Lemma lines1_map f : forall s ei, lines1 ei (map_exprs f s) = map (map_line f) (lines1 ei s).
Proof.
  assert (L : forall l, Forall (fun s => forall ei, lines1 ei (map_exprs f s) = map (map_line f) (lines1 ei s)) l ->
              lines_of (map (map_exprs f) l) = map (map_line f) (lines_of l)).
  { induction 1 as [|a r Ha _ IH]; [reflexivity|]. cbn [map]. rewrite !lines_of_cons, map_app, Ha, IH. reflexivity. }
  induction s as [m|v lo hi st b IHb|c b IHb|c t e fl IHt IHe|c m|x] using fstmt_ind'; intros ei; cbn [map_exprs]; try reflexivity.
  - cbn [lines1]. fold (lines_of b). fold (lines_of (map (map_exprs f) b)). cbn [map map_line]. now rewrite map_app, (L b IHb).
  - cbn [lines1]. fold (lines_of b). fold (lines_of (map (map_exprs f) b)). cbn [map map_line]. now rewrite map_app, (L b IHb).
  - rewrite !lines1_if. cbn [map]. f_equal; [destruct ei; reflexivity|]. rewrite map_app, (L t IHt). f_equal.
    unfold else_part. destruct fl.
    + destruct e as [|s2 r]; [reflexivity|]. destruct r; [|reflexivity]. cbn [map].
      inversion IHe; subst. destruct s2; try reflexivity.
      match goal with H : forall ei, lines1 ei (map_exprs f (FIf _ _ _ _)) = _ |- _ => exact (H true) end.
    + rewrite map_app. f_equal. destruct e as [|a r]; [reflexivity|].
      cbn [map]. f_equal. change (lines_of (map (map_exprs f) (a :: r)) = map (map_line f) (lines_of (a :: r))). now apply L.
Qed.

Lemma lines_of_map f p : lines_of (map (map_exprs f) p) = map (map_line f) (lines_of p).
Proof. induction p as [|a r IH]; [reflexivity|]. cbn [map]. now rewrite !lines_of_cons, map_app, lines1_map, IH. Qed.

Lemma wf_map f : forall s, wf (map_exprs f s) = wf s.
Proof.
  assert (L : forall l, Forall (fun s => wf (map_exprs f s) = wf s) l -> forallb wf (map (map_exprs f) l) = forallb wf l).
  { induction 1 as [|a r Ha _ IH]; [reflexivity|]. cbn [map forallb]. now rewrite Ha, IH. }
  induction s as [m|v lo hi st b IHb|c b IHb|c t e fl IHt IHe|c m|x] using fstmt_ind'; cbn [map_exprs wf]; auto.
  rewrite (L t IHt), (L e IHe). f_equal. destruct fl; [|reflexivity].
  destruct e as [|s2 r]; [reflexivity|]. destruct r; cbn [map]; destruct s2; reflexivity.
Qed.

Lemma wf_map_list f p : wf_list (map (map_exprs f) p) = wf_list p.
Proof. unfold wf_list. induction p as [|a r IH]; [reflexivity|]. cbn [map forallb]. now rewrite wf_map, IH. Qed.

(** fuel: the number of printed lines bounds the size *)
Lemma size_le_lines : forall s, wf s = true -> forall ei, (ssize s <= 2 * List.length (lines1 ei s))%nat.
Proof.
  assert (L : forall l, Forall (fun s => wf s = true -> forall ei, (ssize s <= 2 * List.length (lines1 ei s))%nat) l ->
              forallb wf l = true -> (lsize l <= 2 * List.length (lines_of l))%nat).
  { induction 1 as [|a r Ha _ IH]; intros E; [cbn; lia|]. cbn in E. apply andb_true_iff in E. destruct E as [E1 E2].
    rewrite lsize_cons, lines_of_cons, app_length. specialize (Ha E1 false). specialize (IH E2). lia. }
  induction s as [m|v lo hi st b IHb|c b IHb|c t e fl IHt IHe|c m|x] using fstmt_ind'; intros W ei; try (cbn; lia).
  - cbn [wf] in W. cbn [lines1 ssize]. fold (lines_of b). fold (lsize b). cbn [List.length]. rewrite app_length. cbn [List.length].
    specialize (L b IHb W). lia.
  - cbn [wf] in W. cbn [lines1 ssize]. fold (lines_of b). fold (lsize b). cbn [List.length]. rewrite app_length. cbn [List.length].
    specialize (L b IHb W). lia.
  - cbn [wf] in W. apply andb_true_iff in W. destruct W as [W Wsh]. apply andb_true_iff in W. destruct W as [Wt We].
    rewrite ssize_if, lines1_if. cbn [List.length]. rewrite app_length. pose proof (L t IHt Wt) as Ht.
    assert (He : (lsize e <= 2 * List.length (else_part e fl))%nat).
    { unfold else_part. destruct fl.
      - destruct e as [|s2 r]; try discriminate. destruct s2; try discriminate. destruct r; try discriminate.
        inversion IHe; subst. cbn [forallb] in We. apply andb_true_iff in We. destruct We as [We _].
        unfold lsize. cbn [fold_right]. match goal with H : wf _ = true -> _ |- _ => specialize (H We true) end. lia.
      - rewrite app_length. cbn [List.length]. destruct e as [|a r]; [cbn; lia|].
        cbn [List.length]. change (flat_map (lines1 false) (a :: r)) with (lines_of (a :: r)). specialize (L (a :: r) IHe We). lia. }
    lia.
Qed.

Lemma lsize_le_lines p : wf_list p = true -> (lsize p <= 2 * List.length (lines_of p))%nat.
Proof.
  unfold wf_list. induction p as [|a r IH]; intros E; [cbn; lia|]. cbn in E. apply andb_true_iff in E. destruct E as [E1 E2].
  rewrite lsize_cons, lines_of_cons, app_length. pose proof (size_le_lines a E1 false). specialize (IH E2). lia.
Qed.

(** * [norm] commutes with a reader that preserves the printed text of the steps *)
Lemma unit_step_total r e : fix_with r e = true -> unit_step (total r e) = unit_step e.
Proof. intros H. destruct (fix_with_spec r e H) as [_ E]. unfold unit_step. now rewrite E. Qed.

Lemma norm_map r : forall s, slots_all (fix_with r) s = true -> norm (map_exprs (total r) s) = map_exprs (total r) (norm s).
Proof.
  assert (L : forall l, Forall (fun s => slots_all (fix_with r) s = true -> norm (map_exprs (total r) s) = map_exprs (total r) (norm s)) l ->
              forallb (slots_all (fix_with r)) l = true -> map norm (map (map_exprs (total r)) l) = map (map_exprs (total r)) (map norm l)).
  { induction 1 as [|a q Ha _ IH]; intros E; [reflexivity|]. cbn in E. apply andb_true_iff in E. destruct E.
    cbn [map]. now rewrite Ha, IH. }
  induction s as [m|v lo hi st b IHb|c b IHb|c t e fl IHt IHe|c m|x] using fstmt_ind'; cbn [slots_all]; intros H; try reflexivity.
  - apply andb_true_iff in H. destruct H as [H Hb]. apply andb_true_iff in H. destruct H as [H Hst].
    cbn [map_exprs norm]. rewrite (L b IHb Hb). f_equal.
    destruct st as [e|]; [|reflexivity]. cbn in Hst. cbn [option_map norm_step]. rewrite (unit_step_total r e Hst).
    destruct (unit_step e); reflexivity.
  - apply andb_true_iff in H. destruct H as [_ Hb]. cbn [map_exprs norm]. now rewrite (L b IHb Hb).
  - apply andb_true_iff in H. destruct H as [H He]. apply andb_true_iff in H. destruct H as [_ Ht].
    cbn [map_exprs norm]. now rewrite (L t IHt Ht), (L e IHe He).
Qed.

Lemma norm_map_list r p : slots_all_list (fix_with r) p = true ->
  norm_list (map (map_exprs (total r)) p) = map (map_exprs (total r)) (norm_list p).
Proof.
  unfold slots_all_list, norm_list. induction p as [|a q IH]; intros E; [reflexivity|]. cbn in E. apply andb_true_iff in E. destruct E.
  cbn [map]. now rewrite norm_map, IH.
Qed.

(** [norm] only removes slots *)
Lemma slots_all_norm ok : forall s, slots_all ok s = true -> slots_all ok (norm s) = true.
Proof.
  assert (L : forall l, Forall (fun s => slots_all ok s = true -> slots_all ok (norm s) = true) l ->
              forallb (slots_all ok) l = true -> forallb (slots_all ok) (map norm l) = true).
  { induction 1 as [|a q Ha _ IH]; intros E; [reflexivity|]. cbn in E. apply andb_true_iff in E. destruct E.
    cbn [map forallb]. apply andb_true_iff. auto. }
  induction s as [m|v lo hi st b IHb|c b IHb|c t e fl IHt IHe|c m|x] using fstmt_ind'; cbn [slots_all norm]; intros H; auto.
  - apply andb_true_iff in H. destruct H as [H Hb]. apply andb_true_iff in H. destruct H as [H Hst].
    rewrite H, (L b IHb Hb). cbn [andb]. rewrite andb_true_r.
    destruct st as [e|]; [|reflexivity]. cbn [norm_step]. destruct (unit_step e); [reflexivity|exact Hst].
  - apply andb_true_iff in H. destruct H as [Hc Hb]. now rewrite Hc, (L b IHb Hb).
  - apply andb_true_iff in H. destruct H as [H He]. apply andb_true_iff in H. destruct H as [Hc Ht].
    now rewrite Hc, (L t IHt Ht), (L e IHe He).
Qed.

Lemma slots_all_norm_list ok p : slots_all_list ok p = true -> slots_all_list ok (norm_list p) = true.
Proof.
  unfold slots_all_list, norm_list. rewrite !forallb_forall. intros H y Hy.
  apply in_map_iff in Hy. destruct Hy as [z [<- Hz]]. apply slots_all_norm, H, Hz.
Qed.

(** * a reader that preserves the printed text of every slot preserves the rendered lines *)
Lemma print_call_ext f l l' :
  map (fun a => print_f a PREC_NONE) l = map (fun a => print_f a PREC_NONE) l' ->
  print_f (ECall f l) PREC_NONE = print_f (ECall f l') PREC_NONE.
Proof. intros E. unfold print_f in *. cbn [print at_mode]. now rewrite E. Qed.

Lemma map_print_total r l : forallb (fix_with r) l = true ->
  map (fun a => print_f a PREC_NONE) (map (total r) l) = map (fun a => print_f a PREC_NONE) l.
Proof.
  induction l as [|x q IH]; intros E; [reflexivity|]. cbn in E. apply andb_true_iff in E. destruct E as [E1 E2].
  cbn [map]. destruct (fix_with_spec r x E1) as [_ ->]. now rewrite IH.
Qed.

Lemma render_simple_total r m : simple_all (fix_with r) m = true -> render_simple (map_simple (total r) m) = render_simple m.
Proof.
  destruct m as [x e|a i e|f a]; cbn [simple_all map_simple render_simple]; intros H; unfold pe.
  - destruct (fix_with_spec r e H) as [_ ->]. reflexivity.
  - apply andb_true_iff in H. destruct H as [Hi He]. destruct (fix_with_spec r e He) as [_ ->].
    rewrite (print_call_ext a (map (total r) i) i); [reflexivity|now apply map_print_total].
  - rewrite (print_call_ext f (map (total r) a) a); [reflexivity|now apply map_print_total].
Qed.

Lemma render_total r l : line_all (fix_with r) l = true -> render (map_line (total r) l) = render l.
Proof.
  destruct l; cbn [line_all map_line render]; intros H; try reflexivity; unfold pe.
  - now apply render_simple_total.
  - apply andb_true_iff in H. destruct H as [H Hst]. apply andb_true_iff in H. destruct H as [Hlo Hhi].
    destruct (fix_with_spec r lo Hlo) as [_ ->]. destruct (fix_with_spec r hi Hhi) as [_ ->].
    destruct st as [e|]; cbn in *; [|reflexivity]. destruct (fix_with_spec r e Hst) as [_ ->]. reflexivity.
  - destruct (fix_with_spec r c H) as [_ ->]. reflexivity.
  - destruct (fix_with_spec r c H) as [_ ->]. reflexivity.
  - destruct (fix_with_spec r c H) as [_ ->]. reflexivity.
  - apply andb_true_iff in H. destruct H as [Hc Hm]. destruct (fix_with_spec r c Hc) as [_ ->].
    now rewrite (render_simple_total r m Hm).
Qed.

Lemma render_total_lines r ls : forallb (line_all (fix_with r)) ls = true -> map render (map (map_line (total r)) ls) = map render ls.
Proof.
  induction ls as [|l q IH]; intros E; [reflexivity|]. cbn in E. apply andb_true_iff in E. destruct E as [E1 E2].
  cbn [map]. now rewrite render_total, IH.
Qed.

Lemma fix_reads r e : fix_with r e = true -> reads r e = true.
Proof. unfold fix_with, reads. destruct (r e); [reflexivity|discriminate]. Qed.

(** * main statements *)

(** the re-read program, explicitly *)
Theorem reparse_with_total r p : wf_list p = true -> slots_all_list (fix_with r) p = true ->
  reparse_with r p = Some (map (map_exprs (total r)) (norm_list p)).
Proof.
  intros W S. unfold reparse_with, print_stmts.
  pose proof (slots_all_norm_list _ p S) as S1.
  pose proof (lines_all_list _ _ (slots_all_list_impl _ (reads r) _ (fix_reads r) S1)) as Hr.
  rewrite (omap_lines r _ Hr), <- lines_of_map.
  apply roundtrip_lines.
  - rewrite wf_map_list. now apply wf_norm_list.
  - pose proof (lsize_le_lines (map (map_exprs (total r)) (norm_list p))) as B.
    rewrite wf_map_list in B. specialize (B (wf_norm_list p W)). lia.
Qed.

(** text fixpoint, lifted from the slots to the program: printing the re-read program gives the same token lines *)
Theorem text_fixpoint_with r p : wf_list p = true -> slots_all_list (fix_with r) p = true ->
  exists q, reparse_with r p = Some q /\ map render (print_stmts q) = map render (print_stmts p).
Proof.
  intros W S. exists (map (map_exprs (total r)) (norm_list p)). split; [now apply reparse_with_total|].
  pose proof (slots_all_norm_list _ p S) as S1.
  unfold print_stmts at 1. rewrite (norm_map_list r _ S1), norm_idem_list, lines_of_map.
  unfold print_stmts. apply render_total_lines. now apply lines_all_list.
Qed.

Lemma map_exprs_id f : forall s, slots_all (fun e => expr_eqb (f e) e) s = true -> map_exprs f s = s.
Proof.
  assert (Lf : forall l, forallb (fun e => expr_eqb (f e) e) l = true -> map f l = l).
  { induction l as [|x q IH]; cbn; [reflexivity|]. intros E. apply andb_true_iff in E. destruct E as [E1 E2].
    apply expr_eqb_eq in E1. now rewrite E1, IH. }
  assert (Ls : forall m, simple_all (fun e => expr_eqb (f e) e) m = true -> map_simple f m = m).
  { destruct m; cbn; intros E.
    - apply expr_eqb_eq in E. now rewrite E.
    - apply andb_true_iff in E. destruct E as [E1 E2]. apply expr_eqb_eq in E2. now rewrite (Lf _ E1), E2.
    - now rewrite (Lf _ E). }
  assert (L : forall l, Forall (fun s => slots_all (fun e => expr_eqb (f e) e) s = true -> map_exprs f s = s) l ->
              forallb (slots_all (fun e => expr_eqb (f e) e)) l = true -> map (map_exprs f) l = l).
  { induction 1 as [|a q Ha _ IH]; intros E; [reflexivity|]. cbn in E. apply andb_true_iff in E. destruct E.
    cbn [map]. now rewrite Ha, IH. }
  induction s as [m|v lo hi st b IHb|c b IHb|c t e fl IHt IHe|c m|x] using fstmt_ind'; cbn [slots_all map_exprs]; intros H; auto.
  - now rewrite (Ls m H).
  - apply andb_true_iff in H. destruct H as [H Hb]. apply andb_true_iff in H. destruct H as [H Hst].
    apply andb_true_iff in H. destruct H as [Hlo Hhi]. apply expr_eqb_eq in Hlo. apply expr_eqb_eq in Hhi.
    rewrite Hlo, Hhi, (L b IHb Hb). f_equal. destruct st as [e|]; [|reflexivity]. cbn in Hst. apply expr_eqb_eq in Hst. cbn. now rewrite Hst.
  - apply andb_true_iff in H. destruct H as [Hc Hb]. apply expr_eqb_eq in Hc. now rewrite Hc, (L b IHb Hb).
  - apply andb_true_iff in H. destruct H as [H He]. apply andb_true_iff in H. destruct H as [Hc Ht]. apply expr_eqb_eq in Hc.
    now rewrite Hc, (L t IHt Ht), (L e IHe He).
  - apply andb_true_iff in H. destruct H as [Hc Hm]. apply expr_eqb_eq in Hc. now rewrite Hc, (Ls m Hm).
Qed.

Lemma expr_eqb_refl : forall e, expr_eqb e e = true.
Proof.
  assert (L : forall l, Forall (fun e => expr_eqb e e = true) l -> list_expr_eqb l l = true).
  { induction 1 as [|x q Hx _ IH]; [reflexivity|]. cbn. now rewrite Hx, IH. }
  induction e as [v|v|x|b|p cs IH|p cs IH|p n d IHn IHd|p b x IHb IHx|op l r IHl IHr|cs IH|cs IH|a IH|f args IH] using expr_ind'.
  - cbn. apply Z.eqb_refl.
  - cbn. apply Z.eqb_refl.
  - cbn. apply String.eqb_refl.
  - cbn. apply Bool.eqb_reflx.
  - change (Bool.eqb p p && list_expr_eqb cs cs = true). now rewrite Bool.eqb_reflx, (L cs IH).
  - change (Bool.eqb p p && list_expr_eqb cs cs = true). now rewrite Bool.eqb_reflx, (L cs IH).
  - cbn. now rewrite Bool.eqb_reflx, IHn, IHd.
  - cbn. now rewrite Bool.eqb_reflx, IHb, IHx.
  - cbn. rewrite IHl, IHr. destruct op; reflexivity.
  - change (list_expr_eqb cs cs = true). now apply L.
  - change (list_expr_eqb cs cs = true). now apply L.
  - cbn. exact IH.
  - change (String.eqb f f && list_expr_eqb args args = true). now rewrite String.eqb_refl, (L args IH).
Qed.

(** structural identity of the re-read program, lifted from the slots *)
Theorem reread_identical_with r p : wf_list p = true -> nf_list p = true -> slots_all_list (id_with r) p = true ->
  reparse_with r p = Some p.
Proof.
  intros W N S.
  rewrite (reparse_with_total r p W (slots_all_list_impl _ _ p (id_with_fix r) S)).
  rewrite (norm_list_nf p N). f_equal.
  unfold slots_all_list in S. induction p as [|a q IH]; [reflexivity|].
  cbn in S. apply andb_true_iff in S. destruct S as [S1 S2].
  cbn in W. apply andb_true_iff in W. destruct W as [W1 W2].
  cbn in N. apply andb_true_iff in N. destruct N as [N1 N2].
  cbn [map]. rewrite (IH W2 N2 S2). f_equal. apply map_exprs_id.
  eapply slots_all_impl; [|exact S1]. intros e He. destruct (id_with_spec r e He) as [_ ->]. apply expr_eqb_refl.
Qed.

(** statement level alone (expression slots kept as trees) *)
Theorem print_norm p : print_stmts (norm_list p) = print_stmts p.
Proof. unfold print_stmts. now rewrite norm_idem_list. Qed.

Theorem text_fixpoint_stmts p q : wf_list p = true -> read_lines (fuel_for p) (print_stmts p) = Some q ->
  print_stmts q = print_stmts p.
Proof. intros W H. rewrite (roundtrip_stmts_norm p W) in H. inversion H; subst. apply print_norm. Qed.

(** * witnesses *)
Lemma reread_refuted_unit_step :
  wf_list w_unit_step = true /\
  exists q, read_lines (fuel_for w_unit_step) (print_stmts w_unit_step) = Some q /\ q <> w_unit_step /\
            print_stmts q = print_stmts w_unit_step.
Proof.
  split; [reflexivity|]. eexists. split; [vm_compute; reflexivity|]. split; [discriminate|vm_compute; reflexivity].
Qed.

Lemma expr_text_refuted_paren_plus :
  print_f w_paren_plus PREC_NONE = [TVar "a"; TMinus; TLP; TInt 2; TRP] /\
  exists e', reread_fe w_paren_plus = Some e' /\ print_f e' PREC_NONE = [TVar "a"; TMinus; TInt 2] /\ fe_fix w_paren_plus = false.
Proof. split; [vm_compute; reflexivity|]. eexists. repeat split; vm_compute; reflexivity. Qed.

Lemma expr_ir_refuted_unary_plus :
  reread_fe w_unary_plus = Some (EVar "a") /\ fe_fix w_unary_plus = true /\ fe_id w_unary_plus = false.
Proof. repeat split; vm_compute; reflexivity. Qed.

Lemma expr_ir_refuted_and_right :
  fe_fix w_and_right = true /\ fe_id w_and_right = false /\
  reread_fe w_and_right = Some (EAnd [EAnd [ECmp Clt (EVar "a") (EInt 1); ECmp Clt (EVar "b") (EInt 1)]; ECmp Clt (EVar "c") (EInt 1)]).
Proof. repeat split; vm_compute; reflexivity. Qed.

Lemma expr_reread_fails_not_not :
  print_f w_not_not PREC_NONE = [TNot; TNot; TLP; TVar "a"; TRel Clt; TInt 1; TRP] /\ reread_fe w_not_not = None.
Proof. split; vm_compute; reflexivity. Qed.

(** non-trivial members of the expression classes:  -a*b / c + (a - 2)**2 - mod(k, 3)  as the frontend builds it *)
Definition ex_fe : expr :=
  ESum false [ESum false [EProd false [EPy (-1); EQuot false (EProd false [EVar "a"; EVar "b"]) (EVar "c")];
                          EPow false (ESum true [EVar "a"; EProd false [EPy (-1); EInt 2]]) (EInt 2)];
              EProd false [EPy (-1); ECall "mod" [EVar "k"; EInt 3]]].
Definition ex_fe_logic : expr :=
  EOr [EAnd [ECmp Clt (EVar "a") (EProd false [EPy (-1); EVar "n"]); ENot (EOr [ECmp Ceq (EVar "k") (EInt 1); ELog false])];
       ECmp Cge (EPow false (EVar "a") (EPow false (EVar "b") (EInt 2))) (EProd true [EPy (-1); EVar "c"])].
Lemma ex_fe_id : fe_id ex_fe = true /\ fe_id ex_fe_logic = true.
Proof. split; vm_compute; reflexivity. Qed.

Definition ex_prog_fe : list fstmt :=
  [FDo "i" (EInt 1) (EVar "n") (Some (EInt 2))
     [FIf ex_fe_logic [FSimple (MStore "x" [EVar "i"] ex_fe)]
        [FIf (ECmp Ceq (EVar "a") (EInt 0)) [FSimple (MCall "f" [EVar "a"; ESum false [EVar "b"; EInt 1]])] [FComment "! else"] false] true]].
Lemma ex_prog_fe_in_class : wf_list ex_prog_fe = true /\ nf_list ex_prog_fe = true /\ slots_all_list fe_id ex_prog_fe = true.
Proof. repeat split; vm_compute; reflexivity. Qed.
