(** C32 — proofs, part 6: variables that do not occur are irrelevant (removal of unused locals / dummies). *)
From Coq Require Import ZArith List Bool String Lia.
From LV Require Import Base.Expr Base.MiniF Base.MiniFFacts models.M_C32 proofs.P_C32.
Import ListNotations.
Open Scope Z_scope.

(** two stores agree on every name outside [X] (scalars and arrays, arrays pointwise) *)
Definition sim (X : string -> Prop) (s1 s2 : store) : Prop :=
  (forall y, ~ X y -> sv s1 y = sv s2 y) /\ (forall a, ~ X a -> forall i, av s1 a i = av s2 a i).

Definition none : string -> Prop := fun _ => False.

Lemma sim_refl X s : sim X s s.
Proof. split; intros; reflexivity. Qed.

Lemma sim_weaken (X : string -> Prop) s1 s2 : sim none s1 s2 -> sim X s1 s2.
Proof. intros [A B]. split; intros; [apply A|apply B]; intros []. Qed.

Lemma notin_of_eqb (X : string -> Prop) y : (forall x, X x -> String.eqb y x = false) -> ~ X y.
Proof. intros H Hy. specialize (H y Hy). rewrite String.eqb_refl in H. discriminate. Qed.

Lemma sim_set_sv X y v s1 s2 : sim X s1 s2 -> sim X (set_sv y v s1) (set_sv y v s2).
Proof.
  intros [A B]. split; [|exact B]. intros z N. cbn. destruct (String.eqb z y); [reflexivity|now apply A].
Qed.

Lemma sim_set_av X a i v s1 s2 : sim X s1 s2 -> sim X (set_av a i v s1) (set_av a i v s2).
Proof.
  intros [A B]. split; [exact A|]. intros b N j. cbn.
  destruct (String.eqb b a && list_z_eqb j i); [reflexivity|now apply B].
Qed.

Lemma sim_set_arr X a f1 f2 s1 s2 : (forall i, f1 i = f2 i) -> sim X s1 s2 -> sim X (set_arr a f1 s1) (set_arr a f2 s2).
Proof.
  intros F [A B]. split; [exact A|]. intros b N j. cbn. destruct (String.eqb b a); [apply F|now apply B].
Qed.

(** ** expressions *)

Lemma occ_forall (X : string -> Prop) cs :
  (forall x, X x -> existsb (occurs_e x) cs = false) ->
  Forall (fun c => forall x, X x -> occurs_e x c = false) cs.
Proof.
  induction cs as [|c r IH]; intros H; constructor.
  - intros x Hx. specialize (H x Hx). cbn in H. now apply orb_false_iff in H.
  - apply IH. intros x Hx. specialize (H x Hx). cbn in H. now apply orb_false_iff in H.
Qed.

Definition evlist (rho : env) : list expr -> option (list Z) :=
  fix go (l : list expr) : option (list Z) :=
    match l with
    | [] => Some []
    | a :: r => obind (evalZ rho a) (fun v => obind (go r) (fun vs => Some (v :: vs)))
    end.

Lemma evalZ_call rho f args :
  evalZ rho (ECall f args) =
  obind (evlist rho args) (fun vs => match intrinsic f vs with Some r => r | None => ev_fun rho f vs end).
Proof. reflexivity. Qed.

Lemma evlist_cons rho a r :
  evlist rho (a :: r) = obind (evalZ rho a) (fun v => obind (evlist rho r) (fun vs => Some (v :: vs))).
Proof. reflexivity. Qed.

Lemma evalZ_sim X s1 s2 : sim X s1 s2 ->
  forall e, (forall x, X x -> occurs_e x e = false) -> evalZ (env_st s1) e = evalZ (env_st s2) e.
Proof.
  intros [A B]. induction e using expr_ind'; intros O; try reflexivity.
  - cbn. f_equal. apply A. apply notin_of_eqb. exact O.
  - cbn [evalZ]. apply occ_forall in O. induction H as [|c r Hc Hr IH]; [reflexivity|].
    inversion O; subst. cbn [fold_right]. rewrite (Hc H1). now rewrite (IH H2).
  - cbn [evalZ]. apply occ_forall in O. induction H as [|c r Hc Hr IH]; [reflexivity|].
    inversion O; subst. cbn [fold_right]. rewrite (Hc H1). now rewrite (IH H2).
  - cbn [evalZ]. rewrite IHe1, IHe2; [reflexivity| |];
      intros x Hx; specialize (O x Hx); cbn in O; now apply orb_false_iff in O.
  - cbn [evalZ]. rewrite IHe1, IHe2; [reflexivity| |];
      intros x Hx; specialize (O x Hx); cbn in O; now apply orb_false_iff in O.
  - assert (Of : forall x, X x -> String.eqb f x = false).
    { intros x Hx. specialize (O x Hx). cbn in O. now apply orb_false_iff in O. }
    assert (Oa : forall x, X x -> existsb (occurs_e x) args = false).
    { intros x Hx. specialize (O x Hx). cbn in O. now apply orb_false_iff in O. }
    apply occ_forall in Oa.
    rewrite !evalZ_call.
    assert (G : evlist (env_st s1) args = evlist (env_st s2) args).
    { clear O. revert Oa. induction H as [|c r Hc Hr IH]; intros Oa; [reflexivity|].
      inversion Oa; subst. rewrite !evlist_cons. rewrite (Hc H1). now rewrite (IH H2). }
    rewrite G. destruct (evlist (env_st s2) args) as [vs|]; [|reflexivity].
    cbn [obind]. destruct (intrinsic f vs); [reflexivity|]. cbn. f_equal. apply B. now apply notin_of_eqb.
Qed.

Lemma evalB_sim X s1 s2 : sim X s1 s2 ->
  forall e, (forall x, X x -> occurs_e x e = false) -> evalB (env_st s1) e = evalB (env_st s2) e.
Proof.
  intros S. induction e using expr_ind'; intros O; try reflexivity.
  - cbn [evalB]. rewrite (evalZ_sim X s1 s2 S e1), (evalZ_sim X s1 s2 S e2); [reflexivity| |];
      intros x Hx; specialize (O x Hx); cbn in O; now apply orb_false_iff in O.
  - cbn [evalB]. apply occ_forall in O. induction H as [|c r Hc Hr IH]; [reflexivity|].
    inversion O; subst. cbn [fold_right]. rewrite (Hc H1). now rewrite (IH H2).
  - cbn [evalB]. apply occ_forall in O. induction H as [|c r Hc Hr IH]; [reflexivity|].
    inversion O; subst. cbn [fold_right]. rewrite (Hc H1). now rewrite (IH H2).
  - cbn [evalB]. rewrite IHe; [reflexivity|exact O].
Qed.

Lemma eval_idx_sim X s1 s2 : sim X s1 s2 ->
  forall idx, (forall x, X x -> existsb (occurs_e x) idx = false) -> eval_idx s1 idx = eval_idx s2 idx.
Proof.
  intros S idx O. apply occ_forall in O. unfold eval_idx. induction O as [|c r Hc Hr IH]; [reflexivity|].
  cbn [omap_list]. rewrite (evalZ_sim X s1 s2 S c Hc). now rewrite IH.
Qed.

(** ** argument passing *)

Lemma copy_in_sim (X : string -> Prop) s1 s2 : sim X s1 s2 ->
  forall params args c1 c2 r1, (forall x, X x -> existsb (occurs_e x) args = false) ->
    sim none c1 c2 -> copy_in s1 params args c1 = Some r1 ->
    exists r2, copy_in s2 params args c2 = Some r2 /\ sim none r1 r2.
Proof.
  intros S. induction params as [|[d b] ps IH]; intros args c1 c2 r1 O C E.
  - destruct args; [|discriminate]. cbn in E. inversion E; subst. exists c2. split; [reflexivity|exact C].
  - destruct args as [|e r]; [destruct b; discriminate|].
    assert (Oe : forall x, X x -> occurs_e x e = false).
    { intros x Hx. specialize (O x Hx). cbn in O. now apply orb_false_iff in O. }
    assert (Or : forall x, X x -> existsb (occurs_e x) r = false).
    { intros x Hx. specialize (O x Hx). cbn in O. now apply orb_false_iff in O. }
    destruct b.
    + destruct e; try discriminate. cbn [copy_in] in E |- *.
      eapply (IH r _ _ r1 Or); [|exact E].
      apply sim_set_arr; [|exact C]. intros i. apply (proj2 S). apply notin_of_eqb. intros y Hy. exact (Oe y Hy).
    + assert (Ev : evalZ (env_st s1) e = evalZ (env_st s2) e) by (now apply (evalZ_sim X)).
      assert (G : forall cc1 cc2, sim none cc1 cc2 ->
                  match evalZ (env_st s1) e with Some v => copy_in s1 ps r (set_sv d v cc1) | None => None end = Some r1 ->
                  exists r2, match evalZ (env_st s2) e with Some v => copy_in s2 ps r (set_sv d v cc2) | None => None end = Some r2
                             /\ sim none r1 r2).
      { intros cc1 cc2 CC. rewrite <- Ev. destruct (evalZ (env_st s1) e) as [v|]; [|discriminate].
        intros E'. eapply (IH r _ _ r1 Or); [|exact E']. now apply sim_set_sv. }
      destruct e; cbn [copy_in] in E |- *; exact (G c1 c2 C E).
Qed.

Lemma copy_out_sim (X : string -> Prop) c1 c2 : sim none c1 c2 ->
  forall params args s1 s2, (forall x, X x -> existsb (occurs_e x) args = false) ->
    sim X s1 s2 -> sim X (copy_out c1 params args s1) (copy_out c2 params args s2).
Proof.
  intros C. induction params as [|[d b] ps IH]; intros args s1 s2 O S.
  - destruct args; exact S.
  - destruct args as [|e r]; [destruct b; exact S|].
    assert (Or : forall x, X x -> existsb (occurs_e x) r = false).
    { intros x Hx. specialize (O x Hx). cbn in O. now apply orb_false_iff in O. }
    destruct e; cbn [copy_out]; try (destruct b; apply IH; assumption).
    destruct b; apply IH; try assumption.
    + apply sim_set_arr; [|exact S]. intros i. apply (proj2 C). intros [].
    + rewrite (proj1 C d) by (intros []). now apply sim_set_sv.
Qed.

(** ** statements: a program in which no name of [X] occurs cannot tell the two stores apart *)

Lemma occ_stmts (X : string -> Prop) l :
  (forall x, X x -> occurs_l x l = false) ->
  match l with
  | [] => True
  | st :: r => (forall x, X x -> occurs x st = false) /\ (forall x, X x -> occurs_l x r = false)
  end.
Proof.
  destruct l as [|st r]; [trivial|]. intros H. split; intros x Hx; specialize (H x Hx); cbn in H;
    now apply orb_false_iff in H.
Qed.

Lemma do_loop_sim (run1 run2 : store -> option store) (X : string -> Prop) v d :
  ~ X v ->
  (forall s1 s2 s1', sim X s1 s2 -> run1 s1 = Some s1' -> exists s2', run2 s2 = Some s2' /\ sim X s1' s2') ->
  forall n i s1 s2 s1', sim X s1 s2 -> do_loop run1 v d n i s1 = Some s1' ->
    exists s2', do_loop run2 v d n i s2 = Some s2' /\ sim X s1' s2'.
Proof.
  intros Nv H. induction n as [|n IH]; intros i s1 s2 s1' S E; cbn [do_loop] in *.
  - inversion E; subst. eexists; split; [reflexivity|now apply sim_set_sv].
  - apply obind_some in E. destruct E as [t1 [E1 E2]].
    destruct (H _ (set_sv v i s2) _ (sim_set_sv X v i _ _ S) E1) as [t2 [F1 F2]].
    rewrite F1. cbn [obind]. now apply (IH _ t1).
Qed.

Lemma orb_false_4 a b c d : a || b || c || d = false -> a = false /\ b = false /\ c = false /\ d = false.
Proof. destruct a, b, c, d; cbn; intros; try discriminate; auto. Qed.

Theorem exec_sim ps : forall f (X : string -> Prop) l s1 s2 s1',
  (forall x, X x -> occurs_l x l = false) -> sim X s1 s2 -> exec ps f l s1 = Some s1' ->
  exists s2', exec ps f l s2 = Some s2' /\ sim X s1' s2'.
Proof.
  induction f as [|f IH]; intros X l s1 s2 s1' O S E; [discriminate|].
  destruct l as [|st rest]; [cbn in E |- *; inversion E; subst; eauto|].
  destruct (occ_stmts X _ O) as [Ost Orest].
  rewrite exec_unfold in E |- *. apply obind_some in E. destruct E as [t1 [E1 E2]].
  assert (G : exists t2, exec1 ps f st s2 = Some t2 /\ sim X t1 t2).
  { clear E2 Orest O.
    destruct st as [y e|a idx e|v lo hi stp body|c body|c tb eb|g args|lbl]; cbn [exec1] in E1 |- *.
    - assert (Oe : forall x, X x -> occurs_e x e = false).
      { intros x Hx. specialize (Ost x Hx). cbn in Ost. now apply orb_false_iff in Ost. }
      rewrite <- (evalZ_sim X s1 s2 S e Oe). apply obind_some in E1. destruct E1 as [w [Ew E1]].
      rewrite Ew. cbn [obind]. inversion E1; subst. eexists; split; [reflexivity|now apply sim_set_sv].
    - assert (Oi : forall x, X x -> existsb (occurs_e x) idx = false).
      { intros x Hx. specialize (Ost x Hx). cbn in Ost. apply orb_false_iff in Ost. destruct Ost as [Ost _].
        now apply orb_false_iff in Ost. }
      assert (Oe : forall x, X x -> occurs_e x e = false).
      { intros x Hx. specialize (Ost x Hx). cbn in Ost. now apply orb_false_iff in Ost. }
      rewrite <- (eval_idx_sim X s1 s2 S idx Oi), <- (evalZ_sim X s1 s2 S e Oe).
      apply obind_some in E1. destruct E1 as [i [Ei E1]]. apply obind_some in E1. destruct E1 as [w [Ew E1]].
      rewrite Ei, Ew. cbn [obind]. inversion E1; subst. eexists; split; [reflexivity|now apply sim_set_av].
    - assert (Q : forall x, X x -> String.eqb v x = false /\ occurs_e x lo = false /\ occurs_e x hi = false
                                  /\ (match stp with Some e => occurs_e x e | None => false end) = false
                                  /\ occurs_l x body = false).
      { intros x Hx. specialize (Ost x Hx). cbn [occurs] in Ost. apply orb_false_iff in Ost. destruct Ost as [Q1 Q5].
        apply orb_false_4 in Q1. destruct Q1 as [Q1 [Q2 [Q3 Q4]]]. auto. }
      rewrite <- (evalZ_sim X s1 s2 S lo) by (intros x Hx; apply (Q x Hx)).
      rewrite <- (evalZ_sim X s1 s2 S hi) by (intros x Hx; apply (Q x Hx)).
      assert (Es : (match stp with None => Some 1 | Some e => evalZ (env_st s2) e end)
                   = (match stp with None => Some 1 | Some e => evalZ (env_st s1) e end)).
      { destruct stp as [e|]; [|reflexivity]. symmetry. apply (evalZ_sim X s1 s2 S e). intros x Hx. apply (Q x Hx). }
      rewrite Es.
      apply obind_some in E1. destruct E1 as [a [Ea E1]]. apply obind_some in E1. destruct E1 as [b [Eb E1]].
      apply obind_some in E1. destruct E1 as [d [Ed E1]]. rewrite Ea, Eb. cbn [obind]. rewrite Ed. cbn [obind].
      destruct (d =? 0); [discriminate|].
      eapply (do_loop_sim (exec ps f body) (exec ps f body) X v d); [| |exact S|exact E1].
      + apply notin_of_eqb. intros x Hx. apply (Q x Hx).
      + intros u1 u2 u1' U R. apply (IH X body u1 u2 u1'); [|exact U|exact R]. intros x Hx. apply (Q x Hx).
    - assert (Oc : forall x, X x -> occurs_e x c = false).
      { intros x Hx. specialize (Ost x Hx). cbn in Ost. now apply orb_false_iff in Ost. }
      assert (Ob : forall x, X x -> occurs_l x body = false).
      { intros x Hx. specialize (Ost x Hx). cbn in Ost. now apply orb_false_iff in Ost. }
      rewrite <- (evalB_sim X s1 s2 S c Oc). apply obind_some in E1. destruct E1 as [b [Eb E1]]. rewrite Eb. cbn [obind].
      destruct b; [|inversion E1; subst; eauto].
      apply obind_some in E1. destruct E1 as [u1 [R1 R2]].
      destruct (IH X body s1 s2 u1 Ob S R1) as [u2 [F1 F2]]. rewrite F1. cbn [obind].
      apply (IH X [SWhile c body] u1 u2 t1); [|exact F2|exact R2].
      intros x Hx. unfold occurs_l. cbn [existsb]. rewrite (Ost x Hx). reflexivity.
    - assert (Q : forall x, X x -> occurs_e x c = false /\ occurs_l x tb = false /\ occurs_l x eb = false).
      { intros x Hx. specialize (Ost x Hx). cbn [occurs] in Ost. apply orb_false_iff in Ost. destruct Ost as [Q1 Q3].
        apply orb_false_iff in Q1. destruct Q1 as [Q1 Q2]. auto. }
      rewrite <- (evalB_sim X s1 s2 S c) by (intros x Hx; apply (Q x Hx)).
      apply obind_some in E1. destruct E1 as [b [Eb E1]]. rewrite Eb. cbn [obind].
      apply (IH X _ s1 s2 t1); [|exact S|exact E1]. intros x Hx. destruct b; apply (Q x Hx).
    - assert (Oa : forall x, X x -> existsb (occurs_e x) args = false) by (intros x Hx; exact (Ost x Hx)).
      apply obind_some in E1. destruct E1 as [p [Ep E1]]. rewrite Ep. cbn [obind].
      apply obind_some in E1. destruct E1 as [c1 [Ec E1]].
      destruct (copy_in_sim X s1 s2 S (p_params p) args empty_store empty_store c1 Oa (sim_refl none _) Ec) as [c2 [Fc Sc]].
      rewrite Fc. cbn [obind]. apply obind_some in E1. destruct E1 as [c1' [Eb E1]].
      destruct (IH none (p_body p) c1 c2 c1') as [c2' [Fb Sb]]; [intros x []|exact Sc|exact Eb|].
      rewrite Fb. cbn [obind]. inversion E1; subst. eexists; split; [reflexivity|].
      now apply copy_out_sim.
    - inversion E1; subst. eauto. }
  destruct G as [t2 [G1 G2]]. rewrite G1. cbn [obind]. now apply (IH X rest t1 t2).
Qed.

(** removing the declaration of a variable that does not occur: its value is irrelevant for everything else, and the
    program still runs *)
Theorem unused_var_irrelevant ps x p s s' v :
  occurs_l x p = false -> runs ps p s s' ->
  exists s'', runs ps p (set_sv x v s) s'' /\ sim (eq x) s' s''.
Proof.
  intros O [f E].
  destruct (exec_sim ps f (eq x) p s (set_sv x v s) s') as [s'' [F S]].
  - intros y Hy. now subst.
  - split; [|reflexivity]. intros y N. cbn. destruct (String.eqb y x) eqn:Q; [|reflexivity].
    apply String.eqb_eq in Q. congruence.
  - exact E.
  - exists s''. split; [now exists f|exact S].
Qed.

(** the same for an unused array *)
Theorem unused_array_irrelevant ps x p s s' g :
  occurs_l x p = false -> runs ps p s s' ->
  exists s'', runs ps p (set_arr x g s) s'' /\ sim (eq x) s' s''.
Proof.
  intros O [f E].
  destruct (exec_sim ps f (eq x) p s (set_arr x g s) s') as [s'' [F S]].
  - intros y Hy. now subst.
  - split; [reflexivity|]. intros a N i. cbn. destruct (String.eqb a x) eqn:Q; [|reflexivity].
    apply String.eqb_eq in Q. congruence.
  - exact E.
  - exists s''. split; [now exists f|exact S].
Qed.

(** ** what the implementation reports as unused does not occur, provided it is not a DO variable
    (the dataflow analysis drops induction variables: finding F32-13) *)
Lemma occ_df_occurs x : forall st, ~ In x (loopvars st) -> occ_df x st = false -> occurs x st = false.
Proof.
  induction st using stmt_ind'; intros N D; try exact D.
  - change (loopvars (SDo v lo hi st b)) with (v :: flat_map loopvars b) in N.
    change (occ_df x (SDo v lo hi st b)) with
      (negb (String.eqb v x) && (occurs_e x lo || occurs_e x hi
          || (match st with Some e => occurs_e x e | None => false end) || existsb (occ_df x) b)) in D.
    change (occurs x (SDo v lo hi st b)) with
      (String.eqb v x || occurs_e x lo || occurs_e x hi
       || (match st with Some e => occurs_e x e | None => false end) || existsb (occurs x) b).
    assert (Nv : String.eqb v x = false).
    { destruct (String.eqb v x) eqn:E; [|reflexivity]. apply String.eqb_eq in E. subst. exfalso. apply N. now left. }
    rewrite Nv in D |- *. cbn [negb andb orb] in D |- *.
    apply orb_false_iff in D. destruct D as [D1 D2]. rewrite D1. cbn [orb].
    assert (G : forall l, Forall (fun s => ~ In x (loopvars s) -> occ_df x s = false -> occurs x s = false) l ->
                ~ In x (flat_map loopvars l) -> existsb (occ_df x) l = false -> existsb (occurs x) l = false).
    { induction 1 as [|s r Hs Hr IHr]; intros Nl Dl; [reflexivity|]. cbn in Nl, Dl |- *.
      apply orb_false_iff in Dl. destruct Dl as [Da Db].
      rewrite Hs; [|intros I; apply Nl; apply in_or_app; now left|exact Da].
      apply IHr; [intros I; apply Nl; apply in_or_app; now right|exact Db]. }
    apply G; [exact H| |exact D2]. intros I. apply N. now right.
  - change (loopvars (SWhile c b)) with (flat_map loopvars b) in N.
    change (occ_df x (SWhile c b)) with (occurs_e x c || existsb (occ_df x) b) in D.
    change (occurs x (SWhile c b)) with (occurs_e x c || existsb (occurs x) b).
    apply orb_false_iff in D. destruct D as [D1 D2]. rewrite D1. cbn [orb].
    revert N D2. induction H as [|s r Hs Hr IHr]; intros Nl Dl; [reflexivity|]. cbn in Nl, Dl |- *.
    apply orb_false_iff in Dl. destruct Dl as [Da Db].
    rewrite Hs; [|intros I; apply Nl; apply in_or_app; now left|exact Da].
    apply IHr; [intros I; apply Nl; apply in_or_app; now right|exact Db].
  - change (loopvars (SIf c t e)) with (flat_map loopvars t ++ flat_map loopvars e) in N.
    change (occ_df x (SIf c t e)) with (occurs_e x c || existsb (occ_df x) t || existsb (occ_df x) e) in D.
    change (occurs x (SIf c t e)) with (occurs_e x c || existsb (occurs x) t || existsb (occurs x) e).
    apply orb_false_iff in D. destruct D as [D D3]. apply orb_false_iff in D. destruct D as [D1 D2].
    rewrite D1. cbn [orb].
    assert (G : forall l, Forall (fun s => ~ In x (loopvars s) -> occ_df x s = false -> occurs x s = false) l ->
                ~ In x (flat_map loopvars l) -> existsb (occ_df x) l = false -> existsb (occurs x) l = false).
    { induction 1 as [|s r Hs Hr IHr]; intros Nl Dl; [reflexivity|]. cbn in Nl, Dl |- *.
      apply orb_false_iff in Dl. destruct Dl as [Da Db].
      rewrite Hs; [|intros I; apply Nl; apply in_or_app; now left|exact Da].
      apply IHr; [intros I; apply Nl; apply in_or_app; now right|exact Db]. }
    rewrite (G t H); [|intros I; apply N; apply in_or_app; now left|exact D2].
    rewrite (G e H0); [reflexivity|intros I; apply N; apply in_or_app; now right|exact D3].
Qed.

Lemma occ_df_l_occurs x l : ~ In x (flat_map loopvars l) -> occ_df_l x l = false -> occurs_l x l = false.
Proof.
  unfold occ_df_l, occurs_l. induction l as [|s r IH]; intros N D; [reflexivity|]. cbn in N, D |- *.
  apply orb_false_iff in D. destruct D as [Da Db].
  rewrite (occ_df_occurs x s); [|intros I; apply N; apply in_or_app; now left|exact Da].
  apply IH; [intros I; apply N; apply in_or_app; now right|exact Db].
Qed.

Theorem unused_locals_do_not_occur args decls body x :
  In x (unused_locals args decls body) -> ~ In x (flat_map loopvars body) -> occurs_l x body = false.
Proof.
  unfold unused_locals. intros I N. apply filter_In in I. destruct I as [_ I].
  apply andb_true_iff in I. destruct I as [_ I]. apply negb_true_iff in I. unfold used in I.
  apply orb_false_iff in I. destruct I as [I _]. now apply occ_df_l_occurs.
Qed.

(** ** removing dummy arguments together with the matching call arguments (callee side) *)

Lemma sim_set_sv_left (X : string -> Prop) d v s1 s2 : X d -> sim X s1 s2 -> sim X (set_sv d v s1) s2.
Proof.
  intros Hd [A B]. split; [|exact B]. intros y N. cbn. destruct (String.eqb y d) eqn:E; [|now apply A].
  apply String.eqb_eq in E. subst. contradiction.
Qed.

(** the removed positions hold scalar dummies whose names are in [X] *)
Fixpoint rem_ok (X : string -> Prop) (k : nat) (ks : list nat) (params : list (string * bool)) : Prop :=
  match params with
  | [] => True
  | (d, b) :: r => (existsb (Nat.eqb k) ks = true -> X d /\ b = false) /\ rem_ok X (S k) ks r
  end.

Lemma copy_in_scalar s d ps e r c :
  copy_in s ((d, false) :: ps) (e :: r) c =
  match evalZ (env_st s) e with Some v => copy_in s ps r (set_sv d v c) | None => None end.
Proof. destruct e; reflexivity. Qed.

Lemma copy_in_removed (X : string -> Prop) s ks : forall params k args c1 c2 r1,
  rem_ok X k ks params -> sim X c1 c2 -> copy_in s params args c1 = Some r1 ->
  exists r2, copy_in s (remove_pos_from k ks params) (remove_pos_from k ks args) c2 = Some r2 /\ sim X r1 r2.
Proof.
  induction params as [|[d b] ps IH]; intros k args c1 c2 r1 R C E.
  - destruct args; [|discriminate]. cbn in E. inversion E; subst. exists c2. split; [reflexivity|exact C].
  - destruct args as [|e r]; [destruct b; discriminate|].
    destruct R as [R1 R2]. cbn [remove_pos_from].
    destruct (existsb (Nat.eqb k) ks) eqn:K.
    + destruct (R1 eq_refl) as [Hd Hb]. subst b.
      rewrite copy_in_scalar in E. destruct (evalZ (env_st s) e) as [w|]; [|discriminate].
      apply (IH (S k) r (set_sv d w c1) c2 r1 R2); [|exact E]. now apply sim_set_sv_left.
    + destruct b.
      * destruct e; try discriminate. cbn [copy_in] in E |- *.
        eapply (IH (S k) r _ _ r1 R2); [|exact E]. apply sim_set_arr; [reflexivity|exact C].
      * rewrite copy_in_scalar in E |- *. destruct (evalZ (env_st s) e) as [w|]; [|discriminate].
        eapply (IH (S k) r _ _ r1 R2); [|exact E]. now apply sim_set_sv.
Qed.

(** partial: the callee computes the same values for every name outside [X] whether or not the unused dummies (and
    the matching actual arguments) are passed; the copy-out into the caller is not covered by a theorem *)
Theorem remove_dummy_callee_partial ps (X : string -> Prop) ks params body s args f c1 c1' :
  rem_ok X 0 ks params -> (forall x, X x -> occurs_l x body = false) ->
  copy_in s params args empty_store = Some c1 -> exec ps f body c1 = Some c1' ->
  exists c2 c2', copy_in s (remove_pos ks params) (remove_pos ks args) empty_store = Some c2
                 /\ exec ps f body c2 = Some c2' /\ sim X c1' c2'.
Proof.
  intros R O Ci Ex.
  destruct (copy_in_removed X s ks params 0 args empty_store empty_store c1 R (sim_refl X _) Ci) as [c2 [F S]].
  destruct (exec_sim ps f X body c1 c2 c1' O S Ex) as [c2' [G T]].
  exists c2, c2'. split; [exact F|split; [exact G|exact T]].
Qed.
