(** C31 — summary file: re-exports the lemma files and gives the non-vacuity examples. *)
From Coq Require Import ZArith List Bool String Lia.
From LV Require Import Base.Expr Base.MiniF Base.MiniFFacts models.M_C31.
From LV Require Export proofs.P_C31_base proofs.P_C31_unroll proofs.P_C31_block proofs.P_C31_commute.
From LV Require models.M_C10.
Import ListNotations.
Open Scope Z_scope.
Open Scope string_scope.

(** ** unrolling: a descending loop under an unroll pragma with a nested counter-dependent loop *)
Definition ex_unroll : list stmt :=
  [ SSkip "$loki loop-unroll";
    SDo "i" (EInt 3) (EInt 1) (Some (EProd false [EPy (-1); EInt 1]))
      [ SAssign "s" (ESum false [EProd false [EVar "s"; EInt 3]; EVar "i"]);
        SDo "j" (EInt 1) (EVar "i") None [ SStore "a" [EVar "j"] (ESum false [EVar "s"; EVar "j"]) ] ] ].

Example unroll_nonvacuous :
  unroll_class ex_unroll = true /\
  List.length (strip_skips (do_unroll ex_unroll)) = 9%nat /\
  forallb (fun s => negb (is_do s)) (strip_skips (do_unroll ex_unroll)) = true /\
  run_observe [] 50 ex_unroll [("s", 2)] [] ["s"] [("a", [1]); ("a", [2]); ("a", [3])]
  = run_observe [] 50 (do_unroll ex_unroll) [("s", 2)] [] ["s"] [("a", [1]); ("a", [2]); ("a", [3])] /\
  run_observe [] 50 ex_unroll [("s", 2)] [] ["s"] [("a", [1]); ("a", [2]); ("a", [3])] = Some [88; 89; 31; 12].
Proof. vm_compute. repeat split; reflexivity. Qed.

(** the DO variable itself is NOT preserved (the unrolled code never assigns it): the hypothesis
    "dead after the loop" of [unroll_preserves] cannot be dropped *)
Example unroll_loopvar_not_preserved :
  run_observe [] 50 ex_unroll [("i", 7)] [] ["i"] [] = Some [0] /\
  run_observe [] 50 (do_unroll ex_unroll) [("i", 7)] [] ["i"] [] = Some [7].
Proof. vm_compute. split; reflexivity. Qed.

(** ** fusion / fission: name-level independent bodies *)
Definition exA : list stmt := [SStore "a" [EVar "i"] (ESum false [EVar "i"; EVar "n"])].
Definition exB : list stmt := [SAssign "t" (ESum false [EVar "t"; EVar "i"]); SStore "b" [EVar "i"] (EVar "t")].
Definition exM : string -> bool := inl ["i"; "a"; "b"; "t"].

Example indep_nonvacuous : indep_names exA exB = true.
Proof. vm_compute. reflexivity. Qed.

Example fuse_side_nonvacuous : fuse_side "i" exM exM (EInt 1) (EVar "n") None exA exB.
Proof. constructor; vm_compute; reflexivity. Qed.

Example fusion_instance ps s s1 :
  runs ps [SDo "i" (EInt 1) (EVar "n") None exA; SDo "i" (EInt 1) (EVar "n") None exB] s s1 ->
  exists s2, runs ps [SDo "i" (EInt 1) (EVar "n") None (exA ++ exB)] s s2 /\ sim (single "i") dnone s1 s2.
Proof.
  apply (fusion_preserves ps "i" exM exM); [exact fuse_side_nonvacuous|].
  apply indep_check_sound. exact indep_nonvacuous.
Qed.

(** the generator's syntactic check accepts same-index array flow, which [indep_names] rejects *)
Definition exB2 : list stmt := [SStore "b" [EVar "i"] (EProd false [ECall "a" [EVar "i"]; EInt 2])].
Example syntactic_indep_same_index :
  syntactic_indep "i" ["a"; "b"; "c"] exA exB2 = true /\ indep_names exA exB2 = false /\
  syntactic_indep "i" ["a"; "b"; "c"] exA [SStore "b" [EVar "i"] (ECall "a" [ESum false [EVar "i"; EInt 1]])] = false.
Proof. vm_compute. repeat split; reflexivity. Qed.

(** ** interchange: the iterations of  c(i,j) = i + j  commute *)
Definition ex_body : list stmt := [SStore "c" [EVar "i"; EVar "j"] (ESum false [EVar "i"; EVar "j"])].

Lemma list_z_eqb_eq a b : list_z_eqb a b = true -> a = b.
Proof.
  revert b. induction a as [|x a IH]; intros [|y b] H; cbn in H; try discriminate; [reflexivity|].
  apply andb_true_iff in H. destruct H as [H1 H2]. apply Z.eqb_eq in H1. subst. f_equal. now apply IH.
Qed.

Lemma ex_body_runs ps x y s s1 :
  runs ps ex_body (sets [("j", y); ("i", x)] s) s1 ->
  s1 = set_av "c" [x; y] (x + (y + 0)) (sets [("j", y); ("i", x)] s).
Proof.
  intros [f E]. destruct f as [|f]; [discriminate|]. unfold ex_body in E. rewrite exec_unfold in E.
  cbn [exec1] in E. cbn in E. destruct f; [discriminate|]. cbn in E. cbn [sets]. congruence.
Qed.

Lemma ex_body_runs' ps x y s :
  runs ps ex_body (sets [("j", y); ("i", x)] s) (set_av "c" [x; y] (x + (y + 0)) (sets [("j", y); ("i", x)] s)).
Proof. exists 2%nat. reflexivity. Qed.

Example iterations_commute_nonvacuous ps : iterations_commute ps "i" "j" ex_body.
Proof.
  intros [x y] [x' y'] Hpq s t s2 [Hs Ha] R.
  inversion R as [|l X r0 s0 s1 s3 R1 Hr]; subst. inversion Hr as [|l' X' r1 s4 s5 s6 R2 Hr']; subst.
  inversion Hr'; subst. cbn [fst snd] in *.
  apply ex_body_runs in R1. subst s1. apply ex_body_runs in R2. subst s2.
  eexists. split.
  - econstructor; [apply ex_body_runs'|]. econstructor; [apply ex_body_runs'|constructor].
  - cbn [fst snd]. split.
    + intros z Hz. unfold d2 in Hz. apply orb_false_iff in Hz. destruct Hz as [Hi Hj].
      cbn. rewrite Hi, Hj. now apply Hs; unfold d2; rewrite Hi, Hj.
    + intros a idx _. cbn.
      destruct (String.eqb a "c" && list_z_eqb idx [x'; y']) eqn:E1;
        destruct (String.eqb a "c" && list_z_eqb idx [x; y]) eqn:E2; try reflexivity; [|now apply Ha].
      apply andb_true_iff in E1. destruct E1 as [_ E1]. apply andb_true_iff in E2. destruct E2 as [_ E2].
      apply list_z_eqb_eq in E1. apply list_z_eqb_eq in E2. exfalso. apply Hpq. congruence.
Qed.

Example interchange_instance ps :
  seq_sim ps (d2 "i" "j") (map (it2 "i" "j" ex_body) (row_major [1; 2; 3] [5; 4]))
                          (map (it2 "i" "j" ex_body) (col_major [1; 2; 3] [5; 4])).
Proof.
  apply interchange_preserves_partial; [reflexivity| | |apply iterations_commute_nonvacuous].
  - repeat constructor; cbn; intuition lia.
  - repeat constructor; cbn; intuition lia.
Qed.

(** ** model outputs on small instances (shape of the transformed programs) *)
Example fusion_model_example :
  do_fusion [SSkip "$loki loop-fusion group(g)"; SDo "i" (EInt 1) (EVar "n") None exA;
             SSkip "$loki loop-fusion group(g)"; SDo "j" (EInt 1) (EVar "n") None [SStore "b" [EVar "j"] (EVar "j")]]
  = Some [SDo "i" (EInt 1) (EVar "n") None (exA ++ [SStore "b" [EVar "i"] (EVar "i")])].
Proof. vm_compute. reflexivity. Qed.

Example fission_model_example :
  do_fission [SDo "i" (EInt 1) (EVar "n") None (exA ++ [SSkip "$loki loop-fission"] ++ exB2)]
  = [SDo "i" (EInt 1) (EVar "n") None exA; SDo "i" (EInt 1) (EVar "n") None exB2].
Proof. vm_compute. reflexivity. Qed.

Example interchange_model_example :
  do_interchange [SSkip "$loki loop-interchange";
                  SDo "i" (EInt 1) (EVar "n") None [SDo "j" (EInt 2) (EInt 8) (Some (EInt 2)) ex_body]]
  = [SDo "j" (EInt 2) (EInt 8) (Some (EInt 2)) [SDo "i" (EInt 1) (EVar "n") None ex_body]].
Proof. vm_compute. reflexivity. Qed.
