(** C04 — concrete witnesses (computed by [vm_compute]) and a decision procedure for [Brk]. *)
From Coq Require Import ZArith List Bool String Ascii Lia.
From LV Require Import models.M_C04 proofs.P_C04.
Import ListNotations.
Open Scope Z_scope.

(** * Deciding [Brk]: completeness of a backtracking checker (used to refute [Brk] on witnesses) *)
Fixpoint strip_prefix (pre s : str) : option str :=
  match pre, s with
  | [], _ => Some s
  | c :: pre', d :: s' => if Ascii.eqb c d then strip_prefix pre' s' else None
  | _ :: _, [] => None
  end.

Lemma strip_prefix_app pre s : strip_prefix pre (pre ++ s) = Some s.
Proof. induction pre as [|c r IH]; cbn; [reflexivity | now rewrite Ascii.eqb_refl]. Qed.

Fixpoint brkb (cc : str) (n : nat) (s t : str) : bool :=
  match n with
  | O => false
  | S n' =>
    (match s, t with
     | [], [] => true
     | c :: s', d :: t' => Ascii.eqb c d && brkb cc n' s' t'
     | _, _ => false
     end)
    || (match cc, strip_prefix cc t with
        | _ :: _, Some t' => brkb cc n' s t'
        | _, _ => false
        end)
  end.

Lemma brkb_complete p s t : Brk p s t -> forall n, (List.length t < n)%nat -> brkb (c0 p ++ c1 p) n s t = true.
Proof.
  induction 1 as [|c s t H IH|s t H IH]; intros n Hn.
  - destruct n; [lia | reflexivity].
  - destruct n; [cbn in Hn; lia|]. cbn [brkb]. rewrite Ascii.eqb_refl, IH; [reflexivity | cbn in Hn; lia].
  - destruct (c0 p ++ c1 p) as [|x cc] eqn:E.
    + apply app_eq_nil in E. destruct E as [E0 E1]. rewrite E0, E1 in *. cbn [app] in *. apply IH. exact Hn.
    + destruct n; [lia|]. cbn [brkb].
      rewrite app_assoc, E, strip_prefix_app, IH.
      * apply orb_true_r.
      * rewrite app_assoc, E, app_length in Hn. cbn in Hn. lia.
Qed.

Lemma brkb_refutes p s t : brkb (c0 p ++ c1 p) (S (List.length t)) s t = false -> ~ Brk p s t.
Proof. intros H B. rewrite (brkb_complete p s t B) in H; [discriminate | lia]. Qed.

(** * Witnesses *)
Definition L (s : string) : str := list_ascii_of_string s.
Definition rep (c : string) (n : nat) : str := List.concat (repeat (L c) n).
Definition nl : str := [ch_nl].

(** the continuation of the Fortran backend at indentation [ind]: [' &\n' + indent + '& '] *)
Definition fcont0 : str := L " &" ++ nl.
Definition fcont1 (ind : nat) : str := rep " " ind ++ L "& ".
Definition fstyle (w : Z) (ind : nat) : P := mkP [] w fcont0 (fcont1 ind) true.

(** F13: [x = 'aaa...''bbb...'] at indentation 4, width 132: broken between the two halves of the doubled quote *)
Definition f13_items : list str :=
  [rep " " 4; L "x = "; L "'" ++ rep "a" 70 ++ L "''" ++ rep "b" 70 ++ L "'"].
Definition f13_pre : str := rep " " 4 ++ L "x = '" ++ rep "a" 70 ++ L "'".
Definition f13_post : str := L "'" ++ rep "b" 70 ++ L "'".

Lemma f13_witness :
  text_of (wrap_lines (fstyle 132 4) f13_items []) = f13_pre ++ c0 (fstyle 132 4) ++ c1 (fstyle 132 4) ++ f13_post /\
  flat_skip (fstyle 132 4) f13_items = f13_pre ++ f13_post /\
  cut_in_literal f13_pre f13_post = true.
Proof. vm_compute. repeat split. Qed.

(** the same defect on a literal that is not long at all: [... // ' it''s broken'] is cut whenever the line ends there *)
Definition f13s_items : list str :=
  [rep " " 2; L "x = "; L "trim(y) // ' is not what it''s meant to be' // trim(y) // ' it''s broken'"].
Definition f13s_pre : str := L "  x = trim(y) // ' is not what it'".
Lemma f13s_witness :
  let p := fstyle 40 2 in
  let text := text_of (wrap_lines p f13s_items []) in
  let k := List.length f13s_pre in
  firstn k text = f13s_pre /\
  firstn (List.length (c0 p ++ c1 p)) (skipn k text) = c0 p ++ c1 p /\
  firstn k (flat_skip p f13s_items) = f13s_pre /\
  cut_in_literal f13s_pre (skipn k (flat_skip p f13s_items)) = true.
Proof. vm_compute. repeat split. Qed.

(** what is printed when nothing has to be wrapped: [sep.join] of the non-empty items, recursively *)
Section FlatSk.
  Variable f : item -> str.
  Fixpoint flatsk_list (sp : str) (l : list item) : str :=
    match l with
    | [] => []
    | x :: t => match f x with
                | [] => flatsk_list sp t
                | fx => fx ++ match t with [] => [] | _ => sp end ++ flatsk_list sp t
                end
    end.
End FlatSk.
Fixpoint flatsk (it : item) : str :=
  match it with IStr s => s | IJ q its => flatsk_list flatsk (sep q) its end.

(** F13b at the level of JoinableStringList: a list nested two levels down that needs wrapping itself is rendered by
    [str()] first and the continuation markers inside that text are then split and re-wrapped as if they were content. *)
Definition p20 (sp : string) : P := mkP (L sp) 20 fcont0 (L "& ") true.
Definition nested_bad : item :=
  IJ (p20 "") [IStr (L "x "); IJ (p20 ", ") [IJ (p20 ", ") [IStr (rep "a" 12); IStr (rep "b" 12)]; IStr (L "c")]].

Lemma nested_rewrap_refuted :
  exists text, str_of 40 nested_bad = Ok text /\ ~ Brk (p20 "") (flatsk nested_bad) text.
Proof.
  eexists. split; [vm_compute; reflexivity|].
  apply brkb_refutes. vm_compute. reflexivity.
Qed.

(** an empty item inside a nested list: the chunk path joins the items without skipping it, so the wrapped text has a
    separator that the unwrapped text has not *)
Definition empty_bad : item :=
  IJ (p20 "") [IStr (L "pre "); IJ (p20 ", ") [IStr (rep "a" 30); IStr []; IStr (L "b")]].
Lemma empty_item_refuted :
  exists text, str_of 40 empty_bad = Ok text /\ ~ Brk (p20 "") (flatsk empty_bad) text.
Proof.
  eexists. split; [vm_compute; reflexivity|].
  apply brkb_refutes. vm_compute. reflexivity.
Qed.

(** [str()] can raise: the re-entry with [stop_on_continuation] returns [None] when nothing was broken *)
Definition attr_bad : item :=
  IJ (mkP [] 20 nl [] true) [IJ (mkP (L ", ") 20 nl [] true) [IStr []; IStr (rep "a" 30)]].
Lemma attribute_error_witness : str_of 40 attr_bad = Err EAttr.
Proof. vm_compute. reflexivity. Qed.

(** * Non-vacuity: a wrapped call statement, 3 lines, all within 60 columns *)
Definition ex_items : list str :=
  [rep " " 4; L "CALL "; L "compute_tendencies"; L "(";
   L "temperature(jl, jk), humidity(jl, jk), pressure_at_half_levels(jl, jk + 1), 'units: K', state%field(jk)%ptr";
   L ")"].
Example ex_wraps :
  fst (wrap_lines (fstyle 60 4) ex_items []) <> [] /\
  Forall (fun l => len l <= 60) (fst (wrap_lines (fstyle 60 4) ex_items [])) /\
  len (snd (wrap_lines (fstyle 60 4) ex_items [])) + 3 <= 60.
Proof. vm_compute. repeat split; try discriminate; repeat constructor; discriminate. Qed.

(** an unbreakable chunk longer than the line: the exception in the width theorem is needed *)
Example ex_unbreakable :
  30 <? len (snd (wrap_lines (fstyle 30 2) [rep " " 2; L "x = "; L "'" ++ rep "a" 40 ++ L "'"] [])) = true.
Proof. vm_compute. reflexivity. Qed.
