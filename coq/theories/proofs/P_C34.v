(** C34 — small proofs: type-bound call resolution, refutation witnesses for the unconditional statements,
    non-trivial instances of the class predicates.  The main proofs are in P_C34_sim (generic simulation),
    P_C34_dedup, P_C34_seq (+ P_C34_arith), P_C34_shape, P_C34_dt. *)
From Coq Require Import ZArith List Bool String Ascii Lia.
From LV Require Import Base.Expr Base.MiniF models.M_C34.
Import ListNotations.
Open Scope Z_scope.
Open Scope string_scope.

(* ------------------------------------------------------------------------------------------------ *)
(** * type-bound calls: the code's rewrite is the meaning of the call when every binding passes the object first *)

Definition all_pass_first (bs : list binding) : bool :=
  forallb (fun b => match b_pass b with PassFirst => true | _ => false end) bs.

Lemma find_binding_in bs ty b x : find_binding bs ty b = Some x -> In x bs.
Proof.
  induction bs as [|y r IH]; cbn; [discriminate|].
  destruct (String.eqb (b_type y) ty && String.eqb (b_name y) b).
  - intros E. injection E as <-. now left.
  - intros E. right. now apply IH.
Qed.

Lemma tb_call_meaning vt bs g args : all_pass_first bs = true -> tb_call vt bs g args = tb_meaning vt bs g args.
Proof.
  intros H. unfold tb_call, tb_meaning.
  destruct (split_pct g) as [[obj b]|]; [|reflexivity].
  destruct (assoc_s vt obj) as [ty|]; [|reflexivity].
  destruct (find_binding bs ty b) as [x|] eqn:E; [|reflexivity].
  apply find_binding_in in E. unfold all_pass_first in H. rewrite forallb_forall in H.
  specialize (H x E). destruct (b_pass x); try discriminate. reflexivity.
Qed.

Lemma tb_stmt_ext f1 f2 : (forall g a, f1 g a = f2 g a) -> forall st, tb_stmt f1 st = tb_stmt f2 st.
Proof.
  intros H. induction st using stmt_ind'; cbn [tb_stmt]; try reflexivity.
  - f_equal. induction H0 as [|x l Hx _ IH]; cbn; [reflexivity|]. now rewrite Hx, IH.
  - f_equal. induction H0 as [|x l Hx _ IH]; cbn; [reflexivity|]. now rewrite Hx, IH.
  - f_equal.
    + induction H0 as [|x l Hx _ IH]; cbn; [reflexivity|]. now rewrite Hx, IH.
    + induction H1 as [|x l Hx _ IH]; cbn; [reflexivity|]. now rewrite Hx, IH.
  - now rewrite H.
Qed.

Theorem typebound_resolution_preserves vt bs ss :
  all_pass_first bs = true -> tb_unit vt bs ss = tb_resolved vt bs ss.
Proof.
  intros H. unfold tb_unit, tb_resolved. apply map_ext. intros st.
  apply tb_stmt_ext. intros g a. now apply tb_call_meaning.
Qed.

(** a NOPASS binding: the code still inserts the object *)
Theorem typebound_resolution_refuted :
  exists vt bs ss, tb_unit vt bs ss <> tb_resolved vt bs ss.
Proof.
  exists [("t", "ty")], [{| b_type := "ty"; b_name := "np"; b_impl := "np_impl"; b_pass := NoPass |}],
         [SCall "t%np" [EVar "n"; EVar "r"]].
  vm_compute. discriminate.
Qed.

(* ------------------------------------------------------------------------------------------------ *)
(** * duplicate arguments: a non-trivial tree inside the class (cascade into a nested kernel, aliased dummies that
      are written), and a witness that merging dummies of different shape changes the result *)

Definition ex_q : unit :=
  {| u_name := "q"; u_params := [("u", PScal); ("v", PScal); ("w", PScal)]; u_locals := [];
     u_body := [SAssign "w" (ESum false [EVar "u"; EVar "v"; EVar "w"])] |}.
Definition ex_k : unit :=
  {| u_name := "k";
     u_params := [("x", PScal); ("y", PScal); ("p", PArr [DExpl (EInt 1) (EInt 4)]); ("q", PArr [DExpl (EInt 1) (EInt 4)]); ("r", PScal)];
     u_locals := [];
     u_body := [SStore "p" [EVar "x"] (ESum false [ECall "q" [EVar "x"]; EVar "y"]);
                SStore "q" [EInt 1] (ESum false [ECall "p" [EVar "x"]; EVar "y"]);
                SCall "q" [EVar "x"; EVar "y"; EVar "r"]] |}.
Definition ex_drv : unit :=
  {| u_name := "drv"; u_params := [("n", PScal); ("a", PArr [DExpl (EInt 1) (EInt 4)]); ("r", PScal)]; u_locals := [];
     u_body := [SCall "k" [EVar "n"; EVar "n"; EVar "a"; EVar "a"; EVar "r"]] |}.
Definition ex_t : table := [ex_drv; ex_k; ex_q].
Definition ex_pl : plan := [("k", [("y", "x"); ("q", "p")]); ("q", [("v", "u")])].

Example dedup_class_inhabited :
  plan_okb ex_pl ex_t = true /\
  sitesb (site_okb ex_pl ex_t []) (u_body ex_drv) = true /\
  chk_dedup_plan true "drv" ["drv"; "k"; "q"] ex_t = true /\
  (* the aliased arrays p and q are both written: by reference, the second store sees the first one *)
  rrun (to_rprocs ex_t) 20 [("a", [(1, 4)])] (u_body ex_drv) [("n", 2); ("r", 0)] [("a", [1], 11); ("a", [2], 12)] ["r"] [("a", [1]); ("a", [2])]
    = Some [4; 16; 14] /\
  rrun (to_rprocs (apply_plan ex_pl ex_t)) 20 [("a", [(1, 4)])] (tcalls (plan_tc ex_pl ex_t) (u_body ex_drv))
       [("n", 2); ("r", 0)] [("a", [1], 11); ("a", [2], 12)] ["r"] [("a", [1]); ("a", [2])] = Some [4; 16; 14].
Proof. vm_compute. repeat split; reflexivity. Qed.

(** dummies x(4) and y(2,2) laid over the same array: merging y into x is outside the class and changes the run *)
Definition w_k : unit :=
  {| u_name := "k";
     u_params := [("x", PArr [DExpl (EInt 1) (EInt 4)]); ("y", PArr [DExpl (EInt 1) (EInt 2); DExpl (EInt 1) (EInt 2)]); ("r", PScal)];
     u_locals := [];
     u_body := [SAssign "r" (ESum false [ECall "x" [EInt 3]; ECall "y" [EInt 1; EInt 2]])] |}.
Definition w_drv : unit :=
  {| u_name := "drv"; u_params := [("a", PArr [DExpl (EInt 1) (EInt 4)]); ("r", PScal)]; u_locals := [];
     u_body := [SCall "k" [EVar "a"; EVar "a"; EVar "r"]] |}.
Definition w_t : table := [w_drv; w_k].
Definition w_pl : plan := [("k", [("y", "x")])].

Theorem dedup_args_preserves_refuted :
  exists pl t f d fr ss s,
    plan_okb pl t = false /\
    rexec (to_rprocs t) f d fr ss s <> rexec (to_rprocs (apply_plan pl t)) f d fr (tcalls (plan_tc pl t) ss) s.
Proof.
  exists w_pl, w_t, 20%nat, 0%nat, (top_frame [("a", [(1, 4)])]), (u_body w_drv),
         (rinit [("r", 0)] [("a", [1], 11); ("a", [2], 12); ("a", [3], 13); ("a", [4], 14)]).
  split; [vm_compute; reflexivity|].
  intros E.
  assert (H : match rexec (to_rprocs w_t) 20 0 (top_frame [("a", [(1, 4)])]) (u_body w_drv)
                          (rinit [("r", 0)] [("a", [1], 11); ("a", [2], 12); ("a", [3], 13); ("a", [4], 14)]) with
              | Some s' => rsv s' (O, "r") | None => -1 end = 26) by (vm_compute; reflexivity).
  rewrite E in H. vm_compute in H. discriminate.
Qed.

(* ------------------------------------------------------------------------------------------------ *)
(** * explicit shapes: copying the caller's lower bound shifts every index *)

Definition lb_k : rproc :=
  {| rp_params := [("x", PArr [DShape]); ("r", PScal)]; rp_arrays := [];
     rp_body := [SAssign "r" (ECall "x" [EInt 1])] |}.
Definition lb_ps : rprocs := [("k", lb_k)].
Definition lb_sh : list (string * list dim) := [("x", [DExpl (EInt 0) (EInt 3)])].

Theorem explicit_shape_lower_bound_refuted :
  exists ps k p sh news args f d fr s,
    find_rproc ps k = Some p /\ es_static sh news p = true /\
    rexec1 (rexec ps f) ps d fr (SCall k args) s <>
    rexec1 (rexec (set_rproc ps k (es_proc sh news p)) f) (set_rproc ps k (es_proc sh news p)) d fr (SCall k (args ++ map EVar news)) s.
Proof.
  exists lb_ps, "k", lb_k, lb_sh, [], [EVar "a"; EVar "r"], 10%nat, 0%nat, (top_frame [("a", [(0, 3)])]),
         (rinit [("r", 0)] [("a", [0], 10); ("a", [1], 11); ("a", [2], 12); ("a", [3], 13)]).
  split; [reflexivity|]. split; [vm_compute; reflexivity|].
  intros E.
  assert (H : match rexec1 (rexec lb_ps 10) lb_ps 0 (top_frame [("a", [(0, 3)])]) (SCall "k" [EVar "a"; EVar "r"])
                           (rinit [("r", 0)] [("a", [0], 10); ("a", [1], 11); ("a", [2], 12); ("a", [3], 13)]) with
              | Some s' => rsv s' (O, "r") | None => -1 end = 10) by (vm_compute; reflexivity).
  rewrite E in H. vm_compute in H. discriminate.
Qed.

(* ------------------------------------------------------------------------------------------------ *)
(** * sequence association: an instance of the class; the rewritten call of the model *)

Definition sq_k : rproc :=
  {| rp_params := [("x", PArr [DExpl (EInt 1) (EInt 2)]); ("r", PScal)]; rp_arrays := [];
     rp_body := [SAssign "r" (ESum false [ECall "x" [EInt 1]; ECall "x" [EInt 2]]); SStore "x" [EInt 2] (EInt 0)] |}.
Definition sq_sh : shapes := [("b", Some [DExpl (EInt 1) (EInt 4); DExpl (EInt 0) (EInt 2)])].

Example seq_class_inhabited :
  seq_call sq_sh (rp_params sq_k) [ECall "b" [EVar "i"; EInt 1]; EVar "r"]
    = [ECall "b" [ECall ":" [EVar "i"; EInt 4]; EInt 1]; EVar "r"] /\
  seq_class (top_frame [("b", [(1, 4); (0, 2)])]) (rinit [("i", 3)] []) sq_sh
            (combine (rp_params sq_k) [ECall "b" [EVar "i"; EInt 1]; EVar "r"]).
Proof.
  split; [reflexivity|].
  cbn [seq_class combine rp_params sq_k]. split; [|split; exact I].
  unfold seq_arg_class. cbn.
  split; [reflexivity|].
  exists [DExpl (EInt 1) (EInt 4); DExpl (EInt 0) (EInt 2)], [3; 1].
  repeat split; try reflexivity. left. reflexivity.
Qed.
