(** C37 — proofs, part 3: the whole kernel body (outside horizontal loops) — factorisation into column runs. *)
From Coq Require Import ZArith List Bool String Lia.
From LV Require Import Base.Expr Base.MiniF Base.MiniFFacts models.M_C37 proofs.P_C37_base proofs.P_C37_in.
Import ListNotations.
Open Scope Z_scope.

Section OutMode.
Variable k : ctx.
Variable ps : procs.
Hypothesis WF : wf_ctx k = true.

(** cells the program cannot write: not a horizontal array, or first subscript outside the horizontal range *)
Definition outside (g : store) (a : string) (idx : list Z) : Prop :=
  mem a (k_H k) = false \/ match idx with [] => True | j :: _ => j < sv g (k_lo k) \/ sv g (k_hi k) < j end.

(** what one step of the global run means for every column of the range; [R] = the corresponding step of the column *)
Record oinv (R : store -> store -> Prop) (g g' : store) : Prop := {
  oi_lo : sv g' (k_lo k) = sv g (k_lo k);
  oi_hi : sv g' (k_hi k) = sv g (k_hi k);
  oi_frame : forall a idx, outside g a idx -> av g' a idx = av g a idx;
  oi_sim : forall i c, sv g (k_lo k) <= i <= sv g (k_hi k) -> agr k [] i g c -> exists c', R c c' /\ agr k [] i g' c' }.

Lemma oinv_refl (R : store -> store -> Prop) g : (forall c, R c c) -> oinv R g g.
Proof. intros HR. split; auto. intros i c _ H. exists c. split; [apply HR|exact H]. Qed.

Lemma oinv_trans (R1 R2 R3 : store -> store -> Prop) g g1 g' :
  (forall c c1 c', R1 c c1 -> R2 c1 c' -> R3 c c') -> oinv R1 g g1 -> oinv R2 g1 g' -> oinv R3 g g'.
Proof.
  intros HR [L1 H1 F1 S1] [L2 H2 F2 S2]. split.
  - congruence.
  - congruence.
  - intros a idx Ho. rewrite F2; [now apply F1|]. unfold outside in *. rewrite L1, H1. exact Ho.
  - intros i c Hi Hag. destruct (S1 i c Hi Hag) as [c1 [A1 B1]].
    rewrite <- L1, <- H1 in Hi. destruct (S2 i c1 Hi B1) as [c' [A2 B2]].
    exists c'. split; [eapply HR; eassumption|exact B2].
Qed.

Lemma oinv_weaken (R1 R2 : store -> store -> Prop) g g' :
  (forall c c', R1 c c' -> R2 c c') -> oinv R1 g g' -> oinv R2 g g'.
Proof.
  intros HR [L1 H1 F1 S1]. split; auto.
  intros i c Hi Hag. destruct (S1 i c Hi Hag) as [c' [A B]]. exists c'. split; auto.
Qed.

Lemma oinv_set x v g :
  x <> k_h k -> x <> k_lo k -> x <> k_hi k -> oinv (fun c c' => c' = set_sv x v c) g (set_sv x v g).
Proof.
  intros Hh Hl Hu. split.
  - cbn. destruct (String.eqb (k_lo k) x) eqn:E; [apply String.eqb_eq in E; congruence|reflexivity].
  - cbn. destruct (String.eqb (k_hi k) x) eqn:E; [apply String.eqb_eq in E; congruence|reflexivity].
  - reflexivity.
  - intros i c _ Hag. exists (set_sv x v c). split; [reflexivity|]. now apply agr_set_both_same.
Qed.

Lemma neqb_neq x y : negb (String.eqb x y) = true -> x <> y.
Proof. intros H E. subst. rewrite String.eqb_refl in H. discriminate. Qed.

(** * a horizontal loop *)
Lemma hloop body D' :
  chk_in k false [] body = Some D' ->
  forall n j0 g g', loop_runs ps body (k_h k) 1 n j0 g g' ->
  (forall x, x <> k_h k -> mem x (k_L k) = false -> sv g' x = sv g x) /\
  (forall a idx, mem a (k_H k) = false \/ match idx with [] => True | j :: _ => j < j0 \/ j0 + Z.of_nat n <= j end ->
                 av g' a idx = av g a idx) /\
  (forall i c, agr k [] i g c -> i < j0 \/ j0 + Z.of_nat n <= i -> agr k [] i g' c) /\
  (forall i c, agr k [] i g c -> j0 <= i < j0 + Z.of_nat n ->
               exists c', runs ps (project (k_h k) body) c c' /\ agr k [] i g' c').
Proof.
  intros Eb. induction n as [|n IHn]; intros j0 g g' Hl; inversion Hl; subst.
  - split; [|split; [|split]].
    + intros x Hx _. cbn. destruct (String.eqb x (k_h k)) eqn:E; [apply String.eqb_eq in E; congruence|reflexivity].
    + reflexivity.
    + intros i c Hag _. now apply agr_set_h_left.
    + intros i c _ Hi. cbn in Hi. lia.
  - match goal with H1 : runs _ _ _ _, H2 : loop_runs _ _ _ _ _ _ _ _ |- _ => rename H1 into R1; rename H2 into R2 end.
    assert (Hh0 : sv (set_sv (k_h k) j0 g) (k_h k) = j0) by (cbn; now rewrite String.eqb_refl).
    pose proof (in_frame k ps WF body [] D' _ _ j0 Eb Hh0 R1) as F1.
    destruct (IHn (j0 + 1) s1 g' R2) as [I1 [I2 [I3 I4]]].
    destruct F1 as [F1a F1b].
    assert (Hother : forall i c, i <> j0 -> agr k [] i g c -> agr k [] i s1 c).
    { intros i c Hi Hag. eapply (agr_other_column k [] i j0); [congruence| |split; eassumption].
      now apply agr_set_h_left. }
    split; [|split; [|split]].
    + intros x Hx Hl0. rewrite (I1 x Hx Hl0), (F1a x Hl0). cbn.
      destruct (String.eqb x (k_h k)) eqn:E; [apply String.eqb_eq in E; congruence|reflexivity].
    + intros a idx Hc. rewrite I2, F1b; [reflexivity| |].
      * destruct Hc as [Hc|Hc]; [now left|right]. destruct idx as [|j r]; cbn; [discriminate|]. intros E. inversion E. lia.
      * destruct Hc as [Hc|Hc]; [now left|right]. destruct idx as [|j r]; [exact I|]. lia.
    + intros i c Hag Hi. apply I3; [|lia]. apply Hother; [lia|exact Hag].
    + intros i c Hag Hi. destruct (Z.eq_dec i j0) as [->|Hne].
      * destruct (in_sim k ps WF j0 body [] D' (set_sv (k_h k) j0 g) c s1 Eb (agr_set_h_left k [] j0 g c j0 Hag) Hh0 R1)
          as [c1 [C1 [A1 _]]].
        exists c1. split; [exact C1|]. apply I3; [|lia]. eapply agr_nil. exact A1.
      * apply I4; [|lia]. apply Hother; assumption.
Qed.

(** * statements outside horizontal loops *)
Definition out_s (s : stmt) : Prop :=
  forall g g', chk_out_s k false s = true -> runs1 ps s g g' -> oinv (runs ps (proj_s (k_h k) s)) g g'.

Definition out_l (l : list stmt) : Prop :=
  forall g g', forallb (chk_out_s k false) l = true -> runs ps l g g' -> oinv (runs ps (project (k_h k) l)) g g'.

Lemma out_list l : Forall out_s l -> out_l l.
Proof.
  induction 1 as [|s r Hs _ IH]; intros g g' E Hr.
  - apply runs_nil_inv in Hr. subst. apply oinv_refl. intros c. apply runs_nil.
  - cbn in E. apply andb_true_iff in E. destruct E as [E1 E2].
    apply runs_cons_inv in Hr. destruct Hr as [g1 [R1 R2]].
    eapply oinv_trans; [|apply (Hs g g1 E1 R1)|apply (IH g1 g' E2 R2)].
    intros c c1 c' A B. unfold project. cbn [flat_map]. eapply runs_app; eassumption.
Qed.

Lemma oloop v d body :
  v <> k_h k -> v <> k_lo k -> v <> k_hi k ->
  (forall g g', runs ps body g g' -> oinv (runs ps (project (k_h k) body)) g g') ->
  forall n a0 g g', loop_runs ps body v d n a0 g g' -> oinv (loop_runs ps (project (k_h k) body) v d n a0) g g'.
Proof.
  intros Hh Hl Hu Hb. induction n as [|n IHn]; intros a0 g g' Hr; inversion Hr; subst.
  - eapply oinv_weaken; [|apply (oinv_set v a0 g Hh Hl Hu)]. intros c c' ->. constructor.
  - match goal with H1 : runs _ _ _ _, H2 : loop_runs _ _ _ _ _ _ _ _ |- _ => rename H1 into R1; rename H2 into R2 end.
    apply (oinv_trans (fun c c' => c' = set_sv v a0 c)
             (fun c c' => exists c1, runs ps (project (k_h k) body) c c1 /\ loop_runs ps (project (k_h k) body) v d n (a0 + d) c1 c')
             _ g (set_sv v a0 g) g').
    + intros c c1 c' -> [c2 [A B]]. econstructor; eassumption.
    + apply (oinv_set v a0 g Hh Hl Hu).
    + eapply oinv_trans; [|apply (Hb _ _ R1)|apply (IHn _ _ _ R2)]. intros c c1 c' A B. exists c1. exact (conj A B).
Qed.

Lemma trip_of_nat a b : Z.of_nat (Z.to_nat (trip_count a b 1)) = Z.max 0 (b - a + 1).
Proof. unfold trip_count. rewrite Z.quot_1_r. apply Z2Nat.id. lia. Qed.

Lemma out_all : forall s, out_s s.
Proof.
  destruct (lo_hi_facts k WF) as [Llo [Lhi [Nlo Nhi]]].
  induction s using stmt_ind'; intros g g' E Hr.
  - (* uniform assignment *)
    cbn in E. apply andb_true_iff in E. destruct E as [E He]. apply andb_true_iff in E. destruct E as [E E3].
    apply andb_true_iff in E. destruct E as [E1 E2].
    apply neqb_neq in E1. apply neqb_neq in E2. apply neqb_neq in E3.
    apply runs1_assign_inv in Hr. destruct Hr as [v [Ev ->]].
    pose proof (oinv_set x v g E1 E2 E3) as [A B C S]. split; auto.
    intros i c Hi Hag. destruct (S i c Hi Hag) as [c' [-> Hag']]. exists (set_sv x v c). split; [|exact Hag'].
    cbn [proj_s]. apply runs_single. apply runs1_assign.
    rewrite <- (ok_e_evalZ k [] i g c false e Hag (fun H => False_ind _ (Bool.diff_false_true H)) He). exact Ev.
  - cbn in E. discriminate.
  - cbn [chk_out_s] in E. destruct (String.eqb v (k_h k)) eqn:Evh.
    + (* horizontal loop *)
      apply String.eqb_eq in Evh. subst v.
      apply andb_true_iff in E. destruct E as [E E4]. apply andb_true_iff in E. destruct E as [E E3].
      apply andb_true_iff in E. destruct E as [E1 E2].
      apply is_var_inv in E1. apply is_var_inv in E2. subst lo hi. destruct st; [discriminate|].
      destruct (chk_in k false [] b) as [D'|] eqn:Eb; [|discriminate].
      apply runs1_do in Hr. destruct Hr as [a0 [b0 [d [Ea [Eb0 [Ed [Hd Hl]]]]]]].
      cbn in Ea, Eb0, Ed. inversion Ea. inversion Eb0. inversion Ed. subst a0 b0 d. clear Ea Eb0 Ed.
      destruct (hloop b D' Eb _ _ g g' Hl) as [I1 [I2 [I3 I4]]].
      rewrite trip_of_nat in *.
      split.
      * now apply I1.
      * now apply I1.
      * intros a idx Ho. apply I2. destruct Ho as [Ho|Ho]; [now left|right]. destruct idx as [|j r]; [exact I|]. lia.
      * intros i c Hi Hag. cbn [proj_s]. rewrite String.eqb_refl. apply I4; [exact Hag|lia].
    + (* vertical loop around horizontal loops *)
      apply andb_true_iff in E. destruct E as [E E7]. apply andb_true_iff in E. destruct E as [E E6].
      apply andb_true_iff in E. destruct E as [E E5]. apply andb_true_iff in E. destruct E as [E E4].
      apply andb_true_iff in E. destruct E as [E E3]. apply andb_true_iff in E. destruct E as [E1 E2].
      apply neqb_neq in E2. apply neqb_neq in E3.
      assert (Hvh : v <> k_h k) by (intros ->; rewrite String.eqb_refl in Evh; discriminate).
      apply runs1_do in Hr. destruct Hr as [a0 [b0 [d [Ea [Eb0 [Ed [Hd Hl]]]]]]].
      pose proof (oloop v d b Hvh E2 E3 (fun g0 g1 R => out_list b H g0 g1 E7 R) _ a0 g g' Hl) as [A B C S].
      split; auto. intros i c Hi Hag. destruct (S i c Hi Hag) as [c' [Lc Hag']]. exists c'. split; [|exact Hag'].
      cbn [proj_s]. rewrite Evh. apply runs_single. apply runs1_do. exists a0, b0, d. repeat split; auto.
      * rewrite <- (ok_e_evalZ k [] i g c false lo Hag (fun H => False_ind _ (Bool.diff_false_true H)) E4). exact Ea.
      * rewrite <- (ok_e_evalZ k [] i g c false hi Hag (fun H => False_ind _ (Bool.diff_false_true H)) E5). exact Eb0.
      * rewrite <- (ok_oe_eval k [] i g c false st Hag (fun H => False_ind _ (Bool.diff_false_true H)) E6). exact Ed.
  - cbn in E. discriminate.
  - (* uniform conditional *)
    cbn [chk_out_s] in E. apply andb_true_iff in E. destruct E as [E E3]. apply andb_true_iff in E. destruct E as [E1 E2].
    destruct Hr as [f Ef]. cbn in Ef. apply obind_some in Ef. destruct Ef as [bv [Ebv Ef]].
    assert (Hbr : oinv (runs ps (project (k_h k) (if bv then t else e))) g g').
    { destruct bv; [apply (out_list t H g g' E2 (ex_intro _ f Ef))|apply (out_list e H0 g g' E3 (ex_intro _ f Ef))]. }
    destruct Hbr as [A B C S]. split; auto.
    intros i q Hi Hag. destruct (S i q Hi Hag) as [q' [Rq Hag']]. exists q'. split; [|exact Hag'].
    cbn [proj_s]. apply runs_single.
    assert (Ebq : evalB (env_st q) c = Some bv).
    { rewrite <- (ok_e_evalB k [] i g q false c Hag (fun H => False_ind _ (Bool.diff_false_true H)) E1). exact Ebv. }
    apply (runs1_if ps _ _ _ _ _ bv Ebq). destruct bv; exact Rq.
  - cbn in E. discriminate.
  - destruct Hr as [f Ef]. cbn in Ef. inversion Ef. subst g'. cbn [proj_s]. apply oinv_refl. intros c. apply runs_nil.
Qed.

Theorem out_sim l : out_l l.
Proof. apply out_list. apply Forall_forall. intros s _. apply out_all. Qed.

End OutMode.

(** * the factorisation theorem (forward direction): a run of a class program IS, column by column, a run of the
    per-column program; everything else is untouched *)
Lemma agr_start k i s : agr k [] i s (set_sv (k_h k) i s).
Proof.
  split.
  - intros x Hx _. cbn. destruct (String.eqb x (k_h k)) eqn:E; [apply String.eqb_eq in E; congruence|reflexivity].
  - cbn. now rewrite String.eqb_refl.
  - reflexivity.
  - reflexivity.
Qed.

Theorem factorises_fwd k ps p s s' :
  in_class k false p = true -> runs ps p s s' ->
  (forall i, sv s (k_lo k) <= i <= sv s (k_hi k) ->
     exists ci, runs ps (project (k_h k) p) (set_sv (k_h k) i s) ci /\
                (forall a r, mem a (k_H k) = true -> av s' a (i :: r) = av ci a (i :: r))) /\
  (forall a idx, outside k s a idx -> av s' a idx = av s a idx).
Proof.
  intros Hc Hr. unfold in_class in Hc. apply andb_true_iff in Hc. destruct Hc as [WF Hc].
  destruct (out_sim k ps WF p s s' Hc Hr) as [A B C S]. split; [|exact C].
  intros i Hi. destruct (S i _ Hi (agr_start k i s)) as [ci [Rc Hag]].
  exists ci. split; [exact Rc|]. intros a r Ha. now apply (ag_col k _ _ _ _ Hag).
Qed.
