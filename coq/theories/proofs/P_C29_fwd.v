(** C29 — proofs, part 2: forward simulation (source run => run of the resolved program). *)
From Coq Require Import ZArith List Bool String Lia.
From LV Require Import Base.Expr Base.MiniF Base.MiniFFacts models.M_C29 proofs.P_C29.
Import ListNotations.
Open Scope Z_scope.

Lemma resolve_list_cons sg st rest : resolve_list sg (st :: rest) = resolve_stmt sg st ++ resolve_list sg rest.
Proof. reflexivity. Qed.
Lemma resolve_do sg v lo hi stp body :
  resolve_stmt sg (ADo v lo hi stp body) =
  [SDo (subst_name sg v) (subst sg lo) (subst sg hi) (option_map (subst sg) stp) (resolve_list sg body)].
Proof. reflexivity. Qed.
Lemma resolve_if sg c tb eb :
  resolve_stmt sg (AIf c tb eb) = [SIf (subst sg c) (resolve_list sg tb) (resolve_list sg eb)].
Proof. reflexivity. Qed.
Lemma resolve_assoc sg assocs body :
  resolve_stmt sg (AAssoc assocs body) = resolve_list (subst_assocs sg assocs ++ sg) body.
Proof. reflexivity. Qed.

Lemma cls_stmt_do sg v lo hi stp body :
  cls_stmt sg (ADo v lo hi stp body) =
  okV sg v && okE sg lo && okE sg hi && (match stp with Some e => okE sg e | None => true end) && cls sg body.
Proof. reflexivity. Qed.
Lemma cls_stmt_if sg c tb eb : cls_stmt sg (AIf c tb eb) = okE sg c && cls sg tb && cls sg eb.
Proof. reflexivity. Qed.
Lemma cls_stmt_assoc sg assocs body :
  cls_stmt sg (AAssoc assocs body) =
  forallb (fun p => okS sg (snd p)) assocs && forallb (fun p => sel_ok (snd p)) (subst_assocs sg assocs)
  && stable_sels (subst_assocs sg assocs) (writes (resolve_list (subst_assocs sg assocs ++ sg) body))
  && cls (subst_assocs sg assocs ++ sg) body.
Proof. reflexivity. Qed.

Lemma runs_assign x e s v : evalZ (env_st s) e = Some v -> runs [] [SAssign x e] s (set_sv x v s).
Proof. intros E. apply runs_single. now apply runs1_assign. Qed.

Lemma runs_store a idx e s i v :
  omap_list (evalZ (env_st s)) idx = Some i -> evalZ (env_st s) e = Some v ->
  runs [] [SStore a idx e] s (set_av a i v s).
Proof.
  intros Ei Ev. apply runs_single. exists 0%nat. cbn [exec1]. unfold eval_idx. rewrite Ei. cbn [obind]. now rewrite Ev.
Qed.

Lemma sg_ok_app sg1 sg2 : sg_ok sg1 -> sg_ok sg2 -> sg_ok (sg1 ++ sg2).
Proof. unfold sg_ok. intros. apply Forall_app. split; assumption. Qed.

Lemma sg_ok_of_forallb sgn : forallb (fun p => sel_ok (snd p)) sgn = true -> sg_ok sgn.
Proof. unfold sg_ok. intros H. apply Forall_forall. intros p Hp. rewrite forallb_forall in H. now apply H. Qed.

Lemma dovar_subst s rho sg v v' : agree s rho sg -> okV sg v = true -> dovar rho v = Some v' -> subst_name sg v = v'.
Proof.
  intros Hag Hk Hd. pose proof (agree_lookup _ _ _ Hag v) as L. unfold okV, dovar, subst_name in *.
  destruct (lookup rho v) as [b|]; destruct (lookup sg v) as [sl|]; try contradiction.
  - destruct sl as [y| |]; try discriminate. cbn in L. inversion L; subst. now inversion Hd.
  - now inversion Hd.
Qed.

Lemma agree_set_sv s rho sg x v w : agree s rho sg -> stableP sg w -> In x w -> agree (set_sv x v s) rho sg.
Proof.
  intros Hag Hst Hx. eapply agree_same; [exact Hag|]. intros p Hp n Hn.
  apply same_on_set_sv. intros ->. eapply Hst; eassumption.
Qed.

Section Step.
  Variable f : nat.
  Hypothesis IH : forall rho sg ss s s',
    aexec f rho ss s = Some s' -> agree s rho sg -> sg_ok sg -> cls sg ss = true ->
    stableP sg (writes (resolve_list sg ss)) -> runs [] (resolve_list sg ss) s s'.

  Lemma fwd_stmt rho sg st s s1 :
    aexec1 f rho st s = Some s1 -> agree s rho sg -> sg_ok sg -> cls_stmt sg st = true ->
    stableP sg (writes (resolve_stmt sg st)) -> runs [] (resolve_stmt sg st) s s1.
  Proof.
    intros E Hag Hok Hc Hst. unfold aexec1 in E.
    destruct st as [x e|a idx e|v lo hi stp body|c tb eb|l|assocs body]; cbn [aexec1_with] in E.
    - (* assignment *)
      apply obind_some in E. destruct E as [v [Ev E]].
      cbn [cls_stmt] in Hc. apply andb_prop in Hc. destruct Hc as [He Hw].
      rewrite (subst_evalZ s rho sg Hag Hok e He) in Ev.
      pose proof (agree_lookup _ _ _ Hag x) as L.
      cbn [resolve_stmt]. unfold resolve_assign, write_scalar, okW in *.
      destruct (lookup rho x) as [b|] eqn:Lr; destruct (lookup sg x) as [sl|] eqn:Ls; try contradiction.
      + pose proof (sg_ok_lookup _ _ _ Hok Ls) as Hs.
        destruct sl as [y|a ds|e']; [| |discriminate].
        * cbn in L. inversion L; subst. inversion E; subst. now apply runs_assign.
        * cbn [bind_of lookup] in L. apply obind_some in L. destruct L as [bds [Hb L]]. inversion L; subst; clear L.
          apply is_some_true in Hw. destruct Hw as [ix Hf]. rewrite Hf.
          cbn [sel_ok] in Hs. apply andb_prop in Hs. destruct Hs as [_ Hu].
          destruct (fillz bds []) as [i|] eqn:Hz; [|discriminate]. cbn in E. inversion E; subst.
          apply runs_store; [|exact Ev]. rewrite (fill_eval s ds bds [] ix Hb Hu Hf). cbn. exact Hz.
      + inversion E; subst. now apply runs_assign.
    - (* array store *)
      apply obind_some in E. destruct E as [i [Ei E]]. apply obind_some in E. destruct E as [v [Ev E]].
      cbn [cls_stmt] in Hc. apply andb_prop in Hc. destruct Hc as [Hc Hw]. apply andb_prop in Hc. destruct Hc as [Hi He].
      rewrite (subst_evalZ s rho sg Hag Hok e He) in Ev. rewrite (subst_idx s rho sg Hag Hok idx Hi) in Ei.
      pose proof (agree_lookup _ _ _ Hag a) as L.
      cbn [resolve_stmt]. unfold resolve_store, write_elem, okWa in *.
      destruct (lookup rho a) as [b|] eqn:Lr; destruct (lookup sg a) as [sl|] eqn:Ls; try contradiction.
      + pose proof (sg_ok_lookup _ _ _ Hok Ls) as Hs.
        destruct sl as [y|a0 ds|e']; [| |discriminate].
        * cbn in L. inversion L; subst. inversion E; subst. now apply runs_store.
        * cbn [bind_of lookup] in L. apply obind_some in L. destruct L as [bds [Hb L]]. inversion L; subst; clear L.
          apply is_some_true in Hw. destruct Hw as [ix Hf]. rewrite Hf.
          cbn [sel_ok] in Hs. apply andb_prop in Hs. destruct Hs as [_ Hu].
          destruct (fillz bds i) as [j|] eqn:Hz; [|discriminate]. cbn in E. inversion E; subst.
          apply runs_store; [|exact Ev]. rewrite (fill_eval s ds bds _ ix Hb Hu Hf). rewrite Ei. cbn. exact Hz.
      + inversion E; subst. now apply runs_store.
    - (* DO *)
      apply obind_some in E. destruct E as [v' [Ed E]]. apply obind_some in E. destruct E as [a [Ea E]].
      apply obind_some in E. destruct E as [b [Eb E]]. apply obind_some in E. destruct E as [d [Edd E]].
      destruct (d =? 0) eqn:Ez; [discriminate|].
      rewrite cls_stmt_do in Hc. repeat (apply andb_prop in Hc; destruct Hc as [Hc ?]).
      rewrite resolve_do in *. rewrite (dovar_subst s rho sg v v' Hag Hc Ed) in *.
      apply runs_single. apply runs1_do. exists a, b, d.
      rewrite <- (subst_evalZ s rho sg Hag Hok lo) by assumption.
      rewrite <- (subst_evalZ s rho sg Hag Hok hi) by assumption.
      repeat split; try assumption.
      + destruct stp as [e|]; [|exact Edd]. cbn [option_map]. now rewrite <- (subst_evalZ s rho sg Hag Hok e).
      + now apply Z.eqb_neq.
      + unfold writes in Hst. cbn [flat_map writes_stmt] in Hst. rewrite app_nil_r in Hst.
        fold (writes (resolve_list sg body)) in Hst.
        assert (Hstb : stableP sg (writes (resolve_list sg body))).
        { eapply stableP_incl; [exact Hst|]. intros n Hn. now right. }
        clear Ea Eb Edd. revert Hag E. generalize (Z.to_nat (trip_count a b d)) as k. intros k. revert a s.
        induction k as [|k IHk]; intros i s Hag E; cbn [do_loop] in E.
        * inversion E; subst. constructor.
        * apply obind_some in E. destruct E as [s2 [E1 E2]].
          assert (Hag1 : agree (set_sv v' i s) rho sg) by (eapply agree_set_sv; [exact Hag|exact Hst|now left]).
          assert (R : runs [] (resolve_list sg body) (set_sv v' i s) s2) by (eapply IH; eassumption).
          econstructor; [exact R|]. apply IHk; [|exact E2].
          eapply agree_runs; eassumption.
    - (* IF *)
      apply obind_some in E. destruct E as [b [Eb E]].
      rewrite cls_stmt_if in Hc. apply andb_prop in Hc. destruct Hc as [Hc Hce]. apply andb_prop in Hc. destruct Hc as [Hcc Hct].
      rewrite resolve_if in *. rewrite (subst_evalB s rho sg Hag Hok c Hcc) in Eb.
      apply runs_single. apply (runs1_if [] _ _ _ s s1 b Eb).
      unfold writes in Hst. cbn [flat_map writes_stmt] in Hst. rewrite app_nil_r in Hst.
      destruct b; (eapply IH; [exact E|exact Hag|exact Hok|assumption|]);
        (eapply stableP_incl; [exact Hst|]); intros n Hn; apply in_or_app; [left|right]; exact Hn.
    - (* skip *)
      inversion E; subst. apply runs_single. apply runs1_skip.
    - (* ASSOCIATE *)
      apply obind_some in E. destruct E as [beta [Eb E]].
      rewrite cls_stmt_assoc in Hc. repeat (apply andb_prop in Hc; destruct Hc as [Hc ?]).
      rewrite resolve_assoc in *.
      rewrite (bind_all_subst s rho sg Hag Hok assocs Hc) in Eb.
      eapply IH; [exact E| | |assumption|].
      + apply agree_app; [now apply bind_all_agree|exact Hag].
      + apply sg_ok_app; [now apply sg_ok_of_forallb|exact Hok].
      + apply stableP_app; [now apply stable_sels_spec|exact Hst].
  Qed.
End Step.

Lemma fwd : forall f rho sg ss s s',
  aexec f rho ss s = Some s' -> agree s rho sg -> sg_ok sg -> cls sg ss = true ->
  stableP sg (writes (resolve_list sg ss)) -> runs [] (resolve_list sg ss) s s'.
Proof.
  induction f as [|f IH]; intros rho sg ss s s' E Hag Hok Hc Hst; [discriminate|].
  destruct ss as [|st rest]; [inversion E; apply runs_nil|].
  cbn [aexec] in E. apply obind_some in E. destruct E as [s1 [E1 E2]].
  unfold cls in Hc. cbn [forallb] in Hc. apply andb_prop in Hc. destruct Hc as [Hc1 Hc2].
  rewrite resolve_list_cons in *. rewrite writes_app in Hst.
  assert (Hst1 : stableP sg (writes (resolve_stmt sg st))) by (eapply stableP_incl; [exact Hst|apply incl_appl, incl_refl]).
  assert (Hst2 : stableP sg (writes (resolve_list sg rest))) by (eapply stableP_incl; [exact Hst|apply incl_appr, incl_refl]).
  assert (R1 : runs [] (resolve_stmt sg st) s s1) by (eapply fwd_stmt; eassumption).
  eapply runs_app; [exact R1|].
  eapply IH; [exact E2| |exact Hok|exact Hc2|exact Hst2].
  eapply agree_runs; eassumption.
Qed.

(** the forward half of C29 for do_resolve_associates (start_depth = 0) *)
Theorem resolve_preserves_fwd ss : selectors_stable ss = true ->
  forall s s', aruns [] ss s s' -> runs [] (resolve ss) s s'.
Proof.
  intros Hc s s' [f E]. eapply fwd; [exact E|constructor|constructor|exact Hc|].
  intros p Hp. inversion Hp.
Qed.
