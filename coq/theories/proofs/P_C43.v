(** C43 — proofs about the model of the lint auto-fix mechanism (M_C43.v). *)
From Coq Require Import List String Ascii Bool Arith ZArith Lia.
From LV Require Import Base.Strings Base.Expr models.M_C43.
Import ListNotations.
Open Scope string_scope.
Open Scope list_scope.

(* ------------------------------------------------------------------------------------------------ *)
(** * Lines, lists *)
Lemma lines_eqb_eq a : forall b, lines_eqb a b = true <-> a = b.
Proof.
  induction a as [|x a IH]; intros [|y b]; cbn; try (split; congruence).
  rewrite andb_true_iff, String.eqb_eq, IH. split; [intros [-> ->]; reflexivity | intros H; inversion H; auto].
Qed.

Lemma lines_eqb_refl a : lines_eqb a a = true.
Proof. apply lines_eqb_eq. reflexivity. Qed.

Lemma concat_flat_map {A B} (f : A -> list (list B)) (l : list A) :
  List.concat (flat_map f l) = flat_map (fun x => List.concat (f x)) l.
Proof. induction l as [|x l IH]; cbn; [reflexivity|]. rewrite concat_app, IH. reflexivity. Qed.

Lemma flat_map_ext_Forall {A B} (f g : A -> list B) (l : list A) :
  Forall (fun x => f x = g x) l -> flat_map f l = flat_map g l.
Proof. induction 1; cbn; congruence. Qed.

Lemma flat_map_map {A B C} (f : A -> B) (g : B -> list C) (l : list A) :
  flat_map g (map f l) = flat_map (fun x => g (f x)) l.
Proof. induction l; cbn; congruence. Qed.

Lemma last_opt_app_one {A} (l : list A) (x : A) : last_opt (l ++ [x]) = Some x.
Proof.
  induction l as [|y l IH]; cbn; [reflexivity|].
  destruct (l ++ [x]) eqn:E; [destruct l; discriminate|]. exact IH.
Qed.

Lemma forallb_Forall {A} (p : A -> bool) (l : list A) : forallb p l = true <-> Forall (fun x => p x = true) l.
Proof.
  induction l; cbn; [split; auto|]. rewrite andb_true_iff, IHl. split; [intros []; constructor; auto | inversion 1; auto].
Qed.

(* ------------------------------------------------------------------------------------------------ *)
(** * Operator spelling *)
Lemma lower_ascii_quote c : is_quote (lower_ascii c) = is_quote c.
Proof. destruct c as [[] [] [] [] [] [] [] []]; reflexivity. Qed.

Lemma f90_spelling_not_f77 t : is_f77 (f90_spelling t) = false.
Proof.
  unfold f90_spelling, is_f77.
  destruct (lower t =? ".eq.") eqn:E1; [reflexivity|].
  destruct (lower t =? ".ne.") eqn:E2; [reflexivity|].
  destruct (lower t =? ".lt.") eqn:E3; [reflexivity|].
  destruct (lower t =? ".le.") eqn:E4; [reflexivity|].
  destruct (lower t =? ".gt.") eqn:E5; [reflexivity|].
  destruct (lower t =? ".ge.") eqn:E6; [reflexivity|].
  unfold f77_lower. rewrite E1, E2, E3, E4, E5, E6. reflexivity.
Qed.

Lemma is_f77_foldt t : is_f77 (foldt t) = is_f77 t.
Proof.
  unfold foldt. destruct (is_str_tok t); [reflexivity|]. unfold is_f77. rewrite lower_idem. reflexivity.
Qed.

Lemma f90_spelling_denote t op : denote t = Some op -> denote (f90_spelling t) = Some op.
Proof.
  unfold denote, f90_spelling.
  destruct (lower t =? ".eq.") eqn:E1; [apply String.eqb_eq in E1; rewrite E1; cbn; auto|].
  destruct (lower t =? ".ne.") eqn:E2; [apply String.eqb_eq in E2; rewrite E2; cbn; auto|].
  destruct (lower t =? ".lt.") eqn:E3; [apply String.eqb_eq in E3; rewrite E3; cbn; auto|].
  destruct (lower t =? ".le.") eqn:E4; [apply String.eqb_eq in E4; rewrite E4; cbn; auto|].
  destruct (lower t =? ".gt.") eqn:E5; [apply String.eqb_eq in E5; rewrite E5; cbn; auto|].
  destruct (lower t =? ".ge.") eqn:E6; [apply String.eqb_eq in E6; rewrite E6; cbn; auto|].
  rewrite E1, E2, E3, E4, E5, E6. auto.
Qed.

(** the operator denotes the same comparison in both spellings *)
Lemma f90_spelling_semantics t op a b :
  denote t = Some op ->
  exists op', denote (f90_spelling t) = Some op' /\ cmp_z op' a b = cmp_z op a b.
Proof. intros H. exists op. split; [apply f90_spelling_denote; exact H | reflexivity]. Qed.

Lemma f90_spelling_total t : is_f77 t = true -> exists op, denote t = Some op /\ denote (f90_spelling t) = Some op.
Proof.
  intros H. assert (exists op, denote t = Some op) as [op Hop].
  { unfold is_f77, f77_lower in H. unfold denote.
    destruct (lower t =? ".eq.") eqn:E1; [eexists; reflexivity|].
    destruct (lower t =? ".ne.") eqn:E2; [apply String.eqb_eq in E2; rewrite E2; cbn; eexists; reflexivity|].
    destruct (lower t =? ".lt.") eqn:E3; [apply String.eqb_eq in E3; rewrite E3; cbn; eexists; reflexivity|].
    destruct (lower t =? ".le.") eqn:E4; [apply String.eqb_eq in E4; rewrite E4; cbn; eexists; reflexivity|].
    destruct (lower t =? ".gt.") eqn:E5; [apply String.eqb_eq in E5; rewrite E5; cbn; eexists; reflexivity|].
    destruct (lower t =? ".ge.") eqn:E6; [apply String.eqb_eq in E6; rewrite E6; cbn; eexists; reflexivity|].
    discriminate. }
  exists op. split; [exact Hop | apply f90_spelling_denote; exact Hop].
Qed.

Lemma forallb_map {A B} (p : B -> bool) (f : A -> B) (l : list A) :
  forallb p (map f l) = forallb (fun x => p (f x)) l.
Proof. induction l; cbn; congruence. Qed.

Lemma forallb_ext' {A} (p q : A -> bool) (l : list A) : (forall x, p x = q x) -> forallb p l = forallb q l.
Proof. intros H. induction l; cbn; congruence. Qed.

Lemma toks_match_f77_free o r : toks_match o r = true -> f77_free r = true.
Proof.
  unfold toks_match, f77_free. intros H. apply lines_eqb_eq in H.
  assert (E : forallb (fun t => negb (is_f77 t)) (lex_lines r)
              = forallb (fun t => negb (is_f77 t)) (map foldt (lex_lines r))).
  { rewrite forallb_map. apply forallb_ext'. intros t. rewrite is_f77_foldt. reflexivity. }
  rewrite E, H, !forallb_map. apply forallb_forall. intros t _.
  rewrite is_f77_foldt, f90_spelling_not_f77. reflexivity.
Qed.

Lemma lex_lines_app a b : lex_lines (a ++ b) = lex_lines a ++ lex_lines b.
Proof. unfold lex_lines. apply flat_map_app. Qed.

Lemma f77_free_app a b : f77_free (a ++ b) = f77_free a && f77_free b.
Proof. unfold f77_free. rewrite lex_lines_app, forallb_app. reflexivity. Qed.

Lemma f77_free_concat l : f77_free (List.concat l) = forallb f77_free l.
Proof. induction l as [|x l IH]; [reflexivity|]. cbn [List.concat forallb]. rewrite f77_free_app, IH. reflexivity. Qed.

Lemma f77_free_nil : f77_free [] = true.
Proof. reflexivity. Qed.

Lemma f77_free_removelast l : f77_free l = true -> f77_free (removelast l) = true.
Proof.
  induction l as [|x l IH]; [auto|]. intros H. change (x :: l) with ([x] ++ l) in H. rewrite f77_free_app in H.
  apply andb_true_iff in H as [H1 H2]. cbn [removelast]. destruct l as [|y l]; [reflexivity|].
  change (x :: removelast (y :: l)) with ([x] ++ removelast (y :: l)). rewrite f77_free_app, H1. cbn [andb]. apply IH. exact H2.
Qed.

Lemma f77_free_write l : f77_free l = true -> f77_free (write_lines l) = true.
Proof.
  intros H. unfold write_lines. destruct (last_opt l) as [[|c s]|]; auto. apply f77_free_removelast. exact H.
Qed.

(* ------------------------------------------------------------------------------------------------ *)
(** * Induction over statement trees *)
Section node_ind'.
  Variable P : node -> Prop.
  Hypothesis HL : forall k st a src regen, P (Leaf k st a src regen).
  Hypothesis HB : forall k st a fr kids, Forall P kids -> P (Blk k st a fr kids).
  Fixpoint node_ind' (n : node) : P n :=
    match n with
    | Leaf k st a src regen => HL k st a src regen
    | Blk k st a fr kids =>
        HB k st a fr kids ((fix go (l : list node) : Forall P l :=
                              match l with [] => Forall_nil P | c :: r => Forall_cons c (node_ind' c) (go r) end) kids)
    end.
End node_ind'.

(* ------------------------------------------------------------------------------------------------ *)
(** * Structure-preserving facts *)
Lemma is_sep_mark n : is_sep (mark n) = is_sep n.
Proof. destruct n as [[] ? ? ? ?|]; reflexivity. Qed.

Lemma is_sep_transform n : is_sep (transform n) = is_sep n.
Proof. destruct n as [[] ? ? ? ?|? ? a ? ?]; try reflexivity. cbn. destruct (is_found a); reflexivity. Qed.

Lemma existsb_map {A B} (p : B -> bool) (f : A -> B) (l : list A) : existsb p (map f l) = existsb (fun x => p (f x)) l.
Proof. induction l; cbn; congruence. Qed.

Lemma existsb_ext {A} (p q : A -> bool) (l : list A) : (forall x, p x = q x) -> existsb p l = existsb q l.
Proof. intros H. induction l; cbn; congruence. Qed.

Lemma has_node_kid_mark kids : has_node_kid (map mark kids) = has_node_kid kids.
Proof. unfold has_node_kid. rewrite existsb_map. apply existsb_ext. intros x. rewrite is_sep_mark. reflexivity. Qed.

Lemma sep_kids_mark kids : existsb is_sep (map mark kids) = existsb is_sep kids.
Proof. rewrite existsb_map. apply existsb_ext. intros; apply is_sep_mark. Qed.

Lemma sep_kids_transform kids : existsb is_sep (map transform kids) = existsb is_sep kids.
Proof. rewrite existsb_map. apply existsb_ext. intros; apply is_sep_transform. Qed.

Lemma src_of_mark n : src_of (mark n) = src_of n.
Proof.
  induction n as [|k st a fr kids IH] using node_ind'; [reflexivity|].
  cbn. destruct k; try reflexivity; rewrite flat_map_map; f_equal; f_equal;
    apply flat_map_ext_Forall; exact IH.
Qed.

Lemma src_of_transform n : src_of (transform n) = src_of n.
Proof.
  induction n as [|k st a fr kids IH] using node_ind'; [reflexivity|].
  cbn. destruct (is_found a); [reflexivity|]. cbn.
  destruct k; try reflexivity; rewrite flat_map_map; f_equal; f_equal; apply flat_map_ext_Forall; exact IH.
Qed.

(** the tree after the fix, in the two contexts of the Transformer *)
Definition X (m : tmode) (n : node) : node := match m with MVisit => transform (mark n) | MUntouched => mark n end.

Lemma src_of_X m n : src_of (X m n) = src_of n.
Proof. destruct m; cbn; [rewrite src_of_transform|]; apply src_of_mark. Qed.

Lemma is_sep_X m n : is_sep (X m n) = is_sep n.
Proof. destruct m; cbn; [rewrite is_sep_transform|]; apply is_sep_mark. Qed.

Lemma flat_src_X m kids : flat_map src_of (map (X m) kids) = flat_map src_of kids.
Proof. rewrite flat_map_map. apply flat_map_ext_Forall. apply Forall_forall. intros; apply src_of_X. Qed.

(* ------------------------------------------------------------------------------------------------ *)
(** * The original text is the concatenation of the own-line groups; the specification touches only
      the groups of reported statements *)
Lemma groups_src : forall n prep, List.concat (map snd (groups prep n)) = src_of n.
Proof.
  induction n as [k st a src regen|k st a fr kids IH] using node_ind'; intros prep.
  - cbn. apply app_nil_r.
  - cbn [groups]. destruct (is_drop a); [cbn; apply app_nil_r|].
    destruct k; cbn [src_of]; try (cbn; apply app_nil_r);
      (cbn [map List.concat fst snd]; rewrite map_app, concat_app; cbn; rewrite app_nil_r; f_equal; f_equal;
       induction IH as [|c r Hc _ IHr]; cbn; [reflexivity|]; rewrite map_app, concat_app, Hc, IHr; reflexivity).
Qed.

Definition keeps (g : bool * list line) (o : list line) : Prop := fst g = false -> o = snd g.

Lemma Forall2_flat_map {A B C} (R : B -> C -> Prop) (f : A -> list B) (g : A -> list C) (l : list A) :
  Forall (fun x => Forall2 R (f x) (g x)) l -> Forall2 R (flat_map f l) (flat_map g l).
Proof. induction 1; cbn; [constructor|]. apply Forall2_app; assumption. Qed.

Lemma spec_keeps : forall n prep, Forall2 keeps (groups prep n) (spec_g prep n).
Proof.
  induction n as [k st a src regen|k st a fr kids IH] using node_ind'; intros prep.
  - cbn. constructor; [|constructor]. unfold keeps; cbn.
    destruct k; cbn; intros H; try rewrite H; try reflexivity; destruct a; try discriminate; reflexivity.
  - cbn [groups spec_g]. destruct (is_drop a); [constructor; [unfold keeps; cbn; discriminate|constructor]|].
    destruct k.
    + constructor; [unfold keeps; cbn; intros ->; reflexivity|].
      apply Forall2_app; [|constructor; [unfold keeps; cbn; intros ->; reflexivity|constructor]].
      apply Forall2_flat_map. eapply Forall_impl; [|exact IH]. cbn. auto.
    + constructor; [unfold keeps; cbn; intros ->; reflexivity|].
      apply Forall2_app; [|constructor; [unfold keeps; cbn; intros ->; reflexivity|constructor]].
      apply Forall2_flat_map. eapply Forall_impl; [|exact IH]. cbn. auto.
    + constructor; [|constructor]. unfold keeps; cbn. intros ->. reflexivity.
    + constructor; [unfold keeps; cbn; intros ->; reflexivity|].
      apply Forall2_app; [|constructor; [unfold keeps; cbn; intros ->; reflexivity|constructor]].
      apply Forall2_flat_map. eapply Forall_impl; [|exact IH]. cbn. auto.
Qed.

(** an action-free subtree is specified to stay as it is *)
Lemma no_act_has_action n : no_act n = true -> has_action n = false.
Proof.
  induction n as [k st a src regen|k st a fr kids IH] using node_ind'; cbn.
  - destruct a, k; cbn; congruence.
  - rewrite andb_true_iff. intros [Ha Hk]. destruct (is_act a); [discriminate|]. cbn.
    apply forallb_Forall in Hk. induction IH as [|c r Hc _ IHr]; [reflexivity|].
    inversion Hk; subst. cbn. rewrite Hc by assumption. cbn. apply IHr. assumption.
Qed.

Lemma no_act_kids_has_action kids : forallb no_act kids = true -> existsb has_action kids = false.
Proof.
  induction kids as [|c r IH]; cbn; [reflexivity|]. rewrite andb_true_iff. intros [H1 H2].
  rewrite (no_act_has_action _ H1). cbn. auto.
Qed.

Lemma no_act_spec : forall n, no_act n = true -> List.concat (spec_g false n) = src_of n.
Proof.
  induction n as [k st a src regen|k st a fr kids IH] using node_ind'; cbn [no_act].
  - intros H. destruct a; try discriminate. destruct k; cbn; apply app_nil_r.
  - rewrite andb_true_iff. intros [Ha Hk]. destruct a; try discriminate. cbn [spec_g is_drop is_act].
    destruct k; cbn [src_of].
    + cbn. rewrite concat_app. cbn. rewrite app_nil_r. f_equal. f_equal.
      apply forallb_Forall in Hk. rewrite concat_flat_map. apply flat_map_ext_Forall.
      rewrite Forall_forall in *. intros x Hx. apply IH; auto.
    + cbn. rewrite concat_app. cbn. rewrite app_nil_r. f_equal. f_equal.
      apply forallb_Forall in Hk. rewrite concat_flat_map. apply flat_map_ext_Forall.
      rewrite Forall_forall in *. intros x Hx. apply IH; auto.
    + cbn. rewrite (no_act_kids_has_action _ Hk). cbn. apply app_nil_r.
    + cbn. rewrite concat_app. cbn. rewrite app_nil_r. f_equal. f_equal.
      apply forallb_Forall in Hk. rewrite concat_flat_map. apply flat_map_ext_Forall.
      rewrite Forall_forall in *. intros x Hx. apply IH; auto.
Qed.

Lemma no_act_kids_spec kids :
  forallb no_act kids = true -> List.concat (flat_map (spec_g false) kids) = flat_map src_of kids.
Proof.
  intros H. rewrite concat_flat_map. apply flat_map_ext_Forall. apply forallb_Forall in H.
  eapply Forall_impl; [|exact H]. intros x. apply no_act_spec.
Qed.
