(** C04 — proofs about the line-wrapping model (lists of strings: full; see P_C04_nested.v for nesting). *)
From Coq Require Import ZArith List Bool Ascii Lia ZifyBool.
From LV Require Import models.M_C04.
Import ListNotations.
Open Scope Z_scope.

(** * Basics *)
Lemma len_app a b : len (a ++ b) = len a + len b.
Proof. unfold len. rewrite app_length. lia. Qed.
Lemma len_nil : len [] = 0. Proof. reflexivity. Qed.
Lemma len_nonneg a : 0 <= len a. Proof. unfold len. lia. Qed.

Lemma str_eqb_eq a b : str_eqb a b = true <-> a = b.
Proof.
  revert b; induction a as [|x a IH]; intros [|y b]; cbn [str_eqb].
  - split; reflexivity.
  - split; discriminate.
  - split; discriminate.
  - rewrite andb_true_iff, IH, Ascii.eqb_eq. split.
    + intros [H1 H2]. subst. reflexivity.
    + intros H. inversion H. split; reflexivity.
Qed.
Lemma str_eqb_refl a : str_eqb a a = true. Proof. now apply str_eqb_eq. Qed.

Lemma is_nil_true {A} (l : list A) : is_nil l = true <-> l = [].
Proof. destruct l; cbn; split; congruence. Qed.

(** * The splitter loses nothing *)
Definition seg_str (g : seg) : str := match g with Plain t => t | Quoted t => t end.

Lemma plain_concat acc : concat (map seg_str (plain acc)) = acc.
Proof. destruct acc; cbn; [reflexivity | now rewrite app_nil_r]. Qed.

Lemma scan_concat s : forall st acc, concat (map seg_str (scan s st acc)) = acc ++ s.
Proof.
  induction s as [|c r IH]; intros st acc; cbn [scan].
  - rewrite plain_concat, app_nil_r. reflexivity.
  - destruct st as [|q].
    + destruct (is_quote c && has_close c r).
      * rewrite map_app, concat_app, plain_concat, IH. reflexivity.
      * rewrite IH, <- app_assoc. reflexivity.
    + destruct (Ascii.eqb c q).
      * cbn [map concat seg_str]. rewrite IH. cbn. rewrite <- app_assoc. reflexivity.
      * rewrite IH, <- app_assoc. reflexivity.
Qed.

Lemma split_seps_concat s : forall cur, concat (split_seps s cur) = cur ++ s.
Proof.
  induction s as [|c r IH]; intros cur; cbn [split_seps].
  - cbn. now rewrite app_nil_r.
  - destruct (is_sep c r).
    + cbn [concat]. rewrite IH. reflexivity.
    + rewrite IH, <- app_assoc. reflexivity.
Qed.

Lemma seg_chunks_concat g : concat (seg_chunks g) = seg_str g.
Proof. destruct g; cbn [seg_chunks seg_str]; [apply split_seps_concat | cbn; apply app_nil_r]. Qed.

Lemma chunk_list_concat s : concat (chunk_list s) = s.
Proof.
  unfold chunk_list. rewrite flat_map_concat_map.
  rewrite <- (scan_concat s QOut []) at 2.
  generalize (scan s QOut []); intros l. induction l as [|g l IH]; cbn; [reflexivity|].
  rewrite concat_app, IH, seg_chunks_concat. reflexivity.
Qed.

Lemma chunk_list_nonempty s : s <> [] -> chunk_list s <> [].
Proof. intros H E. apply H. rewrite <- (chunk_list_concat s), E. reflexivity. Qed.

(** * Break marks: a wrapped text is its atoms with a break before some of them *)
Fixpoint renderb (p : P) (line : str) (m : list (bool * str)) : list str * str :=
  match m with
  | [] => ([], line)
  | (b, a) :: r =>
    if b then let '(ls, last) := renderb p (c1 p ++ a) r in ((line ++ c0 p) :: ls, last)
    else renderb p (line ++ a) r
  end.

Definition swap {A B} (x : A * B) : B * A := (snd x, fst x).

Lemma renderb_app p m1 : forall line m2,
  renderb p line (m1 ++ m2) =
  let '(ls1, mid) := renderb p line m1 in let '(ls2, last) := renderb p mid m2 in (ls1 ++ ls2, last).
Proof.
  induction m1 as [|[b a] r IH]; intros line m2; cbn [renderb app].
  - destruct (renderb p line m2); reflexivity.
  - destruct b.
    + rewrite IH. destruct (renderb p (c1 p ++ a) r) as [ls1 mid]. destruct (renderb p mid m2). reflexivity.
    + apply IH.
Qed.

Definition nobreak (l : list str) : list (bool * str) := map (fun a => (false, a)) l.

Lemma nobreak_snd l : map snd (nobreak l) = l.
Proof. unfold nobreak. rewrite map_map. cbn. apply map_id. Qed.

Lemma renderb_nobreak p l : forall line, renderb p line (nobreak l) = ([], line ++ concat l).
Proof.
  induction l as [|a l IH]; intros line; cbn.
  - now rewrite app_nil_r.
  - rewrite IH, <- app_assoc. reflexivity.
Qed.

(** ** the two loops of the chunk path *)
Lemma first_loop_none p chs : forall line l,
  first_loop p line chs = (l, None) ->
  l = line ++ concat chs /\ (chs <> [] -> fits p (line ++ concat chs) = true).
Proof.
  induction chs as [|ch r IH]; intros line l H; cbn [first_loop] in H.
  - inversion H; subst. cbn. rewrite app_nil_r. split; [reflexivity | congruence].
  - destruct (fits p (line ++ ch)) eqn:F; [|discriminate].
    apply IH in H. destruct H as [-> H2]. cbn [concat]. rewrite <- app_assoc in *. split; [reflexivity|].
    intros _. destruct r as [|c2 r'].
    + cbn in *. rewrite app_nil_r in *. exact F.
    + apply H2. discriminate.
Qed.

Lemma first_loop_some p chs : forall line l r,
  first_loop p line chs = (l, Some r) ->
  exists pre, chs = pre ++ r /\ l = line ++ concat pre /\ r <> [] /\
              (pre = [] \/ fits p l = true).
Proof.
  induction chs as [|ch t IH]; intros line l r H; cbn [first_loop] in H; [discriminate|].
  destruct (fits p (line ++ ch)) eqn:F.
  - apply IH in H. destruct H as (pre & -> & -> & Hr & Hf).
    exists (ch :: pre). cbn [concat app]. rewrite <- app_assoc. repeat split; auto.
    right. destruct Hf as [-> | Hf]; [cbn; now rewrite app_nil_r | now rewrite <- app_assoc in Hf].
  - inversion H; subst. exists []. cbn. rewrite app_nil_r. repeat split; auto. discriminate.
Qed.

Lemma second_loop_marks p chs : forall line,
  exists m, map snd m = chs /\ swap (second_loop p line chs) = renderb p line m.
Proof.
  induction chs as [|ch r IH]; intros line; cbn [second_loop].
  - exists []. split; reflexivity.
  - destruct (negb (fits p (line ++ ch)) && negb (str_eqb line (c1 p))).
    + destruct (IH (c1 p ++ ch)) as (m & Hm & Hr).
      exists ((true, ch) :: m). cbn [map snd renderb]. split; [now rewrite Hm|].
      rewrite <- Hr. destruct (second_loop p (c1 p ++ ch) r). reflexivity.
    + destruct (IH (line ++ ch)) as (m & Hm & Hr).
      exists ((false, ch) :: m). cbn [map snd renderb]. split; [now rewrite Hm | exact Hr].
Qed.

(** [_add_item_to_line] for a string: the emitted lines are the chunks of the item with breaks between some of them *)
Lemma add_str_marks p line s :
  s <> [] -> exists m, map snd m = chunk_list s /\ swap (add_str p line s) = renderb p line m.
Proof.
  intros Hs. unfold add_str.
  destruct (fits p (line ++ s)) eqn:F1.
  { exists (nobreak (chunk_list s)). rewrite nobreak_snd, renderb_nobreak, chunk_list_concat. split; reflexivity. }
  destruct (fits p (c1 p ++ s)) eqn:F2.
  { pose proof (chunk_list_nonempty s Hs) as Hn. pose proof (chunk_list_concat s) as Hc.
    destruct (chunk_list s) as [|ch r]; [congruence|].
    exists ((true, ch) :: nobreak r). cbn [map snd]. rewrite nobreak_snd. split; [reflexivity|].
    cbn [renderb]. rewrite renderb_nobreak. cbn [concat] in Hc. rewrite <- app_assoc, Hc. reflexivity. }
  unfold chunk_path.
  pose proof (chunk_list_nonempty s Hs) as Hn. pose proof (chunk_list_concat s) as Hc.
  destruct (first_loop p line (chunk_list s)) as [line1 brk] eqn:FL.
  destruct brk as [rest|].
  2:{ apply first_loop_none in FL. destruct FL as [_ H]. rewrite Hc in H. rewrite (H Hn) in F1. discriminate. }
  apply first_loop_some in FL. destruct FL as (pre & Hch & -> & Hr & _).
  destruct rest as [|ch r]; [congruence|].
  cbn [second_loop]. rewrite str_eqb_refl, andb_false_r.
  destruct (second_loop_marks p r (c1 p ++ ch)) as (m & Hm & Hrd).
  destruct (second_loop p (c1 p ++ ch) r) as [l ls] eqn:SL. unfold swap in Hrd; cbn in Hrd.
  destruct (str_eqb (line ++ concat pre) (c1 p)) eqn:E.
  - apply str_eqb_eq in E.
    exists (nobreak pre ++ (false, ch) :: m). split.
    + rewrite map_app, nobreak_snd. cbn. now rewrite Hm, Hch.
    + rewrite renderb_app, renderb_nobreak. cbn [renderb]. rewrite E, <- Hrd. reflexivity.
  - exists (nobreak pre ++ (true, ch) :: m). split.
    + rewrite map_app, nobreak_snd. cbn. now rewrite Hm, Hch.
    + rewrite renderb_app, renderb_nobreak. cbn [renderb]. rewrite <- Hrd. reflexivity.
Qed.

(** * Lists of strings *)
(** what [sep.join] produces when the empty items (which [_to_str] skips together with their separator) are left out *)
Fixpoint pieces (p : P) (ss : list str) : list str :=
  match ss with
  | [] => []
  | s :: rest =>
    match s with
    | [] => pieces p rest
    | _ => (s ++ match rest with [] => [] | _ => sep p end) :: pieces p rest
    end
  end.
Definition flat_skip (p : P) (ss : list str) : str := concat (pieces p ss).
(** the finest segmentation a break may use: the chunks of every (item ++ separator) *)
Definition atoms (p : P) (ss : list str) : list str := flat_map chunk_list (pieces p ss).

Lemma atoms_concat p ss : concat (atoms p ss) = flat_skip p ss.
Proof.
  unfold atoms, flat_skip. induction (pieces p ss) as [|x l IH]; cbn; [reflexivity|].
  rewrite concat_app, chunk_list_concat, IH. reflexivity.
Qed.

Lemma wrap_lines_marks p ss : forall line,
  exists m, map snd m = atoms p ss /\ wrap_lines p ss line = renderb p line m.
Proof.
  induction ss as [|s rest IH]; intros line; cbn [wrap_lines].
  - exists []. split; reflexivity.
  - destruct s as [|c s'].
    + destruct (IH line) as (m & Hm & Hr). exists m. split; [exact Hm | exact Hr].
    + set (sp := match rest with [] => [] | _ => sep p end).
      destruct (add_str_marks p line ((c :: s') ++ sp)) as (m1 & Hm1 & Hr1); [discriminate|].
      destruct (add_str p line ((c :: s') ++ sp)) as [line' ls] eqn:A. unfold swap in Hr1; cbn [fst snd] in Hr1.
      destruct (IH line') as (m2 & Hm2 & Hr2).
      exists (m1 ++ m2). split.
      * rewrite map_app, Hm1, Hm2. unfold atoms. cbn [pieces flat_map]. reflexivity.
      * rewrite renderb_app, <- Hr1, <- Hr2. destruct (wrap_lines p rest line'). reflexivity.
Qed.

(** * Content preservation *)
(** [Brk p content text]: [text] is [content] with occurrences of [c0 ++ c1] inserted, nothing else changed *)
Inductive Brk (p : P) : str -> str -> Prop :=
| Brk_nil : Brk p [] []
| Brk_char c s t : Brk p s t -> Brk p (c :: s) (c :: t)
| Brk_cont s t : Brk p s t -> Brk p s (c0 p ++ c1 p ++ t).

Lemma Brk_refl p s : Brk p s s.
Proof. induction s; constructor; auto. Qed.

Lemma Brk_app p a b x y : Brk p a x -> Brk p b y -> Brk p (a ++ b) (x ++ y).
Proof.
  induction 1; intros H2; cbn.
  - exact H2.
  - constructor. auto.
  - rewrite <- !app_assoc. constructor. auto.
Qed.

Definition text_of (r : list str * str) : str := concat (fst r) ++ snd r.

Lemma renderb_brk p m : forall line,
  exists t, text_of (renderb p line m) = line ++ t /\ Brk p (concat (map snd m)) t.
Proof.
  induction m as [|[b a] r IH]; intros line; cbn [renderb map snd concat].
  - exists []. unfold text_of; cbn. split; [now rewrite app_nil_r | constructor].
  - destruct b.
    + destruct (IH (c1 p ++ a)) as (t & Ht & Hb).
      destruct (renderb p (c1 p ++ a) r) as [ls last]. unfold text_of in *; cbn [fst snd concat] in *.
      exists (c0 p ++ c1 p ++ a ++ t). split.
      * rewrite <- !app_assoc. rewrite Ht. rewrite <- !app_assoc. reflexivity.
      * apply Brk_cont. apply Brk_app; [apply Brk_refl | exact Hb].
    + destruct (IH (line ++ a)) as (t & Ht & Hb). exists (a ++ t). split.
      * rewrite Ht, <- app_assoc. reflexivity.
      * apply Brk_app; [apply Brk_refl | exact Hb].
Qed.

(** * Line width *)
(** a current line is fine when a continuation marker still fits after it, or when it consists of the
    continuation prefix followed by at most one chunk *)
Definition line_ok (p : P) (A : list str) (line : str) : Prop :=
  fits p line = true \/ exists ch, In ch ([] :: A) /\ line = c1 p ++ ch.
Definition emitted_ok (p : P) (A : list str) (x : str) : Prop :=
  exists y, x = y ++ c0 p /\ line_ok p A y.

Lemma line_ok_c1 p A : line_ok p A (c1 p).
Proof. right. exists []. split; [now left | now rewrite app_nil_r]. Qed.

Lemma second_loop_ok p A chs : forall line,
  incl chs A -> line_ok p A line ->
  line_ok p A (fst (second_loop p line chs)) /\ Forall (emitted_ok p A) (snd (second_loop p line chs)).
Proof.
  induction chs as [|ch r IH]; intros line Hi Hl; cbn [second_loop].
  - cbn. split; [exact Hl | constructor].
  - assert (Hch : In ch A) by (apply Hi; now left).
    assert (Hr : incl r A) by (intros x Hx; apply Hi; now right).
    destruct (negb (fits p (line ++ ch)) && negb (str_eqb line (c1 p))) eqn:E.
    + destruct (IH (c1 p ++ ch) Hr) as [H1 H2].
      { right. exists ch. split; [now right | reflexivity]. }
      destruct (second_loop p (c1 p ++ ch) r) as [l ls]. cbn [fst snd] in *. split; [exact H1|].
      constructor; [|exact H2]. exists line. split; [reflexivity | exact Hl].
    + apply IH; [exact Hr|].
      apply andb_false_iff in E. destruct E as [E|E].
      * left. now apply negb_false_iff in E.
      * apply negb_false_iff, str_eqb_eq in E. subst line. right. exists ch. split; [now right | reflexivity].
Qed.

Lemma add_str_ok p A line s :
  incl (chunk_list s) A -> line_ok p A line ->
  line_ok p A (fst (add_str p line s)) /\ Forall (emitted_ok p A) (snd (add_str p line s)).
Proof.
  intros Hi Hl. unfold add_str.
  destruct (fits p (line ++ s)) eqn:F1.
  { cbn. split; [now left | constructor]. }
  destruct (fits p (c1 p ++ s)) eqn:F2.
  { cbn. split; [now left|]. constructor; [|constructor]. exists line. split; [reflexivity | exact Hl]. }
  unfold chunk_path.
  destruct (first_loop p line (chunk_list s)) as [line1 brk] eqn:FL.
  assert (H1 : line_ok p A line1 /\ incl (match brk with Some r => r | None => chunk_list s end) A).
  { destruct brk as [rest|].
    - apply first_loop_some in FL. destruct FL as (pre & Hch & -> & _ & Hf). split.
      + destruct Hf as [-> | Hf]; [cbn; now rewrite app_nil_r | now left].
      + intros x Hx. apply Hi. rewrite Hch. apply in_or_app. now right.
    - apply first_loop_none in FL. destruct FL as [-> Hf]. split; [|exact Hi].
      destruct (chunk_list s) as [|c0' r'] eqn:E; [cbn; now rewrite app_nil_r|].
      left. apply Hf. discriminate. }
  destruct H1 as [Hl1 Hi1].
  destruct (second_loop_ok p A _ (c1 p) Hi1 (line_ok_c1 p A)) as [H2 H3].
  destruct (second_loop p (c1 p) (match brk with Some r => r | None => chunk_list s end)) as [l ls].
  cbn [fst snd] in *. split; [exact H2|].
  apply Forall_app. split; [|exact H3].
  destruct (str_eqb line1 (c1 p)); constructor; [|constructor]. exists line1. split; [reflexivity | exact Hl1].
Qed.

Lemma wrap_lines_ok p A ss : forall line,
  incl (atoms p ss) A -> line_ok p A line ->
  Forall (emitted_ok p A) (fst (wrap_lines p ss line)) /\ line_ok p A (snd (wrap_lines p ss line)).
Proof.
  induction ss as [|s rest IH]; intros line Hi Hl; cbn [wrap_lines].
  - cbn. split; [constructor | exact Hl].
  - destruct s as [|c s'].
    + apply IH; assumption.
    + set (sp := match rest with [] => [] | _ => sep p end) in *.
      unfold atoms in Hi. cbn [pieces flat_map] in Hi. fold sp in Hi.
      destruct (add_str_ok p A line ((c :: s') ++ sp)) as [H1 H2]; [|exact Hl|].
      { intros x Hx. apply Hi. apply in_or_app. now left. }
      destruct (add_str p line ((c :: s') ++ sp)) as [line' ls]. cbn [fst snd] in *.
      destruct (IH line') as [H3 H4]; [|exact H1|].
      { intros x Hx. apply Hi. apply in_or_app. now right. }
      destruct (wrap_lines p rest line') as [ls' last]. cbn [fst snd] in *. split; [|exact H4].
      apply Forall_app. split; assumption.
Qed.

Lemma line_width_flat p ss lines last :
  len (c0 p) <= width p ->
  wrap_lines p ss [] = (lines, last) ->
  Forall (fun l => len l <= width p \/ exists ch, In ch ([] :: atoms p ss) /\ l = c1 p ++ ch ++ c0 p) lines /\
  (len last + len (c0 p) <= width p \/ exists ch, In ch ([] :: atoms p ss) /\ last = c1 p ++ ch).
Proof.
  intros Hw E.
  destruct (wrap_lines_ok p (atoms p ss) ss []) as [H1 H2].
  { apply incl_refl. } { left. unfold fits. change (len []) with 0. lia. }
  rewrite E in H1, H2. cbn [fst snd] in *. split.
  - eapply Forall_impl; [|exact H1]. intros x (y & -> & [Hf | (ch & Hc & ->)]).
    + left. unfold fits in Hf. rewrite len_app. lia.
    + right. exists ch. split; [exact Hc | now rewrite <- app_assoc].
  - destruct H2 as [Hf | H]; [left; unfold fits in Hf; lia | right; exact H].
Qed.

(** * The general model on lists of strings *)
Lemma str_of_IStr f s : str_of f (IStr s) = Ok s.
Proof. destruct f; reflexivity. Qed.
Lemma add_item_IStr f q line s : add_item f q line (IStr s) = Ok (add_str q line s).
Proof. destruct f; reflexivity. Qed.

Lemma to_str_loop_flat f q ss : forall line lines,
  to_str_loop (add_item f q) (str_of f) (sep q) false (map IStr ss) line lines
  = Ok (concat lines ++ text_of (wrap_lines q ss line), None).
Proof.
  induction ss as [|s rest IH]; intros line lines; cbn [map to_str_loop wrap_lines].
  - reflexivity.
  - rewrite str_of_IStr. destruct s as [|c s']; cbn [is_nil].
    + apply IH.
    + cbn [add_sfx]. rewrite add_item_IStr.
      assert (E : match map IStr rest with [] => [] | _ :: _ => sep q end = match rest with [] => [] | _ :: _ => sep q end)
        by (destruct rest; reflexivity).
      rewrite E. destruct (add_str q line ((c :: s') ++ match rest with [] => [] | _ :: _ => sep q end)) as [line' ls].
      cbn [andb]. rewrite IH. destruct (wrap_lines q rest line') as [ls' last]. unfold text_of; cbn [fst snd].
      rewrite !concat_app, <- !app_assoc. reflexivity.
Qed.

Lemma str_of_flat fuel q ss text :
  str_of fuel (IJ q (map IStr ss)) = Ok text -> text = text_of (wrap_lines q ss []).
Proof.
  destruct fuel as [|[|f]]; cbn [str_of to_str]; try discriminate.
  destruct ss as [|s rest].
  - cbn. intros [= <-]. reflexivity.
  - change (map IStr (s :: rest)) with (IStr s :: map IStr rest).
    change (IStr s :: map IStr rest) with (map IStr (s :: rest)).
    cbn [map]. change (IStr s :: map IStr rest) with (map IStr (s :: rest)).
    rewrite to_str_loop_flat. cbn [concat app]. intros [= <-]. reflexivity.
Qed.

Lemma str_of_flat_ok f q ss : str_of (S (S f)) (IJ q (map IStr ss)) = Ok (text_of (wrap_lines q ss [])).
Proof.
  cbn [str_of to_str]. destruct ss as [|s rest]; [reflexivity|].
  cbn [map]. change (IStr s :: map IStr rest) with (map IStr (s :: rest)).
  rewrite to_str_loop_flat. reflexivity.
Qed.

(** * [sep.join(items)] *)
Fixpoint join (sp : str) (ss : list str) : str :=
  match ss with
  | [] => []
  | s :: rest => match rest with [] => s | _ => s ++ sp ++ join sp rest end
  end.

Lemma flat_skip_join p ss : Forall (fun s => s <> []) ss -> flat_skip p ss = join (sep p) ss.
Proof.
  unfold flat_skip. induction 1 as [|s rest Hs _ IH]; cbn [pieces join concat]; [reflexivity|].
  destruct s as [|c s']; [congruence|]. cbn [concat]. rewrite IH.
  destruct rest; cbn [join]; rewrite ?app_nil_r, <- ?app_assoc; reflexivity.
Qed.

(** * [rstrip] only drops trailing white space *)
Lemma rstrip_rev_spec t : exists ws, t = ws ++ rstrip_rev t /\ Forall (fun c => is_space c = true) ws.
Proof.
  induction t as [|c r IH]; cbn [rstrip_rev].
  - exists []. split; [reflexivity | constructor].
  - destruct (is_space c) eqn:E.
    + destruct IH as (ws & H1 & H2). exists (c :: ws). split; [cbn; now rewrite <- H1 | now constructor].
    + exists []. split; [reflexivity | constructor].
Qed.

Lemma rstrip_spec s : exists ws, s = rstrip s ++ ws /\ Forall (fun c => is_space c = true) ws.
Proof.
  unfold rstrip. destruct (rstrip_rev_spec (rev s)) as (ws & H1 & H2).
  exists (rev ws). split.
  - rewrite <- rev_app_distr, <- H1, rev_involutive. reflexivity.
  - apply Forall_rev. exact H2.
Qed.

(** * [format_line] on string items *)
Lemma collect_strs ss : collect (map build (map RStr ss)) = Ok (map IStr ss).
Proof. induction ss as [|s r IH]; cbn; [reflexivity | now rewrite IH]. Qed.

Lemma fuel_of_ge2 it : exists k, fuel_of it = S (S k).
Proof. unfold fuel_of. exists (4 * isize it + 8)%nat. lia. Qed.

Lemma format_line_flat w indent cont ss out :
  format_line w indent cont (map RStr ss) None false false true = Ok out ->
  exists a b ws, norm_cont cont w = Some (a, b) /\
    text_of (wrap_lines (mkP [] w a b true) (indent :: ss) []) = out ++ ws /\
    Forall (fun c => is_space c = true) ws.
Proof.
  unfold format_line, str_raw. cbn [build].
  change (RStr indent :: map RStr ss) with (map RStr (indent :: ss)).
  rewrite collect_strs.
  destruct (norm_cont cont w) as [[a b]|]; [|discriminate].
  destruct (fuel_of_ge2 (IJ (mkP [] w a b true) (map IStr (indent :: ss)))) as [k ->].
  rewrite str_of_flat_ok. intros [= <-].
  destruct (rstrip_spec (text_of (wrap_lines (mkP [] w a b true) (indent :: ss) []))) as (ws & H1 & H2).
  exists a, b, ws. repeat split; assumption.
Qed.

Lemma norm_cont_ok c w a b : norm_cont c w = Some (a, b) -> len a < w /\ len b < w.
Proof.
  unfold norm_cont. destruct (match c with CStr s => _ | CPair a0 b0 => _ end) as [[x y]|]; [|discriminate].
  destruct (w <=? len (x ++ y)).
  - destruct ((len (strip_sp x) <? w) && (len (strip_sp y) <? w)) eqn:E; [|discriminate]. intros [= <- <-]. lia.
  - destruct ((len x <? w) && (len y <? w)) eqn:E; [|discriminate]. intros [= <- <-]. lia.
Qed.

(** * Statements about [str(JoinableStringList(strings, ...))] as computed by the general model *)
Lemma breaks_at_boundaries fuel p ss text :
  str_of fuel (IJ p (map IStr ss)) = Ok text ->
  exists m, map snd m = atoms p ss /\ text = text_of (renderb p [] m).
Proof.
  intros H. apply str_of_flat in H. destruct (wrap_lines_marks p ss []) as (m & Hm & Hr).
  exists m. split; [exact Hm | now rewrite H, Hr].
Qed.

Lemma content_preserved fuel p ss text :
  str_of fuel (IJ p (map IStr ss)) = Ok text -> Brk p (flat_skip p ss) text.
Proof.
  intros H. destruct (breaks_at_boundaries _ _ _ _ H) as (m & Hm & ->).
  destruct (renderb_brk p m []) as (t & Ht & Hb). rewrite Ht. cbn [app].
  rewrite Hm, atoms_concat in Hb. exact Hb.
Qed.

Lemma content_preserved_join fuel p ss text :
  Forall (fun s => s <> []) ss ->
  str_of fuel (IJ p (map IStr ss)) = Ok text -> Brk p (join (sep p) ss) text.
Proof. intros Hn H. rewrite <- (flat_skip_join p ss Hn). eapply content_preserved; eassumption. Qed.

Lemma line_width fuel p ss text :
  len (c0 p) <= width p ->
  str_of fuel (IJ p (map IStr ss)) = Ok text ->
  exists lines last, text = concat lines ++ last /\
    Forall (fun l => len l <= width p \/ exists ch, In ch ([] :: atoms p ss) /\ l = c1 p ++ ch ++ c0 p) lines /\
    (len last + len (c0 p) <= width p \/ exists ch, In ch ([] :: atoms p ss) /\ last = c1 p ++ ch).
Proof.
  intros Hw H. apply str_of_flat in H.
  destruct (wrap_lines p ss []) as [lines last] eqn:E.
  exists lines, last. split; [exact H|]. apply line_width_flat; assumption.
Qed.

(** every produced line ends with the end-of-line marker and every line after the first starts with the
    start-of-line marker (read off the break marks) *)
Lemma renderb_shape p m : forall line,
  Forall (fun l => exists y, l = y ++ c0 p) (fst (renderb p line m)).
Proof.
  induction m as [|[b a] r IH]; intros line; cbn [renderb].
  - constructor.
  - destruct b.
    + specialize (IH (c1 p ++ a)). destruct (renderb p (c1 p ++ a) r). cbn [fst] in *.
      constructor; [now exists line | exact IH].
    + apply IH.
Qed.
