(** C31 — loop unrolling preserves behaviour modulo the DO variables. *)
From Coq Require Import ZArith List Bool String Lia.
From LV Require Import Base.Expr Base.MiniF Base.MiniFFacts models.M_C31 proofs.P_C31_base.
From LV Require models.M_C10 proofs.P_C10.
Import ListNotations.
Open Scope Z_scope.

(** * simulation modulo [D] between two programs *)
Definition body_sim (ps : procs) (D : string -> bool) (b b' : list stmt) : Prop :=
  forall s t s1, sim D dnone s t -> runs ps b s s1 -> exists t1, runs ps b' t t1 /\ sim D dnone s1 t1.

Lemma body_sim_nil ps D : body_sim ps D [] [].
Proof. intros s t s1 H R. apply runs_nil_inv in R. subst. exists t. split; [apply runs_nil|exact H]. Qed.

Lemma body_sim_app ps D a a' b b' :
  body_sim ps D a a' -> body_sim ps D b b' -> body_sim ps D (a ++ b) (a' ++ b').
Proof.
  intros Ha Hb s t s1 H R. apply runs_app_inv in R. destruct R as [s2 [R1 R2]].
  destruct (Ha _ _ _ H R1) as [t2 [T1 H2]]. destruct (Hb _ _ _ H2 R2) as [t1 [T2 H1]].
  exists t1. split; [eapply runs_app; eauto|exact H1].
Qed.

Lemma body_sim_cons ps D st a' r r' :
  body_sim ps D [st] a' -> body_sim ps D r r' -> body_sim ps D (st :: r) (a' ++ r').
Proof. intros H1 H2. change (st :: r) with ([st] ++ r). now apply body_sim_app. Qed.

Lemma body_sim_trans ps D a b c : body_sim ps D a b -> body_sim ps D b c -> body_sim ps D a c.
Proof.
  intros H1 H2 s t s1 H R. destruct (H1 _ _ _ H R) as [t1 [T1 S1]].
  destruct (H2 t t t1 (sim_refl _ _ _) T1) as [t2 [T2 S2]].
  exists t2. split; [exact T2|eapply sim_trans; eauto].
Qed.

Lemma runs1_skip_inv ps l s s' : runs1 ps (SSkip l) s s' -> s' = s.
Proof. intros [f E]. cbn in E. congruence. Qed.

Lemma body_sim_drop_skip ps D p r r' : body_sim ps D r r' -> body_sim ps D (SSkip p :: r) r'.
Proof.
  intros H s t s1 Hs R. apply runs_cons_inv in R. destruct R as [s2 [R1 R2]].
  apply runs1_skip_inv in R1. subst. eauto.
Qed.

(** * class predicates: helper facts *)
Lemma forallb_map_ext {A} (p : A -> bool) (h : A -> A) l :
  Forall (fun x => p (h x) = p x) l -> forallb p (map h l) = forallb p l.
Proof. induction 1 as [|x l Hx _ IH]; cbn; [reflexivity|]. now rewrite Hx, IH. Qed.

Lemma forallb_map' {A B} (p : B -> bool) (f : A -> B) l : forallb p (map f l) = forallb (fun x => p (f x)) l.
Proof. induction l as [|x l IH]; cbn; [reflexivity|]. now rewrite IH. Qed.

Lemma forallb_ext_Forall {A} (p q : A -> bool) l :
  Forall (fun x => p x = q x) l -> forallb p l = forallb q l.
Proof. induction 1 as [|x l Hx _ IH]; cbn; [reflexivity|]. now rewrite Hx, IH. Qed.

Lemma forallb_flat_map {A B} (p : B -> bool) (g : A -> list B) l :
  (forall x, In x l -> forallb p (g x) = true) -> forallb p (flat_map g l) = true.
Proof.
  induction l as [|x l IH]; intros H; cbn; [reflexivity|].
  rewrite forallb_app, H by (now left). cbn. apply IH. intros y Hy. apply H. now right.
Qed.

Lemma strip_attached_incl l : forall x, In x (strip_attached l) -> In x l.
Proof.
  induction l as [|s r IH]; intros x Hx; [exact Hx|].
  cbn [strip_attached] in Hx.
  destruct s; try (destruct Hx as [Hx|Hx]; [now left|right; now apply IH]).
  destruct r as [|s2 r2]; [destruct Hx as [Hx|Hx]; [now left|right; now apply IH]|].
  destruct s2; try (destruct Hx as [Hx|Hx]; [now left|right; now apply IH]).
  destruct (is_unroll_pragma label); [right; now apply IH|].
  destruct Hx as [Hx|Hx]; [now left|right; now apply IH].
Qed.

Lemma forallb_strip_attached (p : stmt -> bool) l : forallb p l = true -> forallb p (strip_attached l) = true.
Proof.
  intros H. apply forallb_forall. intros x Hx. rewrite forallb_forall in H. apply H. now apply strip_attached_incl.
Qed.

Lemma nwrites_msubst sg W WA s : nwrites W WA (msubst_s sg s) = nwrites W WA s.
Proof.
  induction s using stmt_ind'; cbn; try reflexivity.
  - now rewrite (forallb_map_ext _ _ _ H).
  - now rewrite (forallb_map_ext _ _ _ H).
  - now rewrite (forallb_map_ext _ _ _ H), (forallb_map_ext _ _ _ H0).
Qed.

Lemma forallb_nwrites_msubst sg W WA l : forallb (nwrites W WA) (msubst_l sg l) = forallb (nwrites W WA) l.
Proof. unfold msubst_l. apply forallb_map_ext. apply Forall_forall. intros; apply nwrites_msubst. Qed.

Lemma efree_subst1 D A v i e : efree (dminus D v) A e = true -> efree D A (msubst_e (subst1 v i) e) = true.
Proof.
  induction e using expr_ind'; cbn; intros Hf; try reflexivity.
  - unfold subst1, dminus in *. destruct (String.eqb x v); cbn in *; [reflexivity|]. now rewrite andb_true_r in Hf.
  - rewrite forallb_map'. apply forallb_Forall. apply forallb_Forall in Hf. rewrite Forall_forall in *. intros q Hq. apply H; auto.
  - rewrite forallb_map'. apply forallb_Forall. apply forallb_Forall in Hf. rewrite Forall_forall in *. intros q Hq. apply H; auto.
  - apply andb_true_iff in Hf. destruct Hf. now rewrite IHe1, IHe2.
  - apply andb_true_iff in Hf. destruct Hf. now rewrite IHe1, IHe2.
  - apply andb_true_iff in Hf. destruct Hf. now rewrite IHe1, IHe2.
  - rewrite forallb_map'. apply forallb_Forall. apply forallb_Forall in Hf. rewrite Forall_forall in *. intros q Hq. apply H; auto.
  - rewrite forallb_map'. apply forallb_Forall. apply forallb_Forall in Hf. rewrite Forall_forall in *. intros q Hq. apply H; auto.
  - auto.
  - apply andb_true_iff in Hf. destruct Hf as [H1 H2]. rewrite H1. cbn.
    rewrite forallb_map'. apply forallb_Forall. apply forallb_Forall in H2. rewrite Forall_forall in *. intros q Hq. apply H; auto.
Qed.

Lemma forallb_efree_subst1 D A v i l :
  forallb (efree (dminus D v) A) l = true -> forallb (efree D A) (map (msubst_e (subst1 v i)) l) = true.
Proof.
  intros H. rewrite forallb_map'. apply forallb_Forall. apply forallb_Forall in H.
  eapply Forall_impl; [|exact H]. intros e. apply efree_subst1.
Qed.

Lemma efree_ext D D' A e : (forall x, D x = D' x) -> efree D A e = efree D' A e.
Proof.
  intros H. apply eq_true_iff_eq. split; apply efree_mono; auto; intros x Hx; [rewrite H|rewrite <- H]; exact Hx.
Qed.

Lemma uok_ext s : forall D D', (forall x, D x = D' x) -> uok D s = uok D' s.
Proof.
  induction s using stmt_ind'; intros D D' HD; cbn; try reflexivity.
  - now apply efree_ext.
  - rewrite (efree_ext D D' dnone e HD). f_equal. apply forallb_ext_Forall. apply Forall_forall. intros; now apply efree_ext.
  - rewrite (HD v), (efree_ext D D' dnone lo HD), (efree_ext D D' dnone hi HD).
    assert (Eo : oefree D dnone st = oefree D' dnone st) by (destruct st; cbn; [now apply efree_ext|reflexivity]).
    rewrite Eo. f_equal. f_equal. apply forallb_ext_Forall. rewrite Forall_forall in *. intros q Hq.
    apply H; [exact Hq|]. intros x. unfold dminus. now rewrite HD.
  - rewrite (efree_ext D D' dnone c HD). f_equal. apply forallb_ext_Forall. rewrite Forall_forall in *. intros q Hq. now apply H.
  - rewrite (efree_ext D D' dnone c HD). f_equal; [f_equal|]; apply forallb_ext_Forall; rewrite Forall_forall in *; intros q Hq; [now apply H|now apply H0].
Qed.

Lemma uok_subst1 v i s : forall D, uok (dminus D v) s = true -> uok D (msubst_s (subst1 v i) s) = true.
Proof.
  induction s using stmt_ind'; intros D; cbn [uok msubst_s]; intros Hu; try exact Hu.
  - now apply efree_subst1.
  - apply andb_true_iff in Hu. destruct Hu as [H1 H2]. now rewrite forallb_efree_subst1, efree_subst1.
  - repeat (apply andb_true_iff in Hu; destruct Hu as [Hu ?]).
    rewrite Hu, (efree_subst1 _ _ _ _ _ H4), (efree_subst1 _ _ _ _ _ H3). cbn.
    assert (Eo : oefree D dnone (option_map (msubst_e (subst1 v i)) st) = true)
      by (destruct st; cbn in *; [now apply efree_subst1|reflexivity]).
    rewrite Eo. cbn. apply andb_true_iff. split.
    + rewrite forallb_map'. apply forallb_Forall. apply forallb_Forall in H1. rewrite Forall_forall in *. intros q Hq.
      apply H; [exact Hq|]. rewrite <- (H1 _ Hq). apply uok_ext. intros x. unfold dminus.
      destruct (D x), (String.eqb x v), (String.eqb x v0); reflexivity.
    + fold (msubst_l (subst1 v i) b). now rewrite forallb_nwrites_msubst.
  - apply andb_true_iff in Hu. destruct Hu as [H1 H2]. rewrite (efree_subst1 _ _ _ _ _ H1). cbn.
    rewrite forallb_map'. apply forallb_Forall. apply forallb_Forall in H2. rewrite Forall_forall in *. intros q Hq. apply H; auto.
  - repeat (apply andb_true_iff in Hu; destruct Hu as [Hu ?]). rewrite (efree_subst1 _ _ _ _ _ Hu). cbn.
    apply andb_true_iff. split; rewrite forallb_map'; apply forallb_Forall.
    + apply forallb_Forall in H2. rewrite Forall_forall in *. intros q Hq. apply H; auto.
    + apply forallb_Forall in H1. rewrite Forall_forall in *. intros q Hq. apply H0; auto.
Qed.

Lemma forallb_uok_subst1 v i D l :
  forallb (uok (dminus D v)) l = true -> forallb (uok D) (msubst_l (subst1 v i) l) = true.
Proof.
  intros H. unfold msubst_l. rewrite forallb_map'. apply forallb_Forall. apply forallb_Forall in H.
  eapply Forall_impl; [|exact H]. intros s. apply uok_subst1.
Qed.

Lemma uok_nreads s : forall D, uok D s = true -> nreads D dnone s = true.
Proof.
  induction s using stmt_ind'; intros D; cbn; intros Hu; try exact Hu.
  - repeat (apply andb_true_iff in Hu; destruct Hu as [Hu ?]).
    rewrite H4, H3, H2. cbn.
    apply forallb_Forall. apply forallb_Forall in H1. rewrite Forall_forall in *. intros q Hq. apply H; auto.
  - apply andb_true_iff in Hu. destruct Hu as [H1 H2]. rewrite H1. cbn.
    apply forallb_Forall. apply forallb_Forall in H2. rewrite Forall_forall in *. intros q Hq. apply H; auto.
  - repeat (apply andb_true_iff in Hu; destruct Hu as [Hu ?]). rewrite Hu. cbn. apply andb_true_iff. split; apply forallb_Forall.
    + apply forallb_Forall in H2. rewrite Forall_forall in *. intros q Hq. apply H; auto.
    + apply forallb_Forall in H1. rewrite Forall_forall in *. intros q Hq. apply H0; auto.
Qed.

Lemma uok_no_call s : forall D, uok D s = true -> no_call s = true.
Proof.
  induction s using stmt_ind'; intros D; cbn; intros Hu; try reflexivity; try exact Hu.
  - repeat (apply andb_true_iff in Hu; destruct Hu as [Hu ?]).
    apply forallb_Forall. apply forallb_Forall in H1. rewrite Forall_forall in *. intros q Hq. eapply H; eauto.
  - apply andb_true_iff in Hu. destruct Hu as [H1 H2].
    apply forallb_Forall. apply forallb_Forall in H2. rewrite Forall_forall in *. intros q Hq. eapply H; eauto.
  - repeat (apply andb_true_iff in Hu; destruct Hu as [Hu ?]). apply andb_true_iff. split; apply forallb_Forall.
    + apply forallb_Forall in H2. rewrite Forall_forall in *. intros q Hq. eapply H; eauto.
    + apply forallb_Forall in H1. rewrite Forall_forall in *. intros q Hq. eapply H0; eauto.
Qed.

Lemma body_sim_refl_uok ps D l : forallb (uok D) l = true -> body_sim ps D l l.
Proof.
  intros H s t s1 Hs R. eapply runs_sim; [exact Hs| | |exact R].
  - apply forallb_Forall. apply forallb_Forall in H. eapply Forall_impl; [|exact H]. intros x. apply uok_nreads.
  - apply forallb_Forall. apply forallb_Forall in H. eapply Forall_impl; [|exact H]. intros x. apply uok_no_call.
Qed.

(** unfolding equation of [ut] *)
Lemma ut_S f depth s :
  ut (S f) depth s =
  match s with
  | SDo v lo hi st body =>
      let d' := option_map Z.pred depth in
      match lit3 lo hi st with
      | Some (a, b, c) =>
        if c =? 0 then [raise_marker] else
        let rng := M_C10.get_pyrange a b c in
        if neighbour_loops body || counter_in_bounds v body then
          flat_map (fun i => let cp := msubst_l (subst1 v i) body in if rec_ok d' then utl f d' cp else cp) rng
        else
          let body' := if rec_ok d' then utl f d' body else body in
          flat_map (fun i => msubst_l (subst1 v i) body') rng
      | None => [SDo v lo hi st (utl f d' body)]
      end
  | SIf c t e => [SIf c (utl f depth t) (utl f depth e)]
  | SWhile c b => [SWhile c (utl f depth b)]
  | _ => [s]
  end.
Proof. reflexivity. Qed.

(** preservation of the class predicates by the transformer *)
Lemma nwrites_ut W WA : forall f d s, nwrites W WA s = true -> forallb (nwrites W WA) (ut f d s) = true.
Proof.
  induction f as [|f IH]; intros d s Hs; [cbn [ut forallb]; now rewrite Hs|].
  assert (IHl : forall d l, forallb (nwrites W WA) l = true -> forallb (nwrites W WA) (utl f d l) = true).
  { intros d0 l Hl. unfold utl. apply forallb_flat_map. intros x Hx. apply IH.
    apply strip_attached_incl in Hx. rewrite forallb_forall in Hl. now apply Hl. }
  rewrite ut_S. destruct s as [x e|a idx e|v lo hi stp body|c body|c tb eb|g args|l]; try (cbn [forallb]; now rewrite Hs).
  - cbn [nwrites] in Hs. apply andb_true_iff in Hs. destruct Hs as [Hv Hb]. cbv zeta.
    destruct (lit3 lo hi stp) as [[[a b] c]|].
    + destruct (c =? 0); [reflexivity|].
      destruct (neighbour_loops body || counter_in_bounds v body).
      * apply forallb_flat_map. intros i _. cbv zeta.
        assert (Hc : forallb (nwrites W WA) (msubst_l (subst1 v i) body) = true) by now rewrite forallb_nwrites_msubst.
        destruct (rec_ok _); [now apply IHl|exact Hc].
      * apply forallb_flat_map. intros i _. rewrite forallb_nwrites_msubst. destruct (rec_ok _); [now apply IHl|exact Hb].
    + cbn. rewrite Hv, (IHl _ _ Hb). reflexivity.
  - cbn [nwrites] in Hs. cbn. now rewrite (IHl _ _ Hs).
  - cbn [nwrites] in Hs. apply andb_true_iff in Hs. destruct Hs as [H1 H2]. cbn. now rewrite (IHl _ _ H1), (IHl _ _ H2).
Qed.

Lemma nwrites_utl W WA f d l : forallb (nwrites W WA) l = true -> forallb (nwrites W WA) (utl f d l) = true.
Proof.
  intros Hl. unfold utl. apply forallb_flat_map. intros x Hx. apply nwrites_ut.
  apply strip_attached_incl in Hx. rewrite forallb_forall in Hl. now apply Hl.
Qed.

Lemma uok_ut : forall f d s D, uok D s = true -> forallb (uok D) (ut f d s) = true.
Proof.
  induction f as [|f IH]; intros d s D Hs; [cbn [ut forallb]; now rewrite Hs|].
  assert (IHl : forall d l D, forallb (uok D) l = true -> forallb (uok D) (utl f d l) = true).
  { intros d0 l D0 Hl. unfold utl. apply forallb_flat_map. intros x Hx. apply IH.
    apply strip_attached_incl in Hx. rewrite forallb_forall in Hl. now apply Hl. }
  rewrite ut_S. destruct s as [x e|a idx e|v lo hi stp body|c body|c tb eb|g args|l]; try (cbn [forallb]; now rewrite Hs).
  - cbn [uok] in Hs. repeat (apply andb_true_iff in Hs; destruct Hs as [Hs ?]). cbv zeta.
    destruct (lit3 lo hi stp) as [[[a b] c]|].
    + destruct (c =? 0); [reflexivity|].
      destruct (neighbour_loops body || counter_in_bounds v body).
      * apply forallb_flat_map. intros i _. cbv zeta.
        assert (Hc : forallb (uok D) (msubst_l (subst1 v i) body) = true) by now apply forallb_uok_subst1.
        destruct (rec_ok _); [now apply IHl|exact Hc].
      * apply forallb_flat_map. intros i _. apply forallb_uok_subst1. destruct (rec_ok _); [now apply IHl|assumption].
    + cbn [forallb uok]. rewrite Hs, H3, H2, H1. cbn. rewrite (IHl _ _ _ H0). cbn. now rewrite nwrites_utl.
  - cbn [uok] in Hs. apply andb_true_iff in Hs. destruct Hs as [H1 H2]. cbn. now rewrite H1, (IHl _ _ _ H2).
  - cbn [uok] in Hs. repeat (apply andb_true_iff in Hs; destruct Hs as [Hs ?]). cbn. now rewrite Hs, (IHl _ _ _ H0), (IHl _ _ _ H).
Qed.

Lemma uok_utl f d l D : forallb (uok D) l = true -> forallb (uok D) (utl f d l) = true.
Proof.
  intros Hl. unfold utl. apply forallb_flat_map. intros x Hx. apply uok_ut.
  apply strip_attached_incl in Hx. rewrite forallb_forall in Hl. now apply Hl.
Qed.

(** * evaluation under [sim] *)
Lemma evalZ_sim D A s t e : sim D A s t -> efree D A e = true -> evalZ (env_st s) e = evalZ (env_st t) e.
Proof.
  intros H Hf. rewrite (evalZ_msubst D A sg_id s t e H (sg_ok_id s)); [now rewrite msubst_e_id|].
  eapply efree_mono; [| |exact Hf]; [|auto]. unfold dsub. intros x Hx. apply andb_true_iff in Hx. tauto.
Qed.

Lemma evalB_sim D A s t e : sim D A s t -> efree D A e = true -> evalB (env_st s) e = evalB (env_st t) e.
Proof.
  intros H Hf. rewrite (evalB_msubst D A sg_id s t e H (sg_ok_id s)); [now rewrite msubst_e_id|].
  eapply efree_mono; [| |exact Hf]; [|auto]. unfold dsub. intros x Hx. apply andb_true_iff in Hx. tauto.
Qed.

Lemma lit_val_eval rho e : forall a, lit_val e = Some a -> evalZ rho e = Some a.
Proof.
  induction e using expr_ind'; intros a Hl; cbn in Hl; try discriminate; try (cbn; congruence).
  destruct cs as [|x [|y [|z r]]]; try discriminate; destruct x; try discriminate.
  destruct (v =? -1) eqn:Ev; [|discriminate]. apply Z.eqb_eq in Ev. subst.
  destruct (lit_val y) as [w|] eqn:Ey; [|discriminate]. cbn in Hl. inversion Hl; subst.
  inversion H as [|? ? _ H2]; subst. inversion H2 as [|? ? Hy _]; subst.
  cbn [evalZ fold_right obind]. rewrite (Hy _ Ey). cbn [obind]. f_equal. lia.
Qed.

Lemma lit3_eval rho lo hi st a b c :
  lit3 lo hi st = Some (a, b, c) ->
  evalZ rho lo = Some a /\ evalZ rho hi = Some b /\
  (match st with None => Some 1 | Some e => evalZ rho e end) = Some c.
Proof.
  unfold lit3. destruct (lit_val lo) as [a'|] eqn:Ea; [|discriminate].
  destruct (lit_val hi) as [b'|] eqn:Eb; [|discriminate].
  destruct st as [e|].
  - destruct (lit_val e) as [c'|] eqn:Ec; [|discriminate]. intros H; inversion H; subst.
    repeat split; now apply lit_val_eval.
  - intros H; inversion H; subst. repeat split; now apply lit_val_eval.
Qed.

(** * congruences *)
Lemma loop_runs_sim ps D v d b b' :
  body_sim ps (dminus D v) b b' ->
  forall n i s t s', sim D dnone s t -> loop_runs ps b v d n i s s' ->
  exists t', loop_runs ps b' v d n i t t' /\ sim (dminus D v) dnone s' t'.
Proof.
  intros Hb. induction n as [|n IH]; intros i s t s' Hs R; inversion R; subst.
  - exists (set_sv v i t). split; [constructor|now apply sim_set_both].
  - match goal with H1 : runs _ _ _ _, H2 : loop_runs _ _ _ _ _ _ _ _ |- _ =>
      destruct (Hb _ _ _ (sim_set_both D dnone v i _ _ Hs) H1) as [t1 [T1 S1]];
      destruct (IH _ _ t1 _ (sim_weaken _ _ D dnone _ _ (dminus_sub D v) (fun _ h => h) S1) H2) as [t' [T' S']] end.
    exists t'. split; [econstructor; eauto|exact S'].
Qed.

Lemma do_cong ps D v lo hi st b b' :
  efree D dnone lo = true -> efree D dnone hi = true -> oefree D dnone st = true ->
  body_sim ps (dminus D v) b b' -> body_sim ps D [SDo v lo hi st b] [SDo v lo hi st b'].
Proof.
  intros Hlo Hhi Hst Hb s t s1 Hs R. apply runs_single in R. apply runs1_do in R.
  destruct R as [a [bb [d [Ea [Eb [Ed [Hd L]]]]]]].
  destruct (loop_runs_sim ps D v d b b' Hb _ _ _ t _ Hs L) as [t1 [T1 S1]].
  exists t1. split; [|eapply sim_weaken; [apply dminus_sub| |exact S1]; auto].
  apply runs_single. apply runs1_do. exists a, bb, d.
  rewrite <- (evalZ_sim D dnone s t lo Hs Hlo), <- (evalZ_sim D dnone s t hi Hs Hhi).
  repeat split; try assumption.
  destruct st as [e|]; [|exact Ed]. cbn in Hst. now rewrite <- (evalZ_sim D dnone s t e Hs Hst).
Qed.

Lemma if_cong ps D c tb tb' eb eb' :
  efree D dnone c = true -> body_sim ps D tb tb' -> body_sim ps D eb eb' ->
  body_sim ps D [SIf c tb eb] [SIf c tb' eb'].
Proof.
  intros Hc Ht He s t s1 Hs R. apply runs_single in R.
  destruct R as [f E]. pose proof E as E0. cbn in E. apply obind_some in E. destruct E as [bv [Eb E]].
  assert (R : runs ps (if bv then tb else eb) s s1) by (now exists f).
  assert (Eb' : evalB (env_st t) c = Some bv) by (now rewrite <- (evalB_sim D dnone s t c Hs Hc)).
  destruct bv.
  - destruct (Ht _ _ _ Hs R) as [t1 [T1 S1]]. exists t1. split; [|exact S1].
    apply runs_single. apply (runs1_if ps c tb' eb' t t1 true Eb'). exact T1.
  - destruct (He _ _ _ Hs R) as [t1 [T1 S1]]. exists t1. split; [|exact S1].
    apply runs_single. apply (runs1_if ps c tb' eb' t t1 false Eb'). exact T1.
Qed.

Lemma while_cong ps D c b b' :
  efree D dnone c = true -> body_sim ps D b b' -> body_sim ps D [SWhile c b] [SWhile c b'].
Proof.
  intros Hc Hb s t s1 Hs [n E]. revert s t s1 Hs E.
  induction n as [|n IH]; intros s t s1 Hs E; [discriminate|].
  rewrite exec_unfold in E. apply obind_some in E. destruct E as [s2 [E1 E2]].
  apply exec_nil in E2. subst s2. cbn [exec1] in E1.
  apply obind_some in E1. destruct E1 as [bv [Eb E1]].
  assert (Eb' : evalB (env_st t) c = Some bv) by (now rewrite <- (evalB_sim D dnone s t c Hs Hc)).
  destruct bv.
  - apply obind_some in E1. destruct E1 as [s3 [E3 E4]].
    destruct (Hb s t s3 Hs (ex_intro _ n E3)) as [t3 [[f1 T3] S3]].
    destruct (IH s3 t3 s1 S3 E4) as [t1 [[f2 T1] S1]].
    exists t1. split; [|exact S1]. exists (S (S (Nat.max f1 f2))).
    rewrite exec_unfold. cbn [exec1]. rewrite Eb'. cbn [obind].
    rewrite (exec_fuel_mono ps f1 (S (Nat.max f1 f2)) _ _ _ T3) by lia. cbn [obind].
    rewrite (exec_fuel_mono ps f2 (S (Nat.max f1 f2)) _ _ _ T1) by lia. reflexivity.
  - inversion E1; subst. exists t. split; [|exact Hs]. exists 2%nat.
    rewrite exec_unfold. cbn [exec1]. rewrite Eb'. reflexivity.
Qed.

(** substituting the literal for the DO variable simulates running with the variable set *)
Lemma subst_sim ps D v Q :
  D v = true -> forallb (uok (dminus D v)) Q = true -> forallb (nwrites (single v) dnone) Q = true ->
  forall j s t s1, sim D dnone s t -> runs ps Q (set_sv v j s) s1 ->
  exists t1, runs ps (msubst_l (subst1 v j) Q) t t1 /\ sim D dnone s1 t1.
Proof.
  intros Hv Hu Hw j s t s1 Hs R.
  eapply (runs_msubst ps (subst1 v j) D dnone Q (set_sv v j s) t s1); [now apply sim_set_left| | | |exact R].
  - intros x r Hx. unfold subst1 in Hx. destruct (String.eqb x v) eqn:E; [|discriminate].
    inversion Hx; subst. exists j. split; [reflexivity|]. cbn. now rewrite E.
  - apply forallb_Forall. apply forallb_Forall in Hu. eapply Forall_impl; [|exact Hu]. intros q Hq.
    eapply nreads_mono; [| |apply uok_nreads; exact Hq]; [|auto].
    intros x Hx. unfold dsub, dom, subst1, dminus in *. destruct (String.eqb x v); exact Hx.
  - eapply forallb_nwrites_mono; [| |exact Hw]; [|auto].
    intros x Hx. unfold dom, subst1, single in *. destruct (String.eqb x v); [reflexivity|discriminate].
Qed.

(** the unrolled copies, in trip order, simulate the loop *)
Lemma unrolled_loop ps D v c body (G : Z -> list stmt) :
  D v = true ->
  (forall j s t s1, sim D dnone s t -> runs ps body (set_sv v j s) s1 ->
                    exists t1, runs ps (G j) t t1 /\ sim D dnone s1 t1) ->
  forall n i s t s', sim D dnone s t -> loop_runs ps body v c n i s s' ->
  exists t', runs ps (flat_map G (M_C10.iota_steps n i c)) t t' /\ sim D dnone s' t'.
Proof.
  intros Hv HG. induction n as [|n IH]; intros i s t s' Hs R; inversion R; subst; cbn [M_C10.iota_steps flat_map].
  - exists t. split; [apply runs_nil|now apply sim_set_left].
  - match goal with H1 : runs _ _ _ _, H2 : loop_runs _ _ _ _ _ _ _ _ |- _ =>
      destruct (HG _ _ _ _ Hs H1) as [t1 [T1 S1]]; destruct (IH _ _ _ _ S1 H2) as [t' [T' S']] end.
    exists t'. split; [eapply runs_app; eauto|exact S'].
Qed.

Lemma utl_sim_of ps f :
  (forall d st D, uok D st = true -> body_sim ps D [st] (ut f d st)) ->
  forall d l D, forallb (uok D) l = true -> body_sim ps D l (utl f d l).
Proof.
  intros IH d l. unfold utl. induction l as [|s r IHl]; intros D Hl; [apply body_sim_nil|].
  cbn [forallb] in Hl. apply andb_true_iff in Hl. destruct Hl as [Hs Hr].
  assert (Kept : body_sim ps D (s :: r) (flat_map (ut f d) (s :: strip_attached r))).
  { cbn [flat_map]. apply body_sim_cons; [now apply IH|now apply IHl]. }
  cbn [strip_attached].
  destruct s; try exact Kept. destruct r as [|s2 r2]; [exact Kept|]. destruct s2; try exact Kept.
  destruct (is_unroll_pragma label); [|exact Kept].
  apply body_sim_drop_skip. now apply IHl.
Qed.

(** * LoopUnrollTransformer simulates the original statement modulo the DO variables *)
Theorem ut_sim ps : forall f d st D, uok D st = true -> body_sim ps D [st] (ut f d st).
Proof.
  induction f as [|f IH]; intros d st D Hu.
  - cbn. apply body_sim_refl_uok. cbn. now rewrite Hu.
  - pose proof (utl_sim_of ps f IH) as IHl.
    assert (Refl : body_sim ps D [st] [st]) by (apply body_sim_refl_uok; cbn; now rewrite Hu).
    rewrite ut_S. destruct st as [x e|a idx e|v lo hi stp body|c body|c tb eb|g args|l]; try exact Refl.
    + cbn [uok] in Hu. repeat (apply andb_true_iff in Hu; destruct Hu as [Hu ?]). rename Hu into Hv.
      rename H into Hw, H0 into Hb, H1 into Hst, H2 into Hhi, H3 into Hlo. cbv zeta.
      destruct (lit3 lo hi stp) as [[[a b] c]|] eqn:E3.
      * (* literal bounds: the loop is replaced by its copies *)
        intros s t s1 Hs R. apply runs_single in R. apply runs1_do in R.
        destruct R as [a' [b' [c' [Ea [Eb [Ec [Hc L]]]]]]].
        destruct (lit3_eval (env_st s) _ _ _ _ _ _ E3) as [Ea' [Eb' Ec']].
        assert (a' = a) by congruence. assert (b' = b) by congruence. assert (c' = c) by congruence. subst a' b' c'.
        destruct (c =? 0) eqn:Ez; [apply Z.eqb_eq in Ez; contradiction|].
        rewrite (P_C10.pyrange_eq_trips a b c Hc). unfold M_C10.do_trips.
        change (M_C10.trip_count a b c) with (trip_count a b c).
        destruct (neighbour_loops body || counter_in_bounds v body).
        -- eapply (unrolled_loop ps D v c body); [exact Hv| |exact Hs|exact L].
           intros j s0 t0 s2 Hs0 R0. cbv zeta.
           destruct (subst_sim ps D v body Hv Hb Hw j s0 t0 s2 Hs0 R0) as [t1 [T1 S1]].
           destruct (rec_ok (option_map Z.pred d)); [|eauto].
           destruct (IHl (option_map Z.pred d) (msubst_l (subst1 v j) body) D (forallb_uok_subst1 v j D body Hb)
                         t0 t0 t1 (sim_refl _ _ _) T1) as [t2 [T2 S2]].
           exists t2. split; [exact T2|eapply sim_trans; eauto].
        -- eapply (unrolled_loop ps D v c body); [exact Hv| |exact Hs|exact L].
           intros j s0 t0 s2 Hs0 R0.
           destruct (rec_ok (option_map Z.pred d)); [|eapply subst_sim; eauto].
           destruct (IHl (option_map Z.pred d) body (dminus D v) Hb
                         (set_sv v j s0) (set_sv v j t0) s2 (sim_set_both D dnone v j _ _ Hs0) R0) as [t1 [T1 S1]].
           destruct (subst_sim ps D v (utl f (option_map Z.pred d) body) Hv
                       (uok_utl _ _ _ _ Hb) (nwrites_utl _ _ _ _ _ Hw) j t0 t0 t1 (sim_refl _ _ _) T1) as [t2 [T2 S2]].
           exists t2. split; [exact T2|]. eapply sim_trans; [|exact S2].
           eapply sim_weaken; [apply dminus_sub| |exact S1]. auto.
      * apply do_cong; try assumption. now apply IHl.
    + cbn [uok] in Hu. apply andb_true_iff in Hu. destruct Hu as [Hc Hb]. apply while_cong; [exact Hc|now apply IHl].
    + cbn [uok] in Hu. repeat (apply andb_true_iff in Hu; destruct Hu as [Hu ?]).
      apply if_cong; [exact Hu|now apply IHl|now apply IHl].
Qed.

(** * do_loop_unroll (PragmaLoopUnrollTransformer) *)
Lemma pu_S_nil f : pu (S f) [] = [].
Proof. reflexivity. Qed.

Lemma pu_S_cons f s r :
  pu (S f) (s :: r) =
  match s with
  | SSkip p =>
      match unroll_pragma p, r with
      | Some d, (SDo v lo hi st b) :: r' => pu f (ut f d (SDo v lo hi st b)) ++ pu (S f) r'
      | _, _ => s :: pu (S f) r
      end
  | SDo v lo hi st b => SDo v lo hi st (pu f b) :: pu (S f) r
  | SIf c t e => SIf c (pu f t) (pu f e) :: pu (S f) r
  | SWhile c b => SWhile c (pu f b) :: pu (S f) r
  | _ => s :: pu (S f) r
  end.
Proof. reflexivity. Qed.

Theorem pu_sim ps : forall f l D, forallb (uok D) l = true -> body_sim ps D l (pu f l).
Proof.
  induction f as [|f IH]; intros l D Hl; [now apply body_sim_refl_uok|].
  remember (List.length l) as n eqn:Hn. assert (Hle : (List.length l <= n)%nat) by lia. clear Hn.
  revert l Hl Hle. induction n as [|n IHn]; intros l Hl Hle.
  - destruct l; [rewrite pu_S_nil; apply body_sim_nil|cbn in Hle; lia].
  - destruct l as [|s r]; [rewrite pu_S_nil; apply body_sim_nil|].
    cbn [forallb] in Hl. apply andb_true_iff in Hl. destruct Hl as [Hs Hr]. cbn in Hle.
    assert (Hrest : body_sim ps D r (pu (S f) r)) by (apply IHn; [exact Hr|lia]).
    assert (Keep : body_sim ps D (s :: r) (s :: pu (S f) r)).
    { change (s :: pu (S f) r) with ([s] ++ pu (S f) r). apply body_sim_cons; [|exact Hrest].
      apply body_sim_refl_uok. cbn. now rewrite Hs. }
    rewrite pu_S_cons.
    destruct s as [x e|a idx e|v lo hi stp body|c body|c tb eb|g args|p]; try exact Keep.
    + cbn [uok] in Hs. repeat (apply andb_true_iff in Hs; destruct Hs as [Hs ?]).
      change (SDo v lo hi stp (pu f body) :: pu (S f) r) with ([SDo v lo hi stp (pu f body)] ++ pu (S f) r).
      apply body_sim_cons; [|exact Hrest]. apply do_cong; try assumption. now apply IH.
    + cbn [uok] in Hs. apply andb_true_iff in Hs. destruct Hs as [Hc Hb].
      change (SWhile c (pu f body) :: pu (S f) r) with ([SWhile c (pu f body)] ++ pu (S f) r).
      apply body_sim_cons; [|exact Hrest]. apply while_cong; [exact Hc|now apply IH].
    + cbn [uok] in Hs. repeat (apply andb_true_iff in Hs; destruct Hs as [Hs ?]).
      change (SIf c (pu f tb) (pu f eb) :: pu (S f) r) with ([SIf c (pu f tb) (pu f eb)] ++ pu (S f) r).
      apply body_sim_cons; [|exact Hrest]. apply if_cong; [exact Hs|now apply IH|now apply IH].
    + destruct (unroll_pragma p) as [d|]; [|exact Keep].
      destruct r as [|s2 r2]; [exact Keep|]. destruct s2; try exact Keep.
      cbn [forallb] in Hr. apply andb_true_iff in Hr. destruct Hr as [Hs2 Hr2]. cbn in Hle.
      apply body_sim_drop_skip. apply body_sim_cons; [|apply IHn; [exact Hr2|lia]].
      eapply body_sim_trans; [apply ut_sim; exact Hs2|]. apply IH. now apply uok_ut.
Qed.

(** * the property theorems for unrolling *)

(** stores agree on every array cell and on every scalar outside [X] *)
Definition agree_except (X : list string) (s t : store) : Prop := sim (dmem X) dnone s t.

Lemma agree_except_spec X s t :
  agree_except X s t <-> (forall x, ~ In x X -> sv s x = sv t x) /\ (forall a i, av s a i = av t a i).
Proof.
  unfold agree_except, sim. split; intros [H1 H2]; split.
  - intros x Hx. apply H1. unfold dmem. destruct (existsb (String.eqb x) X) eqn:E; [|reflexivity].
    exfalso. apply Hx. apply existsb_exists in E. destruct E as [y [Hy E]]. apply String.eqb_eq in E. now subst.
  - intros a i. now apply H2.
  - intros x Hx. apply H1. intros Hin. unfold dmem in Hx.
    assert (existsb (String.eqb x) X = true) by (apply existsb_exists; exists x; split; [exact Hin|apply String.eqb_refl]).
    congruence.
  - intros a i _. apply H2.
Qed.

(** whenever the original program runs without error, so does the unrolled one, and the final stores agree
    except on the DO variables *)
Theorem unroll_total ps fuel X prog s s1 :
  forallb (uok (dmem X)) prog = true -> runs ps prog s s1 ->
  exists s2, runs ps (pu fuel prog) s s2 /\ agree_except X s1 s2.
Proof. intros Hc R. exact (pu_sim ps fuel prog (dmem X) Hc s s s1 (sim_refl _ _ _) R). Qed.

Theorem unroll_preserves ps fuel X prog s s1 s2 :
  forallb (uok (dmem X)) prog = true ->
  runs ps (pu fuel prog) s s1 -> runs ps prog s s2 -> agree_except X s2 s1.
Proof.
  intros Hc R1 R2. destruct (unroll_total ps fuel X prog s s2 Hc R2) as [s3 [R3 H3]].
  now rewrite (runs_det ps _ _ _ _ R1 R3).
Qed.

(** a single loop with literal bounds and non-zero literal step: its copies in trip order *)
Definition unroll1 (v : string) (a b c : Z) (body : list stmt) : list stmt :=
  flat_map (fun i => msubst_l (subst1 v i) body) (M_C10.do_trips a b c).

Lemma ut_single v lo hi st body a b c :
  lit3 lo hi st = Some (a, b, c) -> c <> 0 ->
  ut 1 (Some 1) (SDo v lo hi st body) = unroll1 v a b c body.
Proof.
  intros E Hc. rewrite ut_S. cbv zeta. rewrite E. apply Z.eqb_neq in Hc. rewrite Hc.
  apply Z.eqb_neq in Hc. rewrite (P_C10.pyrange_eq_trips a b c Hc). cbn [option_map rec_ok]. unfold unroll1.
  change (1 <=? Z.pred 1) with false. cbv iota.
  destruct (neighbour_loops body || counter_in_bounds v body); reflexivity.
Qed.

Theorem unroll_loop_preserves ps v lo hi st body a b c X s s1 s2 :
  lit3 lo hi st = Some (a, b, c) -> c <> 0 ->
  uok (dmem X) (SDo v lo hi st body) = true ->
  runs ps (unroll1 v a b c body) s s1 -> runs ps [SDo v lo hi st body] s s2 -> agree_except X s2 s1.
Proof.
  intros E Hc Hu R1 R2.
  destruct (ut_sim ps 1 (Some 1) _ _ Hu s s s2 (sim_refl _ _ _) R2) as [s3 [R3 H3]].
  rewrite (ut_single v lo hi st body a b c E Hc) in R3.
  now rewrite (runs_det ps _ _ _ _ R1 R3).
Qed.

(** the class is checkable: [unroll_class] takes X = all DO variables of the program *)
Lemma unroll_class_ok ps fuel prog s s1 s2 :
  unroll_class prog = true ->
  runs ps (pu fuel prog) s s1 -> runs ps prog s s2 -> agree_except (loop_vars prog) s2 s1.
Proof. intros H. now apply unroll_preserves. Qed.

(** dropping comment/pragma lines is sound (the correspondence compares modulo [strip_skips]) *)
Lemma strip_skips_runs ps : forall f l s s', exec ps f l s = Some s' -> exec ps f (strip_skips l) s = Some s'.
Proof.
  induction f as [|f IH]; intros l s s' E; [discriminate|].
  destruct l as [|st rest]; [exact E|].
  rewrite exec_unfold in E. apply obind_some in E. destruct E as [s1 [E1 E2]].
  assert (Hrest := IH _ _ _ E2).
  unfold strip_skips in *. cbn [flat_map].
  destruct st as [x e|a idx e|v lo hi stp body|c body|c tb eb|g args|p]; cbn [strip_skips_s app].
  - rewrite exec_unfold. cbn [exec1] in *. rewrite E1. exact Hrest.
  - rewrite exec_unfold. cbn [exec1] in *. rewrite E1. exact Hrest.
  - rewrite exec_unfold. cbn [exec1] in *.
    apply obind_some in E1. destruct E1 as [a [Ea E1]]. apply obind_some in E1. destruct E1 as [b [Eb E1]].
    apply obind_some in E1. destruct E1 as [d [Ed E1]]. rewrite Ea, Eb. cbn [obind]. rewrite Ed. cbn [obind].
    destruct (d =? 0); [discriminate|].
    rewrite (do_loop_mono (exec ps f body) (exec ps f (flat_map strip_skips_s body)) v d _ (fun u u' => IH body u u') _ _ _ E1).
    exact Hrest.
  - rewrite exec_unfold. cbn [exec1] in *.
    apply obind_some in E1. destruct E1 as [bv [Eb E1]]. rewrite Eb. cbn [obind].
    destruct bv; [|inversion E1; subst; exact Hrest].
    apply obind_some in E1. destruct E1 as [s2 [E3 E4]]. rewrite (IH _ _ _ E3). cbn [obind].
    pose proof (IH _ _ _ E4) as E5. cbn [flat_map strip_skips_s app] in E5. rewrite E5. exact Hrest.
  - rewrite exec_unfold. cbn [exec1] in *.
    apply obind_some in E1. destruct E1 as [bv [Eb E1]]. rewrite Eb. cbn [obind].
    destruct bv; rewrite (IH _ _ _ E1); exact Hrest.
  - rewrite exec_unfold. cbn [exec1] in *. rewrite E1. exact Hrest.
  - cbn [exec1] in E1. inversion E1; subst. apply exec_fuel_S. exact Hrest.
Qed.

Theorem strip_skips_sound ps l s s' : runs ps l s s' -> runs ps (strip_skips l) s s'.
Proof. intros [f E]. exists f. now apply strip_skips_runs. Qed.

(** comparing literal DO bounds by value is sound (used for the fused range, which Loki regenerates) *)
Lemma norm_lit_eval rho e : evalZ rho (norm_lit e) = evalZ rho e.
Proof.
  unfold norm_lit. destruct (lit_val e) as [v|] eqn:E; [|reflexivity]. now rewrite (lit_val_eval rho e v E).
Qed.

Lemma norm_runs ps : forall f l s s', exec ps f l s = Some s' -> exec ps f (norm_l l) s = Some s'.
Proof.
  induction f as [|f IH]; intros l s s' E; [discriminate|].
  destruct l as [|st rest]; [exact E|].
  unfold norm_l in *. cbn [map]. rewrite exec_unfold in *. apply obind_some in E. destruct E as [s1 [E1 E2]].
  assert (Hrest := IH _ _ _ E2).
  destruct st as [x e|a idx e|v lo hi stp body|c body|c tb eb|g args|p]; cbn [norm_s exec1] in *;
    try (rewrite E1; exact Hrest).
  - apply obind_some in E1. destruct E1 as [a [Ea E1]]. apply obind_some in E1. destruct E1 as [b [Eb E1]].
    apply obind_some in E1. destruct E1 as [d [Ed E1]]. rewrite !norm_lit_eval, Ea, Eb. cbn [obind].
    assert (Ed' : match option_map norm_lit stp with None => Some 1 | Some e => evalZ (env_st s) e end = Some d)
      by (destruct stp; cbn; [now rewrite norm_lit_eval|exact Ed]).
    rewrite Ed'. cbn [obind]. destruct (d =? 0); [discriminate|].
    rewrite (do_loop_mono (exec ps f body) (exec ps f (map norm_s body)) v d _ (fun u u' => IH body u u') _ _ _ E1).
    exact Hrest.
  - apply obind_some in E1. destruct E1 as [bv [Eb E1]]. rewrite Eb. cbn [obind].
    destruct bv; [|inversion E1; subst; exact Hrest].
    apply obind_some in E1. destruct E1 as [s2 [E3 E4]]. rewrite (IH _ _ _ E3). cbn [obind].
    pose proof (IH _ _ _ E4) as E5. cbn [map norm_s] in E5. rewrite E5. exact Hrest.
  - apply obind_some in E1. destruct E1 as [bv [Eb E1]]. rewrite Eb. cbn [obind].
    destruct bv; rewrite (IH _ _ _ E1); exact Hrest.
Qed.

Theorem norm_sound ps l s s' : runs ps l s s' -> runs ps (norm_l l) s s'.
Proof. intros [f E]. exists f. now apply norm_runs. Qed.
