(** P_C34_dt.v — derived-type argument expansion in coupled form preserves by-reference behaviour

    [expand_dt_preserves]: the coupled rewrite [apply_dtplan]/[dt_tc] of M_C34 part D preserves the runs of [rexec].

    The statement of SPEC_dt.v is FALSE as it stands ([Refute.expand_dt_unrestricted_refuted], by evaluation): a routine
    may use a component name against its kind (a scalar component [x%s] as the head of an array store).  On the
    left the name is forwarded to the caller's [t%s] with BOTH aspects (cell and array view); on the right the new
    scalar dummy [x_s] has the junk view [dead_aref (d, "")] as its array aspect.  Two more gaps of the class
    predicate [dtplan_okb] are shown in [Refute]: an expanded dummy that is also declared as a local array, and a
    call that passes [x] (type T1, [c] an array component) to a dummy of type T2 ([c] a scalar component).
    The theorem therefore has ONE additional hypothesis, the boolean [dt_kinds_okb td pl t] (section 6):
    per routine, (a) no expanded dummy is also a local array, (b) the body uses every expanded component name
    according to its kind in the type definition ([wk_s] under the classification [dt_sc]/[dt_ar]), (c) at every
    call site the actuals are used according to the kind of their dummies and the components passed for an
    expanded dummy have the kind the callee's type expects ([dt_site_kb]).

    For the same reason [coupled_sim] of P_C34_sim (which relates both aspects of every name) cannot be instantiated;
    section 2 proves the kind-aware variant [kcoupled_sim] ([frelK]: only the aspects a classification allows are
    related), reusing the lemmas of P_C34_sim through a "repaired" left frame.  Sections 3-5: the dummy/actual
    pairs after the expansion and [bind_dt]; section 7: the theorem; section 8: the refutations. *)
From Coq Require Import ZArith List Bool String Ascii Lia.
From LV Require Import Base.Expr Base.MiniF models.M_C34 proofs.P_C34_sim proofs.P_C34_dedup.
Import ListNotations.
Open Scope Z_scope.


(* ================================================================================================ *)
(** * 1. component names, index arithmetic *)

Lemma split_join x p : has_pct x = false -> split_pct (join_pct x p) = Some (x, p).
Proof.
  unfold has_pct, join_pct. induction x as [|c x IH]; cbn [split_pct append]; intros H.
  - reflexivity.
  - destruct (Ascii.eqb c "%") eqn:E; [discriminate H|].
    destruct (split_pct x) as [[a b]|] eqn:E2; [discriminate H|]. now rewrite IH.
Qed.

Lemma has_pct_join a b : has_pct (join_pct a b) = true.
Proof.
  unfold has_pct, join_pct. induction a as [|c a IH]; cbn [split_pct append]; [reflexivity|].
  destruct (Ascii.eqb c "%"); [reflexivity|].
  destruct (split_pct (a ++ String "%" b)) as [[x y]|]; [reflexivity|discriminate IH].
Qed.

Lemma reserved_pct k : has_pct k = true -> reserved k = false.
Proof.
  intros H. destruct (reserved k) eqn:R; [|reflexivity]. exfalso. unfold reserved in R.
  repeat (apply orb_prop in R; destruct R as [R|R]); apply String.eqb_eq in R; subst k; discriminate H.
Qed.

Lemma root_rest z : has_pct z = true -> split_pct z = Some (root_of z, rest_of z).
Proof. unfold has_pct, root_of, rest_of. destruct (split_pct z) as [[a b]|]; [reflexivity|discriminate]. Qed.

Lemma dt_lin_range b : forall k, in_bnd b k = true -> 0 <= lin b k < bsize b.
Proof.
  induction b as [|p b IH]; intros [|x k] H; cbn [in_bnd] in H; try discriminate H.
  - cbn. lia.
  - apply andb_prop in H. destruct H as [H H3]. apply andb_prop in H. destruct H as [H1 H2].
    apply Z.leb_le in H1. apply Z.leb_le in H2. specialize (IH k H3). cbn [lin bsize]. unfold extent.
    set (l := lin b k) in *. set (bs := bsize b) in *.
    assert (E : Z.max 0 (snd p - fst p + 1) = snd p - fst p + 1) by lia. rewrite E. nia.
Qed.

Lemma dt_delin_lin b : forall k, in_bnd b k = true -> delin b (lin b k) = k.
Proof.
  induction b as [|p b IH]; intros [|x k] H; cbn [in_bnd] in H; try discriminate H.
  - reflexivity.
  - apply andb_prop in H. destruct H as [H H3]. apply andb_prop in H. destruct H as [H1 H2].
    apply Z.leb_le in H1. apply Z.leb_le in H2. specialize (IH k H3). cbn [lin].
    destruct b as [|q b'].
    + destruct k; [|discriminate H3]. cbn [delin lin]. f_equal. lia.
    + set (L := lin (q :: b') k) in *.
      change (delin (p :: q :: b') (x - fst p + extent p * L))
        with ((fst p + (x - fst p + extent p * L) mod extent p) :: delin (q :: b') ((x - fst p + extent p * L) / extent p)).
      assert (E : extent p = snd p - fst p + 1) by (unfold extent; lia).
      assert (Hm : (x - fst p + extent p * L) mod extent p = x - fst p).
      { rewrite (Z.mul_comm (extent p) L), Z_mod_plus_full. apply Z.mod_small. lia. }
      assert (Hd : (x - fst p + extent p * L) / extent p = L).
      { rewrite (Z.mul_comm (extent p) L), Z_div_plus_full by lia. rewrite Z.div_small by lia. lia. }
      rewrite Hm, Hd, IH. f_equal. lia.
Qed.

Lemma dt_bsize_shape1 b : bnd_lb1 b = true -> map (fun n => (1, n)) (map extent b) = b.
Proof.
  unfold bnd_lb1. induction b as [|[lo hi] b IH]; cbn [forallb map]; intros H; [reflexivity|].
  apply andb_prop in H. destruct H as [H H2]. apply andb_prop in H. destruct H as [Ha Hb]. cbn [fst snd] in Ha, Hb.
  apply Z.eqb_eq in Ha. apply Z.leb_le in Hb. subst lo. rewrite (IH H2). f_equal. f_equal.
  unfold extent. cbn [fst snd]. lia.
Qed.


(* ================================================================================================ *)
(** * 2. kind-aware simulation

    [coupled_sim] relates BOTH aspects (scalar cell, array view) of every name of a body.  The expansion of a
    derived-type dummy cannot keep that: the array aspect of a scalar component [x%s] is forwarded on the left and
    is the junk view of a scalar dummy on the right.  The relation [frelK] only relates the aspects a
    classification [sc]/[ar] of the names allows; the code has to use the names accordingly ([wk_s]). *)

Ltac spl := repeat match goal with H : _ && _ = true |- _ => apply andb_prop in H; destruct H end.

Section WK.
  Variables sc ar : string -> bool.

  Fixpoint wk_e (e : expr) : bool :=
    match e with
    | EVar x => sc x
    | ESum _ cs | EProd _ cs | EAnd cs | EOr cs => forallb wk_e cs
    | EQuot _ a b | EPow _ a b | ECmp _ a b => wk_e a && wk_e b
    | ENot a => wk_e a
    | ECall f args => ar f && forallb wk_e args
    | _ => true
    end.

  (** an actual in the position of an array dummy *)
  Definition wk_aact (e : expr) : bool :=
    match e with EVar a => ar a | ECall a ds => ar a && forallb wk_e ds | _ => true end.

  Fixpoint wk_s (st : stmt) : bool :=
    match st with
    | SAssign x e => sc x && wk_e e
    | SStore a i e => ar a && forallb wk_e i && wk_e e
    | SDo v lo hi stp b =>
        sc v && wk_e lo && wk_e hi && (match stp with Some e => wk_e e | None => true end) && forallb wk_s b
    | SWhile c b => wk_e c && forallb wk_s b
    | SIf c t e => wk_e c && forallb wk_s t && forallb wk_s e
    | SCall _ _ => true
    | SSkip _ => true
    end.

  Definition fagree (fr fr' : frame) : Prop :=
    (forall x, sc x = true -> fs fr x = fs fr' x) /\ (forall x, ar x = true -> fa fr x = fa fr' x).

  Lemma Forall_wk (f : expr -> bool) (P : expr -> Prop) cs :
    Forall (fun e => f e = true -> P e) cs -> forallb f cs = true -> Forall P cs.
  Proof.
    induction 1 as [|a l H _ IH]; cbn [forallb]; intros E; constructor; spl; auto.
  Qed.

  Variables fr fr' : frame.
  Variable s : rstore.
  Hypothesis HA : fagree fr fr'.

  Lemma wk_evalZ e : wk_e e = true -> evalZ (renv fr s) e = evalZ (renv fr' s) e.
  Proof.
    destruct HA as [HS HF].
    induction e using expr_ind'; intros W; cbn [wk_e] in W; try reflexivity.
    - cbn [evalZ renv ev_var]. now rewrite (HS x W).
    - cbn [evalZ]. rewrite <- (map_id cs) at 2. apply fold_sum_ext. now apply (Forall_wk wk_e).
    - cbn [evalZ]. rewrite <- (map_id cs) at 2. apply fold_sum_ext. now apply (Forall_wk wk_e).
    - spl. cbn [evalZ]. now rewrite IHe1, IHe2.
    - spl. cbn [evalZ]. now rewrite IHe1, IHe2.
    - spl. rewrite !evalZ_call. apply obind_ext.
      + rewrite <- (map_id args) at 2. apply omap_list_ext. now apply (Forall_wk wk_e).
      + intros vs. destruct (intrinsic f vs); [reflexivity|]. cbn [renv ev_fun]. now rewrite (HF f H0).
  Qed.

  Lemma wk_evalB e : wk_e e = true -> evalB (renv fr s) e = evalB (renv fr' s) e.
  Proof.
    induction e using expr_ind'; intros W; cbn [wk_e] in W; try reflexivity.
    - spl. cbn [evalB]. now rewrite !wk_evalZ.
    - cbn [evalB]. rewrite <- (map_id cs) at 2. apply fold_bool_ext. now apply (Forall_wk wk_e).
    - cbn [evalB]. rewrite <- (map_id cs) at 2. apply fold_bool_ext. now apply (Forall_wk wk_e).
    - cbn [evalB]. now rewrite IHe.
  Qed.

  Lemma wk_omap {B} (f g : expr -> option B) l :
    (forall e, wk_e e = true -> f e = g e) -> forallb wk_e l = true -> omap_list f l = omap_list g l.
  Proof.
    intros H. induction l as [|a l IH]; cbn [forallb omap_list]; intros W; [reflexivity|]. spl.
    now rewrite H, IH.
  Qed.

  Lemma wk_evalZ_list l : forallb wk_e l = true ->
    omap_list (evalZ (renv fr s)) l = omap_list (evalZ (renv fr' s)) l.
  Proof. apply wk_omap. exact wk_evalZ. Qed.

  Lemma wk_eval_adim e : wk_e e = true -> eval_adim (renv fr s) e = eval_adim (renv fr' s) e.
  Proof.
    intros W. pose proof (wk_evalZ e W) as HZ.
    destruct e; try (unfold eval_adim; rewrite HZ; reflexivity).
    destruct args as [|lo [|hi [|x t]]]; try (unfold eval_adim; rewrite HZ; reflexivity).
    unfold eval_adim. rewrite HZ. destruct (String.eqb f ":"); [|reflexivity].
    cbn [wk_e forallb] in W. spl. now rewrite (wk_evalZ lo), (wk_evalZ hi).
  Qed.

  Lemma wk_actual_seq e : wk_aact e = true -> actual_seq fr s e = actual_seq fr' s e.
  Proof.
    destruct HA as [HS HF]. destruct e; intros W; cbn [wk_aact] in W; try reflexivity.
    - cbn [actual_seq]. now rewrite (HF x W).
    - spl. cbn [actual_seq]. destruct (reserved f); [reflexivity|].
      rewrite (HF f H). rewrite (wk_omap (eval_adim (renv fr s)) (eval_adim (renv fr' s)) args wk_eval_adim H0).
      reflexivity.
  Qed.

  Lemma wk_scalar_init e : wk_e e = true -> scalar_init fr s e = scalar_init fr' s e.
  Proof.
    intros W. pose proof (wk_evalZ e W) as HZ. destruct HA as [HS HF].
    destruct e; try (unfold scalar_init; rewrite HZ; reflexivity).
    - reflexivity.
    - unfold scalar_init. rewrite HZ. cbn [wk_e] in W. spl.
      destruct (reserved f); [reflexivity|]. now rewrite (wk_evalZ_list args H0), (HF f H).
  Qed.

  Lemma wk_sref_of e dflt : wk_e e = true -> sref_of fr s e dflt = sref_of fr' s e dflt.
  Proof.
    destruct HA as [HS HF]. intros W. destruct e; try reflexivity; cbn [wk_e] in W.
    - cbn [sref_of]. now apply HS.
    - spl. cbn [sref_of]. destruct (reserved f); [reflexivity|].
      now rewrite (wk_evalZ_list args H0), (HF f H).
  Qed.
End WK.

Definition frelK (r : string -> string) (sc ar : string -> bool) (N : string -> Prop) (fr1 fr2 : frame) : Prop :=
  forall x, N x -> (sc x = true -> fs fr1 x = fs fr2 (r x)) /\ (ar x = true -> aref_agree (fa fr1 x) (fa fr2 (r x))).

Lemma frelK_weaken r sc ar (N N' : string -> Prop) fr1 fr2 :
  (forall x, N' x -> N x) -> frelK r sc ar N fr1 fr2 -> frelK r sc ar N' fr1 fr2.
Proof. intros H Hr x Hx. apply Hr, H, Hx. Qed.

(** the left frame with its unrelated aspects replaced by the right ones *)
Definition repair (r : string -> string) (sc ar : string -> bool) (fr1 fr2 : frame) : frame :=
  {| fs := fun x => if sc x then fs fr1 x else fs fr2 (r x);
     fa := fun x => if ar x then fa fr1 x else fa fr2 (r x) |}.

Lemma repair_agree r sc ar fr1 fr2 : fagree sc ar fr1 (repair r sc ar fr1 fr2).
Proof. split; intros x H; cbn [repair fs fa]; now rewrite H. Qed.

Lemma repair_frel r sc ar N fr1 fr2 : frelK r sc ar N fr1 fr2 -> frel r N (repair r sc ar fr1 fr2) fr2.
Proof.
  intros H x Hx. destruct (H x Hx) as [A B]. cbn [repair fs fa]. split.
  - destruct (sc x); [now apply A|reflexivity].
  - destruct (ar x); [now apply B|apply aref_agree_refl].
Qed.

Section KRen.
  Variable r : string -> string.
  Variables sc ar : string -> bool.
  Variable N : string -> Prop.
  Variables fr1 fr2 : frame.
  Variable s : rstore.
  Hypothesis Hok : ren_ok r.
  Hypothesis Hrel : frelK r sc ar N fr1 fr2.

  Let fr1' := repair r sc ar fr1 fr2.
  Let HA : fagree sc ar fr1 fr1' := repair_agree r sc ar fr1 fr2.
  Let HR : frel r N fr1' fr2 := repair_frel r sc ar N fr1 fr2 Hrel.

  Lemma kren_evalZ e : wk_e sc ar e = true -> (forall x, In x (names_e e) -> N x) ->
    evalZ (renv fr1 s) e = evalZ (renv fr2 s) (ren_e r e).
  Proof. intros W HN. rewrite (wk_evalZ sc ar fr1 fr1' s HA e W). now apply (ren_evalZ r N). Qed.

  Lemma kren_evalB e : wk_e sc ar e = true -> (forall x, In x (names_e e) -> N x) ->
    evalB (renv fr1 s) e = evalB (renv fr2 s) (ren_e r e).
  Proof. intros W HN. rewrite (wk_evalB sc ar fr1 fr1' s HA e W). now apply (ren_evalB r N). Qed.

  Lemma kren_evalZ_list l : forallb (wk_e sc ar) l = true -> (forall x, In x (flat_map names_e l) -> N x) ->
    omap_list (evalZ (renv fr1 s)) l = omap_list (evalZ (renv fr2 s)) (map (ren_e r) l).
  Proof. intros W HN. rewrite (wk_evalZ_list sc ar fr1 fr1' s HA l W). now apply (ren_evalZ_list r N). Qed.

  Lemma kren_actual_seq e : wk_aact sc ar e = true -> (forall x, In x (names_e e) -> N x) ->
    oaseq_agree (actual_seq fr1 s e) (actual_seq fr2 s (ren_e r e)).
  Proof. intros W HN. rewrite (wk_actual_seq sc ar fr1 fr1' s HA e W). now apply (ren_actual_seq r N). Qed.

  Lemma kren_scalar_init e : wk_e sc ar e = true -> (forall x, In x (names_e e) -> N x) ->
    scalar_init fr1 s e = scalar_init fr2 s (ren_e r e).
  Proof. intros W HN. rewrite (wk_scalar_init sc ar fr1 fr1' s HA e W). now apply (ren_scalar_init r N). Qed.

  Lemma kren_sref_of e dflt : wk_e sc ar e = true -> (forall x, In x (names_e e) -> N x) ->
    sref_of fr1 s e dflt = sref_of fr2 s (ren_e r e) dflt.
  Proof. intros W HN. rewrite (wk_sref_of sc ar fr1 fr1' s HA e dflt W). now apply (ren_sref_of r N). Qed.
End KRen.

Section KCoupled.
  Variables ps1 ps2 : rprocs.
  Variable rm : string -> string -> string.
  Variables scm arm : string -> string -> bool.
  Variable tc : string -> list expr -> list expr.
  Variable site_ok : (string -> string) -> (string -> bool) -> (string -> bool) -> string -> list expr -> Prop.
  Variable Inv : frame -> frame -> Prop.

  Hypothesis Hprocs : forall g,
    match find_rproc ps1 g, find_rproc ps2 g with
    | Some p1, Some p2 => rp_body p2 = ren (rm g) (tcalls tc (rp_body p1)) /\ ren_ok (rm g) /\
                          sites (site_ok (rm g) (scm g) (arm g)) (rp_body p1) /\
                          forallb (wk_s (scm g) (arm g)) (rp_body p1) = true
    | None, None => True
    | _, _ => False
    end.
  Hypothesis Hbind : forall g p1 p2 d fr1 fr2 r sc ar args s,
    find_rproc ps1 g = Some p1 -> find_rproc ps2 g = Some p2 -> ren_ok r -> site_ok r sc ar g args ->
    frelK r sc ar (nma tc g args) fr1 fr2 -> Inv fr1 fr2 ->
    match bind d fr1 s p1 args, bind d fr2 s p2 (map (ren_e r) (tc g args)) with
    | Some c1, Some c2 => snd c1 = snd c2 /\ frelK (rm g) (scm g) (arm g) (nm tc (rp_body p1)) (fst c1) (fst c2) /\
                          Inv (fst c1) (fst c2)
    | None, None => True
    | _, _ => False
    end.

  Theorem kcoupled_sim : forall f d fr1 fr2 r sc ar ss s,
    ren_ok r -> sites (site_ok r sc ar) ss -> forallb (wk_s sc ar) ss = true ->
    frelK r sc ar (nm tc ss) fr1 fr2 -> Inv fr1 fr2 ->
    rexec ps1 f d fr1 ss s = rexec ps2 f d fr2 (ren r (tcalls tc ss)) s.
  Proof.
    induction f as [|f IH]; intros d fr1 fr2 r sc ar ss s Hok Hs W Hrel HI; [reflexivity|].
    destruct ss as [|st rest]; [reflexivity|].
    change (ren r (tcalls tc (st :: rest))) with (ren_s r (tcall_s tc st) :: ren r (tcalls tc rest)).
    rewrite !rexec_cons. destruct Hs as [Hs1 Hs2]. cbn [forallb] in W. apply andb_prop in W. destruct W as [W1 W2].
    apply obind_ext.
    2:{ intros s'. apply (IH d fr1 fr2 r sc ar); [assumption|assumption|assumption| |assumption].
        revert Hrel. apply frelK_weaken. apply nm_tail. }
    pose proof (kren_evalZ r sc ar _ fr1 fr2 s Hok Hrel) as HZ.
    pose proof (kren_evalB r sc ar _ fr1 fr2 s Hok Hrel) as HB.
    pose proof (kren_evalZ_list r sc ar _ fr1 fr2 s Hok Hrel) as HL.
    destruct st as [x e|a idx e|v lo hi stp body|c body|c tb eb|g args|l]; cbn [tcall_s ren_s rexec1]; cbn [wk_s] in W1; spl.
    - (* SAssign *)
      apply obind_ext.
      + apply HZ; [assumption|]. intros y Hy. apply nm_head. inn.
      + intros v. destruct (Hrel x) as [E _]; [apply nm_head; inn|]. now rewrite (E H).
    - (* SStore *)
      apply obind_ext.
      + apply HL; [assumption|]. intros y Hy. apply nm_head. inn.
      + intros i. apply obind_ext.
        * apply HZ; [assumption|]. intros y Hy. apply nm_head. inn.
        * intros v. destruct (Hrel a) as [_ E]; [apply nm_head; inn|]. destruct (E H) as [A [B C]]. now rewrite A, B, C.
    - (* SDo *)
      apply obind_ext; [apply HZ; [assumption|]; intros y Hy; apply nm_head; destruct stp; inn|]. intros a.
      apply obind_ext; [apply HZ; [assumption|]; intros y Hy; apply nm_head; destruct stp; inn|]. intros b.
      apply obind_ext.
      + destruct stp as [e|]; cbn [option_map]; [|reflexivity].
        apply HZ; [assumption|]. intros y Hy. apply nm_head. inn.
      + intros dl. destruct (dl =? 0); [reflexivity|].
        destruct (Hrel v) as [E _]; [apply nm_head; destruct stp; inn|]. rewrite (E H).
        apply rdo_loop_ext. intros s0.
        apply (IH d fr1 fr2 r sc ar body s0 Hok); [|assumption| |exact HI].
        * now rewrite sites_s_do in Hs1.
        * revert Hrel. apply frelK_weaken. intros y [Hy|Hy]; [apply nm_head|apply nm_head_t]; destruct stp; revert Hy; inn.
    - (* SWhile *)
      apply obind_ext; [apply HB; [assumption|]; intros y Hy; apply nm_head; inn|]. intros b.
      destruct b; [|reflexivity]. apply obind_ext.
      + apply (IH d fr1 fr2 r sc ar body s Hok); [|assumption| |exact HI].
        * now rewrite sites_s_while in Hs1.
        * revert Hrel. apply frelK_weaken. intros y [Hy|Hy]; [apply nm_head|apply nm_head_t]; revert Hy; inn.
      + intros s1. apply (IH d fr1 fr2 r sc ar [SWhile c body] s1 Hok); [| | |exact HI].
        * split; [exact Hs1|exact I].
        * cbn [forallb wk_s]. now rewrite H, H0.
        * revert Hrel. apply frelK_weaken. apply nm_single.
    - (* SIf *)
      apply obind_ext; [apply HB; [assumption|]; intros y Hy; apply nm_head; inn|]. intros b.
      rewrite sites_s_if in Hs1. destruct Hs1 as [Ht He].
      destruct b.
      + apply (IH d fr1 fr2 r sc ar tb s Hok Ht); [assumption| |exact HI].
        revert Hrel. apply frelK_weaken. intros y [Hy|Hy]; [apply nm_head|apply nm_head_t]; revert Hy; inn.
      + apply (IH d fr1 fr2 r sc ar eb s Hok He); [assumption| |exact HI].
        revert Hrel. apply frelK_weaken. intros y [Hy|Hy]; [apply nm_head|apply nm_head_t]; revert Hy; inn.
    - (* SCall *)
      assert (Hrel' : frelK r sc ar (nma tc g args) fr1 fr2).
      { revert Hrel. apply frelK_weaken. intros y [Hy|Hy]; [apply nm_head|apply nm_head_t]; exact Hy. }
      pose proof (Hprocs g) as Hp. pose proof (Hbind g) as Hb.
      destruct (find_rproc ps1 g) as [p1|]; destruct (find_rproc ps2 g) as [p2|]; try contradiction; [|reflexivity].
      cbn [obind]. destruct Hp as [Hbody [Hokg [Hsg Hwg]]].
      specialize (Hb p1 p2 (S d) fr1 fr2 r sc ar args s eq_refl eq_refl Hok Hs1 Hrel' HI).
      destruct (bind (S d) fr1 s p1 args) as [c1|];
        destruct (bind (S d) fr2 s p2 (map (ren_e r) (tc g args))) as [c2|]; try contradiction; [|reflexivity].
      cbn [obind]. destruct Hb as [Hsnd [Hfr HI']]. rewrite Hbody, <- Hsnd. now apply (IH (S d) (fst c1) (fst c2) (rm g) (scm g) (arm g)).
    - (* SSkip *) reflexivity.
  Qed.
End KCoupled.


(* ================================================================================================ *)
(** * 3. the dummy/actual pairs after the expansion *)

Definition nkind (td : typedefs) (ty path : string) : pkind :=
  match comp_at 8 td ty path with
  | Some (CArr k) => PArr (repeat DShape k)
  | Some (CRec ty') => PRec ty'
  | _ => PScal
  end.
Definition nname (x path : string) : string := replace_pct (join_pct x path).
Definition isexp (exp : list (string * list string)) (x : string) : bool :=
  match assoc_s exp x with Some _ => true | None => false end.

Definition xact (exp : list (string * list string)) (q : string * expr) : list expr :=
  match assoc_s exp (fst q), snd q with
  | Some paths, EVar t => map (fun p => EVar (join_pct t p)) paths
  | _, a => [a]
  end.

Lemma expand_actuals_eq dd args :
  expand_actuals dd args = flat_map (xact (dd_exp dd)) (combine (dd_args dd) args) ++ skipn (List.length (dd_args dd)) args.
Proof. reflexivity. Qed.

Lemma dt_new_params_eq td exp params :
  dt_new_params td exp params =
  flat_map (fun p => match assoc_s exp (fst p), snd p with
                     | Some paths, PRec ty => map (fun path => (nname (fst p) path, nkind td ty path)) paths
                     | _, _ => [p] end) params.
Proof. reflexivity. Qed.

Lemma combine_app2 {A B} (l1 l2 : list A) (m1 m2 : list B) : List.length l1 = List.length m1 ->
  combine (l1 ++ l2) (m1 ++ m2) = combine l1 m1 ++ combine l2 m2.
Proof.
  revert m1. induction l1 as [|a l1 IH]; intros [|b m1] H; cbn [List.length] in H; try discriminate H; [reflexivity|].
  cbn [app combine]. f_equal. apply IH. lia.
Qed.

Lemma combine_map2 {A B C} (f : A -> B) (g : A -> C) l : combine (map f l) (map g l) = map (fun a => (f a, g a)) l.
Proof. induction l as [|a l IH]; cbn [map combine]; [reflexivity|]. now rewrite IH. Qed.

Lemma lookup_pa_app z l1 l2 :
  lookup_pa z (l1 ++ l2) = match lookup_pa z l1 with Some v => Some v | None => lookup_pa z l2 end.
Proof.
  induction l1 as [|[[x k] e] l1 IH]; cbn [app lookup_pa]; [reflexivity|].
  destruct (String.eqb x z); [reflexivity|exact IH].
Qed.

Lemma lookup_map_miss {A} z (nf : A -> string) (K : A -> pkind) (E : A -> expr) l :
  (forall p, In p l -> nf p <> z) -> lookup_pa z (map (fun p => ((nf p, K p), E p)) l) = None.
Proof.
  induction l as [|p l IH]; cbn [map lookup_pa]; intros H; [reflexivity|].
  destruct (String.eqb (nf p) z) eqn:E1.
  - apply String.eqb_eq in E1. exfalso. apply (H p); [now left|exact E1].
  - apply IH. intros q Hq. apply H. now right.
Qed.

Lemma lookup_map_hit {A} (nf : A -> string) (K : A -> pkind) (E : A -> expr) l a :
  In a l -> (forall p, In p l -> nf p = nf a -> p = a) ->
  lookup_pa (nf a) (map (fun p => ((nf p, K p), E p)) l) = Some (K a, E a).
Proof.
  induction l as [|p l IH]; cbn [map lookup_pa]; intros Hin Hinj; [destruct Hin|].
  destruct (String.eqb (nf p) (nf a)) eqn:E1.
  - apply String.eqb_eq in E1. rewrite (Hinj p (or_introl eq_refl) E1). reflexivity.
  - destruct Hin as [->|Hin]; [now rewrite String.eqb_refl in E1|].
    apply IH; [exact Hin|]. intros q Hq. apply Hinj. now right.
Qed.

Lemma in_dt_rmap exp k v : In (k, v) (dt_rmap exp) <->
  exists x paths path, In (x, paths) exp /\ In path paths /\ k = join_pct x path /\ v = nname x path.
Proof.
  unfold dt_rmap. rewrite in_flat_map. split.
  - intros [[x paths] [H1 H2]]. cbn [fst snd] in H2. apply in_map_iff in H2. destruct H2 as [path [E H2]].
    injection E as <- <-. exists x, paths, path. repeat split; assumption.
  - intros [x [paths [path [H1 [H2 [-> ->]]]]]]. exists (x, paths). split; [exact H1|].
    cbn [fst snd]. apply in_map_iff. exists path. split; [reflexivity|exact H2].
Qed.

Lemma assoc_dt_rmap exp z v : assoc_s (dt_rmap exp) z = Some v -> v = replace_pct z.
Proof.
  intros H. apply assoc_s_In in H. apply in_dt_rmap in H. destruct H as [x [paths [path [_ [_ [-> ->]]]]]]. reflexivity.
Qed.

Lemma rn_dt_rmap exp z : in_dom (dt_rmap exp) z = true -> rn (dt_rmap exp) z = replace_pct z.
Proof.
  unfold in_dom, rn. destruct (assoc_s (dt_rmap exp) z) as [v|] eqn:E; [|discriminate].
  intros _. now apply assoc_dt_rmap in E.
Qed.

Lemma in_dom_In' m z v : In (z, v) m -> in_dom m z = true.
Proof.
  unfold in_dom. induction m as [|[k w] m IH]; cbn [assoc_s In]; [intros []|].
  intros [H|H].
  - injection H as -> ->. now rewrite String.eqb_refl.
  - destruct (String.eqb k z); [reflexivity|now apply IH].
Qed.

Lemma nodup_s_In_assoc {A} (l : list (string * A)) x v : nodup_s (map fst l) = true -> In (x, v) l -> assoc_s l x = Some v.
Proof.
  induction l as [|[k w] l IH]; cbn [map fst nodup_s assoc_s In]; intros Hnd Hin; [destruct Hin|].
  apply andb_prop in Hnd. destruct Hnd as [H1 H2]. destruct Hin as [Hin|Hin].
  - injection Hin as -> ->. now rewrite String.eqb_refl.
  - destruct (String.eqb k x) eqn:E; [|now apply IH].
    apply String.eqb_eq in E. subst k. exfalso.
    assert (Hm : mem_s (map fst l) x = true). { apply mem_s_In. change x with (fst (x, v)). now apply in_map. }
    rewrite Hm in H1. discriminate H1.
Qed.

Lemma nodup_snd_inj {A} (l : list (A * string)) a b v : nodup_s (map snd l) = true -> In (a, v) l -> In (b, v) l -> a = b.
Proof.
  induction l as [|[k w] l IH]; cbn [map snd nodup_s In]; intros Hnd Ha Hb; [destruct Ha|].
  apply andb_prop in Hnd. destruct Hnd as [H1 H2]. apply negb_true_iff in H1.
  assert (Hm : forall c, In (c, w) l -> False).
  { intros c Hc. assert (Hm : mem_s (map snd l) w = true). { apply mem_s_In. change w with (snd (c, w)). now apply in_map. }
    rewrite Hm in H1. discriminate H1. }
  destruct Ha as [Ha|Ha]; destruct Hb as [Hb|Hb].
  - congruence.
  - injection Ha as -> ->. destruct (Hm _ Hb).
  - injection Hb as -> ->. destruct (Hm _ Ha).
  - now apply IH.
Qed.

Section Entries.
  Variable td : typedefs.
  Variable exp : list (string * list string).
  Variable r : string -> string.

  Definition dt_entry (q : (string * pkind) * expr) : pargs :=
    match assoc_s exp (fst (fst q)), snd (fst q), snd q with
    | Some paths, PRec ty, EVar t =>
        map (fun path => ((nname (fst (fst q)) path, nkind td ty path), EVar (r (join_pct t path)))) paths
    | _, _, _ => [(fst q, ren_e r (snd q))]
    end.

  Definition wfq (q : (string * pkind) * expr) : Prop :=
    forall paths, assoc_s exp (fst (fst q)) = Some paths -> (exists ty, snd (fst q) = PRec ty) /\ (exists t, snd q = EVar t).

  Lemma pa2_flat : forall ps args, List.length args = List.length ps ->
    (forall q, In q (combine ps args) -> wfq q) ->
    combine (dt_new_params td exp ps) (map (ren_e r) (flat_map (xact exp) (combine (map fst ps) args))) =
    flat_map dt_entry (combine ps args).
  Proof.
    induction ps as [|[x k] ps IH]; intros [|e args] Hlen Hwf; cbn [List.length] in Hlen; try discriminate Hlen; [reflexivity|].
    rewrite dt_new_params_eq. cbn [map fst combine flat_map]. rewrite <- dt_new_params_eq.
    rewrite map_app.
    assert (IH' : combine (dt_new_params td exp ps) (map (ren_e r) (flat_map (xact exp) (combine (map fst ps) args))) =
                  flat_map dt_entry (combine ps args)).
    { apply IH; [lia|]. intros q Hq. apply Hwf. now right. }
    pose proof (Hwf ((x, k), e) (or_introl eq_refl)) as Hw. unfold wfq in Hw. cbn [fst snd] in Hw.
    unfold dt_entry at 1. unfold xact at 1. cbn [fst snd].
    destruct (assoc_s exp x) as [paths|] eqn:E.
    - destruct (Hw paths eq_refl) as [[ty ->] [t ->]].
      rewrite combine_app2 by now rewrite !map_length.
      rewrite IH'. f_equal. rewrite map_map. rewrite combine_map2. reflexivity.
    - rewrite combine_app2 by (destruct k; reflexivity). rewrite IH'.
      destruct k; reflexivity.
  Qed.

  Lemma pa2_char ps args : List.length args = List.length ps ->
    (forall q, In q (combine ps args) -> wfq q) ->
    combine (dt_new_params td exp ps) (map (ren_e r) (expand_actuals {| dd_args := map fst ps; dd_exp := exp |} args)) =
    flat_map dt_entry (combine ps args).
  Proof.
    intros Hlen Hwf. rewrite expand_actuals_eq. cbn [dd_args dd_exp].
    rewrite map_length, <- Hlen, skipn_all, app_nil_r. now apply pa2_flat.
  Qed.

  Lemma pa2_length ps args : List.length args = List.length ps ->
    (forall q, In q (combine ps args) -> wfq q) ->
    List.length (expand_actuals {| dd_args := map fst ps; dd_exp := exp |} args) = List.length (dt_new_params td exp ps).
  Proof.
    rewrite expand_actuals_eq. cbn [dd_args dd_exp]. intros Hlen. rewrite map_length, <- Hlen, skipn_all, app_nil_r.
    revert args Hlen. induction ps as [|[x k] ps IH]; intros [|e args] Hlen Hwf; cbn [List.length] in Hlen; try discriminate Hlen; [reflexivity|].
    rewrite dt_new_params_eq. cbn [map fst combine flat_map]. rewrite <- dt_new_params_eq.
    rewrite !app_length. rewrite IH; [|lia|intros q Hq; apply Hwf; now right].
    pose proof (Hwf ((x, k), e) (or_introl eq_refl)) as Hw. unfold wfq in Hw. cbn [fst snd] in Hw.
    unfold xact at 1. cbn [fst snd]. destruct (assoc_s exp x) as [paths|] eqn:E.
    - destruct (Hw paths eq_refl) as [[ty ->] [t ->]]. now rewrite !map_length.
    - destruct k; reflexivity.
  Qed.

  Definition renk (ke : pkind * expr) : pkind * expr := (fst ke, ren_e r (snd ke)).

  (** a name that is not one of the new dummies *)
  Lemma lookup_old z : forall pa, (forall q, In q pa -> wfq q) ->
    (forall x paths path, In (x, paths) exp -> In path paths -> nname x path <> z) ->
    lookup_pa z (flat_map dt_entry pa) = if isexp exp z then None else option_map renk (lookup_pa z pa).
  Proof.
    intros pa Hwf Hz. induction pa as [|[[x k] e] pa IH]; [now destruct (isexp exp z)|].
    assert (IH' : lookup_pa z (flat_map dt_entry pa) = (if isexp exp z then None else option_map renk (lookup_pa z pa))).
    { apply IH. intros q Hq. apply Hwf. now right. }
    pose proof (Hwf ((x, k), e) (or_introl eq_refl)) as Hw. unfold wfq in Hw. cbn [fst snd] in Hw.
    cbn [flat_map]. rewrite lookup_pa_app. unfold dt_entry at 1. cbn [fst snd lookup_pa].
    destruct (assoc_s exp x) as [paths|] eqn:E.
    - destruct (Hw paths eq_refl) as [[ty ->] [t ->]].
      rewrite lookup_map_miss.
      2:{ intros p Hp. apply (Hz x paths p); [now apply assoc_s_In|exact Hp]. }
      rewrite IH'. destruct (isexp exp z) eqn:Ez; [reflexivity|].
      destruct (String.eqb x z) eqn:Exz; [|reflexivity].
      apply String.eqb_eq in Exz. subst z. unfold isexp in Ez. rewrite E in Ez. discriminate Ez.
    - assert (L : lookup_pa z [((x, k), ren_e r e)] = if String.eqb x z then Some (k, ren_e r e) else None) by reflexivity.
      rewrite L. destruct (String.eqb x z) eqn:Exz.
      + apply String.eqb_eq in Exz. subst z. unfold isexp. rewrite E. reflexivity.
      + exact IH'.
  Qed.

  Hypothesis Hinj : forall x paths path x' paths' path', In (x, paths) exp -> In path paths ->
    In (x', paths') exp -> In path' paths' -> nname x path = nname x' path' -> x = x' /\ path = path'.

  (** one of the new dummies *)
  Lemma lookup_new x paths path ty t : assoc_s exp x = Some paths -> In path paths ->
    forall pa, (forall q, In q pa -> wfq q) ->
    (forall q x' paths' path', In q pa -> In (x', paths') exp -> In path' paths' -> nname x' path' <> fst (fst q)) ->
    lookup_pa x pa = Some (PRec ty, EVar t) ->
    lookup_pa (nname x path) (flat_map dt_entry pa) = Some (nkind td ty path, EVar (r (join_pct t path))).
  Proof.
    intros Ex Hp. pose proof (assoc_s_In _ _ _ Ex) as Hin.
    induction pa as [|[[x0 k0] e0] pa IH]; intros Hwf Hnot L; [discriminate L|].
    pose proof (Hwf ((x0, k0), e0) (or_introl eq_refl)) as Hw. unfold wfq in Hw. cbn [fst snd] in Hw.
    cbn [flat_map]. rewrite lookup_pa_app. unfold dt_entry at 1. cbn [fst snd].
    cbn [lookup_pa] in L.
    assert (IH' : String.eqb x0 x = false ->
                  lookup_pa (nname x path) (flat_map dt_entry pa) = Some (nkind td ty path, EVar (r (join_pct t path)))).
    { intros Ne. rewrite Ne in L. apply IH; [intros q Hq; apply Hwf; now right| |exact L].
      intros q x' paths' path' Hq. apply Hnot. now right. }
    destruct (assoc_s exp x0) as [paths0|] eqn:E0.
    - destruct (Hw paths0 eq_refl) as [[ty0 ->] [t0 ->]].
      destruct (String.eqb x0 x) eqn:Ne.
      + apply String.eqb_eq in Ne. subst x0. injection L as -> ->. rewrite Ex in E0. injection E0 as <-.
        rewrite (lookup_map_hit (nname x) (nkind td ty) (fun p => EVar (r (join_pct t p))) paths path Hp); [reflexivity|].
        intros p Hp' Heq. now destruct (Hinj x paths p x paths path Hin Hp' Hin Hp Heq).
      + rewrite lookup_map_miss; [now apply IH'|].
        intros p Hp' Heq. destruct (Hinj x0 paths0 p x paths path (assoc_s_In _ _ _ E0) Hp' Hin Hp Heq) as [-> _].
        now rewrite String.eqb_refl in Ne.
    - assert (Ne : String.eqb x0 x = false).
      { destruct (String.eqb x0 x) eqn:Ne; [|reflexivity]. apply String.eqb_eq in Ne. subst x0. rewrite Ex in E0. discriminate E0. }
      assert (Nn : String.eqb x0 (nname x path) = false).
      { destruct (String.eqb x0 (nname x path)) eqn:Nn; [|reflexivity]. apply String.eqb_eq in Nn. exfalso.
        apply (Hnot ((x0, k0), e0) x paths path (or_introl eq_refl) Hin Hp). cbn [fst]. now symmetry. }
      assert (L0 : lookup_pa (nname x path) [((x0, k0), ren_e r e0)] = None) by (cbn [lookup_pa]; now rewrite Nn).
      rewrite L0. now apply IH'.
  Qed.
End Entries.


(* ================================================================================================ *)
(** * 4. helpers for [bind] *)

(** an actual is used according to the kind of its dummy *)
Definition wk_arg (sc ar : string -> bool) (q : (string * pkind) * expr) : bool :=
  match snd (fst q) with PScal => wk_e sc ar (snd q) | PArr _ => wk_aact sc ar (snd q) | PRec _ => true end.

(** the kind of an expanded component name of a routine (dummies [params], renaming [m]) *)
Definition dt_kind (td : typedefs) (params : list (string * pkind)) (m : rmap) (z : string) : option comp :=
  if in_dom m z then
    match assoc_s params (root_of z) with Some (PRec ty) => comp_at 8 td ty (rest_of z) | _ => None end
  else None.
Definition dt_sc td params m z : bool := match dt_kind td params m z with Some (CArr _) => false | _ => true end.
Definition dt_ar td params m z : bool := match dt_kind td params m z with Some CScal => false | _ => true end.

Lemma init_app d fr s : forall l1 l2 s0,
  init_scalars d fr s (l1 ++ l2) s0 = obind (init_scalars d fr s l1 s0) (fun s1 => init_scalars d fr s l2 s1).
Proof.
  induction l1 as [|[[z k] e] l1 IH]; intros l2 s0; [reflexivity|].
  cbn [app init_scalars]. destruct k.
  - destruct (scalar_init fr s e) as [o|]; cbn [obind]; [apply IH|reflexivity].
  - apply IH.
  - destruct (is_var e); [apply IH|reflexivity].
Qed.

Lemma init_vars d fr s {A} (nf : A -> string) (K : A -> pkind) (tf : A -> string) l s0 :
  init_scalars d fr s (map (fun p => ((nf p, K p), EVar (tf p))) l) s0 = Some s0.
Proof.
  induction l as [|p l IH]; [reflexivity|]. cbn [map init_scalars]. destruct (K p); cbn [scalar_init obind is_var]; exact IH.
Qed.

Lemma is_shape_repeat k : forallb is_shape (repeat DShape k) = true.
Proof. induction k as [|k IH]; [reflexivity|exact IH]. Qed.

Lemma forallb_flat_map {A B} (f : B -> bool) (g : A -> list B) l :
  forallb f (flat_map g l) = forallb (fun a => forallb f (g a)) l.
Proof. induction l as [|a l IH]; [reflexivity|]. cbn [flat_map forallb]. now rewrite forallb_app, IH. Qed.

Lemma forallb_ext_in' {A} (f g : A -> bool) l : (forall a, In a l -> f a = g a) -> forallb f l = forallb g l.
Proof.
  induction l as [|a l IH]; intros H; [reflexivity|]. cbn [forallb]. rewrite (H a (or_introl eq_refl)), IH; [reflexivity|].
  intros b Hb. apply H. now right.
Qed.

Lemma in_combine_fst {A B C} (x : A) (k : B) (e : C) : forall ps args,
  In ((x, k), e) (combine ps args) -> In (x, e) (combine (map fst ps) args).
Proof.
  induction ps as [|[y k0] ps IH]; intros [|e0 args] H; cbn [combine map fst In] in *; try contradiction.
  destruct H as [H|H]; [left; congruence|right; now apply IH].
Qed.

Lemma is_var_ren' r e : is_var (ren_e r e) = is_var e.
Proof. destruct e; reflexivity. Qed.

(** an assumed-shape dummy laid over a whole array whose lower bounds are 1 is that array *)
Lemma shape_view fr1 fr2 s c a1 a2 k l : aref_agree (fa fr1 a1) (fa fr2 a2) -> bnd_lb1 (ar_bnd (fa fr1 a1)) = true ->
  aref_agree (clamp_aref (fa fr1 a1))
    (match actual_seq fr2 s (EVar a2) with
     | Some sq => match dummy_bnd c sq (repeat DShape k) with Some b => mk_aref sq b | None => dead_aref l end
     | None => dead_aref l
     end).
Proof.
  intros [A [B C]] HB. cbn [actual_seq]. unfold dummy_bnd. rewrite is_shape_repeat. cbn [mk_aseq sq_ext].
  rewrite <- B. rewrite (dt_bsize_shape1 _ HB).
  unfold aref_agree, clamp_aref, mk_aref; cbn [ar_loc ar_bnd ar_view sq_loc sq_at].
  split; [exact A|]. split; [reflexivity|]. intros i.
  destruct (in_bnd (ar_bnd (fa fr1 a1)) i) eqn:Ei; [|reflexivity].
  destruct (dt_lin_range _ _ Ei) as [L1 L2].
  assert (H : (0 <=? lin (ar_bnd (fa fr1 a1)) i) && (lin (ar_bnd (fa fr1 a1)) i <? bsize (ar_bnd (fa fr1 a1))) = true).
  { apply andb_true_intro. split; [now apply Z.leb_le|now apply Z.ltb_lt]. }
  unfold mk_aseq; cbn [sq_at]. rewrite H, (dt_delin_lin _ _ Ei). apply C.
Qed.

Lemma shape_achk fr1 fr2 s c a1 a2 k z : aref_agree (fa fr1 a1) (fa fr2 a2) -> bnd_lb1 (ar_bnd (fa fr1 a1)) = true ->
  achk fr2 s c ((z, PArr (repeat DShape k)), EVar a2) = true.
Proof.
  intros [A [B C]] HB. unfold achk. cbn [fst snd actual_seq]. unfold dummy_bnd. rewrite is_shape_repeat. cbn [mk_aseq sq_ext sq_len].
  rewrite <- B. rewrite (dt_bsize_shape1 _ HB). apply Z.leb_refl.
Qed.


(* ================================================================================================ *)
(** * 5. [bind] before and after the expansion of the derived-type dummies *)

Section DT.
  Variable td : typedefs.
  Variable exp : list (string * list string).
  Variable params : list (string * pkind).
  Variable arrs : list (string * list (expr * expr)).
  Let m := dt_rmap exp.
  Variables NB D : string -> Prop.

  Hypothesis Hnd : nodup_s (map fst params) = true.
  Hypothesis Hnp : forall x k, In (x, k) params -> has_pct x = false.
  Hypothesis Hexp_nd : nodup_s (map fst exp) = true.
  Hypothesis Hexp : forall x paths, In (x, paths) exp -> exists ty, assoc_s params x = Some (PRec ty) /\
      forall path, In path paths -> comp_at 8 td ty path = Some CScal \/ exists k, comp_at 8 td ty path = Some (CArr k).
  Hypothesis Hm_nd : nodup_s (map snd m) = true.
  Hypothesis Hnew : forall k v, In (k, v) m -> ~ In v (map fst params) /\ ~ D v /\ ~ NB v.
  Hypothesis HD : forall z, D z -> has_pct z = false.
  Hypothesis HDp : forall x, In x (params_dim_names params) -> D x.
  Hypothesis HDa : forall x, In x (arrs_names arrs) -> D x.
  Hypothesis Hcallee : forall z, NB z -> has_pct z = true ->
      match assoc_s params (root_of z) with Some (PRec _) => in_dom m z = true | Some _ => False | None => True end.
  Hypothesis Hloc : forall x paths, In (x, paths) exp -> assoc_s arrs x = None.
  Hypothesis HlocInv : forall z bs c b, has_pct z = true -> assoc_s arrs z = Some bs -> eval_bnds c bs = Some b -> bnd_lb1 b = true.

  Variable r : string -> string.
  Variables sc ar : string -> bool.
  Variables fr1 fr2 : frame.
  Variable s : rstore.
  Variable args : list expr.
  Hypothesis Hok : ren_ok r.
  Hypothesis Hlen : List.length args = List.length params.
  Let pa1 := combine params args.
  Hypothesis Hsite : forall x paths, In (x, paths) exp -> exists k t, lookup_pa x pa1 = Some (k, EVar t).
  Let targs := expand_actuals {| dd_args := map fst params; dd_exp := exp |} args.
  Let N (x : string) : Prop := In x (flat_map names_e args) \/ In x (flat_map names_e targs).
  Hypothesis Hrel : frelK r sc ar N fr1 fr2.
  Hypothesis HInv : forall z, has_pct z = true -> bnd_lb1 (ar_bnd (fa fr1 z)) = true.
  Hypothesis Hwk : forallb (wk_arg sc ar) pa1 = true.
  Hypothesis Hwkx : forall x paths ty t path, In (x, paths) exp -> In path paths -> lookup_pa x pa1 = Some (PRec ty, EVar t) ->
      match comp_at 8 td ty path with Some (CArr _) => ar (join_pct t path) = true | _ => sc (join_pct t path) = true end.
  Let pa2 := combine (dt_new_params td exp params) (map (ren_e r) targs).

  Lemma exp_entry x paths : In (x, paths) exp -> exists ty t,
    assoc_s exp x = Some paths /\ assoc_s params x = Some (PRec ty) /\ lookup_pa x pa1 = Some (PRec ty, EVar t) /\
    has_pct x = false /\
    (forall path, In path paths -> comp_at 8 td ty path = Some CScal \/ exists k, comp_at 8 td ty path = Some (CArr k)).
  Proof.
    intros Hin. destruct (Hexp x paths Hin) as [ty [Hp Hk]]. destruct (Hsite x paths Hin) as [k [t L]].
    pose proof (lookup_pa_assoc _ _ _ _ _ L) as A. rewrite Hp in A. injection A as <-.
    exists ty, t. split; [|split; [|split; [|split]]]; try assumption.
    - now apply nodup_s_In_assoc.
    - apply (Hnp x (PRec ty)). now apply assoc_s_In.
  Qed.

  Lemma wf_all q : In q pa1 -> wfq exp q.
  Proof.
    destruct q as [[x k] e]. intros Hq paths Ea. cbn [fst snd] in *. pose proof (assoc_s_In _ _ _ Ea) as Hin.
    destruct (exp_entry x paths Hin) as [ty [t [_ [Hp [L _]]]]].
    pose proof (lookup_pa_nodup x k e params args Hnd Hq) as L'. fold pa1 in L'. rewrite L in L'. injection L' as <- <-.
    split; eauto.
  Qed.

  Lemma in_m x paths path : In (x, paths) exp -> In path paths -> In (join_pct x path, nname x path) m.
  Proof. intros H1 H2. apply in_dt_rmap. exists x, paths, path. repeat split; assumption. Qed.

  Lemma hinj x paths path x' paths' path' : In (x, paths) exp -> In path paths ->
    In (x', paths') exp -> In path' paths' -> nname x path = nname x' path' -> x = x' /\ path = path'.
  Proof.
    intros H1 H2 H3 H4 E. pose proof (in_m x paths path H1 H2) as A. pose proof (in_m x' paths' path' H3 H4) as B.
    rewrite <- E in B. pose proof (nodup_snd_inj m _ _ _ Hm_nd A B) as J.
    destruct (exp_entry x paths H1) as [_ [_ [_ [_ [_ [P _]]]]]].
    destruct (exp_entry x' paths' H3) as [_ [_ [_ [_ [_ [P' _]]]]]].
    pose proof (split_join x path P) as S1. rewrite J, (split_join x' path' P') in S1. injection S1 as -> ->. now split.
  Qed.

  Lemma hnot q x' paths' path' : In q pa1 -> In (x', paths') exp -> In path' paths' -> nname x' path' <> fst (fst q).
  Proof.
    destruct q as [[x k] e]. intros Hq H1 H2 E. cbn [fst] in E.
    destruct (Hnew _ _ (in_m x' paths' path' H1 H2)) as [A _]. apply A. rewrite E.
    apply in_combine_l in Hq. change x with (fst (x, k)). now apply in_map.
  Qed.

  Lemma pa2_eq : pa2 = flat_map (dt_entry td exp r) pa1.
  Proof. apply pa2_char; [exact Hlen|exact wf_all]. Qed.

  Lemma lookup2_old z : ~ In z (map snd m) ->
    lookup_pa z pa2 = if isexp exp z then None else option_map (renk r) (lookup_pa z pa1).
  Proof.
    intros Hz. rewrite pa2_eq. apply lookup_old; [exact wf_all|]. intros x paths path H1 H2 E. apply Hz.
    apply in_map_iff. exists (join_pct x path, z). split; [reflexivity|]. rewrite <- E. now apply (in_m x paths path).
  Qed.

  Lemma lookup2_new x paths path : In (x, paths) exp -> In path paths -> exists ty t,
    lookup_pa x pa1 = Some (PRec ty, EVar t) /\ assoc_s params x = Some (PRec ty) /\
    lookup_pa (nname x path) pa2 = Some (nkind td ty path, EVar (r (join_pct t path))).
  Proof.
    intros H1 H2. destruct (exp_entry x paths H1) as [ty [t [Ea [Hp [L _]]]]]. exists ty, t.
    split; [exact L|]. split; [exact Hp|]. rewrite pa2_eq.
    apply (lookup_new td exp r hinj x paths path ty t Ea H2 pa1); [exact wf_all| |exact L].
    intros q x' paths' path' Hq. exact (hnot q x' paths' path' Hq).
  Qed.

  Lemma key_decomp z : in_dom m z = true -> exists x paths path,
    In (x, paths) exp /\ In path paths /\ z = join_pct x path /\ rn m z = nname x path.
  Proof.
    intros H. destruct (in_dom_In m z H) as [v [Hin Hrn]]. apply in_dt_rmap in Hin.
    destruct Hin as [x [paths [path [H1 [H2 [-> ->]]]]]]. exists x, paths, path. repeat split; assumption.
  Qed.

  Lemma lookup1_pct z : has_pct z = true -> lookup_pa z pa1 = None.
  Proof.
    intros Hz. destruct (lookup_pa z pa1) as [[k e]|] eqn:L; [|reflexivity].
    apply lookup_pa_in in L. destruct L as [_ L]. rewrite (Hnp z k L) in Hz. discriminate Hz.
  Qed.

  Definition fwdfree (z : string) : Prop := has_pct z = true -> assoc_s params (root_of z) = None.

  Lemma fwd1_none z : fwdfree z -> forward_root pa1 z = None.
  Proof.
    intros H. unfold forward_root. destruct (split_pct z) as [[root rest]|] eqn:E; [|reflexivity].
    assert (H0 : has_pct z = true) by (unfold has_pct; now rewrite E). specialize (H H0). unfold root_of in H. rewrite E in H.
    destruct (lookup_pa root pa1) as [[k e]|] eqn:L; [|reflexivity].
    apply lookup_pa_assoc in L. rewrite H in L. discriminate L.
  Qed.

  Lemma fwd2_none z : fwdfree z -> forward_root pa2 z = None.
  Proof.
    intros H. unfold forward_root. destruct (split_pct z) as [[root rest]|] eqn:E; [|reflexivity].
    assert (H0 : has_pct z = true) by (unfold has_pct; now rewrite E). specialize (H H0). unfold root_of in H. rewrite E in H.
    destruct (mem_s (map snd m) root) eqn:Em.
    - apply mem_s_In in Em. apply in_map_iff in Em. destruct Em as [[k v] [Ev Hin]]. cbn [snd] in Ev. subst v.
      apply in_dt_rmap in Hin. destruct Hin as [x [paths [path [H1 [H2 [-> ->]]]]]].
      destruct (lookup2_new x paths path H1 H2) as [ty [t [L [Hp L2]]]]. rewrite L2.
      destruct (exp_entry x paths H1) as [ty' [t' [_ [Hp' [_ [_ Hk]]]]]]. rewrite Hp in Hp'. injection Hp' as <-.
      unfold nkind. destruct (Hk path H2) as [E1|[k E1]]; rewrite E1; reflexivity.
    - rewrite lookup2_old.
      2:{ intros Hc. apply mem_s_In in Hc. rewrite Hc in Em. discriminate Em. }
      destruct (isexp exp root); [reflexivity|].
      destruct (lookup_pa root pa1) as [[k e]|] eqn:L; [|reflexivity].
      apply lookup_pa_assoc in L. rewrite H in L. discriminate L.
  Qed.

  Lemma NE_pa1 z k e : lookup_pa z pa1 = Some (k, e) ->
    (forall x, In x (names_e e) -> N x) /\ wk_arg sc ar ((z, k), e) = true.
  Proof.
    intros L. split.
    - intros x Hx. left. apply in_flat_map. exists e. split; [|exact Hx]. apply lookup_pa_in in L. tauto.
    - rewrite forallb_forall in Hwk. apply Hwk. now apply lookup_pa_In.
  Qed.

  Lemma N_exp x paths path ty t : In (x, paths) exp -> In path paths -> lookup_pa x pa1 = Some (PRec ty, EVar t) ->
    N (join_pct t path).
  Proof.
    intros H1 H2 L. right. apply in_flat_map. exists (EVar (join_pct t path)). split; [|cbn; auto].
    unfold targs. rewrite expand_actuals_eq. cbn [dd_args dd_exp]. apply in_or_app. left.
    apply in_flat_map. exists (x, EVar t). split.
    - apply in_combine_fst with (k := PRec ty). now apply lookup_pa_In.
    - unfold xact. cbn [fst snd]. rewrite (nodup_s_In_assoc exp x paths Hexp_nd H1). apply in_map_iff.
      exists path. split; [reflexivity|assumption].
  Qed.

  Lemma fs_old d z : ~ In z (map snd m) -> fwdfree z -> callee_fs d fr1 s pa1 z = callee_fs d fr2 s pa2 z.
  Proof.
    intros Hz Hf. unfold callee_fs. rewrite (lookup2_old z Hz), (fwd2_none z Hf), (fwd1_none z Hf).
    destruct (isexp exp z) eqn:Ez.
    - unfold isexp in Ez. destruct (assoc_s exp z) as [paths|] eqn:Ea; [|discriminate Ez].
      destruct (exp_entry z paths (assoc_s_In _ _ _ Ea)) as [ty [t [_ [_ [L _]]]]]. rewrite L. reflexivity.
    - destruct (lookup_pa z pa1) as [[k e]|] eqn:L; cbn [option_map renk fst snd]; [|reflexivity].
      destruct (NE_pa1 z k e L) as [HN W]. destruct k; try reflexivity. unfold wk_arg in W. cbn [fst snd] in W.
      apply (kren_sref_of r sc ar N fr1 fr2 s Hok Hrel); assumption.
  Qed.

  Lemma fa_old d c1 c2 z : envN D c1 c2 -> ~ In z (map snd m) -> fwdfree z ->
    aref_agree (callee_fa d fr1 s c1 pa1 arrs z) (callee_fa d fr2 s c2 pa2 arrs z).
  Proof.
    intros HE Hz Hf. unfold callee_fa. rewrite (lookup2_old z Hz), (fwd2_none z Hf), (fwd1_none z Hf).
    destruct (isexp exp z) eqn:Ez.
    - unfold isexp in Ez. destruct (assoc_s exp z) as [paths|] eqn:Ea; [|discriminate Ez].
      pose proof (assoc_s_In _ _ _ Ea) as Hin.
      destruct (exp_entry z paths Hin) as [ty [t [_ [_ [L _]]]]]. rewrite L.
      unfold local_aref. rewrite (Hloc z paths Hin). apply aref_agree_refl.
    - destruct (lookup_pa z pa1) as [[k e]|] eqn:L; cbn [option_map renk fst snd].
      + destruct (NE_pa1 z k e L) as [HN W]. destruct k; try apply aref_agree_refl.
        unfold wk_arg in W. cbn [fst snd] in W.
        pose proof (kren_actual_seq r sc ar N fr1 fr2 s Hok Hrel e W HN) as Hq.
        destruct (actual_seq fr1 s e) as [q1|]; destruct (actual_seq fr2 s (ren_e r e)) as [q2|];
          try contradiction; [|apply aref_agree_refl].
        cbn [oaseq_agree] in Hq. rewrite (dummy_bnd_envN D c1 c2 q1 q2 dims HE Hq).
        2:{ intros y Hy. apply HDp. unfold params_dim_names. apply in_flat_map. exists (z, PArr dims).
            split; [|exact Hy]. apply lookup_pa_in in L. tauto. }
        destruct (dummy_bnd c2 q2 dims); [now apply mk_aref_agree|apply aref_agree_refl].
      + rewrite (local_aref_envN D d c1 c2 arrs z HE HDa). apply aref_agree_refl.
  Qed.

  Lemma new_frames d c1 c2 x paths path : In (x, paths) exp -> In path paths -> exists ty t,
    assoc_s params x = Some (PRec ty) /\ lookup_pa x pa1 = Some (PRec ty, EVar t) /\
    callee_fs d fr1 s pa1 (join_pct x path) = fs fr1 (join_pct t path) /\
    callee_fs d fr2 s pa2 (nname x path) =
      match nkind td ty path with
      | PScal => fs fr2 (r (join_pct t path))
      | PArr _ => RCell (d, EmptyString)
      | PRec _ => RCell (d, nname x path)
      end /\
    callee_fa d fr1 s c1 pa1 arrs (join_pct x path) = clamp_aref (fa fr1 (join_pct t path)) /\
    callee_fa d fr2 s c2 pa2 arrs (nname x path) =
      match nkind td ty path with
      | PArr dims =>
          match actual_seq fr2 s (EVar (r (join_pct t path))) with
          | Some sq => match dummy_bnd c2 sq dims with Some b => mk_aref sq b | None => dead_aref (d, EmptyString) end
          | None => dead_aref (d, EmptyString)
          end
      | PScal => dead_aref (d, EmptyString)
      | PRec _ => dead_aref (d, nname x path)
      end.
  Proof.
    intros H1 H2. destruct (lookup2_new x paths path H1 H2) as [ty [t [L [Hp L2]]]]. exists ty, t.
    destruct (exp_entry x paths H1) as [_ [_ [_ [_ [_ [P _]]]]]].
    assert (F : forward_root pa1 (join_pct x path) = Some (join_pct t path)).
    { unfold forward_root. now rewrite (split_join x path P), L. }
    split; [exact Hp|]. split; [exact L|]. split; [|split; [|split]].
    - unfold callee_fs. now rewrite (lookup1_pct _ (has_pct_join x path)), F.
    - unfold callee_fs. rewrite L2. destruct (nkind td ty path); reflexivity.
    - unfold callee_fa. now rewrite (lookup1_pct _ (has_pct_join x path)), F.
    - unfold callee_fa. rewrite L2. destruct (nkind td ty path); reflexivity.
  Qed.

  Lemma D_old z : D z -> ~ In z (map snd m) /\ fwdfree z.
  Proof.
    intros Hz. split.
    - intros Hc. apply in_map_iff in Hc. destruct Hc as [[k v] [Ev Hin]]. cbn [snd] in Ev. subst v.
      destruct (Hnew _ _ Hin) as [_ [A _]]. now apply A.
    - intros Hp. rewrite (HD z Hz) in Hp. discriminate Hp.
  Qed.

  Lemma cenv_N d s0 : envN D (scal_env (callee_fs d fr1 s pa1) s0) (scal_env (callee_fs d fr2 s pa2) s0).
  Proof.
    split; [|reflexivity]. intros x Hx. cbn [scal_env ev_var]. destruct (D_old x Hx) as [A B].
    now rewrite (fs_old d x A B).
  Qed.

  Lemma init_dt d : forall pa s0, (forall q, In q pa -> In q pa1) ->
    init_scalars d fr1 s pa s0 = init_scalars d fr2 s (flat_map (dt_entry td exp r) pa) s0.
  Proof.
    induction pa as [|[[x k] e] pa IH]; intros s0 Hsub; [reflexivity|].
    assert (Hsub' : forall q, In q pa -> In q pa1) by (intros q Hq; apply Hsub; now right).
    pose proof (Hsub _ (or_introl eq_refl)) as Hq.
    pose proof (wf_all _ Hq) as Hw. unfold wfq in Hw. cbn [fst snd] in Hw.
    cbn [flat_map]. rewrite init_app. unfold dt_entry at 1. cbn [fst snd].
    destruct (assoc_s exp x) as [paths|] eqn:Ea.
    - destruct (Hw paths eq_refl) as [[ty ->] [t ->]]. rewrite init_vars. cbn [obind init_scalars is_var]. now apply IH.
    - assert (HNe : forall y, In y (names_e e) -> N y).
      { intros y Hy. left. apply in_flat_map. exists e. split; [|exact Hy]. now apply in_combine_r in Hq. }
      assert (W : wk_arg sc ar ((x, k), e) = true) by (rewrite forallb_forall in Hwk; now apply Hwk).
      unfold wk_arg in W. cbn [fst snd] in W.
      destruct k; cbn [init_scalars].
      + rewrite <- (kren_scalar_init r sc ar N fr1 fr2 s Hok Hrel e W HNe).
        destruct (scalar_init fr1 s e) as [o|]; cbn [obind]; [now apply IH|reflexivity].
      + cbn [obind]. now apply IH.
      + rewrite is_var_ren'. destruct (is_var e); cbn [obind]; [now apply IH|reflexivity].
  Qed.

  Lemma init_eq d s0 : init_scalars d fr1 s pa1 s0 = init_scalars d fr2 s pa2 s0.
  Proof. rewrite pa2_eq. apply init_dt. auto. Qed.

  Lemma arrays_eq c1 c2 : envN D c1 c2 -> arrays_ok fr1 s c1 pa1 = arrays_ok fr2 s c2 pa2.
  Proof.
    intros HE. rewrite pa2_eq, !arrays_ok_forallb, forallb_flat_map. apply forallb_ext_in'.
    intros [[x k] e] Hq. pose proof (wf_all _ Hq) as Hw. unfold wfq in Hw. cbn [fst snd] in Hw.
    unfold dt_entry. cbn [fst snd]. destruct (assoc_s exp x) as [paths|] eqn:Ea.
    - destruct (Hw paths eq_refl) as [[ty ->] [t ->]].
      change (achk fr1 s c1 (x, PRec ty, EVar t)) with true. symmetry. apply forallb_forall.
      intros q Hq'. apply in_map_iff in Hq'. destruct Hq' as [path [<- Hp]].
      pose proof (assoc_s_In _ _ _ Ea) as Hin.
      pose proof (lookup_pa_nodup x (PRec ty) (EVar t) params args Hnd Hq) as L. fold pa1 in L.
      pose proof (Hwkx x paths ty t path Hin Hp L) as Wx.
      unfold nkind. destruct (comp_at 8 td ty path) as [[|k|ty']|] eqn:Ec; try reflexivity.
      apply (shape_achk fr1 fr2 s c2 (join_pct t path) (r (join_pct t path)) k); [|apply HInv, has_pct_join].
      apply Hrel; [exact (N_exp x paths path ty t Hin Hp L)|exact Wx].
    - cbn [forallb]. rewrite andb_true_r. unfold achk. cbn [fst snd]. destruct k; try reflexivity.
      assert (HNe : forall y, In y (names_e e) -> N y).
      { intros y Hy. left. apply in_flat_map. exists e. split; [|exact Hy]. now apply in_combine_r in Hq. }
      assert (W : wk_arg sc ar ((x, PArr dims), e) = true) by (rewrite forallb_forall in Hwk; now apply Hwk).
      unfold wk_arg in W. cbn [fst snd] in W.
      pose proof (kren_actual_seq r sc ar N fr1 fr2 s Hok Hrel e W HNe) as Hs.
      destruct (actual_seq fr1 s e) as [q1|]; destruct (actual_seq fr2 s (ren_e r e)) as [q2|];
        try contradiction; [|reflexivity].
      cbn [oaseq_agree] in Hs. rewrite (dummy_bnd_envN D c1 c2 q1 q2 dims HE Hs).
      2:{ intros y Hy. apply HDp. unfold params_dim_names. apply in_flat_map. exists (x, PArr dims).
          split; [|exact Hy]. now apply in_combine_l in Hq. }
      destruct (dummy_bnd c2 q2 dims); [|reflexivity]. destruct Hs as [_ [Hl _]]. now rewrite Hl.
  Qed.

  Lemma inv_c1 d c z : has_pct z = true -> bnd_lb1 (ar_bnd (callee_fa d fr1 s c pa1 arrs z)) = true.
  Proof.
    intros Hz. unfold callee_fa. rewrite (lookup1_pct z Hz). destruct (forward_root pa1 z) as [t'|] eqn:F.
    - cbn [clamp_aref ar_bnd]. apply HInv. unfold forward_root in F.
      destruct (split_pct z) as [[root rest]|]; [|discriminate F].
      destruct (lookup_pa root pa1) as [[k e]|]; [|discriminate F].
      destruct k; try discriminate F. destruct e; try discriminate F. injection F as <-. apply has_pct_join.
    - unfold local_aref. destruct (assoc_s arrs z) as [bs|] eqn:Ea; [|reflexivity].
      destruct (eval_bnds c bs) as [b|] eqn:Eb; [|reflexivity]. cbn [ar_bnd]. exact (HlocInv z bs c b Hz Ea Eb).
  Qed.

  Lemma bind_dt d p1 p2 :
    rp_params p1 = params -> rp_arrays p1 = arrs ->
    rp_params p2 = dt_new_params td exp params -> rp_arrays p2 = arrs ->
    match bind d fr1 s p1 args, bind d fr2 s p2 (map (ren_e r) targs) with
    | Some c1, Some c2 =>
        snd c1 = snd c2 /\
        frelK (rn m) (dt_sc td params m) (dt_ar td params m) NB (fst c1) (fst c2) /\
        (forall z, has_pct z = true -> bnd_lb1 (ar_bnd (fa (fst c1) z)) = true)
    | None, None => True
    | _, _ => False
    end.
  Proof.
    intros E1 E2 E3 E4. unfold bind. rewrite E1, E2, E3, E4, map_length.
    assert (HL : List.length targs = List.length (dt_new_params td exp params)).
    { unfold targs. apply pa2_length; [exact Hlen|exact wf_all]. }
    rewrite HL, Hlen, !Nat.eqb_refl. cbn [negb]. fold pa1. fold pa2.
    rewrite <- (init_eq d (clear_depth d s)).
    destruct (init_scalars d fr1 s pa1 (clear_depth d s)) as [s0|]; cbn [obind]; [|exact I].
    pose proof (cenv_N d s0) as HE.
    rewrite <- (arrays_eq _ _ HE), <- (locals_ok_envN D _ _ HE arrs HDa).
    destruct (arrays_ok fr1 s _ pa1 && locals_ok _ arrs); [|exact I].
    cbn [fst snd]. split; [reflexivity|]. split.
    - intros z Hz. cbn [fs fa]. destruct (in_dom m z) eqn:Ed.
      + destruct (key_decomp z Ed) as [x [paths [path [H1 [H2 [-> Hrn]]]]]].
        destruct (new_frames d (scal_env (callee_fs d fr1 s pa1) s0) (scal_env (callee_fs d fr2 s pa2) s0) x paths path H1 H2)
          as [ty [t [Hp [L [F1 [F2 [A1 A2]]]]]]].
        destruct (exp_entry x paths H1) as [ty' [t' [_ [Hp' [_ [P Hk]]]]]]. rewrite Hp in Hp'. injection Hp' as <-.
        unfold dt_sc, dt_ar, dt_kind. fold m. rewrite Ed. unfold root_of, rest_of. rewrite (split_join x path P), Hp.
        rewrite Hrn, F1, F2, A1, A2.
        pose proof (Hwkx x paths ty t path H1 H2 L) as Wx.
        pose proof (N_exp x paths path ty t H1 H2 L) as Nx.
        unfold nkind. destruct (Hk path H2) as [Ec|[k Ec]]; rewrite Ec in *.
        * split; [intros _|intros Hc; discriminate Hc]. now apply Hrel.
        * split; [intros Hc; discriminate Hc|intros _]. apply shape_view; [now apply Hrel|apply HInv, has_pct_join].
      + rewrite (rn_out m z Ed).
        assert (Hn : ~ In z (map snd m)).
        { intros Hc. apply in_map_iff in Hc. destruct Hc as [[k v] [Ev Hin]]. cbn [snd] in Ev. subst v.
          destruct (Hnew _ _ Hin) as [_ [_ A]]. now apply A. }
        assert (Hf : fwdfree z).
        { intros Hp. pose proof (Hcallee z Hz Hp) as Hc. destruct (assoc_s params (root_of z)) as [k|]; [|reflexivity].
          destruct k; try contradiction. rewrite Hc in Ed. discriminate Ed. }
        split; intros _; [now apply fs_old|now apply fa_old].
    - intros z Hz. cbn [fa]. now apply inv_c1.
  Qed.
End DT.


(* ================================================================================================ *)
(** * 6. the additional (boolean) hypotheses, reflection *)

(** a call site seen from a caller whose names are classified by [sc]/[ar]: every actual is used according to the
    kind of its dummy, and the components [a%path] passed for an expanded dummy have the kind the callee expects *)
Definition dt_site_kb (td : typedefs) (pl : dtplan) (t : table) (sc ar : string -> bool) (g : string) (args : list expr) : bool :=
  match find_unit t g with
  | None => true
  | Some u =>
      forallb (wk_arg sc ar) (combine (u_params u) args) &&
      forallb (fun e => match lookup_pa (fst e) (combine (u_params u) args) with
                        | Some (PRec ty, EVar a) =>
                            forallb (fun path => match comp_at 8 td ty path with
                                                 | Some (CArr _) => ar (join_pct a path)
                                                 | _ => sc (join_pct a path) end) (snd e)
                        | _ => true
                        end) (dtplan_of pl g)
  end.

(** one routine: an expanded dummy is not also a local array; the body uses the expanded component names according
    to their kind in the type definition (scalar components only as scalars, array components only as arrays), also
    at its call sites *)
Definition dt_unit_kb (td : typedefs) (pl : dtplan) (t : table) (u : unit) : bool :=
  let exp := dtplan_of pl (u_name u) in
  let m := dt_rmap exp in
  let sc := dt_sc td (u_params u) m in
  let ar := dt_ar td (u_params u) m in
  forallb (fun e => negb (mem_s (map fst (u_locals u)) (fst e))) exp
  && forallb (wk_s sc ar) (u_body u)
  && sitesb (dt_site_kb td pl t sc ar) (u_body u).

Definition dt_kinds_okb (td : typedefs) (pl : dtplan) (t : table) : bool := forallb (dt_unit_kb td pl t) t.

Definition site_kP (td : typedefs) (pl : dtplan) (t : table) (sc ar : string -> bool) (g : string) (args : list expr) : Prop :=
  forall u, find_unit t g = Some u ->
    forallb (wk_arg sc ar) (combine (u_params u) args) = true /\
    forall x paths ty a path, In (x, paths) (dtplan_of pl g) -> In path paths ->
      lookup_pa x (combine (u_params u) args) = Some (PRec ty, EVar a) ->
      match comp_at 8 td ty path with Some (CArr _) => ar (join_pct a path) = true | _ => sc (join_pct a path) = true end.

Lemma dt_site_kb_P td pl t sc ar g args : dt_site_kb td pl t sc ar g args = true -> site_kP td pl t sc ar g args.
Proof.
  unfold dt_site_kb, site_kP. intros H u E. rewrite E in H. apply andb_prop in H. destruct H as [H1 H2].
  split; [exact H1|]. intros x paths ty a path Hin Hp L. rewrite forallb_forall in H2. specialize (H2 _ Hin).
  cbn [fst snd] in H2. rewrite L in H2. rewrite forallb_forall in H2. specialize (H2 _ Hp).
  destruct (comp_at 8 td ty path) as [[| |]|]; exact H2.
Qed.

Lemma forallb_Forall_true {A} (f : A -> bool) l : Forall (fun a => f a = true) l -> forallb f l = true.
Proof. induction 1 as [|a l H _ IH]; [reflexivity|]. cbn [forallb]. now rewrite H, IH. Qed.

Definition ktrue (_ : string) : bool := true.

Lemma wk_e_true e : wk_e ktrue ktrue e = true.
Proof.
  induction e using expr_ind'; cbn [wk_e]; try reflexivity; try (now apply forallb_Forall_true);
    try (now rewrite IHe1, IHe2); try assumption.
Qed.

Lemma wk_el_true l : forallb (wk_e ktrue ktrue) l = true.
Proof. apply forallb_Forall_true. apply Forall_forall. intros e _. apply wk_e_true. Qed.

Lemma wk_s_true st : wk_s ktrue ktrue st = true.
Proof.
  induction st using stmt_ind'; cbn [wk_s]; rewrite ?wk_e_true, ?wk_el_true; try reflexivity.
  - rewrite (forallb_Forall_true _ _ H). destruct st; [now rewrite wk_e_true|reflexivity].
  - now rewrite (forallb_Forall_true _ _ H).
  - now rewrite (forallb_Forall_true _ _ H), (forallb_Forall_true _ _ H0).
Qed.

Lemma wk_arg_true q : wk_arg ktrue ktrue q = true.
Proof.
  unfold wk_arg. destruct (snd (fst q)); [apply wk_e_true| |reflexivity].
  destruct (snd q); try reflexivity. cbn [wk_aact]. unfold ktrue at 1. cbn [andb]. apply wk_el_true.
Qed.

Lemma site_kP_true td pl t g args : site_kP td pl t ktrue ktrue g args.
Proof.
  intros u E. split.
  - apply forallb_Forall_true. apply Forall_forall. intros q _. apply wk_arg_true.
  - intros x paths ty a path _ _ _. destruct (comp_at 8 td ty path) as [[| |]|]; reflexivity.
Qed.

Lemma sites_list_and (P Q : string -> list expr -> Prop) b :
  Forall (fun st => sites_s P st -> sites_s Q st -> sites_s (fun g a => P g a /\ Q g a) st) b ->
  sites P b -> sites Q b -> sites (fun g a => P g a /\ Q g a) b.
Proof.
  induction 1 as [|st b H _ IH]; cbn [sites]; intros HP HQ; [exact I|].
  destruct HP as [HP1 HP2]. destruct HQ as [HQ1 HQ2]. split; [now apply H|now apply IH].
Qed.

Lemma sites_s_and (P Q : string -> list expr -> Prop) : forall st,
  sites_s P st -> sites_s Q st -> sites_s (fun g a => P g a /\ Q g a) st.
Proof.
  induction st using stmt_ind'; intros HP HQ; try exact I.
  - rewrite sites_s_do in HP, HQ |- *. now apply sites_list_and.
  - rewrite sites_s_while in HP, HQ |- *. now apply sites_list_and.
  - rewrite sites_s_if in HP, HQ |- *. destruct HP, HQ. split; now apply sites_list_and.
  - split; assumption.
Qed.

Lemma sites_and (P Q : string -> list expr -> Prop) ss :
  sites P ss -> sites Q ss -> sites (fun g a => P g a /\ Q g a) ss.
Proof. apply sites_list_and. apply Forall_forall. intros st _. apply sites_s_and. Qed.

Lemma expand_nil (ps : list (string * pkind)) : forall args, List.length args = List.length ps ->
  expand_actuals {| dd_args := map fst ps; dd_exp := [] |} args = args.
Proof.
  intros args Hlen. rewrite expand_actuals_eq. cbn [dd_args dd_exp]. rewrite map_length, <- Hlen, skipn_all, app_nil_r.
  revert args Hlen. induction ps as [|[x k] ps IH]; intros [|e args] Hlen; cbn [List.length] in Hlen; try discriminate Hlen; [reflexivity|].
  cbn [map fst combine flat_map]. rewrite IH by lia. unfold xact. cbn [assoc_s fst snd]. reflexivity.
Qed.

Lemma assoc_s_map {A B} (f : A -> B) (l : list (string * A)) x :
  assoc_s (map (fun q => (fst q, f (snd q))) l) x = option_map f (assoc_s l x).
Proof.
  induction l as [|[k v] l IH]; [reflexivity|]. cbn [map assoc_s fst snd]. destruct (String.eqb k x); [reflexivity|exact IH].
Qed.

Lemma assoc_s_notin {A} (l : list (string * A)) x : ~ In x (map fst l) -> assoc_s l x = None.
Proof.
  induction l as [|[k v] l IH]; intros H; [reflexivity|]. cbn [assoc_s]. destruct (String.eqb k x) eqn:E.
  - apply String.eqb_eq in E. subst k. exfalso. apply H. now left.
  - apply IH. intros Hc. apply H. now right.
Qed.

Lemma lb1_bnds c : forall dims b, forallb dim_lb1 dims = true -> eval_bnds c (expl_bounds dims) = Some b -> bnd_lb1 b = true.
Proof.
  induction dims as [|dm dims IH]; intros b H E.
  - cbn in E. injection E as <-. reflexivity.
  - cbn [forallb] in H. apply andb_prop in H. destruct H as [H1 H2].
    destruct dm as [lo hi| |lo]; try discriminate H1. destruct lo; try discriminate H1. destruct hi; try discriminate H1.
    cbn [expl_bounds eval_bnds evalZ obind] in E.
    destruct (eval_bnds c (expl_bounds dims)) as [b'|] eqn:Eb; [|discriminate E]. cbn [obind] in E. injection E as <-.
    unfold bnd_lb1. cbn [forallb fst snd]. cbn [dim_lb1] in H1. rewrite H1. exact (IH b' H2 eq_refl).
Qed.

Record unit_facts (td : typedefs) (pl : dtplan) (t : table) (u : unit) : Prop := {
  uf_nd : nodup_s (map fst (u_params u)) = true;
  uf_np : forall x k, In (x, k) (u_params u) -> has_pct x = false;
  uf_exp_nd : nodup_s (map fst (dtplan_of pl (u_name u))) = true;
  uf_exp : forall x paths, In (x, paths) (dtplan_of pl (u_name u)) -> exists ty, assoc_s (u_params u) x = Some (PRec ty) /\
      forall path, In path paths -> comp_at 8 td ty path = Some CScal \/ exists k, comp_at 8 td ty path = Some (CArr k);
  uf_m_nd : nodup_s (map snd (dt_rmap (dtplan_of pl (u_name u)))) = true;
  uf_new : forall k v, In (k, v) (dt_rmap (dtplan_of pl (u_name u))) ->
      reserved v = false /\ ~ In v (all_names u (tcalls (dt_tc pl t) (u_body u)));
  uf_loc : forall z dims, has_pct z = true -> In (z, dims) (u_locals u) -> forallb dim_lb1 dims = true;
  uf_dim : forall z, In z (unit_dim_names u) -> has_pct z = false
}.

Lemma dt_unit_okb_spec td pl t u : dt_unit_okb td pl t u = true -> unit_facts td pl t u.
Proof.
  unfold dt_unit_okb. intros H.
  apply andb_prop in H. destruct H as [H H8]. apply andb_prop in H. destruct H as [H H7].
  apply andb_prop in H. destruct H as [H H6]. apply andb_prop in H. destruct H as [H H5].
  apply andb_prop in H. destruct H as [H H4]. apply andb_prop in H. destruct H as [H H3].
  apply andb_prop in H. destruct H as [H1 H2].
  rewrite forallb_forall in H2, H4, H6, H7, H8.
  constructor; try assumption.
  - intros x k Hin. specialize (H2 _ Hin). cbn [fst] in H2. apply andb_prop in H2. destruct H2 as [A _].
    now apply negb_true_iff in A.
  - intros x paths Hin. specialize (H4 _ Hin). cbn [fst snd] in H4.
    destruct (assoc_s (u_params u) x) as [[| |ty]|]; try discriminate H4.
    exists ty. split; [reflexivity|]. apply andb_prop in H4. destruct H4 as [_ H4]. rewrite forallb_forall in H4.
    intros path Hp. specialize (H4 _ Hp). destruct (comp_at 8 td ty path) as [[|k|]|]; try discriminate H4.
    + now left.
    + right. now exists k.
  - intros k v Hin. specialize (H6 _ Hin). cbn [snd] in H6. apply andb_prop in H6. destruct H6 as [H6 C].
    apply andb_prop in H6. destruct H6 as [A B]. apply negb_true_iff in A. apply negb_true_iff in C.
    split; [exact A|]. intros Hc. apply mem_s_In in Hc. rewrite Hc in C. discriminate C.
  - intros z dims Hz Hin. specialize (H7 _ Hin). cbn [fst snd] in H7. now rewrite Hz in H7.
  - intros z Hin. specialize (H8 _ Hin). now apply negb_true_iff in H8.
Qed.


(* ================================================================================================ *)
(** * 7. the theorem *)

Definition dt_new_unit (td : typedefs) (pl : dtplan) (t : table) (u : unit) : unit :=
  {| u_name := u_name u;
     u_params := dt_new_params td (dtplan_of pl (u_name u)) (u_params u);
     u_locals := u_locals u;
     u_body := ren (rn (dt_rmap (dtplan_of pl (u_name u)))) (tcalls (dt_tc pl t) (u_body u)) |}.

Lemma find_unit_apply_dtplan td pl t g :
  find_unit (apply_dtplan td pl t) g = option_map (dt_new_unit td pl t) (find_unit t g).
Proof.
  change (apply_dtplan td pl t) with (map (dt_new_unit td pl t) t). apply find_unit_map. reflexivity.
Qed.

(** the classification of the names of routine [g] *)
Definition scm_of (td : typedefs) (pl : dtplan) (t : table) (g : string) : string -> bool :=
  match find_unit t g with Some u => dt_sc td (u_params u) (dt_rmap (dtplan_of pl g)) | None => ktrue end.
Definition arm_of (td : typedefs) (pl : dtplan) (t : table) (g : string) : string -> bool :=
  match find_unit t g with Some u => dt_ar td (u_params u) (dt_rmap (dtplan_of pl g)) | None => ktrue end.

Theorem expand_dt_preserves td pl t : dtplan_okb td pl t = true -> dt_kinds_okb td pl t = true ->
  forall f d fr ss s, sitesb (dt_site_okb pl t) ss = true ->
  (forall z, has_pct z = true -> bnd_lb1 (ar_bnd (fa fr z)) = true) ->
  rexec (to_rprocs t) f d fr ss s = rexec (to_rprocs (apply_dtplan td pl t)) f d fr (tcalls (dt_tc pl t) ss) s.
Proof.
  intros Hpl Hkd f d fr ss s Hss HI.
  assert (Hunit : forall g u, find_unit t g = Some u ->
            u_name u = g /\ unit_facts td pl t u /\ sitesb (dt_site_okb pl t) (u_body u) = true /\
            dt_unit_kb td pl t u = true).
  { intros g u E. destruct (find_unit_In t g u E) as [Hin Hname].
    unfold dtplan_okb in Hpl. rewrite forallb_forall in Hpl. specialize (Hpl u Hin).
    apply andb_prop in Hpl. destruct Hpl as [A B].
    unfold dt_kinds_okb in Hkd. rewrite forallb_forall in Hkd. specialize (Hkd u Hin).
    split; [exact Hname|]. split; [now apply dt_unit_okb_spec|]. split; assumption. }
  rewrite <- (ren_id (tcalls (dt_tc pl t) ss)).
  apply (kcoupled_sim (to_rprocs t) (to_rprocs (apply_dtplan td pl t))
           (fun g => rn (dt_rmap (dtplan_of pl g))) (scm_of td pl t) (arm_of td pl t) (dt_tc pl t)
           (fun _ sc ar g args => dt_site_okb pl t g args = true /\ site_kP td pl t sc ar g args)
           (fun fr1 _ => forall z, has_pct z = true -> bnd_lb1 (ar_bnd (fa fr1 z)) = true))
    with (sc := ktrue) (ar := ktrue).
  - (* the two tables *)
    intros g. rewrite !find_rproc_to_rprocs, find_unit_apply_dtplan. unfold scm_of, arm_of.
    destruct (find_unit t g) as [u|] eqn:E; cbn [option_map]; [|exact I].
    destruct (Hunit g u E) as [Hname [UF [Hs Hk]]]. unfold dt_unit_kb in Hk. cbv zeta in Hk. rewrite Hname in Hk.
    apply andb_prop in Hk. destruct Hk as [Hk K3]. apply andb_prop in Hk. destruct Hk as [K1 K2].
    split; [|split; [|split]].
    + cbn [to_rproc dt_new_unit rp_body u_body]. now rewrite Hname.
    + apply ren_ok_rn. intros y x Hin. rewrite <- Hname in Hin. destruct (uf_new _ _ _ _ UF y x Hin) as [A _].
      split; [|exact A]. apply reserved_pct. apply in_dt_rmap in Hin.
      destruct Hin as [x0 [paths [path [_ [_ [-> _]]]]]]. apply has_pct_join.
    + cbn [to_rproc rp_body]. cbv beta.
      apply (sites_and (fun g0 a => dt_site_okb pl t g0 a = true)
                       (fun g0 a => site_kP td pl t (dt_sc td (u_params u) (dt_rmap (dtplan_of pl g)))
                                            (dt_ar td (u_params u) (dt_rmap (dtplan_of pl g))) g0 a)).
      * revert Hs. apply (sitesb_sites (dt_site_okb pl t) (fun g0 a => dt_site_okb pl t g0 a = true)). auto.
      * revert K3. apply sitesb_sites. intros g0 a. apply dt_site_kb_P.
    + exact K2.
  - (* bind *)
    intros g p1 p2 d0 fr1 fr2 r sc ar args s0 E1 E2 Hok [Hsite Hkp] Hrel HI0.
    rewrite find_rproc_to_rprocs in E1. rewrite find_rproc_to_rprocs, find_unit_apply_dtplan in E2.
    unfold scm_of, arm_of.
    destruct (find_unit t g) as [u|] eqn:E; cbn [option_map] in E1, E2; [|discriminate E1].
    injection E1 as <-. injection E2 as <-.
    destruct (Hunit g u E) as [Hname [UF [Hs Hk]]].
    unfold dt_site_okb in Hsite. rewrite E in Hsite.
    apply andb_prop in Hsite. destruct Hsite as [Hsite S3]. apply andb_prop in Hsite. destruct Hsite as [S1 S2].
    apply Nat.eqb_eq in S1. destruct (Hkp u E) as [W Wx].
    unfold dt_unit_kb in Hk. cbv zeta in Hk. rewrite Hname in Hk.
    apply andb_prop in Hk. destruct Hk as [Hk K3]. apply andb_prop in Hk. destruct Hk as [K1 K2].
    assert (Htc : dt_tc pl t g args =
                  expand_actuals {| dd_args := map fst (u_params u); dd_exp := dtplan_of pl g |} args).
    { unfold dt_tc, dtplan_of. rewrite E. destruct (assoc_s pl g); [reflexivity|]. symmetry. now apply expand_nil. }
    assert (Hrel' : frelK r sc ar (fun x => In x (flat_map names_e args) \/
              In x (flat_map names_e (expand_actuals {| dd_args := map fst (u_params u); dd_exp := dtplan_of pl g |} args))) fr1 fr2).
    { revert Hrel. apply frelK_weaken. intros x Hx. unfold nma. rewrite Htc. exact Hx. }
    rewrite Htc.
    destruct UF as [U1 U2 U3 U4 U5 U6 U7 U8]. rewrite Hname in U3, U4, U5, U6.
    set (exp := dtplan_of pl g) in *.
    set (NB := nm (dt_tc pl t) (u_body u)).
    set (D := fun z => In z (unit_dim_names u)).
    assert (A6 : forall k v, In (k, v) (dt_rmap exp) -> ~ In v (map fst (u_params u)) /\ ~ D v /\ ~ NB v).
    { intros k v Hin. destruct (U6 k v Hin) as [_ A]. unfold all_names in A. rewrite !in_app_iff in A.
      split; [tauto|]. split; [unfold D; tauto|]. unfold NB, nm. tauto. }
    assert (A8 : forall x, In x (params_dim_names (u_params u)) -> D x).
    { intros x Hx. unfold D, unit_dim_names. apply in_or_app. now left. }
    assert (A9 : forall x, In x (arrs_names (rp_arrays (to_rproc u))) -> D x).
    { intros x Hx. now apply arrs_names_unit. }
    assert (A10 : forall z, NB z -> has_pct z = true ->
               match assoc_s (u_params u) (root_of z) with
               | Some (PRec _) => in_dom (dt_rmap exp) z = true | None => True | _ => False end).
    { intros z Hz Hp. unfold dt_callee_okb in S2. rewrite Hname in S2. rewrite forallb_forall in S2.
      assert (Hin : In z (names (u_body u) ++ names (tcalls (dt_tc pl t) (u_body u)))).
      { apply in_or_app. exact Hz. }
      specialize (S2 z Hin). rewrite Hp in S2. fold exp in S2.
      destruct (assoc_s (u_params u) (root_of z)) as [[| |ty]|]; try discriminate S2; [exact S2|exact I]. }
    assert (A11 : forall x paths, In (x, paths) exp -> assoc_s (rp_arrays (to_rproc u)) x = None).
    { intros x paths Hin. rewrite forallb_forall in K1. specialize (K1 _ Hin). cbn [fst] in K1.
      apply negb_true_iff in K1. cbn [to_rproc rp_arrays]. rewrite (assoc_s_map expl_bounds).
      rewrite assoc_s_notin; [reflexivity|]. intros Hc. apply mem_s_In in Hc. rewrite Hc in K1. discriminate K1. }
    assert (A12 : forall z bs c b, has_pct z = true -> assoc_s (rp_arrays (to_rproc u)) z = Some bs ->
               eval_bnds c bs = Some b -> bnd_lb1 b = true).
    { intros z bs c b Hz Ea Eb. cbn [to_rproc rp_arrays] in Ea. rewrite (assoc_s_map expl_bounds) in Ea.
      destruct (assoc_s (u_locals u) z) as [dims|] eqn:El; [|discriminate Ea]. cbn [option_map] in Ea. injection Ea as <-.
      apply (lb1_bnds c dims b); [|exact Eb]. apply (U7 z dims Hz). now apply assoc_s_In. }
    assert (C3 : forall x paths, In (x, paths) exp -> exists k a, lookup_pa x (combine (u_params u) args) = Some (k, EVar a)).
    { intros x paths Hin. rewrite forallb_forall in S3. specialize (S3 _ Hin). cbn [fst] in S3.
      destruct (lookup_pa x (combine (u_params u) args)) as [[k e]|]; [|discriminate S3].
      destruct e; try discriminate S3. now exists k, x0. }
    assert (E3 : rp_params (to_rproc (dt_new_unit td pl t u)) = dt_new_params td exp (u_params u)).
    { cbn [to_rproc dt_new_unit rp_params u_params]. now rewrite Hname. }
    pose proof (bind_dt td exp (u_params u) (rp_arrays (to_rproc u)) NB D U1 U2 U3 U4 U5 A6 U8 A8 A9 A10 A11 A12
                        r sc ar fr1 fr2 s0 args Hok S1 C3 Hrel' HI0 W Wx d0 (to_rproc u) (to_rproc (dt_new_unit td pl t u))
                        eq_refl eq_refl E3 eq_refl) as HB.
    exact HB.
  - apply ren_ok_id.
  - apply (sites_and (fun g0 a => dt_site_okb pl t g0 a = true) (fun g0 a => site_kP td pl t ktrue ktrue g0 a)).
    + revert Hss. apply (sitesb_sites (dt_site_okb pl t) (fun g0 a => dt_site_okb pl t g0 a = true)). auto.
    + apply sites_true. intros g a. apply site_kP_true.
  - apply forallb_Forall_true. apply Forall_forall. intros st _. apply wk_s_true.
  - intros x _. split; intros _; [reflexivity|apply aref_agree_refl].
  - exact HI.
Qed.


(* ================================================================================================ *)
(** * 8. the statement without [dt_kinds_okb] is false; what each part of [dt_kinds_okb] excludes *)
Module Refute.
  Local Open Scope string_scope.
  Definition ss1 : list stmt := [SCall "g" [EVar "t"]].
  Lemma top_inv arrays : (forall a b, In (a, b) arrays -> bnd_lb1 b = true) ->
    forall z, has_pct z = true -> bnd_lb1 (ar_bnd (fa (top_frame arrays) z)) = true.
  Proof.
    intros H z _. cbn [top_frame fa]. destruct (assoc_s arrays z) as [b|] eqn:E; [|reflexivity].
    cbn [ar_bnd]. apply (H z b). now apply assoc_s_In.
  Qed.

  (** (b) a scalar component used as an array *)
  Definition td1 : typedefs := [("T", [("s", CScal)])].
  Definition pl1 : dtplan := [("g", [("x", ["s"])])].
  Definition t1 : table :=
    [{| u_name := "g"; u_params := [("x", PRec "T")]; u_locals := []; u_body := [SStore "x%s" [] (EInt 7)] |}].

  Theorem expand_dt_unrestricted_refuted :
    ~ (forall td pl t, dtplan_okb td pl t = true ->
       forall f d fr ss s, sitesb (dt_site_okb pl t) ss = true ->
       (forall z, has_pct z = true -> bnd_lb1 (ar_bnd (fa fr z)) = true) ->
       rexec (to_rprocs t) f d fr ss s = rexec (to_rprocs (apply_dtplan td pl t)) f d fr (tcalls (dt_tc pl t) ss) s).
  Proof.
    intros H. specialize (H td1 pl1 t1 eq_refl 5%nat O (top_frame []) ss1 rempty eq_refl).
    specialize (H (top_inv [] (fun a b (F : In (a, b) []) => match F with end))).
    apply (f_equal (option_map (fun s => rav s (O, "t%s") []))) in H. vm_compute in H. discriminate H.
  Qed.
  Example kinds_rejects_1 : dt_kinds_okb td1 pl1 t1 = false.
  Proof. reflexivity. Qed.

  (** (a) an expanded dummy that is also a local array: the original run fails, the rewritten one does not *)
  Definition t2 : table :=
    [{| u_name := "g"; u_params := [("x", PRec "T")]; u_locals := [("x", [DExpl (EInt 1) (EInt 3)])];
        u_body := [SStore "x" [EInt 1] (EInt 5)] |}].
  Example local_clash :
    dtplan_okb td1 pl1 t2 = true /\ sitesb (dt_site_okb pl1 t2) ss1 = true /\ dt_kinds_okb td1 pl1 t2 = false /\
    rexec (to_rprocs t2) 5 O (top_frame []) ss1 rempty = None /\
    rexec (to_rprocs (apply_dtplan td1 pl1 t2)) 5 O (top_frame []) (tcalls (dt_tc pl1 t2) ss1) rempty <> None.
  Proof.
    split; [reflexivity|]. split; [reflexivity|]. split; [reflexivity|]. split; [reflexivity|].
    intros E. vm_compute in E. discriminate E.
  Qed.

  (** (c) the caller's type has an array component [c], the callee's type a scalar component [c] *)
  Definition td3 : typedefs := [("T1", [("c", CArr 1)]); ("T2", [("c", CScal)])].
  Definition pl3 : dtplan := [("g", [("x", ["c"])]); ("h", [("y", ["c"])])].
  Definition t3 : table :=
    [{| u_name := "g"; u_params := [("x", PRec "T1")]; u_locals := []; u_body := [SCall "h" [EVar "x"]] |};
     {| u_name := "h"; u_params := [("y", PRec "T2")]; u_locals := []; u_body := [SAssign "y%c" (EInt 3)] |}].
  Example type_clash :
    dtplan_okb td3 pl3 t3 = true /\ sitesb (dt_site_okb pl3 t3) ss1 = true /\ dt_kinds_okb td3 pl3 t3 = false /\
    option_map (fun s => rsv s (O, "t%c")) (rexec (to_rprocs t3) 5 O (top_frame []) ss1 rempty) = Some 3 /\
    option_map (fun s => rsv s (O, "t%c"))
      (rexec (to_rprocs (apply_dtplan td3 pl3 t3)) 5 O (top_frame []) (tcalls (dt_tc pl3 t3) ss1) rempty) = Some 0.
  Proof. repeat split; reflexivity. Qed.

  (** the hypotheses are satisfiable on a tree with scalar, array and nested components, a nested call and a
      local derived-type variable *)
  Definition td4 : typedefs :=
    [("T", [("n", CScal); ("a", CArr 1); ("in", CRec "U")]); ("U", [("s", CScal); ("b", CArr 2)])].
  Definition t4 : table :=
    [{| u_name := "g"; u_params := [("x", PRec "T"); ("k", PScal)]; u_locals := [("w%a", [DExpl (EInt 1) (EInt 4)])];
        u_body := [SAssign "x%n" (ESum false [EVar "k"; ECall "x%a" [EInt 2]]);
                   SStore "x%in%b" [EInt 1; EVar "k"] (EVar "x%in%s");
                   SStore "w%a" [EInt 3] (EVar "x%n");
                   SCall "h" [EVar "x"; ECall "w%a" [EInt 3]]] |};
     {| u_name := "h"; u_params := [("y", PRec "T"); ("v", PScal)]; u_locals := [];
        u_body := [SStore "y%a" [EInt 1] (ESum false [EVar "v"; EVar "y%in%s"]); SAssign "v" (ECall "y%a" [EInt 2])] |}].
  Definition pl4 : dtplan := [("g", [("x", ["a"; "in%b"; "in%s"; "n"])]); ("h", [("y", ["a"; "in%s"])])].
  Example class_inhabited :
    dtplan_okb td4 pl4 t4 = true /\ dt_kinds_okb td4 pl4 t4 = true /\
    sitesb (dt_site_okb pl4 t4) [SCall "g" [EVar "t"; EInt 2]] = true.
  Proof. repeat split; reflexivity. Qed.
End Refute.

Print Assumptions expand_dt_preserves.
Print Assumptions kcoupled_sim.
Print Assumptions Refute.expand_dt_unrestricted_refuted.
