(** C25 — the item cache: after every processing step every key is the name of the item stored under it and the
    keys are pairwise distinct (rekey_item_cache / _discover / DuplicateKernel's item creation in model M_C25). *)
From Coq Require Import List Bool String Ascii Arith.
From LV Require Import models.M_C25.
Import ListNotations.
Open Scope string_scope.
Open Scope list_scope.

Definition keyname (e : entry) : bool := String.eqb (e_key e) (e_name e).
Definition kok (c : list entry) : Prop := forallb keyname c = true /\ nodup_s (map e_key c) = true.

Lemma kok_nil : kok [].
Proof. split; reflexivity. Qed.

Lemma has_key_mem k c : has_key k c = mem_s k (map e_key c).
Proof. induction c as [|e r IH]; cbn; [reflexivity|]. now rewrite <- IH. Qed.

Lemma mem_s_app x l y : mem_s x (l ++ [y]) = mem_s x l || String.eqb y x.
Proof. induction l as [|z r IH]; cbn; [now rewrite orb_false_r|]. now rewrite IH, orb_assoc. Qed.

Lemma nodup_s_app_one l x : nodup_s l = true -> mem_s x l = false -> nodup_s (l ++ [x]) = true.
Proof.
  induction l as [|y r IH]; cbn; [reflexivity|]. intros H M.
  apply andb_true_iff in H as [H1 H2]. apply orb_false_iff in M as [M1 M2].
  rewrite mem_s_app. apply negb_true_iff in H1. rewrite H1. cbn.
  rewrite String.eqb_sym, M1. cbn. now apply IH.
Qed.

Lemma kok_app_fresh c e : kok c -> has_key (e_key e) c = false -> keyname e = true -> kok (c ++ [e]).
Proof.
  intros [K N] F E. split.
  - rewrite forallb_app, K. cbn. now rewrite E.
  - rewrite map_app. cbn. apply nodup_s_app_one; [exact N|]. now rewrite <- has_key_mem.
Qed.

(** * _discover *)
Lemma add_defs_of_kok srcs fe c : kok c -> kok (add_defs_of srcs c fe).
Proof.
  unfold add_defs_of. generalize (src_units srcs (e_src fe)) as us. intros us. revert c.
  induction us as [|u r IH]; intros c K; cbn [fold_left]; [exact K|]. apply IH.
  destruct u as [m rs|rt].
  - destruct (has_key m c) eqn:E; [exact K|]. apply kok_app_fresh; auto.
    unfold keyname. cbn. apply String.eqb_refl.
  - destruct (has_key ("#" ++ r_name rt) c) eqn:E; [exact K|]. apply kok_app_fresh; auto.
    unfold keyname. cbn. apply String.eqb_refl.
Qed.

Lemma fold_add_defs_kok srcs files : forall c, kok c -> kok (fold_left (add_defs_of srcs) files c).
Proof. induction files as [|f r IH]; intros c K; cbn; [exact K|]. apply IH. now apply add_defs_of_kok. Qed.

Lemma discover_kok disk st : kok (st_cache st) -> kok (st_cache (discover disk st)).
Proof.
  intros K. unfold discover.
  set (F := fun '(srcs, cache) d =>
       if has_key (s_path d) cache then (srcs, cache)
       else ((srcs ++ [d]), (cache ++ [mk_entry (s_path d) KFile "" (s_path d) (List.length srcs)]))).
  assert (H : forall l (a : list source * list entry), kok (snd a) -> kok (snd (fold_left F l a))).
  { induction l as [|d r IH]; intros [s c] Kc; cbn [fold_left]; [exact Kc|]. apply IH. cbn [F].
    destruct (has_key (s_path d) c) eqn:E; [exact Kc|]. cbn [snd].
    apply kok_app_fresh; auto. unfold keyname. cbn. apply String.eqb_refl. }
  specialize (H disk (st_srcs st, st_cache st) K).
  destruct (fold_left F disk (st_srcs st, st_cache st)) as [srcs cache] eqn:E.
  cbn [st_cache snd] in *. now apply fold_add_defs_kok.
Qed.

(** * rekey_item_cache: whatever the transformation did to the item names, afterwards keys are names *)
Lemma e_name_mk k kd sc lo i e :
  kd = e_kind e -> sc = e_scope e -> lo = e_local e -> e_name (mk_entry k kd sc lo i) = e_name e.
Proof. intros -> -> ->. reflexivity. Qed.

Lemma rekey_fold_kok l : forall acc, kok acc ->
  kok (fold_left (fun acc e =>
              let e' := mk_entry (e_name e) (e_kind e) (e_scope e) (e_local e) (e_src e) in
              if has_key (e_name e) acc
              then map (fun x => if String.eqb (e_key x) (e_name e) then e' else x) acc
              else acc ++ [e']) l acc).
Proof.
  induction l as [|e r IH]; intros acc K; cbn [fold_left]; [exact K|]. apply IH.
  set (e' := mk_entry (e_name e) (e_kind e) (e_scope e) (e_local e) (e_src e)).
  assert (Ee : keyname e' = true).
  { unfold e', keyname, e_name. cbn [e_key e_kind e_scope e_local]. apply String.eqb_refl. }
  destruct (has_key (e_name e) acc) eqn:H.
  - destruct K as [K N]. split.
    + rewrite forallb_forall in *. intros x Hx. apply in_map_iff in Hx as (y & <- & Hy).
      destruct (String.eqb (e_key y) (e_name e)); [exact Ee|now apply K].
    + assert (M : map e_key (map (fun x => if String.eqb (e_key x) (e_name e) then e' else x) acc) = map e_key acc).
      { rewrite map_map. apply map_ext_in. intros y _. destruct (String.eqb (e_key y) (e_name e)) eqn:Ey; [|reflexivity].
        apply String.eqb_eq in Ey. now rewrite Ey. }
      now rewrite M.
  - apply kok_app_fresh; auto.
Qed.

Theorem rekey_kok st : kok (st_cache (rekey st)).
Proof. unfold rekey. cbn [st_cache]. apply rekey_fold_kok, kok_nil. Qed.

(** * DuplicateKernel's item creation *)
Lemma clone_item_kok sfx msfx st scope name st' :
  clone_item sfx msfx st scope name = Some st' -> kok (st_cache st) -> kok (st_cache st').
Proof.
  unfold clone_item. intros H K.
  destruct (proc_ir st (new_scope msfx scope) (name ++ sfx)); [inversion H; now subst|].
  destruct (negb (String.eqb scope "") && _) eqn:B.
  - destruct (find_entry (new_scope msfx scope) KMod (st_cache st)); [|discriminate].
    destruct (cache_mod st (new_scope msfx scope)); [|discriminate].
    destruct (find_routine name l); [|discriminate]. inversion H; subst. exact K.
  - destruct (src_of_proc st scope name); [|discriminate].
    destruct (nth_error (st_srcs st) n) as [s|]; [|discriminate].
    match type of H with (if ?c then _ else _) = _ => destruct c eqn:F end; [discriminate|].
    inversion H; subst. cbn [st_cache]. apply add_defs_of_kok.
    apply orb_false_iff in F as [F1 _].
    apply kok_app_fresh; auto. unfold keyname. cbn. apply String.eqb_refl.
Qed.

Lemma clone_tree_kok fuel : forall sub sfx msfx st scope name st',
  clone_tree fuel sub sfx msfx st scope name = Some st' -> kok (st_cache st) -> kok (st_cache st').
Proof.
  induction fuel as [|f IH]; intros sub sfx msfx st scope name st' H K; cbn [clone_tree] in H; [discriminate|].
  destruct (clone_item sfx msfx st scope name) as [st1|] eqn:E1; [|discriminate].
  pose proof (clone_item_kok _ _ _ _ _ _ E1 K) as K1.
  destruct sub; [|inversion H; now subst].
  set (ch := proc_succs st (NProc scope name)) in *.
  assert (Hf : forall l a b, fold_left (fun acc c => match acc with
                                          | Some s => clone_tree f true sfx msfx s (fst c) (snd c)
                                          | None => None end) l (Some a) = Some b -> kok (st_cache a) -> kok (st_cache b)).
  { induction l as [|c r IHl]; intros a b Hab Ka; cbn [fold_left] in Hab; [inversion Hab; now subst|].
    destruct (clone_tree f true sfx msfx a (fst c) (snd c)) as [a'|] eqn:Ec.
    - eapply IHl; [exact Hab|]. eapply IH; eauto.
    - exfalso. clear -Hab. induction r as [|x r IHr]; cbn in Hab; [discriminate|auto]. }
  destruct (fold_left _ ch (Some st1)) as [st2|] eqn:E2; [|discriminate].
  pose proof (Hf _ _ _ E2 K1) as K2.
  match type of H with match ?x with Some _ => _ | None => _ end = _ => destruct x end; [|discriminate].
  inversion H; subst. exact K2.
Qed.

Lemma apply_dup_kok k sfx msfx sub st st' :
  apply_dup k sfx msfx sub st = Some st' -> kok (st_cache st) -> kok (st_cache st').
Proof.
  unfold apply_dup. intros H K.
  destruct (filter _ (proc_nodes st)) as [|[scope x] r]; [inversion H; now subst|].
  destruct (existsb _ (st_edges st)); [|inversion H; now subst].
  destruct (clone_tree _ sub sfx msfx st scope k) as [st1|] eqn:E; [|discriminate].
  inversion H; subst. cbn [st_cache]. eapply clone_tree_kok; eauto.
Qed.

(** * one step *)
Lemma rebuild_cache seed st st' : rebuild seed st = Some st' -> st_cache st' = st_cache st.
Proof.
  unfold rebuild. destruct (close _ st seed seed []) as [[ns es] [|]]; [|discriminate].
  intros H; inversion H; reflexivity.
Qed.

Theorem step_kok disk seed st o st' :
  step disk seed st o = Some st' -> kok (st_cache st) -> kok (st_cache st').
Proof.
  unfold step. intros H K. destruct (transform o st) as [st1|] eqn:T; [|discriminate].
  rewrite (rebuild_cache _ _ _ H). apply discover_kok.
  destruct o as [sfx msfx|msfx|k sfx msfx sub|k]; cbn [transform] in T.
  - destruct (dep_class sfx msfx st); [|discriminate]. inversion T; subst. apply rekey_kok.
  - destruct (wrap_class msfx st); [|discriminate]. inversion T; subst. apply rekey_kok.
  - destruct (all_internal st && negb (is_driver k)); [|discriminate]. eapply apply_dup_kok; eauto.
  - destruct (all_internal st && negb (is_driver k)); [|discriminate]. inversion T; subst. exact K.
Qed.

(** the renaming steps establish it whatever the state before *)
Theorem rename_step_kok disk seed st o st' :
  (exists a b, o = ODep a b) \/ (exists a, o = OWrap a) ->
  step disk seed st o = Some st' -> kok (st_cache st').
Proof.
  unfold step. intros Ho H. destruct (transform o st) as [st1|] eqn:T; [|discriminate].
  rewrite (rebuild_cache _ _ _ H). apply discover_kok.
  destruct Ho as [(a & b & ->)|(a & ->)]; cbn [transform] in T.
  - destruct (dep_class a b st); [|discriminate]. inversion T; subst. apply rekey_kok.
  - destruct (wrap_class a st); [|discriminate]. inversion T; subst. apply rekey_kok.
Qed.

Theorem init_kok disk seed st : init disk seed = Some st -> kok (st_cache st).
Proof.
  unfold init. intros H. rewrite (rebuild_cache _ _ _ H). apply discover_kok. apply kok_nil.
Qed.

Lemma kok_bools st : kok (st_cache st) <-> keys_are_names st = true /\ keys_distinct st = true.
Proof. reflexivity. Qed.

Theorem rekey_bools st : keys_are_names (rekey st) = true /\ keys_distinct (rekey st) = true.
Proof. apply kok_bools, rekey_kok. Qed.
