(** C33 — extraction: an instance of the class, and the two defects of the unchanged code on the
    model's own output. *)
From Coq Require Import ZArith List Bool String.
From LV Require Import Base.Expr Base.MiniF Base.MiniFFacts models.M_C26 models.M_C33.
Import ListNotations.
Open Scope Z_scope.
Local Open Scope string_scope.

Definition x_host : hostd :=
  {| h_name := "outer"; h_shapes := [("a", [4]); ("b", [4])]; h_pars := []; h_imps := [];
     h_vars := ["x"; "y"; "z"; "w"; "t1"; "t2"; "i"; "a"; "b"] |}.

(** a member with its own dummy and local that reads and writes host scalars and a host array *)
Definition x_good : member :=
  {| m_name := "inner0"; m_params := [("q0", false)]; m_locals := ["m0"];
     m_body := [SAssign "m0" (ESum false [EVar "q0"; EVar "y"]);
                SStore "a" [EInt 2] (ESum false [ECall "a" [EInt 2]; EVar "m0"]);
                SAssign "z" (EVar "m0")] |}.

Example extract_good_instance :
  host_vars_passed [] x_host x_good [EVar "x"] = true /\
  m_params (extract_member x_host x_good) = [("q0", false); ("a", true); ("y", false); ("z", false)].
Proof. split; vm_compute; reflexivity. Qed.

(** F6: [a(1) = a(2) + q0]: two symbols for the host array, two dummies of the same name *)
Definition x_dup : member :=
  {| m_name := "inner0"; m_params := [("q0", false)]; m_locals := [];
     m_body := [SStore "a" [EInt 1] (ESum false [ECall "a" [EInt 2]; EVar "q0"])] |}.

Theorem extract_dup_array_refuted :
  m_params (extract_member x_host x_dup) = [("q0", false); ("a", true); ("a", true)] /\
  host_vars_passed [] x_host x_dup [EVar "x"] = false.
Proof. split; vm_compute; reflexivity. Qed.

(** F7: [inner1] calls its sibling [inner0]; only the calls in the host body are rewritten, so after
    the extraction [inner1] calls [inner0] without the new arguments: every execution fails *)
Definition x_m0 : member := {| m_name := "inner0"; m_params := []; m_locals := []; m_body := [SAssign "z" (ESum false [EVar "z"; EVar "x"])] |}.
Definition x_m1 : member := {| m_name := "inner1"; m_params := []; m_locals := []; m_body := [SCall "inner0" []; SAssign "y" (EVar "z")] |}.

Definition procs_of (ms : list member) : procs := map (fun m => (m_name m, {| p_params := m_params m; p_body := m_body m |})) ms.

Theorem extract_nested_call_refuted :
  let r := extract_internal x_host [x_m0; x_m1] [SCall "inner1" []] in
  fst r = [SCall "inner1" [EVar "y"; EVar "z"]] /\
  map m_params (snd r) = [[("x", false); ("z", false)]; [("y", false); ("z", false)]] /\
  forall f s, exec (procs_of (snd r)) f (fst r) s = None.
Proof.
  split; [vm_compute; reflexivity|]. split; [vm_compute; reflexivity|].
  intros f s. destruct f as [|f]; [reflexivity|]. destruct f as [|f]; [reflexivity|].
  destruct f as [|f]; reflexivity.
Qed.
