(** C38 — hoisting on MiniF: a kernel whose local array [t] is written before it is read behaves the same when
    [t] becomes an extra array dummy that the caller supplies (whatever the supplied array contains).

    PARTIAL: "written before read" is the semantic predicate [init_insensitive] (the body's effect outside [t] does
    not depend on the initial contents of [t]); a syntactic criterion for it is not proved.  One call statement is
    treated; the remaining procedures are assumed to behave identically in both procedure tables. *)
From Coq Require Import ZArith List Bool String Lia.
From LV Require Import Base.Expr Base.MiniF Base.MiniFFacts.
Import ListNotations.
Open Scope string_scope.
Open Scope list_scope.
Open Scope Z_scope.

Definition agree_except_arr (t : string) (s1 s2 : store) : Prop :=
  (forall x, sv s1 x = sv s2 x) /\ (forall a i, a <> t -> av s1 a i = av s2 a i).

Definition store_eq (s1 s2 : store) : Prop := (forall x, sv s1 x = sv s2 x) /\ (forall a i, av s1 a i = av s2 a i).

Definition orel (R : store -> store -> Prop) (a b : option store) : Prop :=
  match a, b with Some x, Some y => R x y | None, None => True | _, _ => False end.

(** the effect of the body outside [t] does not depend on what [t] contains at entry *)
Definition init_insensitive (ps : procs) (t : string) (B : list stmt) : Prop :=
  forall f s0 s0', agree_except_arr t s0 s0' -> orel (agree_except_arr t) (exec ps f B s0) (exec ps f B s0').

Lemma copy_in_app caller P args c0 t t' :
  List.length P = List.length args ->
  copy_in caller (P ++ [(t, true)]) (args ++ [EVar t']) c0 =
  obind (copy_in caller P args c0) (fun c => Some (set_arr t (av caller t') c)).
Proof.
  revert args c0. induction P as [|[d b] P' IH]; intros args c0 HL.
  - destruct args; [|discriminate]. reflexivity.
  - destruct args as [|a args']; [discriminate|]. cbn in HL.
    destruct b.
    + destruct a; cbn [app copy_in]; try reflexivity. apply IH. lia.
    + cbn [app copy_in]. destruct (evalZ (env_st caller) a); [|reflexivity]. apply IH. lia.
Qed.

Lemma copy_out_app callee P args caller t t' :
  List.length P = List.length args ->
  copy_out callee (P ++ [(t, true)]) (args ++ [EVar t']) caller =
  set_arr t' (av callee t) (copy_out callee P args caller).
Proof.
  revert args caller. induction P as [|[d b] P' IH]; intros args caller HL.
  - destruct args; [|discriminate]. reflexivity.
  - destruct args as [|a args']; [discriminate|]. cbn in HL.
    destruct b; destruct a; cbn [app copy_out]; apply IH; lia.
Qed.

Lemma copy_out_ext P : forall args r r' s s',
  (forall x, sv r x = sv r' x) ->
  (forall d i, In d (map fst P) -> av r d i = av r' d i) ->
  store_eq s s' ->
  store_eq (copy_out r P args s) (copy_out r' P args s').
Proof.
  induction P as [|[d b] P' IH]; intros args r r' s s' Hs Ha E.
  - cbn. destruct args; exact E.
  - destruct args as [|a args']; [destruct b; exact E|].
    assert (Ha' : forall d0 i, In d0 (map fst P') -> av r d0 i = av r' d0 i) by (intros; apply Ha; cbn; auto).
    destruct b; destruct a; cbn [copy_out]; try (apply IH; assumption).
    + apply IH; try assumption. destruct E as [E1 E2]. split; cbn; [exact E1|].
      intros a0 i. destruct (String.eqb a0 x); [apply Ha; cbn; auto|apply E2].
    + apply IH; try assumption. destruct E as [E1 E2]. split; cbn; [|exact E2].
      intros y. destruct (String.eqb y x); [apply Hs|apply E1].
Qed.

Lemma agree_set_arr t f c : agree_except_arr t c (set_arr t f c).
Proof.
  split; [reflexivity|]. intros a i Ha. cbn.
  destruct (String.eqb a t) eqn:E; [apply String.eqb_eq in E; contradiction|reflexivity].
Qed.

(** one CALL statement: original kernel with the local [t] versus the kernel with [t] as last dummy and the
    caller's array [t'] as last actual.  Same fuel on both sides. *)
Theorem hoist_call_preserves ps ps' k P B t t' args f s :
  find_proc ps k = Some {| p_params := P; p_body := B |} ->
  find_proc ps' k = Some {| p_params := P ++ [(t, true)]; p_body := B |} ->
  (forall f0 s0, exec ps' f0 B s0 = exec ps f0 B s0) ->
  init_insensitive ps t B ->
  ~ In t (map fst P) ->
  List.length P = List.length args ->
  orel (fun a b => exists a', store_eq a a' /\ agree_except_arr t' a' b)
       (exec1 ps f (SCall k args) s) (exec1 ps' f (SCall k (args ++ [EVar t'])) s).
Proof.
  intros F1 F2 Same Ins Nt HL. cbn [exec1]. rewrite F1, F2. cbn [obind p_params p_body].
  rewrite (copy_in_app s P args empty_store t t' HL).
  destruct (copy_in s P args empty_store) as [c|]; cbn [obind]; [|exact I].
  rewrite Same.
  pose proof (Ins f c (set_arr t (av s t') c) (agree_set_arr t _ c)) as R.
  unfold orel in R.
  destruct (exec ps f B c) as [r|]; destruct (exec ps f B (set_arr t (av s t') c)) as [r'|]; cbn [obind]; try exact R; try exact I.
  rewrite (copy_out_app r' P args s t t' HL). cbn.
  exists (copy_out r' P args s). split.
  - destruct R as [R1 R2]. apply copy_out_ext.
    + exact R1.
    + intros d i Hd. apply R2. intro E. subst d. exact (Nt Hd).
    + split; reflexivity.
  - apply agree_set_arr.
Qed.

(** a non-trivial instance of the semantic hypothesis: t(1) = x(1); y(1) = t(1) + 1 *)
Definition wbr_body : list stmt :=
  [SStore "t" [EInt 1] (ECall "x" [EInt 1]);
   SStore "y" [EInt 1] (ESum false [ECall "t" [EInt 1]; EInt 1])].

Example wbr_body_init_insensitive ps : init_insensitive ps "t" wbr_body.
Proof.
  intros f s0 s0' [A1 A2].
  destruct f as [|[|[|f]]]; try exact I.
  unfold wbr_body. cbn.
  assert (X : av s0 "x" [1] = av s0' "x" [1]) by (apply A2; discriminate).
  rewrite X. split.
  - cbn. exact A1.
  - intros a i Ha. cbn.
    destruct (String.eqb a "y" && list_z_eqb i [1]); [reflexivity|].
    destruct (String.eqb a "t") eqn:E; [apply String.eqb_eq in E; contradiction|].
    cbn. apply A2. exact Ha.
Qed.

(** ... while a body that reads before it writes is not *)
Example read_first_not_insensitive ps : ~ init_insensitive ps "t" [SStore "y" [EInt 1] (ECall "t" [EInt 1])].
Proof.
  intro H.
  specialize (H 2%nat empty_store (set_av "t" [1] 5 empty_store)).
  assert (A : agree_except_arr "t" empty_store (set_av "t" [1] 5 empty_store)).
  { split; [reflexivity|]. intros a i Ha. cbn.
    destruct (String.eqb a "t") eqn:E; [apply String.eqb_eq in E; contradiction|reflexivity]. }
  specialize (H A). cbn in H. destruct H as [_ H]. specialize (H "y" [1] ltac:(discriminate)). cbn in H. discriminate.
Qed.
