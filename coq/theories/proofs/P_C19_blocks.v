(** C19, part (ii): the block matcher on classified lines — lemmas and proofs. *)
From Coq Require Import NArith List Bool String Arith Lia.
From LV Require Import models.M_C19.
Import ListNotations.

(* ---------------------------------------------------------------------------------------------- *)
(** * induction principle for the nested tree type *)
Section NodeInd.
  Variable P : node -> Prop.
  Hypothesis HUnit : forall k name spec ms,
    Forall P spec -> match ms with Some l => Forall P l | None => True end -> P (NUnit k name spec ms).
  Hypothesis HType : forall name comps bs,
    Forall P comps -> match bs with Some l => Forall P l | None => True end -> P (NType name comps bs).
  Hypothesis HIface : forall ia isp body, Forall P body -> P (NIface ia isp body).
  Hypothesis HUse : forall um uo us, P (NUse um uo us).
  Hypothesis HCall : forall callee, P (NCall callee).
  Hypothesis HProc : forall pm pes, P (NProc pm pes).
  Hypothesis HGeneric : forall gname gnames, P (NGeneric gname gnames).
  Hypothesis HOther : P NOther.

  Fixpoint node_ind' (n : node) : P n :=
    let fix go (l : list node) : Forall P l :=
      match l with
      | [] => Forall_nil P
      | x :: r => Forall_cons x (node_ind' x) (go r)
      end in
    match n with
    | NUnit k name spec ms =>
        HUnit k name spec ms (go spec) (match ms with Some l => go l | None => I end)
    | NType name comps bs =>
        HType name comps bs (go comps) (match bs with Some l => go l | None => I end)
    | NIface a s body => HIface a s body (go body)
    | NUse m o s => HUse m o s
    | NCall c => HCall c
    | NProc m es => HProc m es
    | NGeneric g ns => HGeneric g ns
    | NOther => HOther
    end.
End NodeInd.

(* ---------------------------------------------------------------------------------------------- *)
(** * the matcher recovers every supported tree from its text *)

(** "the rest of the text is matched to [ns], leaving [r], whatever fuel (at least its length) is given" *)
Definition rest_ok (c : ctx) (rest : list line) (ns : list node) (r : list line) : Prop :=
  forall f, List.length rest <= f -> items f c rest = Some (ns, r).

Definition P_node (n : node) : Prop :=
  forall c rest ns r, wfb c n = true -> rest_ok c rest ns r ->
    rest_ok c (flatten n ++ rest) (n :: ns) r.
Definition P_list (l : list node) : Prop :=
  forall c rest ns r, forallb (wfb c) l = true -> rest_ok c rest ns r ->
    rest_ok c (flats l ++ rest) (l ++ ns) r.

Lemma P_list_of_Forall : forall l, Forall P_node l -> P_list l.
Proof.
  induction 1 as [|x l Hx _ IH]; intros c rest ns r Hwf Hr.
  - exact Hr.
  - cbn [forallb] in Hwf. apply andb_prop in Hwf as [Hwx Hwl].
    unfold flats. cbn [flat_map]. rewrite <- app_assoc. cbn [app].
    apply Hx; [assumption|]. apply IH; assumption.
Qed.

(** a text that starts with a line terminating the context is left untouched, for any fuel *)
Lemma rest_ok_terminator : forall c l rest, terminates c l = true -> rest_ok c (l :: rest) [] (l :: rest).
Proof. intros c l rest H f _. destruct f; cbn [items]; now rewrite H. Qed.

Lemma rest_ok_nil : forall c, rest_ok c [] [] [].
Proof. intros c f _. destruct f; reflexivity. Qed.

Lemma ukind_eqb_refl : forall k, ukind_eqb k k = true.
Proof. destruct k; reflexivity. Qed.

Lemma term_spec_contains : forall k, terminates (spec_ctx k) LContains = true.
Proof. destruct k; reflexivity. Qed.
Lemma term_spec_end : forall k k', terminates (spec_ctx k) (LEnd k') = true.
Proof. destruct k; reflexivity. Qed.

Lemma ctx_eqb_eq : forall a b, ctx_eqb a b = true -> a = b.
Proof. destruct a, b; cbn; congruence. Qed.

Lemma len_app_cons : forall (A : Type) (a : list A) x b, List.length (a ++ x :: b) = S (List.length a + List.length b).
Proof. intros. rewrite app_length. cbn. lia. Qed.

Lemma P_node_all : forall n, P_node n.
Proof.
  induction n using node_ind'; unfold P_node; intros c rest ns r Hwf Hr f Hf.
  - (* NUnit *)
    cbn [wfb] in Hwf. apply andb_prop in Hwf as [Hwf Hms]. apply andb_prop in Hwf as [Hopen Hspec].
    apply P_list_of_Forall in H; unfold P_list, flats in H.
    cbn [flatten app] in *. cbn [List.length] in Hf.
    destruct f as [|f]; [lia|]. apply le_S_n in Hf.
    cbn [items terminates]. replace (terminates c (LBegin k name)) with false by (destruct c; reflexivity).
    rewrite Hopen.
    destruct ms as [ms|].
    + apply P_list_of_Forall in H0; unfold P_list, flats in H0.
      rewrite <- !app_assoc in *. cbn [app] in *.
      rewrite (H (spec_ctx k) (LContains :: flat_map flatten ms ++ LEnd k :: rest) [] _ Hspec
                 (rest_ok_terminator _ _ _ (term_spec_contains k)) f).
      2:{ lia. }
      rewrite app_nil_r.
      rewrite (H0 CMembers (LEnd k :: rest) [] _ Hms (rest_ok_terminator CMembers (LEnd k) rest eq_refl) f).
      2:{ rewrite len_app_cons in Hf. cbn [List.length] in Hf. lia. }
      rewrite app_nil_r. rewrite ukind_eqb_refl.
      rewrite (Hr f).
      2:{ rewrite len_app_cons in Hf. cbn [List.length] in Hf. rewrite len_app_cons in Hf. lia. }
      reflexivity.
    + rewrite <- !app_assoc in *. cbn [app] in *.
      rewrite (H (spec_ctx k) (LEnd k :: rest) [] _ Hspec
                 (rest_ok_terminator _ _ _ (term_spec_end k k)) f).
      2:{ lia. }
      rewrite app_nil_r. rewrite ukind_eqb_refl.
      rewrite (Hr f).
      2:{ rewrite len_app_cons in Hf. lia. }
      reflexivity.
  - (* NType *)
    cbn [wfb] in Hwf. apply andb_prop in Hwf as [Hwf Hbs]. apply andb_prop in Hwf as [Hc Hcomps].
    apply ctx_eqb_eq in Hc. subst c.
    apply P_list_of_Forall in H; unfold P_list, flats in H.
    cbn [flatten app] in *. cbn [List.length] in Hf.
    destruct f as [|f]; [lia|]. apply le_S_n in Hf.
    cbn [items terminates].
    destruct bs as [bs|].
    + apply P_list_of_Forall in H0; unfold P_list, flats in H0.
      rewrite <- !app_assoc in *. cbn [app] in *.
      rewrite (H CTypeSpec (LContains :: flat_map flatten bs ++ LTypeEnd :: rest) [] _ Hcomps
                 (rest_ok_terminator CTypeSpec LContains _ eq_refl) f).
      2:{ lia. }
      rewrite app_nil_r.
      rewrite (H0 CTypeBinds (LTypeEnd :: rest) [] _ Hbs (rest_ok_terminator CTypeBinds LTypeEnd rest eq_refl) f).
      2:{ rewrite len_app_cons in Hf. cbn [List.length] in Hf. lia. }
      rewrite app_nil_r.
      rewrite (Hr f).
      2:{ rewrite len_app_cons in Hf. cbn [List.length] in Hf. rewrite len_app_cons in Hf. lia. }
      reflexivity.
    + rewrite <- !app_assoc in *. cbn [app] in *.
      rewrite (H CTypeSpec (LTypeEnd :: rest) [] _ Hcomps (rest_ok_terminator CTypeSpec LTypeEnd rest eq_refl) f).
      2:{ lia. }
      rewrite app_nil_r.
      rewrite (Hr f).
      2:{ rewrite len_app_cons in Hf. lia. }
      reflexivity.
  - (* NIface *)
    cbn [wfb] in Hwf. apply andb_prop in Hwf as [Hc Hbody].
    apply P_list_of_Forall in H; unfold P_list, flats in H.
    cbn [flatten app] in *. cbn [List.length] in Hf.
    destruct f as [|f]; [lia|]. apply le_S_n in Hf.
    rewrite <- !app_assoc in *. cbn [app] in *.
    assert (Hbody' := H CIface (LIfaceEnd :: rest) [] _ Hbody (rest_ok_terminator CIface LIfaceEnd rest eq_refl) f).
    rewrite app_nil_r in Hbody'.
    apply orb_prop in Hc as [Hc|Hc]; apply ctx_eqb_eq in Hc; subst c; cbn [items terminates];
      rewrite Hbody' by lia; (rewrite (Hr f) by (rewrite len_app_cons in Hf; lia)); reflexivity.
  - (* NUse *)
    cbn [wfb] in Hwf. cbn [flatten app List.length] in *.
    destruct f as [|f]; [lia|]. apply le_S_n in Hf.
    apply orb_prop in Hwf as [Hc|Hc]; apply ctx_eqb_eq in Hc; subst c; cbn [items terminates leaf];
      now rewrite (Hr f Hf).
  - (* NCall *)
    cbn [wfb] in Hwf. cbn [flatten app List.length] in *.
    destruct f as [|f]; [lia|]. apply le_S_n in Hf.
    apply ctx_eqb_eq in Hwf; subst c; cbn [items terminates leaf]; now rewrite (Hr f Hf).
  - (* NProc *)
    cbn [wfb] in Hwf. cbn [flatten app List.length] in *.
    destruct f as [|f]; [lia|]. apply le_S_n in Hf.
    apply orb_prop in Hwf as [Hc|Hc].
    + apply ctx_eqb_eq in Hc; subst c; cbn [items terminates leaf]; now rewrite (Hr f Hf).
    + apply andb_prop in Hc as [Hc Hm]. apply ctx_eqb_eq in Hc; subst c.
      destruct pm; [discriminate|]. cbn [items terminates leaf]; now rewrite (Hr f Hf).
  - (* NGeneric *)
    cbn [wfb] in Hwf. cbn [flatten app List.length] in *.
    destruct f as [|f]; [lia|]. apply le_S_n in Hf.
    apply ctx_eqb_eq in Hwf; subst c; cbn [items terminates leaf]; now rewrite (Hr f Hf).
  - (* NOther *)
    cbn [flatten app List.length] in *.
    destruct f as [|f]; [lia|]. apply le_S_n in Hf.
    destruct c; cbn [items terminates leaf]; now rewrite (Hr f Hf).
Qed.

Lemma P_list_all : forall l, P_list l.
Proof. intros l. apply P_list_of_Forall. apply Forall_forall. intros x _. apply P_node_all. Qed.

(** every tree of the supported class, of any size and nesting depth, is recovered exactly from its text *)
Theorem blocks_roundtrip : forall us, wfsb CFile us = true -> match_blocks (flats us) = Some us.
Proof.
  intros us H. unfold match_blocks.
  pose proof (P_list_all us CFile [] [] [] H (rest_ok_nil CFile) (List.length (flats us))) as E.
  rewrite !app_nil_r in E. rewrite E by lia. reflexivity.
Qed.

(** the same inside any context, followed by arbitrary text that the context leaves alone *)
Theorem items_roundtrip : forall c l t rest, wfsb c l = true -> terminates c t = true ->
  forall f, List.length (flats l ++ t :: rest) <= f -> items f c (flats l ++ t :: rest) = Some (l, t :: rest).
Proof.
  intros c l t rest H Ht f Hf.
  pose proof (P_list_all l c (t :: rest) [] (t :: rest) H (rest_ok_terminator c t rest Ht) f Hf) as E.
  now rewrite app_nil_r in E.
Qed.

(* ---------------------------------------------------------------------------------------------- *)
(** * what is discovered *)

Theorem discovered_items_complete : forall us, wfsb CFile us = true ->
  option_map (collects []) (match_blocks (flats us)) = Some (collects [] us).
Proof. intros us H. now rewrite blocks_roundtrip. Qed.

(** every CALL / USE statement of the text is reported (none is lost in a block the matcher skipped) *)
Lemma found_calls_app : forall a b, found_calls (a ++ b) = found_calls a ++ found_calls b.
Proof. intros. unfold found_calls. apply flat_map_app. Qed.
Lemma found_uses_app : forall a b, found_uses (a ++ b) = found_uses a ++ found_uses b.
Proof. intros. unfold found_uses. apply flat_map_app. Qed.
Lemma line_calls_app : forall a b, line_calls (a ++ b) = line_calls a ++ line_calls b.
Proof. intros. unfold line_calls. apply flat_map_app. Qed.
Lemma line_uses_app : forall a b, line_uses (a ++ b) = line_uses a ++ line_uses b.
Proof. intros. unfold line_uses. apply flat_map_app. Qed.

Lemma found_calls_map_binding : forall p (l : list found),
  (forall f, In f l -> match f with FCall _ => False | _ => True end) ->
  found_calls (map (fun f => (p, f)) l) = [].
Proof.
  induction l as [|f l IH]; intros H; [reflexivity|]. cbn [map]. unfold found_calls in *. cbn [flat_map snd].
  rewrite IH by (intros; apply H; now right).
  specialize (H f (or_introl eq_refl)). destruct f; try reflexivity; contradiction.
Qed.
Lemma found_uses_map_binding : forall p (l : list found),
  (forall f, In f l -> match f with FImport _ _ _ => False | _ => True end) ->
  found_uses (map (fun f => (p, f)) l) = [].
Proof.
  induction l as [|f l IH]; intros H; [reflexivity|]. cbn [map]. unfold found_uses in *. cbn [flat_map snd].
  rewrite IH by (intros; apply H; now right).
  specialize (H f (or_introl eq_refl)). destruct f; try reflexivity; contradiction.
Qed.

Lemma binding_items_shape : forall ty bs f, In f (flat_map (binding_items ty) bs) ->
  match f with FBinding _ _ _ _ => True | _ => False end.
Proof.
  intros ty bs f H. apply in_flat_map in H as [n [_ H]].
  destruct n; cbn [binding_items] in H; try contradiction.
  - apply in_map_iff in H as [e [<- _]]. exact I.
  - destruct H as [<-|[]]. exact I.
Qed.

(** text of a sequence of nodes that are all NOther-free of calls/uses: in the type contexts nothing is a call or use *)
Definition calls_uses_ok (n : node) : Prop :=
  forall c p, wfb c n = true ->
    found_calls (collect p n) = line_calls (flatten n) /\ found_uses (collect p n) = line_uses (flatten n).

Lemma flat_map_calls : forall l c p,
  Forall calls_uses_ok l -> forallb (wfb c) l = true ->
  found_calls (flat_map (collect p) l) = line_calls (flat_map flatten l) /\
  found_uses (flat_map (collect p) l) = line_uses (flat_map flatten l).
Proof.
  induction 1 as [|x l Hx _ IH]; intros Hwf; [split; reflexivity|].
  cbn [forallb] in Hwf. apply andb_prop in Hwf as [Hwx Hwl]. cbn [flat_map].
  rewrite found_calls_app, found_uses_app, line_calls_app, line_uses_app.
  destruct (Hx c p Hwx) as [-> ->]. destruct (IH Hwl) as [-> ->]. split; reflexivity.
Qed.

(** in the two type contexts only NOther / bindings can occur: no call or use lines *)
Lemma type_ctx_no_calls : forall l c, (c = CTypeSpec \/ c = CTypeBinds) -> forallb (wfb c) l = true ->
  line_calls (flat_map flatten l) = [] /\ line_uses (flat_map flatten l) = [].
Proof.
  induction l as [|x l IH]; intros c Hc Hwf; [split; reflexivity|].
  cbn [forallb] in Hwf. apply andb_prop in Hwf as [Hwx Hwl]. cbn [flat_map].
  rewrite line_calls_app, line_uses_app. destruct (IH c Hc Hwl) as [-> ->]. rewrite !app_nil_r.
  destruct Hc; subst c; destruct x; cbn in Hwx; try discriminate; try (split; reflexivity).
  all: destruct k; discriminate.
Qed.

Lemma calls_uses_ok_all : forall n, calls_uses_ok n.
Proof.
  induction n using node_ind'; unfold calls_uses_ok; intros c p Hwf; cbn [wfb] in Hwf.
  - apply andb_prop in Hwf as [Hwf Hms]. apply andb_prop in Hwf as [_ Hspec].
    cbn [collect flatten].
    change (found_calls ((p, FUnit k name) :: ?x)) with (found_calls x).
    change (found_uses ((p, FUnit k name) :: ?x)) with (found_uses x).
    change (line_calls (LBegin k name :: ?x)) with (line_calls x).
    change (line_uses (LBegin k name :: ?x)) with (line_uses x).
    rewrite found_calls_app, found_uses_app, !line_calls_app, !line_uses_app.
    destruct (flat_map_calls spec (spec_ctx k) (p ++ [name]) H Hspec) as [-> ->].
    destruct ms as [ms|].
    + destruct (flat_map_calls ms CMembers (p ++ [name]) H0 Hms) as [-> ->]. cbn. rewrite !app_nil_r. split; reflexivity.
    + cbn. split; reflexivity.
  - apply andb_prop in Hwf as [Hwf Hbs]. apply andb_prop in Hwf as [_ Hcomps].
    cbn [collect flatten].
    change (found_calls ((p, FType name) :: ?x)) with (found_calls x).
    change (found_uses ((p, FType name) :: ?x)) with (found_uses x).
    change (line_calls (LTypeBegin name :: ?x)) with (line_calls x).
    change (line_uses (LTypeBegin name :: ?x)) with (line_uses x).
    rewrite !line_calls_app, !line_uses_app.
    destruct (type_ctx_no_calls comps CTypeSpec (or_introl eq_refl) Hcomps) as [-> ->].
    destruct bs as [bs|].
    + rewrite found_calls_map_binding, found_uses_map_binding.
      2,3: intros f Hf; apply binding_items_shape in Hf; destruct f; try contradiction; exact I.
      change (line_calls (LContains :: ?x)) with (line_calls x).
      change (line_uses (LContains :: ?x)) with (line_uses x).
      destruct (type_ctx_no_calls bs CTypeBinds (or_intror eq_refl) Hbs) as [-> ->]. split; reflexivity.
    + split; reflexivity.
  - apply andb_prop in Hwf as [_ Hbody].
    cbn [collect flatten].
    change (found_calls ((p, FIface ia isp) :: ?x)) with (found_calls x).
    change (found_uses ((p, FIface ia isp) :: ?x)) with (found_uses x).
    change (line_calls (LIfaceBegin ia isp :: ?x)) with (line_calls x).
    change (line_uses (LIfaceBegin ia isp :: ?x)) with (line_uses x).
    rewrite !line_calls_app, !line_uses_app.
    destruct (flat_map_calls body CIface p H Hbody) as [-> ->]. cbn. rewrite !app_nil_r. split; reflexivity.
  - split; reflexivity.
  - split; reflexivity.
  - cbn [collect flatten]. split.
    + clear. induction pes; [reflexivity|]. cbn [map]. unfold found_calls in *. cbn [flat_map snd]. exact IHpes.
    + clear. induction pes; [reflexivity|]. cbn [map]. unfold found_uses in *. cbn [flat_map snd]. exact IHpes.
  - split; reflexivity.
  - split; reflexivity.
Qed.

Theorem all_calls_and_uses_found : forall us, wfsb CFile us = true ->
  exists ns, match_blocks (flats us) = Some ns /\
             found_calls (collects [] ns) = line_calls (flats us) /\
             found_uses (collects [] ns) = line_uses (flats us).
Proof.
  intros us H. exists us. split; [now apply blocks_roundtrip|].
  apply (flat_map_calls us CFile []); [|exact H]. apply Forall_forall. intros x _. apply calls_uses_ok_all.
Qed.

(* ---------------------------------------------------------------------------------------------- *)
(** * the comparator used by the correspondence is sound *)

Lemma ukind_eqb_eq : forall a b, ukind_eqb a b = true -> a = b.
Proof. destruct a, b; cbn; congruence. Qed.
Lemma ostring_eqb_eq : forall a b, ostring_eqb a b = true -> a = b.
Proof. destruct a, b; cbn; try congruence. intros H. apply String.eqb_eq in H. now subst. Qed.
Lemma ents_eqb_eq : forall a b, ents_eqb a b = true -> a = b.
Proof.
  induction a as [|[x u] a IH]; destruct b as [|[y v] b]; cbn; try congruence.
  intros H. apply andb_prop in H as [H H3]. apply andb_prop in H as [H1 H2].
  apply String.eqb_eq in H1. apply ostring_eqb_eq in H2. apply IH in H3. now subst.
Qed.
Lemma strs_eqb_eq : forall a b, strs_eqb a b = true -> a = b.
Proof.
  induction a as [|x a IH]; destruct b as [|y b]; cbn; try congruence.
  intros H. apply andb_prop in H as [H1 H2]. apply String.eqb_eq in H1. apply IH in H2. now subst.
Qed.

Lemma list_eqb_eq : forall (l l' : list node),
  Forall (fun a => forall b, node_eqb a b = true -> a = b) l -> list_eqb node_eqb l l' = true -> l = l'.
Proof.
  induction l as [|x l IH]; destruct l' as [|y l']; cbn; try congruence.
  intros HF H. inversion HF as [|? ? Hx Hl]; subst. apply andb_prop in H as [E1 E2].
  f_equal; auto.
Qed.

Theorem node_eqb_eq : forall a b, node_eqb a b = true -> a = b.
Proof.
  induction a using node_ind'; destruct b; cbn [node_eqb]; try congruence; intros E.
  - apply andb_prop in E as [E E4]. apply andb_prop in E as [E E3]. apply andb_prop in E as [E1 E2].
    apply ukind_eqb_eq in E1. apply String.eqb_eq in E2. apply list_eqb_eq in E3; [|assumption]. subst.
    f_equal. destruct ms, members; cbn in E4; try congruence. f_equal. now apply list_eqb_eq.
  - apply andb_prop in E as [E E3]. apply andb_prop in E as [E1 E2].
    apply String.eqb_eq in E1. apply list_eqb_eq in E2; [|assumption]. subst.
    f_equal. destruct bs, binds; cbn in E3; try congruence. f_equal. now apply list_eqb_eq.
  - apply andb_prop in E as [E E3]. apply andb_prop in E as [E1 E2].
    apply Bool.eqb_prop in E1. apply ostring_eqb_eq in E2. apply list_eqb_eq in E3; [|assumption]. now subst.
  - apply andb_prop in E as [E E3]. apply andb_prop in E as [E1 E2].
    apply String.eqb_eq in E1. apply Bool.eqb_prop in E2. apply ents_eqb_eq in E3. now subst.
  - apply String.eqb_eq in E. now subst.
  - apply andb_prop in E as [E1 E2]. apply Bool.eqb_prop in E1. apply ents_eqb_eq in E2. now subst.
  - apply andb_prop in E as [E1 E2]. apply String.eqb_eq in E1. apply strs_eqb_eq in E2. now subst.
Qed.

Theorem chk_tree_sound : forall ls obs, chk_tree ls obs = true ->
  exists ns, match_blocks ls = Some ns /\ strips ns = obs.
Proof.
  intros ls obs H. unfold chk_tree in H. destruct (match_blocks ls) as [ns|]; [|discriminate].
  exists ns. split; [reflexivity|]. apply list_eqb_eq; [|exact H].
  apply Forall_forall. intros x _. apply node_eqb_eq.
Qed.

(* ---------------------------------------------------------------------------------------------- *)
(** * outside the class: a derived type defined inside a routine is valid Fortran, but no typedef
      candidate is tried in a routine's specification part *)
Open Scope string_scope.

Definition witness_type_in_routine : node :=
  NUnit KSub "s" [NType "loc" [NOther] None; NCall "foo"] None.

Theorem typedef_in_routine_missed :
  match_blocks (flatten witness_type_in_routine) = Some [NUnit KSub "s" [NOther; NOther; NOther; NCall "foo"] None] /\
  ~ In ([ "s" ], FType "loc") (collects [] [NUnit KSub "s" [NOther; NOther; NOther; NCall "foo"] None]) /\
  In ([ "s" ], FType "loc") (collects [] [witness_type_in_routine]).
Proof.
  split; [vm_compute; reflexivity|]. split.
  - cbn. intros H. repeat (destruct H as [H|H]; [discriminate|]). exact H.
  - cbn. right. left. reflexivity.
Qed.

(** the hypotheses are satisfiable: a module with a typedef with bindings, a generic interface, and a module
    procedure that contains an internal procedure with an interface body (nesting depth 4) *)
Definition example_tree : list node :=
  [ NOther;
    NUnit KModule "m"
      [ NUse "k" true [("a", None); ("b", Some "c")];
        NType "t" [NOther] (Some [NProc false [("p", Some "impl")]; NGeneric "g" ["p"]]);
        NIface false (Some "gen") [NProc true [("impl", None)]] ]
      (Some [ NUnit KSub "impl" [NUse "k2" false []; NCall "foo"; NOther; NCall "obj%run"]
                (Some [ NUnit KFun "inner"
                          [NIface true None [NUnit KSub "cb" [NUse "k3" true [("x", None)]] None]; NCall "cb"] None ]) ]);
    NUnit KSub "top" [NCall "impl"] None ].

Example c19_blocks_nonvacuous :
  wfsb CFile example_tree = true /\ match_blocks (flats example_tree) = Some example_tree /\
  found_calls (collects [] example_tree) = ["foo"; "obj%run"; "cb"; "impl"].
Proof. repeat split; vm_compute; reflexivity. Qed.
