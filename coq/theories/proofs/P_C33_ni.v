(** C33 — two general facts about MiniF executions:
    [ni_list]    an execution depends only on the upward-exposed reads [ue_l]: two stores that agree on
                 them (on a predicate P that contains them) run the same program in lock-step and agree
                 afterwards on P and on everything the program certainly assigns ([mdef_l]);
    [frame_list] an execution changes nothing outside [wr_l]. *)
From Coq Require Import ZArith List Bool String Lia.
From LV Require Import Base.Expr Base.MiniF Base.MiniFFacts models.M_C26 models.M_C33 proofs.P_C33_base.
Import ListNotations.
Open Scope Z_scope.

Definition Pun (P : tn -> bool) (l : list tn) : tn -> bool := fun p => P p || tmemp p l.

Lemma Pun_weaken P l s1 s2 : agreeP (Pun P l) s1 s2 -> agreeP P s1 s2.
Proof. apply agreeP_weaken. intros p Hp. unfold Pun. now rewrite Hp. Qed.

Lemma ue_l_cons ps x r : ue_l ps (x :: r) = ue_s ps x ++ tdiff (ue_l ps r) (mdef_s x).
Proof. reflexivity. Qed.

Lemma reads_ok_tdiff P X l : reads_ok P (tdiff X l) -> reads_ok (Pun P l) X.
Proof.
  intros H p Hp. unfold Pun. destruct (tmemp p l) eqn:E; [apply orb_true_r|].
  rewrite (H p); [reflexivity|]. apply In_tdiff. split; [exact Hp|]. now apply tmemp_false.
Qed.

Lemma reads_ok_weaken (P Q : tn -> bool) l : (forall p, P p = true -> Q p = true) -> reads_ok P l -> reads_ok Q l.
Proof. intros H R p Hp. apply H. now apply R. Qed.

Definition alltrue : tn -> bool := fun _ => true.

Lemma copy_in_agree P s1 s2 : agreeP P s1 s2 -> forall params args c1 c2 r1,
  reads_ok P (call_reads params args) -> agreeP alltrue c1 c2 ->
  copy_in s1 params args c1 = Some r1 ->
  exists r2, copy_in s2 params args c2 = Some r2 /\ agreeP alltrue r1 r2.
Proof.
  intros Ag. induction params as [|[d b] ps IH]; intros args c1 c2 r1 R Hc E.
  - destruct args; [|discriminate]. cbn in E. inversion E; subst. exists c2. split; [reflexivity|exact Hc].
  - destruct args as [|e r]; [destruct b; discriminate|].
    destruct b.
    + destruct e; try discriminate. cbn in E, R.
      assert (Ha : forall i, av s1 x i = av s2 x i).
      { destruct Ag as [_ B]. apply B. apply R. now left. }
      cbn. eapply IH; [|..|exact E].
      * intros p Hp. apply R. now right.
      * eapply agreeP_weaken; [|apply agreeP_set_arr; [exact Ha|exact Hc]]. intros; reflexivity.
    + cbn in E, R. apply reads_ok_app in R. destruct R as [R1 R2].
      cbn. rewrite <- (evalZ_agree P s1 s2 Ag e R1).
      destruct (evalZ (env_st s1) e) as [v|]; [|discriminate].
      eapply IH; [exact R2| |exact E].
      eapply agreeP_weaken; [|apply agreeP_set_sv; exact Hc]. intros; reflexivity.
Qed.

Lemma copy_out_agree P c1 c2 : agreeP alltrue c1 c2 -> forall params args s1 s2,
  agreeP P s1 s2 -> agreeP P (copy_out c1 params args s1) (copy_out c2 params args s2).
Proof.
  intros Hc. induction params as [|[d b] ps IH]; intros args s1 s2 Ag; [exact Ag|].
  destruct args as [|e r]; [destruct b; exact Ag|].
  destruct b.
  - destruct e; cbn; try (apply IH; exact Ag).
    apply IH. eapply agreeP_weaken; [|apply agreeP_set_arr; [|exact Ag]].
    + intros p Hp. cbn. now rewrite Hp.
    + intros i. destruct Hc as [_ B]. now apply B.
  - destruct e; cbn; try (apply IH; exact Ag).
    apply IH. destruct Hc as [A _]. rewrite (A d eq_refl). now apply agreeP_set_sv_same.
Qed.

Section NI.
  Variable ps : procs.

  Definition ni_at (f : nat) : Prop :=
    forall P ss s1 s2 s1', agreeP P s1 s2 -> reads_ok P (ue_l ps ss) -> exec ps f ss s1 = Some s1' ->
    exists s2', exec ps f ss s2 = Some s2' /\ agreeP (Pun P (mdef_l ss)) s1' s2'.

  Lemma ni_do_loop f (IH : ni_at f) P v d body :
    reads_ok (Pun P [(v, false)]) (ue_l ps body) ->
    forall n i s1 s2 s1', agreeP P s1 s2 -> do_loop (exec ps f body) v d n i s1 = Some s1' ->
    exists s2', do_loop (exec ps f body) v d n i s2 = Some s2' /\ agreeP (Pun P [(v, false)]) s1' s2'.
  Proof.
    intros R. induction n as [|n IHn]; intros i s1 s2 s1' Ag E; cbn in E |- *.
    - inversion E; subst. eexists. split; [reflexivity|]. now apply agreeP_set_sv.
    - apply obind_some in E. destruct E as [m1 [E1 E2]].
      destruct (IH _ _ _ (set_sv v i s2) _ (agreeP_set_sv P s1 s2 v i Ag) R E1) as [m2 [F1 F2]].
      rewrite F1. cbn [obind]. apply (IHn (i + d) m1 m2 s1'); [|exact E2].
      apply Pun_weaken in F2. now apply Pun_weaken in F2.
  Qed.

  Lemma ni_stmt f (IH : ni_at f) : forall P st s1 s2 s1',
    agreeP P s1 s2 -> reads_ok P (ue_s ps st) -> exec1 ps f st s1 = Some s1' ->
    exists s2', exec1 ps f st s2 = Some s2' /\ agreeP (Pun P (mdef_s st)) s1' s2'.
  Proof.
    intros P st s1 s2 s1' Ag R E.
    destruct st as [x e|a idx e|v lo hi stp body|c body|c tb eb|g args|l]; cbn [exec1] in E |- *; cbn [ue_s] in R.
    - rewrite <- (evalZ_agree P s1 s2 Ag e R). destruct (evalZ (env_st s1) e) as [w|]; [|discriminate].
      cbn in E |- *. inversion E; subst. eexists. split; [reflexivity|]. now apply agreeP_set_sv.
    - apply reads_ok_app in R. destruct R as [R1 R2].
      rewrite <- (eval_idx_agree P s1 s2 Ag idx R1). destruct (eval_idx s1 idx) as [i|]; [|discriminate]. cbn [obind] in E |- *.
      rewrite <- (evalZ_agree P s1 s2 Ag e R2). destruct (evalZ (env_st s1) e) as [w|]; [|discriminate].
      cbn in E |- *. inversion E; subst. eexists. split; [reflexivity|].
      eapply agreeP_weaken; [|apply agreeP_set_av; exact Ag]. intros p Hp. unfold Pun in Hp. cbn in Hp. now rewrite orb_false_r in Hp.
    - apply reads_ok_app in R. destruct R as [R1 R]. apply reads_ok_app in R. destruct R as [R2 R].
      apply reads_ok_app in R. destruct R as [R3 R4].
      rewrite <- (evalZ_agree P s1 s2 Ag lo R1). destruct (evalZ (env_st s1) lo) as [a|]; [|discriminate]. cbn [obind] in E |- *.
      rewrite <- (evalZ_agree P s1 s2 Ag hi R2). destruct (evalZ (env_st s1) hi) as [b|]; [|discriminate]. cbn [obind] in E |- *.
      assert (Es : match stp with None => Some 1 | Some e => evalZ (env_st s1) e end = match stp with None => Some 1 | Some e => evalZ (env_st s2) e end).
      { destruct stp as [e|]; [|reflexivity]. exact (evalZ_agree P s1 s2 Ag e R3). }
      rewrite <- Es. destruct (match stp with None => Some 1 | Some e => evalZ (env_st s1) e end) as [d|]; [|discriminate].
      cbn [obind] in E |- *. destruct (d =? 0); [discriminate|].
      apply (ni_do_loop f IH P v d body (reads_ok_tdiff P _ _ R4) _ _ s1 s2 s1' Ag E).
    - apply reads_ok_app in R. destruct R as [R1 R2].
      rewrite <- (evalB_agree P s1 s2 Ag c R1). destruct (evalB (env_st s1) c) as [b|]; [|discriminate]. cbn [obind] in E |- *.
      destruct b.
      + apply obind_some in E. destruct E as [m1 [E1 E2]].
        destruct (IH P body s1 s2 m1 Ag R2 E1) as [m2 [F1 F2]]. rewrite F1. cbn [obind].
        apply Pun_weaken in F2.
        assert (Rw : reads_ok P (ue_l ps [SWhile c body])).
        { rewrite ue_l_cons. cbn [ue_s ue_l ue_fold]. apply reads_ok_app. split; [|intros p []].
          apply reads_ok_app. split; assumption. }
        destruct (IH P [SWhile c body] m1 m2 s1' F2 Rw E2) as [s2' [G1 G2]].
        exists s2'. split; [exact G1|]. apply Pun_weaken in G2.
        eapply agreeP_weaken; [|exact G2]. intros p Hp. unfold Pun in Hp. cbn in Hp. now rewrite orb_false_r in Hp.
      + inversion E; subst. eexists. split; [reflexivity|].
        eapply agreeP_weaken; [|exact Ag]. intros p Hp. unfold Pun in Hp. cbn in Hp. now rewrite orb_false_r in Hp.
    - apply reads_ok_app in R. destruct R as [R1 R]. apply reads_ok_app in R. destruct R as [R2 R3].
      rewrite <- (evalB_agree P s1 s2 Ag c R1). destruct (evalB (env_st s1) c) as [b|]; [|discriminate]. cbn [obind] in E |- *.
      destruct b.
      + destruct (IH P tb s1 s2 s1' Ag R2 E) as [s2' [F1 F2]]. exists s2'. split; [exact F1|].
        eapply agreeP_weaken; [|exact F2]. intros p Hp. unfold Pun in *. apply orb_true_iff in Hp. apply orb_true_iff.
        destruct Hp as [Hp|Hp]; [now left|right]. cbn [mdef_s] in Hp. apply tmemp_In in Hp. apply In_tinter in Hp. apply tmemp_In. apply Hp.
      + destruct (IH P eb s1 s2 s1' Ag R3 E) as [s2' [F1 F2]]. exists s2'. split; [exact F1|].
        eapply agreeP_weaken; [|exact F2]. intros p Hp. unfold Pun in *. apply orb_true_iff in Hp. apply orb_true_iff.
        destruct Hp as [Hp|Hp]; [now left|right]. cbn [mdef_s] in Hp. apply tmemp_In in Hp. apply In_tinter in Hp. apply tmemp_In. apply Hp.
    - destruct (find_proc ps g) as [p|]; [|discriminate]. cbn [obind] in E |- *.
      apply obind_some in E. destruct E as [c1 [E1 E]]. apply obind_some in E. destruct E as [c1' [E2 E3]].
      destruct (copy_in_agree P s1 s2 Ag (p_params p) args empty_store empty_store c1 R (agreeP_refl _ _) E1) as [c2 [F1 F2]].
      rewrite F1. cbn [obind].
      assert (Rb : reads_ok alltrue (ue_l ps (p_body p))) by (intros q _; reflexivity).
      destruct (IH alltrue (p_body p) c1 c2 c1' F2 Rb E2) as [c2' [G1 G2]].
      rewrite G1. cbn [obind]. inversion E3; subst. eexists. split; [reflexivity|].
      eapply agreeP_weaken; [|apply copy_out_agree; [|exact Ag]].
      + intros q Hq. unfold Pun in Hq. cbn in Hq. now rewrite orb_false_r in Hq.
      + eapply agreeP_weaken; [|exact G2]. intros; reflexivity.
    - inversion E; subst. eexists. split; [reflexivity|].
      eapply agreeP_weaken; [|exact Ag]. intros p Hp. unfold Pun in Hp. cbn in Hp. now rewrite orb_false_r in Hp.
  Qed.

  Lemma ni_all : forall f, ni_at f.
  Proof.
    induction f as [|f IH]; intros P ss s1 s2 s1' Ag R E; [discriminate|].
    destruct ss as [|st rest].
    - cbn in E |- *. inversion E; subst. exists s2. split; [reflexivity|].
      eapply agreeP_weaken; [|exact Ag]. intros p Hp. unfold Pun in Hp. cbn in Hp. now rewrite orb_false_r in Hp.
    - rewrite exec_unfold in E |- *. apply obind_some in E. destruct E as [m1 [E1 E2]].
      rewrite ue_l_cons in R. apply reads_ok_app in R. destruct R as [R1 R2].
      destruct (ni_stmt f IH P st s1 s2 m1 Ag R1 E1) as [m2 [F1 F2]]. rewrite F1. cbn [obind].
      destruct (IH (Pun P (mdef_s st)) rest m1 m2 s1' F2 (reads_ok_tdiff P _ _ R2) E2) as [s2' [G1 G2]].
      exists s2'. split; [exact G1|].
      eapply agreeP_weaken; [|exact G2]. intros p Hp. unfold Pun in *. unfold mdef_l in Hp. cbn [flat_map] in Hp.
      rewrite tmemp_app in Hp. fold (mdef_l rest) in Hp. rewrite orb_assoc in Hp. exact Hp.
  Qed.

  Theorem ni_list f P ss s1 s2 s1' :
    agreeP P s1 s2 -> reads_ok P (ue_l ps ss) -> exec ps f ss s1 = Some s1' ->
    exists s2', exec ps f ss s2 = Some s2' /\ agreeP (Pun P (mdef_l ss)) s1' s2'.
  Proof. apply ni_all. Qed.

  (** * frame *)
  Definition untouched (W : list tn) (s s' : store) : Prop := agreeP (fun p => negb (tmemp p W)) s s'.

  Lemma untouched_mono W W' s s' : (forall p, In p W -> In p W') -> untouched W s s' -> untouched W' s s'.
  Proof.
    intros H. apply agreeP_weaken. intros p Hp. apply negb_true_iff in Hp. apply negb_true_iff.
    apply tmemp_false. apply tmemp_false in Hp. intros Hin. apply Hp. now apply H.
  Qed.

  Lemma untouched_set_sv W x v s : In (x, false) W -> untouched W s (set_sv x v s).
  Proof.
    intros Hin. split.
    - intros y Hy. cbn. destruct (String.eqb y x) eqn:E; [|reflexivity].
      apply String.eqb_eq in E. subst. apply negb_true_iff in Hy. apply tmemp_false in Hy. now elim Hy.
    - intros; reflexivity.
  Qed.

  Lemma untouched_set_av W a i v s : In (a, true) W -> untouched W s (set_av a i v s).
  Proof.
    intros Hin. split; [intros; reflexivity|].
    intros b Hb j. cbn. destruct (String.eqb b a) eqn:E; [|reflexivity].
    apply String.eqb_eq in E. subst. apply negb_true_iff in Hb. apply tmemp_false in Hb. now elim Hb.
  Qed.

  Lemma untouched_set_arr W a f s : In (a, true) W -> untouched W s (set_arr a f s).
  Proof.
    intros Hin. split; [intros; reflexivity|].
    intros b Hb j. cbn. destruct (String.eqb b a) eqn:E; [|reflexivity].
    apply String.eqb_eq in E. subst. apply negb_true_iff in Hb. apply tmemp_false in Hb. now elim Hb.
  Qed.

  Lemma copy_out_untouched c : forall params args s, untouched (call_writes params args) s (copy_out c params args s).
  Proof.
    induction params as [|[d b] pr IH]; intros args s; [apply agreeP_refl|].
    destruct args as [|e r]; [destruct b; apply agreeP_refl|].
    destruct b; destruct e; cbn [copy_out call_writes];
      try (eapply untouched_mono; [|apply IH]; intros p Hp; try right; exact Hp).
    - eapply agreeP_trans; [apply (untouched_set_arr _ x (av c d) s); now left|].
      eapply untouched_mono; [|apply IH]. intros p Hp. now right.
    - eapply agreeP_trans; [apply (untouched_set_sv _ x (sv c d) s); now left|].
      eapply untouched_mono; [|apply IH]. intros p Hp. now right.
  Qed.

  Definition frame_at (f : nat) : Prop :=
    forall ss s s', exec ps f ss s = Some s' -> untouched (wr_l ps ss) s s'.

  Lemma frame_do_loop f (IH : frame_at f) v d body W :
    In (v, false) W -> (forall p, In p (wr_l ps body) -> In p W) ->
    forall n i s s', do_loop (exec ps f body) v d n i s = Some s' -> untouched W s s'.
  Proof.
    intros Hv Hb. induction n as [|n IHn]; intros i s s' E; cbn in E.
    - inversion E; subst. now apply untouched_set_sv.
    - apply obind_some in E. destruct E as [m [E1 E2]].
      eapply agreeP_trans; [apply (untouched_set_sv W v i s Hv)|].
      eapply agreeP_trans; [eapply untouched_mono; [exact Hb|apply (IH _ _ _ E1)]|].
      apply (IHn _ _ _ E2).
  Qed.

  Lemma frame_stmt f (IH : frame_at f) : forall st s s', exec1 ps f st s = Some s' -> untouched (wr_s ps st) s s'.
  Proof.
    intros st s s' E.
    destruct st as [x e|a idx e|v lo hi stp body|c body|c tb eb|g args|l]; cbn [exec1] in E; cbn [wr_s].
    - destruct (evalZ (env_st s) e); [|discriminate]. cbn in E. inversion E; subst. apply untouched_set_sv. now left.
    - destruct (eval_idx s idx); [|discriminate]. cbn [obind] in E. destruct (evalZ (env_st s) e); [|discriminate].
      cbn in E. inversion E; subst. apply untouched_set_av. now left.
    - destruct (evalZ (env_st s) lo); [|discriminate]. cbn [obind] in E.
      destruct (evalZ (env_st s) hi); [|discriminate]. cbn [obind] in E.
      destruct (match stp with None => Some 1 | Some e => evalZ (env_st s) e end); [|discriminate]. cbn [obind] in E.
      destruct (z1 =? 0); [discriminate|].
      eapply (frame_do_loop f IH v z1 body); [now left| |exact E]. intros p Hp. now right.
    - destruct (evalB (env_st s) c) as [b|]; [|discriminate]. cbn [obind] in E. destruct b.
      + apply obind_some in E. destruct E as [m [E1 E2]].
        eapply agreeP_trans; [apply (IH _ _ _ E1)|].
        eapply untouched_mono; [|apply (IH _ _ _ E2)]. intros p Hp. unfold wr_l in Hp. cbn in Hp. now rewrite app_nil_r in Hp.
      + inversion E; subst. apply agreeP_refl.
    - destruct (evalB (env_st s) c) as [b|]; [|discriminate]. cbn [obind] in E.
      destruct b; (eapply untouched_mono; [|apply (IH _ _ _ E)]); intros p Hp; apply in_or_app; [left|right]; exact Hp.
    - destruct (find_proc ps g) as [p|]; [|discriminate]. cbn [obind] in E.
      destruct (copy_in s (p_params p) args empty_store); [|discriminate]. cbn [obind] in E.
      destruct (exec ps f (p_body p) s0); [|discriminate]. cbn [obind] in E. inversion E; subst.
      apply copy_out_untouched.
    - inversion E; subst. apply agreeP_refl.
  Qed.

  Lemma frame_all : forall f, frame_at f.
  Proof.
    induction f as [|f IH]; intros ss s s' E; [discriminate|].
    destruct ss as [|st rest]; [cbn in E; inversion E; subst; apply agreeP_refl|].
    rewrite exec_unfold in E. apply obind_some in E. destruct E as [m [E1 E2]].
    eapply agreeP_trans.
    - eapply untouched_mono; [|apply (frame_stmt f IH _ _ _ E1)]. intros p Hp. unfold wr_l. cbn. apply in_or_app. now left.
    - eapply untouched_mono; [|apply (IH _ _ _ E2)]. intros p Hp. unfold wr_l. cbn. apply in_or_app. now right.
  Qed.

  Theorem frame_list f ss s s' : exec ps f ss s = Some s' -> untouched (wr_l ps ss) s s'.
  Proof. apply frame_all. Qed.
End NI.
