(** P_C34_dedup.v — RemoveDuplicateArgs in coupled form preserves by-reference behaviour

    [dedup_args_preserves]: instance of [coupled_sim] (P_C34_sim) for the plan-based coupled rewrite
    [apply_plan]/[plan_tc] of M_C34 part D.  The work is [bind_dedup] (section 5): [bind] of the original routine
    with all actuals and [bind] of the routine without the merged dummies (actuals dropped and renamed by the
    caller's renaming) give the same store and callee frames related by [rn m].  The callee's scalar environments
    only agree outside [dom m]; the dimension expressions do not mention merged dummies ([rmap_okb]), hence the
    names-restricted extensionality lemmas of section 3.
    [renl_clean]: the occurrence-keyed renaming the code performs equals the plain renaming on clean bodies. *)
From Coq Require Import ZArith List Bool String Ascii Lia.
From LV Require Import Base.Expr Base.MiniF models.M_C34 proofs.P_C34_sim.
Import ListNotations.
Open Scope Z_scope.

(* ================================================================================================ *)
(** * 1. structural equality tests are sound *)

Lemma expr_eqb_eq : forall a b, expr_eqb a b = true -> a = b.
Proof.
  induction a using expr_ind'; intros bb E; destruct bb; cbn in E; try discriminate.
  - apply Z.eqb_eq in E. now subst.
  - apply Z.eqb_eq in E. now subst.
  - apply String.eqb_eq in E. now subst.
  - apply Bool.eqb_prop in E. now subst.
  - apply andb_prop in E. destruct E as [E1 E2]. apply Bool.eqb_prop in E1. subst. f_equal.
    revert cs0 E2. induction H as [|c cs Hc _ IH]; intros [|d ds] E; try discriminate; [reflexivity|].
    apply andb_prop in E. destruct E as [Ea Eb]. f_equal; [now apply Hc|now apply IH].
  - apply andb_prop in E. destruct E as [E1 E2]. apply Bool.eqb_prop in E1. subst. f_equal.
    revert cs0 E2. induction H as [|c cs Hc _ IH]; intros [|d ds] E; try discriminate; [reflexivity|].
    apply andb_prop in E. destruct E as [Ea Eb]. f_equal; [now apply Hc|now apply IH].
  - apply andb_prop in E. destruct E as [E E2]. apply andb_prop in E. destruct E as [E0 E1].
    apply Bool.eqb_prop in E0. subst. f_equal; [now apply IHa1|now apply IHa2].
  - apply andb_prop in E. destruct E as [E E2]. apply andb_prop in E. destruct E as [E0 E1].
    apply Bool.eqb_prop in E0. subst. f_equal; [now apply IHa1|now apply IHa2].
  - apply andb_prop in E. destruct E as [E E2]. apply andb_prop in E. destruct E as [E0 E1].
    f_equal; [destruct op, op0; cbn in E0; congruence|now apply IHa1|now apply IHa2].
  - f_equal. revert cs0 E. induction H as [|c cs Hc _ IH]; intros [|d ds] E; try discriminate; [reflexivity|].
    apply andb_prop in E. destruct E as [Ea Eb]. f_equal; [now apply Hc|now apply IH].
  - f_equal. revert cs0 E. induction H as [|c cs Hc _ IH]; intros [|d ds] E; try discriminate; [reflexivity|].
    apply andb_prop in E. destruct E as [Ea Eb]. f_equal; [now apply Hc|now apply IH].
  - f_equal. now apply IHa.
  - apply andb_prop in E. destruct E as [E1 E2]. apply String.eqb_eq in E1. subst. f_equal.
    revert args0 E2. induction H as [|c cs Hc _ IH]; intros [|d ds] E; try discriminate; [reflexivity|].
    apply andb_prop in E. destruct E as [Ea Eb]. f_equal; [now apply Hc|now apply IH].
Qed.

Lemma dim_eqb_eq a b : dim_eqb a b = true -> a = b.
Proof.
  destruct a, b; cbn; intros E; try discriminate.
  - apply andb_prop in E. destruct E as [E1 E2]. apply expr_eqb_eq in E1. apply expr_eqb_eq in E2. now subst.
  - reflexivity.
  - apply expr_eqb_eq in E. now subst.
Qed.

Lemma list_eqb_eq {A} (f : A -> A -> bool) : (forall a b, f a b = true -> a = b) ->
  forall l1 l2, list_eqb f l1 l2 = true -> l1 = l2.
Proof.
  intros Hf. induction l1 as [|a l1 IH]; intros [|b l2] E; cbn in E; try discriminate; [reflexivity|].
  apply andb_prop in E. destruct E as [E1 E2]. f_equal; [now apply Hf|now apply IH].
Qed.

Lemma pkind_eqb_eq a b : pkind_eqb a b = true -> a = b.
Proof.
  destruct a, b; cbn; intros E; try discriminate.
  - reflexivity.
  - f_equal. revert E. apply list_eqb_eq. exact dim_eqb_eq.
  - apply String.eqb_eq in E. now subst.
Qed.

(* ================================================================================================ *)
(** * 2. association lists, [lookup_pa], filtering *)

Lemma assoc_s_In {A} (l : list (string * A)) x v : assoc_s l x = Some v -> In (x, v) l.
Proof.
  induction l as [|[k w] l IH]; cbn [assoc_s]; [discriminate|].
  destruct (String.eqb k x) eqn:E.
  - intros H. injection H as ->. apply String.eqb_eq in E. subst. now left.
  - intros H. right. now apply IH.
Qed.

Lemma in_dom_In m z : in_dom m z = true -> exists x, In (z, x) m /\ rn m z = x.
Proof.
  unfold in_dom, rn. destruct (assoc_s m z) as [x|] eqn:E; [|discriminate].
  intros _. exists x. split; [now apply assoc_s_In|reflexivity].
Qed.

Lemma rn_out m z : in_dom m z = false -> rn m z = z.
Proof. unfold in_dom, rn. destruct (assoc_s m z); [discriminate|reflexivity]. Qed.

Lemma mem_s_In l x : mem_s l x = true <-> In x l.
Proof.
  unfold mem_s. rewrite existsb_exists. split.
  - intros [y [Hy E]]. apply String.eqb_eq in E. now subst.
  - intros H. exists x. split; [assumption|apply String.eqb_refl].
Qed.

Lemma lookup_pa_In z pa k e : lookup_pa z pa = Some (k, e) -> In ((z, k), e) pa.
Proof.
  induction pa as [|[[x k0] e0] pa IH]; cbn [lookup_pa]; [discriminate|].
  destruct (String.eqb x z) eqn:E.
  - intros H. injection H as -> ->. apply String.eqb_eq in E. subst. now left.
  - intros H. right. now apply IH.
Qed.

Lemma lookup_pa_nodup z k e : forall ps args, nodup_s (map fst ps) = true ->
  In ((z, k), e) (combine ps args) -> lookup_pa z (combine ps args) = Some (k, e).
Proof.
  induction ps as [|[x k0] ps IH]; intros [|e0 args] Hnd Hin; cbn [combine] in *; try contradiction.
  cbn [map fst nodup_s] in Hnd. apply andb_prop in Hnd. destruct Hnd as [H1 H2].
  cbn [lookup_pa]. destruct Hin as [Hin|Hin].
  - injection Hin as -> -> ->. now rewrite String.eqb_refl.
  - destruct (String.eqb x z) eqn:E; [|now apply IH].
    apply String.eqb_eq in E. subst x. apply in_combine_l in Hin.
    assert (Hm : mem_s (map fst ps) z = true).
    { apply mem_s_In. change z with (fst (z, k)). now apply in_map. }
    rewrite Hm in H1. discriminate H1.
Qed.

Lemma lookup_pa_assoc z k e : forall ps args, lookup_pa z (combine ps args) = Some (k, e) -> assoc_s ps z = Some k.
Proof.
  induction ps as [|[x k0] ps IH]; intros [|e0 args]; cbn [combine lookup_pa assoc_s]; try discriminate.
  destruct (String.eqb x z).
  - intros H. now injection H as -> _.
  - apply IH.
Qed.

Definition keepq (m : rmap) (q : (string * pkind) * expr) : bool := negb (in_dom m (fst (fst q))).
Definition keepp (m : rmap) (p : string * pkind) : bool := negb (in_dom m (fst p)).

Lemma lookup_pa_filter m z : forall pa,
  lookup_pa z (filter (keepq m) pa) = if in_dom m z then None else lookup_pa z pa.
Proof.
  induction pa as [|[[x k] e] pa IH]; cbn [filter lookup_pa]; [now destruct (in_dom m z)|].
  unfold keepq at 1. cbn [fst]. destruct (in_dom m x) eqn:Ex; cbn [negb lookup_pa].
  - destruct (String.eqb x z) eqn:E; [|exact IH].
    apply String.eqb_eq in E. subst x. rewrite IH, Ex. reflexivity.
  - destruct (String.eqb x z) eqn:E; [|exact IH].
    apply String.eqb_eq in E. subst x. now rewrite Ex.
Qed.

Lemma filter_combine_fst m : forall ps args, List.length args = List.length ps ->
  map fst (filter (keepq m) (combine ps args)) = filter (keepp m) ps.
Proof.
  induction ps as [|[x k] ps IH]; intros [|e args] Hlen; cbn [List.length] in Hlen; try discriminate; [reflexivity|].
  cbn [combine filter]. unfold keepq at 1, keepp at 1. cbn [fst].
  destruct (negb (in_dom m x)); cbn [map fst]; rewrite IH by lia; reflexivity.
Qed.

Lemma combine_fst_snd {A B} (l : list (A * B)) : combine (map fst l) (map snd l) = l.
Proof. induction l as [|[a b] l IH]; cbn; [reflexivity|]. now rewrite IH. Qed.

Lemma forallb_filter {A} (f g : A -> bool) l : forallb f l = true -> forallb f (filter g l) = true.
Proof.
  rewrite !forallb_forall. intros H x Hx. apply filter_In in Hx. apply H. tauto.
Qed.

Lemma forallb_filter_cover {A} (f kp : A -> bool) l :
  (forall q, In q l -> kp q = false -> exists q', In q' l /\ kp q' = true /\ f q = f q') ->
  forallb f (filter kp l) = forallb f l.
Proof.
  intros H. destruct (forallb f l) eqn:E.
  - now apply forallb_filter.
  - destruct (forallb f (filter kp l)) eqn:E2; [|reflexivity].
    rewrite <- E. symmetry. rewrite forallb_forall in E2. apply forallb_forall. intros q Hq.
    destruct (kp q) eqn:K.
    + apply E2. apply filter_In. now split.
    + destruct (H q Hq K) as [q' [H1 [H2 H3]]]. rewrite H3. apply E2. apply filter_In. now split.
Qed.

Lemma init_scalars_filter d fr s (kp : (string * pkind) * expr -> bool) : forall pa s0,
  (forall q, In q pa -> kp q = false -> is_var (snd q) = true) ->
  init_scalars d fr s (filter kp pa) s0 = init_scalars d fr s pa s0.
Proof.
  induction pa as [|[[z k] e] pa IH]; intros s0 H; [reflexivity|].
  assert (H' : forall q, In q pa -> kp q = false -> is_var (snd q) = true).
  { intros q Hq. apply H. now right. }
  cbn [filter]. destruct (kp (z, k, e)) eqn:K.
  - destruct k; cbn [init_scalars].
    + apply obind_ext; [reflexivity|]. intros o. now apply IH.
    + now apply IH.
    + destruct (is_var e); [now apply IH|reflexivity].
  - specialize (H _ (or_introl eq_refl) K). cbn [snd] in H.
    destruct e; try discriminate H. rewrite (IH s0 H').
    destruct k; reflexivity.
Qed.

(** [arrays_ok] is a conjunction over the entries *)
Definition achk (fr : frame) (s : rstore) (cenv : env) (q : (string * pkind) * expr) : bool :=
  match snd (fst q) with
  | PArr dims =>
      match actual_seq fr s (snd q) with
      | Some sq => match dummy_bnd cenv sq dims with Some b => bsize b <=? sq_len sq | None => false end
      | None => false
      end
  | _ => true
  end.

Lemma arrays_ok_forallb fr s cenv pa : arrays_ok fr s cenv pa = forallb (achk fr s cenv) pa.
Proof.
  induction pa as [|[[z k] e] pa IH]; [reflexivity|].
  cbn [arrays_ok forallb]. unfold achk at 1. cbn [fst snd].
  destruct k; cbn [andb]; try exact IH.
  destruct (actual_seq fr s e) as [sq|]; [|reflexivity].
  destruct (dummy_bnd cenv sq dims); [|reflexivity]. now rewrite IH.
Qed.

(* ================================================================================================ *)
(** * 3. evaluation only depends on the names that occur *)

Definition envN (D : string -> Prop) (c1 c2 : env) : Prop :=
  (forall x, D x -> ev_var c1 x = ev_var c2 x) /\ (forall f a, ev_fun c1 f a = ev_fun c2 f a).

Lemma envN_refl D c : envN D c c.
Proof. split; reflexivity. Qed.

Lemma Forall_flat {A B} (g : A -> list B) (P : A -> Prop) (N : B -> Prop) cs :
  Forall (fun e => (forall x, In x (g e) -> N x) -> P e) cs ->
  (forall x, In x (flat_map g cs) -> N x) -> Forall P cs.
Proof.
  induction 1 as [|a l H _ IH]; intros HN; constructor.
  - apply H. intros x Hx. apply HN. cbn [flat_map]. apply in_or_app. now left.
  - apply IH. intros x Hx. apply HN. cbn [flat_map]. apply in_or_app. now right.
Qed.

Lemma evalZ_envN D c1 c2 : envN D c1 c2 ->
  forall e, (forall x, In x (names_e e) -> D x) -> evalZ c1 e = evalZ c2 e.
Proof.
  intros [Hv Hf]. induction e using expr_ind'; intros HN; try reflexivity.
  - cbn [evalZ]. rewrite Hv; [reflexivity|]. apply HN. cbn. auto.
  - cbn [evalZ]. rewrite <- (map_id cs) at 2. apply fold_sum_ext. now apply (Forall_flat names_e _ D).
  - cbn [evalZ]. rewrite <- (map_id cs) at 2. apply fold_sum_ext. now apply (Forall_flat names_e _ D).
  - cbn [evalZ]. rewrite IHe1, IHe2; [reflexivity| |];
      intros x Hx; apply HN; cbn [names_e]; apply in_or_app; auto.
  - cbn [evalZ]. rewrite IHe1, IHe2; [reflexivity| |];
      intros x Hx; apply HN; cbn [names_e]; apply in_or_app; auto.
  - rewrite !evalZ_call. apply obind_ext.
    + rewrite <- (map_id args) at 2. apply omap_list_ext. apply (Forall_flat names_e _ D); [assumption|].
      intros x Hx. apply HN. cbn [names_e]. now right.
    + intros vs. now rewrite Hf.
Qed.

Lemma expl_bnd_envN D c1 c2 len : envN D c1 c2 -> forall dims acc,
  (forall x, In x (flat_map dim_names dims) -> D x) -> expl_bnd c1 len dims acc = expl_bnd c2 len dims acc.
Proof.
  intros HE. induction dims as [|dm dims IH]; intros acc HN; [reflexivity|].
  assert (HN' : forall x, In x (flat_map dim_names dims) -> D x).
  { intros x Hx. apply HN. cbn [flat_map]. apply in_or_app. now right. }
  assert (HN0 : forall x, In x (dim_names dm) -> D x).
  { intros x Hx. apply HN. cbn [flat_map]. apply in_or_app. now left. }
  destruct dm; cbn [expl_bnd]; cbn [dim_names] in HN0.
  - rewrite (evalZ_envN D c1 c2 HE lo), (evalZ_envN D c1 c2 HE hi).
    + apply obind_ext; [reflexivity|]. intros a. apply obind_ext; [reflexivity|]. intros b. now rewrite IH.
    + intros x Hx. apply HN0. apply in_or_app. now right.
    + intros x Hx. apply HN0. apply in_or_app. now left.
  - reflexivity.
  - now rewrite (evalZ_envN D c1 c2 HE lo HN0).
Qed.

Lemma dummy_bnd_envN D c1 c2 q1 q2 dims : envN D c1 c2 -> aseq_agree q1 q2 ->
  (forall x, In x (flat_map dim_names dims) -> D x) -> dummy_bnd c1 q1 dims = dummy_bnd c2 q2 dims.
Proof.
  intros HE [_ [Hlen [Hext _]]] HN. unfold dummy_bnd. rewrite Hlen, Hext.
  now rewrite (expl_bnd_envN D c1 c2 (sq_len q2) HE dims 1 HN).
Qed.

Definition bnds_names (bs : list (expr * expr)) : list string :=
  flat_map (fun b => names_e (fst b) ++ names_e (snd b)) bs.

Lemma eval_bnds_envN D c1 c2 : envN D c1 c2 -> forall bs,
  (forall x, In x (bnds_names bs) -> D x) -> eval_bnds c1 bs = eval_bnds c2 bs.
Proof.
  intros HE. induction bs as [|[lo hi] bs IH]; intros HN; [reflexivity|].
  cbn [eval_bnds]. rewrite (evalZ_envN D c1 c2 HE lo), (evalZ_envN D c1 c2 HE hi), IH; [reflexivity| | |].
  - intros x Hx. apply HN. unfold bnds_names. cbn [flat_map]. apply in_or_app. now right.
  - intros x Hx. apply HN. unfold bnds_names. cbn [flat_map fst snd]. rewrite !in_app_iff. tauto.
  - intros x Hx. apply HN. unfold bnds_names. cbn [flat_map fst snd]. rewrite !in_app_iff. tauto.
Qed.

Definition arrs_names (arrs : list (string * list (expr * expr))) : list string :=
  flat_map (fun l => bnds_names (snd l)) arrs.

Lemma locals_ok_envN D c1 c2 : envN D c1 c2 -> forall arrs,
  (forall x, In x (arrs_names arrs) -> D x) -> locals_ok c1 arrs = locals_ok c2 arrs.
Proof.
  intros HE. induction arrs as [|[z bs] arrs IH]; intros HN; [reflexivity|].
  cbn [locals_ok]. rewrite (eval_bnds_envN D c1 c2 HE bs), IH; [reflexivity| |].
  - intros x Hx. apply HN. unfold arrs_names. cbn [flat_map]. apply in_or_app. now right.
  - intros x Hx. apply HN. unfold arrs_names. cbn [flat_map snd]. apply in_or_app. now left.
Qed.

Lemma local_aref_envN D d c1 c2 arrs z : envN D c1 c2 ->
  (forall x, In x (arrs_names arrs) -> D x) -> local_aref d c1 arrs z = local_aref d c2 arrs z.
Proof.
  intros HE HN. unfold local_aref. destruct (assoc_s arrs z) as [bs|] eqn:E; [|reflexivity].
  rewrite (eval_bnds_envN D c1 c2 HE bs); [reflexivity|].
  intros x Hx. apply HN. unfold arrs_names. apply in_flat_map. exists (z, bs). split; [now apply assoc_s_In|exact Hx].
Qed.

Lemma expl_bounds_names ds x : In x (bnds_names (expl_bounds ds)) -> In x (flat_map dim_names ds).
Proof.
  induction ds as [|dm ds IH]; [intros []|].
  destruct dm; cbn [expl_bounds]; try (intros []).
  unfold bnds_names. cbn [flat_map fst snd dim_names]. rewrite !in_app_iff. intros [H|H]; [now left|].
  right. now apply IH.
Qed.

(* ================================================================================================ *)
(** * 4. binding with related caller frames and callee environments that agree on the dimension names *)

Definition norecb (q : string * pkind) : bool := match snd q with PRec _ => false | _ => true end.
Definition params_dim_names (ps : list (string * pkind)) : list string :=
  flat_map (fun p => kind_dim_names (snd p)) ps.

Section BindN.
  Variable r : string -> string.
  Variable N : string -> Prop.
  Variables fr1 fr2 : frame.
  Variable s : rstore.
  Hypothesis Hok : ren_ok r.
  Hypothesis Hrel : frel r N fr1 fr2.
  Variables c1 c2 : env.
  Variable D : string -> Prop.
  Hypothesis HE : envN D c1 c2.

  Lemma ren_arrays_ok_N ps : forall args, (forall x, In x (flat_map names_e args) -> N x) ->
    (forall x, In x (params_dim_names ps) -> D x) ->
    arrays_ok fr1 s c1 (combine ps args) = arrays_ok fr2 s c2 (combine ps (map (ren_e r) args)).
  Proof.
    induction ps as [|[z k] ps IH]; intros [|e args] HN HD; cbn [combine map arrays_ok]; try reflexivity.
    assert (HD' : forall x, In x (params_dim_names ps) -> D x).
    { intros x Hx. apply HD. unfold params_dim_names. cbn [flat_map]. apply in_or_app. now right. }
    pose proof (IH args (NL_tail N e args HN) HD') as IHa.
    destruct k; try exact IHa.
    pose proof (ren_actual_seq r N fr1 fr2 s Hok Hrel e (NL_head N e args HN)) as Hq.
    destruct (actual_seq fr1 s e) as [q1|]; destruct (actual_seq fr2 s (ren_e r e)) as [q2|];
      try contradiction; [|reflexivity].
    cbn [oaseq_agree] in Hq. rewrite (dummy_bnd_envN D c1 c2 q1 q2 dims HE Hq).
    2:{ intros x Hx. apply HD. unfold params_dim_names. cbn [flat_map snd kind_dim_names]. apply in_or_app. now left. }
    destruct (dummy_bnd c2 q2 dims); [|reflexivity].
    destruct Hq as [_ [Hlen _]]. now rewrite Hlen, IHa.
  Qed.

  Lemma ren_callee_fa_N d ps args arrs z :
    forallb norecb ps = true -> (forall x, In x (flat_map names_e args) -> N x) ->
    (forall x, In x (params_dim_names ps) -> D x) -> (forall x, In x (arrs_names arrs) -> D x) ->
    aref_agree (callee_fa d fr1 s c1 (combine ps args) arrs z)
               (callee_fa d fr2 s c2 (combine ps (map (ren_e r) args)) arrs z).
  Proof.
    intros Hnr HN HD HA. unfold callee_fa. rewrite lookup_pa_ren, !forward_root_none by exact Hnr.
    destruct (lookup_pa z (combine ps args)) as [[k e]|] eqn:E; cbn [option_map fst snd].
    - destruct k; try apply aref_agree_refl.
      pose proof (lookup_pa_in z ps args _ _ E) as [He Hk].
      assert (HNe : forall x, In x (names_e e) -> N x) by (apply (NL_in N e args HN He)).
      pose proof (ren_actual_seq r N fr1 fr2 s Hok Hrel e HNe) as Hq.
      destruct (actual_seq fr1 s e) as [q1|]; destruct (actual_seq fr2 s (ren_e r e)) as [q2|];
        try contradiction; [|apply aref_agree_refl].
      cbn [oaseq_agree] in Hq. rewrite (dummy_bnd_envN D c1 c2 q1 q2 dims HE Hq).
      2:{ intros x Hx. apply HD. unfold params_dim_names. apply in_flat_map. exists (z, PArr dims). now split. }
      destruct (dummy_bnd c2 q2 dims); [|apply aref_agree_refl].
      now apply mk_aref_agree.
    - rewrite (local_aref_envN D d c1 c2 arrs z HE HA). apply aref_agree_refl.
  Qed.
End BindN.

(* ================================================================================================ *)
(** * 5. [bind] before and after the removal of the merged dummies *)

Lemma aref_agree_sym a b : aref_agree a b -> aref_agree b a.
Proof. intros [A [B C]]. repeat split; try (symmetry; assumption). intros i. symmetry. apply C. Qed.

Lemma aref_agree_trans a b c : aref_agree a b -> aref_agree b c -> aref_agree a c.
Proof.
  intros [A [B C]] [A' [B' C']]. repeat split; try (etransitivity; eassumption).
  intros i. now rewrite C, C'.
Qed.

Lemma var_seq_agree fr1 fr2 s1 s2 a1 a2 : aref_agree (fa fr1 a1) (fa fr2 a2) ->
  exists q1 q2, actual_seq fr1 s1 (EVar a1) = Some q1 /\ actual_seq fr2 s2 (EVar a2) = Some q2 /\ aseq_agree q1 q2.
Proof.
  intros [A [B C]]. cbn [actual_seq]. eexists. eexists. split; [reflexivity|]. split; [reflexivity|].
  rewrite <- A, <- B. apply mk_aseq_agree. intros o. apply C.
Qed.

Lemma achk_var_agree fr s c z1 z2 dims b1 b2 : aref_agree (fa fr b1) (fa fr b2) ->
  achk fr s c ((z1, PArr dims), EVar b1) = achk fr s c ((z2, PArr dims), EVar b2).
Proof.
  intros H. destruct (var_seq_agree fr fr s s b1 b2 H) as [q1 [q2 [E1 [E2 Hq]]]].
  unfold achk. cbn [fst snd]. rewrite E1, E2.
  rewrite (dummy_bnd_envN (fun _ => True) c c q1 q2 dims (envN_refl _ c) Hq (fun _ _ => I)).
  destruct (dummy_bnd c q2 dims); [|reflexivity].
  destruct Hq as [_ [Hl _]]. now rewrite Hl.
Qed.

Section Dedup.
  Variable m : rmap.
  Variable params : list (string * pkind).
  Variable arrs : list (string * list (expr * expr)).
  Hypothesis Hnr : forallb norecb params = true.
  Hypothesis Hnd : nodup_s (map fst params) = true.
  Hypothesis HM1 : forall y x, In (y, x) m ->
    in_dom m x = false /\ exists k, assoc_s params y = Some k /\ assoc_s params x = Some k.
  Hypothesis HMp : forall x, In x (params_dim_names params) -> in_dom m x = false.
  Hypothesis HMa : forall x, In x (arrs_names arrs) -> in_dom m x = false.

  Variable r : string -> string.
  Variables fr1 fr2 : frame.
  Variable s : rstore.
  Variable args : list expr.
  Hypothesis Hok : ren_ok r.
  Hypothesis Hlen : List.length args = List.length params.
  Hypothesis Hsite : forall y x, In (y, x) m -> exists ky b kx c,
     lookup_pa y (combine params args) = Some (ky, EVar b) /\
     lookup_pa x (combine params args) = Some (kx, EVar c) /\ r b = r c.
  Let N (x : string) : Prop := In x (flat_map names_e args).
  Hypothesis Hrel : frel r N fr1 fr2.

  Let pa1 := combine params args.
  Let F := filter (keepq m) pa1.
  Let ps2 := map fst F.
  Let a2 := map snd F.
  Let D (x : string) : Prop := in_dom m x = false.

  Lemma N_var b : In (EVar b) args -> N b.
  Proof. intros H. unfold N. apply in_flat_map. exists (EVar b). split; [exact H|]. cbn. auto. Qed.

  Lemma norec_params z k : In (z, k) params -> match k with PRec _ => False | _ => True end.
  Proof.
    intros H. rewrite forallb_forall in Hnr. apply Hnr in H. unfold norecb in H. cbn [snd] in H.
    destruct k; [exact I|exact I|discriminate H].
  Qed.

  (** a merged dummy and the dummy it is merged into: same kind, actuals are variables with the same image *)
  Lemma merged z : in_dom m z = true -> exists x k b c,
    rn m z = x /\ in_dom m x = false /\ lookup_pa z pa1 = Some (k, EVar b) /\ lookup_pa x pa1 = Some (k, EVar c) /\
    r b = r c /\ N b /\ N c.
  Proof.
    intros Hz. destruct (in_dom_In m z Hz) as [x [Hin Hrn]].
    destruct (HM1 z x Hin) as [Hx [k0 [K1 K2]]].
    destruct (Hsite z x Hin) as [ky [b [kx [c [L1 [L2 Hbc]]]]]].
    pose proof (lookup_pa_assoc _ _ _ _ _ L1) as A1. pose proof (lookup_pa_assoc _ _ _ _ _ L2) as A2.
    rewrite K1 in A1. rewrite K2 in A2. injection A1 as <-. injection A2 as <-.
    exists x, k0, b, c. repeat split; try assumption.
    - apply N_var. now apply lookup_pa_in in L1.
    - apply N_var. now apply lookup_pa_in in L2.
  Qed.

  Lemma dropped z k e : In ((z, k), e) pa1 -> in_dom m z = true -> exists x b c,
    e = EVar b /\ in_dom m x = false /\ lookup_pa x pa1 = Some (k, EVar c) /\ r b = r c /\ N b /\ N c.
  Proof.
    intros Hin Hz. destruct (merged z Hz) as [x [k' [b [c [_ [Hx [L1 [L2 [Hbc [Nb Nc]]]]]]]]]].
    pose proof (lookup_pa_nodup z k e params args Hnd Hin) as L. fold pa1 in L. rewrite L1 in L.
    injection L as Hk He. subst k' e. exists x, b, c. repeat split; assumption.
  Qed.

  Lemma Eps2 : filter (keepp m) params = ps2.
  Proof. symmetry. apply filter_combine_fst. exact Hlen. Qed.

  Lemma EF : combine ps2 a2 = F.
  Proof. apply combine_fst_snd. Qed.

  Lemma HNa2 : forall x, In x (flat_map names_e a2) -> N x.
  Proof.
    intros x Hx. unfold N. apply in_flat_map in Hx. destruct Hx as [e [He Hx]].
    apply in_flat_map. exists e. split; [|exact Hx].
    unfold a2 in He. apply in_map_iff in He. destruct He as [[p e'] [E He]]. cbn [snd] in E. subst e'.
    unfold F in He. apply filter_In in He. destruct He as [He _]. now apply in_combine_r in He.
  Qed.

  Lemma Hnr2 : forallb norecb ps2 = true.
  Proof. rewrite <- Eps2. now apply forallb_filter. Qed.

  Lemma HD2 : forall x, In x (params_dim_names ps2) -> D x.
  Proof.
    intros x Hx. apply HMp. rewrite <- Eps2 in Hx. unfold params_dim_names in *.
    apply in_flat_map in Hx. destruct Hx as [p [Hp Hx]]. apply filter_In in Hp.
    apply in_flat_map. exists p. tauto.
  Qed.

  Lemma lookup_F z : lookup_pa z (combine ps2 a2) = if in_dom m z then None else lookup_pa z pa1.
  Proof. rewrite EF. unfold F. apply lookup_pa_filter. Qed.

  Lemma lookup_pa2 z : lookup_pa z (combine ps2 (map (ren_e r) a2)) =
    if in_dom m z then None else option_map (fun ke => (fst ke, ren_e r (snd ke))) (lookup_pa z pa1).
  Proof. rewrite lookup_pa_ren, lookup_F. now destruct (in_dom m z). Qed.

  Lemma fs_out d z : in_dom m z = false ->
    callee_fs d fr1 s pa1 z = callee_fs d fr2 s (combine ps2 (map (ren_e r) a2)) z.
  Proof.
    intros Hz. rewrite <- (ren_callee_fs r N fr1 fr2 s Hok Hrel d ps2 a2 z Hnr2 HNa2).
    unfold callee_fs. unfold pa1 at 2. rewrite (forward_root_none params args z Hnr), (forward_root_none ps2 a2 z Hnr2).
    rewrite lookup_F, Hz. reflexivity.
  Qed.

  Lemma cenv_N d s0 : envN D (scal_env (callee_fs d fr1 s pa1) s0)
                             (scal_env (callee_fs d fr2 s (combine ps2 (map (ren_e r) a2))) s0).
  Proof.
    split; [|reflexivity]. intros x Hx. cbn [scal_env ev_var]. now rewrite (fs_out d x Hx).
  Qed.

  Lemma init_eq d s0 :
    init_scalars d fr1 s pa1 s0 = init_scalars d fr2 s (combine ps2 (map (ren_e r) a2)) s0.
  Proof.
    rewrite <- (ren_init_scalars r N fr1 fr2 s Hok Hrel d ps2 a2 s0 HNa2). rewrite EF. unfold F.
    symmetry. apply init_scalars_filter. intros [[z k] e] Hq K.
    unfold keepq in K. cbn [fst] in K. apply negb_false_iff in K.
    destruct (dropped z k e Hq K) as [x [b [c [-> _]]]]. reflexivity.
  Qed.

  Lemma arrays_eq c1 c2 : envN D c1 c2 ->
    arrays_ok fr1 s c1 pa1 = arrays_ok fr2 s c2 (combine ps2 (map (ren_e r) a2)).
  Proof.
    intros HE. rewrite <- (ren_arrays_ok_N r N fr1 fr2 s Hok Hrel c1 c2 D HE ps2 a2 HNa2 HD2).
    rewrite EF, !arrays_ok_forallb. unfold F. symmetry. apply forallb_filter_cover.
    intros [[z k] e] Hq K. unfold keepq in K. cbn [fst] in K. apply negb_false_iff in K.
    destruct (dropped z k e Hq K) as [x [b [c [-> [Hx [L [Hbc [Nb Nc]]]]]]]].
    exists ((x, k), EVar c). split; [now apply lookup_pa_In|]. split.
    - unfold keepq. cbn [fst]. now rewrite Hx.
    - destruct k; try reflexivity. apply achk_var_agree.
      destruct (Hrel b Nb) as [_ Hb]. destruct (Hrel c Nc) as [_ Hc]. rewrite Hbc in Hb.
      apply (aref_agree_trans _ _ _ Hb). now apply aref_agree_sym.
  Qed.

  Lemma fs_rel d z :
    callee_fs d fr1 s pa1 z = callee_fs d fr2 s (combine ps2 (map (ren_e r) a2)) (rn m z).
  Proof.
    destruct (in_dom m z) eqn:Hz.
    - destruct (merged z Hz) as [x [k [b [c [-> [Hx [L1 [L2 [Hbc [Nb Nc]]]]]]]]]].
      unfold callee_fs at 2. rewrite lookup_pa2, Hx, L2. unfold callee_fs. rewrite L1.
      cbn [option_map fst snd ren_e]. destruct k.
      + cbn [sref_of]. rewrite <- Hbc. now apply Hrel.
      + reflexivity.
      + apply lookup_pa_in in L1. destruct L1 as [_ L1]. destruct (norec_params _ _ L1).
    - rewrite (rn_out m z Hz). now apply fs_out.
  Qed.

  Lemma fa_rel d c1 c2 z : envN D c1 c2 ->
    aref_agree (callee_fa d fr1 s c1 pa1 arrs z)
               (callee_fa d fr2 s c2 (combine ps2 (map (ren_e r) a2)) arrs (rn m z)).
  Proof.
    intros HE. destruct (in_dom m z) eqn:Hz.
    - destruct (merged z Hz) as [x [k [b [c [-> [Hx [L1 [L2 [Hbc [Nb Nc]]]]]]]]]].
      unfold callee_fa at 2. rewrite lookup_pa2, Hx, L2. unfold callee_fa. rewrite L1.
      cbn [option_map fst snd ren_e]. destruct k.
      + apply aref_agree_refl.
      + assert (Hbc' : aref_agree (fa fr1 b) (fa fr2 (r c))).
        { rewrite <- Hbc. now apply Hrel. }
        destruct (var_seq_agree fr1 fr2 s s b (r c) Hbc') as [q1 [q2 [E1 [E2 Hq]]]].
        rewrite E1, E2. rewrite (dummy_bnd_envN D c1 c2 q1 q2 dims HE Hq).
        * destruct (dummy_bnd c2 q2 dims); [now apply mk_aref_agree|apply aref_agree_refl].
        * intros y Hy. apply HMp. unfold params_dim_names. apply in_flat_map. exists (z, PArr dims).
          split; [|exact Hy]. now apply lookup_pa_in in L1.
      + apply lookup_pa_in in L1. destruct L1 as [_ L1]. destruct (norec_params _ _ L1).
    - rewrite (rn_out m z Hz).
      apply (aref_agree_trans _ (callee_fa d fr1 s c1 (combine ps2 a2) arrs z)).
      + unfold callee_fa. unfold pa1 at 2.
        rewrite (forward_root_none params args z Hnr), (forward_root_none ps2 a2 z Hnr2).
        rewrite lookup_F, Hz. apply aref_agree_refl.
      + apply (ren_callee_fa_N r N fr1 fr2 s Hok Hrel c1 c2 D HE d ps2 a2 arrs z Hnr2 HNa2 HD2 HMa).
  Qed.

  Lemma bind_dedup d p1 p2 :
    rp_params p1 = params -> rp_arrays p1 = arrs ->
    rp_params p2 = filter (keepp m) params -> rp_arrays p2 = arrs ->
    match bind d fr1 s p1 args, bind d fr2 s p2 (map (ren_e r) (drop_args m params args)) with
    | Some c1, Some c2 => snd c1 = snd c2 /\ frel (rn m) (fun _ => True) (fst c1) (fst c2)
    | None, None => True
    | _, _ => False
    end.
  Proof.
    intros E1 E2 E3 E4. unfold bind. rewrite E1, E2, E3, E4.
    change (drop_args m params args) with a2. rewrite Eps2, map_length.
    assert (Hl2 : List.length a2 = List.length ps2) by (unfold a2, ps2; now rewrite !map_length).
    rewrite Hlen, Hl2, !Nat.eqb_refl. cbn [negb]. fold pa1.
    rewrite <- (init_eq d (clear_depth d s)).
    destruct (init_scalars d fr1 s pa1 (clear_depth d s)) as [s0|]; cbn [obind]; [|exact I].
    pose proof (cenv_N d s0) as HE.
    rewrite <- (arrays_eq _ _ HE), <- (locals_ok_envN D _ _ HE arrs HMa).
    destruct (arrays_ok fr1 s _ pa1 && locals_ok _ arrs); [|exact I].
    cbn [fst snd]. split; [reflexivity|]. intros z _. cbn [fs fa]. split.
    - apply fs_rel.
    - now apply fa_rel.
  Qed.
End Dedup.

(* ================================================================================================ *)
(** * 6. tables, plans, reflection of the boolean side conditions *)

Lemma find_rproc_to_rprocs t g : find_rproc (to_rprocs t) g = option_map to_rproc (find_unit t g).
Proof.
  unfold to_rprocs. induction t as [|u t IH]; [reflexivity|].
  cbn [map find_rproc find_unit]. destruct (String.eqb (u_name u) g); [reflexivity|exact IH].
Qed.

Lemma find_unit_map (f : unit -> unit) : (forall u, u_name (f u) = u_name u) ->
  forall t g, find_unit (map f t) g = option_map f (find_unit t g).
Proof.
  intros Hf. induction t as [|u t IH]; intros g; [reflexivity|].
  cbn [map find_unit]. rewrite Hf. destruct (String.eqb (u_name u) g); [reflexivity|apply IH].
Qed.

Lemma find_unit_In t g u : find_unit t g = Some u -> In u t /\ u_name u = g.
Proof.
  induction t as [|v t IH]; cbn [find_unit]; [discriminate|].
  destruct (String.eqb (u_name v) g) eqn:E.
  - intros H. injection H as ->. apply String.eqb_eq in E. split; [now left|exact E].
  - intros H. destruct (IH H). split; [now right|assumption].
Qed.

Definition new_unit (pl : plan) (t : table) (u : unit) : unit :=
  {| u_name := u_name u;
     u_params := filter (keepp (plan_of pl (u_name u))) (u_params u);
     u_locals := u_locals u;
     u_body := ren (rn (plan_of pl (u_name u))) (tcalls (plan_tc pl t) (u_body u)) |}.

Lemma apply_plan_map pl t : apply_plan pl t = map (new_unit pl t) t.
Proof. reflexivity. Qed.

Lemma find_unit_apply_plan pl t g :
  find_unit (apply_plan pl t) g = option_map (new_unit pl t) (find_unit t g).
Proof. rewrite apply_plan_map. apply find_unit_map. reflexivity. Qed.

(** the Prop form of [site_okb], with the caller's renaming as a function *)
Definition site_okP (pl : plan) (t : table) (r : string -> string) (g : string) (args : list expr) : Prop :=
  match find_unit t g with
  | None => True
  | Some u =>
      List.length args = List.length (u_params u) /\
      forall y x, In (y, x) (plan_of pl g) -> exists ky b kx c,
        lookup_pa y (combine (u_params u) args) = Some (ky, EVar b) /\
        lookup_pa x (combine (u_params u) args) = Some (kx, EVar c) /\ r b = r c
  end.

Lemma site_okb_P pl t mc g args : site_okb pl t mc g args = true -> site_okP pl t (rn mc) g args.
Proof.
  unfold site_okb, site_okP. destruct (find_unit t g) as [u|]; [|trivial].
  intros H. apply andb_prop in H. destruct H as [H1 H2]. split; [now apply Nat.eqb_eq|].
  intros y x Hin. rewrite forallb_forall in H2. specialize (H2 _ Hin). cbn [fst snd] in H2.
  destruct (lookup_pa y (combine (u_params u) args)) as [[ky ey]|]; [|discriminate H2].
  destruct ey; try discriminate H2.
  destruct (lookup_pa x (combine (u_params u) args)) as [[kx ex]|]; [|discriminate H2].
  destruct ex; try discriminate H2.
  apply String.eqb_eq in H2. exists ky, x0, kx, x1. repeat split. exact H2.
Qed.

Lemma sitesb_go P b :
  (fix go (l : list stmt) : bool := match l with [] => true | x :: r => sitesb_s P x && go r end) b = sitesb P b.
Proof. induction b as [|x b IH]; [reflexivity|]. cbn [sitesb]. rewrite <- IH. reflexivity. Qed.

Lemma sitesb_s_do P v lo hi stp b : sitesb_s P (SDo v lo hi stp b) = sitesb P b.
Proof. exact (sitesb_go P b). Qed.
Lemma sitesb_s_while P c b : sitesb_s P (SWhile c b) = sitesb P b.
Proof. exact (sitesb_go P b). Qed.
Lemma sitesb_s_if P c t e : sitesb_s P (SIf c t e) = sitesb P t && sitesb P e.
Proof. rewrite <- !sitesb_go. reflexivity. Qed.

Lemma sitesb_list Pb (P : string -> list expr -> Prop) b :
  Forall (fun st => sitesb_s Pb st = true -> sites_s P st) b -> sitesb Pb b = true -> sites P b.
Proof.
  induction 1 as [|st b H _ IH]; cbn [sitesb sites]; intros E; [exact I|].
  apply andb_prop in E. destruct E as [E1 E2]. split; [now apply H|now apply IH].
Qed.

Lemma sitesb_s_sites Pb (P : string -> list expr -> Prop) : (forall g a, Pb g a = true -> P g a) ->
  forall st, sitesb_s Pb st = true -> sites_s P st.
Proof.
  intros HP. induction st using stmt_ind'; intros E; try exact I.
  - rewrite sitesb_s_do in E. rewrite sites_s_do. now apply (sitesb_list Pb P).
  - rewrite sitesb_s_while in E. rewrite sites_s_while. now apply (sitesb_list Pb P).
  - rewrite sitesb_s_if in E. apply andb_prop in E. destruct E as [E1 E2]. rewrite sites_s_if.
    split; now apply (sitesb_list Pb P).
  - apply HP. exact E.
Qed.

Lemma sitesb_sites Pb (P : string -> list expr -> Prop) : (forall g a, Pb g a = true -> P g a) ->
  forall ss, sitesb Pb ss = true -> sites P ss.
Proof.
  intros HP ss. apply sitesb_list. apply Forall_forall. intros st _. now apply sitesb_s_sites.
Qed.

Lemma rmap_okb_spec u m : rmap_okb u m = true ->
  (forall y x, In (y, x) m -> reserved y = false /\ reserved x = false /\ in_dom m x = false /\
      exists k, assoc_s (u_params u) y = Some k /\ assoc_s (u_params u) x = Some k) /\
  (forall z, In z (unit_dim_names u) -> in_dom m z = false).
Proof.
  unfold rmap_okb. intros H. apply andb_prop in H. destruct H as [H H3].
  apply andb_prop in H. destruct H as [H1 _]. split.
  - intros y x Hin. rewrite forallb_forall in H1. specialize (H1 _ Hin). cbn [fst snd] in H1.
    apply andb_prop in H1. destruct H1 as [H1 K]. apply andb_prop in H1. destruct H1 as [H1 Hd].
    apply andb_prop in H1. destruct H1 as [Ry Rx].
    apply negb_true_iff in Ry. apply negb_true_iff in Rx. apply negb_true_iff in Hd.
    destruct (assoc_s (u_params u) y) as [ky|]; [|discriminate K].
    destruct (assoc_s (u_params u) x) as [kx|]; [|discriminate K].
    apply andb_prop in K. destruct K as [K _]. apply pkind_eqb_eq in K. subst kx.
    repeat split; try assumption. now exists ky.
  - intros z Hz. rewrite forallb_forall in H3. apply H3 in Hz. now apply negb_true_iff in Hz.
Qed.

Lemma ren_ok_rn m : (forall y x, In (y, x) m -> reserved y = false /\ reserved x = false) -> ren_ok (rn m).
Proof.
  intros H f. unfold rn. destruct (assoc_s m f) as [v|] eqn:E.
  - apply assoc_s_In in E. destruct (H _ _ E) as [A B]. split; [now rewrite A, B|].
    intros C. rewrite A in C. discriminate C.
  - split; [reflexivity|]. intros _. reflexivity.
Qed.

Lemma arrs_names_unit u x :
  In x (arrs_names (rp_arrays (to_rproc u))) -> In x (unit_dim_names u).
Proof.
  unfold arrs_names, unit_dim_names. cbn [to_rproc rp_arrays]. intros H.
  apply in_flat_map in H. destruct H as [l [Hl Hx]]. apply in_map_iff in Hl. destruct Hl as [l0 [<- Hl0]].
  cbn [snd] in Hx. apply expl_bounds_names in Hx. apply in_or_app. right.
  apply in_flat_map. exists l0. now split.
Qed.

(* ================================================================================================ *)
(** * 7. the theorem *)

Theorem dedup_args_preserves pl t : plan_okb pl t = true ->
  forall f d fr ss s, sitesb (site_okb pl t []) ss = true ->
  rexec (to_rprocs t) f d fr ss s = rexec (to_rprocs (apply_plan pl t)) f d fr (tcalls (plan_tc pl t) ss) s.
Proof.
  intros Hpl f d fr ss s Hss.
  assert (Hunit : forall g u, find_unit t g = Some u ->
            u_name u = g /\ no_rec (to_rproc u) = true /\ nodup_s (map fst (u_params u)) = true /\
            rmap_okb u (plan_of pl g) = true /\ sitesb (site_okb pl t (plan_of pl g)) (u_body u) = true).
  { intros g u E. destruct (find_unit_In t g u E) as [Hin Hname]. subst g.
    unfold plan_okb in Hpl. rewrite forallb_forall in Hpl. specialize (Hpl u Hin). unfold unit_okb in Hpl.
    apply andb_prop in Hpl. destruct Hpl as [Hpl H4]. apply andb_prop in Hpl. destruct Hpl as [Hpl H3].
    apply andb_prop in Hpl. destruct Hpl as [H1 H2]. repeat split; assumption. }
  rewrite <- (ren_id (tcalls (plan_tc pl t) ss)).
  apply (coupled_sim (to_rprocs t) (to_rprocs (apply_plan pl t)) (fun g => rn (plan_of pl g)) (plan_tc pl t)
                     (site_okP pl t) (fun _ _ => True)).
  - (* the two tables *)
    intros g. rewrite !find_rproc_to_rprocs, find_unit_apply_plan.
    destruct (find_unit t g) as [u|] eqn:E; cbn [option_map]; [|exact I].
    destruct (Hunit g u E) as [Hname [Hnr [Hnd [Hm Hs]]]].
    destruct (rmap_okb_spec u _ Hm) as [HM1 HM3].
    split; [|split].
    + cbn [to_rproc new_unit rp_body u_body]. now rewrite Hname.
    + apply ren_ok_rn. intros y x Hin. destruct (HM1 y x Hin) as [A [B _]]. now split.
    + cbn [to_rproc rp_body]. revert Hs. apply sitesb_sites. intros g0 a. apply site_okb_P.
  - (* bind *)
    intros g p1 p2 d0 fr1 fr2 r args s0 E1 E2 Hok Hsite Hrel _.
    rewrite find_rproc_to_rprocs in E1. rewrite find_rproc_to_rprocs, find_unit_apply_plan in E2.
    unfold site_okP in Hsite. unfold plan_tc.
    destruct (find_unit t g) as [u|] eqn:E; cbn [option_map] in E1, E2; [|discriminate E1].
    injection E1 as <-. injection E2 as <-.
    destruct (Hunit g u E) as [Hname [Hnr [Hnd [Hm Hs]]]].
    destruct (rmap_okb_spec u _ Hm) as [HM1 HM3]. destruct Hsite as [Hlen Hsite].
    assert (Hrel' : frel r (fun x => In x (flat_map names_e args)) fr1 fr2).
    { revert Hrel. apply frel_weaken. intros x Hx. now left. }
    assert (HM1' : forall y x, In (y, x) (plan_of pl g) -> in_dom (plan_of pl g) x = false /\
               exists k, assoc_s (u_params u) y = Some k /\ assoc_s (u_params u) x = Some k).
    { intros y x Hin. destruct (HM1 y x Hin) as [_ [_ [A B]]]. now split. }
    assert (HMp : forall x, In x (params_dim_names (u_params u)) -> in_dom (plan_of pl g) x = false).
    { intros x Hx. apply HM3. unfold unit_dim_names. apply in_or_app. now left. }
    assert (HMa : forall x, In x (arrs_names (rp_arrays (to_rproc u))) -> in_dom (plan_of pl g) x = false).
    { intros x Hx. apply HM3. now apply arrs_names_unit. }
    assert (E3 : rp_params (to_rproc (new_unit pl t u)) = filter (keepp (plan_of pl g)) (u_params u)).
    { cbn [to_rproc new_unit rp_params u_params]. now rewrite Hname. }
    pose proof (bind_dedup (plan_of pl g) (u_params u) (rp_arrays (to_rproc u)) Hnr Hnd HM1' HMp HMa
                           r fr1 fr2 s0 args Hok Hlen Hsite Hrel' d0 (to_rproc u) (to_rproc (new_unit pl t u))
                           eq_refl eq_refl E3 eq_refl) as HB.
    destruct (bind d0 fr1 s0 (to_rproc u) args) as [c1|];
      destruct (bind d0 fr2 s0 (to_rproc (new_unit pl t u)) (map (ren_e r) (drop_args (plan_of pl g) (u_params u) args))) as [c2|];
      try contradiction; [|exact I].
    destruct HB as [HB1 HB2]. split; [exact HB1|]. split; [|exact I].
    revert HB2. apply frel_weaken. intros; exact I.
  - apply ren_ok_id.
  - revert Hss. apply sitesb_sites. intros g a H. apply site_okb_P in H. exact H.
  - intros x _. split; [reflexivity|apply aref_agree_refl].
  - exact I.
Qed.

(* ================================================================================================ *)
(** * 8. the renaming the code performs *)

(** the renaming the code performs ([renl], which misses names inside the subscripts of a renamed array) is the
    plain renaming when no renamed array has a renamed name in its subscripts *)
Fixpoint clean_e (m : rmap) (e : expr) : bool :=
  match e with
  | ESum _ cs | EProd _ cs | EAnd cs | EOr cs => forallb (clean_e m) cs
  | EQuot _ a b | EPow _ a b | ECmp _ a b => clean_e m a && clean_e m b
  | ENot a => clean_e m a
  | ECall f args => (if in_dom m f then forallb (fun x => negb (in_dom m x)) (flat_map names_e args) else true) && forallb (clean_e m) args
  | _ => true
  end.
Fixpoint clean_s (m : rmap) (st : stmt) : bool :=
  match st with
  | SAssign _ e => clean_e m e
  | SStore a i e => (if in_dom m a then forallb (fun x => negb (in_dom m x)) (flat_map names_e i) else true) && forallb (clean_e m) i && clean_e m e
  | SDo _ lo hi stp b => clean_e m lo && clean_e m hi && (match stp with Some e => clean_e m e | None => true end) && forallb (clean_s m) b
  | SWhile c b => clean_e m c && forallb (clean_s m) b
  | SIf c tb eb => clean_e m c && forallb (clean_s m) tb && forallb (clean_s m) eb
  | SCall _ a => forallb (clean_e m) a
  | SSkip _ => true
  end.

Lemma map_ext_clean {A} (cl : A -> bool) (f g : A -> A) l :
  Forall (fun a => cl a = true -> f a = g a) l -> forallb cl l = true -> map f l = map g l.
Proof.
  induction 1 as [|a l H _ IH]; cbn [forallb map]; intros E; [reflexivity|].
  apply andb_prop in E. destruct E as [E1 E2]. now rewrite H, IH.
Qed.

Lemma ren_e_fix r e : (forall x, In x (names_e e) -> r x = x) -> ren_e r e = e.
Proof.
  induction e using expr_ind'; intros HN; cbn [ren_e]; try reflexivity.
  - rewrite HN; [reflexivity|]. cbn. auto.
  - f_equal. apply map_id_Forall. now apply (Forall_flat names_e _ (fun x => r x = x)).
  - f_equal. apply map_id_Forall. now apply (Forall_flat names_e _ (fun x => r x = x)).
  - rewrite IHe1, IHe2; [reflexivity| |]; intros x Hx; apply HN; cbn [names_e]; apply in_or_app; auto.
  - rewrite IHe1, IHe2; [reflexivity| |]; intros x Hx; apply HN; cbn [names_e]; apply in_or_app; auto.
  - rewrite IHe1, IHe2; [reflexivity| |]; intros x Hx; apply HN; cbn [names_e]; apply in_or_app; auto.
  - f_equal. apply map_id_Forall. now apply (Forall_flat names_e _ (fun x => r x = x)).
  - f_equal. apply map_id_Forall. now apply (Forall_flat names_e _ (fun x => r x = x)).
  - now rewrite IHe.
  - rewrite HN by (cbn; auto). f_equal. apply map_id_Forall.
    apply (Forall_flat names_e _ (fun x => r x = x)); [assumption|].
    intros x Hx. apply HN. cbn [names_e]. now right.
Qed.

Lemma map_ren_fix m l : forallb (fun x => negb (in_dom m x)) (flat_map names_e l) = true ->
  map (ren_e (rn m)) l = l.
Proof.
  intros H. rewrite forallb_forall in H. apply map_id_Forall. apply Forall_forall. intros e He.
  apply ren_e_fix. intros x Hx. apply rn_out. apply negb_true_iff. apply H.
  apply in_flat_map. exists e. now split.
Qed.

Lemma renl_e_clean m e : clean_e m e = true -> renl_e m e = ren_e (rn m) e.
Proof.
  induction e using expr_ind'; intros E; cbn [renl_e ren_e]; cbn [clean_e] in E; try reflexivity.
  - f_equal. now apply (map_ext_clean (clean_e m)).
  - f_equal. now apply (map_ext_clean (clean_e m)).
  - apply andb_prop in E. destruct E as [E1 E2]. now rewrite IHe1, IHe2.
  - apply andb_prop in E. destruct E as [E1 E2]. now rewrite IHe1, IHe2.
  - apply andb_prop in E. destruct E as [E1 E2]. now rewrite IHe1, IHe2.
  - f_equal. now apply (map_ext_clean (clean_e m)).
  - f_equal. now apply (map_ext_clean (clean_e m)).
  - now rewrite IHe.
  - apply andb_prop in E. destruct E as [E1 E2]. destruct (in_dom m f) eqn:Hf.
    + now rewrite (map_ren_fix m args E1).
    + rewrite (rn_out m f Hf). f_equal. now apply (map_ext_clean (clean_e m)).
Qed.

Lemma map_renl_e_clean m l : forallb (clean_e m) l = true -> map (renl_e m) l = map (ren_e (rn m)) l.
Proof.
  apply map_ext_clean. apply Forall_forall. intros e _. apply renl_e_clean.
Qed.

Lemma renl_s_clean m st : clean_s m st = true -> renl_s m st = ren_s (rn m) st.
Proof.
  induction st using stmt_ind'; intros E; cbn [renl_s ren_s]; cbn [clean_s] in E.
  - now rewrite renl_e_clean.
  - apply andb_prop in E. destruct E as [E E3]. apply andb_prop in E. destruct E as [E1 E2].
    rewrite (renl_e_clean m e E3). destruct (in_dom m a) eqn:Ha.
    + now rewrite (map_ren_fix m i E1).
    + now rewrite (rn_out m a Ha), (map_renl_e_clean m i E2).
  - apply andb_prop in E. destruct E as [E E4]. apply andb_prop in E. destruct E as [E E3].
    apply andb_prop in E. destruct E as [E1 E2].
    rewrite (renl_e_clean m lo E1), (renl_e_clean m hi E2), (map_ext_clean (clean_s m) _ _ b H E4).
    destruct st as [e|]; cbn [option_map]; [now rewrite (renl_e_clean m e E3)|reflexivity].
  - apply andb_prop in E. destruct E as [E1 E2].
    now rewrite (renl_e_clean m c E1), (map_ext_clean (clean_s m) _ _ b H E2).
  - apply andb_prop in E. destruct E as [E E3]. apply andb_prop in E. destruct E as [E1 E2].
    now rewrite (renl_e_clean m c E1), (map_ext_clean (clean_s m) _ _ t H E2), (map_ext_clean (clean_s m) _ _ e H0 E3).
  - now rewrite (map_renl_e_clean m a E).
  - reflexivity.
Qed.

Theorem renl_clean m ss : forallb (clean_s m) ss = true -> renl m ss = ren (rn m) ss.
Proof.
  unfold renl, ren. apply map_ext_clean. apply Forall_forall. intros st _. apply renl_s_clean.
Qed.

Print Assumptions dedup_args_preserves.
Print Assumptions renl_clean.
