(** C41 — inlining one callee (C28's [inline_body] plus the hoisted declarations) leaves a well-scoped unit.

    Pattern: every use of the inlined body is a use of an actual argument of the call (it resolved in the
    caller and keeps its declaration), a use of a hoisted local (declared by [hoisted_decls] with the kind the
    callee declared), a use of the whole array bound to an array dummy (rank from [args_ok]), or a use of a
    host name of the callee (resolves in the caller by the well-scopedness of the callee as a unit). *)
From Coq Require Import ZArith List Bool String Ascii Lia.
From LV Require Import Base.Expr Base.MiniF models.M_C41 proofs.P_C41_base.
From LV Require models.M_C28.
Import ListNotations.

(* ------------------------------------------------------------------------------------------ *)
(** * generic facts *)

Lemma Forall_flat_map' {A B} (P : B -> Prop) (f : A -> list B) l :
  Forall P (flat_map f l) <-> Forall (fun x => Forall P (f x)) l.
Proof.
  induction l as [|x r IH]; cbn.
  - split; constructor.
  - rewrite Forall_app, IH. split.
    + intros [A1 A2]. constructor; assumption.
    + intros H. inversion H; subst. split; assumption.
Qed.

Lemma NoDup_app_inv {A} (a b : list A) :
  NoDup (a ++ b) -> NoDup a /\ NoDup b /\ forall x, In x a -> ~ In x b.
Proof.
  induction a as [|y r IH]; cbn; intros H.
  - split; [constructor | split; [exact H | intros x []]].
  - inversion H as [|y' l' Hn Hd]; subst. destruct (IH Hd) as [A1 [A2 A3]].
    split; [|split].
    + constructor; [|exact A1]. intros Q. apply Hn. apply in_or_app. left. exact Q.
    + exact A2.
    + intros x [E|E] Q; [subst; apply Hn; apply in_or_app; right; exact Q | exact (A3 x E Q)].
Qed.

Lemma mem28 x l : M_C28.mem x l = mem x l.
Proof. reflexivity. Qed.

Lemma intr28 f : M_C28.intrinsic_name f = is_intr f.
Proof. reflexivity. Qed.

Lemma assoc_app {A} (a b : list (string * A)) x :
  M_C28.assoc (a ++ b) x = match M_C28.assoc a x with Some v => Some v | None => M_C28.assoc b x end.
Proof.
  induction a as [|[y v] r IH]; cbn; [reflexivity|].
  destruct (String.eqb y x); [reflexivity | exact IH].
Qed.

(** the renaming maps of [call_smap]: a clashing local is bound to its renamed self, nothing else is bound *)
Lemma assoc_rename {A} (F : string -> A) cvars l x :
  M_C28.assoc (flat_map (fun v => if M_C28.mem v cvars then [(v, F v)] else []) l) x
  = if mem x l && mem x cvars then Some (F x) else None.
Proof.
  induction l as [|v r IH]; [reflexivity|].
  cbn [flat_map]. rewrite assoc_app, IH. rewrite mem28.
  change (mem x (v :: r)) with (String.eqb x v || mem x r).
  rewrite (String.eqb_sym x v).
  destruct (mem v cvars) eqn:Ev; cbn [M_C28.assoc].
  - destruct (String.eqb v x) eqn:E.
    + apply String.eqb_eq in E. subst. rewrite Ev. reflexivity.
    + reflexivity.
  - destruct (String.eqb v x) eqn:E; [|reflexivity].
    apply String.eqb_eq in E. subst. rewrite Ev, !andb_false_r. reflexivity.
Qed.

Lemma compat_arr k n : compat k (UArr n) = true -> k = KArray n.
Proof. destruct k as [|r]; cbn; [discriminate|]. intros H. apply Nat.eqb_eq in H. subst. reflexivity. Qed.

Lemma compat_scal k : compat k UScal = true -> k = KScalar.
Proof. destruct k; cbn; [reflexivity | discriminate]. Qed.

Lemma kind_eqb_eq a b : kind_eqb a b = true -> a = b.
Proof.
  destruct a as [|n], b as [|r]; cbn; try discriminate; [reflexivity|].
  intros H. apply Nat.eqb_eq in H. subst. reflexivity.
Qed.

Lemma lhs_of_LVar e y : M_C28.lhs_of e = M_C28.LVar y -> e = EVar y.
Proof.
  destruct e; cbn; try discriminate.
  - intros H. inversion H. reflexivity.
  - destruct (M_C28.intrinsic_name f); discriminate.
Qed.

(* ------------------------------------------------------------------------------------------ *)
(** * offsets templates: [fill] keeps the number of subscripts and introduces no name *)

Lemma fill_off (R : use -> Prop) t :
  M_C28.all_off t = true -> forall idx, List.length t = List.length idx ->
  List.length (M_C28.fill t idx) = List.length idx
  /\ (Forall R (uses_es idx) -> Forall R (uses_es (M_C28.fill t idx))).
Proof.
  induction t as [|[o|e] r IH]; cbn [M_C28.all_off forallb M_C28.fill]; intros Ho idx Hl.
  - split; [reflexivity | auto].
  - destruct idx as [|i q]; [discriminate|]. cbn in Hl. injection Hl as Hl.
    cbn in Ho. destruct (IH Ho q Hl) as [A1 A2]. split.
    + cbn. rewrite A1. reflexivity.
    + unfold uses_es. cbn. rewrite app_nil_r. intros HF.
      apply Forall_app in HF. destruct HF as [F1 F2].
      apply Forall_app. split; [exact F1 | apply A2; exact F2].
  - cbn in Ho. discriminate.
Qed.

Lemma tmpl_aux_whole Lv Ld all n : forall k,
  M_C28.all_off (M_C28.loki_tmpl_aux Lv Ld all k (repeat (M_C28.SdRange None) n)) = true
  /\ List.length (M_C28.loki_tmpl_aux Lv Ld all k (repeat (M_C28.SdRange None) n)) = n.
Proof.
  induction n as [|n IH]; intros k; cbn.
  - split; reflexivity.
  - destruct (IH (S k)) as [A1 A2]. split; [exact A1 | rewrite A2; reflexivity].
Qed.

Lemma tmpl_whole Lv Ld n :
  let t := M_C28.tmpl_clean (M_C28.loki_tmpl Lv Ld (M_C28.whole_dims n)) in
  t = [] \/ (M_C28.all_off t = true /\ List.length t = n).
Proof.
  cbn zeta. unfold M_C28.tmpl_clean.
  destruct (M_C28.zero_offs _); [left; reflexivity | right].
  unfold M_C28.loki_tmpl, M_C28.whole_dims. apply tmpl_aux_whole.
Qed.

(* ------------------------------------------------------------------------------------------ *)
(** * the substitution preserves "every use is fine", for an abstract substitution map *)

Section Subst.
  Variable m : M_C28.smap.
  Variables C R : use -> Prop.
  Hypothesis H_any : forall x, C (x, UAny) -> Forall R (uses_e (M_C28.lk_s m x)).
  Hypothesis H_scal : forall x y, C (x, UScal) -> M_C28.lk_s m x = EVar y -> R (y, UScal).
  Hypothesis H_arr : forall x n, C (x, UArr n) ->
    R (fst (M_C28.lk_a m x), UArr n)
    /\ forall idx, List.length idx = n ->
         List.length (M_C28.fill (snd (M_C28.lk_a m x)) idx) = n
         /\ (Forall R (uses_es idx) -> Forall R (uses_es (M_C28.fill (snd (M_C28.lk_a m x)) idx))).

  Lemma subst_list_ok cs :
    Forall (fun e => Forall C (uses_e e) -> Forall R (uses_e (M_C28.subst_e m e))) cs ->
    Forall C (flat_map uses_e cs) -> Forall R (flat_map uses_e (map (M_C28.subst_e m) cs)).
  Proof.
    induction 1 as [|c cs Hc _ IH]; cbn; intros H; [constructor|].
    apply Forall_app in H. destruct H as [H1 H2].
    apply Forall_app. split; [apply Hc; exact H1 | apply IH; exact H2].
  Qed.

  Lemma subst_e_ok e : Forall C (uses_e e) -> Forall R (uses_e (M_C28.subst_e m e)).
  Proof.
    induction e as [v|v|x|b|p cs IH|p cs IH|p a b IHa IHb|p a b IHa IHb|o a b IHa IHb|cs IH|cs IH|a IHa|f args IH]
      using expr_ind'; cbn [uses_e M_C28.subst_e]; intros Hc.
    - constructor.
    - constructor.
    - apply H_any. inversion Hc; subst. assumption.
    - constructor.
    - apply subst_list_ok; assumption.
    - apply subst_list_ok; assumption.
    - apply Forall_app in Hc. destruct Hc. apply Forall_app. split; auto.
    - apply Forall_app in Hc. destruct Hc. apply Forall_app. split; auto.
    - apply Forall_app in Hc. destruct Hc. apply Forall_app. split; auto.
    - apply subst_list_ok; assumption.
    - apply subst_list_ok; assumption.
    - auto.
    - rewrite intr28. destruct (is_intr f) eqn:Ef.
      + cbn [uses_e]. rewrite Ef. cbn [app] in *. apply subst_list_ok; assumption.
      + cbn [app] in Hc. inversion Hc as [|g gs Hf Hr]; subst.
        destruct (H_arr f _ Hf) as [Ra Hfill].
        destruct (Hfill (map (M_C28.subst_e m) args) (map_length _ _)) as [Hl Hu].
        cbn [uses_e]. rewrite Hl. apply Forall_app. split.
        * destruct (is_intr (fst (M_C28.lk_a m f))); [constructor | constructor; [exact Ra | constructor]].
        * apply Hu. unfold uses_es. apply subst_list_ok; assumption.
  Qed.

  Lemma subst_es_ok l : Forall C (uses_es l) -> Forall R (uses_es (map (M_C28.subst_e m) l)).
  Proof.
    unfold uses_es. apply subst_list_ok. apply Forall_forall. intros e _. apply subst_e_ok.
  Qed.

  Lemma subst_oe_ok o : Forall C (uses_oe o) -> Forall R (uses_oe (option_map (M_C28.subst_e m) o)).
  Proof. destruct o; cbn; [apply subst_e_ok | constructor]. Qed.

  Lemma lhs_any x : C (x, UAny) ->
    match M_C28.lhs_of (M_C28.lk_s m x) with
    | M_C28.LVar y => R (y, UAny)
    | M_C28.LElem a idx => R (a, UArr (List.length idx)) /\ Forall R (uses_es idx)
    | M_C28.LBad => True
    end.
  Proof.
    intros H. apply H_any in H. destruct (M_C28.lk_s m x); cbn [M_C28.lhs_of]; try exact I.
    - inversion H; assumption.
    - rewrite intr28. destruct (is_intr f) eqn:E; [exact I|].
      cbn [uses_e] in H. rewrite E in H. cbn [app] in H. inversion H; subst. split; assumption.
  Qed.

  Lemma subst_stmt_do v lo hi st b : M_C28.subst_stmt m (SDo v lo hi st b) =
    match M_C28.lhs_of (M_C28.lk_s m v), M_C28.subst_stmts m b with
    | M_C28.LVar y, Some b' =>
        Some (SDo y (M_C28.subst_e m lo) (M_C28.subst_e m hi) (option_map (M_C28.subst_e m) st) b')
    | _, _ => None
    end.
  Proof. reflexivity. Qed.

  Lemma subst_stmt_while c b : M_C28.subst_stmt m (SWhile c b) =
    match M_C28.subst_stmts m b with Some b' => Some (SWhile (M_C28.subst_e m c) b') | None => None end.
  Proof. reflexivity. Qed.

  Lemma subst_stmt_if c t e : M_C28.subst_stmt m (SIf c t e) =
    match M_C28.subst_stmts m t, M_C28.subst_stmts m e with
    | Some t', Some e' => Some (SIf (M_C28.subst_e m c) t' e') | _, _ => None end.
  Proof. reflexivity. Qed.

  Definition stmt_goal (s : stmt) : Prop :=
    forall s', Forall C (uses_stmt s) -> M_C28.subst_stmt m s = Some s' -> Forall R (uses_stmt s').

  Lemma subst_stmts_ok_aux l : Forall stmt_goal l ->
    forall l', Forall C (uses_stmts l) -> M_C28.subst_stmts m l = Some l' -> Forall R (uses_stmts l').
  Proof.
    induction 1 as [|x l Hx _ IH]; cbn [M_C28.subst_stmts]; intros l' Hc E.
    - inversion E. constructor.
    - destruct (M_C28.subst_stmt m x) as [x'|] eqn:E1; [|discriminate].
      destruct (M_C28.subst_stmts m l) as [r'|] eqn:E2; [|discriminate].
      inversion E; subst. unfold uses_stmts in *. cbn [flat_map] in *.
      apply Forall_app in Hc. destruct Hc as [H1 H2]. apply Forall_app. split.
      + apply (Hx x' H1 E1).
      + apply IH; [exact H2 | reflexivity].
  Qed.

  Lemma subst_stmt_ok s : stmt_goal s.
  Proof.
    induction s as [x e|a idx e|v lo hi st b IH|c b IH|c t e IHt IHe|f args|l] using stmt_ind';
      unfold stmt_goal; intros s' Hc E.
    - cbn [M_C28.subst_stmt] in E. cbn [uses_stmt] in Hc. inversion Hc as [|g gs Hx He]; subst.
      pose proof (lhs_any x Hx) as HL. apply subst_e_ok in He.
      destruct (M_C28.lhs_of (M_C28.lk_s m x)) as [y|a idx|]; inversion E; subst; cbn [uses_stmt].
      + constructor; assumption.
      + destruct HL as [L1 L2]. constructor; [exact L1|]. apply Forall_app. split; assumption.
    - cbn [M_C28.subst_stmt] in E. inversion E; subst. cbn [uses_stmt] in *.
      inversion Hc as [|g gs Ha Hr]; subst. apply Forall_app in Hr. destruct Hr as [Hi He].
      destruct (H_arr a _ Ha) as [Ra Hfill].
      destruct (Hfill (map (M_C28.subst_e m) idx) (map_length _ _)) as [Hl Hu].
      rewrite Hl. constructor; [exact Ra|]. apply Forall_app. split.
      + apply Hu. apply subst_es_ok. exact Hi.
      + apply subst_e_ok. exact He.
    - rewrite subst_stmt_do in E.
      destruct (M_C28.lhs_of (M_C28.lk_s m v)) as [y| |] eqn:El; try discriminate.
      destruct (M_C28.subst_stmts m b) as [b'|] eqn:Eb; [|discriminate].
      inversion E; subst. apply lhs_of_LVar in El. cbn [uses_stmt] in *.
      inversion Hc as [|g gs Hv Hr]; subst.
      apply Forall_app in Hr. destruct Hr as [Hlo Hr].
      apply Forall_app in Hr. destruct Hr as [Hhi Hr].
      apply Forall_app in Hr. destruct Hr as [Hst Hb].
      constructor; [exact (H_scal v y Hv El)|].
      apply Forall_app. split; [apply subst_e_ok; exact Hlo|].
      apply Forall_app. split; [apply subst_e_ok; exact Hhi|].
      apply Forall_app. split; [apply subst_oe_ok; exact Hst|].
      exact (subst_stmts_ok_aux b IH b' Hb Eb).
    - rewrite subst_stmt_while in E.
      destruct (M_C28.subst_stmts m b) as [b'|] eqn:Eb; [|discriminate].
      inversion E; subst. cbn [uses_stmt] in *.
      apply Forall_app in Hc. destruct Hc as [Hcc Hb].
      apply Forall_app. split; [apply subst_e_ok; exact Hcc|].
      exact (subst_stmts_ok_aux b IH b' Hb Eb).
    - rewrite subst_stmt_if in E.
      destruct (M_C28.subst_stmts m t) as [t'|] eqn:Et; [|discriminate].
      destruct (M_C28.subst_stmts m e) as [e'|] eqn:Ee; [|discriminate].
      inversion E; subst. cbn [uses_stmt] in *.
      apply Forall_app in Hc. destruct Hc as [Hcc Hr].
      apply Forall_app in Hr. destruct Hr as [Ht He].
      apply Forall_app. split; [apply subst_e_ok; exact Hcc|].
      apply Forall_app. split.
      + exact (subst_stmts_ok_aux t IHt t' Ht Et).
      + exact (subst_stmts_ok_aux e IHe e' He Ee).
    - cbn [M_C28.subst_stmt] in E. inversion E; subst. cbn [uses_stmt] in *.
      apply subst_es_ok. exact Hc.
    - cbn [M_C28.subst_stmt] in E. inversion E; subst. constructor.
  Qed.

  Lemma subst_stmts_ok l l' :
    Forall C (uses_stmts l) -> M_C28.subst_stmts m l = Some l' -> Forall R (uses_stmts l').
  Proof.
    apply subst_stmts_ok_aux. apply Forall_forall. intros s _. apply subst_stmt_ok.
  Qed.
End Subst.

(* ------------------------------------------------------------------------------------------ *)
(** * what the argument maps of a call site bind *)

Lemma argmap_s_in ps : forall args x e,
  M_C28.assoc (M_C28.argmap_s ps args) x = Some e -> In e args.
Proof.
  induction ps as [|[d b] r IH]; intros args x e; [cbn; discriminate|].
  destruct args as [|a q]; [destruct b; cbn; discriminate|].
  destruct b; cbn [M_C28.argmap_s M_C28.assoc].
  - intros H. right. exact (IH _ _ _ H).
  - destruct (String.eqb d x).
    + intros H. inversion H. left. reflexivity.
    + intros H. right. exact (IH _ _ _ H).
Qed.

Lemma args_ok_cons envx ce d b r a q :
  args_ok envx ce ((d, b) :: r) (a :: q) = true ->
  args_ok envx ce r q = true
  /\ (b = true -> exists z, a = EVar z
        /\ klookup envx z = Some (KArray (List.length (M_C28.lbs_of (M_C28.ce_lbs ce) d))))
  /\ (b = false -> forall y, a = EVar y -> klookup envx y = Some KScalar).
Proof.
  destruct b.
  - destruct a; cbn [args_ok]; try discriminate.
    intros H. apply andb_true_iff in H. destruct H as [H1 H2].
    split; [exact H2|]. split; [|discriminate].
    intros _. exists x. split; [reflexivity|].
    destruct (klookup envx x) as [k|]; [|discriminate]. apply kind_eqb_eq in H1. subst. reflexivity.
  - destruct a; cbn [args_ok]; intros H;
      try (split; [exact H | split; [discriminate | intros _ y Hy; discriminate]]).
    apply andb_true_iff in H. destruct H as [H1 H2].
    split; [exact H2|]. split; [discriminate|].
    intros _ y Hy. inversion Hy; subst.
    destruct (klookup envx y) as [[|n]|]; try discriminate. reflexivity.
Qed.

Lemma argmap_s_scal envx ce ps : forall args x y,
  args_ok envx ce ps args = true ->
  M_C28.assoc (M_C28.argmap_s ps args) x = Some (EVar y) -> klookup envx y = Some KScalar.
Proof.
  induction ps as [|[d b] r IH]; intros args x y Hok; [cbn; discriminate|].
  destruct args as [|a q]; [destruct b; cbn; discriminate|].
  apply args_ok_cons in Hok. destruct Hok as [Hr [_ Hs]].
  destruct b; cbn [M_C28.argmap_s M_C28.assoc].
  - apply IH. exact Hr.
  - destruct (String.eqb d x).
    + intros H. inversion H; subst. apply (Hs eq_refl y eq_refl).
    + apply IH. exact Hr.
Qed.

Lemma argmap_s_none envx ce ps : forall args x,
  args_ok envx ce ps args = true ->
  M_C28.assoc (M_C28.argmap_s ps args) x = None -> ~ In (x, false) ps.
Proof.
  induction ps as [|[d b] r IH]; intros args x Hok; [intros _ []|].
  destruct args as [|a q]; [destruct b; cbn in Hok; discriminate|].
  apply args_ok_cons in Hok. destruct Hok as [Hr _].
  destruct b; cbn [M_C28.argmap_s M_C28.assoc].
  - intros H [A|A]; [inversion A | exact (IH _ _ Hr H A)].
  - destruct (String.eqb d x) eqn:E; [discriminate|].
    intros H [A|A]; [inversion A; subst; rewrite String.eqb_refl in E; discriminate | exact (IH _ _ Hr H A)].
Qed.

Lemma argmap_a_some envx lbc ce ps : forall args amap x a t,
  args_ok envx ce ps args = true ->
  M_C28.argmap_a lbc ce ps (map M_C28.AExp args) = Some amap ->
  M_C28.assoc amap x = Some (a, t) ->
  In (x, true) ps
  /\ klookup envx a = Some (KArray (List.length (M_C28.lbs_of (M_C28.ce_lbs ce) x)))
  /\ (t = [] \/ (M_C28.all_off t = true /\ List.length t = List.length (M_C28.lbs_of (M_C28.ce_lbs ce) x))).
Proof.
  induction ps as [|[d b] r IH]; intros args amap x a t Hok.
  - destruct args; cbn; [|discriminate]. intros H. inversion H; subst. cbn. discriminate.
  - destruct args as [|e q]; [destruct b; cbn in Hok; discriminate|].
    apply args_ok_cons in Hok. destruct Hok as [Hr [Ha _]].
    destruct b; cbn [map M_C28.argmap_a].
    + destruct (Ha eq_refl) as [z [Ez Hz]]. subst e.
      destruct (M_C28.argmap_a lbc ce r (map M_C28.AExp q)) as [rest|] eqn:Er; [|discriminate].
      intros H. inversion H; subst. cbn [M_C28.assoc].
      destruct (String.eqb d x) eqn:E.
      * apply String.eqb_eq in E. subst. intros H'. inversion H'; subst.
        split; [left; reflexivity|]. split; [exact Hz|]. apply tmpl_whole.
      * intros H'. destruct (IH _ _ _ _ _ Hr Er H') as [A1 A2]. split; [right; exact A1 | exact A2].
    + intros H H'. destruct (IH _ _ _ _ _ Hr H H') as [A1 A2]. split; [right; exact A1 | exact A2].
Qed.

Lemma argmap_a_none lbc ce ps : forall acts amap x,
  M_C28.argmap_a lbc ce ps acts = Some amap -> M_C28.assoc amap x = None -> ~ In (x, true) ps.
Proof.
  induction ps as [|[d b] r IH]; intros acts amap x; [intros _ _ []|].
  destruct acts as [|e q]; [destruct b; cbn; discriminate|].
  destruct b; cbn [M_C28.argmap_a].
  - destruct e as [e|a dims].
    + destruct e; try discriminate.
      destruct (M_C28.argmap_a lbc ce r q) as [rest|] eqn:Er; [|discriminate].
      intros H. inversion H; subst. cbn [M_C28.assoc].
      destruct (String.eqb d x) eqn:E; [discriminate|].
      intros H' [A|A]; [inversion A; subst; rewrite String.eqb_refl in E; discriminate | exact (IH _ _ _ Er H' A)].
    + destruct (M_C28.argmap_a lbc ce r q) as [rest|] eqn:Er; [|discriminate].
      intros H. inversion H; subst. cbn [M_C28.assoc].
      destruct (String.eqb d x) eqn:E; [discriminate|].
      intros H' [A|A]; [inversion A; subst; rewrite String.eqb_refl in E; discriminate | exact (IH _ _ _ Er H' A)].
  - destruct e as [e|a dims]; [|discriminate].
    intros H H' [A|A]; [inversion A | exact (IH _ _ _ H H' A)].
Qed.

Lemma scalar_args_AExp args : M_C28.scalar_args (map M_C28.AExp args) = args.
Proof. unfold M_C28.scalar_args. rewrite map_map. apply map_id. Qed.

(** where a declaration of the callee comes from *)
Lemma callee_decls_in lr ce x k : In (x, k) (callee_decls lr ce) ->
  (In (x, false) (M_C28.ce_params ce) /\ k = KScalar)
  \/ (In (x, true) (M_C28.ce_params ce) /\ k = KArray (List.length (M_C28.lbs_of (M_C28.ce_lbs ce) x)))
  \/ (In x (M_C28.ce_locals ce) /\ k = KScalar)
  \/ (In x (M_C28.ce_larrs ce) /\ k = KArray (rank_of lr x)).
Proof.
  unfold callee_decls. rewrite !in_app_iff, !in_map_iff.
  intros [[[d b] [E Hi]]|[[v [E Hi]]|[a [E Hi]]]]; cbn [fst snd] in E; inversion E; subst.
  - destruct b; [right; left | left]; split; auto.
  - right; right; left. split; auto.
  - right; right; right. split; auto.
Qed.

Lemma callee_decls_param lr ce x b : In (x, b) (M_C28.ce_params ce) ->
  In (x, if b then KArray (List.length (M_C28.lbs_of (M_C28.ce_lbs ce) x)) else KScalar) (callee_decls lr ce).
Proof.
  intros H. unfold callee_decls. apply in_or_app. left.
  apply in_map_iff. exists (x, b). split; [reflexivity | exact H].
Qed.

Lemma callee_decls_larr lr ce a : In a (M_C28.ce_larrs ce) -> In (a, KArray (rank_of lr a)) (callee_decls lr ce).
Proof.
  intros H. unfold callee_decls. apply in_or_app. right. apply in_or_app. right.
  apply in_map_iff. exists a. split; [reflexivity | exact H].
Qed.

(* ------------------------------------------------------------------------------------------ *)
(** * one callee, one caller *)

(** the names the callee may only use with subscripts *)
Definition carrs (ce : M_C28.callee) : list string :=
  map fst (filter (fun p : string * bool => snd p) (M_C28.ce_params ce)) ++ M_C28.ce_larrs ce.

(** what is known of a use of the callee body *)
Definition cuse (cenv : denv) (ce : M_C28.callee) (g : use) : Prop :=
  resolves cenv g /\ match snd g with UArr _ => True | _ => ~ In (fst g) (carrs ce) end.

Section Site.
  Variables (lbc : list (string * list Z)) (lr : lranks) (ce : M_C28.callee) (u : unit (list stmt)).
  Let cvars := map fst (u_decls u).
  Let env := u_env u.
  Let D := callee_decls lr ce.
  Let Hd := hoisted_decls cvars lr ce.
  Let env' := (u_decls u ++ Hd) ++ u_ext u.
  Let hn (v : string) := if M_C28.mem v cvars then M_C28.ren (M_C28.ce_name ce) v else v.

  Hypothesis Hnd : NoDup (cvars ++ map fst Hd).
  Hypothesis Hext : forall x, In x (map fst Hd) -> ~ In x (map fst (u_ext u)).
  Hypothesis HndD : NoDup (map fst D).

  Lemma env_keep x k : klookup env x = Some k -> klookup env' x = Some k.
  Proof.
    unfold env, env', u_env. rewrite !klookup_app.
    destruct (klookup (u_decls u) x); [auto|]. intros E.
    destruct (klookup Hd x) as [k'|] eqn:EH; [|exact E]. exfalso.
    apply klookup_in_names in EH. apply klookup_in_names in E. exact (Hext x EH E).
  Qed.

  Lemma R_keep g : resolves env g -> resolves env' g.
  Proof. intros [k [A B]]. exists k. split; [apply env_keep; exact A | exact B]. Qed.

  Lemma hoisted_in x k : In (x, k) Hd -> klookup env' x = Some k.
  Proof.
    intros Hi. unfold env'. rewrite !klookup_app.
    destruct (NoDup_app_inv _ _ Hnd) as [_ [N2 N3]].
    assert (Hx : In x (map fst Hd)) by (apply (in_map fst) in Hi; exact Hi).
    assert (E1 : klookup (u_decls u) x = None).
    { apply klookup_none. intros Q. exact (N3 x Q Hx). }
    rewrite E1, (klookup_nodup_in _ _ _ N2 Hi). reflexivity.
  Qed.

  Lemma hoisted_scal v : In v (M_C28.ce_locals ce) -> klookup env' (hn v) = Some KScalar.
  Proof.
    intros Hi. apply hoisted_in. unfold Hd, hoisted_decls. apply in_or_app. left.
    apply in_map_iff. exists v. split; [reflexivity | exact Hi].
  Qed.

  Lemma hoisted_arr a : In a (M_C28.ce_larrs ce) -> klookup env' (hn a) = Some (KArray (rank_of lr a)).
  Proof.
    intros Hi. apply hoisted_in. unfold Hd, hoisted_decls. apply in_or_app. right.
    apply in_map_iff. exists a. split; [reflexivity | exact Hi].
  Qed.

  Section Call.
    Variables (args : list expr) (amap : list (string * (string * list M_C28.dspec))).
    Hypothesis Hok : args_ok env ce (M_C28.ce_params ce) args = true.
    Hypothesis Hamap : M_C28.argmap_a lbc ce (M_C28.ce_params ce) (map M_C28.AExp args) = Some amap.
    Hypothesis Hargs : Forall (resolves env) (uses_es args).
    Let m := M_C28.call_smap cvars ce amap args.
    Let C := cuse (D ++ env) ce.
    Let R := resolves env'.

    (** the image of a name that is not a scalar dummy *)
    Let sn (x : string) := if mem x (M_C28.ce_locals ce) && mem x cvars then M_C28.ren (M_C28.ce_name ce) x else x.

    Lemma lk_s_cases x :
      (exists e, M_C28.lk_s m x = e /\ In e args /\ M_C28.assoc (M_C28.argmap_s (M_C28.ce_params ce) args) x = Some e)
      \/ (M_C28.lk_s m x = EVar (sn x) /\ ~ In (x, false) (M_C28.ce_params ce)).
    Proof.
      unfold M_C28.lk_s, m, M_C28.call_smap. cbn [M_C28.sm_s]. rewrite assoc_app.
      destruct (M_C28.assoc (M_C28.argmap_s (M_C28.ce_params ce) args) x) as [e|] eqn:E1.
      - left. exists e. split; [reflexivity|]. split; [exact (argmap_s_in _ _ _ _ E1) | reflexivity].
      - right. split; [|exact (argmap_s_none _ _ _ _ _ Hok E1)].
        unfold M_C28.rename_s. rewrite (assoc_rename (fun v => EVar (M_C28.ren (M_C28.ce_name ce) v))).
        unfold sn. destruct (mem x (M_C28.ce_locals ce) && mem x cvars); reflexivity.
    Qed.

    Lemma scal_default x g : (g = UAny \/ g = UScal) -> C (x, g) ->
      ~ In (x, false) (M_C28.ce_params ce) -> R (sn x, g).
    Proof.
      intros Hg [[k [Hk Hc]] Hna] Hns. cbn [fst snd] in *.
      assert (Hna' : ~ In x (carrs ce)) by (destruct Hg; subst g; exact Hna).
      unfold sn. destruct (mem x (M_C28.ce_locals ce)) eqn:El.
      - apply mem_In in El. exists KScalar. split.
        + cbn [fst andb]. pose proof (hoisted_scal x El) as Hh. unfold hn in Hh. rewrite mem28 in Hh. exact Hh.
        + destruct Hg; subst g; reflexivity.
      - cbn [andb]. apply mem_false in El. apply R_keep. exists k. split; [|exact Hc]. cbn [fst].
        rewrite klookup_app in Hk. destruct (klookup D x) as [k'|] eqn:ED; [|exact Hk]. exfalso.
        apply klookup_some_in in ED. apply callee_decls_in in ED.
        destruct ED as [[A _]|[[A _]|[[A _]|[A _]]]].
        + exact (Hns A).
        + apply Hna'. unfold carrs. apply in_or_app. left.
          apply in_map_iff. exists (x, true). split; [reflexivity|]. apply filter_In. split; [exact A | reflexivity].
        + exact (El A).
        + apply Hna'. unfold carrs. apply in_or_app. right. exact A.
    Qed.

    Lemma site_any x : C (x, UAny) -> Forall R (uses_e (M_C28.lk_s m x)).
    Proof.
      intros Hc. destruct (lk_s_cases x) as [[e [E [Hi _]]]|[E Hns]]; rewrite E.
      - unfold uses_es in Hargs. rewrite Forall_flat_map' in Hargs. rewrite Forall_forall in Hargs.
        apply (Forall_impl _ R_keep). apply Hargs. exact Hi.
      - cbn [uses_e]. constructor; [|constructor]. apply scal_default; auto.
    Qed.

    Lemma site_scal x y : C (x, UScal) -> M_C28.lk_s m x = EVar y -> R (y, UScal).
    Proof.
      intros Hc Ey. destruct (lk_s_cases x) as [[e [E [_ Ha]]]|[E Hns]].
      - rewrite Ey in E. subst e. apply R_keep. exists KScalar. split; [|reflexivity].
        exact (argmap_s_scal _ _ _ _ _ _ Hok Ha).
      - rewrite Ey in E. inversion E; subst. apply scal_default; auto.
    Qed.

    Lemma site_arr x n : C (x, UArr n) ->
      R (fst (M_C28.lk_a m x), UArr n)
      /\ forall idx, List.length idx = n ->
           List.length (M_C28.fill (snd (M_C28.lk_a m x)) idx) = n
           /\ (Forall R (uses_es idx) -> Forall R (uses_es (M_C28.fill (snd (M_C28.lk_a m x)) idx))).
    Proof.
      intros [[k [Hk Hc]] _]. cbn [fst snd] in *. apply compat_arr in Hc. subst k.
      rewrite klookup_app in Hk.
      unfold M_C28.lk_a, m, M_C28.call_smap. cbn [M_C28.sm_a]. rewrite assoc_app.
      destruct (M_C28.assoc amap x) as [[a t]|] eqn:E1.
      - destruct (argmap_a_some _ _ _ _ _ _ _ _ _ Hok Hamap E1) as [Hp [Ha Ht]].
        pose proof (klookup_nodup_in _ _ _ HndD (callee_decls_param lr ce x true Hp)) as HD.
        fold D in HD. rewrite HD in Hk. inversion Hk as [Hn]. cbn [fst snd]. split.
        + apply R_keep. exists (KArray (List.length (M_C28.lbs_of (M_C28.ce_lbs ce) x))).
          split; [exact Ha | cbn; apply Nat.eqb_refl].
        + intros idx Hl. destruct Ht as [Ht|[Ht1 Ht2]].
          * subst t. cbn [M_C28.fill]. split; [exact Hl | auto].
          * rewrite <- Hl. apply fill_off; [exact Ht1 | rewrite Ht2, Hl; reflexivity].
      - pose proof (argmap_a_none _ _ _ _ _ _ Hamap E1) as Hnp.
        unfold M_C28.rename_a.
        rewrite (assoc_rename (fun v => (M_C28.ren (M_C28.ce_name ce) v, @nil M_C28.dspec))).
        destruct (mem x (M_C28.ce_larrs ce)) eqn:El.
        + apply mem_In in El.
          pose proof (klookup_nodup_in _ _ _ HndD (callee_decls_larr lr ce x El)) as HD.
          fold D in HD. rewrite HD in Hk. inversion Hk as [Hn].
          pose proof (hoisted_arr x El) as Hh. unfold hn in Hh. rewrite mem28 in Hh. cbn [andb].
          destruct (mem x cvars); cbn [fst snd M_C28.fill].
          * split; [exists (KArray (rank_of lr x)); split; [exact Hh | cbn; apply Nat.eqb_refl]|].
            intros idx Hl. split; [exact Hl | auto].
          * split; [exists (KArray (rank_of lr x)); split; [exact Hh | cbn; apply Nat.eqb_refl]|].
            intros idx Hl. split; [exact Hl | auto].
        + cbn [andb fst snd M_C28.fill]. apply mem_false in El. split.
          * apply R_keep. exists (KArray n). split; [|cbn; apply Nat.eqb_refl]. cbn [fst].
            destruct (klookup D x) as [k'|] eqn:ED; [|exact Hk]. exfalso.
            inversion Hk; subst k'.
            apply klookup_some_in in ED. apply callee_decls_in in ED.
            destruct ED as [[_ A]|[[A _]|[[_ A]|[A _]]]]; try discriminate.
            -- exact (Hnp A).
            -- exact (El A).
          * intros idx Hl. split; [exact Hl | auto].
    Qed.

    Lemma site_ok q :
      Forall C (uses_stmts (M_C28.ce_body ce)) ->
      M_C28.subst_stmts m (M_C28.ce_body ce) = Some q -> Forall R (uses_stmts q).
    Proof.
      apply (subst_stmts_ok m C R site_any site_scal site_arr).
    Qed.
  End Call.

  Hypothesis Hbody : Forall (cuse (D ++ env) ce) (uses_stmts (M_C28.ce_body ce)).

  Lemma inline_call_ok args q :
    args_ok env ce (M_C28.ce_params ce) args = true -> Forall (resolves env) (uses_es args) ->
    M_C28.inline_call cvars lbc ce args = Some q -> Forall (resolves env') (uses_stmts q).
  Proof.
    intros Hok Hargs. unfold M_C28.inline_call, M_C28.inline_call_src.
    destruct (M_C28.argmap_a lbc ce (M_C28.ce_params ce) (map M_C28.AExp args)) as [amap|] eqn:Ea; [|discriminate].
    unfold M_C28.inline_call_m. rewrite scalar_args_AExp.
    destruct (Nat.eqb _ _); [|discriminate].
    apply (site_ok args amap Hok Ea Hargs q Hbody).
  Qed.

  (** the local [go] of [inline_stmt] is [inline_body] *)
  Definition igo : list stmt -> option (list stmt) :=
    fix go (l : list stmt) : option (list stmt) :=
      match l with
      | [] => Some []
      | x :: r => match M_C28.inline_stmt cvars lbc ce x, go r with Some a, Some b => Some (a ++ b) | _, _ => None end
      end.

  Lemma igo_eq l : igo l = M_C28.inline_body cvars lbc ce l.
  Proof.
    induction l as [|x r IHr]; [reflexivity|].
    cbn [igo M_C28.inline_body]. fold igo. rewrite IHr. reflexivity.
  Qed.

  Lemma inline_stmt_do v lo hi st b : M_C28.inline_stmt cvars lbc ce (SDo v lo hi st b) =
    match M_C28.inline_body cvars lbc ce b with Some b' => Some [SDo v lo hi st b'] | None => None end.
  Proof. rewrite <- igo_eq. reflexivity. Qed.
  Lemma inline_stmt_while c b : M_C28.inline_stmt cvars lbc ce (SWhile c b) =
    match M_C28.inline_body cvars lbc ce b with Some b' => Some [SWhile c b'] | None => None end.
  Proof. rewrite <- igo_eq. reflexivity. Qed.
  Lemma inline_stmt_if c t e : M_C28.inline_stmt cvars lbc ce (SIf c t e) =
    match M_C28.inline_body cvars lbc ce t, M_C28.inline_body cvars lbc ce e with
    | Some t', Some e' => Some [SIf c t' e'] | _, _ => None end.
  Proof. rewrite <- !igo_eq. reflexivity. Qed.

  Definition istmt_goal (s : stmt) : Prop :=
    forall q, Forall (resolves env) (uses_stmt s) -> sites_ok env ce s = true ->
              M_C28.inline_stmt cvars lbc ce s = Some q -> Forall (resolves env') (uses_stmts q).

  Lemma inline_body_ok_aux l : Forall istmt_goal l ->
    forall q, Forall (resolves env) (uses_stmts l) -> forallb (sites_ok env ce) l = true ->
              M_C28.inline_body cvars lbc ce l = Some q -> Forall (resolves env') (uses_stmts q).
  Proof.
    induction 1 as [|x l Hx _ IH]; cbn [M_C28.inline_body forallb]; intros q Hr Hs E.
    - inversion E. constructor.
    - destruct (M_C28.inline_stmt cvars lbc ce x) as [a|] eqn:E1; [|discriminate].
      destruct (M_C28.inline_body cvars lbc ce l) as [b|] eqn:E2; [|discriminate].
      inversion E; subst. apply andb_true_iff in Hs. destruct Hs as [S1 S2].
      unfold uses_stmts in *. cbn [flat_map] in Hr. apply Forall_app in Hr. destruct Hr as [R1 R2].
      rewrite flat_map_app. apply Forall_app. split.
      + exact (Hx a R1 S1 E1).
      + apply IH; [exact R2 | exact S2 | reflexivity].
  Qed.

  Lemma keep_all us : Forall (resolves env) us -> Forall (resolves env') us.
  Proof. apply Forall_impl. exact R_keep. Qed.

  Lemma inline_stmt_ok s : istmt_goal s.
  Proof.
    induction s as [x e|a idx e|v lo hi st b IH|c b IH|c t e IHt IHe|f args|l] using stmt_ind';
      unfold istmt_goal; intros q Hr Hs E.
    - cbn in E. inversion E; subst. unfold uses_stmts. cbn [flat_map]. rewrite app_nil_r. apply keep_all. exact Hr.
    - cbn in E. inversion E; subst. unfold uses_stmts. cbn [flat_map]. rewrite app_nil_r. apply keep_all. exact Hr.
    - rewrite inline_stmt_do in E.
      destruct (M_C28.inline_body cvars lbc ce b) as [b'|] eqn:Eb; [|discriminate].
      inversion E; subst. unfold uses_stmts. cbn [flat_map]. rewrite app_nil_r.
      cbn [uses_stmt sites_ok] in *.
      inversion Hr as [|g gs Hv Hr']; subst.
      apply Forall_app in Hr'. destruct Hr' as [Hlo Hr'].
      apply Forall_app in Hr'. destruct Hr' as [Hhi Hr'].
      apply Forall_app in Hr'. destruct Hr' as [Hst Hb].
      constructor; [apply R_keep; exact Hv|].
      apply Forall_app. split; [apply keep_all; exact Hlo|].
      apply Forall_app. split; [apply keep_all; exact Hhi|].
      apply Forall_app. split; [apply keep_all; exact Hst|].
      exact (inline_body_ok_aux b IH b' Hb Hs Eb).
    - rewrite inline_stmt_while in E.
      destruct (M_C28.inline_body cvars lbc ce b) as [b'|] eqn:Eb; [|discriminate].
      inversion E; subst. unfold uses_stmts. cbn [flat_map]. rewrite app_nil_r.
      cbn [uses_stmt sites_ok] in *.
      apply Forall_app in Hr. destruct Hr as [Hc Hb].
      apply Forall_app. split; [apply keep_all; exact Hc|].
      exact (inline_body_ok_aux b IH b' Hb Hs Eb).
    - rewrite inline_stmt_if in E.
      destruct (M_C28.inline_body cvars lbc ce t) as [t'|] eqn:Et; [|discriminate].
      destruct (M_C28.inline_body cvars lbc ce e) as [e'|] eqn:Ee; [|discriminate].
      inversion E; subst. unfold uses_stmts. cbn [flat_map]. rewrite app_nil_r.
      cbn [uses_stmt sites_ok] in *. apply andb_true_iff in Hs. destruct Hs as [S1 S2].
      apply Forall_app in Hr. destruct Hr as [Hc Hr].
      apply Forall_app in Hr. destruct Hr as [Ht He].
      apply Forall_app. split; [apply keep_all; exact Hc|].
      apply Forall_app. split.
      + exact (inline_body_ok_aux t IHt t' Ht S1 Et).
      + exact (inline_body_ok_aux e IHe e' He S2 Ee).
    - cbn [M_C28.inline_stmt sites_ok uses_stmt] in *.
      destruct (String.eqb f (M_C28.ce_name ce)).
      + exact (inline_call_ok args q Hs Hr E).
      + inversion E; subst. unfold uses_stmts. cbn [flat_map uses_stmt]. rewrite app_nil_r. apply keep_all. exact Hr.
    - cbn in E. inversion E; subst. constructor.
  Qed.

  Lemma inline_body_ok l q :
    Forall (resolves env) (uses_stmts l) -> forallb (sites_ok env ce) l = true ->
    M_C28.inline_body cvars lbc ce l = Some q -> Forall (resolves env') (uses_stmts q).
  Proof.
    apply inline_body_ok_aux. apply Forall_forall. intros s _. apply inline_stmt_ok.
  Qed.
End Site.

(* ------------------------------------------------------------------------------------------ *)
(** * the theorem *)

Lemma callee_uses_ok lr ce host :
  arrays_subscripted ce = true ->
  Forall (resolves (callee_decls lr ce ++ host)) (uses_stmts (M_C28.ce_body ce)) ->
  Forall (cuse (callee_decls lr ce ++ host) ce) (uses_stmts (M_C28.ce_body ce)).
Proof.
  unfold arrays_subscripted. intros Hs Hr. rewrite forallb_forall in Hs.
  apply Forall_forall. intros g Hg. rewrite Forall_forall in Hr. split; [apply Hr; exact Hg|].
  specialize (Hs g Hg). fold (carrs ce) in Hs.
  destruct (snd g); [| |exact I]; apply negb_true_iff in Hs; apply mem_false in Hs; exact Hs.
Qed.

Theorem T_inline_preserves_well_scoped lbc lr ce (u u' : unit (list stmt)) :
  well_scoped uses_stmts u ->
  well_scoped uses_stmts (callee_unit lr (u_env u) ce) ->
  inline_class lr ce u = true ->
  T_inline lbc lr ce u = Some u' ->
  well_scoped uses_stmts u'.
Proof.
  intros [W1 [W2 [W3 [W4 [W5 W6]]]]] [_ [_ [Wc _]]] Hcls HT.
  unfold inline_class in Hcls. cbn zeta in Hcls.
  apply andb_true_iff in Hcls. destruct Hcls as [Hcls Hsites].
  apply andb_true_iff in Hcls. destruct Hcls as [Hcls HndD].
  apply andb_true_iff in Hcls. destruct Hcls as [Hcls Hext].
  apply andb_true_iff in Hcls. destruct Hcls as [Hsub Hnd].
  apply nodupb_NoDup in Hnd. apply nodupb_NoDup in HndD.
  assert (Hext' : forall x, In x (map fst (hoisted_decls (map fst (u_decls u)) lr ce)) ->
                            ~ In x (map fst (u_ext u))).
  { intros x Hx. rewrite forallb_forall in Hext. specialize (Hext x Hx).
    apply negb_true_iff in Hext. apply mem_false in Hext. exact Hext. }
  cbn [callee_unit u_body] in Wc. unfold u_env at 1 in Wc. cbn [u_decls u_ext callee_unit] in Wc.
  pose proof (callee_uses_ok lr ce (u_env u) Hsub Wc) as Hbody.
  unfold T_inline in HT. cbn zeta in HT.
  destruct (M_C28.inline_body (map fst (u_decls u)) lbc ce (u_body u)) as [b'|] eqn:Eb; [|discriminate].
  inversion HT; subst u'. clear HT.
  pose proof (inline_body_ok lbc lr ce u Hnd Hext' HndD Hbody (u_body u) b' W3 Hsites Eb) as Hb'.
  unfold well_scoped, u_env. cbn [u_args u_decls u_shapes u_ext u_inner u_body].
  split; [|split; [|split; [|split; [|split]]]].
  - rewrite map_app. exact Hnd.
  - rewrite map_app. apply incl_appl. exact W2.
  - exact Hb'.
  - apply (keep_all lr ce u Hext'). exact W4.
  - apply (keep_all lr ce u Hext'). exact W5.
  - apply Forall_forall. intros p Hp. rewrite Forall_forall in W6.
    apply (shape_ok_keep (u_env u)); [apply W6; exact Hp|].
    intros k Hk. apply (env_keep lr ce u Hext'). exact Hk.
Qed.

(* ------------------------------------------------------------------------------------------ *)
(** * several callees: the hypotheses are threaded through the intermediate units *)

Fixpoint all_steps_ok (lbc : list (string * list Z)) (lrs : list lranks) (ces : list M_C28.callee)
         (u : unit (list stmt)) : Prop :=
  match ces with
  | [] => True
  | ce :: r =>
      let lr := match lrs with lr :: _ => lr | [] => [] end in
      let q := match lrs with _ :: q => q | [] => [] end in
      well_scoped uses_stmts (callee_unit lr (u_env u) ce)
      /\ inline_class lr ce u = true
      /\ forall u', T_inline lbc lr ce u = Some u' -> all_steps_ok lbc q r u'
  end.

Theorem T_inline_all_preserves_well_scoped_partial lbc : forall ces lrs (u u' : unit (list stmt)),
  well_scoped uses_stmts u ->
  all_steps_ok lbc lrs ces u ->
  T_inline_all lbc lrs ces u = Some u' ->
  well_scoped uses_stmts u'.
Proof.
  induction ces as [|ce r IH]; intros lrs u u' Hw Hs HT.
  - cbn in HT. inversion HT; subst. exact Hw.
  - destruct lrs as [|lr q]; cbn [T_inline_all] in HT; cbn [all_steps_ok] in Hs; cbn zeta in Hs;
      destruct Hs as [Hc [Hcls Hnext]].
    + destruct (T_inline lbc [] ce u) as [u1|] eqn:E1; [|discriminate].
      apply (IH [] u1 u'); [|apply Hnext; reflexivity | exact HT].
      exact (T_inline_preserves_well_scoped lbc [] ce u u1 Hw Hc Hcls E1).
    + destruct (T_inline lbc lr ce u) as [u1|] eqn:E1; [|discriminate].
      apply (IH q u1 u'); [|apply Hnext; reflexivity | exact HT].
      exact (T_inline_preserves_well_scoped lbc lr ce u u1 Hw Hc Hcls E1).
Qed.

(* ------------------------------------------------------------------------------------------ *)
(** * the class is inhabited; a hypothesis that matters *)

Open Scope string_scope.

(** callee [f(s, a)]: scalar dummy [s] (written), array dummy [a], locals [i] (DO variable; clashes with the
    caller's [i]) and [k], local array [w] of rank 2, host scalar [n] *)
Definition ex_ce : M_C28.callee :=
  {| M_C28.ce_name := "f"; M_C28.ce_params := [("s", false); ("a", true)];
     M_C28.ce_locals := ["i"; "k"]; M_C28.ce_larrs := ["w"]; M_C28.ce_lbs := [("a", [1%Z])];
     M_C28.ce_body :=
       [SDo "i" (EInt 1) (EVar "n") None
          [SStore "a" [EVar "i"] (EVar "s"); SStore "w" [EVar "i"; EInt 1] (ECall "a" [EVar "i"])];
        SAssign "k" (EInt 2);
        SAssign "s" (ESum false [EVar "k"; ECall "w" [EInt 1; EInt 1]])] |}.

Definition ex_u : unit (list stmt) :=
  mkUnit ["x"] [("x", KScalar); ("b", KArray 1); ("i", KScalar)] [] [("n", KScalar)] []
    [SAssign "i" (EInt 0);
     SDo "i" (EInt 1) (EInt 2) None [SCall "f" [EVar "x"; EVar "b"]];
     SCall "g" [EVar "x"]].

Definition ex_lr : lranks := [("w", 2%nat)].
Definition ex_lbc : list (string * list Z) := [("b", [0%Z])].

Example T_inline_class_inhabited :
  inline_class ex_lr ex_ce ex_u = true
  /\ well_scopedb uses_stmts ex_u = true
  /\ well_scopedb uses_stmts (callee_unit ex_lr (u_env ex_u) ex_ce) = true
  /\ exists u', T_inline ex_lbc ex_lr ex_ce ex_u = Some u'
       /\ u_decls u' = [("x", KScalar); ("b", KArray 1); ("i", KScalar);
                        ("f_i", KScalar); ("k", KScalar); ("w", KArray 2)]
       /\ u_body u' =
            [SAssign "i" (EInt 0);
             SDo "i" (EInt 1) (EInt 2) None
               [SDo "f_i" (EInt 1) (EVar "n") None
                  [SStore "b" [ESum false [EVar "f_i"; EInt (-1)]] (EVar "x");
                   SStore "w" [EVar "f_i"; EInt 1] (ECall "b" [ESum false [EVar "f_i"; EInt (-1)]])];
                SAssign "k" (EInt 2);
                SAssign "x" (ESum false [EVar "k"; ECall "w" [EInt 1; EInt 1]])];
             SCall "g" [EVar "x"]]
       /\ well_scopedb uses_stmts u' = true.
Proof.
  split; [vm_compute; reflexivity|]. split; [vm_compute; reflexivity|]. split; [vm_compute; reflexivity|].
  eexists. split; [vm_compute; reflexivity|].
  split; [reflexivity|]. split; [reflexivity | vm_compute; reflexivity].
Qed.

(** without "the hoisted names are not host/imported names of the caller" ([inline_class]): the caller sees an
    imported ARRAY [t], the callee has a local scalar [t]; the hoisted scalar shadows the array and the
    caller's own [t(1) = 0] no longer resolves *)
Definition rf_ce : M_C28.callee :=
  {| M_C28.ce_name := "f"; M_C28.ce_params := []; M_C28.ce_locals := ["t"]; M_C28.ce_larrs := [];
     M_C28.ce_lbs := []; M_C28.ce_body := [SAssign "t" (EInt 1)] |}.

Definition rf_u : unit (list stmt) :=
  mkUnit [] [] [] [("t", KArray 1)] [] [SStore "t" [EInt 1] (EInt 0); SCall "f" []].

Theorem T_inline_capture_refuted :
  exists lbc lr ce (u u' : unit (list stmt)),
    well_scoped uses_stmts u
    /\ well_scoped uses_stmts (callee_unit lr (u_env u) ce)
    /\ T_inline lbc lr ce u = Some u'
    /\ inline_class lr ce u = false
    /\ ~ well_scoped uses_stmts u'.
Proof.
  exists [], [], rf_ce, rf_u. eexists.
  split; [apply well_scopedb_spec; vm_compute; reflexivity|].
  split; [apply well_scopedb_spec; vm_compute; reflexivity|].
  split; [vm_compute; reflexivity|].
  split; [vm_compute; reflexivity|].
  intros H. apply well_scopedb_spec in H. vm_compute in H. discriminate.
Qed.

Print Assumptions T_inline_preserves_well_scoped.
Print Assumptions T_inline_all_preserves_well_scoped_partial.
