(** C15 -- the unique reduction. *)
From Coq Require Import ZArith List Bool String Ascii Lia Permutation Relations.
From LV Require Import Base.Strings models.M_C15 proofs.P_C15.
Import ListNotations.
Open Scope Z_scope.
Open Scope list_scope.

(* ---------------------------------------------------------------------------------- *)
(** * unique = True *)

Definition key_eq (a b : expr) : Prop := key_eqb (dict_key a) (dict_key b) = true.

(** one identification step inside the carrier list [L]: same documented key or Python-equal *)
Definition ustep (L : list expr) (a b : expr) : Prop :=
  In a L /\ In b L /\ (key_eq a b \/ expr_eqb a b = true).
Definition sim (L : list expr) : expr -> expr -> Prop := clos_refl_sym_trans expr (ustep L).

Lemma sim_refl L a : sim L a a. Proof. apply rst_refl. Qed.
Lemma sim_sym L a b : sim L a b -> sim L b a. Proof. apply rst_sym. Qed.
Lemma sim_trans L a b c : sim L a b -> sim L b c -> sim L a c. Proof. apply rst_trans. Qed.
Lemma sim_step L a b : ustep L a b -> sim L a b. Proof. apply rst_step. Qed.

(** ** dict_set *)
Lemma ds_in d k v k0 u0 :
  In (k0, u0) (dict_set d k v) ->
  In (k0, u0) d \/ (u0 = v /\ (k0 = k \/ (key_eqb k0 k = true /\ exists u', In (k0, u') d))).
Proof.
  induction d as [|[k' v'] r IH]; cbn.
  - intros [E|[]]. inversion E; subst. right. split; [reflexivity|now left].
  - destruct (key_eqb k' k) eqn:Ek; cbn.
    + intros [E|H]; [|left; now right]. inversion E; subst. right. split; [reflexivity|].
      right. split; [exact Ek|]. exists v'. now left.
    + intros [E|H]; [left; now left|]. destruct (IH H) as [H1|(E1 & [E2|(E2 & u' & H2)])].
      * left. now right.
      * right. split; [exact E1|now left].
      * right. split; [exact E1|]. right. split; [exact E2|]. exists u'. now right.
Qed.

Lemma ds_keep d k v k0 u0 :
  In (k0, u0) d -> In (k0, u0) (dict_set d k v) \/ (key_eqb k0 k = true /\ In (k0, v) (dict_set d k v)).
Proof.
  induction d as [|[k' v'] r IH]; cbn; [intros []|].
  destruct (key_eqb k' k) eqn:Ek; cbn.
  - intros [E|H]; [|left; now right]. inversion E; subst. right. split; [exact Ek|now left].
  - intros [E|H]; [left; now left|]. destruct (IH H) as [H1|(E1 & H1)]; [left; now right|].
    right. split; [exact E1|now right].
Qed.

Lemma ds_new d k v : exists k0, In (k0, v) (dict_set d k v).
Proof.
  induction d as [|[k' v'] r IH]; cbn; [exists k; now left|].
  destruct (key_eqb k' k); cbn; [exists k'; now left|]. destruct IH as (k0 & H). exists k0. now right.
Qed.

Definition DInv (L : list expr) (d : list (dkey * expr)) (P : list expr) : Prop :=
  (forall k u, In (k, u) d -> In u P /\ exists w, In w P /\ k = dict_key w /\ sim L w u) /\
  (forall x, In x P -> exists k u, In (k, u) d /\ sim L u x).

Lemma DInv_step L d P v :
  incl (P ++ [v]) L -> DInv L d P -> DInv L (dict_set d (dict_key v) v) (P ++ [v]).
Proof.
  intros HL [H1 H2].
  assert (HvL : In v L) by (apply HL, in_or_app; right; now left).
  assert (HPL : forall x, In x P -> In x L) by (intros x Hx; apply HL, in_or_app; now left).
  split.
  - intros k u Hin. apply ds_in in Hin as [Hold|(-> & Hk)].
    + destruct (H1 _ _ Hold) as (Hu & w & Hw & Ek & Hs). split; [apply in_or_app; now left|].
      exists w. split; [apply in_or_app; now left|]. now split.
    + split; [apply in_or_app; right; now left|].
      destruct Hk as [->|(Ek & u' & Hu')].
      * exists v. split; [apply in_or_app; right; now left|]. split; [reflexivity|apply sim_refl].
      * destruct (H1 _ _ Hu') as (_ & w & Hw & -> & _).
        exists w. split; [apply in_or_app; now left|]. split; [reflexivity|].
        apply sim_step. split; [now apply HPL|]. split; [exact HvL|]. left. exact Ek.
  - intros x Hx. apply in_app_or in Hx as [Hx|[<-|[]]].
    + destruct (H2 x Hx) as (k & u & Hin & Hs).
      destruct (ds_keep d (dict_key v) v k u Hin) as [Hk|(Ek & Hk)].
      * exists k, u. now split.
      * exists k, v. split; [exact Hk|].
        destruct (H1 _ _ Hin) as (_ & w & Hw & -> & Hwu).
        apply sim_trans with w.
        -- apply sim_sym, sim_step. split; [now apply HPL|]. split; [exact HvL|]. left. exact Ek.
        -- now apply sim_trans with u.
    + destruct (ds_new d (dict_key v) v) as (k0 & Hk0). exists k0, v. split; [exact Hk0|apply sim_refl].
Qed.

Lemma DInv_fold L l : forall d P,
  incl (P ++ l) L -> DInv L d P ->
  DInv L (fold_left (fun d v => dict_set d (dict_key v) v) l d) (P ++ l).
Proof.
  induction l as [|v l IH]; intros d P HL HI; cbn [fold_left]; [now rewrite app_nil_r|].
  replace (P ++ v :: l) with ((P ++ [v]) ++ l) in * by (now rewrite <- app_assoc).
  apply IH; [exact HL|]. apply DInv_step; [|exact HI].
  intros x Hx. apply HL, in_or_app. now left.
Qed.

Lemma dict_build_spec L l : incl l L -> DInv L (dict_build l) l.
Proof.
  intros HL. unfold dict_build. apply (DInv_fold L l [] []); [exact HL|].
  split; [intros k u []|intros x []].
Qed.

(** ** the ordered set *)
Definition pairwise_ne (s : list expr) : Prop := ForallOrdPairs (fun a b => expr_eqb a b = false) s.

Lemma FOP_snoc {A} (R : A -> A -> Prop) s v :
  ForallOrdPairs R s -> Forall (fun a => R a v) s -> ForallOrdPairs R (s ++ [v]).
Proof.
  induction 1 as [|a s Ha Hs IH]; intros Hv; cbn; [repeat constructor|].
  inversion Hv; subst. constructor; [|now apply IH].
  apply Forall_app. split; [exact Ha|]. now constructor.
Qed.

Definition OInv (L : list expr) (s P : list expr) : Prop :=
  incl s P /\ (forall x, In x P -> exists u, In u s /\ sim L u x) /\ pairwise_ne s.

Lemma OInv_step L s P v : incl (P ++ [v]) L -> OInv L s P -> OInv L (oset_add s v) (P ++ [v]).
Proof.
  intros HL (H1 & H2 & H3). unfold oset_add.
  assert (HvL : In v L) by (apply HL, in_or_app; right; now left).
  destruct (existsb (fun u => expr_eqb u v) s) eqn:Ex.
  - apply existsb_exists in Ex as (u & Hu & Euv). split; [|split; [|exact H3]].
    + intros x Hx. apply in_or_app. left. now apply H1.
    + intros x Hx. apply in_app_or in Hx as [Hx|[<-|[]]]; [now apply H2|].
      exists u. split; [exact Hu|]. apply sim_step. split; [|split; [exact HvL|now right]].
      apply HL, in_or_app. left. now apply H1.
  - split; [|split].
    + intros x Hx. apply in_app_or in Hx as [Hx|Hx]; apply in_or_app; [left; now apply H1|now right].
    + intros x Hx. apply in_app_or in Hx as [Hx|[<-|[]]].
      * destruct (H2 x Hx) as (u & Hu & Hs). exists u. split; [apply in_or_app; now left|exact Hs].
      * exists v. split; [apply in_or_app; right; now left|apply sim_refl].
    + apply FOP_snoc; [exact H3|]. apply Forall_forall. intros a Ha.
      destruct (expr_eqb a v) eqn:E; [|reflexivity].
      assert (existsb (fun u => expr_eqb u v) s = true) by (apply existsb_exists; eauto). congruence.
Qed.

Lemma OInv_fold L l : forall s P, incl (P ++ l) L -> OInv L s P -> OInv L (fold_left oset_add l s) (P ++ l).
Proof.
  induction l as [|v l IH]; intros s P HL HI; cbn [fold_left]; [now rewrite app_nil_r|].
  replace (P ++ v :: l) with ((P ++ [v]) ++ l) in * by (now rewrite <- app_assoc).
  apply IH; [exact HL|]. apply OInv_step; [|exact HI]. intros x Hx. apply HL, in_or_app. now left.
Qed.

Lemma oset_spec L l : incl l L -> OInv L (oset l) l.
Proof.
  intros HL. apply (OInv_fold L l [] []); [exact HL|].
  split; [intros x []|split; [intros x []|constructor]].
Qed.

Lemma uniq_spec L l :
  incl l L ->
  incl (uniq l) l /\ (forall v, In v l -> exists u, In u (uniq l) /\ sim L u v) /\ pairwise_ne (uniq l).
Proof.
  intros HL. destruct (dict_build_spec L l HL) as [D1 D2]. unfold uniq.
  set (vals := map snd (dict_build l)).
  assert (Hv : incl vals l).
  { intros u Hu. apply in_map_iff in Hu as ([k u'] & <- & Hin). now apply (D1 k u'). }
  destruct (oset_spec L vals) as (O1 & O2 & O3); [intros x Hx; now apply HL, Hv|].
  split; [|split; [|exact O3]].
  - intros x Hx. now apply Hv, O1.
  - intros v Hvl. destruct (D2 v Hvl) as (k & u & Hin & Hs).
    destruct (O2 u) as (u' & Hu' & Hs'); [apply in_map_iff; exists (k, u); now split|].
    exists u'. split; [exact Hu'|]. now apply sim_trans with u.
Qed.

(** ** the hierarchical application in the visitor *)
Definition R (L lu ln : list expr) : Prop := incl lu ln /\ forall v, In v ln -> exists u, In u lu /\ sim L u v.

Lemma R_refl L l : R L l l.
Proof. split; [apply incl_refl|]. intros v Hv. exists v. split; [exact Hv|apply sim_refl]. Qed.

Lemma R_uniq L lu ln : incl ln L -> R L lu ln -> R L (uniq lu) ln.
Proof.
  intros HL [H1 H2]. destruct (uniq_spec L lu) as (U1 & U2 & _); [intros x Hx; now apply HL, H1|].
  split; [intros x Hx; now apply H1, U1|].
  intros v Hv. destruct (H2 v Hv) as (u & Hu & Hs). destruct (U2 u Hu) as (u' & Hu' & Hs').
  exists u'. split; [exact Hu'|]. now apply sim_trans with u.
Qed.

Lemma R_uniq_if L b lu ln : incl ln L -> R L lu ln -> R L (uniq_if b lu) ln.
Proof. destruct b; [apply R_uniq|auto]. Qed.

Lemma R_app L a a' b b' : R L a a' -> R L b b' -> R L (a ++ b) (a' ++ b').
Proof.
  intros [A1 A2] [B1 B2]. split.
  - intros x Hx. apply in_app_or in Hx as [Hx|Hx]; apply in_or_app; [left; now apply A1|right; now apply B1].
  - intros v Hv. apply in_app_or in Hv as [Hv|Hv].
    + destruct (A2 v Hv) as (u & Hu & Hs). exists u. split; [apply in_or_app; now left|exact Hs].
    + destruct (B2 v Hv) as (u & Hu & Hs). exists u. split; [apply in_or_app; now right|exact Hs].
Qed.

Lemma R_concat L A B : Forall2 (R L) A B -> R L (List.concat A) (List.concat B).
Proof. induction 1; cbn; [apply R_refl|now apply R_app]. Qed.

Lemma Forall2_flat_map {A B C} (Q : B -> C -> Prop) (f : A -> list B) (g : A -> list C) l :
  Forall (fun c => Forall2 Q (f c) (g c)) l -> Forall2 Q (flat_map f l) (flat_map g l).
Proof. induction 1; cbn; [constructor|now apply Forall2_app]. Qed.

Lemma incl_concat_flat_map {A} (f : A -> list (list expr)) l L c :
  incl (List.concat (flat_map f l)) L -> In c l -> incl (List.concat (f c)) L.
Proof.
  intros H Hc x Hx. apply H. rewrite concat_flat_map. apply in_flat_map. eauto.
Qed.

Lemma flatg_R L q it : forall lv,
  incl (List.concat (flatg false q lv it)) L -> Forall2 (R L) (flatg true q lv it) (flatg false q lv it).
Proof.
  induction it as [l k qq ch ex IH|els IH|e|] using item_ind'; intros lv HL.
  - cbn [flatg] in *. cbn [List.concat] in HL. rewrite app_nil_r in HL.
    constructor; [|constructor].
    destruct (k =? K_TYPEDEF); [apply R_refl|].
    assert (E : forall b, incl (List.concat (flat_map (flatg false q b) ch)) L ->
                Forall2 (R L) (flat_map (flatg true q b) ch) (flat_map (flatg false q b) ch)).
    { intros b Hb. apply Forall2_flat_map. rewrite Forall_forall in *. intros c Hc. apply IH; [exact Hc|].
      eapply incl_concat_flat_map; eauto. }
    destruct (k =? K_VARDECL).
    + cbn [uniq_if] in *.
      assert (HA : incl (List.concat (flat_map (flatg false q false) ch)) L) by (intros x Hx; apply HL, in_or_app; now left).
      apply R_uniq; [exact HL|]. apply R_app; [|apply R_refl].
      apply R_uniq; [exact HA|]. apply R_concat. now apply E.
    + cbn [uniq_if] in *. apply R_uniq; [exact HL|]. apply R_concat. now apply E.
  - cbn [flatg] in *.
    assert (E : forall b, incl (List.concat (flat_map (flatg false q b) els)) L ->
                Forall2 (R L) (flat_map (flatg true q b) els) (flat_map (flatg false q b) els)).
    { intros b Hb. apply Forall2_flat_map. rewrite Forall_forall in *. intros c Hc. apply IH; [exact Hc|].
      eapply incl_concat_flat_map; eauto. }
    destruct lv; [now apply E|].
    cbn [uniq_if List.concat] in *. rewrite app_nil_r in HL.
    constructor; [|constructor]. apply R_uniq; [exact HL|]. apply R_concat. now apply E.
  - cbn. constructor; [apply R_refl|constructor].
  - cbn. constructor; [apply R_refl|constructor].
Qed.

(** every occurrence found without [unique] is represented in the unique result, the unique
    result contains nothing else, and (when the top is a node or a tuple) no two of its elements
    are equal *)
Lemma unique_is_dedup q it :
  let ln := ef_flat false q it in
  let lu := ef_flat true q it in
  incl lu ln /\ (forall v, In v ln -> exists u, In u lu /\ sim ln u v).
Proof.
  cbn zeta. unfold ef_flat.
  assert (H := flatg_R (List.concat (flatg false q false it)) q it false (incl_refl _)).
  apply R_concat in H. exact H.
Qed.

Lemma unique_pairwise_ne q it :
  (exists l k qq ch ex, it = INode l k qq ch ex) \/ (exists els, it = ITuple els) ->
  pairwise_ne (ef_flat true q it).
Proof.
  unfold ef_flat.
  intros [(l & k & qq & ch & ex & ->)|(els & ->)]; cbn [flatg List.concat]; rewrite app_nil_r.
  - destruct (k =? K_TYPEDEF); [constructor|].
    destruct (k =? K_VARDECL); cbn [uniq_if]; eapply (uniq_spec _ _ (incl_refl _)).
  - cbn [uniq_if]. eapply (uniq_spec _ _ (incl_refl _)).
Qed.

(** ** the class on which [sim] is plain Python equality *)
Definition eq_class (L : list expr) : Prop :=
  (forall a b, In a L -> In b L -> key_eq a b -> expr_eqb a b = true) /\
  (forall a b, In a L -> In b L -> expr_eqb a b = true -> expr_eqb b a = true) /\
  (forall a b c, In a L -> In b L -> In c L -> expr_eqb a b = true -> expr_eqb b c = true -> expr_eqb a c = true).

Definition eq_classb (L : list expr) : bool :=
  forallb (fun a => forallb (fun b =>
     implb (key_eqb (dict_key a) (dict_key b)) (expr_eqb a b) &&
     implb (expr_eqb a b) (expr_eqb b a) &&
     forallb (fun c => implb (expr_eqb a b && expr_eqb b c) (expr_eqb a c)) L) L) L.

Lemma eq_classb_sound L : eq_classb L = true -> eq_class L.
Proof.
  unfold eq_classb. intros H. rewrite forallb_forall in H.
  assert (H' : forall a b, In a L -> In b L ->
     implb (key_eqb (dict_key a) (dict_key b)) (expr_eqb a b) = true /\
     implb (expr_eqb a b) (expr_eqb b a) = true /\
     forall c, In c L -> implb (expr_eqb a b && expr_eqb b c) (expr_eqb a c) = true).
  { intros a b Ha Hb. specialize (H a Ha). rewrite forallb_forall in H. specialize (H b Hb).
    apply andb_true_iff in H as [H Hc]. apply andb_true_iff in H as [H1 H2].
    rewrite forallb_forall in Hc. auto. }
  split; [|split].
  - intros a b Ha Hb Hk. destruct (H' a b Ha Hb) as (I & _ & _). unfold key_eq in Hk. rewrite Hk in I. exact I.
  - intros a b Ha Hb E. destruct (H' a b Ha Hb) as (_ & I & _). rewrite E in I. exact I.
  - intros a b c Ha Hb Hc E1 E2. destruct (H' a b Ha Hb) as (_ & _ & I). specialize (I c Hc). rewrite E1, E2 in I. exact I.
Qed.

Lemma sim_on_class L a b :
  eq_class L -> sim L a b -> a = b \/ (In a L /\ In b L /\ expr_eqb a b = true).
Proof.
  intros (C1 & C2 & C3). induction 1 as [a b (Ha & Hb & [Hk|He])|a|a b _ IH|a b c _ IH1 _ IH2].
  - right. split; [exact Ha|]. split; [exact Hb|]. now apply C1.
  - right. auto.
  - now left.
  - destruct IH as [->|(Ha & Hb & E)]; [now left|]. right. split; [exact Hb|]. split; [exact Ha|]. now apply C2.
  - destruct IH1 as [->|(Ha & Hb & E1)]; [exact IH2|].
    destruct IH2 as [<-|(_ & Hc & E2)]; [right; auto|]. right. split; [exact Ha|]. split; [exact Hc|]. now apply (C3 a b c).
Qed.

Lemma unique_is_dedup_on_class q it :
  eq_class (ef_flat false q it) ->
  forall v, In v (ef_flat false q it) ->
    exists u, In u (ef_flat true q it) /\ (u = v \/ expr_eqb u v = true).
Proof.
  intros HC v Hv. destruct (unique_is_dedup q it) as [_ H]. destruct (H v Hv) as (u & Hu & Hs).
  exists u. split; [exact Hu|]. destruct (sim_on_class _ _ _ HC Hs) as [E|(_ & _ & E)]; auto.
Qed.
