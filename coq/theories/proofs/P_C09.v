(** C09 — soundness of the definite answers of symbolic_op that are derived from a literal difference,
    and the refutations (guessed answers for == / !=, answers inherited from unsound simplification). *)
From Coq Require Import ZArith List Bool String Lia.
From LV Require Import Base.Expr models.M_C08 models.M_C09 proofs.P_C08_sem proofs.P_C08_helpers proofs.P_C08.
Import ListNotations.
Open Scope Z_scope.

Section Sym.
Variable rho : env.
Notation tv := (tv rho).
Notation df := (df rho).

Lemma neg_node k y : df (SProd k [SPy (-1); y]) = df y /\ tv (SProd k [SPy (-1); y]) = - tv y.
Proof.
  rewrite df_prod, tv_prod, !alldf_cons, !prodv_cons, prodv_nil.
  change (tv (SPy (-1))) with (-1). change (df (SPy (-1))) with true.
  cbn [andb P_C08_sem.alldf forallb]. rewrite andb_true_r. split; [reflexivity|lia].
Qed.

Lemma py_neg_spec y : df y = true -> df (py_neg y) = true /\ tv (py_neg y) = - tv y.
Proof.
  intros Hy. destruct y; cbn [py_neg];
    try (destruct (neg_node KN (SInt v)) as [A B]; rewrite A, B; auto);
    try (match goal with |- context [SProd KN [SPy (-1); ?z]] => destruct (neg_node KN z) as [A B]; rewrite A, B; auto end).
  - split; reflexivity.
  - rewrite df_prod in Hy. rewrite df_prod, !tv_prod, alldf_cons, prodv_cons, Hy.
    change (tv (SPy (-1))) with (-1). change (df (SPy (-1))) with true. split; [reflexivity|lia].
Qed.

Lemma py_sub_spec x y : df x = true -> df y = true ->
  df (py_sub x y) = true /\ tv (py_sub x y) = tv x - tv y.
Proof.
  intros Hx Hy. unfold py_sub. destruct (truthy y) eqn:Ty.
  - destruct (py_neg_spec y Hy) as [Nd Nv].
    assert (Hgen : df (if truthy x then SSum KN [x; py_neg y] else py_neg y) = true /\
                   tv (if truthy x then SSum KN [x; py_neg y] else py_neg y) = tv x - tv y).
    { destruct (truthy x) eqn:Tx.
      - rewrite df_sum, tv_sum, !alldf_cons, !sumv_cons, sumv_nil, Hx, Nd, Nv. cbn. split; [reflexivity|lia].
      - rewrite (truthy_false rho x Hx Tx), Nv. split; [assumption|lia]. }
    destruct x; try exact Hgen.
    rewrite df_sum in Hx. rewrite df_sum, !tv_sum, alldf_app, sumv_app, Hx, alldf_cons, sumv_cons, sumv_nil, Nd, Nv.
    cbn. split; [reflexivity|lia].
  - rewrite (truthy_false rho y Hy Ty). split; [assumption|lia].
Qed.

(** what a chain says about the difference [dv] of the operands *)
Fixpoint cv (ch : chain) (dv : Z) : Prop :=
  match ch with
  | CLit v s => s = true -> dv = v
  | CNeg inner s => s = true -> cv inner (- dv)
  | _ => True
  end.

Lemma symdiff_cv wf fuel depth : forall x y, df x = true -> df y = true ->
  cv (symdiff wf fuel depth x y) (tv x - tv y).
Proof.
  induction depth as [|dp IH]; intros x y Hx Hy; cbn [symdiff]; [exact I|].
  destruct (simp_i all_flags wf fuel (py_sub x y)) as [[e s]| |] eqn:S; try exact I.
  destruct (py_sub_spec x y Hx Hy) as [Pd Pv].
  assert (Hs : s = true -> df e = true /\ tv e = tv x - tv y).
  { intros ->. destruct (simp_sound rho _ _ _ _ _ S) as [Z _]. destruct (Z Pd) as [A B]. split; congruence. }
  destruct (is_minus_prefix e) eqn:M.
  - cbn [cv]. intros Hst. destruct (Hs Hst) as [Ed Ev]. destruct (strip_spec rho e M) as [Sv Sd].
    replace (- (tv x - tv y)) with (tv (strip_minus_prefix e) - tv (SPy 0)).
    + apply IH; [congruence|reflexivity].
    + cbn [P_C08_sem.tv]. lia.
  - destruct e; try exact I; cbn [cv]; intros Hst; destruct (Hs Hst) as [_ Ev]; cbn [P_C08_sem.tv] in Ev; lia.
Qed.

Lemma decide_sound op ch : forall dv b c g, cv ch dv -> decide op ch = (Answer b, Some c, g) ->
  dv = c /\ b = cmp_z op c 0.
Proof.
  induction ch as [v s|s|inner IH s|e|]; intros dv b c g Hcv; cbn [decide].
  - destruct s; [|discriminate]. intros H. injection H as <- <- _. split; [apply Hcv|]; reflexivity.
  - destruct op; discriminate.
  - destruct (decide op inner) as [[a d] g'] eqn:D.
    set (a' := if is_eqne op then a else match a with Answer b0 => Answer (negb b0) | o => o end).
    destruct a' as [b'| |] eqn:A'; try discriminate. destruct d as [c'|]; [|discriminate].
    destruct (s && Bool.eqb b' (cmp_z op (- c') 0)) eqn:G; [|discriminate].
    apply andb_true_iff in G as [Gs Gb]. apply Bool.eqb_prop in Gb. intros H. injection H as <- <- _.
    cbn [cv] in Hcv. specialize (Hcv Gs).
    assert (Ha : exists b0, a = Answer b0).
    { subst a'. destruct (is_eqne op); destruct a; try discriminate; eauto. }
    destruct Ha as [b0 ->]. destruct (IH _ _ _ _ Hcv eq_refl) as [E1 _]. split; [lia|assumption].
  - destruct e; discriminate.
  - discriminate.
Qed.

Lemma cmp_z_diff op a b : cmp_z op a b = cmp_z op (a - b) 0.
Proof.
  destruct op; cbn [cmp_z].
  - destruct (a =? b) eqn:E1, (a - b =? 0) eqn:E2; try reflexivity;
      [apply Z.eqb_eq in E1; apply Z.eqb_neq in E2|apply Z.eqb_neq in E1; apply Z.eqb_eq in E2]; lia.
  - f_equal. destruct (a =? b) eqn:E1, (a - b =? 0) eqn:E2; try reflexivity;
      [apply Z.eqb_eq in E1; apply Z.eqb_neq in E2|apply Z.eqb_neq in E1; apply Z.eqb_eq in E2]; lia.
  - destruct (a <? b) eqn:E1, (a - b <? 0) eqn:E2; try reflexivity;
      [apply Z.ltb_lt in E1; apply Z.ltb_ge in E2|apply Z.ltb_ge in E1; apply Z.ltb_lt in E2]; lia.
  - destruct (a <=? b) eqn:E1, (a - b <=? 0) eqn:E2; try reflexivity;
      [apply Z.leb_le in E1; apply Z.leb_gt in E2|apply Z.leb_gt in E1; apply Z.leb_le in E2]; lia.
  - destruct (b <? a) eqn:E1, (0 <? a - b) eqn:E2; try reflexivity;
      [apply Z.ltb_lt in E1; apply Z.ltb_ge in E2|apply Z.ltb_ge in E1; apply Z.ltb_lt in E2]; lia.
  - destruct (b <=? a) eqn:E1, (0 <=? a - b) eqn:E2; try reflexivity;
      [apply Z.leb_le in E1; apply Z.leb_gt in E2|apply Z.leb_gt in E1; apply Z.leb_le in E2]; lia.
Qed.

End Sym.

(** A definite answer with a proven difference is right for every valuation that defines both operands. *)
Theorem symop_sound a op b v c g : symbolic_op a op b = (Answer v, Some c, g) ->
  forall rho x y, evalZ rho a = Some x -> evalZ rho b = Some y -> x - y = c /\ cmp_z op x y = v.
Proof.
  unfold symbolic_op, symchain. intros H rho x y Hx Hy.
  rewrite <- (to_of_expr a) in Hx. rewrite <- (to_of_expr b) in Hy.
  apply evalZ_some in Hx as [Dx Vx]. apply evalZ_some in Hy as [Dy Vy].
  pose proof (symdiff_cv rho default_wf default_fuel default_depth _ _ Dx Dy) as Hcv.
  destruct (decide_sound op _ _ _ _ _ Hcv H) as [E1 E2]. subst x y.
  split; [assumption|]. rewrite cmp_z_diff, E1. symmetry. assumption.
Qed.

(** The order operators never guess: a non-literal difference raises TypeError. *)
Lemma decide_order_no_guess op ch : is_eqne op = false -> snd (decide op ch) = false.
Proof.
  intros Ho. induction ch as [v s|s|inner IH s|e|]; cbn [decide].
  - reflexivity.
  - destruct op; try discriminate; reflexivity.
  - destruct (decide op inner) as [[a d] g]. cbn [snd] in *. assumption.
  - destruct e; reflexivity.
  - reflexivity.
Qed.

Theorem symop_order_never_guesses a op b : is_eqne op = false -> guessed_of (symbolic_op a op b) = false.
Proof. intros H. apply decide_order_no_guess. assumption. Qed.

(** every definite answer of the model is either proven, or a guess (== / != only), or follows an unsafe simplification run *)
Lemma decide_unproven op ch b g : decide op ch = (Answer b, None, g) ->
  g = true \/ (exists v, ch = CLit v false) \/ (exists inner s, ch = CNeg inner s).
Proof.
  destruct ch as [v s|s|inner s|e|]; cbn [decide].
  - destruct s; [discriminate|]. intros _. right. left. eauto.
  - destruct op; intros H; try discriminate; injection H as _ <-; auto.
  - intros _. right. right. eauto.
  - destruct e; discriminate.
  - discriminate.
Qed.

(** * witnesses *)
Open Scope string_scope.
Definition va := EVar "a". Definition vb := EVar "b". Definition vn := EVar "n".
Definition rho_eq : env := env_of [("a", 1); ("b", 1)].

(** F4: unrelated variables: [a == b] is answered False and [a != b] True although a = b is satisfiable *)
Lemma wit_guess_eq : symbolic_op va Ceq vb = (Answer false, None, true) /\
                     evalZ rho_eq va = Some 1 /\ evalZ rho_eq vb = Some 1.
Proof. repeat split; vm_compute; reflexivity. Qed.
Lemma wit_guess_ne : symbolic_op va Cne vb = (Answer true, None, true).
Proof. vm_compute; reflexivity. Qed.
Lemma wit_order_raises : answer_of (symbolic_op va Clt vb) = Raises RTypeError.
Proof. vm_compute; reflexivity. Qed.

(** F3 inherited: (a + b)/2 == a/2 + b/2 is answered True (a = b = 1: 1 vs 0) *)
Definition w_half_l : expr := EQuot false (ESum false [va; vb]) (EInt 2).
Definition w_half_r : expr := ESum false [EQuot false va (EInt 2); EQuot false vb (EInt 2)].
Lemma wit_unsound_simplify : symbolic_op w_half_l Ceq w_half_r = (Answer true, None, false) /\
  evalZ rho_eq w_half_l = Some 1 /\ evalZ rho_eq w_half_r = Some 0.
Proof. repeat split; vm_compute; reflexivity. Qed.

(** satisfiable instances of the proven class: n < n + 1, n + 1 > n (minus-prefix path), 2*n + 3 == 3 + n + n *)
Lemma ex_lt : symbolic_op vn Clt (ESum false [vn; EInt 1]) = (Answer true, Some (-1), false).
Proof. vm_compute; reflexivity. Qed.
Lemma ex_gt : symbolic_op (ESum false [vn; EInt 1]) Cgt vn = (Answer true, Some 1, false).
Proof. vm_compute; reflexivity. Qed.
Lemma ex_eq : symbolic_op (ESum false [EProd false [EInt 2; vn]; EInt 3]) Ceq (ESum false [EInt 3; vn; vn]) = (Answer true, Some 0, false).
Proof. vm_compute; reflexivity. Qed.
