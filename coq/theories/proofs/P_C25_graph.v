(** C25 — the graph rebuilt after every processing step (model M_C25): no dangling edge, every dependency of a
    node is a node, every node is reachable from the seed. *)
From Coq Require Import List Bool String Ascii Arith.
From LV Require Import models.M_C25.
Import ListNotations.
Open Scope string_scope.
Open Scope list_scope.

Lemma nref_eqb_eq a b : nref_eqb a b = true <-> a = b.
Proof.
  destruct a, b; cbn; try (split; [discriminate|congruence]).
  - rewrite andb_true_iff, !String.eqb_eq. split; [intros [-> ->]; reflexivity|intros E; inversion E; auto].
  - rewrite String.eqb_eq. split; congruence.
  - rewrite String.eqb_eq. split; congruence.
Qed.

Lemma nref_eqb_refl a : nref_eqb a a = true.
Proof. now apply nref_eqb_eq. Qed.

Lemma mem_n_In x l : mem_n x l = true <-> In x l.
Proof.
  induction l as [|y r IH]; cbn; [split; [discriminate|contradiction]|].
  rewrite orb_true_iff, nref_eqb_eq, IH. tauto.
Qed.

Lemma mem_n_false x l : mem_n x l = false <-> ~ In x l.
Proof. rewrite <- mem_n_In. destruct (mem_n x l); split; congruence. Qed.

Lemma dedup_n_In x l : In x (dedup_n l) <-> In x l.
Proof.
  induction l as [|y r IH]; cbn; [tauto|].
  destruct (mem_n y r) eqn:E.
  - rewrite IH. apply mem_n_In in E. split; [auto|intros [<-|H]; auto].
  - cbn. rewrite IH. tauto.
Qed.

(** [deps_of] does not look at the graph fields *)
Lemma deps_of_graph_irrelevant st ns es n :
  deps_of (mk_state (st_srcs st) (st_cache st) ns es (st_removed st) (st_added st)) n = deps_of st n.
Proof. destruct st; reflexivity. Qed.

(** * the worklist invariant *)
Section Close.
  Variable st : state.
  Let D := deps_of st.

  Definition closed_part (work seen : list nref) : Prop :=
    forall x, In x seen -> ~ In x work -> forall d, In d (D x) -> In d seen.
  Definition edges_ok (seen : list nref) (edges : list (nref * nref)) : Prop :=
    forall x y, In (x, y) edges -> In x seen /\ In y seen /\ In y (D x).

  Lemma close_inv fuel : forall work seen edges ns es fl,
    incl work seen -> closed_part work seen -> edges_ok seen edges ->
    close fuel st work seen edges = (ns, es, fl) ->
    incl seen ns /\ edges_ok ns es /\ (fl = true -> closed_part [] ns).
  Proof.
    induction fuel as [|f IH]; intros work seen edges ns es fl Hw Hc He H; cbn [close] in H.
    - inversion H; subst. split; [apply incl_refl|]. split; [exact He|].
      destruct work; [intros _; exact Hc|discriminate].
    - destruct work as [|x w].
      + inversion H; subst. split; [apply incl_refl|]. split; [exact He|intros _; exact Hc].
      + set (ds := dedup_n (deps_of st x)) in *.
        set (new := filter (fun d => negb (mem_n d seen)) ds) in *.
        assert (Hx : In x seen) by (apply Hw; now left).
        assert (Hds : forall d, In d ds <-> In d (D x)) by (intros d; apply dedup_n_In).
        assert (Hnew : forall d, In d ds -> In d (seen ++ new)).
        { intros d Hd. apply in_or_app. destruct (mem_n d seen) eqn:E; [left; now apply mem_n_In|].
          right. apply filter_In. split; [exact Hd|now rewrite E]. }
        destruct (IH (w ++ new) (seen ++ new)
                     (edges ++ map (fun d => (x, d)) (filter (fun d => negb (nref_eqb d x)) ds)) ns es fl) as (I1 & I2 & I3); auto.
        * intros y Hy. apply in_app_or in Hy as [Hy|Hy]; apply in_or_app; [left; apply Hw; now right|now right].
        * intros y Hy Hnw d Hd.
          apply in_app_or in Hy as [Hy|Hy].
          -- destruct (nref_eqb y x) eqn:Eyx.
             ++ apply nref_eqb_eq in Eyx as ->. apply Hnew, Hds, Hd.
             ++ apply in_or_app. left. apply (Hc y Hy); [|exact Hd].
                intros [E|Hyw]; [subst; now rewrite nref_eqb_refl in Eyx|].
                apply Hnw, in_or_app. now left.
          -- exfalso. apply Hnw, in_or_app. now right.
        * intros a b Hab. apply in_app_or in Hab as [Hab|Hab].
          -- destruct (He a b Hab) as (A & B & Cc). repeat split; auto; apply in_or_app; now left.
          -- apply in_map_iff in Hab as (d & E & Hd). inversion E; subst. apply filter_In in Hd as [Hd _].
             repeat split; [apply in_or_app; now left|now apply Hnew|now apply Hds].
        * split; [|split; assumption]. intros y Hy. apply I1, in_or_app. now left.
  Qed.

  (** reachability from the seed through [deps_of] *)
  Inductive reach (seed : nref) : nref -> Prop :=
  | reach_seed : reach seed seed
  | reach_step x d : reach seed x -> In d (D x) -> reach seed d.

End Close.

Section Close2.
  Variable st : state.
  Let D := deps_of st.

  Lemma close_reach (seeds : list nref) fuel : forall work seen edges ns es fl,
    (forall x, In x seen -> exists s, In s seeds /\ reach st s x) -> incl work seen ->
    close fuel st work seen edges = (ns, es, fl) ->
    forall x, In x ns -> exists s, In s seeds /\ reach st s x.
  Proof.
    induction fuel as [|f IH]; intros work seen edges ns es fl Hs Hw H; cbn [close] in H.
    - inversion H; subst. exact Hs.
    - destruct work as [|x w]; [inversion H; subst; exact Hs|].
      eapply IH; [| |exact H].
      + intros y Hy. apply in_app_or in Hy as [Hy|Hy]; [now apply Hs|].
        apply filter_In in Hy as [Hy _]. apply (proj1 (dedup_n_In _ _)) in Hy.
        destruct (Hs x (Hw x (or_introl eq_refl))) as (s0 & Hs0 & R). exists s0. split; [exact Hs0|].
        eapply reach_step; [exact R|exact Hy].
      + intros y Hy. apply in_app_or in Hy as [Hy|Hy]; apply in_or_app; [left; apply Hw; now right|now right].
  Qed.
End Close2.

(** * the rebuilt graph *)
Lemma rebuild_fields seed st st' :
  rebuild seed st = Some st' ->
  st_srcs st' = st_srcs st /\ st_cache st' = st_cache st /\ st_removed st' = st_removed st /\ st_added st' = st_added st.
Proof.
  unfold rebuild. destruct (close _ st seed seed []) as [[ns es] [|]]; [|discriminate].
  intros H; inversion H; subst; cbn. auto.
Qed.

Lemma deps_of_rebuild seed st st' : rebuild seed st = Some st' -> forall n, deps_of st' n = deps_of st n.
Proof.
  unfold rebuild. destruct (close _ st seed seed []) as [[ns es] [|]]; [|discriminate].
  intros H; inversion H; subst. intros n. apply deps_of_graph_irrelevant.
Qed.

Theorem rebuild_spec seed st st' :
  rebuild seed st = Some st' ->
  incl seed (st_nodes st') /\
  (forall x d, In x (st_nodes st') -> In d (deps_of st' x) -> In d (st_nodes st')) /\
  (forall x y, In (x, y) (st_edges st') -> In x (st_nodes st') /\ In y (st_nodes st') /\ In y (deps_of st' x)) /\
  (forall x, In x (st_nodes st') -> exists s, In s seed /\ reach st' s x).
Proof.
  intros H. pose proof (deps_of_rebuild _ _ _ H) as HD. revert H. unfold rebuild.
  destruct (close _ st seed seed []) as [[ns es] fl] eqn:E. destruct fl; [|discriminate].
  intros H; inversion H; subst; cbn [st_nodes st_edges] in *.
  assert (Hc0 : closed_part st seed seed) by (intros x Hx Hn; exfalso; apply Hn; exact Hx).
  assert (He0 : edges_ok st seed []) by (intros x y []).
  destruct (close_inv st _ seed seed [] ns es true (incl_refl _) Hc0 He0 E) as (I1 & I2 & I3).
  split; [exact I1|]. split; [|split].
  - intros x d Hx Hd. rewrite HD in Hd. apply (I3 eq_refl x Hx); auto.
  - intros x y Hxy. destruct (I2 x y Hxy) as (A & B & Cc). rewrite HD. auto.
  - intros x Hx.
    assert (R : exists s, In s seed /\ reach st s x).
    { eapply (close_reach st seed _ seed seed [] ns es true); [| |exact E|exact Hx].
      - intros y Hy. exists y. split; [exact Hy|constructor].
      - apply incl_refl. }
    destruct R as (s0 & Hs0 & R). exists s0. split; [exact Hs0|].
    clear -R HD. induction R; [constructor|]. econstructor; [eassumption|]. now rewrite HD.
Qed.

(** boolean forms *)
Lemma rebuild_refs_resolve seed st st' : rebuild seed st = Some st' -> refs_resolve st' = true.
Proof.
  intros H. destruct (rebuild_spec _ _ _ H) as (_ & Hc & _).
  unfold refs_resolve. apply forallb_forall. intros x Hx. apply forallb_forall. intros d Hd.
  apply mem_n_In. eapply Hc; eauto.
Qed.

Lemma rebuild_no_dangling seed st st' : rebuild seed st = Some st' -> no_dangling st' = true.
Proof.
  intros H. destruct (rebuild_spec _ _ _ H) as (_ & _ & He & _).
  unfold no_dangling. apply forallb_forall. intros [x y] Hxy. cbn.
  destruct (He x y Hxy) as (A & B & _). apply andb_true_iff. split; now apply mem_n_In.
Qed.
