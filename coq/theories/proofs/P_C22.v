(** C22 — proofs about the model of Scheduler.process_transformation (M_C22.v). *)
From Coq Require Import String Ascii List Bool Arith Lia.
From LV Require Import Base.Strings models.M_C22.
Import ListNotations.
Open Scope string_scope.
Open Scope list_scope.

(* ------------------------------------------------------------------------- *)
(** * Folded names *)

Lemma name_eqb_iff a b : name_eqb a b = true <-> lower a = lower b.
Proof. unfold name_eqb. apply String.eqb_eq. Qed.

Lemma name_eqb_false_iff a b : name_eqb a b = false <-> lower a <> lower b.
Proof. unfold name_eqb. apply String.eqb_neq. Qed.

Lemma name_eqb_refl a : name_eqb a a = true.
Proof. apply name_eqb_iff. reflexivity. Qed.

Lemma name_eqb_sym a b : name_eqb a b = name_eqb b a.
Proof. unfold name_eqb. apply String.eqb_sym. Qed.

Lemma name_eqb_ext_l a a' b : lower a = lower a' -> name_eqb a b = name_eqb a' b.
Proof. unfold name_eqb. intros ->. reflexivity. Qed.

Lemma name_eqb_ext_r a b b' : lower b = lower b' -> name_eqb a b = name_eqb a b'.
Proof. unfold name_eqb. intros ->. reflexivity. Qed.

Lemma mem_name_iff n l : mem_name n l = true <-> In (lower n) (map lower l).
Proof.
  induction l as [|m r IH]; cbn.
  - split; [discriminate|tauto].
  - rewrite orb_true_iff, IH, name_eqb_iff. split; intros [H|H]; auto.
Qed.

Lemma mem_name_ext n n' l : lower n = lower n' -> mem_name n l = mem_name n' l.
Proof.
  intros E. induction l as [|m r IH]; cbn; [reflexivity|].
  now rewrite IH, (name_eqb_ext_l _ _ _ E).
Qed.

Lemma mem_name_false_iff n l : mem_name n l = false <-> ~ In (lower n) (map lower l).
Proof.
  rewrite <- mem_name_iff. destruct (mem_name n l); split; intros; try congruence; auto.
Qed.

Lemma nodup_names_iff l : nodup_names l = true <-> NoDup (map lower l).
Proof.
  induction l as [|n r IH]; cbn.
  - split; [constructor|reflexivity].
  - rewrite andb_true_iff, negb_true_iff, IH, mem_name_false_iff. split.
    + intros [H1 H2]. constructor; assumption.
    + intros H. inversion H; subst. split; assumption.
Qed.

(** folded name of an item *)
Definition fname (it : item) : string := lower (iname it).

Lemma map_fname l : map fname l = map lower (map iname l).
Proof. now rewrite map_map. Qed.

Lemma find_item_Some n l it :
  find_item n l = Some it -> In it l /\ lower n = fname it.
Proof.
  induction l as [|x r IH]; cbn; [discriminate|].
  destruct (name_eqb n (iname x)) eqn:E.
  - intros [= <-]. split; [now left|]. now apply name_eqb_iff.
  - intros H. destruct (IH H). split; [now right|assumption].
Qed.

Lemma find_item_None n l :
  find_item n l = None -> ~ In (lower n) (map fname l).
Proof.
  induction l as [|x r IH]; cbn; [tauto|].
  destruct (name_eqb n (iname x)) eqn:E; [discriminate|].
  intros H [H1|H1].
  - apply name_eqb_false_iff in E. unfold fname in H1. congruence.
  - now apply IH.
Qed.

Lemma find_item_ext n n' l : lower n = lower n' -> find_item n l = find_item n' l.
Proof.
  intros E. induction l as [|x r IH]; cbn; [reflexivity|].
  now rewrite IH, (name_eqb_ext_l _ _ _ E).
Qed.

Lemma NoDup_map_inj {A B} (f : A -> B) l x y :
  NoDup (map f l) -> In x l -> In y l -> f x = f y -> x = y.
Proof.
  induction l as [|a r IH]; cbn; [tauto|].
  intros H. inversion H as [|? ? Hn Hr]; subst.
  intros [->|Hx] [->|Hy] E; auto.
  - exfalso. apply Hn. rewrite E. now apply in_map.
  - exfalso. apply Hn. rewrite <- E. now apply in_map.
Qed.

Lemma find_item_In n l it :
  NoDup (map fname l) -> In it l -> lower n = fname it -> find_item n l = Some it.
Proof.
  intros ND Hin E.
  destruct (find_item n l) as [it'|] eqn:F.
  - apply find_item_Some in F as [Hin' E']. f_equal.
    apply (NoDup_map_inj fname l); auto. congruence.
  - exfalso. apply find_item_None in F. apply F. rewrite E. now apply in_map.
Qed.

Lemma NoDup_map_filter {A B} (f : A -> B) (p : A -> bool) l :
  NoDup (map f l) -> NoDup (map f (filter p l)).
Proof.
  induction l as [|a r IH]; cbn; [auto|].
  intros H. inversion H as [|? ? Hn Hr]; subst.
  destruct (p a); cbn; auto. constructor; auto.
  intros Hin. apply Hn. apply in_map_iff in Hin as (x & Ex & Hx).
  apply filter_In in Hx as [Hx _]. rewrite <- Ex. now apply in_map.
Qed.

Lemma NoDup_map_rev {A B} (f : A -> B) l : NoDup (map f l) -> NoDup (map f (rev l)).
Proof.
  intros H. rewrite map_rev. apply NoDup_rev. exact H.
Qed.

Lemma NoDup_of_map {A B} (f : A -> B) l : NoDup (map f l) -> NoDup l.
Proof.
  induction l as [|a r IH]; cbn; [constructor|].
  intros H. inversion H; subst. constructor; auto.
  intros Hin. apply H2. now apply in_map.
Qed.

(* ------------------------------------------------------------------------- *)
(** * What [is_topo] gives *)

Record topo (g : graph) (order : list string) : Prop := mkTopo {
  t_nodes_nodup : NoDup (map fname (nodes g));
  t_order_nodup : NoDup (map lower order);
  t_nodes_in    : forall it, In it (nodes g) -> In (fname it) (map lower order);
  t_order_in    : forall n, In n order -> In (lower n) (map fname (nodes g));
  t_edges       : forall e, In e (edges g) -> edge_fwd order e = true
}.

Lemma is_topo_spec g order : is_topo g order = true <-> topo g order.
Proof.
  unfold is_topo. rewrite !andb_true_iff, !forallb_forall, !nodup_names_iff.
  split.
  - intros ((((H1 & H2) & H3) & H4) & H5). constructor; auto.
    + now rewrite map_fname.
    + intros it Hit. apply mem_name_iff. now apply H3.
    + intros n Hn. rewrite map_fname. apply mem_name_iff. now apply H4.
  - intros [H1 H2 H3 H4 H5]. repeat split; auto.
    + now rewrite <- map_fname.
    + intros it Hit. apply mem_name_iff. now apply H3.
    + intros n Hn. apply mem_name_iff. rewrite <- map_fname. now apply H4.
Qed.

Lemma order_items_app g l1 l2 :
  order_items g (l1 ++ l2) = order_items g l1 ++ order_items g l2.
Proof. unfold order_items. apply flat_map_app. Qed.

Lemma order_items_sub g order it :
  In it (order_items g order) -> In it (nodes g) /\ In (fname it) (map lower order).
Proof.
  unfold order_items. intros H. apply in_flat_map in H as (n & Hn & H).
  destruct (find_item n (nodes g)) as [x|] eqn:F; [|destruct H].
  destruct H as [<-|[]]. apply find_item_Some in F as [Hx E]. split; auto.
  rewrite <- E. now apply in_map.
Qed.

Lemma order_items_names g order :
  (forall n, In n order -> In (lower n) (map fname (nodes g))) ->
  map fname (order_items g order) = map lower order.
Proof.
  induction order as [|n r IH]; intros H; cbn; [reflexivity|].
  destruct (find_item n (nodes g)) as [x|] eqn:F.
  - cbn. apply find_item_Some in F as [_ E]. rewrite <- E. f_equal.
    apply IH. intros m Hm. apply H. now right.
  - exfalso. apply find_item_None in F. apply F. apply H. now left.
Qed.

Lemma order_items_In g order it :
  topo g order -> (In it (order_items g order) <-> In it (nodes g)).
Proof.
  intros T. split.
  - intros H. now apply order_items_sub in H.
  - intros H. pose proof (t_nodes_in _ _ T it H) as Hin.
    apply in_map_iff in Hin as (n & En & Hn).
    unfold order_items. apply in_flat_map. exists n. split; auto.
    rewrite (find_item_In n (nodes g) it); [now left| |auto|auto].
    apply (t_nodes_nodup _ _ T).
Qed.

Lemma order_items_nodup g order :
  topo g order -> NoDup (map fname (order_items g order)).
Proof.
  intros T. rewrite order_items_names; [apply (t_order_nodup _ _ T)|apply (t_order_in _ _ T)].
Qed.

Definition traversal (g : graph) (order : list string) (rev_ : bool) : list item :=
  if rev_ then rev (order_items g order) else order_items g order.

Lemma sfilter_unfold g order s :
  sfilter g order s = filter (sel s) (traversal g order (sf_reverse s)).
Proof. reflexivity. Qed.

(** ** every selected item exactly once *)
Lemma visit_once g order s :
  is_topo g order = true ->
  NoDup (map fname (sfilter g order s)) /\
  (forall it, In it (sfilter g order s) <-> In it (nodes g) /\ sel s it = true).
Proof.
  intros H. apply is_topo_spec in H. rewrite sfilter_unfold. split.
  - apply NoDup_map_filter. unfold traversal. destruct (sf_reverse s).
    + apply NoDup_map_rev. now apply order_items_nodup.
    + now apply order_items_nodup.
  - intros it. rewrite filter_In. unfold traversal.
    destruct (sf_reverse s); [rewrite <- in_rev|]; now rewrite order_items_In.
Qed.

(* ------------------------------------------------------------------------- *)
(** * Order *)

Definition before {A} (x y : A) (l : list A) : Prop :=
  exists l1 l2 l3, l = l1 ++ x :: l2 ++ y :: l3.

Lemma index_of_ext n n' l : lower n = lower n' -> index_of n l = index_of n' l.
Proof.
  intros E. induction l as [|m r IH]; cbn; [reflexivity|].
  now rewrite IH, (name_eqb_ext_l _ _ _ E).
Qed.

Lemma index_of_split a l i :
  index_of a l = Some i ->
  exists l1 na l2, l = l1 ++ na :: l2 /\ length l1 = i /\ lower na = lower a.
Proof.
  revert i. induction l as [|m r IH]; cbn; intros i; [discriminate|].
  destruct (name_eqb a m) eqn:E.
  - intros [= <-]. exists [], m, r. repeat split. symmetry. now apply name_eqb_iff.
  - destruct (index_of a r) as [k|] eqn:F; [|discriminate].
    intros [= <-]. destruct (IH k eq_refl) as (l1 & na & l2 & -> & <- & En).
    exists (m :: l1), na, l2. repeat split; auto.
Qed.

Lemma index_lt_split a b l i j :
  index_of a l = Some i -> index_of b l = Some j -> i < j ->
  exists l1 na l2 nb l3, l = l1 ++ na :: l2 ++ nb :: l3 /\ lower na = lower a /\ lower nb = lower b.
Proof.
  revert i j. induction l as [|m r IH]; cbn; intros i j; [discriminate|].
  destruct (name_eqb a m) eqn:Ea.
  - intros [= <-]. destruct (name_eqb b m) eqn:Eb; [intros [= <-]; lia|].
    destruct (index_of b r) as [k|] eqn:F; [|discriminate].
    intros _ _. destruct (index_of_split _ _ _ F) as (l2 & nb & l3 & -> & _ & En).
    exists [], m, l2, nb, l3. repeat split; auto. symmetry. now apply name_eqb_iff.
  - destruct (index_of a r) as [k|] eqn:Fa; [|discriminate]. intros [= <-].
    destruct (name_eqb b m) eqn:Eb; [intros [= <-]; lia|].
    destruct (index_of b r) as [k'|] eqn:Fb; [|discriminate]. intros [= <-] Hlt.
    destruct (IH k k' eq_refl eq_refl) as (l1 & na & l2 & nb & l3 & -> & E1 & E2); [lia|].
    exists (m :: l1), na, l2, nb, l3. repeat split; auto.
Qed.

(** dependency paths (names are matched up to letter case) *)
Inductive reach (g : graph) : string -> string -> Prop :=
| reach_edge a b x y : In (a, b) (edges g) -> lower a = lower x -> lower b = lower y -> reach g x y
| reach_trans x y z : reach g x y -> reach g y z -> reach g x z.

Lemma reach_index g order x y :
  topo g order -> reach g x y ->
  exists i j, index_of x order = Some i /\ index_of y order = Some j /\ i < j.
Proof.
  intros T R. induction R as [a b x y Hin Ea Eb | x y z _ IH1 _ IH2].
  - pose proof (t_edges _ _ T _ Hin) as F. unfold edge_fwd in F. cbn in F.
    destruct (index_of a order) as [i|] eqn:Fa; [|discriminate].
    destruct (index_of b order) as [j|] eqn:Fb; [|discriminate].
    exists i, j. rewrite <- (index_of_ext _ _ _ Ea), <- (index_of_ext _ _ _ Eb).
    repeat split; auto. now apply Nat.ltb_lt.
  - destruct IH1 as (i & j & H1 & H2 & L1). destruct IH2 as (j' & k & H3 & H4 & L2).
    rewrite H2 in H3. injection H3 as <-. exists i, k. repeat split; auto. lia.
Qed.

Lemma reach_irrefl g order x : topo g order -> ~ reach g x x.
Proof.
  intros T R. destruct (reach_index _ _ _ _ T R) as (i & j & H1 & H2 & L).
  rewrite H1 in H2. injection H2 as <-. lia.
Qed.

Lemma order_items_cons_found g n r it :
  find_item n (nodes g) = Some it -> order_items g (n :: r) = it :: order_items g r.
Proof. intros F. unfold order_items. cbn. now rewrite F. Qed.

Lemma before_order_items g order x y ix iy :
  topo g order -> reach g x y ->
  find_item x (nodes g) = Some ix -> find_item y (nodes g) = Some iy ->
  before ix iy (order_items g order).
Proof.
  intros T R Fx Fy.
  destruct (reach_index _ _ _ _ T R) as (i & j & H1 & H2 & L).
  destruct (index_lt_split _ _ _ _ _ H1 H2 L) as (l1 & na & l2 & nb & l3 & -> & Ea & Eb).
  exists (order_items g l1), (order_items g l2), (order_items g l3).
  rewrite order_items_app.
  rewrite (order_items_cons_found g na _ ix) by (rewrite (find_item_ext _ _ _ Ea); exact Fx).
  rewrite order_items_app.
  rewrite (order_items_cons_found g nb _ iy) by (rewrite (find_item_ext _ _ _ Eb); exact Fy).
  reflexivity.
Qed.

Lemma before_filter {A} (p : A -> bool) x y l :
  before x y l -> p x = true -> p y = true -> before x y (filter p l).
Proof.
  intros (l1 & l2 & l3 & ->) Hx Hy.
  exists (filter p l1), (filter p l2), (filter p l3).
  rewrite filter_app. cbn. rewrite Hx. rewrite filter_app. cbn. rewrite Hy. reflexivity.
Qed.

Lemma before_rev {A} (x y : A) l : before x y l -> before y x (rev l).
Proof.
  intros (l1 & l2 & l3 & ->). exists (rev l3), (rev l2), (rev l1).
  rewrite rev_app_distr. cbn. rewrite rev_app_distr. cbn.
  rewrite <- !app_assoc. cbn. reflexivity.
Qed.

(** ** callers before callees (default), callees before callers (reverse traversal);
       stated for dependency PATHS, direct edges being the special case [reach_edge] *)
Lemma callers_first g order s x y ix iy :
  is_topo g order = true -> sf_reverse s = false ->
  reach g x y ->
  find_item x (nodes g) = Some ix -> find_item y (nodes g) = Some iy ->
  sel s ix = true -> sel s iy = true ->
  before ix iy (sfilter g order s).
Proof.
  intros H Hr R Fx Fy Sx Sy. apply is_topo_spec in H.
  rewrite sfilter_unfold, Hr. cbn. apply before_filter; auto.
  now apply (before_order_items g order x y).
Qed.

Lemma callees_first g order s x y ix iy :
  is_topo g order = true -> sf_reverse s = true ->
  reach g x y ->
  find_item x (nodes g) = Some ix -> find_item y (nodes g) = Some iy ->
  sel s ix = true -> sel s iy = true ->
  before iy ix (sfilter g order s).
Proof.
  intros H Hr R Fx Fy Sx Sy. apply is_topo_spec in H.
  rewrite sfilter_unfold, Hr. cbn. apply before_filter; auto.
  apply before_rev. now apply (before_order_items g order x y).
Qed.

Lemma edge_reach g a b : In (a, b) (edges g) -> reach g a b.
Proof. intros H. now apply (reach_edge g a b a b). Qed.

(* ------------------------------------------------------------------------- *)
(** * The loop body: externals *)

Lemma run_no_external plan l :
  (forall it, In it l -> iext it = false) -> run plan l = (l, Done).
Proof.
  induction l as [|it r IH]; intros H; cbn; [reflexivity|].
  rewrite (H it (or_introl eq_refl)). rewrite IH; [reflexivity|].
  intros x Hx. apply H. now right.
Qed.

Definition skippable (plan : bool) (it : item) : bool := iext it && plan && igen it.

Lemma run_spec plan l v o :
  run plan l = (v, o) ->
  match o with
  | Done => v = filter (fun it => negb (iext it)) l /\
            forall it, In it l -> iext it = true -> skippable plan it = true
  | ErrExternal n =>
      exists l1 it l2, l = l1 ++ it :: l2 /\ iext it = true /\ iname it = n /\
                       skippable plan it = false /\
                       v = filter (fun it => negb (iext it)) l1 /\
                       forall e, In e l1 -> iext e = true -> skippable plan e = true
  end.
Proof.
  revert v o. induction l as [|it r IH]; cbn; intros v o.
  - intros [= <- <-]. split; [reflexivity|tauto].
  - destruct (iext it) eqn:E.
    + destruct (plan && igen it) eqn:P.
      * intros H. specialize (IH _ _ H). destruct o.
        -- destruct IH as [-> IH]. split; [reflexivity|].
           intros x [<-|Hx] Ex; [|now apply IH].
           unfold skippable. now rewrite E, <- andb_assoc, P.
        -- destruct IH as (l1 & x & l2 & -> & Ex & En & Sk & -> & Hl1).
           exists (it :: l1), x, l2. repeat split; auto.
           ++ cbn. now rewrite E.
           ++ intros e [<-|He] Ee; [|now apply Hl1].
              unfold skippable. now rewrite E, <- andb_assoc, P.
      * intros [= <- <-]. exists [], it, r. repeat split; auto;
          try (unfold skippable; now rewrite E, <- andb_assoc, P); try (intros e []).
    + destruct (run plan r) as [v' o'] eqn:R. intros [= <- <-].
      specialize (IH _ _ eq_refl). destruct o'.
      * destruct IH as [-> IH]. split; [reflexivity|].
        intros x [<-|Hx] Ex; [congruence|now apply IH].
      * destruct IH as (l1 & x & l2 & -> & Ex & En & Sk & -> & Hl1).
        exists (it :: l1), x, l2. repeat split; auto.
        -- cbn. now rewrite E.
        -- intros e [<-|He] Ee; [congruence|now apply Hl1].
Qed.

Lemma sel_not_strict s it : sf_incl_ext s = false -> sel s it = true -> iext it = false.
Proof.
  unfold sel. intros ->. rewrite !andb_true_iff, orb_false_r, negb_true_iff. tauto.
Qed.

(* ------------------------------------------------------------------------- *)
(** * File graph *)

Lemma filter_mem_name p n l :
  mem_name n (filter p l) = true -> mem_name n l = true.
Proof.
  induction l as [|m r IH]; cbn; [auto|].
  destruct (p m); cbn; rewrite ?orb_true_iff; intuition.
Qed.

Lemma nodup_names_filter p l : nodup_names l = true -> nodup_names (filter p l) = true.
Proof.
  rewrite !nodup_names_iff. induction l as [|m r IH]; cbn; [auto|].
  intros H. inversion H; subst. destruct (p m); cbn; auto.
  constructor; auto. intros Hin. apply H2.
  apply in_map_iff in Hin as (x & Ex & Hx). apply filter_In in Hx as [Hx _].
  rewrite <- Ex. now apply in_map.
Qed.

Lemma dedup_nodup l : nodup_names (dedup l) = true.
Proof.
  induction l as [|n r IH]; cbn; [reflexivity|].
  rewrite andb_true_iff, negb_true_iff. split.
  - apply mem_name_false_iff. intros Hin.
    apply in_map_iff in Hin as (x & Ex & Hx). apply filter_In in Hx as [_ Hx].
    apply negb_true_iff, name_eqb_false_iff in Hx. congruence.
  - now apply nodup_names_filter.
Qed.

Lemma dedup_mem n l : mem_name n (dedup l) = mem_name n l.
Proof.
  induction l as [|m r IH]; cbn; [reflexivity|].
  destruct (name_eqb n m) eqn:E; cbn; [reflexivity|].
  rewrite <- IH. clear IH. induction (dedup r) as [|x d IHd]; cbn; [reflexivity|].
  destruct (name_eqb x m) eqn:Ex; cbn.
  - rewrite IHd. destruct (name_eqb n x) eqn:Enx; cbn; [|reflexivity].
    apply name_eqb_iff in Enx, Ex. apply name_eqb_false_iff in E. congruence.
  - now rewrite IHd.
Qed.

Lemma file_node_name files its f : iname (file_node files its f) = f.
Proof. unfold file_node. destruct (find_item f files); reflexivity. Qed.

Lemma file_node_ext files its f : iext (file_node files its f) = false.
Proof. unfold file_node. destruct (find_item f files); reflexivity. Qed.

Lemma fg_node_names g order f excl files :
  map iname (nodes (filegraph g order f excl files)) = dedup (map ifile (fg_items g order f excl)).
Proof.
  unfold filegraph. cbn. rewrite map_map.
  erewrite map_ext; [apply map_id|]. intros a. apply file_node_name.
Qed.

Lemma fg_nodes_nodup g order f excl files :
  NoDup (map fname (nodes (filegraph g order f excl files))).
Proof.
  rewrite map_fname, fg_node_names. apply nodup_names_iff, dedup_nodup.
Qed.

Lemma fg_nodes_no_external g order f excl files it :
  In it (nodes (filegraph g order f excl files)) -> iext it = false.
Proof.
  unfold filegraph. cbn. intros H. apply in_map_iff in H as (n & <- & _). apply file_node_ext.
Qed.

(** which files are nodes: those containing an item selected by the filter *)
Lemma fg_nodes_spec g order f excl files n :
  is_topo g order = true ->
  (In (lower n) (map fname (nodes (filegraph g order f excl files))) <->
   exists it, In it (nodes g) /\ sel (mkSF f false excl false None) it = true /\ lower (ifile it) = lower n).
Proof.
  intros H. rewrite map_fname, fg_node_names, <- mem_name_iff, dedup_mem, mem_name_iff.
  unfold fg_items. rewrite in_map_iff. split.
  - intros (x & Ex & Hx). apply in_map_iff in Hx as (it & <- & Hit).
    apply (visit_once g order _ H) in Hit as [Hn Hs]. exists it. auto.
  - intros (it & Hn & Hs & E). exists (ifile it). split; auto.
    apply in_map. apply (visit_once g order _ H). auto.
Qed.

Lemma succs_In g n c :
  In c (succs g n) <-> exists a, In (a, c) (edges g) /\ lower a = lower n.
Proof.
  unfold succs. rewrite in_map_iff. split.
  - intros ([a c'] & <- & H). apply filter_In in H as [H E]. cbn in *.
    exists a. split; auto. now apply name_eqb_iff.
  - intros (a & H & E). exists (a, c). split; auto. apply filter_In. split; auto.
    cbn. now apply name_eqb_iff.
Qed.

(** an item edge between selected items of different files is an edge of the file graph *)
Lemma fg_edge_of_item_edge g order f excl files x y ix iy :
  is_topo g order = true ->
  In (x, y) (edges g) ->
  find_item x (nodes g) = Some ix -> find_item y (nodes g) = Some iy ->
  sel (mkSF f false excl false None) ix = true -> sel (mkSF f false excl false None) iy = true ->
  lower (ifile ix) <> lower (ifile iy) ->
  In (ifile ix, ifile iy) (edges (filegraph g order f excl files)).
Proof.
  intros H He Fx Fy Sx Sy Hd.
  pose proof (visit_once g order (mkSF f false excl false None) H) as [ND SP].
  apply find_item_Some in Fx as [Hix Ex]. apply find_item_Some in Fy as [Hiy Ey].
  change (edges (filegraph g order f excl files)) with (fg_edges g (fg_items g order f excl)).
  change (sfilter g order (mkSF f false excl false None)) with (fg_items g order f excl) in ND, SP.
  unfold fg_edges.
  apply in_flat_map. exists ix. split; [apply SP; auto|].
  apply in_flat_map. exists y. split.
  - apply succs_In. exists x. split; auto.
  - rewrite (find_item_In y (fg_items g order f excl) iy); auto.
    + destruct (name_eqb (ifile iy) (ifile ix)) eqn:E; [|now left].
      apply name_eqb_iff in E. congruence.
    + apply SP. auto.
Qed.

(** the traversal of the file graph *)
Definition fg_flags (m : manifest) (strict : bool) (mode : option string) : sflags :=
  mkSF None (m_reverse m) false strict mode.

Lemma visit_filegraph g files order order_f m strict mode :
  m_filegraph m = true ->
  visit g files order order_f m strict mode =
  sfilter (filegraph g order (m_filter m) (negb (m_ignored m)) files) order_f (fg_flags m strict mode).
Proof. unfold visit. now intros ->. Qed.

Lemma visit_items g files order order_f m strict mode :
  m_filegraph m = false ->
  visit g files order order_f m strict mode =
  sfilter g order (mkSF (m_filter m) (m_reverse m) (negb (m_ignored m)) strict mode).
Proof. unfold visit. now intros ->. Qed.

Lemma visit_sel g files order order_f m strict mode it :
  In it (visit g files order order_f m strict mode) ->
  exists s, sf_incl_ext s = strict /\ sel s it = true.
Proof.
  unfold visit. destruct (m_filegraph m); rewrite sfilter_unfold; intros H;
    apply filter_In in H as [_ H].
  - exists (mkSF None (m_reverse m) false strict mode). split; [reflexivity|exact H].
  - exists (mkSF (m_filter m) (m_reverse m) (negb (m_ignored m)) strict mode). split; [reflexivity|exact H].
Qed.

(** without strict mode nothing aborts the processing: every visited item is applied *)
Lemma no_abort_when_not_strict g files order order_f m mode plan :
  process g files order order_f m false mode plan = (visit g files order order_f m false mode, Done).
Proof.
  unfold process. apply run_no_external. intros it Hit.
  apply visit_sel in Hit as (s & Hs & Hsel). now apply (sel_not_strict s).
Qed.

Lemma filegraph_visit_once g files order order_f m strict mode :
  m_filegraph m = true ->
  is_topo (filegraph g order (m_filter m) (negb (m_ignored m)) files) order_f = true ->
  let fg := filegraph g order (m_filter m) (negb (m_ignored m)) files in
  let v := visit g files order order_f m strict mode in
  NoDup (map fname v) /\
  (forall fi, In fi v <-> In fi (nodes fg) /\ sel (fg_flags m strict mode) fi = true).
Proof.
  intros Hf Ht fg v. subst v. rewrite visit_filegraph by exact Hf.
  exact (visit_once _ _ _ Ht).
Qed.

Lemma filegraph_order g files order order_f m strict mode x y ix iy fx fy :
  m_filegraph m = true ->
  is_topo g order = true ->
  is_topo (filegraph g order (m_filter m) (negb (m_ignored m)) files) order_f = true ->
  let fg := filegraph g order (m_filter m) (negb (m_ignored m)) files in
  let fsel := mkSF (m_filter m) false (negb (m_ignored m)) false None in
  In (x, y) (edges g) ->
  find_item x (nodes g) = Some ix -> find_item y (nodes g) = Some iy ->
  sel fsel ix = true -> sel fsel iy = true ->
  lower (ifile ix) <> lower (ifile iy) ->
  find_item (ifile ix) (nodes fg) = Some fx -> find_item (ifile iy) (nodes fg) = Some fy ->
  sel (fg_flags m strict mode) fx = true -> sel (fg_flags m strict mode) fy = true ->
  let v := visit g files order order_f m strict mode in
  if m_reverse m then before fy fx v else before fx fy v.
Proof.
  intros Hf Hg Ht fg fsel He Fx Fy Sx Sy Hd Ffx Ffy Sfx Sfy v. subst v.
  rewrite visit_filegraph by exact Hf.
  assert (R : reach fg (ifile ix) (ifile iy)).
  { apply edge_reach. now apply (fg_edge_of_item_edge g order (m_filter m) (negb (m_ignored m)) files x y). }
  destruct (m_reverse m) eqn:Er.
  - apply (callees_first fg order_f _ (ifile ix) (ifile iy)); auto.
  - apply (callers_first fg order_f _ (ifile ix) (ifile iy)); auto.
Qed.

(* ------------------------------------------------------------------------- *)
(** * Cycles *)

Lemma has_edge_reach g a b : has_edge g a b = true -> reach g a b.
Proof.
  unfold has_edge. rewrite existsb_exists. intros ([x y] & Hin & E). cbn in E.
  apply andb_true_iff in E as [E1 E2]. apply name_eqb_iff in E1, E2.
  now apply (reach_edge g x y a b).
Qed.

Lemma path_ok_reach g a l last : path_ok g a l last = true -> reach g a last.
Proof.
  revert a. induction l as [|b r IH]; cbn; intros a.
  - apply has_edge_reach.
  - rewrite andb_true_iff. intros [H1 H2]. eapply reach_trans; [apply has_edge_reach; eassumption|auto].
Qed.

Lemma cycle_no_topo g c order : is_cycle g c = true -> is_topo g order = false.
Proof.
  intros Hc. destruct (is_topo g order) eqn:T; [|reflexivity]. exfalso.
  apply is_topo_spec in T. destruct c as [|a r]; [discriminate|].
  cbn in Hc. apply path_ok_reach in Hc. exact (reach_irrefl g order a T Hc).
Qed.

(* ------------------------------------------------------------------------- *)
(** * Targets, successors *)

Lemma targets_spec raw excl n :
  In n (targets raw excl) <-> In n raw /\ mem_name n excl = false.
Proof. unfold targets. rewrite filter_In, negb_true_iff. tauto. Qed.

Lemma targets_order raw excl : exists p, targets raw excl = filter p raw.
Proof. eexists. reflexivity. Qed.

(** every successor handed to a transformation is a dependency (reachable through
    binding/interface items only) *)
Inductive chain (g : graph) : string -> string -> Prop :=
| chain_edge x c ci : In c (succs g x) -> find_item c (nodes g) = Some ci -> chain g x (iname ci)
| chain_step x c ci y : In c (succs g x) -> find_item c (nodes g) = Some ci ->
                        is_intermediate ci = true -> chain g (iname ci) y -> chain g x y.

Lemma succ_fold_sound (rec : string -> option (list string)) g f n :
  (forall x l, rec x = Some l -> forall y, In y l -> chain g x y) ->
  forall cs l, (forall c, In c cs -> In c (succs g n)) ->
  fold_right (succ_step rec g f) (Some []) cs = Some l ->
  forall y, In y l -> chain g n y.
Proof.
  intros Hrec. induction cs as [|c r IHr]; cbn; intros l Hsub.
  - intros [= <-] y [].
  - destruct (fold_right (succ_step rec g f) (Some []) r) as [rest|] eqn:FR; [|discriminate].
    assert (Hrest : forall y, In y rest -> chain g n y).
    { apply (IHr rest); auto. }
    assert (Hc : In c (succs g n)) by (apply Hsub; now left).
    unfold succ_step.
    destruct (find_item c (nodes g)) as [ci|] eqn:Fc.
    + destruct (inst_match f ci).
      * destruct (is_intermediate ci) eqn:Ei.
        -- destruct (rec (iname ci)) as [sub|] eqn:S; [|discriminate].
           intros [= <-] y [<-|Hy].
           ++ eapply chain_edge; eauto.
           ++ apply in_app_or in Hy as [Hy|Hy]; auto.
              eapply chain_step; eauto.
        -- intros [= <-] y [<-|Hy]; auto. eapply chain_edge; eauto.
      * intros [= <-]. auto.
    + intros [= <-]. auto.
Qed.

Lemma succ_gen_sound fuel g : forall f frec n l,
  succ_gen fuel g f frec n = Some l -> forall y, In y l -> chain g n y.
Proof.
  induction fuel as [|k IH]; intros f frec n l; cbn; [discriminate|].
  intros H. eapply succ_fold_sound; [|intros c Hc; exact Hc|exact H].
  intros x l' Hx. eapply IH; eauto.
Qed.

Lemma chain_reach g x y : chain g x y -> reach g x y.
Proof.
  induction 1 as [x c ci Hc F | x c ci y Hc F _ _ IH].
  - apply succs_In in Hc as (a & Hin & E). apply find_item_Some in F as [_ Ec].
    now apply (reach_edge g a c x (iname ci)).
  - eapply reach_trans; [|exact IH].
    apply succs_In in Hc as (a & Hin & E). apply find_item_Some in F as [_ Ec].
    now apply (reach_edge g a c x (iname ci)).
Qed.

(** direct children matching the filter are always listed *)
Lemma succ_fold_direct (rec : string -> option (list string)) g f cs : forall l c ci,
  fold_right (succ_step rec g f) (Some []) cs = Some l ->
  In c cs -> find_item c (nodes g) = Some ci -> inst_match f ci = true ->
  In (iname ci) l.
Proof.
  induction cs as [|c' r IHr]; cbn; intros l c ci; [intros _ []|].
  destruct (fold_right (succ_step rec g f) (Some []) r) as [rest|] eqn:FR; [|discriminate].
  unfold succ_step. intros Hl [<-|Hc] F M.
  - rewrite F, M in Hl. destruct (is_intermediate ci).
    + destruct (rec (iname ci)); [|discriminate]. injection Hl as <-. now left.
    + injection Hl as <-. now left.
  - assert (Hin : In (iname ci) rest) by (apply (IHr rest c ci); auto).
    destruct (find_item c' (nodes g)) as [ci'|].
    + destruct (inst_match f ci').
      * destruct (is_intermediate ci').
        -- destruct (rec (iname ci')); [|discriminate].
           injection Hl as <-. right. apply in_or_app. now right.
        -- injection Hl as <-. now right.
      * now injection Hl as <-.
    + now injection Hl as <-.
Qed.

(** direct children matching the filter are always listed *)
Lemma succ_gen_direct fuel g f frec n l c ci :
  succ_gen fuel g f frec n = Some l ->
  In c (succs g n) -> find_item c (nodes g) = Some ci -> inst_match f ci = true ->
  In (iname ci) l.
Proof.
  destruct fuel as [|k]; cbn; [discriminate|]. apply succ_fold_direct.
Qed.

Lemma successors_partial g f n l :
  sub_successors g f n = Some l ->
  (forall y, In y l -> chain g n y /\ reach g n y) /\
  (forall c ci, In c (succs g n) -> find_item c (nodes g) = Some ci ->
                inst_match (ext_filter f) ci = true -> In (iname ci) l).
Proof.
  intros H. split.
  - intros y Hy. assert (C : chain g n y) by (eapply succ_gen_sound; eauto).
    split; [exact C|now apply chain_reach].
  - intros c ci Hc F M. eapply succ_gen_direct; eauto.
Qed.

(* ------------------------------------------------------------------------- *)
(** * A non-trivial instance: the hypotheses are satisfiable *)

Definition ex_items : list item := [
  mkItem "#driver" KProc false false false "m0" "driver" "/p/a.f90";
  mkItem "tmod#q" KProc false false false "m0" "kernel" "/p/tmod.f90";
  mkItem "#c" KProc false false false "m0" "kernel" "/p/c.f90";
  mkItem "tmod#tt" KTypeDef false false false "m0" "kernel" "/p/tmod.f90";
  mkItem "tmod#tt%bp" KBinding false false false "m0" "kernel" "/p/tmod.f90";
  mkItem "tmod#bp_impl" KProc false false true "m0" "kernel" "/p/tmod.f90";
  mkItem "#ext" KProc true false false "m0" "kernel" ""
].
Definition ex_graph : graph := mkGraph ex_items
  [("#driver", "tmod#q"); ("#driver", "#c"); ("#c", "tmod#tt"); ("#c", "tmod#tt%bp"); ("#c", "#ext");
   ("tmod#tt%bp", "tmod#bp_impl"); ("tmod#bp_impl", "tmod#tt")].
Definition ex_order : list string :=
  ["#driver"; "tmod#q"; "#c"; "tmod#tt%bp"; "#ext"; "tmod#bp_impl"; "tmod#tt"].

Example ex_is_topo : is_topo ex_graph ex_order = true.
Proof. vm_compute. reflexivity. Qed.

Example ex_visit :
  map iname (sfilter ex_graph ex_order (mkSF (Some [KProc]) true true false None)) = ["#c"; "tmod#q"; "#driver"].
Proof. vm_compute. reflexivity. Qed.

Example ex_successors :
  sub_successors ex_graph (Some [KProc]) "#c" = Some ["tmod#tt%bp"; "tmod#bp_impl"].
Proof. vm_compute. reflexivity. Qed.
