(** C41 — ParametriseTransformation on one routine leaves a well-scoped unit.

    Kernel: the dummies that are keys of the dictionary leave the argument list; they stay declared (as
    constants) or, with replace-by-value, every occurrence is replaced by the literal and the declaration
    goes ("removed dummies are no longer referenced": [uses_subst]).  Entry point: the key dummies are
    renamed [parametrised_<x>], declared, and guarded.

    [param_class] is NOT sufficient as it stands: two scalar dummies of the same name (accepted by
    [well_scoped], which only asks that every dummy is declared) are both renamed at the entry point and the
    renamed name is then declared twice ([T_param_dup_dummy_refuted]).  The added decidable hypothesis is
    [param_extra]: at the entry point the renamed dummies are pairwise distinct (implied by "the dummy
    arguments are pairwise distinct", [param_extra_of_distinct_dummies]). *)
From Coq Require Import ZArith List Bool String Ascii Lia.
From LV Require Import Base.Expr Base.MiniF models.M_C41 proofs.P_C41_base.
From LV Require models.M_C39.
Import ListNotations.

(* ------------------------------------------------------------------------------------------ *)
(** * the added hypothesis *)

(** [renamed_dummies] / [param_extra] are defined in M_C41.v (the correspondence evaluates them) *)

(* ------------------------------------------------------------------------------------------ *)
(** * lists *)

Lemma NoDup_app_iff {A} (l1 l2 : list A) :
  NoDup (l1 ++ l2) <-> NoDup l1 /\ NoDup l2 /\ (forall x, In x l1 -> ~ In x l2).
Proof.
  induction l1 as [|a r IH]; cbn.
  - split.
    + intros H. repeat split; [constructor | exact H | intros x []].
    + intros [_ [H _]]. exact H.
  - split.
    + intros H. inversion H as [|? ? H2 H3]; subst. apply IH in H3. destruct H3 as [X [Y Z]].
      rewrite in_app_iff in H2. repeat split.
      * constructor; tauto.
      * exact Y.
      * intros x [E|E] Hin; [subst; tauto | apply (Z x); assumption].
    + intros [H1 [H2 H3]]. inversion H1 as [|? ? H4 H5]; subst. constructor.
      * rewrite in_app_iff. intros [E|E]; [contradiction | apply (H3 a); [left; reflexivity | exact E]].
      * apply IH. repeat split; [exact H5 | exact H2 |]. intros x Hx. apply H3. right. exact Hx.
Qed.

Lemma NoDup_map_inj {A B} (f : A -> B) l : (forall x y, f x = f y -> x = y) -> NoDup l -> NoDup (map f l).
Proof.
  intros Hf H. induction H as [|a r Ha Hr IH]; cbn; constructor; [|exact IH].
  intros Hin. apply in_map_iff in Hin. destruct Hin as [y [E Hy]]. apply Hf in E. subst. contradiction.
Qed.

Lemma map_fst_scalars (l : list string) : map fst (map (fun x : string => (x, KScalar)) l) = l.
Proof. rewrite map_map. cbn. apply map_id. Qed.

Lemma fm_transfer {A} (f : A -> A) (us : A -> list use) (Q : use -> Prop) l g :
  (forall a, In a l -> In g (us (f a)) -> In g (us a) /\ Q g) ->
  In g (flat_map us (map f l)) -> In g (flat_map us l) /\ Q g.
Proof.
  intros H Hin. apply in_flat_map in Hin. destruct Hin as [b [Hb Hg]].
  apply in_map_iff in Hb. destruct Hb as [a [E Ha]]. subst.
  destruct (H a Ha Hg) as [X Y]. split; [|exact Y]. apply in_flat_map. exists a. split; assumption.
Qed.

Lemma fm_filter {A} (P : A -> bool) (us : A -> list use) l g :
  In g (flat_map us (filter P l)) -> In g (flat_map us l).
Proof.
  intros Hin. apply in_flat_map in Hin. destruct Hin as [a [Ha Hg]]. apply filter_In in Ha.
  apply in_flat_map. exists a. split; [apply Ha | exact Hg].
Qed.

Lemma in_names_lookup env x : In x (map fst env) -> exists k, klookup env x = Some k.
Proof.
  intros H. destruct (klookup env x) as [k|] eqn:E; [exists k; reflexivity|].
  apply klookup_none in E. contradiction.
Qed.

Lemma scalars_lookup (l : list string) x :
  klookup (map (fun y : string => (y, KScalar)) l) x = if mem x l then Some KScalar else None.
Proof.
  induction l as [|y r IH]; cbn; [reflexivity|].
  rewrite (String.eqb_sym x y). destruct (String.eqb y x); cbn; [reflexivity | exact IH].
Qed.

Lemma mem_app x a b : mem x (a ++ b) = mem x a || mem x b.
Proof. unfold mem. apply existsb_app. Qed.

(* ------------------------------------------------------------------------------------------ *)
(** * the dictionary *)

Lemma kmem D x : M_C39.mem D x = mem x (map fst D).
Proof.
  unfold M_C39.mem. induction D as [|[k v] r IH]; cbn; [reflexivity|].
  rewrite (String.eqb_sym x k). destruct (String.eqb k x); cbn; [reflexivity | exact IH].
Qed.

Lemma kmem_In D x : M_C39.mem D x = true <-> In x (map fst D).
Proof. rewrite kmem. apply mem_In. Qed.

Lemma pname_inj x y : M_C39.pname x = M_C39.pname y -> x = y.
Proof. unfold M_C39.pname. cbn. intros H. inversion H. reflexivity. Qed.

(* ------------------------------------------------------------------------------------------ *)
(** * occurrences after the replacement of the keys by their literals *)

(** a use that survives replace-by-value: its name is not a key, or it is a subscripted name, or it is one of
    the names [hard] that statements keep (left-hand sides, DO variables) *)
Definition okuse (m : M_C39.pmode) (D : M_C39.dict) (hard : list string) (g : use) : Prop :=
  m = M_C39.MReplace ->
  M_C39.mem D (fst g) = false \/ (exists n, snd g = UArr n) \/ In (fst g) hard.

Lemma okuse_incl m D h h' g : incl h h' -> okuse m D h g -> okuse m D h' g.
Proof.
  intros Hi H M. destruct (H M) as [A|[A|A]]; [left; exact A | right; left; exact A | right; right; apply Hi; exact A].
Qed.

Lemma okuse_nil m D h g : okuse m D [] g -> okuse m D h g.
Proof. apply okuse_incl. intros x []. Qed.

(** removed names are no longer referenced *)
Lemma uses_subst D g e :
  In g (uses_e (M_C39.subst D e)) -> In g (uses_e e) /\ okuse M_C39.MReplace D [] g.
Proof.
  induction e as [v|v|x|b|p cs IH|p cs IH|p n d IHn IHd|p n d IHn IHd|op n d IHn IHd|cs IH|cs IH|n IHn|f cs IH]
    using expr_ind'.
  - cbn. intros [].
  - cbn. intros [].
  - cbn. destruct (M_C39.lookup D x) eqn:E; cbn; [intros []|].
    intros [A|[]]. subst. split; [left; reflexivity|].
    intros _. left. cbn. unfold M_C39.mem. rewrite E. reflexivity.
  - cbn. intros [].
  - cbn. apply fm_transfer. rewrite Forall_forall in IH. exact IH.
  - cbn. apply fm_transfer. rewrite Forall_forall in IH. exact IH.
  - cbn. rewrite !in_app_iff. intros [A|A]; [destruct (IHn A) | destruct (IHd A)]; split; auto.
  - cbn. rewrite !in_app_iff. intros [A|A]; [destruct (IHn A) | destruct (IHd A)]; split; auto.
  - cbn. rewrite !in_app_iff. intros [A|A]; [destruct (IHn A) | destruct (IHd A)]; split; auto.
  - cbn. apply fm_transfer. rewrite Forall_forall in IH. exact IH.
  - cbn. apply fm_transfer. rewrite Forall_forall in IH. exact IH.
  - cbn. exact IHn.
  - cbn. rewrite map_length, !in_app_iff. intros [A|A].
    + split; [left; exact A|]. destruct (is_intr f); [destruct A|]. destruct A as [A|[]]. subst.
      intros _. right. left. eexists. reflexivity.
    + rewrite Forall_forall in IH. destruct (fm_transfer _ _ _ _ _ IH A) as [X Y]. split; [right; exact X | exact Y].
Qed.

Lemma uses_te m D g e :
  In g (uses_e (M_C39.te m D e)) -> In g (uses_e e) /\ okuse m D [] g.
Proof.
  destruct m; cbn.
  - intros H. split; [exact H | intros M; discriminate].
  - apply uses_subst.
Qed.

Lemma uses_te_list m D g l :
  In g (uses_es (map (M_C39.te m D) l)) -> In g (uses_es l) /\ okuse m D [] g.
Proof. unfold uses_es. apply fm_transfer. intros a _. apply uses_te. Qed.

Lemma uses_te_opt m D g o :
  In g (uses_oe (option_map (M_C39.te m D) o)) -> In g (uses_oe o) /\ okuse m D [] g.
Proof. destruct o; cbn; [apply uses_te | intros []]. Qed.

Lemma hard_in_flat (b : list stmt) a : In a b -> incl (hard_names a) (flat_map hard_names b).
Proof. intros Ha x Hx. apply in_flat_map. exists a. split; assumption. Qed.

Lemma uses_body_step succ m D g (b : list stmt) :
  Forall (fun s => In g (uses_stmt (M_C39.tstmt succ m D s)) ->
                   In g (uses_stmt s) /\ okuse m D (hard_names s) g) b ->
  In g (flat_map uses_stmt (map (M_C39.tstmt succ m D) b)) ->
  In g (flat_map uses_stmt b) /\ okuse m D (flat_map hard_names b) g.
Proof.
  intros IH. apply fm_transfer. intros a Ha Hg. rewrite Forall_forall in IH.
  destruct (IH a Ha Hg) as [X Y]. split; [exact X|]. apply (okuse_incl _ _ (hard_names a)); [|exact Y].
  apply hard_in_flat. exact Ha.
Qed.

Lemma uses_tstmt succ m D g s :
  In g (uses_stmt (M_C39.tstmt succ m D s)) -> In g (uses_stmt s) /\ okuse m D (hard_names s) g.
Proof.
  induction s as [x e|a idx e|v lo hi st b IH|c b IH|c t e IHt IHe|f args|l] using stmt_ind'.
  - cbn. intros [A|A].
    + subst. split; [left; reflexivity|]. intros _. right. right. left. reflexivity.
    + destruct (uses_te _ _ _ _ A) as [X Y]. split; [right; exact X | apply okuse_nil; exact Y].
  - cbn. rewrite map_length. intros [A|A].
    + subst. split; [left; reflexivity|]. intros _. right. left. eexists. reflexivity.
    + rewrite in_app_iff in A. destruct A as [A|A].
      * destruct (uses_te_list _ _ _ _ A) as [X Y]. split; [|apply okuse_nil; exact Y].
        right. apply in_or_app. left. exact X.
      * destruct (uses_te _ _ _ _ A) as [X Y]. split; [|apply okuse_nil; exact Y].
        right. apply in_or_app. right. exact X.
  - cbn. intros [A|A].
    + subst. split; [left; reflexivity|]. intros _. right. right. left. reflexivity.
    + rewrite !in_app_iff in A. destruct A as [A|[A|[A|A]]].
      * destruct (uses_te _ _ _ _ A) as [X Y]. split; [|apply okuse_nil; exact Y].
        right. rewrite !in_app_iff. tauto.
      * destruct (uses_te _ _ _ _ A) as [X Y]. split; [|apply okuse_nil; exact Y].
        right. rewrite !in_app_iff. tauto.
      * destruct (uses_te_opt _ _ _ _ A) as [X Y]. split; [|apply okuse_nil; exact Y].
        right. rewrite !in_app_iff. tauto.
      * destruct (uses_body_step _ _ _ _ _ IH A) as [X Y]. split.
        -- right. rewrite !in_app_iff. tauto.
        -- apply (okuse_incl _ _ (flat_map hard_names b)); [apply incl_tl, incl_refl | exact Y].
  - cbn. rewrite !in_app_iff. intros [A|A].
    + destruct (uses_te _ _ _ _ A) as [X Y]. split; [left; exact X | apply okuse_nil; exact Y].
    + destruct (uses_body_step _ _ _ _ _ IH A) as [X Y]. split; [right; exact X | exact Y].
  - cbn. rewrite !in_app_iff. intros [A|[A|A]].
    + destruct (uses_te _ _ _ _ A) as [X Y]. split; [left; exact X | apply okuse_nil; exact Y].
    + destruct (uses_body_step _ _ _ _ _ IHt A) as [X Y]. split; [tauto|].
      apply (okuse_incl _ _ (flat_map hard_names t)); [apply incl_appl, incl_refl | exact Y].
    + destruct (uses_body_step _ _ _ _ _ IHe A) as [X Y]. split; [tauto|].
      apply (okuse_incl _ _ (flat_map hard_names e)); [apply incl_appr, incl_refl | exact Y].
  - cbn. intros A. destruct (uses_te_list _ _ _ _ A) as [X Y]. split; [|exact Y].
    destruct (succ f); [|exact X]. unfold M_C39.filter_args, uses_es in X. apply fm_filter in X. exact X.
  - cbn. intros [].
Qed.

Lemma uses_tstmts succ m D g b :
  In g (uses_stmts (M_C39.tstmts succ m D b)) ->
  In g (uses_stmts b) /\ okuse m D (flat_map hard_names b) g.
Proof.
  unfold uses_stmts, M_C39.tstmts. apply uses_body_step. apply Forall_forall. intros s _. apply uses_tstmt.
Qed.

Lemma uses_guard abort p v : uses_stmt (M_C39.guard_stmt abort p v) = (p, UAny) :: uses_stmts abort.
Proof.
  unfold M_C39.guard_stmt, M_C39.guard_cond, uses_stmts. cbn [uses_stmt uses_e flat_map app].
  rewrite app_nil_r. reflexivity.
Qed.

(* ------------------------------------------------------------------------------------------ *)
(** * declarations *)

Definition keys_scalar (D : M_C39.dict) (ps : list (string * bool)) : bool :=
  forallb (fun p : string * bool => negb (snd p && mem (fst p) (map fst D))) ps.

Lemma keys_scalar_spec D ps p :
  keys_scalar D ps = true -> In p ps -> M_C39.mem D (fst p) = true -> snd p = false.
Proof.
  unfold keys_scalar. rewrite forallb_forall. intros H Hp Hm. specialize (H p Hp).
  rewrite <- kmem, Hm, andb_true_r in H. apply negb_true_iff in H. exact H.
Qed.

(** the array dummies are untouched *)
Lemma c39_decls_same succ m abort entry D u :
  keys_scalar D (M_C39.u_params u) = true ->
  c39_param_decls (M_C39.t_params (M_C39.transform_unit succ m abort entry D u))
  = c39_param_decls (M_C39.u_params u).
Proof.
  cbn [M_C39.transform_unit M_C39.t_params]. generalize (M_C39.u_params u) as ps. intros ps H.
  assert (K : forall p, In p ps -> snd p = true -> M_C39.mem D (fst p) = false).
  { intros p Hp Hs. destruct (M_C39.mem D (fst p)) eqn:E; [|reflexivity].
    rewrite (keys_scalar_spec _ _ _ H Hp E) in Hs. discriminate. }
  clear H. unfold c39_param_decls. destruct entry.
  - induction ps as [|[x b] r IH]; [reflexivity|].
    cbn [map flat_map fst snd]. rewrite IH by (intros p Hp; apply K; right; exact Hp). f_equal.
    destruct b.
    + assert (Kx : M_C39.mem D x = false) by (apply (K (x, true)); [left; reflexivity | reflexivity]).
      rewrite Kx. reflexivity.
    + destruct (M_C39.mem D x); reflexivity.
  - induction ps as [|[x b] r IH]; [reflexivity|].
    cbn [filter fst snd]. destruct b.
    + assert (Kx : M_C39.mem D x = false) by (apply (K (x, true)); [left; reflexivity | reflexivity]).
      rewrite Kx. cbn [negb flat_map fst snd].
      rewrite IH by (intros p Hp; apply K; right; exact Hp). reflexivity.
    + destruct (M_C39.mem D x); cbn [negb flat_map fst snd app];
        apply IH; intros p Hp; apply K; right; exact Hp.
Qed.

Definition base_scalars (m : M_C39.pmode) (D : M_C39.dict) (u : M_C39.unit) : list string :=
  match m with
  | M_C39.MDecl => M_C39.u_decls u
  | M_C39.MReplace => filter (fun x => negb (M_C39.mem D x)) (M_C39.u_decls u)
  end.

Definition added_scalars (entry : bool) (D : M_C39.dict) (u : M_C39.unit) : list string :=
  if entry
  then flat_map (fun p : string * bool => if M_C39.mem D (fst p) && negb (snd p) then [M_C39.pname (fst p)] else [])
                (M_C39.u_params u)
  else [].

Lemma param_scalars_split m entry D u :
  param_scalars m entry D u = base_scalars m D u ++ added_scalars entry D u.
Proof. reflexivity. Qed.

Lemma base_sub m D u x : In x (base_scalars m D u) -> In x (M_C39.u_decls u).
Proof. destruct m; cbn; [tauto|]. intros H. apply filter_In in H. apply H. Qed.

Lemma base_keep m D u x :
  In x (M_C39.u_decls u) -> (m = M_C39.MReplace -> M_C39.mem D x = false) -> In x (base_scalars m D u).
Proof.
  destruct m; cbn; [tauto|]. intros H K. apply filter_In. split; [exact H|]. rewrite (K eq_refl). reflexivity.
Qed.

Lemma base_nodup m D u : NoDup (M_C39.u_decls u) -> NoDup (base_scalars m D u).
Proof. destruct m; cbn; [tauto | apply NoDup_filter]. Qed.

Lemma added_renamed D u : added_scalars true D u = map M_C39.pname (renamed_dummies D u).
Proof.
  unfold added_scalars, renamed_dummies. induction (M_C39.u_params u) as [|p r IH]; cbn; [reflexivity|].
  rewrite map_app, <- IH. destruct (M_C39.mem D (fst p) && negb (snd p)); reflexivity.
Qed.

Lemma added_in_pn entry D u y : In y (added_scalars entry D u) -> In y (map M_C39.pname (map fst D)).
Proof.
  unfold added_scalars. destruct entry; [|intros []]. intros H. apply in_flat_map in H. destruct H as [p [_ H]].
  destruct (M_C39.mem D (fst p)) eqn:E; cbn [andb] in H; [|destruct H].
  destruct (negb (snd p)); [|destruct H]. destruct H as [H|[]]. subst.
  apply in_map. apply kmem_In. exact E.
Qed.

Lemma added_nodup entry D u : param_extra entry D u = true -> NoDup (added_scalars entry D u).
Proof.
  unfold param_extra. destruct entry; cbn [negb orb]; [|intros _; constructor].
  intros H. rewrite added_renamed. apply NoDup_map_inj; [exact pname_inj|]. apply nodupb_NoDup. exact H.
Qed.

Lemma added_has D u p :
  In p (M_C39.u_params u) -> M_C39.mem D (fst p) = true -> snd p = false ->
  In (M_C39.pname (fst p)) (added_scalars true D u).
Proof.
  intros Hp Hm Hs. unfold added_scalars. apply in_flat_map. exists p. split; [exact Hp|]. rewrite Hm, Hs. left. reflexivity.
Qed.

(** a name that resolves before still resolves, with the same kind, unless replace-by-value removed it *)
Lemma env_keep m entry D ext u arrs x k :
  (forall y, In y (added_scalars entry D u) -> ~ In y (map fst ext)) ->
  (m = M_C39.MReplace -> M_C39.mem D x = false) ->
  klookup ((arrs ++ map (fun y : string => (y, KScalar)) (M_C39.u_decls u)) ++ ext) x = Some k ->
  klookup ((arrs ++ map (fun y : string => (y, KScalar)) (param_scalars m entry D u)) ++ ext) x = Some k.
Proof.
  intros Hext Hk. rewrite !klookup_app. destruct (klookup arrs x) as [k0|]; [tauto|].
  rewrite !scalars_lookup, param_scalars_split, mem_app.
  destruct (mem x (M_C39.u_decls u)) eqn:E.
  - apply mem_In in E. apply (base_keep m D) in E; [|exact Hk]. apply mem_In in E. rewrite E. cbn. tauto.
  - assert (Eb : mem x (base_scalars m D u) = false).
    { apply mem_false. intros H. apply base_sub in H. apply mem_In in H. congruence. }
    rewrite Eb. cbn. destruct (mem x (added_scalars entry D u)) eqn:Ea; [|tauto].
    apply mem_In in Ea. apply Hext in Ea. apply klookup_none in Ea. rewrite Ea. discriminate.
Qed.

(* ------------------------------------------------------------------------------------------ *)
(** * the theorem *)

Theorem T_param_preserves_well_scoped succ m abort entry D ext (u : M_C39.unit) :
  well_scoped uses_stmts (unit_of_c39 ext u) ->
  param_class m abort entry D ext u = true ->
  param_extra entry D u = true ->
  well_scoped uses_stmts (T_param succ m abort entry D ext u).
Proof.
  intros [W1 [W2 [W3 _]]] C X.
  unfold param_class in C. rewrite !andb_true_iff in C.
  destruct C as [[[[[[C1 C2] C3] _] C5] C6] C7].
  fold (keys_scalar D (M_C39.u_params u)) in C1.
  rewrite forallb_forall in C2, C3, C6.
  rewrite uses_ok_Forall in C5.
  unfold unit_of_c39 in W1, W2, W3, C2, C5. unfold u_env in W3, C5. cbn [u_decls u_args u_body u_ext] in *.
  rewrite map_app, map_fst_scalars in W1, W2, C2.
  (* renamed names are new *)
  assert (Anew : forall y, In y (added_scalars entry D u) ->
                           ~ In y (map fst (c39_param_decls (M_C39.u_params u)) ++ M_C39.u_decls u)
                           /\ ~ In y (map fst ext)).
  { intros y Hy. apply added_in_pn in Hy. split.
    - apply mem_false. apply negb_true_iff. apply C2. exact Hy.
    - apply mem_false. apply negb_true_iff. apply C3. exact Hy. }
  assert (Keep : forall x k, (m = M_C39.MReplace -> M_C39.mem D x = false) ->
             klookup ((c39_param_decls (M_C39.u_params u)
                       ++ map (fun y : string => (y, KScalar)) (M_C39.u_decls u)) ++ ext) x = Some k ->
             klookup ((c39_param_decls (M_C39.u_params u)
                       ++ map (fun y : string => (y, KScalar)) (param_scalars m entry D u)) ++ ext) x = Some k).
  { intros x k. apply env_keep. intros y Hy. apply (proj2 (Anew y Hy)). }
  unfold T_param, well_scoped, u_env. cbn [u_decls u_args u_body u_ext u_shapes u_inner].
  rewrite c39_decls_same by exact C1.
  rewrite map_app, map_fst_scalars.
  apply NoDup_app_iff in W1. destruct W1 as [N1 [N2 N3]].
  split; [|split; [|split; [|split; [|split]]]].
  - (* no duplicate declaration *)
    rewrite param_scalars_split. apply NoDup_app_iff. split; [exact N1|]. split.
    + apply NoDup_app_iff. split; [apply base_nodup; exact N2|]. split; [apply added_nodup; exact X|].
      intros x Hb Ha. apply base_sub in Hb. apply (proj1 (Anew x Ha)). apply in_or_app. right. exact Hb.
    + intros x Hx Hin. apply in_app_iff in Hin. destruct Hin as [Hb|Ha].
      * apply base_sub in Hb. apply (N3 x Hx Hb).
      * apply (proj1 (Anew x Ha)). apply in_or_app. left. exact Hx.
  - (* dummies are declared *)
    assert (Old : forall p, In p (M_C39.u_params u) -> M_C39.mem D (fst p) = false ->
                   In (fst p) (map fst (c39_param_decls (M_C39.u_params u)) ++ param_scalars m entry D u)).
    { intros p Hp Hm. assert (H : In (fst p) (M_C39.param_names (M_C39.u_params u))) by (apply in_map; exact Hp).
      apply W2 in H. apply in_app_iff in H. apply in_or_app. destruct H as [H|H]; [left; exact H|].
      right. rewrite param_scalars_split. apply in_or_app. left. apply base_keep; [exact H | intros _; exact Hm]. }
    intros a Ha. unfold M_C39.param_names in Ha. cbn [M_C39.transform_unit M_C39.t_params] in Ha.
    apply in_map_iff in Ha. destruct Ha as [q [E Hq]]. subst a. destruct entry.
    + apply in_map_iff in Hq. destruct Hq as [p [E Hp]]. subst q.
      destruct (M_C39.mem D (fst p)) eqn:Em; [|apply Old; assumption].
      cbn [fst]. apply in_or_app. right. rewrite param_scalars_split. apply in_or_app. right.
      apply added_has; [exact Hp | exact Em | apply (keys_scalar_spec _ _ _ C1 Hp Em)].
    + apply filter_In in Hq. destruct Hq as [Hq Hm]. apply negb_true_iff in Hm. apply Old; assumption.
  - (* the body resolves *)
    unfold uses_stmts. rewrite flat_map_app. apply Forall_app. split.
    + (* guards *)
      cbn [M_C39.transform_unit M_C39.t_guards]. destruct entry; [|constructor].
      apply Forall_forall. intros g Hg. apply in_flat_map in Hg. destruct Hg as [s [Hs Hg]].
      apply in_map_iff in Hs. destruct Hs as [[k v] [E Hkv]]. subst s. cbn [fst snd] in Hg.
      rewrite uses_guard in Hg. destruct Hg as [Hg|Hg].
      * subst g. unfold M_C39.guards_of in Hkv. apply filter_In in Hkv. destruct Hkv as [HD Hn]. cbn [fst] in Hn.
        unfold M_C39.in_names in Hn. apply existsb_exists in Hn. destruct Hn as [k' [Hk' E]].
        apply String.eqb_eq in E. subst k'. unfold M_C39.param_names in Hk'. apply in_map_iff in Hk'.
        destruct Hk' as [p [E Hp]]. subst k.
        assert (Em : M_C39.mem D (fst p) = true).
        { apply kmem_In. apply in_map_iff. exists (fst p, v). split; [reflexivity | exact HD]. }
        assert (Hin : In (M_C39.pname (fst p))
                         (map fst ((c39_param_decls (M_C39.u_params u)
                                    ++ map (fun y : string => (y, KScalar)) (param_scalars m true D u)) ++ ext))).
        { rewrite !map_app, map_fst_scalars, param_scalars_split. apply in_or_app. left. apply in_or_app. right.
          apply in_or_app. right. apply added_has; [exact Hp | exact Em | apply (keys_scalar_spec _ _ _ C1 Hp Em)]. }
        apply in_names_lookup in Hin. destruct Hin as [k Hk]. exists k. split; [exact Hk | reflexivity].
      * rewrite Forall_forall in C5. apply (resolves_keep _ _ _ (C5 g Hg)). intros k0. apply Keep. intros _.
        assert (Hn : In (fst g) (use_names (uses_stmts abort))) by (apply in_map; exact Hg).
        destruct (M_C39.mem D (fst g)) eqn:Em; [|reflexivity]. exfalso.
        apply kmem_In in Em.
        assert (Hc : negb (mem (fst g) (use_names (uses_stmts abort))) = true).
        { apply C6. apply in_or_app. left. exact Em. }
        apply negb_true_iff, mem_false in Hc. contradiction.
    + (* transformed body *)
      cbn [M_C39.transform_unit M_C39.t_body].
      apply Forall_forall. intros g Hg. apply uses_tstmts in Hg. destruct Hg as [Hg Hok].
      rewrite Forall_forall in W3. apply (resolves_keep _ _ _ (W3 g Hg)). intros k0. apply Keep. intros M.
      subst m. rewrite forallb_forall in C7.
      destruct (M_C39.mem D (fst g)) eqn:Em; [|reflexivity]. exfalso.
      assert (Hc : forall x, In x (flat_map hard_names (M_C39.u_body u)
                                   ++ array_names (uses_stmts (M_C39.u_body u))) -> ~ In x (map fst D)).
      { intros x Hx. apply mem_false. apply negb_true_iff. apply C7. exact Hx. }
      apply kmem_In in Em.
      destruct (Hok eq_refl) as [A|[[n A]|A]].
      * apply kmem_In in Em. congruence.
      * apply (Hc (fst g)); [|exact Em]. apply in_or_app. right. unfold array_names. apply in_flat_map.
        exists g. split; [exact Hg|]. rewrite A. left. reflexivity.
      * apply (Hc (fst g)); [|exact Em]. apply in_or_app. left. exact A.
  - constructor.
  - constructor.
  - constructor.
Qed.

(** the natural sufficient condition for the added hypothesis: the dummy arguments are pairwise distinct *)
Lemma nodup_flat_sub {A} (P : A -> bool) (f : A -> string) l :
  NoDup (map f l) -> NoDup (flat_map (fun a => if P a then [f a] else []) l).
Proof.
  induction l as [|a r IH]; cbn; intros H; [constructor|]. inversion H as [|? ? H1 H2]; subst.
  destruct (P a); cbn; [|apply IH; exact H2]. constructor; [|apply IH; exact H2].
  intros Hin. apply H1. apply in_flat_map in Hin. destruct Hin as [b [Hb Hx]].
  destruct (P b); [|destruct Hx]. destruct Hx as [Hx|[]]. rewrite <- Hx. apply in_map. exact Hb.
Qed.

Lemma param_extra_of_distinct_dummies entry D u :
  nodupb (M_C39.param_names (M_C39.u_params u)) = true -> param_extra entry D u = true.
Proof.
  intros H. unfold param_extra. apply orb_true_iff. right. apply nodupb_NoDup. apply nodupb_NoDup in H.
  unfold renamed_dummies. apply (nodup_flat_sub (fun p : string * bool => M_C39.mem D (fst p) && negb (snd p)) fst).
  exact H.
Qed.

Corollary T_param_preserves_well_scoped_distinct succ m abort entry D ext (u : M_C39.unit) :
  well_scoped uses_stmts (unit_of_c39 ext u) ->
  param_class m abort entry D ext u = true ->
  nodupb (M_C39.param_names (M_C39.u_params u)) = true ->
  well_scoped uses_stmts (T_param succ m abort entry D ext u).
Proof.
  intros W C N. apply T_param_preserves_well_scoped; [exact W | exact C |].
  apply param_extra_of_distinct_dummies. exact N.
Qed.

(* ------------------------------------------------------------------------------------------ *)
(** * witnesses *)

Open Scope string_scope.
Open Scope Z_scope.

(** a(i) = n + m in a loop up to n, t = a(n), call sub(n, t, a); n is parametrised *)
Definition ex_unit : M_C39.unit :=
  {| M_C39.u_name := "k";
     M_C39.u_params := [("a", true); ("n", false); ("m", false)];
     M_C39.u_decls := ["n"; "m"; "i"; "t"];
     M_C39.u_body :=
       [SDo "i" (EInt 1) (EVar "n") None [SStore "a" [EVar "i"] (ESum false [EVar "n"; EVar "m"; EVar "q"])];
        SAssign "t" (ECall "a" [EVar "n"]);
        SCall "sub" [EVar "n"; EVar "t"; EVar "a"]] |}.
Definition ex_abort : list stmt := [SCall "abort" []].
Definition ex_dict : M_C39.dict := [("n", 5); ("q", 3)].
Definition ex_ext : denv := [("q", KScalar)].
Definition ex_succ (g : string) : bool := String.eqb g "sub".

Definition ex_all (f : M_C39.pmode -> bool -> bool) : bool :=
  f M_C39.MDecl true && f M_C39.MDecl false && f M_C39.MReplace true && f M_C39.MReplace false.

(** the hypotheses are satisfiable (entry point and kernel, both modes), the dummy [n] really is renamed /
    removed, and the results are well-scoped *)
Example T_param_class_inhabited :
  well_scopedb uses_stmts (unit_of_c39 ex_ext ex_unit)
  && ex_all (fun m e => param_class m ex_abort e ex_dict ex_ext ex_unit && param_extra e ex_dict ex_unit)
  && ex_all (fun m e => well_scopedb uses_stmts (T_param ex_succ m ex_abort e ex_dict ex_ext ex_unit))
  && list_str_eqb (u_args (T_param ex_succ M_C39.MReplace ex_abort true ex_dict ex_ext ex_unit))
                  ["a"; "parametrised_n"; "m"]
  && list_str_eqb (u_args (T_param ex_succ M_C39.MReplace ex_abort false ex_dict ex_ext ex_unit)) ["a"; "m"]
  && negb (mem "n" (map fst (u_decls (T_param ex_succ M_C39.MReplace ex_abort false ex_dict ex_ext ex_unit))))
  && mem "n" (map fst (u_decls (T_param ex_succ M_C39.MDecl ex_abort false ex_dict ex_ext ex_unit)))
  = true.
Proof. vm_compute. reflexivity. Qed.

(** outside the class: a kernel that assigns a parametrised dummy; with replace-by-value the declaration is
    gone while the left-hand side still names [n] *)
Definition ex_assigned : M_C39.unit :=
  {| M_C39.u_name := "k";
     M_C39.u_params := [("n", false)];
     M_C39.u_decls := ["n"];
     M_C39.u_body := [SAssign "n" (ESum false [EVar "n"; EInt 1])] |}.

Theorem T_param_assigned_key_refuted :
  exists succ abort D ext u,
    well_scoped uses_stmts (unit_of_c39 ext u)
    /\ ~ well_scoped uses_stmts (T_param succ M_C39.MReplace abort false D ext u).
Proof.
  exists ex_succ, ex_abort, [("n", 5)], [], ex_assigned. split.
  - apply well_scopedb_spec. vm_compute. reflexivity.
  - intros H. apply well_scopedb_spec in H. vm_compute in H. discriminate.
Qed.

(** [param_class] alone is not sufficient: two scalar dummies of the same name *)
Definition ex_dup : M_C39.unit :=
  {| M_C39.u_name := "k";
     M_C39.u_params := [("n", false); ("n", false)];
     M_C39.u_decls := ["n"; "t"];
     M_C39.u_body := [SAssign "t" (EVar "n")] |}.

Theorem T_param_dup_dummy_refuted :
  exists succ m abort D ext u,
    well_scoped uses_stmts (unit_of_c39 ext u)
    /\ param_class m abort true D ext u = true
    /\ ~ well_scoped uses_stmts (T_param succ m abort true D ext u).
Proof.
  exists ex_succ, M_C39.MDecl, ex_abort, [("n", 5)], [], ex_dup. split; [|split].
  - apply well_scopedb_spec. vm_compute. reflexivity.
  - vm_compute. reflexivity.
  - intros H. apply well_scopedb_spec in H. vm_compute in H. discriminate.
Qed.

Print Assumptions T_param_preserves_well_scoped.
Print Assumptions T_param_assigned_key_refuted.
Print Assumptions T_param_dup_dummy_refuted.
