(** C20 — the model of fparser's line reader: spans in range, reading order of the sanitised lines. *)
From Coq Require Import ZArith List Bool String Ascii Lia Arith Sorting.Sorted.
From LV Require Import Base.Strings models.M_C20 proofs.P_C20_base.
Import ListNotations.
Open Scope list_scope.
Open Scope Z_scope.

Definition step (k : Z) (st : option cstate) (l : string) : list ev * option cstate :=
  match st with None => scan_fresh k l | Some c => scan_cont k c l end.

Lemma scan_cons k st l r :
  scan k st (l :: r) = fst (step k st l) ++ scan (k + 1) (snd (step k st l)) r.
Proof. cbn [scan]. unfold step. destruct st; destruct (_ : list ev * option cstate); reflexivity. Qed.

Definition ev_lo (e : ev) : Z := match e with EvI i => r_s i | EvG g => g_s g end.
Definition ev_hi (e : ev) : Z := match e with EvI i => r_e i | EvG g => g_e g end.
Definition ev_lt (a b : ev) : Prop := ev_hi a < ev_lo b.

Definition inner_cmt_ok (lo hi : Z) (x : ritem) : Prop :=
  r_inner x = true /\ r_kind x = KComment /\ lo <= r_s x /\ r_s x = r_e x /\ r_e x <= hi.
Definition item_good (e : ev) (lo hi : Z) (x : ritem) : Prop :=
  (r_inner x = false /\ r_s x = ev_lo e /\ r_e x = ev_hi e) \/ inner_cmt_ok lo hi x.
Definition ev_good (lo hi : Z) (e : ev) : Prop :=
  lo <= ev_lo e /\ ev_lo e <= ev_hi e /\ ev_hi e <= hi /\ Forall (item_good e (ev_lo e) hi) (ev_items e).

Definition st_ok (k : Z) (st : option cstate) : Prop :=
  match st with
  | None => True
  | Some c => cs_s c <= cs_e c /\ cs_e c < k /\ Forall (inner_cmt_ok (cs_s c) (k - 1)) (cs_cms c)
  end.
Definition lb (k : Z) (st : option cstate) : Z := match st with Some c => cs_s c | None => k end.

Lemma inner_cmt_ok_mono lo hi hi' x : hi <= hi' -> inner_cmt_ok lo hi x -> inner_cmt_ok lo hi' x.
Proof. unfold inner_cmt_ok. intros H (A & B & C & D & E). repeat split; try assumption; lia. Qed.

Lemma Forall_inner_mono lo hi hi' l : hi <= hi' -> Forall (inner_cmt_ok lo hi) l -> Forall (inner_cmt_ok lo hi') l.
Proof. intros H F. eapply Forall_impl; [|exact F]. intros x. apply inner_cmt_ok_mono. exact H. Qed.

Lemma inline_cmt_ok cm k lo : lo <= k -> Forall (inner_cmt_ok lo k) (inline_cmt cm k).
Proof.
  intros H. destruct cm as [t|]; cbn; [|constructor].
  constructor; [|constructor]. unfold inner_cmt_ok, mk_cmt. cbn. repeat split; lia.
Qed.

Lemma group_items_good g hi :
  Forall (inner_cmt_ok (g_s g) hi) (g_cms g) ->
  Forall (item_good (EvG g) (g_s g) hi) (ev_items (EvG g)).
Proof.
  intros H. cbn [ev_items]. apply Forall_app. split.
  - apply Forall_forall. intros x Hx. apply in_map_iff in Hx. destruct Hx as (p & <- & _).
    left. cbn. repeat split.
  - eapply Forall_impl; [|exact H]. intros x Hx. right. exact Hx.
Qed.

(** one physical line *)
Definition step_concl (k : Z) (st : option cstate) (r : list ev * option cstate) : Prop :=
  st_ok (k + 1) (snd r) /\
  Forall (fun e => ev_good (lb k st) k e /\ ev_hi e = k) (fst r) /\
  (fst r <> [] -> snd r = None) /\
  lb k st <= lb (k + 1) (snd r).

Lemma concl_none k st c' : st_ok (k + 1) (Some c') -> lb k st <= cs_s c' -> step_concl k st ([], Some c').
Proof.
  intros H1 H2. unfold step_concl. cbn [fst snd lb]. split; [exact H1|]. split; [constructor|].
  split; [congruence|exact H2].
Qed.

Lemma concl_item k st i : lb k st <= k -> r_s i = k -> r_e i = k -> r_inner i = false ->
  step_concl k st ([EvI i], None).
Proof.
  intros H1 H2 H3 H4. unfold step_concl. cbn [fst snd lb st_ok]. split; [exact I|]. split.
  - constructor; [|constructor]. split; [|exact H3]. unfold ev_good. cbn [ev_lo ev_hi ev_items].
    split; [lia|]. split; [lia|]. split; [lia|]. constructor; [|constructor]. left. cbn [ev_lo ev_hi]. auto.
  - split; [reflexivity|lia].
Qed.

Lemma concl_group k st g : lb k st <= g_s g -> g_s g <= k -> g_e g = k ->
  Forall (inner_cmt_ok (g_s g) k) (g_cms g) -> step_concl k st ([EvG g], None).
Proof.
  intros H1 H2 H3 H4. unfold step_concl. cbn [fst snd lb st_ok]. split; [exact I|]. split.
  - constructor; [|constructor]. split; [|exact H3]. unfold ev_good. cbn [ev_lo ev_hi].
    split; [lia|]. split; [lia|]. split; [lia|]. apply group_items_good. exact H4.
  - split; [reflexivity|lia].
Qed.

Lemma step_ok k st l : st_ok k st -> step_concl k st (step k st l).
Proof.
  intros Hst. destruct st as [c|]; cbn [step].
  - (* a statement is open *)
    destruct Hst as (H1 & H2 & H3).
    assert (H3' : Forall (inner_cmt_ok (cs_s c) k) (cs_cms c)) by (apply (Forall_inner_mono _ (k - 1)); [lia|exact H3]).
    unfold scan_cont. destruct (first_nonws l) as [ch|].
    2:{ apply concl_none; [|cbn [lb]; lia]. cbn [st_ok]. split; [lia|]. split; [lia|].
        replace (k + 1 - 1) with k by lia. exact H3'. }
    destruct (Ascii.eqb ch "!").
    { apply concl_none; [|cbn [lb cs_s]; lia]. cbn [st_ok cs_s cs_e cs_cms]. split; [lia|]. split; [lia|].
      replace (k + 1 - 1) with k by lia. apply Forall_app. split; [exact H3'|].
      constructor; [|constructor]. unfold inner_cmt_ok, mk_cmt. cbn. repeat split; lia. }
    destruct (split_cmt (cs_q c) (rstrip l)) as [[code cm] q].
    destruct (ends_amp (rstrip code)).
    { apply concl_none; [|cbn [lb cs_s]; lia]. cbn [st_ok cs_s cs_e cs_cms]. split; [lia|]. split; [lia|].
      replace (k + 1 - 1) with k by lia. apply Forall_app. split; [exact H3'|]. apply inline_cmt_ok. lia. }
    apply concl_group; cbn [lb g_s g_e g_cms]; try lia.
    apply Forall_app. split; [exact H3'|]. apply inline_cmt_ok. lia.
  - (* no statement open *)
    unfold scan_fresh. destruct (first_nonws l) as [ch|].
    2:{ apply concl_item; cbn; try reflexivity; lia. }
    destruct (Ascii.eqb ch "!"); [apply concl_item; cbn; try reflexivity; lia|].
    destruct (Ascii.eqb ch "#"); [apply concl_item; cbn; try reflexivity; lia|].
    destruct (split_cmt QN l) as [[code cm] q].
    destruct (ends_amp (rstrip code)).
    { apply concl_none; [|cbn [lb cs_s]; lia]. cbn [st_ok cs_s cs_e cs_cms]. split; [lia|]. split; [lia|].
      replace (k + 1 - 1) with k by lia. apply inline_cmt_ok. lia. }
    apply concl_group; cbn [lb g_s g_e g_cms]; try lia. apply inline_cmt_ok. lia.
Qed.

Lemma ev_good_mono lo lo' hi hi' e : lo' <= lo -> hi <= hi' -> ev_good lo hi e -> ev_good lo' hi' e.
Proof.
  unfold ev_good. intros H1 H2 (A & B & C & D). repeat split; try lia.
  eapply Forall_impl; [|exact D]. intros x [Hx|Hx]; [left; exact Hx|right].
  apply (inner_cmt_ok_mono _ hi); assumption.
Qed.

Lemma SS_app {A} (R : A -> A -> Prop) (a b : list A) :
  StronglySorted R a -> StronglySorted R b -> (forall x y, In x a -> In y b -> R x y) -> StronglySorted R (a ++ b).
Proof.
  induction a as [|x a IH]; intros Ha Hb H; [exact Hb|].
  inversion Ha as [|? ? Hsa Hfa]; subst. cbn. constructor.
  - apply IH; [exact Hsa|exact Hb|]. intros u v Hu Hv. apply H; [now right|exact Hv].
  - apply Forall_app. split; [exact Hfa|]. apply Forall_forall. intros y Hy. apply H; [now left|exact Hy].
Qed.

Lemma step_evs_short k st l : (List.length (fst (step k st l)) <= 1)%nat.
Proof.
  unfold step, scan_fresh, scan_cont. destruct st as [c|].
  - destruct (first_nonws l) as [a|]; [|cbn; lia]. destruct (Ascii.eqb a "!"); [cbn; lia|].
    destruct (split_cmt (cs_q c) (rstrip l)) as [[? ?] ?]. destruct (ends_amp _); cbn; lia.
  - destruct (first_nonws l) as [a|]; [|cbn; lia]. destruct (Ascii.eqb a "!"); [cbn; lia|].
    destruct (Ascii.eqb a "#"); [cbn; lia|].
    destruct (split_cmt QN l) as [[? ?] ?]. destruct (ends_amp _); cbn; lia.
Qed.

Lemma SS_short {A} (R : A -> A -> Prop) (l : list A) : (List.length l <= 1)%nat -> StronglySorted R l.
Proof. destruct l as [|x [|y t]]; cbn; intros H; [constructor|constructor; constructor|lia]. Qed.

Lemma scan_sorted : forall ls k st, st_ok k st ->
  StronglySorted ev_lt (scan k st ls) /\ Forall (ev_good (lb k st) (k + zlen ls - 1)) (scan k st ls).
Proof.
  induction ls as [|l r IH]; intros k st Hst.
  - cbn [scan]. destruct st as [c|]; [|split; constructor].
    destruct Hst as (H1 & H2 & H3). split; [constructor; constructor|].
    constructor; [|constructor]. unfold ev_good, close_group. cbn [ev_lo ev_hi g_s g_e lb zlen List.length].
    split; [lia|]. split; [lia|]. split; [cbn; lia|].
    apply group_items_good. cbn [g_s g_cms]. apply (Forall_inner_mono _ (k - 1)); [cbn; lia|exact H3].
  - rewrite scan_cons.
    destruct (step_ok k st l Hst) as (Hst' & Hevs & Hnone & Hlb).
    destruct (IH (k + 1) (snd (step k st l)) Hst') as (Hs & Hg).
    assert (Hz : zlen (l :: r) = zlen r + 1) by (unfold zlen; cbn [List.length]; lia).
    split.
    + apply SS_app.
      * apply SS_short. apply step_evs_short.
      * exact Hs.
      * intros x y Hx Hy. rewrite Forall_forall in Hevs. destruct (Hevs x Hx) as [_ Hhi].
        assert (Hn : snd (step k st l) = None) by (apply Hnone; intros E; rewrite E in Hx; exact Hx).
        rewrite Hn in Hg, Hy. cbn [lb] in Hg. rewrite Forall_forall in Hg. destruct (Hg y Hy) as (A & _).
        unfold ev_lt. lia.
    + apply Forall_app. split.
      * eapply Forall_impl; [|exact Hevs]. intros e [He _]. apply (ev_good_mono (lb k st) _ k); [lia|unfold zlen in *; lia|exact He].
      * eapply Forall_impl; [|exact Hg]. intros e He.
        apply (ev_good_mono (lb (k + 1) (snd (step k st l))) _ (k + 1 + zlen r - 1)); [exact Hlb|lia|exact He].
Qed.

(** * consequences for the item list *)
Definition outer (x : ritem) : bool := negb (r_inner x).

Lemma fp_read_spans_ok_lemma ls : Forall (span_ok_p (zlen ls)) (fp_read ls).
Proof.
  unfold fp_read. destruct (scan_sorted ls 1 None I) as [_ Hg]. cbn [lb] in Hg.
  apply Forall_forall. intros x Hx. apply in_flat_map in Hx. destruct Hx as (e & He & Hx).
  rewrite Forall_forall in Hg. destruct (Hg e He) as (A & B & C & D).
  rewrite Forall_forall in D. unfold span_ok_p.
  destruct (D x Hx) as [(_ & E1 & E2)|(_ & _ & E1 & E2 & E3)]; lia.
Qed.

Lemma outer_sorted evs lo hi :
  StronglySorted ev_lt evs -> Forall (ev_good lo hi) evs ->
  StronglySorted after_p (filter outer (flat_map ev_items evs)).
Proof.
  induction 1 as [|e r Hs IH Hall]; intros Hg; [constructor|].
  inversion Hg as [|? ? He Hr]; subst. cbn [flat_map]. rewrite filter_app.
  destruct He as (A & B & C & D). rewrite Forall_forall in D.
  apply SS_app.
  - (* items of one event share its span *)
    assert (G : forall l, (forall x, In x l -> In x (ev_items e)) -> StronglySorted after_p (filter outer l)).
    { induction l as [|x l IHl]; intros Hin; [constructor|]. cbn [filter].
      destruct (outer x) eqn:Ox; [|apply IHl; intros y Hy; apply Hin; now right].
      constructor; [apply IHl; intros y Hy; apply Hin; now right|].
      apply Forall_forall. intros y Hy. apply filter_In in Hy. destruct Hy as [Hy Oy].
      unfold outer in Ox, Oy. apply negb_true_iff in Ox, Oy.
      destruct (D x (Hin x (or_introl eq_refl))) as [(_ & X1 & X2)|(X & _)]; [|congruence].
      destruct (D y (Hin y (or_intror Hy))) as [(_ & Y1 & Y2)|(Y & _)]; [|congruence].
      right. lia. }
    apply G. auto.
  - apply IH. exact Hr.
  - intros x y Hx Hy. apply filter_In in Hx. destruct Hx as [Hx Ox]. apply filter_In in Hy. destruct Hy as [Hy Oy].
    unfold outer in Ox, Oy. apply negb_true_iff in Ox, Oy.
    destruct (D x Hx) as [(_ & X1 & X2)|(X & _)]; [|congruence].
    apply in_flat_map in Hy. destruct Hy as (e' & He' & Hy).
    rewrite Forall_forall in Hall. specialize (Hall e' He'). unfold ev_lt in Hall.
    rewrite Forall_forall in Hr. destruct (Hr e' He') as (_ & _ & _ & D'). rewrite Forall_forall in D'.
    destruct (D' y Hy) as [(_ & Y1 & Y2)|(Y & _)]; [|congruence].
    left. lia.
Qed.

Lemma sanitize_from_sorted : forall items p,
  StronglySorted after_p (filter outer items) -> inner_ok items = true ->
  StronglySorted after_p (sanitize_from p items) /\
  (forall x, In x (sanitize_from p items) -> In x (filter outer items)).
Proof.
  induction items as [|x r IH]; intros p Hs Hi; [split; [constructor|intros ? []]|].
  cbn [inner_ok forallb] in Hi. apply andb_prop in Hi. destruct Hi as [Hx Hi].
  cbn [sanitize_from filter] in *. unfold outer at 1 3. unfold outer at 1 in Hs.
  destruct (r_inner x) eqn:Ix; cbn [negb] in *.
  - (* a comment inside a statement: plain, hence dropped *)
    assert (K : keep p x = false).
    { unfold keep. try rewrite Ix in Hx. cbn [negb orb] in Hx.
      destruct (r_kind x); try discriminate. apply andb_prop in Hx. destruct Hx as [_ Hx].
      apply negb_true_iff in Hx. rewrite Hx. apply andb_false_r. }
    rewrite K. cbn [app]. apply IH; assumption.
  - inversion Hs as [|? ? Hs' Hf]; subst.
    destruct (IH (r_e x) Hs' Hi) as [S1 S2].
    destruct (keep p x); cbn [app].
    + split.
      * constructor; [exact S1|]. apply Forall_forall. intros y Hy. rewrite Forall_forall in Hf. apply Hf, S2, Hy.
      * intros y [<-|Hy]; [now left|right; apply S2, Hy].
    + split; [exact S1|]. intros y Hy. right. apply S2, Hy.
Qed.

Lemma fp_read_sanitized_sorted_lemma ls :
  inner_ok (fp_read ls) = true -> StronglySorted after_p (sanitize (fp_read ls)).
Proof.
  intros Hi. unfold sanitize.
  destruct (scan_sorted ls 1 None I) as [Hs Hg].
  apply sanitize_from_sorted; [|exact Hi].
  unfold fp_read. apply (outer_sorted _ _ _ Hs Hg).
Qed.

Lemma sanitize_from_incl : forall items p x, In x (sanitize_from p items) -> In x items.
Proof.
  induction items as [|y r IH]; intros p x H; [exact H|].
  cbn [sanitize_from] in H. apply in_app_or in H. destruct H as [H|H].
  - destruct (keep p y); [destruct H as [<-|[]]; now left|destruct H].
  - right. exact (IH _ _ H).
Qed.

(** the reading order can fail when a pragma-like comment sits inside a continued statement *)
Definition inner_pragma_text : string :=
  ("x = 1 &" ++ String nl (" !c1" ++ String nl (" & + 2 !$foo" ++ String nl "y=2")))%string.

Lemma inner_pragma_refuted_lemma :
  map (fun x => (r_s x, r_e x)) (rd_san (reader_of_text inner_pragma_text)) = [(1, 3); (3, 3); (4, 4)].
Proof. vm_compute. reflexivity. Qed.
