(** C26 — proofs, part 1: name sets, summaries, erasure of the instrumentation, frame property. *)
From Coq Require Import ZArith List Bool String Lia.
From LV Require Import Base.Expr Base.MiniF Base.MiniFFacts models.M_C26.
Import ListNotations.
Open Scope Z_scope.

(** * Name sets *)
Lemma mem_In x l : mem x l = true <-> In x l.
Proof.
  unfold mem. rewrite existsb_exists. split.
  - intros [y [Hy E]]. apply String.eqb_eq in E. now subst.
  - intros H. exists x. split; [exact H|apply String.eqb_refl].
Qed.

Lemma mem_false x l : mem x l = false <-> ~ In x l.
Proof. rewrite <- mem_In. destruct (mem x l); split; congruence. Qed.

Lemma In_diff x a b : In x (diff a b) <-> In x a /\ ~ In x b.
Proof.
  unfold diff. rewrite filter_In, negb_true_iff, mem_false. tauto.
Qed.

Lemma In_inter x a b : In x (inter a b) <-> In x a /\ In x b.
Proof. unfold inter. rewrite filter_In, mem_In. tauto. Qed.

Lemma In_rem1 x v a : In x (rem1 v a) <-> In x a /\ x <> v.
Proof.
  unfold rem1. rewrite filter_In, negb_true_iff, String.eqb_neq. tauto.
Qed.

Lemma subset_In a b : subset a b = true <-> (forall x, In x a -> In x b).
Proof.
  unfold subset. rewrite forallb_forall. split; intros H x Hx.
  - apply mem_In. now apply H.
  - apply mem_In. now apply H.
Qed.

Lemma In_flat_map_iff {A B} (f : A -> list B) l y : In y (flat_map f l) <-> exists x, In x l /\ In y (f x).
Proof. apply in_flat_map. Qed.

(** * Locations *)
Lemma list_z_eqb_eq a b : list_z_eqb a b = true <-> a = b.
Proof.
  revert b. induction a as [|x r IH]; intros [|y q]; cbn; try (split; congruence).
  rewrite andb_true_iff, Z.eqb_eq, IH. split; [intros [-> ->]; reflexivity|intros E; inversion E; auto].
Qed.

Lemma loc_eqb_eq a b : loc_eqb a b = true <-> a = b.
Proof.
  destruct a as [x|x i], b as [y|y j]; cbn; try (split; congruence).
  - rewrite String.eqb_eq. split; congruence.
  - rewrite andb_true_iff, String.eqb_eq, list_z_eqb_eq. split; [intros [-> ->]; reflexivity|intros E; inversion E; auto].
Qed.

Lemma mem_loc_In l ls : mem_loc l ls = true <-> In l ls.
Proof.
  unfold mem_loc. rewrite existsb_exists. split.
  - intros [y [Hy E]]. apply loc_eqb_eq in E. now subst.
  - intros H. exists l. split; [exact H|now apply loc_eqb_eq].
Qed.

Lemma mem_loc_false l ls : mem_loc l ls = false <-> ~ In l ls.
Proof. rewrite <- mem_loc_In. destruct (mem_loc l ls); split; congruence. Qed.

Lemma loc_eq_dec (a b : loc) : {a = b} + {a <> b}.
Proof.
  destruct (loc_eqb a b) eqn:E; [left; now apply loc_eqb_eq|right].
  intros H. apply loc_eqb_eq in H. congruence.
Qed.

Lemma In_loc_dec (l : loc) ls : {In l ls} + {~ In l ls}.
Proof. apply in_dec, loc_eq_dec. Qed.

(** * Summaries *)
Lemma seqT_w a b l : In l (fst (seqT a b)) <-> In l (fst a) \/ In l (fst b).
Proof. unfold seqT. cbn [fst]. apply in_app_iff. Qed.

Lemma seqT_r a b l : In l (snd (seqT a b)) <-> In l (snd a) \/ (In l (snd b) /\ ~ In l (fst a)).
Proof.
  unfold seqT. cbn [snd]. rewrite in_app_iff, filter_In, negb_true_iff, mem_loc_false. tauto.
Qed.

Lemma seqT_r_weak a b l : In l (snd (seqT a b)) -> In l (snd a) \/ In l (snd b).
Proof. rewrite seqT_r. tauto. Qed.

Lemma rdT_w r l : In l (fst (rdT r)) <-> False.
Proof. cbn. tauto. Qed.
Lemma rdT_r r l : In l (snd (rdT r)) <-> In l r.
Proof. cbn. tauto. Qed.
Lemma wrT_w x l : In l (fst (wrT x)) <-> l = x.
Proof. cbn. split; [intros [H|[]]; congruence|intros ->; now left]. Qed.
Lemma wrT_r x l : In l (snd (wrT x)) <-> False.
Proof. cbn. tauto. Qed.

(** * The instrumentation does not change the semantics *)
Lemma erase_bind (o : option (store * summary)) (o' : option store)
      (k : store * summary -> option (store * summary)) (k' : store -> option store) :
  option_map fst o = o' -> (forall r, option_map fst (k r) = k' (fst r)) ->
  option_map fst (obind o k) = obind o' k'.
Proof. intros E H. destruct o as [r|]; cbn in *; subst; cbn; auto. Qed.

Lemma obind_ret {A} (o : option A) : obind o (fun x => Some x) = o.
Proof. now destruct o. Qed.

Lemma do_loop_tr_erase run_tr run v d :
  (forall s, option_map fst (run_tr s) = run s) ->
  forall n i s, option_map fst (do_loop_tr run_tr v d n i s) = do_loop run v d n i s.
Proof.
  intros H. induction n as [|n IH]; intros i s; cbn [do_loop_tr do_loop]; [reflexivity|].
  apply erase_bind; [apply H|]. intros r1.
  rewrite <- (obind_ret (do_loop run v d n (i + d) (fst r1))).
  apply erase_bind; [apply IH|]. intros r2. reflexivity.
Qed.

Lemma step_tr_erase ps f :
  (forall ss s, option_map fst (exec_tr ps f ss s) = exec ps f ss s) ->
  forall st s, option_map fst (step_tr ps (exec_tr ps f) st s) = exec1 ps f st s.
Proof.
  intros IH st s.
  destruct st as [x e|a idx e|v lo hi stp body|c body|c tb eb|g args|l]; cbn [step_tr exec1].
  - destruct (evalZ (env_st s) e); reflexivity.
  - destruct (eval_idx s idx); cbn [obind]; [|reflexivity]. destruct (evalZ (env_st s) e); reflexivity.
  - destruct (evalZ (env_st s) lo); cbn [obind]; [|reflexivity].
    destruct (evalZ (env_st s) hi); cbn [obind]; [|reflexivity].
    destruct (match stp with None => Some 1 | Some e => evalZ (env_st s) e end) as [d|]; cbn [obind]; [|reflexivity].
    destruct (d =? 0); [reflexivity|].
    rewrite <- (obind_ret (do_loop _ _ _ _ _ _)).
    apply erase_bind; [apply do_loop_tr_erase; intros; apply IH|]. intros r. reflexivity.
  - destruct (evalB (env_st s) c) as [[|]|]; cbn [obind]; try reflexivity.
    apply erase_bind; [apply IH|]. intros r1.
    rewrite <- (obind_ret (exec ps f [SWhile c body] (fst r1))).
    apply erase_bind; [apply IH|]. intros r2. reflexivity.
  - destruct (evalB (env_st s) c) as [b|]; cbn [obind]; [|reflexivity].
    rewrite <- (obind_ret (exec ps f _ s)).
    apply erase_bind; [apply IH|]. intros r. reflexivity.
  - destruct (find_proc ps g) as [p|]; cbn [obind]; [|reflexivity].
    destruct (copy_in s (p_params p) args empty_store) as [s0|]; cbn [obind]; [|reflexivity].
    apply erase_bind; [apply IH|]. intros r. reflexivity.
  - reflexivity.
Qed.

Lemma exec_tr_unfold ps f st rest s :
  exec_tr ps (S f) (st :: rest) s =
  obind (step_tr ps (exec_tr ps f) st s) (fun r1 =>
  obind (exec_tr ps f rest (fst r1)) (fun r2 => Some (fst r2, seqT (snd r1) (snd r2)))).
Proof. reflexivity. Qed.

Lemma exec_tr_erase ps : forall f ss s, option_map fst (exec_tr ps f ss s) = exec ps f ss s.
Proof.
  induction f as [|f IH]; intros ss s; [reflexivity|].
  destruct ss as [|st rest]; [reflexivity|].
  rewrite exec_tr_unfold, exec_unfold.
  apply erase_bind; [now apply step_tr_erase|]. intros r1.
  rewrite <- (obind_ret (exec ps f rest (fst r1))).
  apply erase_bind; [apply IH|]. intros r2. reflexivity.
Qed.

Corollary exec_tr_exec ps f ss s s' t : exec_tr ps f ss s = Some (s', t) -> exec ps f ss s = Some s'.
Proof. intros E. rewrite <- exec_tr_erase, E. reflexivity. Qed.

Corollary exec_exec_tr ps f ss s s' : exec ps f ss s = Some s' -> exists t, exec_tr ps f ss s = Some (s', t).
Proof.
  intros E. rewrite <- exec_tr_erase in E.
  destruct (exec_tr ps f ss s) as [[s1 t]|]; cbn in E; [|discriminate].
  exists t. congruence.
Qed.

(** inversion helpers *)
Lemma exec_tr_nil ps f s s' t : exec_tr ps f [] s = Some (s', t) -> s' = s /\ t = nilT.
Proof. destruct f; cbn; [discriminate|]. intros E. inversion E. auto. Qed.

Lemma exec_tr_cons ps f st rest s s' t :
  exec_tr ps f (st :: rest) s = Some (s', t) ->
  exists g s1 t1 t2, f = S g /\ step_tr ps (exec_tr ps g) st s = Some (s1, t1) /\
                     exec_tr ps g rest s1 = Some (s', t2) /\ t = seqT t1 t2.
Proof.
  destruct f as [|g]; [discriminate|]. rewrite exec_tr_unfold. intros E.
  apply obind_some in E. destruct E as [[s1 t1] [E1 E]].
  apply obind_some in E. destruct E as [[s2 t2] [E2 E]]. cbn [fst snd] in *.
  inversion E; subst. exists g, s1, t1, t2. auto.
Qed.

(** fuel monotonicity of the instrumented interpreter *)
Lemma do_loop_tr_mono (run1 run2 : store -> option (store * summary)) v d n :
  (forall s r, run1 s = Some r -> run2 s = Some r) ->
  forall i s r, do_loop_tr run1 v d n i s = Some r -> do_loop_tr run2 v d n i s = Some r.
Proof.
  intros H. induction n as [|n IH]; intros i s r; cbn [do_loop_tr]; [auto|].
  intros E. apply obind_some in E. destruct E as [r1 [E1 E]].
  apply obind_some in E. destruct E as [r2 [E2 E]].
  rewrite (H _ _ E1). cbn [obind]. rewrite (IH _ _ _ E2). exact E.
Qed.

Lemma step_tr_mono ps f :
  (forall ss s r, exec_tr ps f ss s = Some r -> exec_tr ps (S f) ss s = Some r) ->
  forall st s r, step_tr ps (exec_tr ps f) st s = Some r -> step_tr ps (exec_tr ps (S f)) st s = Some r.
Proof.
  intros IH st s r E.
  destruct st as [x e|a idx e|v lo hi stp body|c body|c tb eb|g args|l]; try exact E; unfold step_tr in *.
  - apply obind_some in E. destruct E as [a [Ea E]]. rewrite Ea. cbn [obind].
    apply obind_some in E. destruct E as [b [Eb E]]. rewrite Eb. cbn [obind].
    apply obind_some in E. destruct E as [d [Ed E]]. rewrite Ed. cbn [obind].
    destruct (d =? 0); [discriminate|].
    apply obind_some in E. destruct E as [r1 [E1 E]].
    rewrite (do_loop_tr_mono _ (exec_tr ps (S f) body) _ _ _ (fun s r => IH body s r) _ _ _ E1). exact E.
  - apply obind_some in E. destruct E as [b [Eb E]]. rewrite Eb. cbn [obind].
    destruct b; [|exact E].
    apply obind_some in E. destruct E as [r1 [E1 E]].
    apply obind_some in E. destruct E as [r2 [E2 E]].
    rewrite (IH _ _ _ E1). cbn [obind]. rewrite (IH _ _ _ E2). exact E.
  - apply obind_some in E. destruct E as [b [Eb E]]. rewrite Eb. cbn [obind].
    apply obind_some in E. destruct E as [r1 [E1 E]].
    rewrite (IH _ _ _ E1). exact E.
  - apply obind_some in E. destruct E as [p [Ep E]]. rewrite Ep. cbn [obind].
    apply obind_some in E. destruct E as [s0 [E0 E]]. rewrite E0. cbn [obind].
    apply obind_some in E. destruct E as [r1 [E1 E]].
    rewrite (IH _ _ _ E1). exact E.
Qed.

Lemma exec_tr_fuel_S ps f : forall ss s r, exec_tr ps f ss s = Some r -> exec_tr ps (S f) ss s = Some r.
Proof.
  induction f as [|f IH]; intros ss s r E; [discriminate|].
  destruct ss as [|st rest]; [exact E|].
  rewrite exec_tr_unfold in *.
  apply obind_some in E. destruct E as [r1 [E1 E]].
  apply obind_some in E. destruct E as [r2 [E2 E]].
  rewrite (step_tr_mono ps f IH _ _ _ E1). cbn [obind]. rewrite (IH _ _ _ E2). exact E.
Qed.

Lemma exec_tr_fuel_mono ps f f' ss s r :
  exec_tr ps f ss s = Some r -> (f <= f')%nat -> exec_tr ps f' ss s = Some r.
Proof.
  intros E Hle. induction Hle as [|m Hle IH]; [exact E|]. now apply exec_tr_fuel_S.
Qed.

Lemma seqT_nil_l t : seqT nilT t = t.
Proof.
  destruct t as [w r]. unfold seqT, nilT. cbn. f_equal.
  induction r as [|y r IHr]; cbn; [reflexivity|]. now rewrite IHr.
Qed.

(** a run of [a ++ b] is a run of [a] followed by a run of [b]; summaries compose up to the
    membership characterisations [seqT_w]/[seqT_r] *)
Lemma exec_tr_app_inv ps : forall a b f s s' t,
  exec_tr ps f (a ++ b) s = Some (s', t) ->
  exists s1 t1 t2, exec_tr ps f a s = Some (s1, t1) /\ exec_tr ps f b s1 = Some (s', t2) /\
                   (forall l, In l (fst t) <-> In l (fst t1) \/ In l (fst t2)).
Proof.
  induction a as [|x a IH]; intros b f s s' t E.
  - cbn [app] in E. destruct f as [|g]; [discriminate|].
    exists s, nilT, t. split; [reflexivity|]. split; [exact E|]. intros l. cbn. tauto.
  - cbn [app] in E. apply exec_tr_cons in E. destruct E as [g [s1 [t1 [t2 [-> [E1 [E2 ->]]]]]]].
    apply IH in E2. destruct E2 as [s2 [u1 [u2 [A [B Hw]]]]].
    exists s2, (seqT t1 u1), u2. split; [|split].
    + rewrite exec_tr_unfold, E1. cbn [obind fst snd]. rewrite A. reflexivity.
    + now apply exec_tr_fuel_S.
    + intros l. rewrite !seqT_w, Hw. tauto.
Qed.
