(** C01 — semantic level: statements whose expression slots are pointwise value-equal run identically;
    the frontend's tree for a parse tree has the parse tree's value; parentheses / unit steps do not matter;
    composition with C06's theorem. *)
From Coq Require Import ZArith List Bool String Lia.
From LV Require Import Base.Expr Base.MiniF Base.MiniFFacts models.M_C06 proofs.P_C06_base props.T_C06
                       models.M_C01 proofs.P_C01.
Import ListNotations.
Open Scope Z_scope.

(** * Pointwise equal expressions *)
Definition zeq (e e' : expr) : Prop := forall rho, evalZ rho e = evalZ rho e'.
Definition beq (e e' : expr) : Prop := forall rho, evalB rho e = evalB rho e'.
Definition areq (e e' : expr) : Prop := is_var e = is_var e' /\ zeq e e'.
Definition stepval (rho : env) (st : option expr) : option Z :=
  match st with None => Some 1 | Some e => evalZ rho e end.
Definition ozeq (a b : option expr) : Prop := forall rho, stepval rho a = stepval rho b.

Inductive srel : stmt -> stmt -> Prop :=
| R_assign x e e' : zeq e e' -> srel (SAssign x e) (SAssign x e')
| R_store a i j e e' : Forall2 zeq i j -> zeq e e' -> srel (SStore a i e) (SStore a j e')
| R_do v lo lo' hi hi' st st' b b' : zeq lo lo' -> zeq hi hi' -> ozeq st st' -> Forall2 srel b b' ->
    srel (SDo v lo hi st b) (SDo v lo' hi' st' b')
| R_while c c' b b' : beq c c' -> Forall2 srel b b' -> srel (SWhile c b) (SWhile c' b')
| R_if c c' t t' e e' : beq c c' -> Forall2 srel t t' -> Forall2 srel e e' -> srel (SIf c t e) (SIf c' t' e')
| R_call f a a' : Forall2 areq a a' -> srel (SCall f a) (SCall f a')
| R_skip l l' : srel (SSkip l) (SSkip l').

Lemma eval_idx_ext s i j : Forall2 zeq i j -> eval_idx s i = eval_idx s j.
Proof.
  unfold eval_idx. induction 1 as [|x y r q H _ IH]; [reflexivity|]. cbn [omap_list]. now rewrite (H (env_st s)), IH.
Qed.

Lemma is_var_some e a : is_var e = Some a -> e = EVar a.
Proof. destruct e; cbn; try discriminate. congruence. Qed.

Lemma copy_in_ext caller a a' : Forall2 areq a a' ->
  forall params callee, copy_in caller params a callee = copy_in caller params a' callee.
Proof.
  induction 1 as [|e e' r q [Hv Hz] _ IH]; intros params callee; [reflexivity|].
  destruct params as [|[d fl] ps]; [reflexivity|].
  destruct (is_var e) as [x|] eqn:E.
  - apply is_var_some in E. symmetry in Hv. apply is_var_some in Hv. subst e e'.
    destruct fl; cbn [copy_in]; [apply IH|]. cbn [evalZ]. apply IH.
  - assert (Ne : forall x, e <> EVar x) by (intros x ->; discriminate).
    assert (Ne' : forall x, e' <> EVar x) by (intros x ->; cbn in Hv; congruence).
    destruct fl.
    + transitivity (@None store).
      * destruct e; try reflexivity. exfalso. eapply Ne; reflexivity.
      * destruct e'; try reflexivity. exfalso. eapply Ne'; reflexivity.
    + transitivity (match evalZ (env_st caller) e with Some v => copy_in caller ps r (set_sv d v callee) | None => None end).
      * destruct e; reflexivity.
      * rewrite (Hz (env_st caller)).
        transitivity (match evalZ (env_st caller) e' with Some v => copy_in caller ps q (set_sv d v callee) | None => None end).
        -- destruct (evalZ (env_st caller) e'); [apply IH|reflexivity].
        -- destruct e'; reflexivity.
Qed.

Lemma copy_out_ext callee a a' : Forall2 areq a a' ->
  forall params caller, copy_out callee params a caller = copy_out callee params a' caller.
Proof.
  induction 1 as [|e e' r q [Hv Hz] _ IH]; intros params caller; [reflexivity|].
  destruct params as [|[d fl] ps]; [reflexivity|].
  destruct (is_var e) as [x|] eqn:E.
  - apply is_var_some in E. symmetry in Hv. apply is_var_some in Hv. subst e e'.
    destruct fl; cbn [copy_out]; apply IH.
  - assert (Ne : forall x, e <> EVar x) by (intros x ->; discriminate).
    assert (Ne' : forall x, e' <> EVar x) by (intros x ->; cbn in Hv; congruence).
    transitivity (copy_out callee ps r caller).
    + destruct fl; destruct e; try reflexivity; exfalso; eapply Ne; reflexivity.
    + rewrite IH. destruct fl; destruct e'; try reflexivity; exfalso; eapply Ne'; reflexivity.
Qed.

Lemma do_loop_ext (r1 r2 : store -> option store) v d : (forall s, r1 s = r2 s) ->
  forall n i s, do_loop r1 v d n i s = do_loop r2 v d n i s.
Proof.
  intros H. induction n as [|n IH]; intros i s; cbn [do_loop]; [reflexivity|].
  rewrite H. destruct (r2 (set_sv v i s)); cbn [obind]; [apply IH|reflexivity].
Qed.

(** statements whose expressions are pointwise value-equal run identically (induction over the fuel) *)
Lemma exec_expr_ext ps : forall fuel p q s, Forall2 srel p q -> exec ps fuel p s = exec ps fuel q s.
Proof.
  induction fuel as [|f IH]; intros p q s H; [reflexivity|].
  destruct H as [|x y p' q' Hxy Hrest]; [reflexivity|].
  rewrite !exec_unfold.
  assert (E1 : exec1 ps f x s = exec1 ps f y s).
  { inversion Hxy; subst; cbn [exec1].
    - now rewrite (H (env_st s)).
    - rewrite (eval_idx_ext s i j) by assumption. now rewrite (H0 (env_st s)).
    - rewrite (H (env_st s)), (H0 (env_st s)).
      change (match st with Some e => evalZ (env_st s) e | None => Some 1 end) with (stepval (env_st s) st).
      change (match st' with Some e => evalZ (env_st s) e | None => Some 1 end) with (stepval (env_st s) st').
      rewrite (H1 (env_st s)).
      destruct (evalZ (env_st s) lo') as [a0|]; cbn [obind]; [|reflexivity].
      destruct (evalZ (env_st s) hi') as [b0|]; cbn [obind]; [|reflexivity].
      destruct (stepval (env_st s) st') as [d0|]; cbn [obind]; [|reflexivity].
      destruct (d0 =? 0); [reflexivity|].
      apply do_loop_ext. intros s0. now apply IH.
    - rewrite (H (env_st s)). destruct (evalB (env_st s) c') as [[]|]; cbn [obind]; try reflexivity.
      rewrite (IH b b' s H0). destruct (exec ps f b' s) as [s1|]; cbn [obind]; [|reflexivity].
      apply IH. constructor; [|constructor]. now constructor.
    - rewrite (H (env_st s)). destruct (evalB (env_st s) c') as [[]|]; cbn [obind]; try reflexivity; now apply IH.
    - destruct (find_proc ps f0) as [pr|]; cbn [obind]; [|reflexivity].
      rewrite (copy_in_ext s a a' H (p_params pr) empty_store).
      destruct (copy_in s (p_params pr) a' empty_store) as [s0|]; cbn [obind]; [|reflexivity].
      destruct (exec ps f (p_body pr) s0) as [s1|]; cbn [obind]; [|reflexivity].
      now rewrite (copy_out_ext s1 a a' H).
    - reflexivity. }
  rewrite E1. destruct (exec1 ps f y s) as [s1|]; cbn [obind]; [now apply IH|reflexivity].
Qed.

Lemma equiv_of_srel ps p q : Forall2 srel p q -> equiv ps p q.
Proof.
  intros H s s'. split; intros [f E]; exists f.
  - now rewrite <- (exec_expr_ext ps f p q s H).
  - now rewrite (exec_expr_ext ps f p q s H).
Qed.

(** * The frontend's tree for a parse tree *)
Section fx_ind'.
  Variable P : fx -> Prop.
  Hypothesis HInt : forall n, P (FInt n).
  Hypothesis HVar : forall x, P (FVar x).
  Hypothesis HLog : forall b, P (FLog b).
  Hypothesis HNeg : forall a, P a -> P (FNeg a).
  Hypothesis HNot : forall a, P a -> P (FNot a).
  Hypothesis HBin : forall op a b, P a -> P b -> P (FBin op a b).
  Hypothesis HCmp : forall op a b, P a -> P b -> P (FCmp op a b).
  Hypothesis HCall : forall f args, Forall P args -> P (FCall f args).
  Fixpoint fx_ind' (t : fx) : P t :=
    let fix go (l : list fx) : Forall P l :=
      match l with [] => Forall_nil P | x :: r => Forall_cons x (fx_ind' x) (go r) end in
    match t with
    | FInt n => HInt n | FVar x => HVar x | FLog b => HLog b
    | FNeg a => HNeg a (fx_ind' a) | FNot a => HNot a (fx_ind' a)
    | FBin op a b => HBin op a b (fx_ind' a) (fx_ind' b)
    | FCmp op a b => HCmp op a b (fx_ind' a) (fx_ind' b)
    | FCall f args => HCall f args (go args)
    end.
End fx_ind'.

Lemma evalZ_fx rho : forall t, evalZ rho (fx_to_expr t) = evalF rho t.
Proof.
  induction t as [n|x|b|a IH|a IH|op a b IHa IHb|op a b IHa IHb|f args IH] using fx_ind'; try reflexivity.
  - cbn [fx_to_expr]. rewrite evalZ_prod. cbn [fold_right evalZ]. rewrite IH, omul_1_r, omul_m1_l. reflexivity.
  - destruct op; cbn [fx_to_expr].
    + rewrite evalZ_sum. cbn [fold_right]. now rewrite IHa, IHb, oadd_0_r.
    + rewrite evalZ_sum. cbn [fold_right]. rewrite oadd_0_r, evalZ_prod. cbn [fold_right evalZ].
      now rewrite IHa, IHb, omul_1_r, omul_m1_l, oadd_neg.
    + rewrite evalZ_prod. cbn [fold_right]. now rewrite IHa, IHb, omul_1_r.
    + cbn [evalZ evalF]. now rewrite IHa, IHb.
    + cbn [evalZ evalF]. now rewrite IHa, IHb.
    + reflexivity.
    + reflexivity.
  - cbn [fx_to_expr evalZ evalF].
    match goal with |- obind ?a _ = obind ?b _ => assert (E : a = b) end.
    { induction IH as [|x r Hx _ IHr]; [reflexivity|]. cbn [map]. now rewrite Hx, IHr. }
    now rewrite E.
Qed.

Lemma evalB_fx rho : forall t, evalB rho (fx_to_expr t) = evalFB rho t.
Proof.
  induction t as [n|x|b|a IH|a IH|op a b IHa IHb|op a b IHa IHb|f args IH] using fx_ind'; try reflexivity.
  - cbn [fx_to_expr evalB evalFB]. now rewrite IH.
  - destruct op; cbn [fx_to_expr]; try reflexivity.
    + rewrite evalB_and. cbn [fold_right]. now rewrite IHa, IHb, oand_true_r.
    + rewrite evalB_or. cbn [fold_right]. now rewrite IHa, IHb, oor_false_r.
  - cbn [fx_to_expr evalB evalFB]. now rewrite !evalZ_fx.
Qed.

Lemma fx_to_expr_var t b : fx_to_expr t = EVar b -> t = FVar b.
Proof. destruct t as [| | | | |op ? ?| |]; try destruct op; cbn; try discriminate. congruence. Qed.

(** a token list that derives a bare variable consists of that variable, parentheses and unary plus *)
Lemma G_var_toks l ts t : G l ts t -> forall b, t = FVar b -> only_var_toks ts = true.
Proof.
  induction 1; intros b0 Hb; try discriminate; try (now eapply IHG; eauto); try reflexivity.
  all: unfold only_var_toks in *; cbn [forallb]; rewrite ?forallb_app; cbn [forallb]; rewrite (IHG _ Hb); reflexivity.
Qed.

(** * Re-reading one expression slot (C06's theorem) *)
Definition slot_z (e e' : expr) : Prop := slot_rr e e' /\ zeq e e'.
Definition slot_b (e e' : expr) : Prop := slot_rr e e' /\ beq e e'.
Definition slot_a (e e' : expr) : Prop := slot_rr e e' /\ areq e e'.

Lemma reread_arith e : arith_safe e = true -> exists e', slot_z e e'.
Proof.
  intros H. destruct (C06_print_denotes_arith e H) as (t & HG & Hv).
  exists (fx_to_expr t). split; [now exists t|]. intros rho. now rewrite evalZ_fx, Hv.
Qed.

Lemma reread_logic e : logic_safe e = true -> exists e', slot_b e e'.
Proof.
  intros H. destruct (C06_print_denotes_logic e H) as (t & HG & Hv).
  exists (fx_to_expr t). split; [now exists t|]. intros rho. now rewrite evalB_fx, Hv.
Qed.

Lemma reread_arg e : arg_ok e = true -> exists e', slot_a e e'.
Proof.
  unfold arg_ok. intros H. apply andb_true_iff in H. destruct H as [Ha Hv].
  destruct (is_evar e) eqn:Ev.
  - destruct e; try discriminate. exists (EVar x). split; [|split; [reflexivity|intros rho; reflexivity]].
    exists (FVar x). split; [|reflexivity]. apply G_to_expr with LPrim. constructor.
  - cbn [orb] in Hv. destruct (reread_arith e Ha) as (e' & [t [HG ->]] & Hz).
    exists (fx_to_expr t). split; [now exists t|]. split; [|exact Hz].
    assert (E : is_var e = None) by (destruct e; try reflexivity; discriminate). rewrite E.
    destruct (is_var (fx_to_expr t)) as [b|] eqn:E'; [|reflexivity].
    apply is_var_some in E'. apply fx_to_expr_var in E'.
    rewrite (G_var_toks _ _ _ HG b E') in Hv. discriminate.
Qed.

Lemma Forall2_exists {A} (R : A -> A -> Prop) (ok : A -> bool) :
  (forall x, ok x = true -> exists y, R x y) -> forall l, forallb ok l = true -> exists l', Forall2 R l l'.
Proof.
  intros H l. induction l as [|x r IH]; intros E; [exists []; constructor|].
  cbn in E. apply andb_true_iff in E. destruct E as [E1 E2].
  destruct (H x E1) as [y Hy]. destruct (IH E2) as [r' Hr]. exists (y :: r'). now constructor.
Qed.

(** * Statement-level relation, parametrised by the relation on the three kinds of slots *)
Section frel.
  Variables Rz Rb Ra : expr -> expr -> Prop.
  Definition orel (a b : option expr) : Prop :=
    match a, b with Some e, Some e' => Rz e e' | None, None => True | _, _ => False end.
  Definition mrel (m m' : simple) : Prop :=
    match m, m' with
    | MAssign x e, MAssign y e' => x = y /\ Rz e e'
    | MStore a i e, MStore b j e' => a = b /\ Forall2 Rz i j /\ Rz e e'
    | MCall f a, MCall g b => f = g /\ Forall2 Ra a b
    | _, _ => False
    end.
  Inductive frel : fstmt -> fstmt -> Prop :=
  | FR_simple m m' : mrel m m' -> frel (FSimple m) (FSimple m')
  | FR_do v lo lo' hi hi' st st' b b' : Rz lo lo' -> Rz hi hi' -> orel st st' -> Forall2 frel b b' ->
      frel (FDo v lo hi st b) (FDo v lo' hi' st' b')
  | FR_while c c' b b' : Rb c c' -> Forall2 frel b b' -> frel (FWhile c b) (FWhile c' b')
  | FR_if c c' t t' e e' fl : Rb c c' -> Forall2 frel t t' -> Forall2 frel e e' -> frel (FIf c t e fl) (FIf c' t' e' fl)
  | FR_inline c c' m m' : Rb c c' -> mrel m m' -> frel (FIfInline c m) (FIfInline c' m')
  | FR_comment s : frel (FComment s) (FComment s).
End frel.

Lemma Forall2_impl {A B} (R R' : A -> B -> Prop) l l' : (forall x y, R x y -> R' x y) -> Forall2 R l l' -> Forall2 R' l l'.
Proof. intros H. induction 1; constructor; auto. Qed.

Lemma Forall2_Forall_l {A B} (R R' : A -> B -> Prop) l l' :
  Forall (fun x => forall y, R x y -> R' x y) l -> Forall2 R l l' -> Forall2 R' l l'.
Proof.
  intros H. revert l'. induction H as [|x r Hx _ IH]; intros l' H2; inversion H2; subst; constructor; auto.
Qed.

Lemma mrel_mono (Rz Rb Ra Rz' Ra' : expr -> expr -> Prop) :
  (forall e e', Rz e e' -> Rz' e e') -> (forall e e', Ra e e' -> Ra' e e') ->
  forall m m', mrel Rz Ra m m' -> mrel Rz' Ra' m m'.
Proof.
  intros Hz Ha m m'. destruct m, m'; cbn; try tauto.
  - intros [? ?]; auto.
  - intros [? [? ?]]. split; [assumption|]. split; [eapply Forall2_impl; eauto|auto].
  - intros [? ?]. split; [assumption|eapply Forall2_impl; eauto].
Qed.

Lemma frel_mono (Rz Rb Ra Rz' Rb' Ra' : expr -> expr -> Prop) :
  (forall e e', Rz e e' -> Rz' e e') -> (forall e e', Rb e e' -> Rb' e e') -> (forall e e', Ra e e' -> Ra' e e') ->
  forall s s', frel Rz Rb Ra s s' -> frel Rz' Rb' Ra' s s'.
Proof.
  intros Hz Hb Ha.
  induction s as [m|v lo hi st b IHb|c b IHb|c t e fl IHt IHe|c m|x] using fstmt_ind'; intros s' H; inversion H; subst.
  - constructor. eapply mrel_mono; eauto.
  - constructor; auto.
    + destruct st, st'; cbn in *; auto.
    + eapply Forall2_Forall_l; [|eassumption]. exact IHb.
  - constructor; auto. eapply Forall2_Forall_l; [|eassumption]. exact IHb.
  - constructor; auto; (eapply Forall2_Forall_l; [|eassumption]); assumption.
  - constructor; auto. eapply mrel_mono; eauto.
  - constructor.
Qed.

(** existence of a re-read program with the same values in every slot *)
Lemma mrel_exists m : simple_safe m = true -> exists m', mrel slot_z slot_a m m'.
Proof.
  destruct m as [x e|a i e|f a]; cbn [simple_safe]; intros H.
  - destruct (reread_arith e H) as [e' He]. exists (MAssign x e'). cbn. auto.
  - apply andb_true_iff in H. destruct H as [Hi He].
    destruct (Forall2_exists slot_z arith_safe reread_arith i Hi) as [i' Hi'].
    destruct (reread_arith e He) as [e' He']. exists (MStore a i' e'). cbn. auto.
  - destruct (Forall2_exists slot_a arg_ok reread_arg a H) as [a' Ha']. exists (MCall f a'). cbn. auto.
Qed.

Lemma step_exists st : step_plain st = true -> exists st', orel slot_z st st'.
Proof.
  destruct st as [e|]; cbn [step_plain]; intros H; [|exists None; exact I].
  apply andb_true_iff in H. destruct H as [H _]. destruct (reread_arith e H) as [e' He]. exists (Some e'). exact He.
Qed.

Lemma Forall2_frel_exists (R : fstmt -> fstmt -> Prop) l :
  Forall (fun s => safe s = true -> exists s', R s s') l -> forallb safe l = true -> exists l', Forall2 R l l'.
Proof.
  induction 1 as [|s r Hs _ IH]; intros E; [exists []; constructor|].
  cbn in E. apply andb_true_iff in E. destruct E as [E1 E2].
  destruct (Hs E1) as [s' Hs']. destruct (IH E2) as [r' Hr]. exists (s' :: r'). now constructor.
Qed.

Lemma frel_exists : forall s, safe s = true -> exists s', frel slot_z slot_b slot_a s s'.
Proof.
  induction s as [m|v lo hi st b IHb|c b IHb|c t e fl IHt IHe|c m|x] using fstmt_ind'; cbn [safe]; intros H.
  - destruct (mrel_exists m H) as [m' Hm]. exists (FSimple m'). now constructor.
  - apply andb_true_iff in H. destruct H as [H Hb]. apply andb_true_iff in H. destruct H as [H Hst].
    apply andb_true_iff in H. destruct H as [Hlo Hhi].
    destruct (reread_arith lo Hlo) as [lo' ?]. destruct (reread_arith hi Hhi) as [hi' ?].
    destruct (step_exists st Hst) as [st' ?]. destruct (Forall2_frel_exists _ b IHb Hb) as [b' ?].
    exists (FDo v lo' hi' st' b'). now constructor.
  - apply andb_true_iff in H. destruct H as [Hc Hb].
    destruct (reread_logic c Hc) as [c' ?]. destruct (Forall2_frel_exists _ b IHb Hb) as [b' ?].
    exists (FWhile c' b'). now constructor.
  - apply andb_true_iff in H. destruct H as [H He]. apply andb_true_iff in H. destruct H as [Hc Ht].
    destruct (reread_logic c Hc) as [c' ?]. destruct (Forall2_frel_exists _ t IHt Ht) as [t' ?].
    destruct (Forall2_frel_exists _ e IHe He) as [e' ?].
    exists (FIf c' t' e' fl). now constructor.
  - apply andb_true_iff in H. destruct H as [Hc Hm].
    destruct (reread_logic c Hc) as [c' ?]. destruct (mrel_exists m Hm) as [m' ?].
    exists (FIfInline c' m'). now constructor.
  - exists (FComment x). constructor.
Qed.

(** the relation is shape preserving *)
Lemma frel_wf (Rz Rb Ra : expr -> expr -> Prop) : forall s s', frel Rz Rb Ra s s' -> wf s = true -> wf s' = true.
Proof.
  induction s as [m|v lo hi st b IHb|c b IHb|c t e fl IHt IHe|c m|x] using fstmt_ind'; intros s' H W; inversion H; subst;
    try reflexivity; cbn [wf] in *.
  - clear H. revert W. match goal with H : Forall2 _ b b' |- _ => induction H as [|a a' r r' Ha Hr IH] end; [reflexivity|].
    cbn [forallb]. intros W. apply andb_true_iff in W. destruct W as [W1 W2].
    inversion IHb; subst. apply andb_true_iff. split; [eauto|apply IH; assumption].
  - clear H. revert W. match goal with H : Forall2 _ b b' |- _ => induction H as [|a a' r r' Ha Hr IH] end; [reflexivity|].
    cbn [forallb]. intros W. apply andb_true_iff in W. destruct W as [W1 W2].
    inversion IHb; subst. apply andb_true_iff. split; [eauto|apply IH; assumption].
  - apply andb_true_iff in W. destruct W as [W Wsh]. apply andb_true_iff in W. destruct W as [Wt We].
    assert (L : forall l l', Forall (fun s => forall s', frel Rz Rb Ra s s' -> wf s = true -> wf s' = true) l ->
                Forall2 (frel Rz Rb Ra) l l' -> forallb wf l = true -> forallb wf l' = true).
    { clear. intros l l' HF H2. induction H2 as [|a a' r r' Ha Hr IH]; [reflexivity|].
      cbn [forallb]. intros W. apply andb_true_iff in W. destruct W as [W1 W2]. inversion HF; subst.
      apply andb_true_iff. split; [eauto|apply IH; assumption]. }
    apply andb_true_iff. split; [apply andb_true_iff; split|].
    + match goal with H : Forall2 _ t ?t' |- _ => apply (L t t' IHt H Wt) end.
    + match goal with H : Forall2 _ e ?e' |- _ => apply (L e e' IHe H We) end.
    + destruct fl; [|reflexivity].
      match goal with H : Forall2 _ e e' |- _ => destruct H as [|a a' r r' Ha Hr] end; [discriminate|].
      destruct a; try discriminate. destruct Hr; [|discriminate]. inversion Ha; subst. reflexivity.
Qed.

Lemma frel_wf_list (Rz Rb Ra : expr -> expr -> Prop) p q :
  Forall2 (frel Rz Rb Ra) p q -> wf_list p = true -> wf_list q = true.
Proof.
  unfold wf_list. induction 1 as [|a a' r r' Ha Hr IH]; [reflexivity|]. cbn [forallb]. intros W.
  apply andb_true_iff in W. destruct W as [W1 W2]. apply andb_true_iff. split; [eapply frel_wf; eauto|auto].
Qed.

(** related programs print related lines *)
Lemma mrel_simple_rr m m' : mrel slot_rr slot_rr m m' -> simple_rr m m'.
Proof. destruct m, m'; cbn; tauto. Qed.

Lemma frel_lines : forall s s', frel slot_rr slot_rr slot_rr s s' -> forall ei, Forall2 line_rr (lines1 ei s) (lines1 ei s').
Proof.
  assert (L : forall l l', Forall (fun s => forall s', frel slot_rr slot_rr slot_rr s s' ->
                                       forall ei, Forall2 line_rr (lines1 ei s) (lines1 ei s')) l ->
              Forall2 (frel slot_rr slot_rr slot_rr) l l' -> Forall2 line_rr (lines_of l) (lines_of l')).
  { intros l l' HF H2. induction H2 as [|a a' r r' Ha Hr IH]; [constructor|].
    inversion HF; subst. rewrite !lines_of_cons. apply Forall2_app; auto. }
  induction s as [m|v lo hi st b IHb|c b IHb|c t e fl IHt IHe|c m|x] using fstmt_ind'; intros s' H ei; inversion H; subst.
  - cbn [lines1]. constructor; [|constructor]. cbn. now apply mrel_simple_rr.
  - cbn [lines1]. fold (lines_of b). fold (lines_of b'). constructor.
    + cbn. repeat split; auto.
    + apply Forall2_app; [now apply L|]. constructor; [exact I|constructor].
  - cbn [lines1]. fold (lines_of b). fold (lines_of b'). constructor; [cbn; auto|].
    apply Forall2_app; [now apply L|]. constructor; [exact I|constructor].
  - rewrite !lines1_if. constructor; [destruct ei; cbn; auto|].
    apply Forall2_app; [now apply L|]. unfold else_part. destruct fl.
    + match goal with H : Forall2 _ e e' |- _ => destruct H as [|a a' r r' Ha Hr] end; [constructor; [exact I|constructor]|].
      destruct Hr.
      * inversion IHe; subst. inversion Ha; subst; try (constructor; [exact I|constructor]).
        match goal with H : forall s', _ -> forall ei, _ |- _ => apply H end. exact Ha.
      * constructor; [exact I|constructor].
    + apply Forall2_app; [|constructor; [exact I|constructor]].
      match goal with H : Forall2 _ e e' |- _ => pose proof H as He2; destruct H as [|a a' r r' Ha Hr] end; [constructor|].
      constructor; [exact I|]. change (Forall2 line_rr (lines_of (a :: r)) (lines_of (a' :: r'))). now apply L.
  - cbn [lines1]. constructor; [|constructor]. cbn. split; [assumption|now apply mrel_simple_rr].
  - cbn [lines1]. constructor; [reflexivity|constructor].
Qed.

Lemma frel_lines_list p q : Forall2 (frel slot_rr slot_rr slot_rr) p q -> Forall2 line_rr (lines_of p) (lines_of q).
Proof.
  induction 1 as [|a a' r r' Ha Hr IH]; [constructor|]. rewrite !lines_of_cons. apply Forall2_app; [now apply frel_lines|exact IH].
Qed.

(** related programs (value-equal slots) erase to related MiniF programs *)
Lemma mrel_srel m m' : mrel zeq areq m m' -> srel (erase_simple m) (erase_simple m').
Proof.
  destruct m, m'; cbn; try tauto.
  - intros [<- H]. now constructor.
  - intros [<- [H1 H2]]. now constructor.
  - intros [<- H]. now constructor.
Qed.

Lemma orel_ozeq st st' : orel zeq st st' -> ozeq st st'.
Proof. destruct st, st'; cbn; try tauto; intros H rho; cbn; auto. Qed.

Lemma frel_srel : forall s s', frel zeq beq areq s s' -> srel (erase s) (erase s').
Proof.
  assert (L : forall l l', Forall (fun s => forall s', frel zeq beq areq s s' -> srel (erase s) (erase s')) l ->
              Forall2 (frel zeq beq areq) l l' -> Forall2 srel (map erase l) (map erase l')).
  { intros l l' HF H2. induction H2 as [|a a' r r' Ha Hr IH]; [constructor|]. inversion HF; subst. cbn [map]. constructor; auto. }
  induction s as [m|v lo hi st b IHb|c b IHb|c t e fl IHt IHe|c m|x] using fstmt_ind'; intros s' H; inversion H; subst; cbn [erase].
  - now apply mrel_srel.
  - constructor; auto. now apply orel_ozeq.
  - constructor; auto.
  - constructor; auto.
  - constructor; auto. constructor; [now apply mrel_srel|constructor].
  - constructor.
Qed.

Lemma frel_srel_list p q : Forall2 (frel zeq beq areq) p q -> Forall2 srel (erase_list p) (erase_list q).
Proof.
  unfold erase_list. induction 1 as [|a a' r r' Ha Hr IH]; [constructor|]. cbn [map]. constructor; [now apply frel_srel|exact IH].
Qed.

(** * Normalisations preserve behaviour *)

(** a general way to get [srel]: apply a value-preserving map to every expression *)
Section map_sem.
  Variable f : expr -> expr.
  Hypothesis fz : forall e, zeq e (f e).
  Hypothesis fb : forall e, beq e (f e).
  Hypothesis fv : forall e, is_var (f e) = is_var e.

  Lemma map_zeq l : Forall2 zeq l (map f l).
  Proof. induction l; constructor; auto. Qed.
  Lemma map_areq l : Forall2 areq l (map f l).
  Proof. induction l; constructor; auto. split; [symmetry; apply fv|apply fz]. Qed.

  Lemma map_simple_srel m : srel (erase_simple m) (erase_simple (map_simple f m)).
  Proof. destruct m; cbn; constructor; auto using map_zeq, map_areq. Qed.

  Lemma map_exprs_srel : forall s, srel (erase s) (erase (map_exprs f s)).
  Proof.
    assert (L : forall l, Forall (fun s => srel (erase s) (erase (map_exprs f s))) l ->
                Forall2 srel (map erase l) (map erase (map (map_exprs f) l))).
    { induction 1; cbn [map]; constructor; auto. }
    induction s as [m|v lo hi st b IHb|c b IHb|c t e fl IHt IHe|c m|x] using fstmt_ind'; cbn [map_exprs erase].
    - apply map_simple_srel.
    - constructor; auto. intros rho. destruct st; cbn; [apply fz|reflexivity].
    - constructor; auto.
    - constructor; auto.
    - constructor; auto. constructor; [apply map_simple_srel|constructor].
    - constructor.
  Qed.

  Lemma map_exprs_srel_list p : Forall2 srel (erase_list p) (erase_list (map (map_exprs f) p)).
  Proof. unfold erase_list. induction p; cbn [map]; constructor; auto using map_exprs_srel. Qed.
End map_sem.

Lemma fold_right_map_ext {A B} (g : A -> B -> B) (h : A -> A) (b0 : B) l :
  Forall (fun x => forall acc, g (h x) acc = g x acc) l -> fold_right g b0 (map h l) = fold_right g b0 l.
Proof. induction 1 as [|x r Hx _ IH]; [reflexivity|]. cbn [map fold_right]. now rewrite Hx, IH. Qed.

Lemma strip_parens_sem rho : forall e, evalZ rho (strip_parens e) = evalZ rho e /\ evalB rho (strip_parens e) = evalB rho e.
Proof.
  induction e as [v|v|x|b|p cs IH|p cs IH|p n d IHn IHd|p b x IHb IHx|op l r IHl IHr|cs IH|cs IH|a IH|f args IH] using expr_ind';
    cbn [strip_parens]; try (split; reflexivity).
  - split; [|reflexivity]. rewrite !evalZ_sum. apply fold_right_map_ext.
    eapply Forall_impl; [|exact IH]. intros a [Ha _] acc. now rewrite Ha.
  - split; [|reflexivity]. rewrite !evalZ_prod. apply fold_right_map_ext.
    eapply Forall_impl; [|exact IH]. intros a [Ha _] acc. now rewrite Ha.
  - split; [|reflexivity]. cbn [evalZ]. destruct IHn as [-> _], IHd as [-> _]. reflexivity.
  - split; [|reflexivity]. cbn [evalZ]. destruct IHb as [-> _], IHx as [-> _]. reflexivity.
  - split; [reflexivity|]. cbn [evalB]. destruct IHl as [-> _], IHr as [-> _]. reflexivity.
  - split; [reflexivity|]. rewrite !evalB_and. apply fold_right_map_ext.
    eapply Forall_impl; [|exact IH]. intros a [_ Ha] acc. now rewrite Ha.
  - split; [reflexivity|]. rewrite !evalB_or. apply fold_right_map_ext.
    eapply Forall_impl; [|exact IH]. intros a [_ Ha] acc. now rewrite Ha.
  - split; [reflexivity|]. cbn [evalB]. destruct IH as [_ ->]. reflexivity.
  - split; [|reflexivity]. cbn [evalZ].
    match goal with |- obind ?a _ = obind ?b _ => assert (E : a = b) end.
    { induction IH as [|x r [Hx _] _ IHr]; [reflexivity|]. cbn [map]. now rewrite Hx, IHr. }
    now rewrite E.
Qed.

Lemma strip_parens_var e : is_var (strip_parens e) = is_var e.
Proof. destruct e; reflexivity. Qed.

(** explicit parentheses (Parenthesised* classes) do not change the behaviour *)
Theorem paren_sem ps p : equiv ps (erase_list p) (erase_list (map (map_exprs strip_parens) p)).
Proof.
  apply equiv_of_srel. apply map_exprs_srel_list.
  - intros e rho. symmetry. apply strip_parens_sem.
  - intros e rho. symmetry. apply strip_parens_sem.
  - apply strip_parens_var.
Qed.

(** dropping a unit step does not change the behaviour *)
Lemma norm_step_ozeq st : step_plain st = true -> ozeq st (norm_step st).
Proof.
  destruct st as [e|]; cbn [step_plain norm_step]; intros H rho; [|reflexivity].
  apply andb_true_iff in H. destruct H as [_ H]. destruct (unit_step e); [|reflexivity].
  cbn [negb orb] in H. destruct e as [v|v| | | | | | | | | | |]; try discriminate.
  - destruct v as [|[]|]; try discriminate. reflexivity.
  - destruct v as [|[]|]; try discriminate. reflexivity.
Qed.

Lemma zeq_refl e : zeq e e. Proof. intros rho. reflexivity. Qed.
Lemma beq_refl e : beq e e. Proof. intros rho. reflexivity. Qed.
Lemma Forall2_refl {A} (R : A -> A -> Prop) : (forall x, R x x) -> forall l, Forall2 R l l.
Proof. intros H l. induction l; constructor; auto. Qed.

Lemma srel_refl_simple m : srel (erase_simple m) (erase_simple m).
Proof.
  destruct m; cbn; constructor; auto using zeq_refl.
  - apply Forall2_refl, zeq_refl.
  - apply Forall2_refl. intros e. split; [reflexivity|apply zeq_refl].
Qed.

Lemma norm_srel : forall s, safe s = true -> srel (erase s) (erase (norm s)).
Proof.
  assert (L : forall l, Forall (fun s => safe s = true -> srel (erase s) (erase (norm s))) l -> forallb safe l = true ->
              Forall2 srel (map erase l) (map erase (map norm l))).
  { induction 1 as [|a r Ha _ IH]; intros E; [constructor|]. cbn in E. apply andb_true_iff in E. destruct E.
    cbn [map]. constructor; auto. }
  induction s as [m|v lo hi st b IHb|c b IHb|c t e fl IHt IHe|c m|x] using fstmt_ind'; cbn [safe norm erase]; intros H.
  - apply srel_refl_simple.
  - apply andb_true_iff in H. destruct H as [H Hb]. apply andb_true_iff in H. destruct H as [_ Hst].
    constructor; auto using zeq_refl. now apply norm_step_ozeq.
  - apply andb_true_iff in H. destruct H as [_ Hb]. constructor; auto using beq_refl.
  - apply andb_true_iff in H. destruct H as [H He]. apply andb_true_iff in H. destruct H as [_ Ht].
    constructor; auto using beq_refl.
  - constructor; auto using beq_refl. constructor; [apply srel_refl_simple|constructor].
  - constructor.
Qed.

Theorem norm_sem ps p : safe_list p = true -> equiv ps (erase_list p) (erase_list (norm_list p)).
Proof.
  intros H. apply equiv_of_srel. unfold erase_list, norm_list, safe_list in *.
  induction p as [|a r IH]; [constructor|]. cbn in H. apply andb_true_iff in H. destruct H.
  cbn [map]. constructor; [now apply norm_srel|auto].
Qed.

(** [norm] keeps the class *)
Lemma safe_norm : forall s, safe s = true -> safe (norm s) = true.
Proof.
  assert (L : forall l, Forall (fun s => safe s = true -> safe (norm s) = true) l -> forallb safe l = true ->
              forallb safe (map norm l) = true).
  { induction 1 as [|a r Ha _ IH]; intros E; [reflexivity|]. cbn in E. apply andb_true_iff in E. destruct E.
    cbn [map forallb]. apply andb_true_iff. split; auto. }
  induction s as [m|v lo hi st b IHb|c b IHb|c t e fl IHt IHe|c m|x] using fstmt_ind'; cbn [safe norm]; intros H; auto.
  - apply andb_true_iff in H. destruct H as [H Hb]. apply andb_true_iff in H. destruct H as [H Hst].
    rewrite H. cbn [andb]. apply andb_true_iff. split; [|auto].
    destruct st as [e|]; [|reflexivity]. cbn [norm_step]. destruct (unit_step e) eqn:E; [reflexivity|].
    cbn [step_plain] in *. rewrite E in *. cbn [negb orb] in *. exact Hst.
  - apply andb_true_iff in H. destruct H as [Hc Hb]. rewrite Hc. cbn [andb]. auto.
  - apply andb_true_iff in H. destruct H as [H He]. apply andb_true_iff in H. destruct H as [Hc Ht].
    rewrite Hc. cbn [andb]. apply andb_true_iff. split; auto.
Qed.

Lemma safe_norm_list p : safe_list p = true -> safe_list (norm_list p) = true.
Proof.
  unfold safe_list, norm_list. rewrite !forallb_forall. intros H y Hy.
  apply in_map_iff in Hy. destruct Hy as [z [<- Hz]]. apply safe_norm, H, Hz.
Qed.

(** * Composition: printing, re-reading every expression slot through the grammar, reading the lines back *)
Theorem regen_preserves ps p : wf_list p = true -> safe_list p = true ->
  exists ls' q,
    Forall2 line_rr (print_stmts p) ls' /\
    (forall fuel, (lsize q < fuel)%nat -> read_lines fuel ls' = Some q) /\
    equiv ps (erase_list p) (erase_list q).
Proof.
  intros W S.
  pose proof (wf_norm_list p W) as W1. pose proof (safe_norm_list p S) as S1.
  assert (Ex : exists q, Forall2 (frel slot_z slot_b slot_a) (norm_list p) q).
  { unfold safe_list in S1. revert S1. generalize (norm_list p). intros l. induction l as [|a r IH]; intros E; [exists []; constructor|].
    cbn in E. apply andb_true_iff in E. destruct E as [E1 E2].
    destruct (frel_exists a E1) as [a' Ha]. destruct (IH E2) as [r' Hr]. exists (a' :: r'). now constructor. }
  destruct Ex as [q Hq].
  exists (lines_of q), q. split; [|split].
  - unfold print_stmts. apply frel_lines_list. eapply Forall2_impl; [|exact Hq].
    intros x y. apply frel_mono; intros e e' [H _]; exact H.
  - intros fuel Hf. apply roundtrip_lines; [|exact Hf]. eapply frel_wf_list; eassumption.
  - eapply equiv_trans; [apply norm_sem; exact S|].
    apply equiv_of_srel, frel_srel_list. eapply Forall2_impl; [|exact Hq].
    intros x y. apply frel_mono; intros e e' [_ H]; exact H.
Qed.

(** the class is inhabited by a non-trivial program *)
Definition ex_prog : list fstmt :=
  [FDo "i" (EInt 1) (EVar "n") (Some (EInt 1))
     [FIf (ECmp Clt (ECall "x" [EVar "i"]) (EProd false [EPy (-1); EVar "a"]))
        [FSimple (MStore "x" [EVar "i"] (ESum false [EVar "a"; EProd false [EPy (-1); ESum true [EVar "b"; EInt 2]]]))]
        [FIf (ECmp Ceq (EVar "a") (EInt 0)) [FSimple (MCall "f" [EVar "a"; ESum false [EVar "b"; EInt 1]])] [FComment "! else"] false]
        true];
   FWhile (ECmp Clt (EVar "a") (EInt 3)) [FIfInline (ELog true) (MAssign "a" (ESum false [EVar "a"; EInt 1]))]].

Example ex_prog_in_class : wf_list ex_prog = true /\ safe_list ex_prog = true /\ nf_list ex_prog = false.
Proof. vm_compute. repeat split. Qed.

(** outside the class: an actual argument [(x)] (ParenthesisedAdd with one child) is re-read as the variable [x] *)
Example paren_arg_outside : arg_ok (ESum true [EVar "x"]) = false /\
  reread_expr (ESum true [EVar "x"]) = Some (EVar "x").
Proof. vm_compute. split; reflexivity. Qed.
