(** C20 — reader_from_sanitized_span with an open end: the sub-reader is consistent
    (its string is its joined sanitised lines, its spans are their line starts). *)
From Coq Require Import ZArith List Bool String Ascii Lia Arith.
From LV Require Import Base.Strings models.M_C20 proofs.P_C20_base proofs.P_C20_reader.
Import ListNotations.
Open Scope list_scope.
Open Scope Z_scope.

Lemma accum_shift : forall l acc, accum acc l = map (Z.add acc) (accum 0 l).
Proof.
  induction l as [|x r IH]; intros acc; [reflexivity|]. cbn [accum map].
  rewrite (IH (acc + Z.of_nat (slen (r_text x)) + 1)), (IH (0 + Z.of_nat (slen (r_text x)) + 1)).
  rewrite map_map. f_equal; [lia|]. apply map_ext. intros a. lia.
Qed.

Lemma skipn_spans : forall ss acc l, (ss <= List.length l)%nat ->
  exists off, nth_error (acc :: accum acc l) ss = Some off /\
              skipn ss (acc :: accum acc l) = off :: accum off (skipn ss l).
Proof.
  induction ss as [|ss IH]; intros acc l H.
  - exists acc. split; reflexivity.
  - destruct l as [|x r]; cbn [List.length] in H; [lia|].
    cbn [accum]. destruct (IH (acc + Z.of_nat (slen (r_text x)) + 1) r ltac:(lia)) as (off & E1 & E2).
    exists off. split; [exact E1|exact E2].
Qed.

Lemma map_sub_spans off l : map (fun x => x - off) (off :: accum off l) = 0 :: accum 0 l.
Proof.
  cbn [map]. f_equal; [lia|]. rewrite (accum_shift l off), map_map.
  rewrite <- (map_id (accum 0 l)) at 2. apply map_ext. intros a. lia.
Qed.

Lemma sskip_join_texts : forall ss acc (l : list ritem) off, (ss < List.length l)%nat ->
  nth_error (acc :: accum acc l) ss = Some off ->
  sskip (Z.to_nat (off - acc)) (join_nl (map r_text l)) = join_nl (map r_text (skipn ss l)).
Proof.
  induction ss as [|ss IH]; intros acc l off H E.
  - cbn in E. injection E as <-. now rewrite Z.sub_diag.
  - destruct l as [|x r]; cbn [List.length] in H; [lia|].
    cbn [accum nth_error] in E. cbn [map skipn].
    assert (Hr : map r_text r <> []) by (destruct r; [cbn in H; lia|discriminate]).
    rewrite join_nl_cons_ne by exact Hr.
    pose proof (IH (acc + Z.of_nat (slen (r_text x)) + 1) r off ltac:(lia) E) as IH'.
    assert (Hlow : acc + Z.of_nat (slen (r_text x)) + 1 <= off).
    { destruct ss as [|ss']; [cbn in E; injection E as <-; lia|].
      cbn [nth_error] in E. pose proof (accum_lower _ _ _ _ E). lia. }
    replace (Z.to_nat (off - acc)) with (len (r_text x) + S (Z.to_nat (off - (acc + Z.of_nat (slen (r_text x)) + 1))))%nat
      by (unfold slen in *; lia).
    rewrite sskip_app_ge. cbn [sskip]. exact IH'.
Qed.

Lemma bisect_from_range : forall l x i lo, i <= bisect_from l x i lo <= i + zlen l.
Proof.
  induction l as [|y r IH]; intros x i lo; cbn [bisect_from]; unfold zlen in *; cbn [List.length]; [lia|].
  destruct ((lo <=? i) && (x <=? y)); [lia|]. specialize (IH x (i + 1) lo). lia.
Qed.

Lemma py_nth_inv {A} (l : list A) i x : 0 <= i -> py_nth l i = Ok x -> nth_error l (Z.to_nat i) = Some x.
Proof.
  intros Hi. unfold py_nth. assert (E : (i <? 0) = false) by (apply Z.ltb_ge; lia). rewrite E.
  destruct ((i <? 0) || (zlen l <=? i)); [discriminate|].
  destruct (nth_error l (Z.to_nat i)); [intros H; injection H as <-; reflexivity|discriminate].
Qed.

Lemma py_lslice_tail {A} (l : list A) ss n : 0 <= ss -> ss <= zlen l -> zlen l <= n ->
  py_lslice l ss n = skipn (Z.to_nat ss) l.
Proof.
  intros H1 H2 H3. unfold py_lslice, clampi.
  assert (E1 : (ss <? 0) = false) by (apply Z.ltb_ge; lia).
  assert (E2 : (n <? 0) = false) by (apply Z.ltb_ge; unfold zlen in *; lia).
  rewrite E1, E2. rewrite (Z.min_l ss) by lia. rewrite (Z.min_r n) by lia.
  apply firstn_all2. rewrite skipn_length. unfold zlen in *. lia.
Qed.

Lemma get_indices_open_end rd a pad ss se s0 e0 :
  get_indices rd a None pad = Ok (ss, se, s0, e0) ->
  ss = bisect_left (rd_spans rd) a 0 /\ se = zlen (rd_san rd).
Proof.
  unfold get_indices. destruct pad.
  - destruct (bisect_left (rd_spans rd) a 0 =? 0).
    + cbn [bind]. rewrite Z.eqb_refl. cbn [bind]. intros H. injection H as <- <- _ _. split; reflexivity.
    + destruct (zlen (rd_san rd) <=? bisect_left (rd_spans rd) a 0).
      * destruct (py_nth (rd_san rd) (-1)); cbn [bind]; try discriminate.
        rewrite Z.eqb_refl. cbn [bind]. intros H. injection H as <- <- _ _. split; reflexivity.
      * destruct (py_nth (rd_san rd) (bisect_left (rd_spans rd) a 0)); cbn [bind]; try discriminate.
        destruct (py_nth (rd_san rd) (bisect_left (rd_spans rd) a 0 - 1)); cbn [bind]; try discriminate.
        destruct (1 <? _); cbn [bind]; rewrite Z.eqb_refl; cbn [bind]; intros H; injection H as <- <- _ _; split; reflexivity.
  - destruct (zlen (rd_san rd) <=? bisect_left (rd_spans rd) a 0).
    + destruct (py_nth (rd_san rd) (-1)); cbn [bind]; try discriminate.
      intros H. injection H as <- <- _ _. split; reflexivity.
    + destruct (py_nth (rd_san rd) (bisect_left (rd_spans rd) a 0)); cbn [bind]; try discriminate.
      destruct (py_nth (rd_san rd) (zlen (rd_san rd) - 1)); cbn [bind]; try discriminate.
      intros H. injection H as <- <- _ _. split; reflexivity.
Qed.

(** a reader whose spans and string are those of its sanitised lines *)
Definition reader_consistent (rd : reader) : Prop :=
  rd_str rd = join_nl (map r_text (rd_san rd)) /\ rd_spans rd = 0 :: accum 0 (rd_san rd).

Lemma mk_reader_consistent src items : reader_consistent (mk_reader src items).
Proof. split; reflexivity. Qed.

Lemma sub_reader_consistent_gen rd a pad sub :
  reader_consistent rd ->
  reader_from_span rd a None pad = Ok (Some sub) -> reader_consistent sub.
Proof.
  intros [Cstr Cspans]. unfold reader_from_span.
  destruct (get_indices rd a None pad) as [[[[ss se] s0] e0]| |] eqn:G; cbn [bind]; try discriminate.
  destruct (get_indices_open_end rd a pad ss se s0 e0 G) as [Ess Ese].
  destruct (zlen (rd_san rd) <=? ss) eqn:Hn; [discriminate|]. apply Z.leb_gt in Hn.
  assert (Hss0 : 0 <= ss) by (rewrite Ess; unfold bisect_left; pose proof (bisect_from_range (rd_spans rd) a 0 0); lia).
  destruct (py_nth (rd_spans rd) ss) as [off| |] eqn:Hoff; cbn [bind]; try discriminate.
  assert (Hlen : zlen (rd_spans rd) = zlen (rd_san rd) + 1).
  { rewrite Cspans. unfold zlen. cbn [List.length]. rewrite length_accum. lia. }
  assert (Hhi : (se + 1 <? zlen (rd_spans rd)) = false) by (apply Z.ltb_ge; lia).
  rewrite Hhi. cbn [bind]. intros H. injection H as <-. unfold reader_consistent. cbn [rd_str rd_san rd_spans].
  apply py_nth_inv in Hoff; [|exact Hss0].
  assert (Hssn : (Z.to_nat ss < List.length (rd_san rd))%nat) by (unfold zlen in Hn; lia).
  rewrite Cspans in Hoff |- *. rewrite Cstr.
  destruct (skipn_spans (Z.to_nat ss) 0 (rd_san rd) ltac:(lia)) as (off' & E1 & E2).
  rewrite Hoff in E1. injection E1 as <-.
  rewrite (py_lslice_tail (rd_san rd) ss se) by (unfold zlen in *; lia).
  rewrite (py_lslice_tail (0 :: accum 0 (rd_san rd)) ss (se + 1))
    by (unfold zlen in *; cbn [List.length] in *; rewrite ?length_accum in *; lia).
  rewrite E2, map_sub_spans. split; [|reflexivity].
  unfold zslice, py_slice. cbn [option_map].
  pose proof (sskip_join_texts (Z.to_nat ss) 0 (rd_san rd) off Hssn Hoff) as K.
  rewrite Z.sub_0_r in K. exact K.
Qed.

Lemma sub_reader_consistent_at_end_lemma src items a pad sub :
  reader_from_span (mk_reader src items) a None pad = Ok (Some sub) ->
  rd_str sub = join_nl (map r_text (rd_san sub)) /\ rd_spans sub = 0 :: accum 0 (rd_san sub).
Proof. intros H. exact (sub_reader_consistent_gen _ a pad sub (mk_reader_consistent src items) H). Qed.
