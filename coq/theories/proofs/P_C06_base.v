(** C06 — proofs: on the class [classify]/[classifyB], the token list printed by the model of
    FCodeMapper is a phrase of the Fortran expression grammar whose parse tree has the value of the
    expression tree. *)
From Coq Require Import ZArith List Bool String Lia.
From LV Require Import Base.Expr models.M_C06.
Import ListNotations.
Open Scope Z_scope.

(** * Algebra of partial values *)
Ltac oz :=
  intros;
  repeat match goal with x : option Z |- _ => destruct x end;
  repeat match goal with x : option bool |- _ => destruct x end;
  cbn; try reflexivity; try (f_equal; lia).

Lemma oadd_assoc a b c : oadd (oadd a b) c = oadd a (oadd b c). Proof. oz. Qed.
Lemma oadd_sub_assoc a b c : osub (oadd a b) c = oadd a (osub b c). Proof. oz. Qed.
Lemma oadd_0_r a : oadd a (Some 0) = a. Proof. oz. Qed.
Lemma oadd_neg a b : oadd a (oneg b) = osub a b. Proof. oz. Qed.
Lemma omul_assoc a b c : omul (omul a b) c = omul a (omul b c). Proof. oz. Qed.
Lemma omul_1_r a : omul a (Some 1) = a. Proof. oz. Qed.
Lemma omul_m1_l a : omul (Some (-1)) a = oneg a. Proof. oz. Qed.
Lemma omul_neg_l a b : omul (oneg a) b = oneg (omul a b). Proof. oz. Qed.
Lemma oneg_neg_int v : oneg (Some (- v)) = Some v. Proof. cbn. f_equal. lia. Qed.
Lemma odiv_neg_l a b : odiv (oneg a) b = oneg (odiv a b).
Proof.
  destruct a as [a|], b as [b|]; cbn; try reflexivity.
  unfold div_z. destruct (b =? 0) eqn:E; cbn; [reflexivity|].
  f_equal. apply Z.quot_opp_l. apply Z.eqb_neq; exact E.
Qed.
Lemma oand_assoc a b c : oand (oand a b) c = oand a (oand b c).
Proof. destruct a as [[]|], b as [[]|], c as [[]|]; reflexivity. Qed.
Lemma oor_assoc a b c : oor (oor a b) c = oor a (oor b c).
Proof. destruct a as [[]|], b as [[]|], c as [[]|]; reflexivity. Qed.
Lemma oand_true_r a : oand a (Some true) = a. Proof. destruct a as [[]|]; reflexivity. Qed.
Lemma oor_false_r a : oor a (Some false) = a. Proof. destruct a as [[]|]; reflexivity. Qed.

(** the n-ary nodes of Base.Expr are right folds of the binary operations *)
Lemma evalZ_sum rho p cs : evalZ rho (ESum p cs) = fold_right (fun c acc => oadd (evalZ rho c) acc) (Some 0) cs.
Proof. reflexivity. Qed.
Lemma evalZ_prod rho p cs : evalZ rho (EProd p cs) = fold_right (fun c acc => omul (evalZ rho c) acc) (Some 1) cs.
Proof. reflexivity. Qed.
Lemma evalB_and rho cs : evalB rho (EAnd cs) = fold_right (fun c acc => oand (evalB rho c) acc) (Some true) cs.
Proof. reflexivity. Qed.
Lemma evalB_or rho cs : evalB rho (EOr cs) = fold_right (fun c acc => oor (evalB rho c) acc) (Some false) cs.
Proof. reflexivity. Qed.

(** * Weakening along the grammar levels *)
Lemma G_prim_add ts t : G LPrim ts t -> G LAdd ts t.
Proof. intro H. apply G_add_mul, G_mul_prim, H. Qed.
Lemma G_add_l4 ts t : G LAdd ts t -> G L4 ts t.
Proof. intro H. apply G_l4_l2, G_l2_add, H. Qed.
Lemma G_l4_expr ts t : G L4 ts t -> G LExpr ts t.
Proof. intro H. apply G_expr_orop, G_orop_andop, G_andop_l4, H. Qed.
Lemma G_l2_expr ts t : G L2 ts t -> G LExpr ts t.
Proof. intro H. apply G_l4_expr, G_l4_l2, H. Qed.
Lemma G_to_expr l ts t : G l ts t -> G LExpr ts t.
Proof.
  destruct l; intro H.
  - apply G_l4_expr, G_add_l4, G_prim_add, H.
  - apply G_l4_expr, G_add_l4, G_add_mul, H.
  - apply G_l4_expr, G_add_l4, H.
  - apply G_l2_expr, H.
  - apply G_l4_expr, H.
  - apply G_expr_orop, G_orop_andop, H.
  - apply G_expr_orop, H.
  - exact H.
Qed.

(** * Left-associative chains *)
Inductive chain (H : list token -> fx -> Prop) (sep : token) (op : binop) : list token -> fx -> Prop :=
| ch_one ts t : H ts t -> chain H sep op ts t
| ch_more ts1 t1 ts2 t2 :
    chain H sep op ts1 t1 -> H ts2 t2 -> chain H sep op (ts1 ++ sep :: ts2) (FBin op t1 t2).

Section ChainApp.
  Variables (V : Type) (sem : env -> fx -> V) (f : V -> V -> V) (op : binop) (sep : token).
  Hypothesis sem_op : forall rho a b, sem rho (FBin op a b) = f (sem rho a) (sem rho b).
  Hypothesis f_assoc : forall a b c, f (f a b) c = f a (f b c).
  Variables (A H : list token -> fx -> Prop).
  Hypothesis step : forall X tx Y ty, A X tx -> H Y ty -> A (X ++ sep :: Y) (FBin op tx ty).

  (** appending a whole chain to a phrase that may be extended on the right re-associates to the left *)
  Lemma chain_app Y ty : chain H sep op Y ty -> forall X tx, A X tx ->
    exists t, A (X ++ sep :: Y) t /\ forall rho, sem rho t = f (sem rho tx) (sem rho ty).
  Proof.
    induction 1 as [ts t Ht | ts1 t1 ts2 t2 H1 IH H2]; intros X tx HA.
    - exists (FBin op tx t). split; [apply step; assumption | intro; apply sem_op].
    - destruct (IH X tx HA) as (t' & HA' & E).
      exists (FBin op t' t2). split.
      + replace (X ++ sep :: ts1 ++ sep :: ts2) with ((X ++ sep :: ts1) ++ sep :: ts2)
          by (rewrite <- app_assoc; reflexivity).
        apply step; assumption.
      + intro rho. rewrite !sem_op, E, f_assoc. reflexivity.
  Qed.
End ChainApp.

Definition mchain := chain (G LMul) TStar BMul.
Definition andchain := chain (G LAndOp) TAnd BAnd.
Definition orchain := chain (G LOrOp) TOr BOr.

Lemma mchain_add ts t : mchain ts t -> G LAdd ts t.
Proof. induction 1; [apply G_add_mul; assumption | apply G_times; assumption]. Qed.
Lemma andchain_orop ts t : andchain ts t -> G LOrOp ts t.
Proof. induction 1; [apply G_orop_andop; assumption | apply G_and; assumption]. Qed.
Lemma orchain_expr ts t : orchain ts t -> G LExpr ts t.
Proof. induction 1; [apply G_expr_orop; assumption | apply G_or; assumption]. Qed.

Lemma evalF_mul rho a b : evalF rho (FBin BMul a b) = omul (evalF rho a) (evalF rho b). Proof. reflexivity. Qed.
Lemma evalFB_and rho a b : evalFB rho (FBin BAnd a b) = oand (evalFB rho a) (evalFB rho b). Proof. reflexivity. Qed.
Lemma evalFB_or rho a b : evalFB rho (FBin BOr a b) = oor (evalFB rho a) (evalFB rho b). Proof. reflexivity. Qed.

Definition add_app_mchain := chain_app (option Z) evalF omul BMul TStar evalF_mul omul_assoc (G LAdd) (G LMul) G_times.
Definition mchain_app_mchain := chain_app (option Z) evalF omul BMul TStar evalF_mul omul_assoc mchain (G LMul)
                                  (ch_more (G LMul) TStar BMul).
Definition andchain_app := chain_app (option bool) evalFB oand BAnd TAnd evalFB_and oand_assoc andchain (G LAndOp)
                             (ch_more (G LAndOp) TAnd BAnd).
Definition orchain_app := chain_app (option bool) evalFB oor BOr TOr evalFB_or oor_assoc orchain (G LOrOp)
                            (ch_more (G LOrOp) TOr BOr).

(** additive chains: head [H], then (+|-) add-operand ... *)
Inductive addchain (H : list token -> fx -> Prop) : list token -> fx -> Prop :=
| ac_hd ts t : H ts t -> addchain H ts t
| ac_plus ts1 t1 ts2 t2 : addchain H ts1 t1 -> G LAdd ts2 t2 -> addchain H (ts1 ++ TPlus :: ts2) (FBin BAdd t1 t2)
| ac_minus ts1 t1 ts2 t2 : addchain H ts1 t1 -> G LAdd ts2 t2 -> addchain H (ts1 ++ TMinus :: ts2) (FBin BSub t1 t2).

Definition signed (H : list token -> fx -> Prop) (ts : list token) (t : fx) : Prop :=
  exists ts' t', ts = TMinus :: ts' /\ H ts' t' /\ t = FNeg t'.

Lemma addchain_l2 (H : list token -> fx -> Prop) ts t : (forall ts t, H ts t -> G L2 ts t) -> addchain H ts t -> G L2 ts t.
Proof. intros HH. induction 1; [apply HH; assumption | apply G_plus; assumption | apply G_minus; assumption]. Qed.

Lemma signed_l2 ts t : signed (G LAdd) ts t -> G L2 ts t.
Proof. intros (ts' & t' & -> & H & ->). apply G_neg, H. Qed.

Lemma addchain_app_plus (H : list token -> fx -> Prop) Y ty : addchain (G LAdd) Y ty -> forall X tx, addchain H X tx ->
  exists t, addchain H (X ++ TPlus :: Y) t /\ forall rho, evalF rho t = oadd (evalF rho tx) (evalF rho ty).
Proof.
  induction 1 as [ts t Ht | ts1 t1 ts2 t2 H1 IH H2 | ts1 t1 ts2 t2 H1 IH H2]; intros X tx HA.
  - exists (FBin BAdd tx t). split; [apply ac_plus; assumption | reflexivity].
  - destruct (IH X tx HA) as (t' & HA' & E).
    exists (FBin BAdd t' t2). split.
    + replace (X ++ TPlus :: ts1 ++ TPlus :: ts2) with ((X ++ TPlus :: ts1) ++ TPlus :: ts2)
        by (rewrite <- app_assoc; reflexivity).
      apply ac_plus; assumption.
    + intro rho. cbn [evalF]. rewrite E. apply oadd_assoc.
  - destruct (IH X tx HA) as (t' & HA' & E).
    exists (FBin BSub t' t2). split.
    + replace (X ++ TPlus :: ts1 ++ TMinus :: ts2) with ((X ++ TPlus :: ts1) ++ TMinus :: ts2)
        by (rewrite <- app_assoc; reflexivity).
      apply ac_minus; assumption.
    + intro rho. cbn [evalF]. rewrite E. apply oadd_sub_assoc.
Qed.

(** * Meaning of the grammar classes *)
Definition RA (k : cls) : list token -> fx -> Prop :=
  match k with
  | KPrim => G LPrim
  | KMul => G LMul
  | KChain => mchain
  | KAdd => G LAdd
  | KSAdd => signed (G LAdd)
  | KL2 => addchain (G LAdd)
  | KSL2 => addchain (signed (G LAdd))
  end.

Lemma RA_le_mul k ts t : le_unsigned k 1 = true -> RA k ts t -> G LMul ts t.
Proof. destruct k; cbn; intros E H; try discriminate; [apply G_mul_prim|]; exact H. Qed.
Lemma RA_le_chain k ts t : le_unsigned k 2 = true -> RA k ts t -> mchain ts t.
Proof.
  destruct k; cbn; intros E H; try discriminate.
  - apply ch_one, G_mul_prim, H.
  - apply ch_one, H.
  - exact H.
Qed.
Lemma RA_le_add k ts t : le_unsigned k 3 = true -> RA k ts t -> G LAdd ts t.
Proof.
  destruct k; cbn; intros E H; try discriminate.
  - apply G_prim_add, H.
  - apply G_add_mul, H.
  - apply mchain_add, H.
  - exact H.
Qed.
Lemma RA_unsigned k ts t : cls_signed k = false -> RA k ts t -> addchain (G LAdd) ts t.
Proof.
  destruct k; cbn; intros E H; try discriminate.
  - apply ac_hd, G_prim_add, H.
  - apply ac_hd, G_add_mul, H.
  - apply ac_hd, mchain_add, H.
  - apply ac_hd, H.
  - exact H.
Qed.
Lemma RA_signed k ts t : cls_signed k = true -> RA k ts t -> addchain (signed (G LAdd)) ts t.
Proof. destruct k; cbn; intros E H; try discriminate; [apply ac_hd|]; exact H. Qed.
Lemma RA_l2 k ts t : RA k ts t -> G L2 ts t.
Proof.
  destruct (cls_signed k) eqn:E; intro H.
  - apply (addchain_l2 (signed (G LAdd))); [apply signed_l2 | apply RA_signed with k; assumption].
  - apply (addchain_l2 (G LAdd)); [apply G_l2_add | apply RA_unsigned with k; assumption].
Qed.
Lemma RA_expr k ts t : RA k ts t -> G LExpr ts t.
Proof. intro H. apply G_l2_expr, RA_l2 with k, H. Qed.
Lemma le_unsigned_4 k : le_unsigned k 4 = true -> cls_signed k = false.
Proof. destruct k; cbn; congruence. Qed.
