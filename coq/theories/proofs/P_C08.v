(** C08 — soundness of the SimplifyMapper model on its class, refutation witnesses. *)
From Coq Require Import ZArith QArith List Bool String Lia.
From LV Require Import Base.Expr models.M_C08 proofs.P_C08_sem proofs.P_C08_helpers.
Import ListNotations.
Open Scope Z_scope.

Lemma to_of_expr : forall e, to_expr (of_expr e) = e.
Proof.
  induction e using expr_ind'; cbn [of_expr to_expr]; try congruence.
  - destruct p; cbn; f_equal; rewrite map_map; induction H; cbn; congruence.
  - destruct p; cbn; f_equal; rewrite map_map; induction H; cbn; congruence.
  - f_equal; rewrite map_map; induction H; cbn; congruence.
  - f_equal; rewrite map_map; induction H; cbn; congruence.
  - f_equal; rewrite map_map; induction H; cbn; congruence.
Qed.

Lemma Forall2_imp {A B} (P Q : A -> B -> Prop) l l' : (forall a b, P a b -> Q a b) -> Forall2 P l l' -> Forall2 Q l l'.
Proof. intros H. induction 1; constructor; auto. Qed.

Section Main.
Variable rho : env.

Notation tv := (tv rho).
Notation df := (df rho).
Notation tb := (tb rho).
Notation dfb := (dfb rho).
Notation zsound := (zsound rho).

Definition bsound (e e' : sx) : Prop := dfb e = true -> dfb e' = true /\ tb e' = tb e.
Definition sound (e e' : sx) : Prop := zsound e e' /\ bsound e e'.

Lemma bsound_refl e : bsound e e. Proof. intros H; auto. Qed.
Lemma bsound_trans a b c : bsound a b -> bsound b c -> bsound a c.
Proof. intros H1 H2 Ha. destruct (H1 Ha) as [Hb E1]. destruct (H2 Hb) as [Hc E2]. split; congruence. Qed.
Lemma sound_refl e : sound e e. Proof. split; [apply zsound_refl|apply bsound_refl]. Qed.
Lemma sound_trans a b c : sound a b -> sound b c -> sound a c.
Proof. intros [A1 A2] [B1 B2]. split; [eapply zsound_trans|eapply bsound_trans]; eauto. Qed.

(** a node that is not a logical has no logical value: [bsound] holds vacuously *)
Lemma bsound_nonlog e e' : dfb e = false -> bsound e e'.
Proof. intros H H'. congruence. Qed.
Lemma zsound_nonint e e' : df e = false -> zsound e e'.
Proof. intros H H'. congruence. Qed.

(** * children *)
Lemma rmapb_spec (f : sx -> res (sx * bool)) cs : forall cs' b, rmapb f cs = Ok (cs', b) ->
  Forall2 (fun c c' => exists bc, f c = Ok (c', bc) /\ (b = true -> bc = true)) cs cs'.
Proof.
  induction cs as [|c cs IH]; cbn [rmapb]; intros cs' b.
  - intros H; injection H as <- <-. constructor.
  - destruct (f c) as [[c' bc]| |] eqn:F; cbn [rbind]; try discriminate.
    destruct (rmapb f cs) as [[cs0 b0]| |] eqn:R; cbn [rbind]; try discriminate.
    intros H; injection H as <- <-. cbn [fst snd]. constructor.
    + exists bc. split; [exact F|]. intros Hb. apply andb_true_iff in Hb as [Hb _]. assumption.
    + eapply Forall2_imp; [|apply IH; reflexivity]. cbn. intros a a' [bc' [E1 E2]]. exists bc'. split; [assumption|].
      intros Hb. apply andb_true_iff in Hb as [_ Hb]. auto.
Qed.

Lemma children_z cs cs' : Forall2 sound cs cs' -> alldf rho cs = true ->
  alldf rho cs' = true /\ sumv rho cs' = sumv rho cs /\ prodv rho cs' = prodv rho cs /\ map tv cs' = map tv cs.
Proof.
  induction 1 as [|c c' cs cs' [Hc _] _ IH]; [auto|].
  rewrite !alldf_cons, !sumv_cons, !prodv_cons. intros H. apply andb_true_iff in H as [H1 H2].
  destruct (Hc H1) as [Cd Cv]. destruct (IH H2) as [Id [Is [Ip Im]]].
  cbn [map]. rewrite Cd, Cv, Id, Is, Ip, Im. auto.
Qed.

Lemma children_b cs cs' : Forall2 sound cs cs' -> forallb dfb cs = true ->
  forallb dfb cs' = true /\ forallb tb cs' = forallb tb cs /\ existsb tb cs' = existsb tb cs.
Proof.
  induction 1 as [|c c' cs cs' [_ Hc] _ IH]; [auto|].
  cbn [forallb existsb]. intros H. apply andb_true_iff in H as [H1 H2].
  destruct (Hc H1) as [Cd Cv]. destruct (IH H2) as [Id [Ia Io]].
  rewrite Cd, Cv, Id, Ia, Io. auto.
Qed.

(** * pipelines *)
Lemma pipeline_sum_sound fl wf e r : pipeline_sum fl wf e = Ok (r, true) -> zsound e r.
Proof.
  unfold pipeline_sum.
  destruct (if f_flatten fl then flatten_i wf e else Ok (e, true)) as [[e1 s1]| |] eqn:F; cbn [rbind]; try discriminate.
  cbn [fst snd]. intros H. injection H as <- Hs. apply andb_true_iff in Hs as [Hs1 Hs3]. subst s1.
  assert (Z1 : zsound e e1).
  { destruct (f_flatten fl); [apply (flatten_sound rho wf); assumption|]. injection F as <-. apply zsound_refl. }
  set (e2 := if f_int fl || f_fp fl then sum_literals (f_int fl) (f_fp fl) e1 else e1) in *.
  assert (Z2 : zsound e1 e2).
  { subst e2. destruct (f_int fl || f_fp fl); [apply sum_literals_sound|apply zsound_refl]. }
  assert (Z3 : zsound e2 (fst (if f_cc fl then collect_i e2 else (e2, true)))).
  { destruct (f_cc fl); [|apply zsound_refl]. destruct (collect_i e2) as [e3 s3] eqn:C. cbn [fst snd] in *.
    subst s3. apply (collect_sound rho _ _ C). }
  eapply zsound_trans; [exact Z1|]. eapply zsound_trans; [exact Z2|exact Z3].
Qed.

Lemma pipeline_prod_sound fl wf e r : pipeline_prod fl wf e = Ok (r, true) -> zsound e r.
Proof.
  unfold pipeline_prod.
  destruct (if f_flatten fl then flatten_i wf e else Ok (e, true)) as [[e1 s1]| |] eqn:F; cbn [rbind]; try discriminate.
  cbn [fst snd].
  assert (Z1 : s1 = true -> zsound e e1).
  { intros ->. destruct (f_flatten fl); [apply (flatten_sound rho wf); assumption|]. injection F as <-. apply zsound_refl. }
  destruct (f_int fl || f_fp fl).
  - intros H. injection H as <- Hs1.
    eapply zsound_trans; [apply Z1; assumption|]. apply mul_literals_sound.
  - intros H. injection H as <- ->. auto.
Qed.

Lemma pipeline_quot_sound fl wf e r : pipeline_quot fl wf e = Ok (r, true) -> zsound e r.
Proof.
  unfold pipeline_quot.
  destruct (if f_flatten fl then flatten_i wf e else Ok (e, true)) as [[e1 s1]| |] eqn:F; cbn [rbind]; try discriminate.
  cbn [fst snd].
  assert (Z1 : s1 = true -> zsound e e1).
  { intros ->. destruct (f_flatten fl); [apply (flatten_sound rho wf); assumption|]. injection F as <-. apply zsound_refl. }
  destruct (f_int fl || f_fp fl).
  - destruct (div_literals_i (f_fp fl) e1) as [[e2 s2]| |] eqn:D; cbn [rbind]; try discriminate.
    cbn [fst snd]. intros H. injection H as <- Hs. apply andb_true_iff in Hs as [Hs1 Hs2]. subst s2.
    eapply zsound_trans; [apply Z1; assumption|]. apply (div_literals_sound rho _ _ _ D).
  - intros H. injection H as <- ->. auto.
Qed.

(** * powers *)
Lemma powv_one n : powv 1 n = 1.
Proof.
  unfold powv. destruct (0 <=? n) eqn:E.
  - apply Z.pow_1_l. apply Z.leb_le. assumption.
  - rewrite Z.pow_1_l; [reflexivity|]. apply Z.leb_gt in E. lia.
Qed.

Lemma simp_pow_sound fl p b x : zsound (SPow p b x) (simp_pow fl p b x).
Proof.
  unfold simp_pow. destruct p; [apply zsound_refl|]. destruct (f_int fl); [|apply zsound_refl].
  intros Hd.
  assert (Hone : forall bv, b = SInt bv -> (bv =? 1) = true -> df b = true /\ tv b = tv (SPow false b x)).
  { intros bv -> E. apply Z.eqb_eq in E. subst. cbn [P_C08_sem.tv P_C08_sem.df]. rewrite powv_one. auto. }
  assert (Hexp : forall xv, x = SInt xv ->
           df (if xv =? 0 then SInt 1 else if xv =? 1 then b else SPow false b x) = true /\
           tv (if xv =? 0 then SInt 1 else if xv =? 1 then b else SPow false b x) = tv (SPow false b x)).
  { intros xv ->. destruct (xv =? 0) eqn:E0.
    - apply Z.eqb_eq in E0. subst. split; reflexivity.
    - destruct (xv =? 1) eqn:E1; [|auto]. apply Z.eqb_eq in E1. subst.
      cbn [P_C08_sem.df] in Hd. apply andb_true_iff in Hd as [Hd _]. apply andb_true_iff in Hd as [Hd _].
      split; [assumption|]. cbn [P_C08_sem.tv]. unfold powv. cbn [Z.leb Z.compare]. rewrite Z.pow_1_r. reflexivity. }
  destruct b as [bv| | | | | | | | | | | |]; destruct x as [xv| | | | | | | | | | | |];
    try (split; [assumption|reflexivity]); try (eapply Hexp; reflexivity).
  all: try (destruct (bv =? 1) eqn:E1; [eapply Hone; [reflexivity|assumption]|split; [assumption|reflexivity]]).
  destruct (bv =? 1) eqn:E1; [eapply Hone; [reflexivity|assumption]|].
  destruct (xv =? 0) eqn:E0; [apply Z.eqb_eq in E0; subst; split; reflexivity|].
  destruct (xv =? 1) eqn:E2.
  { apply Z.eqb_eq in E2. subst. split; [reflexivity|]. cbn [P_C08_sem.tv]. unfold powv. cbn [Z.leb Z.compare].
    rewrite Z.pow_1_r. reflexivity. }
  destruct (0 <? xv) eqn:E3; [|split; [assumption|reflexivity]].
  apply Z.ltb_lt in E3. split; [reflexivity|]. cbn [P_C08_sem.tv]. unfold powv.
  replace (0 <=? xv) with true by (symmetry; apply Z.leb_le; lia). reflexivity.
Qed.

(** * logic evaluation *)
Lemma cval_spec e : is_constant e = true -> df e = true /\ tv e = cval e.
Proof.
  unfold is_constant, cval. destruct (peel e) as [k core] eqn:P. destruct (peel_spec rho e k core P) as [Pv Pd].
  cbn [snd]. rewrite Pv, Pd. destruct core; try discriminate; intros _; cbn [P_C08_sem.tv P_C08_sem.df]; auto.
Qed.

Lemma simp_cmp_sound fl op l r l' r' s res :
  zsound l l' -> zsound r r' -> simp_cmp fl op l' r' s = Ok (res, true) -> bsound (SCmp op l r) res.
Proof.
  intros Zl Zr. unfold simp_cmp. intros H Hd. cbn [P_C08_sem.dfb] in Hd. apply andb_true_iff in Hd as [Hl Hr].
  destruct (Zl Hl) as [Ld Lv]. destruct (Zr Hr) as [Rd Rv].
  destruct (f_logic fl && is_constant l' && is_constant r') eqn:C.
  - apply andb_true_iff in C as [C Cr]. apply andb_true_iff in C as [_ Cl].
    injection H as <- _. destruct (cval_spec _ Cl) as [_ E1]. destruct (cval_spec _ Cr) as [_ E2].
    cbn [P_C08_sem.dfb P_C08_sem.tb]. split; [reflexivity|]. congruence.
  - injection H as <- _. cbn [P_C08_sem.dfb P_C08_sem.tb]. rewrite Ld, Rd, Lv, Rv. auto.
Qed.

Lemma eq_str_log_true b : eq_str (SLog b) "true" = b.
Proof. destruct b; vm_compute; reflexivity. Qed.
Lemma eq_str_log_false b : eq_str (SLog b) "false" = negb b.
Proof. destruct b; vm_compute; reflexivity. Qed.

(** under [log_shape_ok], a child that compares equal to 'True' / 'False' is that literal *)
Lemma shape_true cs c : log_shape_ok cs = true -> In c cs -> eq_str c "true" = true -> c = SLog true.
Proof.
  unfold log_shape_ok. rewrite forallb_forall. intros H Hin E. specialize (H c Hin). rewrite E in H. cbn in H.
  destruct c; try discriminate. rewrite eq_str_log_true in E. congruence.
Qed.
Lemma shape_false cs c : log_shape_ok cs = true -> In c cs -> eq_str c "false" = true -> c = SLog false.
Proof.
  unfold log_shape_ok. rewrite forallb_forall. intros H Hin E. specialize (H c Hin). rewrite E, orb_true_r in H. cbn in H.
  destruct c; try discriminate. rewrite eq_str_log_false in E. destruct b; [discriminate|reflexivity].
Qed.

Lemma filter_true_and cs : (forall c, In c cs -> eq_str c "true" = true -> c = SLog true) ->
  forallb dfb cs = true ->
  forallb dfb (filter (fun c => negb (eq_str c "true")) cs) = true /\
  forallb tb (filter (fun c => negb (eq_str c "true")) cs) = forallb tb cs.
Proof.
  induction cs as [|c cs IH]; intros Hs Hd; [auto|]. cbn [forallb] in Hd. apply andb_true_iff in Hd as [Hd1 Hd2].
  destruct IH as [I1 I2]; [intros; apply Hs; [right|]; assumption|assumption|].
  cbn [filter forallb]. destruct (eq_str c "true") eqn:E; cbn [negb].
  - rewrite (Hs c (or_introl eq_refl) E). cbn. auto.
  - cbn [forallb]. rewrite Hd1, I1, I2. auto.
Qed.

Lemma filter_false_or cs : (forall c, In c cs -> eq_str c "false" = true -> c = SLog false) ->
  forallb dfb cs = true ->
  forallb dfb (filter (fun c => negb (eq_str c "false")) cs) = true /\
  existsb tb (filter (fun c => negb (eq_str c "false")) cs) = existsb tb cs.
Proof.
  induction cs as [|c cs IH]; intros Hs Hd; [auto|]. cbn [forallb] in Hd. apply andb_true_iff in Hd as [Hd1 Hd2].
  destruct IH as [I1 I2]; [intros; apply Hs; [right|]; assumption|assumption|].
  cbn [filter existsb]. destruct (eq_str c "false") eqn:E; cbn [negb].
  - rewrite (Hs c (or_introl eq_refl) E). cbn. auto.
  - cbn [forallb existsb]. rewrite Hd1, I1, I2. auto.
Qed.

Lemma simp_and_sound fl cs cs' s : Forall2 sound cs cs' -> snd (simp_and fl cs' s) = true ->
  bsound (SAnd cs) (fst (simp_and fl cs' s)).
Proof.
  intros F Hs Hd. cbn [P_C08_sem.dfb P_C08_sem.tb] in *. destruct (children_b _ _ F Hd) as [Cd [Ca _]]. rewrite <- Ca.
  unfold simp_and in *. destruct (f_logic fl).
  - assert (Hshape : log_shape_ok cs' = true).
    { destruct (existsb _ cs'); [|destruct (filter _ cs')]; cbn [snd] in Hs; apply andb_true_iff in Hs as [_ Hs]; assumption. }
    destruct (existsb (fun c => eq_str c "false") cs') eqn:E.
    + cbn [fst P_C08_sem.dfb P_C08_sem.tb]. split; [reflexivity|]. apply existsb_exists in E as [c [Hin Ec]].
      rewrite (shape_false _ _ Hshape Hin Ec) in Hin. symmetry. apply not_true_is_false. intros C.
      rewrite forallb_forall in C. specialize (C _ Hin). discriminate.
    + destruct (filter_true_and cs') as [F1 F2]; [intros; eapply shape_true; eassumption|assumption|].
      destruct (filter (fun c => negb (eq_str c "true")) cs') as [|y l] eqn:Fl; cbn [fst P_C08_sem.dfb P_C08_sem.tb].
      * split; [reflexivity|]. rewrite <- F2. reflexivity.
      * split; [assumption|]. assumption.
  - destruct cs'; cbn [fst P_C08_sem.dfb P_C08_sem.tb]; auto.
Qed.

Lemma simp_or_sound fl cs cs' s : Forall2 sound cs cs' -> snd (simp_or fl cs' s) = true ->
  bsound (SOr cs) (fst (simp_or fl cs' s)).
Proof.
  intros F Hs Hd. cbn [P_C08_sem.dfb P_C08_sem.tb] in *. destruct (children_b _ _ F Hd) as [Cd [_ Co]]. rewrite <- Co.
  unfold simp_or in *. destruct (f_logic fl).
  - assert (Hshape : log_shape_ok cs' = true).
    { destruct (existsb _ cs'); [|destruct (filter _ cs')]; cbn [snd] in Hs; apply andb_true_iff in Hs as [_ Hs]; assumption. }
    destruct (existsb (fun c => eq_str c "true") cs') eqn:E.
    + cbn [fst P_C08_sem.dfb P_C08_sem.tb]. split; [reflexivity|]. apply existsb_exists in E as [c [Hin Ec]].
      rewrite (shape_true _ _ Hshape Hin Ec) in Hin. symmetry. apply existsb_exists. exists (SLog true). auto.
    + destruct (filter_false_or cs') as [F1 F2]; [intros; eapply shape_false; eassumption|assumption|].
      destruct (filter (fun c => negb (eq_str c "false")) cs') as [|y l] eqn:Fl; cbn [fst P_C08_sem.dfb P_C08_sem.tb].
      * split; [reflexivity|]. rewrite <- F2. reflexivity.
      * split; [assumption|]. assumption.
  - destruct cs'; cbn [fst P_C08_sem.dfb P_C08_sem.tb]; auto.
Qed.

Lemma simp_not_sound fl c c' s : sound c c' -> snd (simp_not fl c' s) = true ->
  bsound (SNot c) (fst (simp_not fl c' s)).
Proof.
  intros [_ Hc] Hs Hd. cbn [P_C08_sem.dfb P_C08_sem.tb] in *. destruct (Hc Hd) as [Cd Cv]. rewrite <- Cv.
  unfold simp_not in *. destruct (f_logic fl); [|cbn [fst P_C08_sem.dfb P_C08_sem.tb]; auto].
  assert (Hshape : log_shape_ok [c'] = true).
  { destruct (eq_str c' "true"); [|destruct (eq_str c' "false")]; cbn [snd] in Hs; apply andb_true_iff in Hs as [_ Hs]; assumption. }
  destruct (eq_str c' "true") eqn:E1.
  - rewrite (shape_true _ _ Hshape (or_introl eq_refl) E1). split; reflexivity.
  - destruct (eq_str c' "false") eqn:E2.
    + rewrite (shape_false _ _ Hshape (or_introl eq_refl) E2). split; reflexivity.
    + cbn [fst P_C08_sem.dfb P_C08_sem.tb]. auto.
Qed.

(** * one step of the mapper *)
Definition rec_ok (rec : sx -> res (sx * bool)) : Prop :=
  forall e r, rec e = Ok (r, true) -> sound e r.

Lemma forall2_sound rec cs cs' b : rec_ok rec -> b = true ->
  Forall2 (fun c c' => exists bc, rec c = Ok (c', bc) /\ (b = true -> bc = true)) cs cs' -> Forall2 sound cs cs'.
Proof.
  intros Hr Hb F. eapply Forall2_imp; [|exact F]. cbn. intros a a' [bc [E1 E2]]. apply Hr. rewrite E1, (E2 Hb). reflexivity.
Qed.

Lemma reapply_sound rec e s0 new r : rec_ok rec -> (s0 = true -> snd new = true -> zsound e (fst new)) ->
  dfb e = false -> reapply rec e s0 new = Ok (r, true) -> sound e r.
Proof.
  intros Hr Hz Hb. unfold reapply. destruct (loki_eq (fst new) e).
  - intros H. injection H as <-. apply sound_refl.
  - destruct (rec (fst new)) as [[r' s']| |] eqn:R; cbn [rbind]; try discriminate. cbn [fst snd].
    intros H. injection H as <- Hs. apply andb_true_iff in Hs as [Hs Hs']. apply andb_true_iff in Hs as [H0 H1]. subst s'.
    destruct (Hr _ _ R) as [Z _]. split; [|apply bsound_nonlog; assumption].
    eapply zsound_trans; [apply Hz; assumption|exact Z].
Qed.

Lemma simp_step_sound fl wf rec : rec_ok rec -> rec_ok (simp_step fl wf rec).
Proof.
  intros Hr e r. destruct e; cbn [simp_step].
  - intros H; injection H as <-. apply sound_refl.
  - intros H; injection H as <-. apply sound_refl.
  - intros H; injection H as <-. apply sound_refl.
  - intros H; injection H as <-. apply sound_refl.
  - (* sum *)
    destruct (rmapb rec cs) as [[cs' s0]| |] eqn:R; cbn [rbind]; try discriminate. cbn [fst snd].
    destruct (pipeline_sum fl wf (SSum KL cs')) as [[new s1]| |] eqn:P; cbn [rbind]; try discriminate.
    apply reapply_sound; [assumption| |reflexivity].
    cbn [fst snd]. intros -> ->. eapply zsound_trans; [|apply (pipeline_sum_sound _ _ _ _ P)].
    pose proof (forall2_sound _ _ _ _ Hr eq_refl (rmapb_spec _ _ _ _ R)) as F.
    intros Hd. rewrite df_sum in Hd. destruct (children_z _ _ F Hd) as [A [B _]]. rewrite df_sum, !tv_sum. auto.
  - (* product *)
    destruct (rmapb rec cs) as [[cs' s0]| |] eqn:R; cbn [rbind]; try discriminate. cbn [fst snd].
    destruct (pipeline_prod fl wf (SProd KL cs')) as [[new s1]| |] eqn:P; cbn [rbind]; try discriminate.
    apply reapply_sound; [assumption| |reflexivity].
    cbn [fst snd]. intros -> ->. eapply zsound_trans; [|apply (pipeline_prod_sound _ _ _ _ P)].
    pose proof (forall2_sound _ _ _ _ Hr eq_refl (rmapb_spec _ _ _ _ R)) as F.
    intros Hd. rewrite df_prod in Hd. destruct (children_z _ _ F Hd) as [A [_ [B _]]]. rewrite df_prod, !tv_prod. auto.
  - (* quotient *)
    destruct (rec e1) as [[n' sn]| |] eqn:Rn; cbn [rbind]; try discriminate.
    destruct (rec e2) as [[d' sd]| |] eqn:Rd; cbn [rbind]; try discriminate. cbn [fst snd].
    destruct (pipeline_quot fl wf (SQuot false n' d')) as [[new s1]| |] eqn:P; cbn [rbind]; try discriminate.
    apply reapply_sound; [assumption| |reflexivity].
    cbn [fst snd]. intros Hs ->. apply andb_true_iff in Hs as [-> ->].
    eapply zsound_trans; [|apply (pipeline_quot_sound _ _ _ _ P)].
    destruct (Hr _ _ Rn) as [Zn _]. destruct (Hr _ _ Rd) as [Zd _].
    intros Hd. cbn [P_C08_sem.df] in Hd. apply andb_true_iff in Hd as [Hd Hz]. apply andb_true_iff in Hd as [Hd1 Hd2].
    destruct (Zn Hd1) as [Nd Nv]. destruct (Zd Hd2) as [Dd Dv].
    cbn [P_C08_sem.df P_C08_sem.tv]. rewrite Nd, Dd, Nv, Dv, Hz. auto.
  - (* power *)
    destruct (rec e1) as [[b' sb]| |] eqn:Rb; cbn [rbind]; try discriminate.
    destruct (rec e2) as [[x' sx]| |] eqn:Rx; cbn [rbind]; try discriminate. cbn [fst snd].
    intros H. injection H as <- Hs. apply andb_true_iff in Hs as [-> ->].
    destruct (Hr _ _ Rb) as [Zb _]. destruct (Hr _ _ Rx) as [Zx _].
    split; [|apply bsound_nonlog; reflexivity].
    eapply zsound_trans; [|apply simp_pow_sound].
    intros Hd. cbn [P_C08_sem.df] in Hd. apply andb_true_iff in Hd as [Hd Hz]. apply andb_true_iff in Hd as [Hd1 Hd2].
    destruct (Zb Hd1) as [Bd Bv]. destruct (Zx Hd2) as [Xd Xv].
    cbn [P_C08_sem.df P_C08_sem.tv]. rewrite Bd, Xd, Bv, Xv, Hz. auto.
  - (* comparison *)
    destruct (rec e1) as [[l' sl]| |] eqn:Rl; cbn [rbind]; try discriminate.
    destruct (rec e2) as [[r' sr]| |] eqn:Rr; cbn [rbind]; try discriminate. cbn [fst snd].
    intros H.
    assert (Hs : sl && sr = true).
    { unfold simp_cmp in H. destruct (f_logic fl && is_constant l' && is_constant r'); injection H as _ H; assumption. }
    apply andb_true_iff in Hs as [-> ->].
    destruct (Hr _ _ Rl) as [Zl _]. destruct (Hr _ _ Rr) as [Zr _].
    split; [apply zsound_nonint; reflexivity|]. eapply simp_cmp_sound; eassumption.
  - (* and *)
    destruct (rmapb rec cs) as [[cs' s0]| |] eqn:R; cbn [rbind]; try discriminate. cbn [fst snd].
    intros H. assert (E : simp_and fl cs' s0 = (r, true)) by congruence.
    assert (Hs0 : s0 = true).
    { unfold simp_and in E. destruct (f_logic fl).
      - destruct (existsb _ cs'); [|destruct (filter _ cs')]; injection E as _ E; apply andb_true_iff in E as [E _]; assumption.
      - destruct cs'; injection E as _ E; assumption. }
    pose proof (forall2_sound _ _ _ _ Hr Hs0 (rmapb_spec _ _ _ _ R)) as F.
    split; [apply zsound_nonint; reflexivity|].
    replace r with (fst (simp_and fl cs' s0)) by (rewrite E; reflexivity).
    apply simp_and_sound; [assumption|rewrite E; reflexivity].
  - (* or *)
    destruct (rmapb rec cs) as [[cs' s0]| |] eqn:R; cbn [rbind]; try discriminate. cbn [fst snd].
    intros H. assert (E : simp_or fl cs' s0 = (r, true)) by congruence.
    assert (Hs0 : s0 = true).
    { unfold simp_or in E. destruct (f_logic fl).
      - destruct (existsb _ cs'); [|destruct (filter _ cs')]; injection E as _ E; apply andb_true_iff in E as [E _]; assumption.
      - destruct cs'; injection E as _ E; assumption. }
    pose proof (forall2_sound _ _ _ _ Hr Hs0 (rmapb_spec _ _ _ _ R)) as F.
    split; [apply zsound_nonint; reflexivity|].
    replace r with (fst (simp_or fl cs' s0)) by (rewrite E; reflexivity).
    apply simp_or_sound; [assumption|rewrite E; reflexivity].
  - (* not *)
    destruct (rec e) as [[c' sc]| |] eqn:R; cbn [rbind]; try discriminate. cbn [fst snd].
    intros H. assert (E : simp_not fl c' sc = (r, true)) by congruence.
    assert (Hs0 : sc = true).
    { unfold simp_not in E. destruct (f_logic fl).
      - destruct (eq_str c' "true"); [|destruct (eq_str c' "false")]; injection E as _ E; apply andb_true_iff in E as [E _]; assumption.
      - injection E as _ E; assumption. }
    subst sc. split; [apply zsound_nonint; reflexivity|].
    replace r with (fst (simp_not fl c' true)) by (rewrite E; reflexivity).
    apply simp_not_sound; [apply Hr; assumption|rewrite E; reflexivity].
  - (* call *)
    destruct (rmapb rec args) as [[args' s0]| |] eqn:R; cbn [rbind]; try discriminate. cbn [fst snd].
    intros H. injection H as <- ->.
    pose proof (forall2_sound _ _ _ _ Hr eq_refl (rmapb_spec _ _ _ _ R)) as F.
    split; [|apply bsound_nonlog; reflexivity].
    intros Hd. cbn [P_C08_sem.df] in Hd. apply andb_true_iff in Hd as [Hd Hc].
    destruct (children_z _ _ F Hd) as [A [_ [_ M]]].
    cbn [P_C08_sem.df P_C08_sem.tv]. fold (alldf rho args'). rewrite A, M, Hc. auto.
Qed.

Theorem simp_sound fl wf fuel : rec_ok (simp_i fl wf fuel).
Proof.
  induction fuel as [|fu IH]; cbn [simp_i].
  - intros e r H. discriminate.
  - apply simp_step_sound. assumption.
Qed.

End Main.

(** * The theorems on the shared expression type *)
Theorem simplify_sound_Z_on_class fl e : in_class fl e = true ->
  exists e', simplify fl e = Some e' /\
    forall rho v, evalZ rho e = Some v -> evalZ rho e' = Some v.
Proof.
  unfold in_class, simplify, simplify_i. destruct (simp_i fl default_wf default_fuel (of_expr e)) as [[r s]| |] eqn:S; try discriminate.
  cbn [fst snd]. intros ->. eexists. split; [reflexivity|]. intros rho v Hv.
  destruct (simp_sound rho fl _ _ _ _ S) as [Z _].
  rewrite <- (to_of_expr e) in Hv. apply evalZ_some in Hv as [Hd Ht]. apply evalZ_some.
  destruct (Z Hd) as [A B]. split; congruence.
Qed.

Theorem simplify_sound_B_on_class fl e : in_class fl e = true ->
  exists e', simplify fl e = Some e' /\
    forall rho v, evalB rho e = Some v -> evalB rho e' = Some v.
Proof.
  unfold in_class, simplify, simplify_i. destruct (simp_i fl default_wf default_fuel (of_expr e)) as [[r s]| |] eqn:S; try discriminate.
  cbn [fst snd]. intros ->. eexists. split; [reflexivity|]. intros rho v Hv.
  destruct (simp_sound rho fl _ _ _ _ S) as [_ Z].
  rewrite <- (to_of_expr e) in Hv. apply evalB_some in Hv as [Hd Ht]. apply evalB_some.
  destruct (Z Hd) as [A B]. split; congruence.
Qed.

(** the same for every fuel: whenever the instrumented model run ends without an unsafe step *)
Theorem simp_sound_any_fuel fl wf fuel e r : simp_i fl wf fuel (of_expr e) = Ok (r, true) ->
  forall rho, (forall v, evalZ rho e = Some v -> evalZ rho (to_expr r) = Some v) /\
              (forall v, evalB rho e = Some v -> evalB rho (to_expr r) = Some v).
Proof.
  intros S rho. destruct (simp_sound rho fl _ _ _ _ S) as [Z B]. split; intros v Hv; rewrite <- (to_of_expr e) in Hv.
  - apply evalZ_some in Hv as [Hd Ht]. apply evalZ_some. destruct (Z Hd). split; congruence.
  - apply evalB_some in Hv as [Hd Ht]. apply evalB_some. destruct (B Hd). split; congruence.
Qed.

Lemma zsound_is_evalZ rho e e' : zsound rho e e' <->
  (forall v, evalZ rho (to_expr e) = Some v -> evalZ rho (to_expr e') = Some v).
Proof.
  unfold zsound. split.
  - intros H v Hv. apply evalZ_some in Hv as [Hd Ht]. apply evalZ_some. destruct (H Hd). split; congruence.
  - intros H Hd. specialize (H (tv rho e)). rewrite !evalZ_some in H. destruct H as [A B]; auto.
Qed.

Lemma quot_neg_both a b : b <> 0 -> Z.quot (- a) b = - Z.quot a b /\ Z.quot a (- b) = - Z.quot a b.
Proof. intros H. split; [apply quot_neg_l|apply quot_neg_r]; assumption. Qed.
