(** C15 -- witnesses of the known findings and instances of the class hypotheses. *)
From Coq Require Import ZArith List Bool String Ascii Lia Permutation Relations.
From LV Require Import Base.Strings models.M_C15 proofs.P_C15 proofs.P_C15_uniq proofs.P_C15_ir.
Import ListNotations.
Open Scope Z_scope.
Open Scope list_scope.
Open Scope string_scope.

(* ---------------------------------------------------------------------------------- *)
(** * Witnesses of the current defects and non-trivial instances of the class hypotheses *)

(** small builders *)
Definition vsym (l : Z) (n : string) : expr := EN l CVarSym n n [].
Definition scal (l : Z) (n : string) : expr := EN l CScalar n n [vsym (l + 1) n].
Definition ilit (l : Z) (v : string) : expr := EN l CInt v v [].
Definition arr1 (l : Z) (n : string) (d : expr) : expr :=
  EN l CArray n (n ++ "(" ++ eskey d ++ ")")
     [EN (l + 1) CSubscript "" (n ++ "(" ++ eskey d ++ ")") [vsym (l + 2) n; EN (l + 3) CTuple "" "" [d]]].

(** F1: [integer :: n] -- VariableDeclaration(symbols=(n,), dimensions=None) *)
Definition decl_n : item := INode 1 K_VARDECL 1 [ITuple [IExpr (scal 10 "n")]; IOther] [].
(** [real :: a(10)] *)
Definition decl_a10 : item := INode 1 K_VARDECL 1 [ITuple [IExpr (arr1 10 "a" (ilit 20 "10"))]; IOther] [].

Lemma with_ir_node_refuted :
  (* unique=True, with_ir_node=True raises AssertionError on a plain declaration *)
  ef true true (qof FVars) decl_n = None /\
  (* unique=False: the declared symbol three times and a None *)
  ef false true (qof FVars) decl_n =
    Some [PT [PN 1; PT [PE (scal 10 "n"); PNone; PE (scal 10 "n"); PE (scal 10 "n")]]] /\
  (* FindLiterals returns the declared array, which is not a literal *)
  ef false true (qof FLits) decl_a10 =
    Some [PT [PN 1; PT [PE (arr1 10 "a" (ilit 20 "10")); PNone; PE (arr1 10 "a" (ilit 20 "10")); PE (ilit 20 "10")]]] /\
  qof FLits (arr1 10 "a" (ilit 20 "10")) = false /\
  (* whereas the flat mode is right on the same trees *)
  ef false false (qof FVars) decl_n = Some [PE (scal 10 "n")] /\
  ef false false (qof FLits) decl_a10 = Some [PE (ilit 20 "10")] /\
  wi_ok true decl_n = false.
Proof. repeat split; vm_compute; reflexivity. Qed.

(** F3: two structurally equal comments (same [eqk]) in two sections *)
Definition cmt (l q : Z) : item := INode l 17 q [] [].
Definition sec (l q : Z) (body : list item) : item := INode l 3 q [ITuple body] [].
Definition two_equal_comments : item := sec 1 1 [sec 2 2 [cmt 3 9]; sec 4 4 [cmt 5 9]].

Lemma scope_mode_refuted :
  In (cmt 3 9) (all_nodes two_equal_comments) /\
  map ilbl (find_nodes (scope_rule (ieqk (cmt 3 9))) false two_equal_comments) = [2; 4] /\
  map ilbl (find_nodes (holds (ilbl (cmt 3 9))) false two_equal_comments) = [2].
Proof. split; [cbn; tauto|]. split; vm_compute; reflexivity. Qed.

Definition eq_is_identityb (it : item) : bool :=
  forallb (fun a => forallb (fun b => Bool.eqb (ieqk a =? ieqk b)%Z (ilbl a =? ilbl b)%Z) (all_nodes it)) (all_nodes it).

Lemma eq_is_identityb_sound it : eq_is_identityb it = true -> eq_is_identity it.
Proof.
  unfold eq_is_identityb, eq_is_identity. intros H a b Ha Hb.
  rewrite forallb_forall in H. specialize (H a Ha). rewrite forallb_forall in H. specialize (H b Hb).
  apply eqb_prop in H. split; intros E.
  - apply Z.eqb_eq. rewrite <- H. now apply Z.eqb_eq.
  - apply Z.eqb_eq. rewrite H. now apply Z.eqb_eq.
Qed.

Definition loop_tree : item :=
  sec 1 1 [INode 2 5 2 [IExpr (scal 10 "i"); IExpr (EN 12 CLoopRange "" "1:n" [ilit 13 "1"; scal 14 "n"]);
                        ITuple [INode 3 11 3 [IExpr (arr1 20 "x" (scal 24 "i")); IExpr (scal 26 "N")] []; cmt 4 4]] []].

Example scope_class_instance :
  eq_is_identity loop_tree /\
  map ilbl (find_nodes (scope_rule 3) false loop_tree) = [2].
Proof. split; [apply eq_is_identityb_sound; vm_compute; reflexivity|vm_compute; reflexivity]. Qed.

(** F4: FindScopes with a TypeDef node as match returns the node, not its ancestors *)
Definition typedef_tree : item := sec 1 1 [INode 2 K_TYPEDEF 2 [ITuple [cmt 3 3]] []; cmt 4 4].

Lemma findscopes_typedef_refuted :
  find_scopes 2 true typedef_tree = [SNode (INode 2 K_TYPEDEF 2 [ITuple [cmt 3 3]] [])] /\
  find_scopes 4 true typedef_tree = [SAnc [typedef_tree; cmt 4 4]] /\
  find_scopes 3 true typedef_tree = [].
Proof. repeat split; vm_compute; reflexivity. Qed.

(** F5: recurse_query = "not a LogicLiteral": the literal itself is still reported
    (map_constant ignores the result of visit), an IntLiteral would not be *)
Definition tlit : expr := EN 1 CLogic "True" "True" [].
Lemma retrieve_prune_refuted :
  rq_block [CLogic] tlit = false /\ retrieve (qof FLits) (rq_block [CLogic]) tlit = [tlit] /\
  rq_block [CInt] (ilit 2 "1") = false /\ retrieve (qof FLits) (rq_block [CInt]) (ilit 2 "1") = [].
Proof. repeat split. Qed.

(** why [unique_is_dedup] speaks of the documented key and not only of ==:
    a loop range and a subscript range with the same text are identified by the key [str],
    although neither is == to the other *)
Definition lr : expr := EN 1 CLoopRange "" "1:n" [ilit 2 "1"; scal 3 "n"].
Definition ri : expr := EN 5 CRangeIndex "" "1:n" [ilit 6 "1"; scal 7 "n"].
Lemma unique_eq_refuted :
  uniq [lr; ri] = [ri] /\ expr_eqb ri lr = false /\ expr_eqb lr ri = false /\ key_eq lr ri.
Proof. repeat split. Qed.

(** F6: on a bare expression root unique=True does not reduce anything *)
Definition a_plus_a : expr := EN 1 CSum "" "a + a" [scal 2 "a"; scal 4 "a"].
Lemma unique_exprroot_refuted :
  ef true false (qof FVars) (IExpr a_plus_a) = Some [PE (scal 2 "a"); PE (scal 4 "a")] /\
  expr_eqb (scal 2 "a") (scal 4 "a") = true /\
  ef true false (qof FVars) (ITuple [IExpr a_plus_a]) = Some [PE (scal 4 "a")].
Proof. repeat split. Qed.

Example eq_class_instance :
  let l := [scal 1 "a"; scal 3 "A"; arr1 5 "a" (scal 9 "i"); arr1 11 "A" (scal 15 "I"); scal 17 "b"] in
  eq_class l /\ map elbl (uniq l) = [1; 5; 17].
Proof. split; [apply eq_classb_sound; vm_compute; reflexivity|vm_compute; reflexivity]. Qed.

Example with_ir_instance :
  wi_ok true loop_tree = true /\
  groups false (qof FVars) loop_tree =
    [(3, [scal 24 "i"; arr1 20 "x" (scal 24 "i"); scal 26 "N"]); (2, [scal 10 "i"; scal 14 "n"])] /\
  map elbl (ef_flat false (qof FVars) loop_tree) = [10; 14; 24; 20; 26] /\
  map elbl (ef_flat true (qof FVars) loop_tree) = [24; 14; 20].
Proof. repeat split; vm_compute; reflexivity. Qed.
