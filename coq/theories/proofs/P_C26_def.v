(** C26 — proofs, part 2: right-fold characterisation of the attacher's sets, the call rules'
    side conditions, soundness of [defines] (up to DO variables), must-defines, array names. *)
From Coq Require Import ZArith List Bool String Lia.
From LV Require Import Base.Expr Base.MiniF Base.MiniFFacts models.M_C26 proofs.P_C26.
Import ListNotations.
Open Scope Z_scope.

Ltac inv_obind E :=
  repeat (let x := fresh "r" in let Ex := fresh "E" in
          apply obind_some in E; destruct E as [x [Ex E]]).

(** * The sets of a body as a right fold *)
Section Spec.
  Variable sg : sigs.

  Definition Db (ss : list stmt) : names := flat_map (fun st => fst (du_stmt sg st)) ss.
  Fixpoint Ub (ss : list stmt) : names :=
    match ss with
    | [] => []
    | st :: r => snd (du_stmt sg st) ++ diff (Ub r) (fst (du_stmt sg st))
    end.

  Lemma du_body_cons x r D U :
    du_body sg (x :: r) D U = du_body sg r (D ++ fst (du_stmt sg x)) (U ++ diff (snd (du_stmt sg x)) D).
  Proof. reflexivity. Qed.

  Lemma du_body_spec : forall ss D U x,
    (In x (fst (du_body sg ss D U)) <-> In x D \/ In x (Db ss)) /\
    (In x (snd (du_body sg ss D U)) <-> In x U \/ (In x (Ub ss) /\ ~ In x D)).
  Proof.
    induction ss as [|st r IH]; intros D U x.
    - cbn. tauto.
    - rewrite du_body_cons. destruct (IH (D ++ fst (du_stmt sg st)) (U ++ diff (snd (du_stmt sg st)) D) x) as [A B].
      rewrite A, B. cbn [Db flat_map Ub]. fold (Db r).
      repeat (rewrite in_app_iff || rewrite In_diff). tauto.
  Qed.

  Lemma In_defines_of ss x : In x (defines_of sg ss) <-> In x (Db ss).
  Proof. unfold defines_of. destruct (du_body_spec ss [] [] x) as [A _]. rewrite A. cbn. tauto. Qed.

  Lemma In_uses_of ss x : In x (uses_of sg ss) <-> In x (Ub ss).
  Proof. unfold uses_of. destruct (du_body_spec ss [] [] x) as [_ B]. rewrite B. cbn. tauto. Qed.

  Lemma D_do v lo hi stp b x : In x (fst (du_stmt sg (SDo v lo hi stp b))) <-> In x (Db b) /\ x <> v.
  Proof.
    cbn [du_stmt fst]. rewrite In_rem1. fold (du_body sg).
    destruct (du_body_spec b [] (bound_vars lo hi stp) x) as [A _]. rewrite A. cbn. tauto.
  Qed.

  Lemma U_do v lo hi stp b x :
    In x (snd (du_stmt sg (SDo v lo hi stp b))) <-> (In x (bound_vars lo hi stp) \/ In x (Ub b)) /\ x <> v.
  Proof.
    cbn [du_stmt snd]. rewrite In_rem1. fold (du_body sg).
    destruct (du_body_spec b [] (bound_vars lo hi stp) x) as [_ B]. rewrite B. cbn. tauto.
  Qed.

  Lemma D_while c b x : In x (fst (du_stmt sg (SWhile c b))) <-> In x (Db b).
  Proof.
    cbn [du_stmt]. fold (du_body sg).
    destruct (du_body_spec b [] (evars c) x) as [A _]. rewrite A. cbn. tauto.
  Qed.

  Lemma U_while c b x : In x (snd (du_stmt sg (SWhile c b))) <-> In x (evars c) \/ In x (Ub b).
  Proof.
    cbn [du_stmt]. fold (du_body sg).
    destruct (du_body_spec b [] (evars c) x) as [_ B]. rewrite B. cbn. tauto.
  Qed.

  Lemma D_if c tb eb x : In x (fst (du_stmt sg (SIf c tb eb))) <-> In x (Db tb) \/ In x (Db eb).
  Proof.
    cbn [du_stmt fst]. fold (du_body sg). rewrite in_app_iff.
    destruct (du_body_spec tb [] (evars c) x) as [A _].
    destruct (du_body_spec eb [] (snd (du_body sg tb [] (evars c))) x) as [A' _].
    rewrite A, A'. cbn. tauto.
  Qed.

  Lemma U_if c tb eb x :
    In x (snd (du_stmt sg (SIf c tb eb))) <-> In x (evars c) \/ In x (Ub tb) \/ In x (Ub eb).
  Proof.
    cbn [du_stmt snd]. fold (du_body sg).
    destruct (du_body_spec tb [] (evars c) x) as [_ B].
    destruct (du_body_spec eb [] (snd (du_body sg tb [] (evars c))) x) as [_ B'].
    rewrite B', B. cbn. tauto.
  Qed.

  Lemma Db_app a b : Db (a ++ b) = Db a ++ Db b.
  Proof. unfold Db. apply flat_map_app. Qed.
End Spec.

Lemma dovars_app a b : dovars (a ++ b) = dovars a ++ dovars b.
Proof. unfold dovars. apply flat_map_app. Qed.

Lemma dsafe_app sg a b : dsafe sg (a ++ b) = dsafe sg a && dsafe sg b.
Proof. unfold dsafe. apply forallb_app. Qed.

(** * Generic facts about DO loops *)
Lemma do_loop_tr_w (P : loc -> Prop) run v d :
  (forall s s' t, run s = Some (s', t) -> forall l, In l (fst t) -> P l) -> P (LS v) ->
  forall n i s s' t, do_loop_tr run v d n i s = Some (s', t) -> forall l, In l (fst t) -> P l.
Proof.
  intros H Hv. induction n as [|n IH]; intros i s s' t E l Hl; cbn [do_loop_tr] in E.
  - inversion E; subst. apply wrT_w in Hl. now subst.
  - inv_obind E. destruct r as [s1 t1], r0 as [s2 t2]. cbn [fst snd] in *. inversion E; subst.
    apply seqT_w in Hl. destruct Hl as [Hl|Hl]; [|eapply IH; eauto].
    apply seqT_w in Hl. destruct Hl as [Hl|Hl]; [apply wrT_w in Hl; now subst|eapply H; eauto].
Qed.

Lemma do_loop_tr_r (P : loc -> Prop) run v d :
  (forall s s' t, run s = Some (s', t) -> forall l, In l (snd t) -> P l) ->
  forall n i s s' t, do_loop_tr run v d n i s = Some (s', t) -> forall l, In l (snd t) -> P l /\ l <> LS v.
Proof.
  intros H. induction n as [|n IH]; intros i s s' t E l Hl; cbn [do_loop_tr] in E.
  - inversion E; subst. now apply wrT_r in Hl.
  - inv_obind E. destruct r as [s1 t1], r0 as [s2 t2]. cbn [fst snd] in *. inversion E; subst.
    apply seqT_r in Hl. destruct Hl as [Hl|[Hl _]]; [|eapply IH; eauto].
    apply seqT_r in Hl. destruct Hl as [Hl|[Hl Hn]]; [now apply wrT_r in Hl|].
    split; [eapply H; eauto|]. intros ->. apply Hn. now apply wrT_w.
Qed.

(** every location touched by a loop is the DO variable or touched by a run of the body *)
Lemma do_loop_tr_any (P : loc -> Prop) run v d :
  (forall s s' t, run s = Some (s', t) -> forall l, In l (fst t) \/ In l (snd t) -> P l) -> P (LS v) ->
  forall n i s s' t, do_loop_tr run v d n i s = Some (s', t) -> forall l, In l (fst t) \/ In l (snd t) -> P l.
Proof.
  intros H Hv n i s s' t E l [Hl|Hl].
  - eapply (do_loop_tr_w P); [|exact Hv|exact E|exact Hl]. intros; eapply H; eauto.
  - eapply (do_loop_tr_r P) in Hl; [apply Hl| |exact E]. intros; eapply H; eauto.
Qed.

(** * Procedures, signatures *)
Lemma find_proc_In ps g p : find_proc ps g = Some p -> In (g, p) ps.
Proof.
  induction ps as [|[h q] r IH]; cbn; [discriminate|].
  destruct (String.eqb h g) eqn:E; [|auto].
  apply String.eqb_eq in E. intros H. inversion H; subst. now left.
Qed.

Lemma find_proc_ok mw ps sg g p :
  sigs_ok mw ps sg = true -> find_proc ps g = Some p -> proc_ok mw ps sg g p = true.
Proof.
  unfold sigs_ok. rewrite forallb_forall. intros H E.
  specialize (H _ (find_proc_In _ _ _ E)). cbn [fst] in H. now rewrite E in H.
Qed.

Lemma forallb_combine_nth {A B} (f : A * B -> bool) : forall a b k x y,
  forallb f (combine a b) = true -> nth_error a k = Some x -> nth_error b k = Some y -> f (x, y) = true.
Proof.
  induction a as [|a0 a IH]; intros [|b0 b] [|k] x y; cbn; try discriminate.
  - rewrite andb_true_iff. intros [H _] E1 E2. inversion E1; inversion E2; subst. exact H.
  - rewrite andb_true_iff. intros [_ H]. now apply IH.
Qed.

Lemma nth_error_len {A B} (a : list A) (b : list B) k x :
  List.length a = List.length b -> nth_error a k = Some x -> exists y, nth_error b k = Some y.
Proof.
  intros L E. assert (k < List.length b)%nat as Hk.
  { rewrite <- L. apply nth_error_Some. congruence. }
  apply nth_error_Some in Hk. destruct (nth_error b k); [eauto|congruence].
Qed.

Lemma nodupb_NoDup l : nodupb l = true -> NoDup l.
Proof.
  unfold nodupb. induction l as [|x r IH]; [constructor|].
  rewrite andb_true_iff, negb_true_iff, mem_false. intros [A B]. constructor; auto.
Qed.

Record sig_facts (mw : musts) (ps : procs) (sg : sigs) (p : proc) (its : list intent) : Prop := {
  sf_len : List.length its = List.length (p_params p);
  sf_dsafe : dsafe sg (p_body p) = true;
  sf_definite : definite mw ps sg (p_body p) = true;
  sf_noout : forall k it d b, nth_error its k = Some it -> nth_error (p_params p) k = Some (d, b) ->
             is_out it = false -> ~ In d (defines_of sg (p_body p)) /\ ~ In d (dovars (p_body p));
  sf_noin : forall k it d b, nth_error its k = Some it -> nth_error (p_params p) k = Some (d, b) ->
            is_in it = false -> ~ In d (uses_of sg (p_body p))
}.

Lemma proc_ok_sig mw ps sg g p its :
  proc_ok mw ps sg g p = true -> find_sig sg g = Some its -> sig_facts mw ps sg p its.
Proof.
  unfold proc_ok. intros H Es. rewrite Es in H.
  rewrite !andb_true_iff in H. destruct H as [[_ [[[Hl Hd] Hdef] Hf]] _].
  apply Nat.eqb_eq in Hl. rewrite map_length in Hl.
  assert (forall k it d b, nth_error its k = Some it -> nth_error (p_params p) k = Some (d, b) ->
            (is_out it || negb (mem d (defines_of sg (p_body p) ++ dovars (p_body p)))) &&
            (is_in it || negb (mem d (uses_of sg (p_body p)))) = true) as Hk.
  { intros k it d b E1 E2.
    apply (forallb_combine_nth _ _ _ k it d Hf E1).
    rewrite nth_error_map, E2. reflexivity. }
  constructor; auto.
  - intros k it d b E1 E2 Ho. specialize (Hk k it d b E1 E2).
    rewrite andb_true_iff, Ho in Hk. destruct Hk as [Hk _]. cbn [orb] in Hk.
    rewrite negb_true_iff, mem_false, in_app_iff in Hk. tauto.
  - intros k it d b E1 E2 Hi. specialize (Hk k it d b E1 E2).
    rewrite andb_true_iff, Hi in Hk. destruct Hk as [_ Hk]. cbn [orb] in Hk.
    now rewrite negb_true_iff, mem_false in Hk.
Qed.

Lemma proc_ok_nodup mw ps sg g p : proc_ok mw ps sg g p = true -> NoDup (map fst (p_params p)).
Proof.
  unfold proc_ok. rewrite !andb_true_iff. intros [[H _] _]. now apply nodupb_NoDup.
Qed.

Lemma proc_ok_must mw ps sg g p fl :
  proc_ok mw ps sg g p = true -> find_must mw g = Some fl ->
  forall k d isarr, nth_error fl k = Some true -> nth_error (p_params p) k = Some (d, isarr) ->
    isarr = false /\ In d (mdef mw (p_body p)).
Proof.
  unfold proc_ok. intros H Em. rewrite Em in H.
  rewrite !andb_true_iff in H. destruct H as [_ [_ Hf]].
  intros k d isarr E1 E2.
  pose proof (forallb_combine_nth _ _ _ k true (d, isarr) Hf E1 E2) as Hk. cbn in Hk.
  rewrite andb_true_iff, negb_true_iff, mem_In in Hk. tauto.
Qed.

(** * [back]: accesses of the callee to a dummy seen from the caller *)
Lemma back_inv : forall params args l' l,
  In l (back params args l') ->
  exists k d b x, nth_error params k = Some (d, b) /\ nth_error args k = Some (EVar x) /\
    ((b = false /\ l' = LS d /\ l = LS x) \/ (b = true /\ exists i, l' = LA d i /\ l = LA x i)).
Proof.
  induction params as [|[d b] ps IH]; intros [|a r] l' l H; cbn [back] in H; try contradiction.
  apply in_app_iff in H. destruct H as [H|H].
  - exists 0%nat, d, b. destruct a as [| |x| | | | | | | | | |]; try contradiction.
    exists x. cbn [nth_error]. split; [reflexivity|]. split; [reflexivity|].
    destruct b, l' as [y|y i]; try contradiction.
    + destruct (String.eqb y d) eqn:E; [|contradiction]. apply String.eqb_eq in E. subst.
      destruct H as [<-|[]]. right. split; [reflexivity|]. now exists i.
    + destruct (String.eqb y d) eqn:E; [|contradiction]. apply String.eqb_eq in E. subst.
      destruct H as [<-|[]]. left. auto.
  - apply IH in H. destruct H as [k [d' [b' [x H]]]]. exists (S k), d', b', x. exact H.
Qed.

Lemma back_intro_s : forall params args k d x,
  nth_error params k = Some (d, false) -> nth_error args k = Some (EVar x) ->
  In (LS x) (back params args (LS d)).
Proof.
  induction params as [|[d0 b0] ps IH]; intros [|a r] [|k] d x E1 E2; cbn in E1, E2; try discriminate.
  - inversion E1; inversion E2; subst. cbn [back]. apply in_app_iff. left.
    rewrite String.eqb_refl. now left.
  - cbn [back]. apply in_app_iff. right. eapply IH; eauto.
Qed.

Lemma back_intro_a : forall params args k d x i,
  nth_error params k = Some (d, true) -> nth_error args k = Some (EVar x) ->
  In (LA x i) (back params args (LA d i)).
Proof.
  induction params as [|[d0 b0] ps IH]; intros [|a r] [|k] d x i E1 E2; cbn in E1, E2; try discriminate.
  - inversion E1; inversion E2; subst. cbn [back]. apply in_app_iff. left.
    rewrite String.eqb_refl. now left.
  - cbn [back]. apply in_app_iff. right. eapply IH; eauto.
Qed.

Lemma copy_in_len : forall params args caller c s0,
  copy_in caller params args c = Some s0 -> List.length params = List.length args.
Proof.
  induction params as [|[d b] ps IH]; intros args caller c s0 E.
  - destruct args; [reflexivity|discriminate].
  - destruct b, args as [|a r]; cbn [copy_in] in E; try discriminate; cbn [List.length]; f_equal.
    + destruct a; try discriminate. eapply IH; eauto.
    + destruct (evalZ (env_st caller) a); [|discriminate]. eapply IH; eauto.
Qed.

(** * [defines] is sound up to DO variables, on the class [dsafe] with callees that respect their intents *)
Section Defines.
  Variables (mw : musts) (ps : procs) (sg : sigs).
  Hypothesis Hok : sigs_ok mw ps sg = true.

  Definition Pw (ss : list stmt) (l : loc) : Prop := In (lname l) (Db sg ss) \/ In (lname l) (dovars ss).

  Lemma step_def f :
    (forall ss s s' t, exec_tr ps f ss s = Some (s', t) -> dsafe sg ss = true -> forall l, In l (fst t) -> Pw ss l) ->
    forall st s s' t, step_tr ps (exec_tr ps f) st s = Some (s', t) -> dsafe_stmt sg st = true ->
    forall l, In l (fst t) -> In (lname l) (fst (du_stmt sg st)) \/ In (lname l) (dovars_stmt st).
  Proof.
    intros IH st s s' t E Hs l Hl.
    destruct st as [x e|a idx e|v lo hi stp body|c body|c tb eb|g args|lab]; unfold step_tr in E.
    - inv_obind E. inversion E; subst. apply seqT_w in Hl. destruct Hl as [Hl|Hl]; [now apply rdT_w in Hl|].
      apply wrT_w in Hl. subst. left. now left.
    - inv_obind E. inversion E; subst. apply seqT_w in Hl. destruct Hl as [Hl|Hl]; [now apply rdT_w in Hl|].
      apply wrT_w in Hl. subst. left. now left.
    - inv_obind E. destruct (r1 =? 0); [discriminate|]. inv_obind E. destruct r2 as [s2 t2]. inversion E; subst.
      apply seqT_w in Hl. destruct Hl as [Hl|Hl]; [now apply rdT_w in Hl|]. cbn [snd fst] in Hl.
      cbn [dsafe_stmt] in Hs.
      assert (Pw body l \/ l = LS v) as [HP| ->].
      { eapply (do_loop_tr_w (fun l => Pw body l \/ l = LS v)); [| |exact E3|exact Hl]; [|now right].
        intros s0 s1 t1 R l0 Hl0. left. eapply IH; eauto. }
      + destruct (String.eqb (lname l) v) eqn:Ev.
        * apply String.eqb_eq in Ev. right. cbn [dovars_stmt]. left. congruence.
        * apply String.eqb_neq in Ev. destruct HP as [HP|HP].
          -- left. apply D_do. auto.
          -- right. cbn [dovars_stmt]. right. exact HP.
      + right. cbn [dovars_stmt lname]. now left.
    - inv_obind E. cbn [dsafe_stmt] in Hs. destruct r; [|inversion E; subst; now apply rdT_w in Hl].
      inv_obind E. destruct r as [s1 t1], r0 as [s2 t2]. cbn [fst snd] in *. inversion E; subst.
      apply seqT_w in Hl. destruct Hl as [Hl|Hl]; [now apply rdT_w in Hl|].
      apply seqT_w in Hl. destruct Hl as [Hl|Hl].
      + destruct (IH _ _ _ _ E1 Hs _ Hl) as [HP|HP]; [left; now apply D_while|right; exact HP].
      + assert (dsafe sg [SWhile c body] = true) as Hs' by (cbn; now rewrite Hs).
        destruct (IH _ _ _ _ E2 Hs' _ Hl) as [HP|HP].
        * left. unfold Db in HP. cbn [flat_map] in HP. now rewrite app_nil_r in HP.
        * right. unfold dovars in HP. cbn [flat_map] in HP. now rewrite app_nil_r in HP.
    - inv_obind E. destruct r0 as [s1 t1]. cbn [fst snd] in *. inversion E; subst.
      apply seqT_w in Hl. destruct Hl as [Hl|Hl]; [now apply rdT_w in Hl|].
      cbn [dsafe_stmt] in Hs. apply andb_true_iff in Hs. destruct Hs as [Ht He].
      destruct r.
      + destruct (IH _ _ _ _ E1 Ht _ Hl) as [HP|HP].
        * left. apply D_if. now left.
        * right. cbn [dovars_stmt]. apply in_app_iff. now left.
      + destruct (IH _ _ _ _ E1 He _ Hl) as [HP|HP].
        * left. apply D_if. now right.
        * right. cbn [dovars_stmt]. apply in_app_iff. now right.
    - inv_obind E. destruct r1 as [s1 tc]. cbn [fst snd] in *. inversion E; subst.
      apply seqT_w in Hl. destruct Hl as [Hl|Hl]; [now apply rdT_w in Hl|].
      unfold back_tr in Hl. cbn [fst] in Hl. apply in_flat_map in Hl. destruct Hl as [l' [Hl' Hb]].
      apply back_inv in Hb. destruct Hb as [k [d [b [x [Ep [Ea Hk]]]]]].
      assert (lname l' = d /\ lname l = x) as [Hd Hx].
      { destruct Hk as [[_ [-> ->]]|[_ [i [-> ->]]]]; auto. }
      left. cbn [du_stmt]. cbn [dsafe_stmt] in Hs. pose proof (find_proc_ok _ _ _ _ _ Hok E0) as Hp.
      destruct (find_sig sg g) as [its|] eqn:Es.
      + destruct (proc_ok_sig _ _ _ _ _ _ Hp Es) as [Hlen Hds _ Hno _].
        unfold call_dsafe in Hs. apply andb_true_iff in Hs. destruct Hs as [_ Hs].
        destruct (nth_error_len (p_params r) its k (d, b) (eq_sym Hlen) Ep) as [it Eit].
        destruct (is_out it) eqn:Eo.
        * pose proof (forallb_combine_nth _ _ _ k it (EVar x) Hs Eit Ea) as Hm. cbn in Hm.
          rewrite Eo in Hm. cbn in Hm. apply mem_In in Hm. now rewrite Hx.
        * exfalso. destruct (Hno k it d b Eit Ep Eo) as [N1 N2].
          destruct (IH _ _ _ _ E2 Hds _ Hl') as [HP|HP]; rewrite Hd in HP.
          -- apply N1. now apply In_defines_of.
          -- now apply N2.
      + unfold call_dsafe in Hs. rewrite forallb_forall in Hs.
        specialize (Hs _ (nth_error_In _ _ Ea)). cbn in Hs. apply mem_In in Hs. now rewrite Hx.
    - inversion E; subst. contradiction.
  Qed.

  Lemma defines_sound_aux : forall f ss s s' t,
    exec_tr ps f ss s = Some (s', t) -> dsafe sg ss = true -> forall l, In l (fst t) -> Pw ss l.
  Proof.
    induction f as [|f IH]; intros ss s s' t E Hs l Hl; [discriminate|].
    destruct ss as [|st rest].
    - cbn in E. inversion E; subst. contradiction.
    - apply exec_tr_cons in E. destruct E as [g [s1 [t1 [t2 [Eg [E1 [E2 ->]]]]]]]. inversion Eg; subst g.
      cbn [dsafe forallb] in Hs. apply andb_true_iff in Hs. destruct Hs as [Hs1 Hs2].
      apply seqT_w in Hl. unfold Pw, Db, dovars. cbn [flat_map]. rewrite !in_app_iff.
      destruct Hl as [Hl|Hl].
      + destruct (step_def f IH _ _ _ _ E1 Hs1 _ Hl); tauto.
      + destruct (IH _ _ _ _ E2 Hs2 _ Hl); tauto.
  Qed.

  Theorem defines_sound f ss s s' t :
    exec_tr ps f ss s = Some (s', t) -> dsafe sg ss = true ->
    forall l, In l (fst t) -> In (lname l) (defines_of sg ss) \/ In (lname l) (dovars ss).
  Proof.
    intros E Hs l Hl. destruct (defines_sound_aux _ _ _ _ _ E Hs _ Hl) as [H|H]; [left|right; exact H].
    now apply In_defines_of.
  Qed.
End Defines.
