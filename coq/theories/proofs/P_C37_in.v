(** C37 — proofs, part 2: inside one horizontal iteration.
    [in_sim]: the iteration of the own column is simulated by the column program;
    [in_frame]: an iteration of another column changes only local scalars and cells of its own column. *)
From Coq Require Import ZArith List Bool String Lia.
From LV Require Import Base.Expr Base.MiniF Base.MiniFFacts models.M_C37 proofs.P_C37_base.
Import ListNotations.
Open Scope Z_scope.

(** unfolding equations of the nested check *)
Lemma chk_in_s_do k calls D v lo hi st b :
  chk_in_s k calls D (SDo v lo hi st b) =
  if mem v (k_L k) && ok_e k true D lo && ok_e k true D hi && ok_oe k true D st then
    match chk_in k calls (v :: D) b with Some _ => Some (v :: D) | None => None end
  else None.
Proof. reflexivity. Qed.

Lemma chk_in_s_if k calls D c t e :
  chk_in_s k calls D (SIf c t e) =
  if ok_e k true D c then
    match chk_in k calls D t, chk_in k calls D e with Some Dt, Some De => Some (inter Dt De) | _, _ => None end
  else None.
Proof. reflexivity. Qed.

Lemma mem_inter x a b : mem x (inter a b) = mem x a && mem x b.
Proof.
  unfold inter. induction a as [|y r IH]; [reflexivity|]. cbn [filter].
  destruct (mem y b) eqn:Eb.
  - rewrite !mem_cons, IH. destruct (String.eqb x y) eqn:E; [|reflexivity].
    apply String.eqb_eq in E. subst. cbn. now rewrite Eb.
  - rewrite mem_cons, IH. destruct (String.eqb x y) eqn:E; [|reflexivity].
    apply String.eqb_eq in E. subst. cbn. rewrite Eb. now rewrite andb_false_r.
Qed.

Ltac split3 := split; [|split].

Section InMode.
Variable k : ctx.
Variable ps : procs.
Hypothesis WF : wf_ctx k = true.

Lemma h_not_local : mem (k_h k) (k_L k) = false.
Proof.
  pose proof WF as W. unfold wf_ctx in W. repeat (apply andb_true_iff in W; destruct W as [W ?]). now apply negb_true_iff in W.
Qed.

Lemma local_neq_h v : mem v (k_L k) = true -> v <> k_h k.
Proof. intros Hv E. subst. rewrite h_not_local in Hv. discriminate. Qed.

Lemma lo_hi_facts :
  mem (k_lo k) (k_L k) = false /\ mem (k_hi k) (k_L k) = false /\ k_lo k <> k_h k /\ k_hi k <> k_h k.
Proof.
  pose proof WF as W. unfold wf_ctx in W. repeat (apply andb_true_iff in W; destruct W as [W ?]).
  repeat match goal with H : negb _ = true |- _ => apply negb_true_iff in H end.
  repeat split; try assumption.
  - intros E. rewrite E, String.eqb_refl in *. discriminate.
  - intros E. rewrite E, String.eqb_refl in *. discriminate.
Qed.

(** the set of assigned locals only grows *)
Definition incl_s (s : stmt) : Prop :=
  forall D D', chk_in_s k false D s = Some D' -> forall x, mem x D = true -> mem x D' = true.

Lemma chk_in_incl_list l :
  Forall incl_s l -> forall D D', chk_in k false D l = Some D' -> forall x, mem x D = true -> mem x D' = true.
Proof.
  induction 1 as [|s r Hs _ IH]; intros D D' E x Hx; cbn in E.
  - inversion E. now subst.
  - destruct (chk_in_s k false D s) as [D1|] eqn:E1; [|discriminate].
    eapply IH; [exact E|]. eapply Hs; eassumption.
Qed.

Lemma chk_in_s_incl : forall s, incl_s s.
Proof.
  induction s using stmt_ind'; intros D D' E y Hy.
  - cbn in E. destruct (mem x (k_L k) && ok_e k true D e); inversion E. subst. rewrite mem_cons, Hy. apply orb_true_r.
  - cbn in E. destruct (mem a (k_H k) && head_is (k_h k) i && forallb (ok_e k true D) i && ok_e k true D e); inversion E. now subst.
  - rewrite chk_in_s_do in E.
    destruct (mem v (k_L k) && ok_e k true D lo && ok_e k true D hi && ok_oe k true D st); [|discriminate].
    destruct (chk_in k false (v :: D) b); inversion E. subst. rewrite mem_cons, Hy. apply orb_true_r.
  - cbn in E. discriminate.
  - rewrite chk_in_s_if in E. destruct (ok_e k true D c); [|discriminate].
    destruct (chk_in k false D t) as [Dt|] eqn:Et; [|discriminate].
    destruct (chk_in k false D e) as [De|] eqn:Ee; [|discriminate].
    inversion E. subst. rewrite mem_inter.
    rewrite (chk_in_incl_list t H D Dt Et y Hy), (chk_in_incl_list e H0 D De Ee y Hy). reflexivity.
  - cbn in E. discriminate.
  - cbn in E. inversion E. now subst.
Qed.

Lemma chk_in_incl l D D' : chk_in k false D l = Some D' -> forall x, mem x D = true -> mem x D' = true.
Proof. apply chk_in_incl_list. apply Forall_forall. intros s _. apply chk_in_s_incl. Qed.

(** * simulation of the own iteration *)
Section Own.
Variable i : Z.

Definition in_sim_s (s : stmt) : Prop :=
  forall D D' g c g', chk_in_s k false D s = Some D' -> agr k D i g c -> sv g (k_h k) = i -> runs1 ps s g g' ->
  exists c', runs ps (proj_s (k_h k) s) c c' /\ agr k D' i g' c' /\ sv g' (k_h k) = i.

Definition in_sim_l (l : list stmt) : Prop :=
  forall D D' g c g', chk_in k false D l = Some D' -> agr k D i g c -> sv g (k_h k) = i -> runs ps l g g' ->
  exists c', runs ps (project (k_h k) l) c c' /\ agr k D' i g' c' /\ sv g' (k_h k) = i.

Lemma in_sim_list l : Forall in_sim_s l -> in_sim_l l.
Proof.
  induction 1 as [|s r Hs _ IH]; intros D D' g c g' E Hag Hh Hr.
  - cbn in E. inversion E. subst. apply runs_nil_inv in Hr. subst. exists c. split3; auto. apply runs_nil.
  - cbn in E. destruct (chk_in_s k false D s) as [D1|] eqn:E1; [|discriminate].
    apply runs_cons_inv in Hr. destruct Hr as [g1 [R1 R2]].
    destruct (Hs D D1 g c g1 E1 Hag Hh R1) as [c1 [C1 [A1 H1]]].
    destruct (IH D1 D' g1 c1 g' E A1 H1 R2) as [c' [C2 [A2 H2]]].
    exists c'. split3; auto. unfold project. cbn [flat_map]. eapply runs_app; eassumption.
Qed.

Lemma in_sim_loop D v d body :
  v <> k_h k ->
  (forall Db, chk_in k false (v :: D) body = Some Db -> True) ->
  forall Db, chk_in k false (v :: D) body = Some Db -> in_sim_l body ->
  forall n a0 g c g', agr k D i g c -> sv g (k_h k) = i -> loop_runs ps body v d n a0 g g' ->
  exists c', loop_runs ps (project (k_h k) body) v d n a0 c c' /\ agr k (v :: D) i g' c' /\ sv g' (k_h k) = i.
Proof.
  intros Hv _ Db Eb IHb. induction n as [|n IHn]; intros a0 g c g' Hag Hh Hl; inversion Hl; subst.
  - exists (set_sv v a0 c). split3.
    + constructor.
    + now apply agr_set_both.
    + cbn. destruct (String.eqb (k_h k) v) eqn:E; [apply String.eqb_eq in E; congruence|exact Hh].
  - match goal with H1 : runs _ _ _ _, H2 : loop_runs _ _ _ _ _ _ _ _ |- _ => rename H1 into R1; rename H2 into R2 end.
    assert (Hh1 : sv (set_sv v a0 g) (k_h k) = sv g (k_h k)).
    { cbn. destruct (String.eqb (k_h k) v) eqn:E; [apply String.eqb_eq in E; congruence|reflexivity]. }
    destruct (IHb (v :: D) Db (set_sv v a0 g) (set_sv v a0 c) s1 Eb (agr_set_both k D i g c v a0 Hv Hag)
                  (eq_trans Hh1 Hh) R1) as [c1 [C1 [A1 H1]]].
    assert (A1' : agr k D i s1 c1).
    { eapply agr_weaken; [|exact A1]. intros x Hx. eapply chk_in_incl; [exact Eb|]. rewrite mem_cons, Hx. apply orb_true_r. }
    destruct (IHn (a0 + d) s1 c1 g' A1' H1 R2) as [c' [C2 [A2 H2]]].
    exists c'. split3; auto. econstructor; eassumption.
Qed.

Lemma in_sim_all : forall s, in_sim_s s.
Proof.
  induction s using stmt_ind'; intros D D' g q g' E Hag Hh Hr.
  - (* assignment to a local *)
    cbn in E. destruct (mem x (k_L k)) eqn:Hx; [|discriminate]. cbn in E.
    destruct (ok_e k true D e) eqn:He; inversion E. subst D'.
    apply runs1_assign_inv in Hr. destruct Hr as [v [Ev ->]].
    assert (Hxh : x <> k_h k) by now apply local_neq_h.
    exists (set_sv x v q). split3.
    + cbn [proj_s]. apply runs_single. apply runs1_assign.
      rewrite <- (ok_e_evalZ k D i g q true e Hag (fun _ => Hh) He). exact Ev.
    + now apply agr_set_both.
    + cbn. destruct (String.eqb (k_h k) x) eqn:Eq; [apply String.eqb_eq in Eq; congruence|exact Hh].
  - (* store into a horizontal array *)
    cbn in E. destruct (mem a (k_H k)) eqn:Ha; [|discriminate]. cbn in E.
    destruct (head_is (k_h k) i0) eqn:Hhd; [|discriminate]. cbn in E.
    destruct (forallb (ok_e k true D) i0) eqn:Hi; [|discriminate]. cbn in E.
    destruct (ok_e k true D e) eqn:He; inversion E. subst D'.
    destruct Hr as [f Ef]. cbn in Ef.
    apply obind_some in Ef. destruct Ef as [iv [Eiv Ef]].
    apply obind_some in Ef. destruct Ef as [v [Ev Ef]]. inversion Ef. subst g'.
    assert (Hiv : exists r, iv = i :: r).
    { apply head_is_inv in Hhd. destruct Hhd as [rest ->]. rewrite eval_idx_args in Eiv.
      apply eval_args_head in Eiv. destruct Eiv as [r ->]. exists r. cbn. now rewrite Hh. }
    destruct Hiv as [r ->].
    exists (set_av a (i :: r) v q). split3.
    + cbn [proj_s]. apply runs_single. exists 0%nat. cbn.
      rewrite <- (ok_idx_eval k D i g q true i0 Hag (fun _ => Hh) Hi), Eiv. cbn.
      rewrite <- (ok_e_evalZ k D i g q true e Hag (fun _ => Hh) He), Ev. reflexivity.
    + now apply agr_store.
    + exact Hh.
  - (* vertical loop with a local DO variable *)
    rewrite chk_in_s_do in E.
    destruct (mem v (k_L k)) eqn:Hv; [|discriminate]. cbn in E.
    destruct (ok_e k true D lo) eqn:Hlo; [|discriminate]. cbn in E.
    destruct (ok_e k true D hi) eqn:Hhi; [|discriminate]. cbn in E.
    destruct (ok_oe k true D st) eqn:Hst; [|discriminate]. cbn in E.
    destruct (chk_in k false (v :: D) b) as [Db|] eqn:Eb; inversion E. subst D'.
    assert (Hvh : v <> k_h k) by now apply local_neq_h.
    apply runs1_do in Hr. destruct Hr as [a0 [b0 [d [Ea [Eb0 [Ed [Hd Hl]]]]]]].
    destruct (in_sim_loop D v d b Hvh (fun _ _ => I) Db Eb (in_sim_list b H) _ a0 g q g' Hag Hh Hl) as [q' [C1 [A1 H1]]].
    exists q'. split3; auto.
    cbn [proj_s]. destruct (String.eqb v (k_h k)) eqn:Eq; [apply String.eqb_eq in Eq; congruence|].
    apply runs_single. apply runs1_do. exists a0, b0, d. repeat split; auto.
    + rewrite <- (ok_e_evalZ k D i g q true lo Hag (fun _ => Hh) Hlo). exact Ea.
    + rewrite <- (ok_e_evalZ k D i g q true hi Hag (fun _ => Hh) Hhi). exact Eb0.
    + rewrite <- (ok_oe_eval k D i g q true st Hag (fun _ => Hh) Hst). exact Ed.
  - cbn in E. discriminate.
  - (* conditional *)
    rewrite chk_in_s_if in E. destruct (ok_e k true D c) eqn:Hc; [|discriminate].
    destruct (chk_in k false D t) as [Dt|] eqn:Et; [|discriminate].
    destruct (chk_in k false D e) as [De|] eqn:Ee; inversion E. subst D'.
    destruct Hr as [f Ef]. cbn in Ef. apply obind_some in Ef. destruct Ef as [bv [Ebv Ef]].
    assert (Ebc : evalB (env_st q) c = Some bv).
    { rewrite <- (ok_e_evalB k D i g q true c Hag (fun _ => Hh) Hc). exact Ebv. }
    destruct bv.
    + destruct (in_sim_list t H D Dt g q g' Et Hag Hh (ex_intro _ f Ef)) as [q' [C1 [A1 H1]]].
      exists q'. split3; auto.
      * cbn [proj_s]. apply runs_single. apply (runs1_if ps _ _ _ _ _ true Ebc). exact C1.
      * eapply agr_weaken; [|exact A1]. intros x Hx. rewrite mem_inter in Hx. now apply andb_true_iff in Hx.
    + destruct (in_sim_list e H0 D De g q g' Ee Hag Hh (ex_intro _ f Ef)) as [q' [C1 [A1 H1]]].
      exists q'. split3; auto.
      * cbn [proj_s]. apply runs_single. apply (runs1_if ps _ _ _ _ _ false Ebc). exact C1.
      * eapply agr_weaken; [|exact A1]. intros x Hx. rewrite mem_inter in Hx. now apply andb_true_iff in Hx.
  - cbn in E. discriminate.
  - cbn in E. inversion E. subst D'. destruct Hr as [f Ef]. cbn in Ef. inversion Ef. subst g'.
    exists q. split3; auto. cbn [proj_s]. apply runs_nil.
Qed.

Theorem in_sim l : in_sim_l l.
Proof. apply in_sim_list. apply Forall_forall. intros s _. apply in_sim_all. Qed.

End Own.

(** * frame of an iteration of column [j] *)
Definition frame_in (j : Z) (g g' : store) : Prop :=
  (forall x, mem x (k_L k) = false -> sv g' x = sv g x) /\
  (forall a idx, mem a (k_H k) = false \/ hd_error idx <> Some j -> av g' a idx = av g a idx).

Lemma frame_in_refl j g : frame_in j g g.
Proof. split; auto. Qed.

Lemma frame_in_trans j g1 g2 g3 : frame_in j g1 g2 -> frame_in j g2 g3 -> frame_in j g1 g3.
Proof.
  intros [A1 B1] [A2 B2]. split.
  - intros x Hx. now rewrite A2, A1.
  - intros a idx H. now rewrite B2, B1.
Qed.

Lemma frame_in_h j g g' : frame_in j g g' -> sv g' (k_h k) = sv g (k_h k).
Proof. intros [A _]. apply A. apply h_not_local. Qed.

Definition in_frame_s (s : stmt) : Prop :=
  forall D D' g g' j, chk_in_s k false D s = Some D' -> sv g (k_h k) = j -> runs1 ps s g g' -> frame_in j g g'.

Definition in_frame_l (l : list stmt) : Prop :=
  forall D D' g g' j, chk_in k false D l = Some D' -> sv g (k_h k) = j -> runs ps l g g' -> frame_in j g g'.

Lemma in_frame_list l : Forall in_frame_s l -> in_frame_l l.
Proof.
  induction 1 as [|s r Hs _ IH]; intros D D' g g' j E Hh Hr.
  - apply runs_nil_inv in Hr. subst. apply frame_in_refl.
  - cbn in E. destruct (chk_in_s k false D s) as [D1|] eqn:E1; [|discriminate].
    apply runs_cons_inv in Hr. destruct Hr as [g1 [R1 R2]].
    pose proof (Hs D D1 g g1 j E1 Hh R1) as F1.
    eapply frame_in_trans; [exact F1|]. eapply IH; [exact E| |exact R2].
    rewrite (frame_in_h j g g1 F1). exact Hh.
Qed.

Lemma frame_set_local j g x v : mem x (k_L k) = true -> frame_in j g (set_sv x v g).
Proof.
  intros Hx. split; [|reflexivity].
  intros y Hy. cbn. destruct (String.eqb y x) eqn:E; [|reflexivity].
  apply String.eqb_eq in E. subst. congruence.
Qed.

Lemma in_frame_loop v d body j :
  mem v (k_L k) = true -> (forall g g', sv g (k_h k) = j -> runs ps body g g' -> frame_in j g g') ->
  forall n a0 g g', sv g (k_h k) = j -> loop_runs ps body v d n a0 g g' -> frame_in j g g'.
Proof.
  intros Hv Hb. induction n as [|n IHn]; intros a0 g g' Hh Hl; inversion Hl; subst.
  - now apply frame_set_local.
  - match goal with H1 : runs _ _ _ _, H2 : loop_runs _ _ _ _ _ _ _ _ |- _ => rename H1 into R1; rename H2 into R2 end.
    pose proof (frame_set_local (sv g (k_h k)) g v a0 Hv) as F0.
    assert (Hh0 : sv (set_sv v a0 g) (k_h k) = sv g (k_h k)) by (apply (frame_in_h _ _ _ F0)).
    pose proof (Hb _ _ Hh0 R1) as F1.
    eapply frame_in_trans; [exact F0|]. eapply frame_in_trans; [exact F1|].
    apply (IHn (a0 + d) s1 g'); [|exact R2]. rewrite (frame_in_h _ _ _ F1). exact Hh0.
Qed.

Lemma in_frame_all : forall s, in_frame_s s.
Proof.
  induction s using stmt_ind'; intros D D' g g' j E Hh Hr.
  - cbn in E. destruct (mem x (k_L k)) eqn:Hx; [|discriminate].
    apply runs1_assign_inv in Hr. destruct Hr as [v [_ ->]]. now apply frame_set_local.
  - cbn in E. destruct (mem a (k_H k)) eqn:Ha; [|discriminate]. cbn in E.
    destruct (head_is (k_h k) i) eqn:Hhd; [|discriminate].
    destruct Hr as [f Ef]. cbn in Ef.
    apply obind_some in Ef. destruct Ef as [iv [Eiv Ef]].
    apply obind_some in Ef. destruct Ef as [v [Ev Ef]]. inversion Ef. subst g'.
    apply head_is_inv in Hhd. destruct Hhd as [rest ->]. rewrite eval_idx_args in Eiv.
    apply eval_args_head in Eiv. destruct Eiv as [r ->]. cbn [ev_var env_st] in *.
    split; [reflexivity|]. intros b idx Hc. cbn.
    destruct (String.eqb b a) eqn:Eq; [|reflexivity]. apply String.eqb_eq in Eq. subst b.
    destruct Hc as [Hc|Hc]; [congruence|].
    destruct (list_z_eqb idx (sv g (k_h k) :: r)) eqn:El; [|reflexivity].
    apply list_z_eqb_eq in El. subst idx. cbn in Hc. congruence.
  - rewrite chk_in_s_do in E.
    destruct (mem v (k_L k)) eqn:Hv; [|discriminate]. cbn in E.
    destruct (ok_e k true D lo && ok_e k true D hi && ok_oe k true D st); [|discriminate].
    destruct (chk_in k false (v :: D) b) as [Db|] eqn:Eb; [|discriminate].
    apply runs1_do in Hr. destruct Hr as [a0 [b0 [d [_ [_ [_ [_ Hl]]]]]]].
    eapply (in_frame_loop v d b j Hv); [|exact Hh|exact Hl].
    intros g0 g1 Hh0 R. exact (in_frame_list b H (v :: D) Db g0 g1 j Eb Hh0 R).
  - cbn in E. discriminate.
  - rewrite chk_in_s_if in E. destruct (ok_e k true D c); [|discriminate].
    destruct (chk_in k false D t) as [Dt|] eqn:Et; [|discriminate].
    destruct (chk_in k false D e) as [De|] eqn:Ee; [|discriminate].
    destruct Hr as [f Ef]. cbn in Ef. apply obind_some in Ef. destruct Ef as [bv [_ Ef]].
    destruct bv.
    + exact (in_frame_list t H D Dt g g' j Et Hh (ex_intro _ f Ef)).
    + exact (in_frame_list e H0 D De g g' j Ee Hh (ex_intro _ f Ef)).
  - cbn in E. discriminate.
  - destruct Hr as [f Ef]. cbn in Ef. inversion Ef. apply frame_in_refl.
Qed.

Theorem in_frame l : in_frame_l l.
Proof. apply in_frame_list. apply Forall_forall. intros s _. apply in_frame_all. Qed.

(** an iteration of another column leaves the relation of column [i] intact (the column store does not move) *)
Lemma agr_other_column D i j g g' c :
  j <> i -> agr k D i g c -> frame_in j g g' -> agr k [] i g' c.
Proof.
  intros Hji [A B C E] [F1 F2]. split.
  - intros x Hx [Hl|Hd]; [|cbn in Hd; discriminate]. rewrite (F1 x Hl). apply A; auto.
  - exact B.
  - intros a r Ha. rewrite F2; [now apply C|]. right. cbn. congruence.
  - intros a idx Ha. rewrite F2; [now apply E|]. now left.
Qed.

End InMode.
