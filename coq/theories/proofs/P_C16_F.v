(** C16 — properly nested contexts: all combinations of the three attach/detach pairs. *)
From Coq Require Import ZArith List Bool String Ascii Arith Lia.
From LV Require Import Base.Strings models.M_C16 proofs.P_C16 proofs.P_C16_R proofs.P_C16_D.
Import ListNotations.
Open Scope list_scope.

(** ** the detach operations commute with the "missing attribute reads as None" view *)
Lemma map_map_up_slot (g : tree -> tree) (h : list tree -> list tree) ss :
  (forall l, map up (h l) = h (map up l)) ->
  Forall (Forall (fun t => g (up t) = up (g t))) ss ->
  map (fun s => h (map g s)) (map (map up) ss) = map (map up) (map (fun s => h (map g s)) ss).
Proof.
  intros Hh IH. rewrite !map_map. apply map_ext_Forall.
  eapply Forall_impl; [|exact IH]. cbn. intros s Hs.
  rewrite Hh. f_equal. rewrite !map_map. now apply map_ext_Forall.
Qed.

Lemma det1_up nt df x : map up (det1 nt df x) = det1 nt df (up x).
Proof.
  destruct x as [p|i k a b d ss ms|s e d b]; cbn [det1 up]; try reflexivity.
  destruct (nt k); [|reflexivity].
  assert (HTP : forall l, map up (map TP l) = map TP l) by (induction l; cbn; congruence).
  destruct a as [| |[|pa la]]; destruct df; destruct b as [| |[|pb lb]];
    cbn [fst snd app up_attr]; rewrite ?map_app; cbn [map up up_attr]; rewrite ?HTP; reflexivity.
Qed.

Lemma det_pass_up nt df l : map up (det_pass nt df l) = det_pass nt df (map up l).
Proof.
  unfold det_pass. induction l as [|x r IH]; [reflexivity|].
  cbn [flat_map map]. now rewrite map_app, det1_up, IH.
Qed.

Lemma detP_up nt df t : detP nt df (up t) = up (detP nt df t).
Proof.
  induction t as [p|i k a b d ss ms IHs IHm|s e d b IHb] using tree_ind'.
  - reflexivity.
  - cbn. f_equal.
    + apply (map_map_up_slot (detP nt df) (det_pass nt df)); [apply det_pass_up|assumption].
    + apply (map_map_up_slot (detP nt df) (det_pass nt df)); [apply det_pass_up|assumption].
  - cbn. f_equal. rewrite det_pass_up. f_equal. rewrite !map_map. now apply map_ext_Forall.
Qed.

Lemma strip_map_up (l : list (list tree)) : strip (map (map up) l) = map (map up) (strip l).
Proof.
  unfold strip. induction l as [|x r IH]; [reflexivity|].
  destruct x; cbn; [exact IH|]. now rewrite IH.
Qed.

Lemma detR1_up t : detR1 (up t) = map up (detR1 t).
Proof.
  induction t as [p|i k a b d ss ms IHs IHm|s e d b IHb] using tree_ind'.
  - reflexivity.
  - assert (Hs : forall l, Forall (Forall (fun t => detR1 (up t) = map up (detR1 t))) l ->
                           map (flat_map detR1) (map (map up) l) = map (map up) (map (flat_map detR1) l)).
    { intros l IH. rewrite !map_map. apply map_ext_Forall.
      eapply Forall_impl; [|exact IH]. cbn. intros s0 H0.
      rewrite flat_map_map, map_flat_map. now apply flat_map_ext_Forall. }
    cbn. f_equal. f_equal; [now apply Hs|].
    rewrite (Hs ms) by assumption. apply strip_map_up.
  - cbn. f_equal. rewrite map_app. cbn. f_equal.
    rewrite flat_map_map, map_flat_map. now apply flat_map_ext_Forall.
Qed.

Lemma detR_up t : detR (up t) = up (detR t).
Proof.
  unfold detR. rewrite detR1_up. destruct (detR1 t); reflexivity.
Qed.

Lemma dfaD_up t : dfaD (up t) = up (dfaD t).
Proof.
  induction t as [p|i k a b d ss ms IHs IHm|s e d b IHb] using tree_ind'.
  - reflexivity.
  - assert (Hs : forall l, Forall (Forall (fun t => dfaD (up t) = up (dfaD t))) l ->
                           map (map dfaD) (map (map up) l) = map (map up) (map (map dfaD) l)).
    { intros l IH. rewrite !map_map. apply map_ext_Forall.
      eapply Forall_impl; [|exact IH]. cbn. intros s0 H0.
      rewrite !map_map. now apply map_ext_Forall. }
    cbn. f_equal; [now apply Hs|].
    rewrite (Hs ms) by assumption. apply strip_map_up.
  - cbn. f_equal. rewrite !map_map. now apply map_ext_Forall.
Qed.

Lemma respects_up (g : tree -> tree) :
  (forall t, g (up t) = up (g t)) ->
  forall u v, map up u = map up v -> map up (map g u) = map up (map g v).
Proof.
  intros Hg u v H.
  assert (E : forall w, map up (map g w) = map g (map up w)).
  { intros w. rewrite !map_map. apply map_ext. intros x. now rewrite Hg. }
  now rewrite !E, H.
Qed.

(** ** operation sequences *)
Lemma run_ops_app a : forall b u,
    run_ops (a ++ b) u = match run_ops a u with Ok v => run_ops b v | Err v => Err v end.
Proof.
  induction a as [|o r IH]; intros b u; [reflexivity|].
  cbn. destruct (run_op o u); [apply IH|reflexivity].
Qed.

Lemma leave_ops_cons c r : leave_ops (c :: r) = leave_ops r ++ [leave_op c].
Proof. reflexivity. Qed.

Lemma map_up_roundtrip (f : tree -> tree) (c : tree -> bool) u :
  (forall t, c t = true -> up (f t) = up t) -> forallb c u = true -> map up (map f u) = map up u.
Proof.
  intros H Hc. rewrite map_map. apply map_ext_Forall. apply forallb_Forall in Hc.
  eapply Forall_impl; [|exact Hc]. cbn. auto.
Qed.

Theorem nested_contexts_roundtrip fl : forall u,
    flow_in_class fl u = true ->
    exists u', run_ops (enter_ops fl ++ leave_ops fl) u = Ok u' /\ map up u' = map up u.
Proof.
  induction fl as [|c r IH]; intros u H.
  - exists u. split; reflexivity.
  - rewrite leave_ops_cons. unfold enter_ops. cbn [map]. fold (enter_ops r).
    cbn [app run_ops]. rewrite app_assoc.
    destruct c as [nt pf|kw|]; cbn [flow_in_class] in H; apply andb_true_iff in H as [Hc Hr].
    + cbn [enter_op run_op].
      destruct (IH _ Hr) as (u1' & E1 & E2).
      rewrite run_ops_app, E1. cbn.
      eexists. split; [reflexivity|].
      rewrite (respects_up (detP (nt_of nt) pf) (detP_up _ _) _ _ E2).
      rewrite !map_map. apply map_ext_Forall. apply forallb_Forall in Hc.
      eapply Forall_impl; [|exact Hc]. cbn. intros x. apply detach_attach_up.
    + cbn [enter_op run_op].
      destruct (attR_unit kw u) as [u1|u1] eqn:Ea; [|discriminate].
      destruct (IH _ Hr) as (u1' & E1 & E2).
      rewrite run_ops_app, E1. cbn.
      eexists. split; [reflexivity|].
      rewrite (respects_up detR detR_up _ _ E2).
      now rewrite (regions_unit_roundtrip kw u u1 Ea Hc).
    + cbn [enter_op run_op].
      destruct (IH _ Hr) as (u1' & E1 & E2).
      rewrite run_ops_app, E1. cbn.
      eexists. split; [reflexivity|].
      rewrite (respects_up dfaD dfaD_up _ _ E2).
      f_equal. eapply map_roundtrip; [|exact Hc]. apply dfa_detach_attach.
Qed.

Example nested_nontrivial :
  let t := sec 1 [TP (pl_ 2 "acc" "data"); TP (pl_ 3 "loki" "foo"); TN 4 KLoop ANone ANone false [[asg 5]] [];
                  TP (pl_ 6 "loki" "bar"); TN 7 KCall ANone NoAttr false [] []; TP (pl_ 8 "acc" "end data");
                  TP (pl_ 9 "omp" "simd")] in
  flow_in_class [CR None; CP [KLoop; KCall] true; CD] [t] = true /\
  option_map (fun u => list_eqb tree_eqb u [t])
             (match run_ops (enter_ops [CR None; CP [KLoop; KCall] true; CD]) [t] with Ok u => Some u | Err _ => None end)
  = Some false.
Proof. vm_compute. split; reflexivity. Qed.
