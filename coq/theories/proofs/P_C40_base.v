(** C40 — proofs, part 1: generic facts (the normal-form route to idempotence, lists, decidable equality of
    expressions, case folding of names). *)
From Coq Require Import ZArith List Bool String Ascii Lia.
From LV Require Import Base.Strings Base.Expr Base.MiniF models.M_C40.
Import ListNotations.
Open Scope Z_scope.

(** the normal-form route: [T] lands in a set on which it is the identity *)
Lemma idem_by_nf {A} (T : A -> A) (nf : A -> Prop) :
  (forall p, nf (T p)) -> (forall q, nf q -> T q = q) -> forall p, T (T p) = T p.
Proof. intros H1 H2 p. apply H2, H1. Qed.

(** the same for partial transformations *)
Lemma idem_by_nf_opt {A} (T : A -> option A) (nf : A -> Prop) :
  (forall p q, T p = Some q -> nf q) -> (forall q, nf q -> T q = Some q) ->
  forall p q, T p = Some q -> T q = Some q.
Proof. intros H1 H2 p q E. apply H2. eapply H1; eassumption. Qed.

Lemma map_id_F {A} (f : A -> A) l : Forall (fun x => f x = x) l -> map f l = l.
Proof. induction 1 as [|x l H _ IH]; cbn; [reflexivity|]. now rewrite H, IH. Qed.

Lemma map_ext_F {A B} (f g : A -> B) l : Forall (fun x => f x = g x) l -> map f l = map g l.
Proof. induction 1 as [|x l H _ IH]; cbn; [reflexivity|]. now rewrite H, IH. Qed.

Lemma forallb_F {A} (f : A -> bool) l : forallb f l = true <-> Forall (fun x => f x = true) l.
Proof.
  induction l as [|x l IH]; cbn; [split; [constructor|reflexivity]|].
  rewrite andb_true_iff, IH. split; [intros [H1 H2]; now constructor|intros H; inversion H; now split].
Qed.

Lemma Forall_impl2 {A} (P Q R : A -> Prop) l :
  Forall (fun x => P x -> Q x -> R x) l -> Forall P l -> Forall Q l -> Forall R l.
Proof. induction 1 as [|x l H _ IH]; intros HP HQ; [constructor|]. inversion HP; inversion HQ; subst. constructor; auto. Qed.

Lemma Forall_mp {A} (P Q : A -> Prop) l : Forall (fun x => P x -> Q x) l -> Forall P l -> Forall Q l.
Proof. induction 1 as [|x l H _ IH]; intros HP; [constructor|]. inversion HP; subst. constructor; auto. Qed.

Lemma flat_map_idem {A} (f : A -> list A) :
  (forall d, flat_map f (f d) = f d) -> forall l, flat_map f (flat_map f l) = flat_map f l.
Proof. intros H l. induction l as [|x l IH]; cbn; [reflexivity|]. now rewrite flat_map_app, H, IH. Qed.

Lemma flat_map_single {A} (f : A -> list A) l : Forall (fun x => f x = [x]) l -> flat_map f l = l.
Proof. induction 1 as [|x l H _ IH]; cbn; [reflexivity|]. now rewrite H, IH. Qed.

(** * structural equality of expressions decides equality (as in C32; restated here so that this development
      depends on the shared layer only) *)
Lemma list_expr_eqb_true cs :
  Forall (fun x => forall y, expr_eqb x y = true -> x = y) cs ->
  forall ds, list_expr_eqb cs ds = true -> cs = ds.
Proof.
  induction 1 as [|x r Hx Hr IH]; intros [|y q]; cbn; try discriminate; [reflexivity|].
  intros H. apply andb_true_iff in H. destruct H as [A B]. f_equal; [now apply Hx|now apply IH].
Qed.

Lemma bool_eqb_true a b : Bool.eqb a b = true -> a = b.
Proof. destruct a, b; cbn; congruence. Qed.

Lemma expr_eqb_true : forall a b, expr_eqb a b = true -> a = b.
Proof.
  induction a using expr_ind'; intros y; destruct y; try (cbn; discriminate).
  - cbn. intros E. apply Z.eqb_eq in E. now subst.
  - cbn. intros E. apply Z.eqb_eq in E. now subst.
  - cbn. intros E. apply String.eqb_eq in E. now subst.
  - cbn. intros E. apply bool_eqb_true in E. now subst.
  - intros E. change (Bool.eqb p paren && list_expr_eqb cs cs0 = true) in E.
    apply andb_true_iff in E. destruct E as [A B]. apply bool_eqb_true in A.
    apply (list_expr_eqb_true cs H) in B. now subst.
  - intros E. change (Bool.eqb p paren && list_expr_eqb cs cs0 = true) in E.
    apply andb_true_iff in E. destruct E as [A B]. apply bool_eqb_true in A.
    apply (list_expr_eqb_true cs H) in B. now subst.
  - cbn. intros E. apply andb_true_iff in E. destruct E as [E C]. apply andb_true_iff in E. destruct E as [A B].
    apply bool_eqb_true in A. apply IHa1 in B. apply IHa2 in C. now subst.
  - cbn. intros E. apply andb_true_iff in E. destruct E as [E C]. apply andb_true_iff in E. destruct E as [A B].
    apply bool_eqb_true in A. apply IHa1 in B. apply IHa2 in C. now subst.
  - cbn. intros E. apply andb_true_iff in E. destruct E as [E C]. apply andb_true_iff in E. destruct E as [A B].
    apply IHa1 in B. apply IHa2 in C. subst. destruct op, op0; try discriminate; reflexivity.
  - intros E. change (list_expr_eqb cs cs0 = true) in E. apply (list_expr_eqb_true cs H) in E. now subst.
  - intros E. change (list_expr_eqb cs cs0 = true) in E. apply (list_expr_eqb_true cs H) in E. now subst.
  - cbn. intros E. apply IHa in E. now subst.
  - intros E. change (String.eqb f f0 && list_expr_eqb args args0 = true) in E.
    apply andb_true_iff in E. destruct E as [A B]. apply String.eqb_eq in A.
    apply (list_expr_eqb_true args H) in B. now subst.
Qed.

(** * names *)
Lemma has_upper_lower x : has_upper (lower x) = false.
Proof. unfold has_upper. now rewrite lower_idem, String.eqb_refl. Qed.

Lemma has_upper_false x : has_upper x = false -> lower x = x.
Proof. unfold has_upper. intros H. apply negb_false_iff in H. now apply String.eqb_eq in H. Qed.

Lemma is_intr_ci_lower f : is_intr_ci (lower f) = is_intr_ci f.
Proof. unfold is_intr_ci. now rewrite lower_idem. Qed.

(** convert_to_lower_case at the level of a single name: Python's [x if x.islower() else x.lower()] *)
Theorem lower_name_idem s : lower (lower s) = lower s.
Proof. apply lower_idem. Qed.
