(** C26 — proofs, part 6: the IF/ELSE-IF encoding of SELECT CASE has the sets of visit_MultiConditional
    and the tags do not change the value of the conditions. *)
From Coq Require Import ZArith List Bool String Lia.
From LV Require Import Base.Expr Base.MiniF models.M_C26 proofs.P_C26 proofs.P_C26_def.
Import ListNotations.
Open Scope Z_scope.

Lemma evalB_sel_head rho c : evalB rho (sel_head c) = evalB rho c.
Proof. unfold sel_head. cbn [evalB fold_right obind]. destruct (evalB rho c) as [[|]|]; reflexivity. Qed.

Lemma evalB_sel_cont rho c : evalB rho (sel_cont c) = evalB rho c.
Proof. unfold sel_cont. cbn [evalB fold_right obind]. destruct (evalB rho c) as [[|]|]; reflexivity. Qed.

Lemma evars_sel_head c x : In x (evars (sel_head c)) <-> In x (evars c).
Proof. unfold sel_head. cbn [evars flat_map]. rewrite !in_app_iff. cbn. tauto. Qed.

Lemma evars_sel_cont c x : In x (evars (sel_cont c)) <-> In x (evars c).
Proof. unfold sel_cont. cbn [evars flat_map]. rewrite !in_app_iff. cbn. tauto. Qed.

Lemma evars_case_cond sel vals x :
  vals <> [] -> (In x (evars (case_cond sel vals)) <-> In x (evars sel) \/ In x (flat_map evars vals)).
Proof.
  intros Hne. unfold case_cond. cbn [evars]. rewrite flat_map_concat_map, map_map, <- flat_map_concat_map.
  rewrite !in_flat_map. split.
  - intros [v [Hv Hx]]. cbn [evars] in Hx. apply in_app_iff in Hx. destruct Hx as [Hx|Hx]; [now left|right; eauto].
  - intros [Hx|[v [Hv Hx]]].
    + destruct vals as [|v r]; [congruence|]. exists v. split; [now left|]. cbn [evars]. apply in_app_iff. now left.
    + exists v. split; [exact Hv|]. cbn [evars]. apply in_app_iff. now right.
Qed.

Lemma ex_in_cons {A} (P : A -> Prop) a l : (exists x, In x (a :: l) /\ P x) <-> P a \/ exists x, In x l /\ P x.
Proof.
  split.
  - intros [x [[<-|H] Hp]]; [now left|right; eauto].
  - intros [H|[x [H Hp]]]; [exists a; split; [now left|exact H]|exists x; split; [now right|exact Hp]].
Qed.

Lemma ex_in_nil {A} (P : A -> Prop) : (exists x, In x (@nil A) /\ P x) <-> False.
Proof. split; [intros [x [[] _]]|tauto]. Qed.

Section Sel.
  Variable sg : sigs.

  (** the sets visit_MultiConditional computes, as sets *)
  Lemma select_du_spec : forall (cases : list (list expr * list stmt)) dflt D U x,
    let r := fold_left (fun (acc : names * names) (cb : list expr * list stmt) => let du := du_body sg (snd cb) [] (snd acc) in (fst acc ++ fst du, snd du)) cases (D, U) in
    let du := du_body sg dflt [] (snd r) in
    (In x (fst r ++ fst du) <-> In x D \/ (exists cb, In cb cases /\ In x (Db sg (snd cb))) \/ In x (Db sg dflt)) /\
    (In x (snd du) <-> In x U \/ (exists cb, In cb cases /\ In x (Ub sg (snd cb))) \/ In x (Ub sg dflt)).
  Proof.
    induction cases as [|[vals b] r IH]; intros dflt D U x.
    - cbn [fold_left fst snd]. rewrite in_app_iff, !ex_in_nil.
      destruct (du_body_spec sg dflt [] U x) as [A B]. rewrite A, B. cbn. tauto.
    - cbn [fold_left]. cbn zeta. cbn [fst snd].
      destruct (IH dflt (D ++ fst (du_body sg b [] U)) (snd (du_body sg b [] U)) x) as [A B]. cbn zeta in A, B.
      rewrite A, B. rewrite in_app_iff, !ex_in_cons. cbn [snd].
      destruct (du_body_spec sg b [] U x) as [A1 B1]. rewrite A1, B1. cbn [In]. tauto.
  Qed.

  Lemma Db_single st x : In x (Db sg [st]) <-> In x (fst (du_stmt sg st)).
  Proof. unfold Db. cbn [flat_map]. rewrite app_nil_r. tauto. Qed.

  Lemma Ub_single st x : In x (Ub sg [st]) <-> In x (snd (du_stmt sg st)).
  Proof. cbn [Ub]. rewrite in_app_iff, In_diff. cbn. tauto. Qed.

  (** the sets of the encoding *)
  Lemma chain_sets (sel : expr) : forall cases dflt tag x,
    (forall c y, In y (evars (tag c)) <-> In y (evars c)) ->
    (forall cb, In cb cases -> fst cb <> []) ->
    (In x (Db sg (sel_chain_from tag sel cases dflt)) <->
       (exists cb, In cb cases /\ In x (Db sg (snd cb))) \/ In x (Db sg dflt)) /\
    (In x (Ub sg (sel_chain_from tag sel cases dflt)) <->
       (cases <> [] /\ In x (evars sel)) \/ (exists cb, In cb cases /\ In x (flat_map evars (fst cb))) \/
       (exists cb, In cb cases /\ In x (Ub sg (snd cb))) \/ In x (Ub sg dflt)).
  Proof.
    induction cases as [|[vals b] r IH]; intros dflt tag x Htag Hne.
    - cbn [sel_chain_from]. rewrite !ex_in_nil. split; [tauto|]. split; [tauto|]. intros [[H _]|[[]|[[]|H]]]; [congruence|exact H].
    - cbn [sel_chain_from].
      assert (forall cb, In cb r -> fst cb <> []) as Hne' by (intros cb Hc; apply Hne; now right).
      destruct (IH dflt sel_cont x evars_sel_cont Hne') as [A B].
      assert (vals <> []) as Hv by (apply (Hne (vals, b)); now left).
      rewrite Db_single, Ub_single. rewrite D_if, U_if, Htag, (evars_case_cond sel vals x Hv), A, B, !ex_in_cons.
      cbn [In fst snd].
      assert ((vals, b) :: r <> []) as Hc by congruence.
      tauto.
  Qed.

  (** the SELECT node of the encoding carries exactly the sets of visit_MultiConditional *)
  Theorem select_chain_sets sel cases dflt st :
    cases <> [] -> (forall cb, In cb cases -> fst cb <> []) ->
    sel_chain sel cases dflt = [st] ->
    forall x, (In x (fst (du_stmt sg st)) <-> In x (fst (select_du sg sel cases dflt))) /\
              (In x (snd (du_stmt sg st)) <-> In x (snd (select_du sg sel cases dflt))).
  Proof.
    intros Hc Hne Est x. unfold select_du.
    destruct (select_du_spec cases dflt [] (evars sel ++ flat_map (fun cb => flat_map evars (fst cb)) cases) x) as [A B].
    cbn zeta in A, B. rewrite A, B.
    destruct (chain_sets sel cases dflt sel_head x evars_sel_head Hne) as [C D].
    fold (sel_chain sel cases dflt) in C, D. rewrite Est in C, D.
    rewrite Db_single in C. rewrite Ub_single in D.
    rewrite C, D, in_app_iff, in_flat_map. cbn [In]. split; [tauto|]. split.
    - intros [[_ H]|[[cb H]|[H|H]]]; auto. left. right. exact (ex_intro _ cb H).
    - intros [[H|[cb H]]|[H|H]]; auto. right. left. exact (ex_intro _ cb H).
  Qed.
End Sel.
