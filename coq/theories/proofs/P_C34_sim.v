(** P_C34_sim.v — generic simulation lemmas for the by-reference interpreter [rexec] of M_C34.

    1. [ren_evalZ]/[ren_evalB]: evaluation of expressions commutes with the renaming of frames;
    2. [coupled_sim]: a caller/callee rewrite (renaming of bodies + rewriting of the actual argument lists)
       preserves runs, given that [bind] builds related callee frames at every call site;
    3. [bind_ren]: for procedures without derived-type dummies, [bind] from related caller frames gives callee
       frames that agree on every name;
    4. [rexec_agree], [rexec_rename]: the identity instances. *)
From Coq Require Import ZArith List Bool String Ascii Lia.
From LV Require Import Base.Expr Base.MiniF models.M_C34.
Import ListNotations.
Open Scope Z_scope.

(* ================================================================================================ *)
(** * 0. generic helpers *)

Lemma evalZ_call r f args :
  evalZ r (ECall f args) =
  obind (omap_list (evalZ r) args) (fun vs => match intrinsic f vs with Some x => x | None => ev_fun r f vs end).
Proof.
  cbn [evalZ]. f_equal. induction args as [|a l IH]; [reflexivity|].
  cbn [omap_list]. rewrite <- IH. reflexivity.
Qed.

Lemma omap_list_ext {A B} (f g : A -> option B) (h : A -> A) l :
  Forall (fun a => f a = g (h a)) l -> omap_list f l = omap_list g (map h l).
Proof. induction 1 as [|a l H _ IH]; cbn; [reflexivity|]. now rewrite H, IH. Qed.

Lemma fold_sum_ext (f g : expr -> option Z) (h : expr -> expr) (op : Z -> Z -> Z) z l :
  Forall (fun a => f a = g (h a)) l ->
  fold_right (fun c acc => obind (f c) (fun v => obind acc (fun a => Some (op v a)))) z l =
  fold_right (fun c acc => obind (g c) (fun v => obind acc (fun a => Some (op v a)))) z (map h l).
Proof. induction 1 as [|a l H _ IH]; cbn; [reflexivity|]. now rewrite H, IH. Qed.

Lemma fold_bool_ext (f g : expr -> option bool) (h : expr -> expr) (op : bool -> bool -> bool) z l :
  Forall (fun a => f a = g (h a)) l ->
  fold_right (fun c acc => obind (f c) (fun v => obind acc (fun a => Some (op v a)))) z l =
  fold_right (fun c acc => obind (g c) (fun v => obind acc (fun a => Some (op v a)))) z (map h l).
Proof. induction 1 as [|a l H _ IH]; cbn; [reflexivity|]. now rewrite H, IH. Qed.

Lemma map_id_Forall {A} (f : A -> A) l : Forall (fun a => f a = a) l -> map f l = l.
Proof. induction 1 as [|a l H _ IH]; cbn; [reflexivity|]. now rewrite H, IH. Qed.

Lemma obind_ext {A B} (o1 o2 : option A) (f g : A -> option B) :
  o1 = o2 -> (forall x, f x = g x) -> obind o1 f = obind o2 g.
Proof. intros -> H. destruct o2; cbn; [apply H|reflexivity]. Qed.

(** from a [Forall] of implications over the names of each element to a plain [Forall] *)
Lemma Forall_names (P : expr -> Prop) (N : string -> Prop) cs :
  Forall (fun e => (forall x, In x (names_e e) -> N x) -> P e) cs ->
  (forall x, In x (flat_map names_e cs) -> N x) -> Forall P cs.
Proof.
  induction 1 as [|a l H _ IH]; intros HN; constructor.
  - apply H. intros x Hx. apply HN. cbn [flat_map]. apply in_or_app. now left.
  - apply IH. intros x Hx. apply HN. cbn [flat_map]. apply in_or_app. now right.
Qed.

Lemma omap_list_names {B} (f g : expr -> option B) (r : string -> string) (N : string -> Prop) l :
  (forall e, (forall x, In x (names_e e) -> N x) -> f e = g (ren_e r e)) ->
  (forall x, In x (flat_map names_e l) -> N x) -> omap_list f l = omap_list g (map (ren_e r) l).
Proof.
  intros H. induction l as [|a l IH]; intros HN; [reflexivity|].
  cbn [omap_list map]. rewrite H, IH; [reflexivity| |].
  - intros x Hx. apply HN. cbn [flat_map]. apply in_or_app. now right.
  - intros x Hx. apply HN. cbn [flat_map]. apply in_or_app. now left.
Qed.

(** reserved names and intrinsics *)
Lemma intrinsic_unreserved f vs : reserved f = false -> intrinsic f vs = None.
Proof.
  unfold reserved, intrinsic. intros H.
  apply orb_false_iff in H. destruct H as [H H5].
  apply orb_false_iff in H. destruct H as [H H4].
  apply orb_false_iff in H. destruct H as [H H3].
  apply orb_false_iff in H. destruct H as [H H2].
  apply orb_false_iff in H. destruct H as [H0 H1].
  rewrite H1, H2, H3, H4, H5. reflexivity.
Qed.

Lemma ren_ok_intrinsic r f vs : ren_ok r -> intrinsic (r f) vs = intrinsic f vs.
Proof.
  intros Hok. destruct (Hok f) as [H1 H2]. destruct (reserved f) eqn:E.
  - now rewrite H2.
  - now rewrite !intrinsic_unreserved.
Qed.

Lemma ren_ok_colon r f : ren_ok r -> String.eqb (r f) ":" = String.eqb f ":".
Proof.
  intros Hok. assert (HR : reserved ":" = true) by reflexivity.
  destruct (String.eqb f ":") eqn:E.
  - apply String.eqb_eq in E. subst f. destruct (Hok ":"%string) as [_ H]. rewrite (H HR). reflexivity.
  - destruct (String.eqb (r f) ":") eqn:E2; [|reflexivity].
    apply String.eqb_eq in E2. destruct (Hok f) as [H1 H2]. rewrite E2, HR in H1.
    symmetry in H1. apply H2 in H1. rewrite H1 in E2. subst f. discriminate E.
Qed.

Lemma aref_agree_refl a : aref_agree a a.
Proof. repeat split. Qed.

Lemma frel_weaken r (N N' : string -> Prop) fr1 fr2 :
  (forall x, N' x -> N x) -> frel r N fr1 fr2 -> frel r N' fr1 fr2.
Proof. intros H Hr x Hx. apply Hr, H, Hx. Qed.

(* ================================================================================================ *)
(** * 1. expressions: evaluation commutes with renaming of frames *)
Lemma ren_evalZ r N fr1 fr2 s : ren_ok r -> frel r N fr1 fr2 ->
  forall e, (forall x, In x (names_e e) -> N x) -> evalZ (renv fr1 s) e = evalZ (renv fr2 s) (ren_e r e).
Proof.
  intros Hok Hrel. induction e using expr_ind'; intros HN; cbn [ren_e].
  - reflexivity.
  - reflexivity.
  - cbn [evalZ renv ev_var]. destruct (Hrel x) as [E _]; [apply HN; cbn; auto|]. now rewrite E.
  - reflexivity.
  - cbn [evalZ]. apply fold_sum_ext. now apply (Forall_names _ N).
  - cbn [evalZ]. apply fold_sum_ext. now apply (Forall_names _ N).
  - cbn [evalZ]. rewrite IHe1, IHe2; [reflexivity| |];
      intros x Hx; apply HN; cbn [names_e]; apply in_or_app; auto.
  - cbn [evalZ]. rewrite IHe1, IHe2; [reflexivity| |];
      intros x Hx; apply HN; cbn [names_e]; apply in_or_app; auto.
  - reflexivity.
  - reflexivity.
  - reflexivity.
  - reflexivity.
  - rewrite !evalZ_call. apply obind_ext.
    + apply omap_list_ext. apply (Forall_names _ N); [assumption|].
      intros x Hx. apply HN. cbn [names_e]. now right.
    + intros vs. rewrite ren_ok_intrinsic by assumption. destruct (intrinsic f vs); [reflexivity|].
      destruct (Hrel f) as [_ [A [B C]]]; [apply HN; cbn; auto|].
      cbn [renv ev_fun]. now rewrite A, B, C.
Qed.

Lemma ren_evalB r N fr1 fr2 s : ren_ok r -> frel r N fr1 fr2 ->
  forall e, (forall x, In x (names_e e) -> N x) -> evalB (renv fr1 s) e = evalB (renv fr2 s) (ren_e r e).
Proof.
  intros Hok Hrel. induction e using expr_ind'; intros HN; cbn [ren_e]; try reflexivity.
  - cbn [evalB]. rewrite <- !(ren_evalZ r N fr1 fr2 s Hok Hrel); [reflexivity| |];
      intros x Hx; apply HN; cbn [names_e]; apply in_or_app; auto.
  - cbn [evalB]. apply fold_bool_ext. now apply (Forall_names _ N).
  - cbn [evalB]. apply fold_bool_ext. now apply (Forall_names _ N).
  - cbn [evalB]. rewrite IHe; [reflexivity|]. exact HN.
Qed.

Lemma ren_evalZ_list r N fr1 fr2 s : ren_ok r -> frel r N fr1 fr2 ->
  forall l, (forall x, In x (flat_map names_e l) -> N x) ->
  omap_list (evalZ (renv fr1 s)) l = omap_list (evalZ (renv fr2 s)) (map (ren_e r) l).
Proof. intros Hok Hrel l. apply omap_list_names. now apply ren_evalZ. Qed.

(** environments that agree pointwise evaluate alike (no renaming) *)
Definition env_ext (e1 e2 : env) : Prop :=
  (forall x, ev_var e1 x = ev_var e2 x) /\ (forall f a, ev_fun e1 f a = ev_fun e2 f a).

Lemma evalZ_env_ext e1 e2 : env_ext e1 e2 -> forall e, evalZ e1 e = evalZ e2 e.
Proof.
  intros [Hv Hf]. induction e using expr_ind'; try reflexivity.
  - cbn [evalZ]. now rewrite Hv.
  - cbn [evalZ]. rewrite <- (map_id cs) at 2. now apply fold_sum_ext.
  - cbn [evalZ]. rewrite <- (map_id cs) at 2. now apply fold_sum_ext.
  - cbn [evalZ]. now rewrite IHe1, IHe2.
  - cbn [evalZ]. now rewrite IHe1, IHe2.
  - rewrite !evalZ_call. apply obind_ext.
    + rewrite <- (map_id args) at 2. now apply omap_list_ext.
    + intros vs. now rewrite Hf.
Qed.

Lemma evalB_env_ext e1 e2 : env_ext e1 e2 -> forall e, evalB e1 e = evalB e2 e.
Proof.
  intros HE. induction e using expr_ind'; try reflexivity.
  - cbn [evalB]. now rewrite !(evalZ_env_ext e1 e2 HE).
  - cbn [evalB]. rewrite <- (map_id cs) at 2. now apply fold_bool_ext.
  - cbn [evalB]. rewrite <- (map_id cs) at 2. now apply fold_bool_ext.
  - cbn [evalB]. now rewrite IHe.
Qed.

(* ================================================================================================ *)
(** * 2. the coupled caller/callee rewrite *)

Lemma rexec_cons ps f d fr st rest s :
  rexec ps (S f) d fr (st :: rest) s =
  obind (rexec1 (rexec ps f) ps d fr st s) (fun s' => rexec ps f d fr rest s').
Proof. reflexivity. Qed.

Lemma rdo_loop_ext run1 run2 v dl n : (forall s, run1 s = run2 s) ->
  forall i s, rdo_loop run1 v dl n i s = rdo_loop run2 v dl n i s.
Proof.
  intros H. induction n as [|n IH]; intros i s; cbn [rdo_loop]; [reflexivity|].
  apply obind_ext; [apply H|]. intros s2. apply IH.
Qed.

Lemma sites_go P b :
  (fix go (l : list stmt) : Prop := match l with [] => True | x :: r => sites_s P x /\ go r end) b = sites P b.
Proof. induction b as [|x b IH]; [reflexivity|]. cbn [sites]. rewrite <- IH. reflexivity. Qed.

Lemma sites_s_do P v lo hi stp b : sites_s P (SDo v lo hi stp b) = sites P b.
Proof. exact (sites_go P b). Qed.
Lemma sites_s_while P c b : sites_s P (SWhile c b) = sites P b.
Proof. exact (sites_go P b). Qed.
Lemma sites_s_if P c t e : sites_s P (SIf c t e) = (sites P t /\ sites P e).
Proof. rewrite <- !sites_go. reflexivity. Qed.

Ltac inn := unfold names, tcalls; cbn [names_s tcall_s flat_map map In]; rewrite ?in_app_iff; cbn [In]; tauto.

Section Coupled.
  Variables ps1 ps2 : rprocs.
  Variable rm : string -> string -> string.            (* [rm g]: renaming applied to the body of procedure g *)
  Variable tc : string -> list expr -> list expr.      (* rewriting of the actual argument list of calls to g *)
  Variable site_ok : (string -> string) -> string -> list expr -> Prop.   (* condition on a call site, under the caller's renaming *)
  Variable Inv : frame -> frame -> Prop.               (* an invariant of the pairs of frames, preserved by [bind] *)

  Definition nm (ss : list stmt) (x : string) : Prop := In x (names ss) \/ In x (names (tcalls tc ss)).
  Definition nma (g : string) (args : list expr) (x : string) : Prop :=
    In x (flat_map names_e args) \/ In x (flat_map names_e (tc g args)).

  Hypothesis Hprocs : forall g,
    match find_rproc ps1 g, find_rproc ps2 g with
    | Some p1, Some p2 => rp_body p2 = ren (rm g) (tcalls tc (rp_body p1)) /\ ren_ok (rm g) /\ sites (site_ok (rm g)) (rp_body p1)
    | None, None => True
    | _, _ => False
    end.
  Hypothesis Hbind : forall g p1 p2 d fr1 fr2 r args s,
    find_rproc ps1 g = Some p1 -> find_rproc ps2 g = Some p2 -> ren_ok r -> site_ok r g args ->
    frel r (nma g args) fr1 fr2 -> Inv fr1 fr2 ->
    match bind d fr1 s p1 args, bind d fr2 s p2 (map (ren_e r) (tc g args)) with
    | Some c1, Some c2 => snd c1 = snd c2 /\ frel (rm g) (nm (rp_body p1)) (fst c1) (fst c2) /\ Inv (fst c1) (fst c2)
    | None, None => True
    | _, _ => False
    end.

  Lemma nm_head st rest x : In x (names_s st) -> nm (st :: rest) x.
  Proof. intros H. left. inn. Qed.
  Lemma nm_head_t st rest x : In x (names_s (tcall_s tc st)) -> nm (st :: rest) x.
  Proof. intros H. right. inn. Qed.
  Lemma nm_tail st rest x : nm rest x -> nm (st :: rest) x.
  Proof. unfold nm. intros [H|H]; [left|right]; revert H; inn. Qed.
  Lemma nm_single st rest x : nm [st] x -> nm (st :: rest) x.
  Proof. unfold nm. intros [H|H]; [left|right]; revert H; unfold names, tcalls; cbn [map flat_map];
         rewrite ?app_nil_r, ?in_app_iff; tauto. Qed.

  Theorem coupled_sim : forall f d fr1 fr2 r ss s,
    ren_ok r -> sites (site_ok r) ss -> frel r (nm ss) fr1 fr2 -> Inv fr1 fr2 ->
    rexec ps1 f d fr1 ss s = rexec ps2 f d fr2 (ren r (tcalls tc ss)) s.
  Proof.
    induction f as [|f IH]; intros d fr1 fr2 r ss s Hok Hs Hrel HI; [reflexivity|].
    destruct ss as [|st rest]; [reflexivity|].
    change (ren r (tcalls tc (st :: rest))) with (ren_s r (tcall_s tc st) :: ren r (tcalls tc rest)).
    rewrite !rexec_cons. destruct Hs as [Hs1 Hs2].
    apply obind_ext.
    2:{ intros s'. apply IH; [assumption|assumption| |assumption]. revert Hrel. apply frel_weaken. apply nm_tail. }
    pose proof (ren_evalZ r _ fr1 fr2 s Hok Hrel) as HZ.
    pose proof (ren_evalB r _ fr1 fr2 s Hok Hrel) as HB.
    pose proof (ren_evalZ_list r _ fr1 fr2 s Hok Hrel) as HL.
    destruct st as [x e|a idx e|v lo hi stp body|c body|c tb eb|g args|l]; cbn [tcall_s ren_s rexec1].
    - (* SAssign *)
      apply obind_ext.
      + apply HZ. intros y Hy. apply nm_head. inn.
      + intros v. destruct (Hrel x) as [E _]; [apply nm_head; inn|]. now rewrite E.
    - (* SStore *)
      apply obind_ext.
      + apply HL. intros y Hy. apply nm_head. inn.
      + intros i. apply obind_ext.
        * apply HZ. intros y Hy. apply nm_head. inn.
        * intros v. destruct (Hrel a) as [_ [A [B C]]]; [apply nm_head; inn|]. now rewrite A, B, C.
    - (* SDo *)
      apply obind_ext; [apply HZ; intros y Hy; apply nm_head; destruct stp; inn|]. intros a.
      apply obind_ext; [apply HZ; intros y Hy; apply nm_head; destruct stp; inn|]. intros b.
      apply obind_ext.
      + destruct stp as [e|]; cbn [option_map]; [|reflexivity].
        apply HZ. intros y Hy. apply nm_head. inn.
      + intros dl. destruct (dl =? 0); [reflexivity|].
        destruct (Hrel v) as [E _]; [apply nm_head; destruct stp; inn|]. rewrite E.
        apply rdo_loop_ext. intros s0.
        apply (IH d fr1 fr2 r body s0 Hok); [| |exact HI].
        * now rewrite sites_s_do in Hs1.
        * revert Hrel. apply frel_weaken. intros y [Hy|Hy]; [apply nm_head|apply nm_head_t]; destruct stp; revert Hy; inn.
    - (* SWhile *)
      apply obind_ext; [apply HB; intros y Hy; apply nm_head; inn|]. intros b.
      destruct b; [|reflexivity]. apply obind_ext.
      + apply (IH d fr1 fr2 r body s Hok); [| |exact HI].
        * now rewrite sites_s_while in Hs1.
        * revert Hrel. apply frel_weaken. intros y [Hy|Hy]; [apply nm_head|apply nm_head_t]; revert Hy; inn.
      + intros s1. apply (IH d fr1 fr2 r [SWhile c body] s1 Hok); [| |exact HI].
        * split; [exact Hs1|exact I].
        * revert Hrel. apply frel_weaken. apply nm_single.
    - (* SIf *)
      apply obind_ext; [apply HB; intros y Hy; apply nm_head; inn|]. intros b.
      rewrite sites_s_if in Hs1. destruct Hs1 as [Ht He].
      destruct b.
      + apply (IH d fr1 fr2 r tb s Hok Ht); [|exact HI].
        revert Hrel. apply frel_weaken. intros y [Hy|Hy]; [apply nm_head|apply nm_head_t]; revert Hy; inn.
      + apply (IH d fr1 fr2 r eb s Hok He); [|exact HI].
        revert Hrel. apply frel_weaken. intros y [Hy|Hy]; [apply nm_head|apply nm_head_t]; revert Hy; inn.
    - (* SCall *)
      assert (Hrel' : frel r (nma g args) fr1 fr2).
      { revert Hrel. apply frel_weaken. intros y [Hy|Hy]; [apply nm_head|apply nm_head_t]; exact Hy. }
      pose proof (Hprocs g) as Hp. pose proof (Hbind g) as Hb.
      destruct (find_rproc ps1 g) as [p1|]; destruct (find_rproc ps2 g) as [p2|]; try contradiction; [|reflexivity].
      cbn [obind]. destruct Hp as [Hbody [Hokg Hsg]].
      specialize (Hb p1 p2 (S d) fr1 fr2 r args s eq_refl eq_refl Hok Hs1 Hrel' HI).
      destruct (bind (S d) fr1 s p1 args) as [c1|];
        destruct (bind (S d) fr2 s p2 (map (ren_e r) (tc g args))) as [c2|]; try contradiction; [|reflexivity].
      cbn [obind]. destruct Hb as [Hsnd [Hfr HI']]. rewrite Hbody, <- Hsnd. now apply IH.
    - (* SSkip *) reflexivity.
  Qed.
End Coupled.

(* ================================================================================================ *)
(** * 3. binding with related caller frames *)

Section BindRen.
  Variable r : string -> string.
  Variable N : string -> Prop.
  Variables fr1 fr2 : frame.
  Variable s : rstore.
  Hypothesis Hok : ren_ok r.
  Hypothesis Hrel : frel r N fr1 fr2.

  Let NE (e : expr) : Prop := forall x, In x (names_e e) -> N x.
  Let NL (l : list expr) : Prop := forall x, In x (flat_map names_e l) -> N x.

  Lemma NL_head e l : NL (e :: l) -> NE e.
  Proof. intros H x Hx. apply H. cbn [flat_map]. apply in_or_app. now left. Qed.
  Lemma NL_tail e l : NL (e :: l) -> NL l.
  Proof. intros H x Hx. apply H. cbn [flat_map]. apply in_or_app. now right. Qed.
  Lemma NL_in e l : NL l -> In e l -> NE e.
  Proof. intros H Hin x Hx. apply H. apply in_flat_map. exists e. now split. Qed.
  Lemma NE_call_fun f l : NE (ECall f l) -> N f.
  Proof. intros H. apply H. cbn [names_e In]. now left. Qed.
  Lemma NE_call_args f l : NE (ECall f l) -> NL l.
  Proof. intros H x Hx. apply H. cbn [names_e In]. now right. Qed.

  Lemma ren_eval_adim e : NE e -> eval_adim (renv fr1 s) e = eval_adim (renv fr2 s) (ren_e r e).
  Proof.
    intros HN. pose proof (ren_evalZ r N fr1 fr2 s Hok Hrel e HN) as HZ.
    destruct e; try (unfold eval_adim; rewrite HZ; reflexivity).
    destruct args as [|lo [|hi [|x t]]]; try (unfold eval_adim; rewrite HZ; reflexivity).
    unfold eval_adim. rewrite HZ. cbn [ren_e map]. rewrite (ren_ok_colon r f Hok).
    destruct (String.eqb f ":"); [|reflexivity].
    pose proof (NE_call_args _ _ HN) as HL.
    rewrite (ren_evalZ r N fr1 fr2 s Hok Hrel lo (NL_head _ _ HL)).
    rewrite (ren_evalZ r N fr1 fr2 s Hok Hrel hi (NL_head _ _ (NL_tail _ _ HL))).
    reflexivity.
  Qed.

  Lemma ren_eval_adim_list l : NL l ->
    omap_list (eval_adim (renv fr1 s)) l = omap_list (eval_adim (renv fr2 s)) (map (ren_e r) l).
  Proof. apply omap_list_names. exact ren_eval_adim. Qed.

  Definition aseq_agree (q1 q2 : aseq) : Prop :=
    sq_loc q1 = sq_loc q2 /\ sq_len q1 = sq_len q2 /\ sq_ext q1 = sq_ext q2 /\ forall o, sq_at q1 o = sq_at q2 o.
  Definition oaseq_agree (o1 o2 : option aseq) : Prop :=
    match o1, o2 with Some q1, Some q2 => aseq_agree q1 q2 | None, None => True | _, _ => False end.

  Lemma mk_aseq_agree l len at1 at2 ext : (forall o, at1 o = at2 o) ->
    aseq_agree (mk_aseq l len at1 ext) (mk_aseq l len at2 ext).
  Proof.
    intros H. unfold aseq_agree, mk_aseq; cbn [sq_loc sq_len sq_ext sq_at]. repeat split.
    intros o. now rewrite H.
  Qed.

  Lemma ren_actual_seq e : NE e -> oaseq_agree (actual_seq fr1 s e) (actual_seq fr2 s (ren_e r e)).
  Proof.
    intros HN. destruct e; cbn [ren_e actual_seq]; try exact I.
    - destruct (Hrel x) as [_ [A [B C]]]; [apply HN; cbn; auto|].
      rewrite <- A, <- B.
      cbn [oaseq_agree]. apply mk_aseq_agree. intros o. apply C.
    - destruct (Hok f) as [R1 _]. rewrite R1. destruct (reserved f); [exact I|].
      destruct (Hrel f (NE_call_fun _ _ HN)) as [_ [A [B C]]].
      rewrite <- (ren_eval_adim_list args (NE_call_args _ _ HN)).
      destruct (omap_list (eval_adim (renv fr1 s)) args) as [ads|]; cbn [obind]; [|exact I].
      rewrite <- A, <- B. destruct (all_idx ads) as [i|].
      + destruct (in_bnd (ar_bnd (fa fr1 f)) i); [|exact I].
        cbn [oaseq_agree]. apply mk_aseq_agree. intros o. apply C.
      + destruct (adims_ok (ar_bnd (fa fr1 f)) ads); [|exact I].
        cbn [oaseq_agree]. apply mk_aseq_agree. intros o. apply C.
  Qed.

  Lemma ren_scalar_init e : NE e -> scalar_init fr1 s e = scalar_init fr2 s (ren_e r e).
  Proof.
    intros HN. pose proof (ren_evalZ r N fr1 fr2 s Hok Hrel e HN) as HZ.
    destruct e; try (unfold scalar_init; rewrite HZ; reflexivity).
    - reflexivity.
    - unfold scalar_init. rewrite HZ. cbn [ren_e]. destruct (Hok f) as [R1 _]. rewrite R1.
      destruct (reserved f); [reflexivity|].
      rewrite <- (ren_evalZ_list r N fr1 fr2 s Hok Hrel args (NE_call_args _ _ HN)).
      destruct (Hrel f (NE_call_fun _ _ HN)) as [_ [A [B C]]]. now rewrite B.
  Qed.

  Lemma ren_sref_of e dflt : NE e -> sref_of fr1 s e dflt = sref_of fr2 s (ren_e r e) dflt.
  Proof.
    intros HN. destruct e; try reflexivity.
    - cbn [ren_e sref_of]. destruct (Hrel x) as [E _]; [apply HN; cbn; auto|]. exact E.
    - cbn [ren_e sref_of]. destruct (Hok f) as [R1 _]. rewrite R1. destruct (reserved f); [reflexivity|].
      rewrite <- (ren_evalZ_list r N fr1 fr2 s Hok Hrel args (NE_call_args _ _ HN)).
      destruct (Hrel f (NE_call_fun _ _ HN)) as [_ [A [B C]]].
      destruct (omap_list (evalZ (renv fr1 s)) args) as [i|]; [|reflexivity].
      now rewrite A, B, C.
  Qed.

  Lemma is_var_ren e : is_var (ren_e r e) = is_var e.
  Proof. destruct e; reflexivity. Qed.

  Lemma ren_init_scalars d ps : forall args s0, NL args ->
    init_scalars d fr1 s (combine ps args) s0 = init_scalars d fr2 s (combine ps (map (ren_e r) args)) s0.
  Proof.
    induction ps as [|[z k] ps IH]; intros [|e args] s0 HN; cbn [combine map init_scalars]; try reflexivity.
    destruct k.
    - rewrite <- (ren_scalar_init e (NL_head _ _ HN)). apply obind_ext; [reflexivity|].
      intros o. apply IH. exact (NL_tail _ _ HN).
    - apply IH. exact (NL_tail _ _ HN).
    - rewrite is_var_ren. destruct (is_var e); [|reflexivity]. apply IH. exact (NL_tail _ _ HN).
  Qed.

  Lemma lookup_pa_ren z ps : forall args,
    lookup_pa z (combine ps (map (ren_e r) args)) =
    option_map (fun ke => (fst ke, ren_e r (snd ke))) (lookup_pa z (combine ps args)).
  Proof.
    induction ps as [|[x k] ps IH]; intros [|e args]; cbn [combine map lookup_pa option_map]; try reflexivity.
    destruct (String.eqb x z); [reflexivity|apply IH].
  Qed.

  Lemma lookup_pa_in z ps : forall args k e,
    lookup_pa z (combine ps args) = Some (k, e) -> In e args /\ In (z, k) ps.
  Proof.
    induction ps as [|[x k0] ps IH]; intros [|e0 args] k e; cbn [combine lookup_pa]; try discriminate.
    destruct (String.eqb x z) eqn:E.
    - intros H. injection H as -> ->. apply String.eqb_eq in E. subst x. split; now left.
    - intros H. destruct (IH _ _ _ H). split; now right.
  Qed.

  Lemma forward_root_none ps args z :
    forallb (fun q : string * pkind => match snd q with PRec _ => false | _ => true end) ps = true ->
    forward_root (combine ps args) z = None.
  Proof.
    intros Hnr. unfold forward_root. destruct (split_pct z) as [[root rest]|]; [|reflexivity].
    destruct (lookup_pa root (combine ps args)) as [[k e]|] eqn:E; [|reflexivity].
    destruct k; try reflexivity.
    apply lookup_pa_in in E. destruct E as [_ E].
    rewrite forallb_forall in Hnr. apply Hnr in E. discriminate E.
  Qed.

  Lemma ren_callee_fs d ps args z :
    forallb (fun q : string * pkind => match snd q with PRec _ => false | _ => true end) ps = true -> NL args ->
    callee_fs d fr1 s (combine ps args) z = callee_fs d fr2 s (combine ps (map (ren_e r) args)) z.
  Proof.
    intros Hnr HN. unfold callee_fs. rewrite lookup_pa_ren, !forward_root_none by assumption.
    destruct (lookup_pa z (combine ps args)) as [[k e]|] eqn:E; cbn [option_map fst snd]; [|reflexivity].
    destruct k; try reflexivity.
    apply ren_sref_of. apply (NL_in e args HN). now apply lookup_pa_in in E.
  Qed.
End BindRen.

(** callee-side pieces only depend on the scalar environment pointwise *)
Lemma expl_bnd_ext c1 c2 len : env_ext c1 c2 -> forall dims acc, expl_bnd c1 len dims acc = expl_bnd c2 len dims acc.
Proof.
  intros HE. induction dims as [|dm dims IH]; intros acc; [reflexivity|].
  destruct dm; cbn [expl_bnd].
  - rewrite !(evalZ_env_ext c1 c2 HE). apply obind_ext; [reflexivity|]. intros a.
    apply obind_ext; [reflexivity|]. intros b. now rewrite IH.
  - reflexivity.
  - now rewrite !(evalZ_env_ext c1 c2 HE).
Qed.

Lemma dummy_bnd_ext c1 c2 q1 q2 dims : env_ext c1 c2 -> aseq_agree q1 q2 ->
  dummy_bnd c1 q1 dims = dummy_bnd c2 q2 dims.
Proof.
  intros HE [_ [Hlen [Hext _]]]. unfold dummy_bnd. rewrite Hlen, Hext.
  now rewrite (expl_bnd_ext c1 c2 (sq_len q2) HE).
Qed.

Lemma eval_bnds_ext c1 c2 : env_ext c1 c2 -> forall bs, eval_bnds c1 bs = eval_bnds c2 bs.
Proof.
  intros HE. induction bs as [|[lo hi] bs IH]; [reflexivity|].
  cbn [eval_bnds]. now rewrite !(evalZ_env_ext c1 c2 HE), IH.
Qed.

Lemma locals_ok_ext c1 c2 : env_ext c1 c2 -> forall arrs, locals_ok c1 arrs = locals_ok c2 arrs.
Proof.
  intros HE. induction arrs as [|[z bs] arrs IH]; [reflexivity|].
  cbn [locals_ok]. now rewrite (eval_bnds_ext c1 c2 HE), IH.
Qed.

Lemma local_aref_ext d c1 c2 arrs z : env_ext c1 c2 -> local_aref d c1 arrs z = local_aref d c2 arrs z.
Proof.
  intros HE. unfold local_aref. destruct (assoc_s arrs z); [|reflexivity].
  now rewrite (eval_bnds_ext c1 c2 HE).
Qed.

Lemma mk_aref_agree q1 q2 b : aseq_agree q1 q2 -> aref_agree (mk_aref q1 b) (mk_aref q2 b).
Proof.
  intros [Hloc [_ [_ Hat]]]. unfold aref_agree, mk_aref; cbn [ar_loc ar_bnd ar_view].
  repeat split; [assumption|]. intros i. now rewrite Hat.
Qed.

Section BindRen2.
  Variable r : string -> string.
  Variable N : string -> Prop.
  Variables fr1 fr2 : frame.
  Variable s : rstore.
  Hypothesis Hok : ren_ok r.
  Hypothesis Hrel : frel r N fr1 fr2.
  Variables c1 c2 : env.
  Hypothesis HE : env_ext c1 c2.

  Lemma ren_arrays_ok ps : forall args, (forall x, In x (flat_map names_e args) -> N x) ->
    arrays_ok fr1 s c1 (combine ps args) = arrays_ok fr2 s c2 (combine ps (map (ren_e r) args)).
  Proof.
    induction ps as [|[z k] ps IH]; intros [|e args] HN; cbn [combine map arrays_ok]; try reflexivity.
    pose proof (IH args (NL_tail N e args HN)) as IHa.
    destruct k; try exact IHa.
    pose proof (ren_actual_seq r N fr1 fr2 s Hok Hrel e (NL_head N e args HN)) as Hq.
    destruct (actual_seq fr1 s e) as [q1|]; destruct (actual_seq fr2 s (ren_e r e)) as [q2|];
      try contradiction; [|reflexivity].
    cbn [oaseq_agree] in Hq. rewrite (dummy_bnd_ext c1 c2 q1 q2 dims HE Hq).
    destruct (dummy_bnd c2 q2 dims); [|reflexivity].
    destruct Hq as [_ [Hlen _]]. now rewrite Hlen, IHa.
  Qed.

  Lemma ren_callee_fa d ps args arrs z :
    forallb (fun q : string * pkind => match snd q with PRec _ => false | _ => true end) ps = true ->
    (forall x, In x (flat_map names_e args) -> N x) ->
    aref_agree (callee_fa d fr1 s c1 (combine ps args) arrs z)
               (callee_fa d fr2 s c2 (combine ps (map (ren_e r) args)) arrs z).
  Proof.
    intros Hnr HN. unfold callee_fa. rewrite lookup_pa_ren, !forward_root_none by assumption.
    destruct (lookup_pa z (combine ps args)) as [[k e]|] eqn:E; cbn [option_map fst snd].
    - destruct k; try apply aref_agree_refl.
      assert (HNe : forall x, In x (names_e e) -> N x).
      { apply (NL_in N e args HN). now apply lookup_pa_in in E. }
      pose proof (ren_actual_seq r N fr1 fr2 s Hok Hrel e HNe) as Hq.
      destruct (actual_seq fr1 s e) as [q1|]; destruct (actual_seq fr2 s (ren_e r e)) as [q2|];
        try contradiction; [|apply aref_agree_refl].
      cbn [oaseq_agree] in Hq. rewrite (dummy_bnd_ext c1 c2 q1 q2 dims HE Hq).
      destruct (dummy_bnd c2 q2 dims); [|apply aref_agree_refl].
      now apply mk_aref_agree.
    - rewrite (local_aref_ext d c1 c2 arrs z HE). apply aref_agree_refl.
  Qed.
End BindRen2.

Lemma bind_ren d r fr1 fr2 s p args : no_rec p = true -> ren_ok r ->
  frel r (fun x => In x (flat_map names_e args)) fr1 fr2 ->
  match bind d fr1 s p args, bind d fr2 s p (map (ren_e r) args) with
  | Some c1, Some c2 => snd c1 = snd c2 /\ frel (fun x => x) (fun _ => True) (fst c1) (fst c2)
  | None, None => True
  | _, _ => False
  end.
Proof.
  intros Hnr Hok Hrel. unfold no_rec in Hnr. unfold bind. rewrite map_length.
  destruct (negb (Nat.eqb (List.length args) (List.length (rp_params p)))); [exact I|].
  set (N := fun x => In x (flat_map names_e args)) in *.
  assert (HN : forall x, In x (flat_map names_e args) -> N x) by (intros x Hx; exact Hx).
  rewrite <- (ren_init_scalars r N fr1 fr2 s Hok Hrel d (rp_params p) args (clear_depth d s) HN).
  destruct (init_scalars d fr1 s (combine (rp_params p) args) (clear_depth d s)) as [s0|]; cbn [obind]; [|exact I].
  assert (HE : env_ext (scal_env (callee_fs d fr1 s (combine (rp_params p) args)) s0)
                       (scal_env (callee_fs d fr2 s (combine (rp_params p) (map (ren_e r) args))) s0)).
  { split; [|reflexivity]. intros x. cbn [scal_env ev_var].
    now rewrite (ren_callee_fs r N fr1 fr2 s Hok Hrel d (rp_params p) args x Hnr HN). }
  rewrite <- (ren_arrays_ok r N fr1 fr2 s Hok Hrel _ _ HE (rp_params p) args HN).
  rewrite <- (locals_ok_ext _ _ HE).
  destruct (arrays_ok fr1 s _ _ && locals_ok _ _); [|exact I].
  cbn [fst snd]. split; [reflexivity|]. intros x _. cbn [fs fa]. split.
  - exact (ren_callee_fs r N fr1 fr2 s Hok Hrel d (rp_params p) args x Hnr HN).
  - exact (ren_callee_fa r N fr1 fr2 s Hok Hrel _ _ HE d (rp_params p) args (rp_arrays p) x Hnr HN).
Qed.

(* ================================================================================================ *)
(** * 4. corollaries: identity instances *)

Lemma ren_e_id e : ren_e (fun x => x) e = e.
Proof.
  induction e using expr_ind'; cbn [ren_e]; try reflexivity;
    try (now rewrite (map_id_Forall _ _ H)); try (now rewrite IHe1, IHe2); now rewrite IHe.
Qed.

Lemma map_ren_e_id l : map (ren_e (fun x => x)) l = l.
Proof. apply map_id_Forall. apply Forall_forall. intros e _. apply ren_e_id. Qed.

Lemma ren_s_id st : ren_s (fun x => x) st = st.
Proof.
  induction st using stmt_ind'; cbn [ren_s]; rewrite ?ren_e_id, ?map_ren_e_id; try reflexivity.
  - rewrite (map_id_Forall _ _ H). destruct st; cbn [option_map]; now rewrite ?ren_e_id.
  - now rewrite (map_id_Forall _ _ H).
  - now rewrite (map_id_Forall _ _ H), (map_id_Forall _ _ H0).
Qed.

Lemma ren_id ss : ren (fun x => x) ss = ss.
Proof. unfold ren. apply map_id_Forall. apply Forall_forall. intros st _. apply ren_s_id. Qed.

Lemma tcall_s_id st : tcall_s (fun _ a => a) st = st.
Proof.
  induction st using stmt_ind'; cbn [tcall_s]; try reflexivity.
  - now rewrite (map_id_Forall _ _ H).
  - now rewrite (map_id_Forall _ _ H).
  - now rewrite (map_id_Forall _ _ H), (map_id_Forall _ _ H0).
Qed.

Lemma tcalls_id ss : tcalls (fun _ a => a) ss = ss.
Proof. unfold tcalls. apply map_id_Forall. apply Forall_forall. intros st _. apply tcall_s_id. Qed.

Lemma ren_ok_id : ren_ok (fun x => x).
Proof. intros f. split; [reflexivity|]. intros _. reflexivity. Qed.

Lemma sites_Forall P ss : Forall (sites_s P) ss -> sites P ss.
Proof. induction 1; cbn [sites]; [exact I|]. now split. Qed.

Lemma sites_s_true (P : string -> list expr -> Prop) : (forall g a, P g a) -> forall st, sites_s P st.
Proof.
  intros HP. induction st using stmt_ind'; try exact I.
  - rewrite sites_s_do. now apply sites_Forall.
  - rewrite sites_s_while. now apply sites_Forall.
  - rewrite sites_s_if. split; now apply sites_Forall.
  - apply HP.
Qed.

Lemma sites_true (P : string -> list expr -> Prop) : (forall g a, P g a) -> forall ss, sites P ss.
Proof. intros HP ss. apply sites_Forall. apply Forall_forall. intros st _. now apply sites_s_true. Qed.

(** the identity instance of [coupled_sim] *)
Lemma coupled_id ps : (forall g p, find_rproc ps g = Some p -> no_rec p = true) ->
  forall f d fr1 fr2 r ss s, ren_ok r -> frel r (fun x => In x (names ss)) fr1 fr2 ->
  rexec ps f d fr1 ss s = rexec ps f d fr2 (ren r ss) s.
Proof.
  intros Hnr f d fr1 fr2 r ss s Hok Hrel.
  pose proof (coupled_sim ps ps (fun _ x => x) (fun _ a => a) (fun _ _ _ => True) (fun _ _ => True)) as HC.
  rewrite <- (tcalls_id ss) at 2. apply HC; clear HC.
  - intros g. destruct (find_rproc ps g) as [p|]; [|exact I].
    rewrite tcalls_id, ren_id. split; [reflexivity|]. split; [apply ren_ok_id|].
    apply sites_true. intros; exact I.
  - intros g p1 p2 d0 f1 f2 r0 args s0 E1 E2 Hok0 _ Hr _. rewrite E1 in E2. injection E2 as <-.
    pose proof (bind_ren d0 r0 f1 f2 s0 p1 args (Hnr g p1 E1) Hok0) as HB.
    cbv beta. destruct (bind d0 f1 s0 p1 args) as [c1|]; destruct (bind d0 f2 s0 p1 (map (ren_e r0) args)) as [c2|].
    + destruct HB as [HB1 HB2].
      * revert Hr. apply frel_weaken. intros x Hx. now left.
      * split; [assumption|]. split; [|exact I]. revert HB2. apply frel_weaken. intros; exact I.
    + apply HB. revert Hr. apply frel_weaken. intros x Hx. now left.
    + apply HB. revert Hr. apply frel_weaken. intros x Hx. now left.
    + exact I.
  - assumption.
  - apply sites_true. intros; exact I.
  - revert Hrel. apply frel_weaken. unfold nm. rewrite tcalls_id. tauto.
  - exact I.
Qed.

(** frames that agree on the names of the code give the same run (table without derived-type dummies) *)
Theorem rexec_agree ps : (forall g p, find_rproc ps g = Some p -> no_rec p = true) ->
  forall f d fr1 fr2 ss s, frel (fun x => x) (fun x => In x (names ss)) fr1 fr2 ->
  rexec ps f d fr1 ss s = rexec ps f d fr2 ss s.
Proof.
  intros Hnr f d fr1 fr2 ss s Hrel.
  rewrite (coupled_id ps Hnr f d fr1 fr2 (fun x => x) ss s ren_ok_id Hrel). now rewrite ren_id.
Qed.

(** renaming a body = running the original in the composed frame (table without derived-type dummies) *)
Theorem rexec_rename ps : (forall g p, find_rproc ps g = Some p -> no_rec p = true) ->
  forall f d fr r ss s, ren_ok r ->
  rexec ps f d {| fs := fun x => fs fr (r x); fa := fun x => fa fr (r x) |} ss s = rexec ps f d fr (ren r ss) s.
Proof.
  intros Hnr f d fr r ss s Hok. apply (coupled_id ps Hnr); [assumption|].
  intros x _. cbn [fs fa]. split; [reflexivity|apply aref_agree_refl].
Qed.

Print Assumptions ren_evalZ.
Print Assumptions ren_evalB.
Print Assumptions coupled_sim.
Print Assumptions bind_ren.
Print Assumptions rexec_agree.
Print Assumptions rexec_rename.
