(** C26 — proofs, part 4: reads of expressions, must-defines, array names, soundness of [uses] on
    the class [definite]. *)
From Coq Require Import ZArith List Bool String Lia.
From LV Require Import Base.Expr Base.MiniF Base.MiniFFacts models.M_C26 proofs.P_C26 proofs.P_C26_def.
Import ListNotations.
Open Scope Z_scope.

(** * Expressions *)
Lemma lift_fm {B C} (F : expr -> list B) (G : expr -> list C) (b : B) (c : C) cs :
  Forall (fun e => In b (F e) -> In c (G e)) cs -> In b (flat_map F cs) -> In c (flat_map G cs).
Proof.
  intros HF H. apply in_flat_map in H. destruct H as [e [He Hl]].
  apply in_flat_map. exists e. split; [exact He|]. rewrite Forall_forall in HF. auto.
Qed.

Lemma ereads_evars s l : forall e, In l (ereads s e) -> In (lname l) (evars e).
Proof.
  induction e using expr_ind'; cbn [ereads evars]; try contradiction;
    try (now apply lift_fm); try (rewrite !in_app_iff; tauto).
  - intros [<-|[]]. now left.
  - exact IHe.
  - rewrite !in_app_iff. intros [A|A].
    + right. now apply (lift_fm (ereads s) evars l (lname l)).
    + left. destruct (is_intrinsic f); [contradiction|].
      destruct (eval_idx s args); [|contradiction]. destruct A as [<-|[]]. now left.
Qed.

Lemma ereads_anames s a i : forall e, In (LA a i) (ereads s e) -> In a (eanames e).
Proof.
  induction e using expr_ind'; cbn [ereads eanames]; try contradiction;
    try (now apply lift_fm); try (rewrite !in_app_iff; tauto).
  - intros [A|[]]. discriminate.
  - exact IHe.
  - rewrite !in_app_iff. intros [A|A].
    + right. now apply (lift_fm (ereads s) eanames (LA a i) a).
    + left. destruct (is_intrinsic f); [contradiction|].
      destruct (eval_idx s args); [|contradiction]. destruct A as [A|[]]. inversion A. now left.
Qed.

Lemma ereads_list_evars s l es : In l (flat_map (ereads s) es) -> In (lname l) (flat_map evars es).
Proof.
  apply lift_fm. apply Forall_forall. intros e _. apply ereads_evars.
Qed.

Lemma ereads_list_anames s a i es : In (LA a i) (flat_map (ereads s) es) -> In a (flat_map eanames es).
Proof.
  apply lift_fm. apply Forall_forall. intros e _. apply ereads_anames.
Qed.

Lemma scvars_sub n : forall e, In n (scvars e) -> In n (evars e).
Proof.
  induction e using expr_ind'; cbn [scvars evars]; try contradiction;
    try (now apply lift_fm); try (rewrite !in_app_iff; tauto); try tauto.
  intros A. apply in_app_iff. right. now apply (lift_fm scvars evars n n).
Qed.

Lemma subs_sc_sub n : forall e, In n (subs_sc e) -> In n (subs_all e).
Proof.
  induction e using expr_ind'; cbn [subs_sc subs_all]; try contradiction;
    try (now apply lift_fm); try (rewrite !in_app_iff; tauto); try tauto.
  rewrite !in_app_iff. intros [A|A].
  - left. destruct (is_intrinsic f); [contradiction|].
    revert A. apply lift_fm. apply Forall_forall. intros e _. apply scvars_sub.
  - right. now apply (lift_fm subs_sc subs_all n n).
Qed.

(** * Calls: positions *)
Lemma arg_reads_inv s : forall params args l,
  In l (arg_reads s params args) ->
  exists k d e, nth_error params k = Some (d, false) /\ nth_error args k = Some e /\
                (forall x, e <> EVar x) /\ In l (ereads s e).
Proof.
  induction params as [|[d b] ps IH]; intros [|a r] l H; cbn [arg_reads] in H; try contradiction;
    try (destruct b; contradiction).
  destruct b.
  - apply IH in H. destruct H as [k [d' [e H]]]. exists (S k), d', e. exact H.
  - apply in_app_iff in H. destruct H as [H|H].
    + exists 0%nat, d, a. cbn. repeat split; auto.
      * intros x ->. contradiction.
      * destruct a; try exact H. contradiction.
    + apply IH in H. destruct H as [k [d' [e H]]]. exists (S k), d', e. exact H.
Qed.

Lemma nth_combine {A B} : forall (a : list A) (b : list B) k x y,
  nth_error a k = Some x -> nth_error b k = Some y -> nth_error (combine a b) k = Some (x, y).
Proof.
  induction a as [|a0 a IH]; intros [|b0 b] [|k] x y; cbn; try discriminate.
  - intros E1 E2. inversion E1; inversion E2; subst. reflexivity.
  - apply IH.
Qed.

Lemma In_combine_nth {A B} : forall (a : list A) (b : list B) x y,
  In (x, y) (combine a b) -> exists k, nth_error a k = Some x /\ nth_error b k = Some y.
Proof.
  induction a as [|a0 a IH]; intros [|b0 b] x y; cbn; try contradiction.
  intros [E|H].
  - inversion E; subst. exists 0%nat. auto.
  - apply IH in H. destruct H as [k H]. exists (S k). exact H.
Qed.

Lemma call_anames_e : forall params args k d e a,
  nth_error params k = Some (d, false) -> nth_error args k = Some e -> In a (eanames e) ->
  In a (call_anames params args).
Proof.
  induction params as [|[d0 b0] ps IH]; intros [|a0 r] [|k] d e a E1 E2 H; cbn in E1, E2; try discriminate.
  - inversion E1; inversion E2; subst. cbn [call_anames]. apply in_app_iff. now left.
  - destruct b0; cbn [call_anames].
    + destruct a0; try (eapply IH; eauto). right. eapply IH; eauto.
    + apply in_app_iff. right. eapply IH; eauto.
Qed.

Lemma call_anames_a : forall params args k d a,
  nth_error params k = Some (d, true) -> nth_error args k = Some (EVar a) -> In a (call_anames params args).
Proof.
  induction params as [|[d0 b0] ps IH]; intros [|a0 r] [|k] d a E1 E2; cbn in E1, E2; try discriminate.
  - inversion E1; inversion E2; subst. cbn [call_anames]. now left.
  - destruct b0; cbn [call_anames].
    + destruct a0; try (eapply IH; eauto). right. eapply IH; eauto.
    + apply in_app_iff. right. eapply IH; eauto.
Qed.

(** * Names accessed as arrays *)
Definition Pred (N : names) (l : loc) : Prop := match l with LA a _ => In a N | LS _ => True end.

Lemma Pred_mono N M l : (forall a, In a N -> In a M) -> Pred N l -> Pred M l.
Proof. destruct l; cbn; auto. Qed.

Section Anames.
  Variable ps : procs.

  Lemma step_anames f :
    (forall ss s s' t, exec_tr ps f ss s = Some (s', t) -> forall l, In l (fst t) \/ In l (snd t) -> Pred (anames ps ss) l) ->
    forall st s s' t, step_tr ps (exec_tr ps f) st s = Some (s', t) ->
    forall l, In l (fst t) \/ In l (snd t) -> Pred (anames_stmt ps st) l.
  Proof.
    intros IH st s s' t E l Hl.
    assert (forall e N, (forall a, In a (eanames e) -> In a N) -> In l (ereads s e) -> Pred N l) as Hrd.
    { intros e N HN A. destruct l as [x|a i]; cbn; [exact I|]. apply HN. eapply ereads_anames; eauto. }
    destruct st as [x e|a idx e|v lo hi stp body|c body|c tb eb|g args|lab]; unfold step_tr in E.
    - inv_obind E. inversion E; subst. destruct Hl as [Hl|Hl].
      + apply seqT_w in Hl. destruct Hl as [Hl|Hl]; [now apply rdT_w in Hl|]. apply wrT_w in Hl. subst. exact I.
      + apply seqT_r_weak in Hl. destruct Hl as [Hl|Hl]; [|now apply wrT_r in Hl].
        apply (proj1 (rdT_r _ _)) in Hl. eapply Hrd; [|exact Hl]. cbn [anames_stmt]. auto.
    - inv_obind E. inversion E; subst. cbn [anames_stmt]. destruct Hl as [Hl|Hl].
      + apply seqT_w in Hl. destruct Hl as [Hl|Hl]; [now apply rdT_w in Hl|]. apply wrT_w in Hl. subst. cbn. now left.
      + apply seqT_r_weak in Hl. destruct Hl as [Hl|Hl]; [|now apply wrT_r in Hl].
        apply (proj1 (rdT_r _ _)) in Hl. destruct l as [x|b j]; cbn; [exact I|]. right. apply in_app_iff.
        apply in_app_iff in Hl. destruct Hl as [Hl|Hl].
        * left. eapply ereads_list_anames; eauto.
        * right. eapply ereads_anames; eauto.
    - inv_obind E. destruct (r1 =? 0); [discriminate|]. inv_obind E. destruct r2 as [s2 t2]. inversion E; subst.
      cbn [fst snd] in Hl. cbn [anames_stmt].
      assert (In l (ereads s lo ++ ereads s hi ++ step_reads s stp) \/ (In l (fst t2) \/ In l (snd t2))) as [A|A].
      { destruct Hl as [Hl|Hl].
        - apply seqT_w in Hl. destruct Hl as [Hl|Hl]; [now apply rdT_w in Hl|auto].
        - apply seqT_r_weak in Hl. destruct Hl as [Hl|Hl]; [left; now apply (proj1 (rdT_r _ _)) in Hl|auto]. }
      + rewrite !in_app_iff in A. destruct A as [A|[A|A]].
        * eapply Hrd; [|exact A]. intros a Ha. rewrite !in_app_iff. auto.
        * eapply Hrd; [|exact A]. intros a Ha. rewrite !in_app_iff. auto.
        * destruct stp as [e|]; [|contradiction]. cbn [step_reads] in A.
          eapply Hrd; [|exact A]. intros a Ha. rewrite !in_app_iff. auto.
      + eapply Pred_mono; [|eapply (do_loop_tr_any (Pred (anames ps body))); [| |exact E3|exact A]].
        * intros a Ha. rewrite !in_app_iff. right. right. right. exact Ha.
        * intros s0 s1 t1 R l0 Hl0. eapply IH; eauto.
        * exact I.
    - inv_obind E. cbn [anames_stmt]. destruct r.
      + inv_obind E. destruct r as [s1 t1], r0 as [s2 t2]. cbn [fst snd] in *. inversion E; subst.
        assert (In l (ereads s c) \/ (In l (fst t1) \/ In l (snd t1)) \/ (In l (fst t2) \/ In l (snd t2))) as [A|[A|A]].
        { destruct Hl as [Hl|Hl].
          - apply seqT_w in Hl. destruct Hl as [Hl|Hl]; [now apply rdT_w in Hl|].
            apply seqT_w in Hl. tauto.
          - apply seqT_r_weak in Hl. destruct Hl as [Hl|Hl]; [left; now apply (proj1 (rdT_r _ _)) in Hl|].
            apply seqT_r_weak in Hl. tauto. }
        * eapply Hrd; [|exact A]. intros a Ha. apply in_app_iff. auto.
        * eapply Pred_mono; [|eapply IH; [exact E1|exact A]]. intros a Ha. apply in_app_iff. auto.
        * eapply Pred_mono; [|eapply IH; [exact E2|exact A]]. intros a Ha.
          unfold anames in Ha. cbn [flat_map anames_stmt] in Ha. now rewrite app_nil_r in Ha.
      + inversion E; subst. destruct Hl as [Hl|Hl]; [contradiction|]. apply (proj1 (rdT_r _ _)) in Hl.
        eapply Hrd; [|exact Hl]. intros a Ha. apply in_app_iff. auto.
    - inv_obind E. destruct r0 as [s1 t1]. cbn [fst snd] in *. inversion E; subst. cbn [anames_stmt].
      assert (In l (ereads s c) \/ (In l (fst t1) \/ In l (snd t1))) as [A|A].
      { destruct Hl as [Hl|Hl].
        - apply seqT_w in Hl. destruct Hl as [Hl|Hl]; [now apply rdT_w in Hl|auto].
        - apply seqT_r_weak in Hl. destruct Hl as [Hl|Hl]; [left; now apply (proj1 (rdT_r _ _)) in Hl|auto]. }
      + eapply Hrd; [|exact A]. intros a Ha. apply in_app_iff. auto.
      + eapply Pred_mono; [|eapply IH; [exact E1|exact A]]. intros a Ha. rewrite !in_app_iff.
        destruct r; auto.
    - inv_obind E. destruct r1 as [s1 tc]. cbn [fst snd] in *. inversion E; subst. cbn [anames_stmt]. rewrite E0.
      assert (In l (arg_reads s (p_params r) args) \/ exists l', In l (back (p_params r) args l')) as [A|[l' A]].
      { destruct Hl as [Hl|Hl].
        - apply seqT_w in Hl. destruct Hl as [Hl|Hl]; [now apply rdT_w in Hl|].
          unfold back_tr in Hl. cbn [fst] in Hl. apply in_flat_map in Hl. destruct Hl as [l' [_ Hl]]. eauto.
        - apply seqT_r_weak in Hl. destruct Hl as [Hl|Hl]; [left; now apply (proj1 (rdT_r _ _)) in Hl|].
          unfold back_tr in Hl. cbn [snd] in Hl. apply in_flat_map in Hl. destruct Hl as [l' [_ Hl]]. eauto. }
      + apply arg_reads_inv in A. destruct A as [k [d [e [Ep [Ea [_ A]]]]]].
        destruct l as [x|a i]; cbn; [exact I|]. eapply call_anames_e; eauto. eapply ereads_anames; eauto.
      + apply back_inv in A. destruct A as [k [d [b [x [Ep [Ea [[_ [_ ->]]|[-> [i [_ ->]]]]]]]]]]; cbn; [exact I|].
        eapply call_anames_a; eauto.
    - inversion E; subst. destruct Hl as [[]|[]].
  Qed.

  Lemma anames_sound : forall f ss s s' t,
    exec_tr ps f ss s = Some (s', t) -> forall l, In l (fst t) \/ In l (snd t) -> Pred (anames ps ss) l.
  Proof.
    induction f as [|f IH]; intros ss s s' t E l Hl; [discriminate|].
    destruct ss as [|st rest].
    - cbn in E. inversion E; subst. destruct Hl as [[]|[]].
    - apply exec_tr_cons in E. destruct E as [g [s1 [t1 [t2 [Eg [E1 [E2 ->]]]]]]]. inversion Eg; subst g.
      assert ((In l (fst t1) \/ In l (snd t1)) \/ (In l (fst t2) \/ In l (snd t2))) as [A|A].
      { destruct Hl as [Hl|Hl]; [apply seqT_w in Hl|apply seqT_r_weak in Hl]; tauto. }
      + eapply Pred_mono; [|eapply (step_anames f IH); [exact E1|exact A]].
        intros a Ha. unfold anames. cbn [flat_map]. apply in_app_iff. now left.
      + eapply Pred_mono; [|eapply IH; [exact E2|exact A]].
        intros a Ha. unfold anames. cbn [flat_map]. apply in_app_iff. now right.
  Qed.
End Anames.

(** * Must-defines and [uses] *)
Lemma definite_cons mw ps sg x r :
  definite mw ps sg (x :: r) =
  definite_stmt mw ps sg x && definite mw ps sg r &&
  forallb (fun n => mem n (snd (du_stmt sg x)) || (mem n (mdef_stmt mw x) && negb (mem n (anames ps r))))
          (inter (uses_of sg r) (fst (du_stmt sg x))).
Proof. reflexivity. Qed.

Section Uses.
  Variables (mw : musts) (ps : procs) (sg : sigs).
  Hypothesis Hok : sigs_ok mw ps sg = true.

  Lemma step_mdef f :
    (forall ss s s' t, exec_tr ps f ss s = Some (s', t) -> forall x, In x (mdef mw ss) -> In (LS x) (fst t)) ->
    forall st s s' t, step_tr ps (exec_tr ps f) st s = Some (s', t) ->
    forall x, In x (mdef_stmt mw st) -> In (LS x) (fst t).
  Proof.
    intros IH st s s' t E x Hx.
    destruct st as [y e|a idx e|v lo hi stp body|c body|c tb eb|g args|lab]; cbn [mdef_stmt] in Hx; try contradiction;
      unfold step_tr in E.
    - inv_obind E. inversion E; subst. destruct Hx as [->|[]]. apply seqT_w. right. now apply wrT_w.
    - inv_obind E. destruct r0 as [s1 t1]. cbn [fst snd] in *. inversion E; subst.
      apply In_inter in Hx. destruct Hx as [H1 H2]. apply seqT_w. right.
      destruct r; eapply IH; eauto.
    - inv_obind E. destruct r1 as [s1 tc]. cbn [fst snd] in *. inversion E; subst.
      destruct (find_must mw g) as [fl|] eqn:Em; [|contradiction].
      apply in_flat_map in Hx. destruct Hx as [[b a] [Hc Hx]].
      destruct b; [|contradiction]. destruct a; try contradiction. destruct Hx as [->|[]].
      apply In_combine_nth in Hc. destruct Hc as [k [Ef Ea]].
      pose proof (find_proc_ok _ _ _ _ _ Hok E0) as Hp.
      destruct (nth_error_len args (p_params r) k _ (eq_sym (copy_in_len _ _ _ _ _ E1)) Ea) as [[d isarr] Ep].
      destruct (proc_ok_must _ _ _ _ _ _ Hp Em k d isarr Ef Ep) as [-> Hd].
      apply seqT_w. right. unfold back_tr. cbn [fst]. apply in_flat_map. exists (LS d). split.
      + eapply IH; eauto.
      + eapply back_intro_s; eauto.
  Qed.

  Lemma mdef_sound : forall f ss s s' t,
    exec_tr ps f ss s = Some (s', t) -> forall x, In x (mdef mw ss) -> In (LS x) (fst t).
  Proof.
    induction f as [|f IH]; intros ss s s' t E x Hx; [discriminate|].
    destruct ss as [|st rest]; [contradiction|].
    apply exec_tr_cons in E. destruct E as [g [s1 [t1 [t2 [Eg [E1 [E2 ->]]]]]]]. inversion Eg; subst g.
    unfold mdef in Hx. cbn [flat_map] in Hx. apply in_app_iff in Hx. apply seqT_w.
    destruct Hx as [Hx|Hx]; [left; eapply (step_mdef f IH); eauto|right; eapply IH; eauto].
  Qed.

  Lemma in_inv_vals (its : list intent) (args : list expr) k it (e : expr) :
    nth_error its k = Some it -> nth_error args k = Some e -> is_in it = true ->
    In e (map snd (filter (fun p => is_in (fst p)) (combine its args))).
  Proof.
    intros E1 E2 Hi. apply in_map_iff. exists (it, e). split; [reflexivity|].
    apply filter_In. split; [|exact Hi]. eapply nth_error_In. apply nth_combine; eauto.
  Qed.

  Lemma evars_in_uses_none args n :
    In n (flat_map evars args) -> In n (snd (call_du None args)).
  Proof.
    intros H. cbn [call_du snd]. apply in_app_iff.
    destruct (mem n (flat_map subs_sc args)) eqn:E.
    - right. apply mem_In in E. apply in_flat_map in E. destruct E as [e [He Hn]].
      apply in_flat_map. exists e. split; [exact He|]. now apply subs_sc_sub.
    - left. apply In_diff. split; [exact H|]. now apply mem_false.
  Qed.

  Lemma step_use f :
    (forall ss s s' t, exec_tr ps f ss s = Some (s', t) -> definite mw ps sg ss = true ->
                       forall l, In l (snd t) -> In (lname l) (Ub sg ss)) ->
    forall st s s' t, step_tr ps (exec_tr ps f) st s = Some (s', t) -> definite_stmt mw ps sg st = true ->
    forall l, In l (snd t) -> In (lname l) (snd (du_stmt sg st)).
  Proof.
    intros IH st s s' t E Hd l Hl.
    destruct st as [x e|a idx e|v lo hi stp body|c body|c tb eb|g args|lab]; unfold step_tr in E.
    - inv_obind E. inversion E; subst. apply seqT_r_weak in Hl. destruct Hl as [Hl|Hl]; [|now apply wrT_r in Hl].
      apply (proj1 (rdT_r _ _)) in Hl. cbn [du_stmt snd]. now apply ereads_evars in Hl.
    - inv_obind E. inversion E; subst. apply seqT_r_weak in Hl. destruct Hl as [Hl|Hl]; [|now apply wrT_r in Hl].
      apply (proj1 (rdT_r _ _)) in Hl. cbn [du_stmt snd]. apply in_app_iff. apply in_app_iff in Hl. destruct Hl as [Hl|Hl].
      + left. now apply ereads_list_evars in Hl.
      + right. now apply ereads_evars in Hl.
    - inv_obind E. destruct (r1 =? 0); [discriminate|]. inv_obind E. destruct r2 as [s2 t2]. inversion E; subst.
      cbn [definite_stmt] in Hd. rewrite !andb_true_iff, !negb_true_iff, !mem_false in Hd.
      destruct Hd as [[Hvb Hva] Hdb]. fold (definite mw ps sg body) in Hdb.
      apply U_do. cbn [fst snd] in Hl. apply seqT_r_weak in Hl. destruct Hl as [Hl|Hl].
      + apply (proj1 (rdT_r _ _)) in Hl.
        assert (In (lname l) (bound_vars lo hi stp)) as Hb.
        { unfold bound_vars. rewrite !in_app_iff in Hl. rewrite !in_app_iff. destruct Hl as [Hl|[Hl|Hl]].
          - left. now apply ereads_evars in Hl.
          - right. left. now apply ereads_evars in Hl.
          - right. right. destruct stp as [e|]; [|contradiction]. now apply ereads_evars in Hl. }
        split; [now left|]. intros Ev. apply Hvb. now rewrite <- Ev.
      + destruct (do_loop_tr_r (fun l => In (lname l) (Ub sg body)) _ v r1
                    (fun s0 s1 t1 R l0 Hl0 => IH _ _ _ _ R Hdb l0 Hl0) _ _ _ _ _ E3 l Hl) as [HU Hne].
        split; [now right|]. intros Ev.
        pose proof (do_loop_tr_any (Pred (anames ps body)) _ v r1
                      (fun s0 s1 t1 R l0 Hl0 => anames_sound ps _ _ _ _ _ R l0 Hl0) I _ _ _ _ _ E3 l (or_intror Hl)) as HA.
        destruct l as [y|y i]; cbn [lname] in Ev; subst y; [now apply Hne|]. cbn in HA. contradiction.
    - inv_obind E. cbn [definite_stmt] in Hd. fold (definite mw ps sg body) in Hd. apply U_while. destruct r.
      + inv_obind E. destruct r as [s1 t1], r0 as [s2 t2]. cbn [fst snd] in *. inversion E; subst.
        apply seqT_r_weak in Hl. destruct Hl as [Hl|Hl]; [left; apply (proj1 (rdT_r _ _)) in Hl; now apply ereads_evars in Hl|].
        apply seqT_r_weak in Hl. destruct Hl as [Hl|Hl].
        * right. eapply IH; eauto.
        * assert (definite mw ps sg [SWhile c body] = true) as Hd'.
          { rewrite definite_cons. cbn [definite_stmt]. fold (definite mw ps sg body). rewrite Hd. reflexivity. }
          pose proof (IH _ _ _ _ E2 Hd' _ Hl) as HU. cbn [Ub] in HU. apply in_app_iff in HU.
          destruct HU as [HU|HU]; [now apply U_while in HU|]. apply In_diff in HU. destruct HU as [[] _].
      + inversion E; subst. apply (proj1 (rdT_r _ _)) in Hl. left. now apply ereads_evars in Hl.
    - inv_obind E. destruct r0 as [s1 t1]. cbn [fst snd] in *. inversion E; subst.
      cbn [definite_stmt] in Hd. apply andb_true_iff in Hd. destruct Hd as [Ht He].
      fold (definite mw ps sg tb) in Ht. fold (definite mw ps sg eb) in He.
      apply U_if. apply seqT_r_weak in Hl. destruct Hl as [Hl|Hl]; [left; apply (proj1 (rdT_r _ _)) in Hl; now apply ereads_evars in Hl|].
      right. destruct r; [left|right]; eapply IH; eauto.
    - inv_obind E. destruct r1 as [s1 tc]. cbn [fst snd] in *. inversion E; subst.
      cbn [definite_stmt] in Hd. cbn [du_stmt].
      pose proof (find_proc_ok _ _ _ _ _ Hok E0) as Hp.
      pose proof (copy_in_len _ _ _ _ _ E1) as Hlen.
      apply seqT_r_weak in Hl.
      destruct (find_sig sg g) as [its|] eqn:Es.
      + destruct (proc_ok_sig _ _ _ _ _ _ Hp Es) as [Hl1 _ Hdef _ Hnoin].
        unfold call_usafe in Hd. apply andb_true_iff in Hd. destruct Hd as [Hl2 Hf]. apply Nat.eqb_eq in Hl2.
        cbn [call_du snd]. apply in_app_iff. right. destruct Hl as [Hl|Hl].
        * apply (proj1 (rdT_r _ _)) in Hl. apply arg_reads_inv in Hl. destruct Hl as [k [d [e [Ep [Ea [Hne Hl]]]]]].
          destruct (nth_error_len args its k e (eq_sym Hl2) Ea) as [it Eit].
          pose proof (forallb_combine_nth _ _ _ k it e Hf Eit Ea) as Hi. cbn in Hi.
          assert (is_in it = true) as Hin by (destruct e; try exact Hi; exfalso; eapply Hne; reflexivity).
          apply in_flat_map. exists e. split; [eapply in_inv_vals; eauto|now apply ereads_evars in Hl].
        * unfold back_tr in Hl. cbn [snd] in Hl. apply in_flat_map in Hl. destruct Hl as [l' [Hl' Hb]].
          apply back_inv in Hb. destruct Hb as [k [d [b [x [Ep [Ea Hk]]]]]].
          assert (lname l' = d /\ lname l = x) as [Hd' Hx].
          { destruct Hk as [[_ [-> ->]]|[_ [i [-> ->]]]]; auto. }
          destruct (nth_error_len (p_params r) its k (d, b) (eq_sym Hl1) Ep) as [it Eit].
          pose proof (IH _ _ _ _ E2 Hdef _ Hl') as HU. rewrite Hd' in HU.
          destruct (is_in it) eqn:Ei.
          -- apply in_flat_map. exists (EVar x). split; [eapply in_inv_vals; eauto|]. cbn. now left.
          -- exfalso. apply (Hnoin k it d b Eit Ep Ei). now apply In_uses_of.
      + apply evars_in_uses_none. destruct Hl as [Hl|Hl].
        * apply (proj1 (rdT_r _ _)) in Hl. apply arg_reads_inv in Hl. destruct Hl as [k [d [e [Ep [Ea [Hne Hl]]]]]].
          apply in_flat_map. exists e. split; [eapply nth_error_In; eauto|now apply ereads_evars in Hl].
        * unfold back_tr in Hl. cbn [snd] in Hl. apply in_flat_map in Hl. destruct Hl as [l' [Hl' Hb]].
          apply back_inv in Hb. destruct Hb as [k [d [b [x [Ep [Ea Hk]]]]]].
          assert (lname l = x) as Hx by (destruct Hk as [[_ [_ ->]]|[_ [i [_ ->]]]]; auto).
          apply in_flat_map. exists (EVar x). split; [eapply nth_error_In; eauto|]. cbn. now left.
    - inversion E; subst. contradiction.
  Qed.

  Lemma uses_sound_aux : forall f ss s s' t,
    exec_tr ps f ss s = Some (s', t) -> definite mw ps sg ss = true ->
    forall l, In l (snd t) -> In (lname l) (Ub sg ss).
  Proof.
    induction f as [|f IH]; intros ss s s' t E Hd l Hl; [discriminate|].
    destruct ss as [|st rest].
    - cbn in E. inversion E; subst. contradiction.
    - apply exec_tr_cons in E. destruct E as [g [s1 [t1 [t2 [Eg [E1 [E2 ->]]]]]]]. inversion Eg; subst g.
      rewrite definite_cons, !andb_true_iff in Hd. destruct Hd as [[Hd1 Hd2] Hf].
      cbn [Ub]. apply in_app_iff. apply seqT_r in Hl. destruct Hl as [Hl|[Hl Hn]].
      + left. eapply (step_use f IH); eauto.
      + pose proof (IH _ _ _ _ E2 Hd2 _ Hl) as HU.
        destruct (mem (lname l) (fst (du_stmt sg st))) eqn:Em.
        * apply mem_In in Em. rewrite forallb_forall in Hf.
          assert (In (lname l) (inter (uses_of sg rest) (fst (du_stmt sg st)))) as Hi
            by (apply In_inter; split; [now apply In_uses_of|exact Em]).
          specialize (Hf _ Hi). apply orb_true_iff in Hf. destruct Hf as [Hf|Hf]; [left; now apply mem_In|].
          exfalso. apply andb_true_iff in Hf. destruct Hf as [Hm Ha].
          apply mem_In in Hm. apply negb_true_iff, mem_false in Ha.
          pose proof (step_mdef f (mdef_sound f) _ _ _ _ E1 _ Hm) as Hw.
          destruct l as [x|a i]; cbn [lname] in *.
          -- now apply Hn.
          -- apply Ha. exact (anames_sound ps _ _ _ _ _ E2 (LA a i) (or_intror Hl)).
        * right. apply In_diff. split; [exact HU|now apply mem_false].
  Qed.

  Theorem uses_sound_on_class f ss s s' t :
    exec_tr ps f ss s = Some (s', t) -> definite mw ps sg ss = true ->
    forall l, In l (snd t) -> In (lname l) (uses_of sg ss).
  Proof.
    intros E Hd l Hl. apply In_uses_of. eapply uses_sound_aux; eauto.
  Qed.
End Uses.
