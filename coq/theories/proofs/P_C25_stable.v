(** C25 — a later processing that changes nothing (re-discovery + graph rebuild, what Scheduler.process does after any
    item-creating transformation) finds exactly the same graph: the survivors are stable. *)
From Coq Require Import List Bool String Ascii Arith.
From LV Require Import models.M_C25 proofs.P_C25_graph proofs.P_C25_keys.
Import ListNotations.
Open Scope string_scope.
Open Scope list_scope.

(** * the closure only reads the dependency function *)
Lemma close_ext st1 st2 : (forall n, deps_of st1 n = deps_of st2 n) ->
  forall fuel w s e, close fuel st1 w s e = close fuel st2 w s e.
Proof.
  intros H. induction fuel as [|f IH]; intros w s e; cbn [close]; [reflexivity|].
  destruct w as [|x w]; [reflexivity|]. rewrite H. apply IH.
Qed.

Lemma deps_of_fields st1 st2 :
  st_srcs st1 = st_srcs st2 -> st_cache st1 = st_cache st2 -> st_removed st1 = st_removed st2 -> st_added st1 = st_added st2 ->
  forall n, deps_of st1 n = deps_of st2 n.
Proof. destruct st1, st2; cbn. intros -> -> -> -> n. reflexivity. Qed.

Lemma rebuild_fields_eq seed st1 st2 :
  st_srcs st1 = st_srcs st2 -> st_cache st1 = st_cache st2 -> st_removed st1 = st_removed st2 -> st_added st1 = st_added st2 ->
  match rebuild seed st1, rebuild seed st2 with
  | Some a, Some b => st_nodes a = st_nodes b /\ st_edges a = st_edges b
  | None, None => True
  | _, _ => False
  end.
Proof.
  intros E1 E2 E3 E4. unfold rebuild. rewrite E1, E2.
  rewrite (close_ext st1 st2 (deps_of_fields _ _ E1 E2 E3 E4)).
  destruct (close _ st2 seed seed []) as [[ns es] [|]]; cbn; auto.
Qed.

(** * re-discovery is idempotent *)
Definition ukey (u : topunit) : string := match u with TMod m _ => m | TFree r => "#" ++ r_name r end.
Definition uentry (i : nat) (u : topunit) : entry :=
  match u with TMod m _ => mk_entry m KMod "" m i | TFree r => mk_entry ("#" ++ r_name r) KProc "" (r_name r) i end.
Definition add_unit (i : nat) (c : list entry) (u : topunit) : list entry :=
  if has_key (ukey u) c then c else c ++ [uentry i u].

Lemma add_defs_of_eq srcs c fe : add_defs_of srcs c fe = fold_left (add_unit (e_src fe)) (src_units srcs (e_src fe)) c.
Proof.
  unfold add_defs_of. generalize (src_units srcs (e_src fe)) as us. intros us. revert c.
  induction us as [|u r IH]; intros c; cbn [fold_left]; [reflexivity|]. rewrite IH. f_equal.
  destruct u; reflexivity.
Qed.

Lemma has_key_app k c x : has_key k (c ++ x) = has_key k c || has_key k x.
Proof. unfold has_key. apply existsb_app. Qed.

Lemma add_unit_mono i c u k : has_key k c = true -> has_key k (add_unit i c u) = true.
Proof. intros H. unfold add_unit. destruct (has_key (ukey u) c); [exact H|]. rewrite has_key_app, H. reflexivity. Qed.

Lemma add_unit_has i c u : has_key (ukey u) (add_unit i c u) = true.
Proof.
  unfold add_unit. destruct (has_key (ukey u) c) eqn:E; [exact E|]. rewrite has_key_app.
  apply orb_true_iff. right. destruct u; cbn; now rewrite String.eqb_refl.
Qed.

Lemma fold_add_unit_mono i us : forall c k, has_key k c = true -> has_key k (fold_left (add_unit i) us c) = true.
Proof. induction us as [|u r IH]; intros c k H; cbn; [exact H|]. apply IH. now apply add_unit_mono. Qed.

Lemma fold_add_unit_covers i us : forall c u, In u us -> has_key (ukey u) (fold_left (add_unit i) us c) = true.
Proof.
  induction us as [|v r IH]; intros c u Hu; [destruct Hu|]. destruct Hu as [<-|H]; cbn.
  - apply fold_add_unit_mono. apply add_unit_has.
  - now apply IH.
Qed.

Lemma fold_add_unit_noop i us : forall c, (forall u, In u us -> has_key (ukey u) c = true) -> fold_left (add_unit i) us c = c.
Proof.
  induction us as [|v r IH]; intros c H; cbn; [reflexivity|].
  unfold add_unit at 2. rewrite (H v (or_introl eq_refl)). apply IH. intros u Hu. apply H. now right.
Qed.

Definition is_file (e : entry) : bool := ikind_eqb (e_kind e) KFile.

Lemma fold_add_unit_files i us : forall c, filter is_file (fold_left (add_unit i) us c) = filter is_file c.
Proof.
  induction us as [|v r IH]; intros c; cbn; [reflexivity|]. rewrite IH. unfold add_unit.
  destruct (has_key (ukey v) c); [reflexivity|]. rewrite filter_app. destruct v; cbn; apply app_nil_r.
Qed.

(** folding over the file items *)
Lemma fold_defs_mono srcs files : forall c k, has_key k c = true -> has_key k (fold_left (add_defs_of srcs) files c) = true.
Proof.
  induction files as [|f r IH]; intros c k H; cbn; [exact H|]. apply IH. rewrite add_defs_of_eq. now apply fold_add_unit_mono.
Qed.

Lemma fold_defs_covers srcs files : forall c fe u, In fe files -> In u (src_units srcs (e_src fe)) ->
  has_key (ukey u) (fold_left (add_defs_of srcs) files c) = true.
Proof.
  induction files as [|f r IH]; intros c fe u Hf Hu; [destruct Hf|]. destruct Hf as [<-|H]; cbn.
  - apply fold_defs_mono. rewrite add_defs_of_eq. now apply fold_add_unit_covers.
  - eapply IH; eauto.
Qed.

Lemma fold_defs_noop srcs files : forall c,
  (forall fe u, In fe files -> In u (src_units srcs (e_src fe)) -> has_key (ukey u) c = true) ->
  fold_left (add_defs_of srcs) files c = c.
Proof.
  induction files as [|f r IH]; intros c H; cbn; [reflexivity|].
  assert (E : add_defs_of srcs c f = c).
  { rewrite add_defs_of_eq. apply fold_add_unit_noop. intros u Hu. apply (H f u); [left; reflexivity|exact Hu]. }
  rewrite E. apply IH. intros fe u Hfe Hu. apply (H fe u); [right; exact Hfe|exact Hu].
Qed.

Lemma fold_defs_files srcs files : forall c, filter is_file (fold_left (add_defs_of srcs) files c) = filter is_file c.
Proof.
  induction files as [|f r IH]; intros c; cbn; [reflexivity|]. rewrite IH, add_defs_of_eq. apply fold_add_unit_files.
Qed.

(** the first phase: files on disk *)
Definition disk_step (a : list source * list entry) (d : source) : list source * list entry :=
  let '(srcs, cache) := a in
  if has_key (s_path d) cache then (srcs, cache)
  else (srcs ++ [d], cache ++ [mk_entry (s_path d) KFile "" (s_path d) (List.length srcs)]).

Lemma disk_step_mono a d k : has_key k (snd a) = true -> has_key k (snd (disk_step a d)) = true.
Proof.
  destruct a as [s c]. unfold disk_step. cbn [snd]. intros H. destruct (has_key (s_path d) c); cbn [snd]; [exact H|].
  rewrite has_key_app, H. reflexivity.
Qed.

Lemma disk_fold_mono l : forall a k, has_key k (snd a) = true -> has_key k (snd (fold_left disk_step l a)) = true.
Proof. induction l as [|d r IH]; intros a k H; cbn; [exact H|]. apply IH. now apply disk_step_mono. Qed.

Lemma disk_fold_covers l : forall a d, In d l -> has_key (s_path d) (snd (fold_left disk_step l a)) = true.
Proof.
  induction l as [|x r IH]; intros a d Hd; [destruct Hd|]. destruct Hd as [<-|H]; cbn.
  - apply disk_fold_mono. destruct a as [s c]. unfold disk_step. destruct (has_key (s_path x) c) eqn:E; cbn [snd]; [exact E|].
    rewrite has_key_app. apply orb_true_iff. right. cbn. now rewrite String.eqb_refl.
  - now apply IH.
Qed.

Lemma disk_fold_noop l : forall a, (forall d, In d l -> has_key (s_path d) (snd a) = true) -> fold_left disk_step l a = a.
Proof.
  induction l as [|x r IH]; intros [s c] H; cbn [fold_left]; [reflexivity|].
  cbn [snd] in H. unfold disk_step at 2. rewrite (H x (or_introl eq_refl)). apply IH. intros d Hd. apply H. now right.
Qed.

Lemma discover_unfold disk st :
  discover disk st =
  let a := fold_left disk_step disk (st_srcs st, st_cache st) in
  mk_state (fst a) (fold_left (add_defs_of (fst a)) (filter is_file (snd a)) (snd a))
           (st_nodes st) (st_edges st) (st_removed st) (st_added st).
Proof.
  unfold discover.
  match goal with |- context [fold_left ?F disk _] =>
    assert (E : forall l a, fold_left F l a = fold_left disk_step l a)
      by (induction l as [|d r IH]; intros [s c]; cbn [fold_left]; [reflexivity|]; rewrite <- IH; reflexivity)
  end.
  rewrite E. destruct (fold_left disk_step disk (st_srcs st, st_cache st)) as [srcs cache]. reflexivity.
Qed.

Theorem discover_idempotent disk st ns es :
  let d1 := discover disk st in
  discover disk (mk_state (st_srcs d1) (st_cache d1) ns es (st_removed d1) (st_added d1)) =
  mk_state (st_srcs d1) (st_cache d1) ns es (st_removed d1) (st_added d1).
Proof.
  cbn zeta. rewrite (discover_unfold disk st). cbn zeta.
  set (a := fold_left disk_step disk (st_srcs st, st_cache st)).
  set (c2 := fold_left (add_defs_of (fst a)) (filter is_file (snd a)) (snd a)).
  cbn [st_srcs st_cache st_removed st_added].
  rewrite discover_unfold. cbn [st_srcs st_cache st_nodes st_edges st_removed st_added]. cbn zeta.
  assert (E1 : fold_left disk_step disk (fst a, c2) = (fst a, c2)).
  { apply disk_fold_noop. intros d Hd. cbn [snd]. unfold c2. apply fold_defs_mono.
    unfold a. now apply disk_fold_covers. }
  rewrite E1. cbn [fst snd]. f_equal.
  assert (F : filter is_file c2 = filter is_file (snd a)) by (unfold c2; apply fold_defs_files).
  rewrite F. apply fold_defs_noop. intros fe u Hfe Hu. unfold c2. eapply fold_defs_covers; eauto.
Qed.

(** * the survivors are stable under a later, non-modifying processing *)
Definition reprocess (disk : list source) (seed : list nref) (st : state) : option state := rebuild seed (discover disk st).

Theorem later_processing_stable disk seed st o st' :
  step disk seed st o = Some st' ->
  exists st'', reprocess disk (next_seeds o st seed) st' = Some st'' /\
               st_nodes st'' = st_nodes st' /\ st_edges st'' = st_edges st' /\
               st_cache st'' = st_cache st' /\ st_srcs st'' = st_srcs st'.
Proof.
  unfold step, reprocess. intros H. destruct (transform o st) as [st1|]; [|discriminate].
  set (d1 := discover disk st1) in *.
  destruct (rebuild_fields _ _ _ H) as (S1 & C1 & R1 & A1).
  assert (Ed : discover disk st' = mk_state (st_srcs d1) (st_cache d1) (st_nodes st') (st_edges st') (st_removed d1) (st_added d1)).
  { replace st' with (mk_state (st_srcs d1) (st_cache d1) (st_nodes st') (st_edges st') (st_removed d1) (st_added d1))
      by (destruct st'; cbn in *; now subst).
    apply discover_idempotent. }
  pose proof (rebuild_fields_eq (next_seeds o st seed) (discover disk st') d1) as Hr.
  rewrite Ed in Hr. cbn [st_srcs st_cache st_removed st_added] in Hr.
  specialize (Hr eq_refl eq_refl eq_refl eq_refl). rewrite H in Hr. rewrite Ed.
  destruct (rebuild (next_seeds o st seed) (mk_state (st_srcs d1) (st_cache d1) (st_nodes st') (st_edges st') (st_removed d1) (st_added d1))) as [st''|] eqn:R;
    [|contradiction].
  exists st''. destruct Hr as [N E]. split; [reflexivity|]. split; [exact N|]. split; [exact E|].
  destruct (rebuild_fields _ _ _ R) as (S2 & C2 & _ & _). cbn in S2, C2. split; congruence.
Qed.
