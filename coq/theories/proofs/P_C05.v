(** C05 — pass-level and source-level results about the sanitiser model, round trips, witnesses. *)
From Coq Require Import String Ascii List Bool Arith NArith ZArith Lia.
From LV Require Import Base.Strings models.M_C05 proofs.P_C05_base proofs.P_C05_rules.
Import ListNotations.
Open Scope string_scope.

Definition nl : string := String NL "".

(** * passes *)
(** [b] is obtained from [a] line by line (lines as cut by str.splitlines), each line related by [R] *)
Definition linewise (R : string -> string -> Prop) (a b : string) : Prop :=
  exists ls', Forall2 R (splitlines a) ls' /\ b = sconcat ls'.

Lemma pass_fst f src : fst (pass f src) = sconcat (map (fun l => fst (f l)) (splitlines src)).
Proof. unfold pass. cbn [fst]. now rewrite map_map. Qed.

Lemma pass_linewise (R : string -> string -> Prop) f :
  (forall l, R l (fst (f l))) -> forall src, linewise R src (fst (pass f src)).
Proof.
  intros H src. exists (map (fun l => fst (f l)) (splitlines src)). split; [|apply pass_fst].
  induction (splitlines src) as [|l ls IH]; cbn; constructor; auto.
Qed.

Lemma pass_id_lines f ls i :
  (forall l, In l ls -> f l = (l, [])) ->
  sconcat (map fst (map f ls)) = sconcat ls /\ collect i (map snd (map f ls)) = [].
Proof.
  revert i. induction ls as [|l ls IH]; intros i H; cbn; [split; reflexivity|].
  rewrite (H l (or_introl eq_refl)). cbn.
  destruct (IH (i + 1)%Z (fun x Hx => H x (or_intror Hx))) as [E1 E2]. now rewrite E1, E2.
Qed.

Lemma pass_id f src : (forall l, In l (splitlines src) -> f l = (l, [])) -> pass f src = (src, []).
Proof.
  intro H. unfold pass. destruct (pass_id_lines f (splitlines src) 1%Z H) as [E1 E2].
  now rewrite E1, E2, sconcat_splitlines.
Qed.

Lemma run_rules_id rs src :
  (forall f, In f rs -> pass f src = (src, [])) -> run_rules rs src = (src, map (fun _ => []) rs).
Proof.
  induction rs as [|f rs IH]; intro H; cbn [run_rules map]; [reflexivity|].
  rewrite (H f (or_introl eq_refl)). rewrite IH; [reflexivity|]. intros g Hg. apply H. now right.
Qed.

(** * identity on trigger-free text *)
Lemma no_trigger_sharp_lines src l :
  no_trigger_sharp src = true -> In l (splitlines src) -> no_trigger_sharp l = true.
Proof.
  unfold no_trigger_sharp, macro_toks. cbn [forallb].
  rewrite !andb_true_iff, !negb_true_iff.
  intros [[[[[H1 [H2 [H3 [H4 [H5 _]]]]] H6] H7] H8] H9] Hin.
  rewrite <- (sconcat_splitlines src) in H1, H2, H3, H4, H5, H6, H7, H8, H9.
  repeat split; try reflexivity;
    first [ eapply contains_sconcat; eassumption | eapply contains_ci_sconcat; eassumption ].
Qed.

Lemma rules_id_line l : no_trigger_sharp l = true -> forall f, In f rules -> f l = (l, []).
Proof.
  unfold no_trigger_sharp, macro_toks. cbn [forallb].
  rewrite !andb_true_iff, !negb_true_iff.
  intros [[[[[H1 [H2 [H3 [H4 [H5 _]]]]] H6] H7] H8] H9] f Hf.
  cbn in Hf. destruct Hf as [<-|[<-|[<-|[<-|[<-|[<-|[]]]]]]].
  - now apply f_ibm_id.
  - apply f_strpp_id. intros t Ht. cbn in Ht. destruct Ht as [<-|[<-|[<-|[<-|[]]]]]; assumption.
  - now apply f_line_id.
  - now apply f_conv_id.
  - now apply f_nu_id.
  - now apply f_fypp_id.
Qed.

Theorem no_trigger_sharp_identity src :
  no_trigger_sharp src = true -> sanitize src = (src, [[]; []; []; []; []; []]).
Proof.
  intro H. unfold sanitize. rewrite run_rules_id; [reflexivity|].
  intros f Hf. apply pass_id. intros l Hl. apply rules_id_line; [|exact Hf].
  now apply (no_trigger_sharp_lines src).
Qed.

Lemma no_trigger_sharpens s : no_trigger s = true -> no_trigger_sharp s = true.
Proof.
  unfold no_trigger, no_trigger_sharp, trigger_kws, macro_toks. cbn [forallb].
  rewrite !andb_true_iff, !negb_true_iff.
  intros [H1 [H2 [H3 [H4 [H5 [H6 [H7 [H8 [H9 _]]]]]]]]].
  repeat split; try assumption.
  - exact (contains_ci_false_cs "@PROCESS" s H1).
  - exact (contains_ci_false_cs "__FILE__" s H2).
  - exact (contains_ci_false_cs "__FILENAME__" s H3).
  - exact (contains_ci_false_cs "__DATE__" s H4).
  - exact (contains_ci_false_cs "__VERSION__" s H5).
  - exact (contains_ci_false_cs "__LINE__" s H6).
  - exact (contains_ci_false_cs "ypp""" s H9).
Qed.

Theorem no_trigger_identity src :
  no_trigger src = true -> sanitize src = (src, [[]; []; []; []; []; []]).
Proof. intro H. apply no_trigger_sharp_identity. now apply no_trigger_sharpens. Qed.

(** lines without trigger text are left alone by every rule even when other lines of the source match *)
Theorem untriggered_lines_untouched f src :
  In f rules -> linewise (fun l l' => no_trigger l = true -> l' = l) src (fst (pass f src)).
Proof.
  intro Hf. apply pass_linewise. intros l Hl.
  rewrite (rules_id_line l (no_trigger_sharpens _ Hl) f Hf). reflexivity.
Qed.

(** * only matched spans are touched *)
Definition R_strpp := seg_rel R_macro.
Definition R_line := seg_rel R_lineno.

Theorem sanitize_only_touches_matches src :
  exists s1 s2 s3 s4 s5,
    linewise R_ibm src s1 /\ linewise R_strpp s1 s2 /\ linewise R_line s2 s3 /\
    linewise R_conv s3 s4 /\ linewise R_nu s4 s5 /\ linewise R_fypp s5 (fst (sanitize src)).
Proof.
  unfold sanitize, rules. cbn [run_rules].
  destruct (pass f_ibm src) as [s1 i1] eqn:P1.
  destruct (pass f_strpp s1) as [s2 i2] eqn:P2.
  destruct (pass f_line s2) as [s3 i3] eqn:P3.
  destruct (pass f_conv s3) as [s4 i4] eqn:P4.
  destruct (pass f_nu s4) as [s5 i5] eqn:P5.
  destruct (pass f_fypp s5) as [s6 i6] eqn:P6.
  cbn [fst]. exists s1, s2, s3, s4, s5.
  assert (E1 : s1 = fst (pass f_ibm src)) by now rewrite P1.
  assert (E2 : s2 = fst (pass f_strpp s1)) by now rewrite P2.
  assert (E3 : s3 = fst (pass f_line s2)) by now rewrite P3.
  assert (E4 : s4 = fst (pass f_conv s3)) by now rewrite P4.
  assert (E5 : s5 = fst (pass f_nu s4)) by now rewrite P5.
  assert (E6 : s6 = fst (pass f_fypp s5)) by now rewrite P6.
  repeat split.
  - rewrite E1. apply pass_linewise. exact f_ibm_rel.
  - rewrite E2. apply pass_linewise. exact f_strpp_rel.
  - rewrite E3. apply pass_linewise. exact f_line_rel.
  - rewrite E4. apply pass_linewise. exact f_conv_rel.
  - rewrite E5. apply pass_linewise. exact f_nu_rel.
  - rewrite E6. apply pass_linewise. exact f_fypp_rel.
Qed.

(** * round trips *)
Lemma sdrop_plus n m s : sdrop (n + m) s = sdrop m (sdrop n s).
Proof.
  revert s. induction n as [|n IH]; intro s; cbn; [reflexivity|].
  destruct s; [|apply IH]. destruct m; reflexivity.
Qed.
Lemma after_first_hit p a b :
  first_occ p (a ++ p ++ b) = Some (String.length a) -> after_first p (a ++ p ++ b) = b.
Proof. intro H. unfold after_first. rewrite H, sdrop_plus, sdrop_app, sdrop_app. reflexivity. Qed.

Lemma e_conv_inj g g' : e_conv g = e_conv g' -> g = g'.
Proof. destruct g, g'. unfold e_conv. cbn. intro H. inversion H. reflexivity. Qed.
Lemma e_nu_inj g g' : e_nu g = e_nu g' -> g = g'.
Proof. destruct g, g'. unfold e_nu. cbn. intro H. inversion H. reflexivity. Qed.

Lemma f_conv_recorded l l' g : f_conv l = (l', [e_conv g]) -> exists tail, conv_match l = Some (g, tail).
Proof.
  unfold f_conv. destruct (conv_match l) as [[g' tail]|]; [|discriminate].
  intro H. apply (f_equal (fun p => hd (EP "" "") (snd p))) in H. cbn [snd hd] in H.
  apply e_conv_inj in H. subst. now exists tail.
Qed.
Lemma f_nu_recorded l l' g : f_nu l = (l', [e_nu g]) -> exists tail, nu_match l = Some (g, tail).
Proof.
  unfold f_nu. destruct (nu_match l) as [[g' tail]|]; [|discriminate].
  intro H. apply (f_equal (fun p => hd (EP "" "") (snd p))) in H. cbn [snd hd] in H.
  apply e_nu_inj in H. subst. now exists tail.
Qed.

(** the text rebuilt from the recorded groups is the original line without its final newline, byte for byte;
    for a statement continued with "&" the remaining lines of the statement's source string are appended, right-stripped *)
Theorem convert_roundtrip l l' g :
  f_conv l = (l', [e_conv g]) ->
  exists tail, (tail = "" \/ tail = nl) /\
    (ends_amp (cg_post g) = false -> forall s, reinsert_convert g s ++ tail = l) /\
    (ends_amp (cg_post g) = true -> forall a b,
       first_occ (cg_post g) (a ++ cg_post g ++ b) = Some (String.length a) ->
       exists first, first ++ tail = l /\ reinsert_convert g (a ++ cg_post g ++ b) = first ++ rstrip b).
Proof.
  intro H. destruct (f_conv_recorded _ _ _ H) as [tail M]. exists tail.
  apply conv_match_app in M. destruct M as [E [Ht _]]. split; [exact Ht|]. split.
  - intros Ha s. unfold reinsert_convert, cont. rewrite Ha, E. norm. rewrite ?sapp_nil_r. reflexivity.
  - intros Ha a b Hf. exists (cg_ws g ++ cg_pre g ++ cg_convert g ++ cg_post g). split; [rewrite E; now norm|].
    unfold reinsert_convert, cont. rewrite Ha, (after_first_hit _ _ _ Hf). now norm.
Qed.

Theorem newunit_roundtrip l l' g :
  f_nu l = (l', [e_nu g]) ->
  exists tail, (tail = "" \/ tail = nl) /\
    (ends_amp (ng_args2 g) = false -> forall s, reinsert_newunit g s ++ tail = l) /\
    (ends_amp (ng_args2 g) = true -> forall a b,
       first_occ (ng_args2 g) (a ++ ng_args2 g ++ b) = Some (String.length a) ->
       exists first, first ++ tail = l /\ reinsert_newunit g (a ++ ng_args2 g ++ b) = first ++ rstrip b).
Proof.
  intro H. destruct (f_nu_recorded _ _ _ H) as [tail M]. exists tail.
  apply nu_match_app in M. destruct M as [E [Ht _]]. split; [exact Ht|]. split.
  - intros Ha s. unfold reinsert_newunit, cont. rewrite Ha, E. norm. rewrite ?sapp_nil_r. reflexivity.
  - intros Ha a b Hf.
    exists (ng_ws g ++ ng_open g ++ ng_args1 g ++ ostr (ng_delim g) ++ ng_key g ++ ng_val g ++ ng_args2 g).
    split; [rewrite E; now norm|].
    unfold reinsert_newunit, cont. rewrite Ha, (after_first_hit _ _ _ Hf). now norm.
Qed.

(** what the statement ends up with after both callbacks, on the class "only one of the two rules matched the line" *)
Theorem restored_convert_only l g tail s :
  conv_match l = Some (g, tail) -> nu_match (fst (f_conv l)) = None -> ends_amp (cg_post g) = false ->
  exists text, restored_text l s = Some text /\ text ++ tail = l.
Proof.
  intros M N Ha. unfold restored_text. rewrite M, N. cbn [option_map fst final_text].
  exists (reinsert_convert g s). split; [reflexivity|].
  apply conv_match_app in M. destruct M as [E _].
  unfold reinsert_convert, cont. rewrite Ha, E. norm. rewrite ?sapp_nil_r. reflexivity.
Qed.
Theorem restored_newunit_only l g tail s :
  conv_match l = None -> nu_match l = Some (g, tail) -> ends_amp (ng_args2 g) = false ->
  exists text, restored_text l s = Some text /\ text ++ tail = l.
Proof.
  intros M N Ha. unfold restored_text, f_conv. rewrite M. cbn [fst]. rewrite N. cbn [option_map fst final_text].
  exists (reinsert_newunit g s). split; [reflexivity|].
  apply nu_match_app in N. destruct N as [E _].
  unfold reinsert_newunit, cont. rewrite Ha, E. norm. rewrite ?sapp_nil_r. reflexivity.
Qed.
Theorem restored_none l s : conv_match l = None -> nu_match l = None -> restored_text l s = None.
Proof. intros M N. unfold restored_text, f_conv. rewrite M. cbn [fst]. now rewrite N. Qed.

(** * witnesses: what the unconditional property would need, refuted on the model (each reproduced on the real code) *)
(** F14: macro tokens inside string literals, comments and longer identifiers are rewritten; nothing is recorded for
    the two re-inserting rules (entries 4 and 5 of pp_info stay empty), so nothing restores them *)
Theorem literal_rewritten_refuted :
  sanitize ("  c = '__LINE__'" ++ nl) = ("  c = '0'" ++ nl, [[]; []; [(1%Z, [EP "__LINE__" "0"])]; []; []; []]) /\
  sanitize ("  c = 'in __FILE__'" ++ nl)
    = ("  c = 'in ""__FILE__""'" ++ nl, [[]; [(1%Z, [e_else "__FILE__"])]; []; []; []; []]) /\
  sanitize ("  c = ""in __FILE__""" ++ nl)
    = ("  c = ""in ""__FILE__""""" ++ nl, [[]; [(1%Z, [e_else "__FILE__"])]; []; []; []; []]) /\
  sanitize ("  k = 1 ! see __LINE__" ++ nl) = ("  k = 1 ! see 0" ++ nl, [[]; []; [(1%Z, [EP "__LINE__" "0"])]; []; []; []]) /\
  sanitize ("  ! __DATE__ here" ++ nl)
    = ("  ! ""__DATE__"" here" ++ nl, [[]; [(1%Z, [e_else "__DATE__"])]; []; []; []; []]) /\
  sanitize ("  k__LINE__k = 1" ++ nl) = ("  k0k = 1" ++ nl, [[]; []; [(1%Z, [EP "__LINE__" "0"])]; []; []; []]) /\
  sanitize ("  c = 'the @PROCESS x'" ++ nl) = ("  c = 'the " ++ nl, [[(1%Z, [EG []])]; []; []; []; []; []]) /\
  sanitize ("  k = 1 ! @PROCESS x" ++ nl) = ("  k = 1 ! " ++ nl, [[(1%Z, [EG []])]; []; []; []; []; []]).
Proof. repeat split; vm_compute; reflexivity. Qed.

(** a line matched by both OPEN rules: the second callback rebuilds the text from what rule 5 saw, i.e. without CONVERT= *)
Theorem both_specifiers_convert_lost_refuted :
  let l := "  open(newunit=u, file=f, convert='big_endian')" in
  fst (sanitize (l ++ nl)) = "  open(u, file=f)" ++ nl /\
  restored_text l "  open(u, file=f)" = Some "  open(newunit=u, file=f)".
Proof. split; vm_compute; reflexivity. Qed.

(** the value of NEWUNIT= ends at the first ")" : a subscripted unit variable is cut in two *)
Theorem newunit_value_cut_refuted :
  fst (f_nu "  open(file=f, newunit=arr(2))") = "  open(arr(2,file=f))".
Proof. vm_compute. reflexivity. Qed.

(** trigger text inside a string literal of an OPEN statement is moved out of the literal *)
Theorem open_literal_rewritten_refuted :
  fst (f_nu "  open(unit=u, file='a,newunit=b,c')") = "  open(b,unit=u, file='a,c')".
Proof. vm_compute. reflexivity. Qed.

(** a CONVERT= specifier that ends its line swallows the line break (two source lines become one) *)
Theorem convert_eats_newline_refuted :
  fst (sanitize ("open(1, convert='big_endian'" ++ nl ++ "x = 1" ++ nl)) = "open(1x = 1" ++ nl.
Proof. vm_compute. reflexivity. Qed.

(** * non-vacuity *)
Example no_trigger_nontrivial :
  no_trigger ("  open(unit=10, file='x__line.dat')  ! convert = none" ++ nl ++ "  print *, ""__FILE_""" ++ nl) = true.
Proof. vm_compute. reflexivity. Qed.

Example convert_roundtrip_instance :
  let l := "  OPEN (UNIT=1, FILE='x', Convert=""Little_Endian"" , iostat=ios)" ++ nl in
  exists g, f_conv l = ("  OPEN (UNIT=1, FILE='x', iostat=ios)" ++ nl, [e_conv g]) /\ ends_amp (cg_post g) = false /\
            reinsert_convert g "" ++ nl = l.
Proof.
  exists {| cg_ws := "  "; cg_pre := "OPEN (UNIT=1, FILE='x'"; cg_convert := ", Convert=""Little_Endian"" "; cg_post := ", iostat=ios)" |}.
  split; [vm_compute; reflexivity|]. split; vm_compute; reflexivity.
Qed.

Example newunit_roundtrip_continued :
  let l := "  open(file=f, newunit=u, &" ++ nl in
  let stmt := "  open(u,file=f, &" ++ nl ++ "     & iostat=k)" in
  exists g, f_nu l = ("  open(u,file=f, &" ++ nl, [e_nu g]) /\ ends_amp (ng_args2 g) = true /\
            first_occ (ng_args2 g) stmt = Some 15 /\
            reinsert_newunit g stmt = "  open(file=f, newunit=u, &" ++ nl ++ "     & iostat=k)".
Proof.
  exists {| ng_ws := "  "; ng_open := "open("; ng_args1 := "file=f"; ng_delim := Some ","; ng_key := " newunit=";
            ng_val := "u"; ng_args2 := ", &" |}.
  split; [vm_compute; reflexivity|]. repeat split; vm_compute; reflexivity.
Qed.
