(** C29 — proofs, part 4: witnesses of the defects, idempotence, start_depth = 0 link, shadowing,
    and the (validated) theorem about merging. *)
From Coq Require Import ZArith List Bool String Lia.
From LV Require Import Base.Expr Base.MiniF Base.MiniFFacts models.M_C29 proofs.P_C29 proofs.P_C29_fwd proofs.P_C29_bwd.
Import ListNotations.
Open Scope Z_scope.
Open Scope string_scope.

(** * Structural equality decides equality (needed to use [stmts_eqb] as a hypothesis) *)

Lemma list_expr_eqb_eq cs :
  Forall (fun x => forall y, expr_eqb x y = true -> x = y) cs ->
  forall ds, list_expr_eqb cs ds = true -> cs = ds.
Proof.
  induction 1 as [|x r Hx Hr IH]; intros [|y q]; cbn; try discriminate; [reflexivity|].
  intros H. apply andb_true_iff in H. destruct H as [A B]. f_equal; [now apply Hx|now apply IH].
Qed.

Lemma bool_eqb_eq a b : Bool.eqb a b = true -> a = b.
Proof. destruct a, b; cbn; congruence. Qed.

Lemma expr_eqb_eq : forall a b, expr_eqb a b = true -> a = b.
Proof.
  induction a using expr_ind'; intros y; destruct y; try (cbn; discriminate).
  - cbn. intros E. apply Z.eqb_eq in E. now subst.
  - cbn. intros E. apply Z.eqb_eq in E. now subst.
  - cbn. intros E. apply String.eqb_eq in E. now subst.
  - cbn. intros E. apply bool_eqb_eq in E. now subst.
  - intros E. change (Bool.eqb p paren && list_expr_eqb cs cs0 = true) in E.
    apply andb_true_iff in E. destruct E as [A B]. apply bool_eqb_eq in A.
    apply (list_expr_eqb_eq cs H) in B. now subst.
  - intros E. change (Bool.eqb p paren && list_expr_eqb cs cs0 = true) in E.
    apply andb_true_iff in E. destruct E as [A B]. apply bool_eqb_eq in A.
    apply (list_expr_eqb_eq cs H) in B. now subst.
  - cbn. intros E. apply andb_true_iff in E. destruct E as [E C]. apply andb_true_iff in E. destruct E as [A B].
    apply bool_eqb_eq in A. apply IHa1 in B. apply IHa2 in C. now subst.
  - cbn. intros E. apply andb_true_iff in E. destruct E as [E C]. apply andb_true_iff in E. destruct E as [A B].
    apply bool_eqb_eq in A. apply IHa1 in B. apply IHa2 in C. now subst.
  - cbn. intros E. apply andb_true_iff in E. destruct E as [E C]. apply andb_true_iff in E. destruct E as [A B].
    apply IHa1 in B. apply IHa2 in C. subst. destruct op, op0; try discriminate; reflexivity.
  - intros E. change (list_expr_eqb cs cs0 = true) in E. apply (list_expr_eqb_eq cs H) in E. now subst.
  - intros E. change (list_expr_eqb cs cs0 = true) in E. apply (list_expr_eqb_eq cs H) in E. now subst.
  - cbn. intros E. apply IHa in E. now subst.
  - intros E. change (String.eqb f f0 && list_expr_eqb args args0 = true) in E.
    apply andb_true_iff in E. destruct E as [A B]. apply String.eqb_eq in A.
    apply (list_expr_eqb_eq args H) in B. now subst.
Qed.

Lemma list_expr_eqb_eq' cs ds : list_expr_eqb cs ds = true -> cs = ds.
Proof. apply list_expr_eqb_eq. apply Forall_forall. intros x _. apply expr_eqb_eq. Qed.

Lemma oexpr_eqb_eq a b : oexpr_eqb a b = true -> a = b.
Proof. destruct a, b; cbn; try discriminate; [|reflexivity]. intros E. apply expr_eqb_eq in E. now subst. Qed.

Lemma stmts_eqb_eq_aux cs :
  Forall (fun x => forall y, stmt_eqb x y = true -> x = y) cs ->
  forall ds, stmts_eqb cs ds = true -> cs = ds.
Proof.
  induction 1 as [|x r Hx Hr IH]; intros [|y q]; cbn; try discriminate; [reflexivity|].
  intros H. apply andb_true_iff in H. destruct H as [A B]. f_equal; [now apply Hx|now apply IH].
Qed.

Lemma stmt_eqb_eq : forall a b, stmt_eqb a b = true -> a = b.
Proof.
  induction a using stmt_ind'; intros y; destruct y; try (cbn; discriminate).
  - cbn. intros E. apply andb_true_iff in E. destruct E as [A B].
    apply String.eqb_eq in A. apply expr_eqb_eq in B. now subst.
  - cbn. intros E. apply andb_true_iff in E. destruct E as [E C]. apply andb_true_iff in E. destruct E as [A B].
    apply String.eqb_eq in A. apply list_expr_eqb_eq' in B. apply expr_eqb_eq in C. now subst.
  - intros E.
    change (String.eqb v v0 && expr_eqb lo lo0 && expr_eqb hi hi0 && oexpr_eqb st st0 && stmts_eqb b body = true) in E.
    apply andb_true_iff in E. destruct E as [E E5]. apply andb_true_iff in E. destruct E as [E E4].
    apply andb_true_iff in E. destruct E as [E E3]. apply andb_true_iff in E. destruct E as [E1 E2].
    apply String.eqb_eq in E1. apply expr_eqb_eq in E2. apply expr_eqb_eq in E3. apply oexpr_eqb_eq in E4.
    apply (stmts_eqb_eq_aux b H) in E5. now subst.
  - intros E. change (expr_eqb c c0 && stmts_eqb b body = true) in E.
    apply andb_true_iff in E. destruct E as [E1 E2]. apply expr_eqb_eq in E1. apply (stmts_eqb_eq_aux b H) in E2. now subst.
  - intros E. change (expr_eqb c c0 && stmts_eqb t tb && stmts_eqb e eb = true) in E.
    apply andb_true_iff in E. destruct E as [E E3]. apply andb_true_iff in E. destruct E as [E1 E2].
    apply expr_eqb_eq in E1. apply (stmts_eqb_eq_aux t H) in E2. apply (stmts_eqb_eq_aux e H0) in E3. now subst.
  - cbn. intros E. apply andb_true_iff in E. destruct E as [A B].
    apply String.eqb_eq in A. apply list_expr_eqb_eq' in B. now subst.
  - cbn. intros E. apply String.eqb_eq in E. now subst.
Qed.

Lemma stmts_eqb_eq p q : stmts_eqb p q = true -> p = q.
Proof. apply stmts_eqb_eq_aux. apply Forall_forall. intros x _. apply stmt_eqb_eq. Qed.

(** * Witnesses: where the code changes behaviour *)

Definition run_src (ss : list astmt) (s : store) : store :=
  match aexec 30 [] ss s with Some s' => s' | None => s end.
Definition run_tgt (p : list stmt) (s : store) : store :=
  match exec [] 30 p s with Some s' => s' | None => s end.

Lemma run_src_ok ss s : is_some (aexec 30 [] ss s) = true -> aruns [] ss s (run_src ss s).
Proof. unfold run_src. destruct (aexec 30 [] ss s) eqn:E; [intros _; now exists 30%nat|discriminate]. Qed.
Lemma run_tgt_ok p s : is_some (exec [] 30 p s) = true -> runs [] p s (run_tgt p s).
Proof. unfold run_tgt. destruct (exec [] 30 p s) eqn:E; [intros _; now exists 30%nat|discriminate]. Qed.

(** F17: [associate(s => a + b); a = 10; y = s] *)
Definition w_f17 : list astmt :=
  [AAssoc [("s", SVal (ESum false [EVar "a"; EVar "b"]))] [AAssign "a" (EInt 10); AAssign "y" (EVar "s")]].
Definition s_f17 : store := init_store [("a", 1); ("b", 2)] [].

Theorem resolve_expr_selector_refuted :
  exists ss s s1 s2, valid ss = true /\ aruns [] ss s s1 /\ runs [] (resolve ss) s s2 /\ sv s1 "y" <> sv s2 "y".
Proof.
  exists w_f17, s_f17, (run_src w_f17 s_f17), (run_tgt (resolve w_f17) s_f17).
  split; [vm_compute; reflexivity|]. split; [apply run_src_ok; vm_compute; reflexivity|].
  split; [apply run_tgt_ok; vm_compute; reflexivity|]. vm_compute. discriminate.
Qed.

Example f17_outside_class : selectors_stable w_f17 = false.
Proof. vm_compute. reflexivity. Qed.

(** the same with a variable selector whose subscript changes: [associate(x => arr(k)); k = 2; x = 5] *)
Definition w_f17b : list astmt :=
  [AAssoc [("x", SSec "arr" [DFix (EVar "k")])] [AAssign "k" (EInt 2); AAssign "x" (EInt 5)]].
Definition s_f17b : store := init_store [("k", 1)] [].

Theorem resolve_subscript_refuted :
  exists ss s s1 s2, valid ss = true /\ aruns [] ss s s1 /\ runs [] (resolve ss) s s2 /\ av s1 "arr" [1] <> av s2 "arr" [1].
Proof.
  exists w_f17b, s_f17b, (run_src w_f17b s_f17b), (run_tgt (resolve w_f17b) s_f17b).
  split; [vm_compute; reflexivity|]. split; [apply run_src_ok; vm_compute; reflexivity|].
  split; [apply run_tgt_ok; vm_compute; reflexivity|]. vm_compute. discriminate.
Qed.

(** bound shift of a section: [associate(q => arr(2:4)); q(1) = 7] becomes [arr(1) = 7] *)
Definition w_shift : list astmt := [AAssoc [("q", SSec "arr" [DFree 1])] [AStore "q" [EInt 1] (EInt 7)]].

Theorem resolve_bounds_shift_refuted :
  exists ss s s1 s2, valid ss = true /\ aruns [] ss s s1 /\ runs [] (resolve ss) s s2 /\ av s1 "arr" [2] <> av s2 "arr" [2].
Proof.
  exists w_shift, empty_store, (run_src w_shift empty_store), (run_tgt (resolve w_shift) empty_store).
  split; [vm_compute; reflexivity|]. split; [apply run_src_ok; vm_compute; reflexivity|].
  split; [apply run_tgt_ok; vm_compute; reflexivity|]. vm_compute. discriminate.
Qed.

(** merging: [associate(p => b); k = 2; associate(x => arr(k)); x = 5] -- the inner association is moved
    in front of [k = 2] although the code's own test (head symbol not defined by the parent) is satisfied *)
Definition w_merge : list astmt :=
  [AAssoc [("p", SName "b")]
     [AAssign "k" (EInt 2); AAssoc [("x", SSec "arr" [DFix (EVar "k")])] [AAssign "x" (EInt 5)]]].

Theorem merge_refuted :
  exists ss m s s1 s2, merge_list ss = Some m /\ selectors_stable ss = true /\
    aruns [] ss s s1 /\ aruns [] m s s2 /\ av s1 "arr" [2] <> av s2 "arr" [2].
Proof.
  exists w_merge, (merge w_merge), s_f17b, (run_src w_merge s_f17b), (run_src (merge w_merge) s_f17b).
  split; [vm_compute; reflexivity|]. split; [vm_compute; reflexivity|].
  split; [apply run_src_ok; vm_compute; reflexivity|].
  split; [apply run_src_ok; vm_compute; reflexivity|]. vm_compute. discriminate.
Qed.

(** * Merging, validated form *)

Theorem merge_preserves_on_class ss : merge_ok ss = true ->
  forall s s', aruns [] ss s s' <-> aruns [] (merge ss) s s'.
Proof.
  unfold merge_ok. intros H.
  apply andb_prop in H. destruct H as [H He]. apply andb_prop in H. destruct H as [H Hs2].
  apply andb_prop in H. destruct H as [H Hc2]. apply andb_prop in H. destruct H as [Hc1 Hs1].
  apply stmts_eqb_eq in He. intros s s'.
  rewrite (resolve_preserves_iff_on_class ss Hc1 Hs1 s s').
  rewrite (resolve_preserves_iff_on_class (merge ss) Hc2 Hs2 s s'). now rewrite He.
Qed.

(** * Idempotence of full resolution *)

Lemma map_id_Forall {A} (f : A -> A) l : Forall (fun x => f x = x) l -> map f l = l.
Proof. induction 1 as [|x l H _ IH]; cbn; [reflexivity|]. now rewrite H, IH. Qed.

Lemma subst_nil : forall e, subst [] e = e.
Proof.
  induction e using expr_ind'; cbn [subst lookup]; try reflexivity;
    try (now rewrite (map_id_Forall _ _ H)); try (now rewrite IHe1, IHe2); try (now rewrite IHe).
  rewrite (map_id_Forall _ _ H). now destruct (is_intr f).
Qed.

Fixpoint is_core (st : stmt) : bool :=
  match st with
  | SAssign _ _ | SStore _ _ _ | SSkip _ => true
  | SDo _ _ _ _ b => forallb is_core b
  | SIf _ t e => forallb is_core t && forallb is_core e
  | SWhile _ _ | SCall _ _ => false
  end.

Lemma resolve_embed_list p :
  Forall (fun st => is_core st = true -> resolve_stmt [] (embed_stmt st) = [st]) p ->
  forallb is_core p = true -> resolve_list [] (embed p) = p.
Proof.
  induction 1 as [|st r H _ IH]; cbn [forallb]; intros Hc; [reflexivity|].
  apply andb_prop in Hc. destruct Hc as [H1 H2].
  unfold embed. cbn [map]. rewrite resolve_list_cons. rewrite (H H1). fold (embed r). now rewrite (IH H2).
Qed.

Lemma resolve_embed : forall st, is_core st = true -> resolve_stmt [] (embed_stmt st) = [st].
Proof.
  induction st using stmt_ind'; cbn [is_core]; intros Hc; try discriminate.
  - cbn [embed_stmt resolve_stmt]. unfold resolve_assign. cbn [lookup]. now rewrite subst_nil.
  - cbn [embed_stmt resolve_stmt]. unfold resolve_store. cbn [lookup]. rewrite subst_nil.
    rewrite (map_id_Forall (subst [])); [reflexivity|]. apply Forall_forall. intros x _. apply subst_nil.
  - cbn [embed_stmt]. rewrite resolve_do. fold (embed b). rewrite (resolve_embed_list b H Hc).
    unfold subst_name. cbn [lookup]. rewrite !subst_nil. destruct st as [e|]; cbn [option_map]; [now rewrite subst_nil|reflexivity].
  - apply andb_prop in Hc. destruct Hc as [H1 H2].
    cbn [embed_stmt]. rewrite resolve_if. fold (embed t) (embed e).
    now rewrite (resolve_embed_list t H H1), (resolve_embed_list e H0 H2), subst_nil.
  - reflexivity.
Qed.

Lemma forallb_app' {A} (f : A -> bool) l1 l2 : forallb f l1 = true -> forallb f l2 = true -> forallb f (l1 ++ l2) = true.
Proof. intros. rewrite forallb_app. now rewrite H, H0. Qed.

Lemma resolve_core_list ss :
  Forall (fun st => forall sg, forallb is_core (resolve_stmt sg st) = true) ss ->
  forall sg, forallb is_core (resolve_list sg ss) = true.
Proof.
  induction 1 as [|st r H _ IH]; intros sg; [reflexivity|].
  rewrite resolve_list_cons. apply forallb_app'; auto.
Qed.

Lemma resolve_core : forall st sg, forallb is_core (resolve_stmt sg st) = true.
Proof.
  induction st using astmt_ind'; intros sg.
  - cbn [resolve_stmt]. unfold resolve_assign.
    destruct (lookup sg x) as [[y|a ds|e']|]; try reflexivity. destruct (fille ds []); reflexivity.
  - cbn [resolve_stmt]. unfold resolve_store.
    destruct (lookup sg a) as [[y|a0 ds|e']|]; try reflexivity. destruct (fille ds (map (subst sg) i)); reflexivity.
  - rewrite resolve_do. cbn [forallb is_core]. now rewrite (resolve_core_list b H sg).
  - rewrite resolve_if. cbn [forallb is_core]. now rewrite (resolve_core_list t H sg), (resolve_core_list e H0 sg).
  - reflexivity.
  - rewrite resolve_assoc. apply (resolve_core_list b H).
Qed.

Theorem resolve_idempotent ss : resolve (embed (resolve ss)) = resolve ss.
Proof.
  unfold resolve. apply resolve_embed_list.
  - apply Forall_forall. intros st _. apply resolve_embed.
  - apply resolve_core_list. apply Forall_forall. intros st _. apply resolve_core.
Qed.

(** * start_depth = 0: the general transformer is the verified function *)

Lemma flat_map_embed (f : astmt -> list astmt) (g : astmt -> list stmt) l :
  Forall (fun st => f st = embed (g st)) l -> flat_map f l = embed (flat_map g l).
Proof.
  induction 1 as [|x r H _ IH]; cbn [flat_map]; [reflexivity|].
  unfold embed in *. rewrite map_app. now rewrite H, IH.
Qed.

Lemma core_of_embed st : match st with SAssign _ _ | SStore _ _ _ => True | _ => False end -> core_of st = embed_stmt st.
Proof. destruct st; intros H; try contradiction; reflexivity. Qed.

Lemma resolve_sd_zero_stmt : forall st d sg, resolve_sd_stmt 0 (S d) sg st = embed (resolve_stmt sg st).
Proof.
  induction st using astmt_ind'; intros d sg.
  - cbn [resolve_sd_stmt resolve_stmt embed map]. f_equal. apply core_of_embed.
    unfold resolve_assign. destruct (lookup sg x) as [[y|a ds|e']|]; try exact I. destruct (fille ds []); exact I.
  - cbn [resolve_sd_stmt resolve_stmt embed map]. f_equal. apply core_of_embed.
    unfold resolve_store. destruct (lookup sg a) as [[y|a0 ds|e']|]; try exact I. destruct (fille ds (map (subst sg) i)); exact I.
  - cbn [resolve_sd_stmt]. rewrite resolve_do. cbn [embed map embed_stmt]. do 2 f_equal.
    apply flat_map_embed. apply Forall_forall. intros x Hx. rewrite Forall_forall in H. now apply H.
  - cbn [resolve_sd_stmt]. rewrite resolve_if. cbn [embed map embed_stmt]. f_equal. f_equal.
    + apply flat_map_embed. apply Forall_forall. intros x Hx. rewrite Forall_forall in H. now apply H.
    + apply flat_map_embed. apply Forall_forall. intros x Hx. rewrite Forall_forall in H0. now apply H0.
  - reflexivity.
  - cbn [resolve_sd_stmt Nat.leb]. rewrite resolve_assoc.
    apply flat_map_embed. apply Forall_forall. intros x Hx. rewrite Forall_forall in H. now apply H.
Qed.

Theorem resolve_sd_zero ss : resolve_sd 0 ss = embed (resolve ss).
Proof.
  unfold resolve_sd, resolve, resolve_list. apply flat_map_embed.
  apply Forall_forall. intros st _. apply resolve_sd_zero_stmt.
Qed.

Corollary resolve_sd_zero_idempotent ss : resolve_sd 0 (resolve_sd 0 ss) = resolve_sd 0 ss.
Proof. now rewrite !resolve_sd_zero, resolve_idempotent. Qed.

(** * Shadowing *)

Lemma subst_ext sg1 sg2 : (forall x, lookup sg1 x = lookup sg2 x) -> forall e, subst sg1 e = subst sg2 e.
Proof.
  intros L. induction e using expr_ind'; cbn [subst]; try reflexivity;
    try (f_equal; apply map_ext_Forall; exact H); try (now rewrite IHe1, IHe2); try (now rewrite IHe).
  - now rewrite L.
  - rewrite (map_ext_Forall _ _ H), L. reflexivity.
Qed.

Lemma subst_sel_ext sg1 sg2 : (forall x, lookup sg1 x = lookup sg2 x) -> forall sl, subst_sel sg1 sl = subst_sel sg2 sl.
Proof.
  intros L [y|a ds|e]; cbn [subst_sel].
  - now rewrite L.
  - assert (E : map (subst_dim sg1) ds = map (subst_dim sg2) ds).
    { apply map_ext. intros [e|off]; cbn [subst_dim]; [|reflexivity]. now rewrite (subst_ext sg1 sg2 L). }
    now rewrite E, L.
  - now rewrite (subst_ext sg1 sg2 L).
Qed.

Lemma resolve_ext_list ss :
  Forall (fun st => forall sg1 sg2, (forall x, lookup sg1 x = lookup sg2 x) -> resolve_stmt sg1 st = resolve_stmt sg2 st) ss ->
  forall sg1 sg2, (forall x, lookup sg1 x = lookup sg2 x) -> resolve_list sg1 ss = resolve_list sg2 ss.
Proof.
  induction 1 as [|st r H _ IH]; intros sg1 sg2 L; [reflexivity|].
  rewrite !resolve_list_cons. now rewrite (H sg1 sg2 L), (IH sg1 sg2 L).
Qed.

Lemma resolve_ext : forall st sg1 sg2, (forall x, lookup sg1 x = lookup sg2 x) -> resolve_stmt sg1 st = resolve_stmt sg2 st.
Proof.
  induction st using astmt_ind'; intros sg1 sg2 L.
  - cbn [resolve_stmt]. unfold resolve_assign. now rewrite L, (subst_ext sg1 sg2 L).
  - cbn [resolve_stmt]. unfold resolve_store. rewrite L, (subst_ext sg1 sg2 L).
    now rewrite (map_ext _ _ (subst_ext sg1 sg2 L)).
  - rewrite !resolve_do. unfold subst_name. rewrite L, (subst_ext sg1 sg2 L lo), (subst_ext sg1 sg2 L hi).
    rewrite (resolve_ext_list b H sg1 sg2 L). destruct st as [e|]; cbn [option_map]; [now rewrite (subst_ext sg1 sg2 L)|reflexivity].
  - rewrite !resolve_if. now rewrite (subst_ext sg1 sg2 L), (resolve_ext_list t H sg1 sg2 L), (resolve_ext_list e H0 sg1 sg2 L).
  - reflexivity.
  - rewrite !resolve_assoc. apply (resolve_ext_list b H).
    assert (E : subst_assocs sg1 a = subst_assocs sg2 a).
    { unfold subst_assocs. apply map_ext. intros p. now rewrite (subst_sel_ext sg1 sg2 L). }
    intros x. rewrite !lookup_app, E. destruct (lookup (subst_assocs sg2 a) x); [reflexivity|apply L].
Qed.

(** inside a block that re-associates [x], the enclosing association of [x] is irrelevant *)
Theorem shadowing_inner_wins x v2 v1 sg body :
  resolve_list ((x, v2) :: (x, v1) :: sg) body = resolve_list ((x, v2) :: sg) body.
Proof.
  apply resolve_ext_list; [apply Forall_forall; intros st _; apply resolve_ext|].
  intros y. cbn [lookup]. destruct (String.eqb x y); reflexivity.
Qed.

Corollary shadowing_nested_blocks sg x s1 s2 body :
  resolve_stmt sg (AAssoc [(x, s1)] [AAssoc [(x, s2)] body]) =
  resolve_list ((x, subst_sel ((x, subst_sel sg s1) :: sg) s2) :: sg) body.
Proof.
  rewrite resolve_assoc. cbn [subst_assocs map app fst snd]. unfold resolve_list at 1. cbn [flat_map].
  rewrite app_nil_r, resolve_assoc. cbn [subst_assocs map app fst snd]. apply shadowing_inner_wins.
Qed.

(** * The hypotheses are satisfiable by non-trivial programs *)

(** nested blocks, an inner selector built from an outer associate name, shadowing of [x], an expression
    selector whose variables the body leaves alone, a section and an element of it *)
Definition ex_prog : list astmt :=
  [AAssoc [("x", SName "a"); ("w", SSec "m" [DFree 0; DFix (EVar "k")]); ("s", SVal (ESum false [EVar "n"; EInt 1]))]
     [AAssign "x" (ESum false [EVar "x"; EVar "s"]);
      ADo "i" (EInt 1) (EInt 3) None
        [AAssoc [("x", SSec "w" [DFix (EVar "i")]); ("z", SName "x")]
           [AAssign "x" (ESum false [EVar "z"; ECall "w" [EInt 1]]); AStore "w" [EInt 2] (EVar "x")]]]].

Example ex_prog_in_class : selectors_stable ex_prog = true /\ selectors_safe ex_prog = true.
Proof. split; vm_compute; reflexivity. Qed.

Example ex_prog_resolved :
  resolve ex_prog =
  [SAssign "a" (ESum false [EVar "a"; ESum false [EVar "n"; EInt 1]]);
   SDo "i" (EInt 1) (EInt 3) None
     [SStore "m" [EVar "i"; EVar "k"] (ESum false [EVar "a"; ECall "m" [EInt 1; EVar "k"]]);
      SStore "m" [EInt 2; EVar "k"] (ECall "m" [EVar "i"; EVar "k"])]].
Proof. vm_compute. reflexivity. Qed.

Definition ex_merge : list astmt :=
  [AAssoc [("p", SName "b")]
     [AAssign "p" (EInt 1);
      AAssoc [("x", SSec "arr" [DFix (EVar "k")]); ("q", SName "p")] [AAssign "x" (ESum false [EVar "q"; EInt 5])]]].

Example ex_merge_in_class : merge_ok ex_merge = true /\ astmts_eqb (merge ex_merge) ex_merge = false.
Proof. split; vm_compute; reflexivity. Qed.
